import BqVerif.Proofs.Partition
/-!
Safety of the emission machine `QuickSpec` (Model/Partition.lean): every legal move
keeps, on every qudit, `timeline(out) ++ timeline(rem) = timeline(input)`, and keeps
every emitted group well-formed.
-/
namespace BqVerif.Partition
open BqVerif.Circ BqVerif.Sem

def gops (g : Group) : List Op := g.ops.map (·.op)
def remOps (s : QState) : List Op := s.rem.map (·.op)

theorem outOps_eq (s : QState) : outOps s = s.out.flatMap gops := rfl

theorem tagOps_map : ∀ (i : Nat) (l : List Op), (tagOps i l).map (·.op) = l
  | _, [] => rfl
  | i, o :: os => by simp [tagOps, tagOps_map (i + 1) os]

theorem disjointL_spec {a c : List Nat} (h : disjointL a c = true) {q : Nat} (hq : q ∈ a) :
    q ∉ c := by
  unfold disjointL at h
  have := List.all_eq_true.mp h q hq
  simpa using this

theorem proj_cons_on {q : Nat} {o : Op} {l : List Op} (h : o.on q = true) :
    proj q (o :: l) = o :: proj q l := by simp [proj, h]
theorem proj_cons_off {q : Nat} {o : Op} {l : List Op} (h : o.on q = false) :
    proj q (o :: l) = proj q l := by simp [proj, h]

theorem proj_eq_nil_iff {q : Nat} {l : List Op} : proj q l = [] ↔ ∀ o ∈ l, o.on q = false := by
  unfold proj
  rw [List.filter_eq_nil_iff]
  constructor
  · intro h o ho; simpa using h o ho
  · intro h o ho; simp [h o ho]

/-! ### emit -/
theorem emit_proj (tags : List Nat) (q : Nat) : ∀ (rem : List TOp), closedIn tags rem = true →
    proj q ((rem.filter (fun x => tags.contains x.tag)).map (·.op)) ++
      proj q ((rem.filter (fun x => !tags.contains x.tag)).map (·.op)) = proj q (rem.map (·.op))
  | [], _ => rfl
  | x :: t, h => by
    unfold closedIn at h
    rw [Bool.and_eq_true] at h
    have ih := emit_proj tags q t h.2
    by_cases hx : tags.contains x.tag = true
    · simp only [List.filter_cons, hx, Bool.not_true, if_true, List.map_cons]
      simp only [Bool.false_eq_true, if_false]
      by_cases hq : x.op.on q = true
      · rw [proj_cons_on hq, proj_cons_on hq, List.cons_append, ih]
      · have hq' : x.op.on q = false := by simpa using hq
        rw [proj_cons_off hq', proj_cons_off hq', ih]
    · have hx' : tags.contains x.tag = false := by simpa using hx
      have hall := h.1
      rw [hx', Bool.false_or] at hall
      simp only [List.filter_cons, hx', Bool.not_false, if_true, List.map_cons]
      simp only [Bool.false_eq_true, if_false]
      by_cases hq : x.op.on q = true
      · -- nothing of the group touches q
        have hnil : proj q ((t.filter (fun x => tags.contains x.tag)).map (·.op)) = [] := by
          rw [proj_eq_nil_iff]
          intro o ho
          obtain ⟨y, hy, rfl⟩ := List.mem_map.mp ho
          obtain ⟨hyt, hyT⟩ := List.mem_filter.mp hy
          have := List.all_eq_true.mp hall y hyt
          rw [hyT] at this
          simp only [Bool.not_true, Bool.false_or] at this
          have hd := disjointL_spec this ((on_iff _ _).mp hq)
          cases hon : y.op.on q with
          | false => rfl
          | true => exact absurd ((on_iff _ _).mp hon) hd
        rw [proj_cons_on hq, proj_cons_on hq, hnil, List.nil_append, ← ih, hnil, List.nil_append]
      · have hq' : x.op.on q = false := by simpa using hq
        rw [proj_cons_off hq', proj_cons_off hq', ih]

theorem emit_perm (tags : List Nat) (rem : List TOp) :
    ((rem.filter (fun x => tags.contains x.tag)).map (·.op) ++
      (rem.filter (fun x => !tags.contains x.tag)).map (·.op)).Perm (rem.map (·.op)) := by
  rw [← List.map_append]
  exact (List.filter_append_perm _ rem).map _

/-! ### lift -/
theorem proj_comm_disjoint (q : Nat) (A B : List Op)
    (h : ∀ a ∈ A, ∀ c ∈ B, disjointL a.loc c.loc = true) :
    proj q (A ++ B) = proj q (B ++ A) := by
  rw [proj_append, proj_append]
  by_cases hA : proj q A = []
  · rw [hA]; simp
  · have hB : proj q B = [] := by
      rw [proj_eq_nil_iff]
      intro c hc
      obtain ⟨a, ha⟩ := List.exists_mem_of_ne_nil _ hA
      have haA : a ∈ A := (List.mem_filter.mp ha).1
      have hon : a.on q = true := (List.mem_filter.mp ha).2
      have hd := disjointL_spec (h a haA c hc) ((on_iff _ _).mp hon)
      cases hc' : c.on q with
      | false => rfl
      | true => exact absurd ((on_iff _ _).mp hc') hd
    rw [hB]; simp

theorem groupDisjoint_spec {r h : Group} (hd : groupDisjoint r h = true) :
    ∀ a ∈ gops r, ∀ c ∈ gops h, disjointL a.loc c.loc = true := by
  intro a ha c hc
  obtain ⟨x, hx, rfl⟩ := List.mem_map.mp ha
  obtain ⟨y, hy, rfl⟩ := List.mem_map.mp hc
  unfold groupDisjoint at hd
  exact List.all_eq_true.mp (List.all_eq_true.mp hd x hx) y hy

theorem getElem?_split {α : Type} {l : List α} {j : Nat} {r : α} (h : l[j]? = some r) :
    l = l.take j ++ r :: l.drop (j + 1) := by
  obtain ⟨hj, hr⟩ := List.getElem?_eq_some_iff.mp h
  rw [← hr, ← List.drop_eq_getElem_cons hj, List.take_append_drop]

theorem lift_proj (q : Nat) (r : Group) (X : List Group)
    (h : X.all (fun g => groupDisjoint r g) = true) :
    proj q (gops r ++ X.flatMap gops) = proj q (X.flatMap gops ++ gops r) := by
  apply proj_comm_disjoint
  intro a ha c hc
  obtain ⟨g, hg, hcg⟩ := List.mem_flatMap.mp hc
  exact groupDisjoint_spec (List.all_eq_true.mp h g hg) a ha c hcg

/-! ### well-formed groups -/
def GroupOk (bg : List Nat) (k : Nat) (g : Group) : Prop :=
  if g.blk then (∀ x ∈ g.ops, barrierLike bg x.op = false) ∧ groupWidthOk k g.ops = true
  else ∃ x, g.ops = [x] ∧ barrierLike bg x.op = true

/-- the invariant of the machine for input `l` -/
structure QInv (bg : List Nat) (k : Nat) (l : List Op) (s : QState) : Prop where
  tl : ∀ q, proj q (outOps s) ++ proj q (remOps s) = proj q l
  perm : (outOps s ++ remOps s).Perm l
  ok : ∀ g ∈ s.out, GroupOk bg k g

theorem qinv_init (bg : List Nat) (k : Nat) (l : List Op) : QInv bg k l (QState.init l) := by
  refine ⟨?_, ?_, ?_⟩
  · intro q; simp [QState.init, outOps, remOps, tagOps_map, proj]
  · simp [QState.init, outOps, remOps, tagOps_map]
  · intro g hg; simp [QState.init] at hg

theorem flatMap_gops_append (A B : List Group) :
    (A ++ B).flatMap gops = A.flatMap gops ++ B.flatMap gops := by simp

theorem qinv_emit {bg : List Nat} {k : Nat} {l : List Op} {s s' : QState} {tags : List Nat}
    {blk : Bool} (hinv : QInv bg k l s) (hstep : qEmit bg k s tags blk = some s') :
    QInv bg k l s' := by
  unfold qEmit at hstep
  simp only [] at hstep
  split at hstep
  · rename_i hguard
    simp only [Bool.and_eq_true] at hguard
    obtain ⟨⟨_, hclosed⟩, hkind⟩ := hguard
    injection hstep with hs'
    subst hs'
    refine ⟨?_, ?_, ?_⟩
    · intro q
      have := hinv.tl q
      simp only [outOps_eq, remOps] at this ⊢
      rw [flatMap_gops_append, proj_append, List.append_assoc]
      simp only [List.flatMap_cons, List.flatMap_nil, List.append_nil, gops]
      rw [emit_proj tags q s.rem hclosed]
      exact this
    · have := hinv.perm
      simp only [outOps_eq, remOps] at this ⊢
      rw [flatMap_gops_append, List.append_assoc]
      simp only [List.flatMap_cons, List.flatMap_nil, List.append_nil, gops]
      exact ((emit_perm tags s.rem).append_left _).trans this
    · intro g hg
      rcases List.mem_append.mp hg with hg | hg
      · exact hinv.ok g hg
      · simp only [List.mem_singleton] at hg
        subst hg
        unfold GroupOk
        unfold kindOk at hkind
        cases blk with
        | true =>
          simp only [if_true, Bool.and_eq_true, List.all_eq_true, Bool.not_eq_true'] at hkind ⊢
          exact hkind
        | false =>
          simp only [Bool.false_eq_true, if_false] at hkind ⊢
          split at hkind
          · rename_i x hx
            exact ⟨x, hx, hkind⟩
          · exact absurd hkind (by simp)
  · exact absurd hstep (by simp)

theorem qinv_lift {bg : List Nat} {k : Nat} {l : List Op} {s s' : QState} {j m : Nat}
    (hinv : QInv bg k l s) (hstep : qLift s j m = some s') : QInv bg k l s' := by
  unfold qLift at hstep
  split at hstep
  · exact absurd hstep (by simp)
  · rename_i r hr
    simp only [] at hstep
    split at hstep
    · rename_i hguard
      simp only [Bool.and_eq_true, decide_eq_true_eq] at hguard
      obtain ⟨_, hdisj⟩ := hguard
      injection hstep with hs'
      subst hs'
      have hsplit := getElem?_split hr
      have htail : s.out.drop (j + 1) =
          (s.out.drop (j + 1)).take ((s.out.drop (j + 1)).length - m) ++
          (s.out.drop (j + 1)).drop ((s.out.drop (j + 1)).length - m) :=
        (List.take_append_drop _ _).symm
      generalize hX : (s.out.drop (j + 1)).take ((s.out.drop (j + 1)).length - m) = X at *
      generalize hC : (s.out.drop (j + 1)).drop ((s.out.drop (j + 1)).length - m) = C at *
      generalize hA : s.out.take j = A at *
      have hout : s.out = A ++ r :: (X ++ C) := by rw [hsplit, htail]
      have hops_old : outOps s =
          A.flatMap gops ++ (gops r ++ X.flatMap gops) ++ C.flatMap gops := by
        rw [outOps_eq, hout]; simp
      have hops_new : outOps ⟨s.rem, A ++ X ++ r :: C⟩ =
          A.flatMap gops ++ (X.flatMap gops ++ gops r) ++ C.flatMap gops := by
        rw [outOps_eq]; simp
      refine ⟨?_, ?_, ?_⟩
      · intro q
        have := hinv.tl q
        rw [hops_old] at this
        rw [hops_new]
        simp only [proj_append] at this ⊢
        rw [← proj_append q (X.flatMap gops), ← lift_proj q r X hdisj, proj_append]
        exact this
      · have := hinv.perm
        rw [hops_old] at this
        rw [hops_new]
        refine List.Perm.trans ?_ this
        apply List.Perm.append_right
        apply List.Perm.append_right
        apply List.Perm.append_left
        exact List.perm_append_comm
      · intro g hg
        apply hinv.ok g
        rw [hout]
        simp only [List.mem_append, List.mem_cons] at hg ⊢
        tauto
    · exact absurd hstep (by simp)

theorem qinv_fuse {bg : List Nat} {k : Nat} {l : List Op} {s s' : QState}
    (hinv : QInv bg k l s) (hstep : qFuse k s = some s') : QInv bg k l s' := by
  unfold qFuse at hstep
  split at hstep
  · rename_i r2 r1 rest hrev
    split at hstep
    · rename_i hguard
      simp only [Bool.and_eq_true] at hguard
      obtain ⟨⟨hb1, hb2⟩, hw⟩ := hguard
      injection hstep with hs'
      subst hs'
      have hout : s.out = rest.reverse ++ [r1, r2] := by
        have := congrArg List.reverse hrev
        simpa using this
      have hops_old : outOps s = rest.reverse.flatMap gops ++ (gops r1 ++ gops r2) := by
        rw [outOps_eq, hout]; simp
      have hops_new : outOps ⟨s.rem, rest.reverse ++ [⟨r1.ops ++ r2.ops, true⟩]⟩ =
          rest.reverse.flatMap gops ++ (gops r1 ++ gops r2) := by
        rw [outOps_eq]; simp [gops]
      refine ⟨?_, ?_, ?_⟩
      · intro q; rw [hops_new, ← hops_old]; exact hinv.tl q
      · rw [hops_new, ← hops_old]; exact hinv.perm
      · intro g hg
        rcases List.mem_append.mp hg with hg | hg
        · exact hinv.ok g (by rw [hout]; exact List.mem_append.mpr (Or.inl hg))
        · simp only [List.mem_singleton] at hg
          subst hg
          have ok1 := hinv.ok r1 (by rw [hout]; simp)
          have ok2 := hinv.ok r2 (by rw [hout]; simp)
          unfold GroupOk at ok1 ok2 ⊢
          rw [hb1] at ok1
          rw [hb2] at ok2
          simp only [if_true] at ok1 ok2 ⊢
          refine ⟨?_, hw⟩
          intro x hx
          rcases List.mem_append.mp hx with hx | hx
          · exact ok1.1 x hx
          · exact ok2.1 x hx
    · exact absurd hstep (by simp)
  · exact absurd hstep (by simp)

theorem qinv_step {bg : List Nat} {k : Nat} {l : List Op} {s s' : QState} {m : QMove}
    (hinv : QInv bg k l s) (hstep : qstep bg k s m = some s') : QInv bg k l s' := by
  cases m with
  | emit tags blk => exact qinv_emit hinv hstep
  | lift j m => exact qinv_lift hinv hstep
  | fuse => exact qinv_fuse hinv hstep

theorem qinv_run {bg : List Nat} {k : Nat} {l : List Op} :
    ∀ (ms : List QMove) (s s' : QState) (i : Nat), QInv bg k l s →
      qrun bg k s ms i = .ok s' → QInv bg k l s'
  | [], s, s', _, hinv, h => by
    unfold qrun at h
    injection h with h
    subst h
    exact hinv
  | m :: ms, s, s', i, hinv, h => by
    unfold qrun at h
    split at h
    · rename_i s1 hs1
      exact qinv_run ms s1 s' (i + 1) (qinv_step hinv hs1) h
    · exact absurd h (by simp)

end BqVerif.Partition
