import BqVerif.Proofs.CircKahn
import BqVerif.Proofs.CircViews
import BqVerif.Proofs.CircRel
/-! `Circ.iterKahn` (the heap-ordered Kahn walk of `CircuitDagIterator`) is an instance of the
abstract loop of `CircKahn.lean`; under `Inv` it outputs the row-major order `iterCyc`. -/
namespace BqVerif.Circ

def cValid (c : Circ) (p : Pt) : Bool := (c.cell p.1 p.2).isSome
def cSucc (c : Circ) (p : Pt) : List Pt :=
  match c.cell p.1 p.2 with
  | some o => c.next p.1 o
  | none => []
def cTotal (c : Circ) (p : Pt) : Nat :=
  match c.cell p.1 p.2 with
  | some so => (c.prev p.1 so).length
  | none => 0
def cOut (c : Circ) (p : Pt) : Option (Nat × Op) := (c.cell p.1 p.2).map (fun o => (p.1, o))

def KState.toA (s : KState) : AState := ⟨s.frontier, s.counts⟩

theorem kfold_gen (total : Pt → Nat) (F : KState → Pt → KState)
    (hF : ∀ s x, (F s x).toA = aStep total s.toA x ∧ (F s x).out = s.out)
    (l : List Pt) (s : KState) :
    (l.foldl F s).toA = l.foldl (aStep total) s.toA ∧ (l.foldl F s).out = s.out := by
  induction l generalizing s with
  | nil => exact ⟨rfl, rfl⟩
  | cons a t ih =>
    simp only [List.foldl_cons]
    obtain ⟨h1, h2⟩ := ih (F s a)
    rw [h1, h2, (hF s a).1, (hF s a).2]; exact ⟨rfl, rfl⟩

/-- the body of the successor fold of `Circ.kahnLoop` -/
def kahnStep (c : Circ) (s : KState) (succ : Pt) : KState :=
  let cs := kBump s.counts succ
  let total := match c.cell succ.1 succ.2 with
    | some so => (c.prev succ.1 so).length
    | none => 0
  if kCount cs succ == total then { s with counts := cs, frontier := insertPt succ s.frontier }
  else { s with counts := cs }

theorem kahnStep_toA (c : Circ) (s : KState) (x : Pt) :
    (kahnStep c s x).toA = aStep (cTotal c) s.toA x ∧ (kahnStep c s x).out = s.out := by
  unfold kahnStep aStep cTotal KState.toA
  cases hc : c.cell x.1 x.2 <;> dsimp only <;> split <;> exact ⟨rfl, rfl⟩

/-- the concrete loop is the abstract loop, its output read back through the grid -/
theorem kahnLoop_eq (c : Circ) (fuel : Nat) (s : KState) :
    c.kahnLoop fuel s = s.out ++
      (aLoop (cValid c) (cSucc c) (cTotal c) fuel s.toA).filterMap (cOut c) := by
  induction fuel generalizing s with
  | zero => simp [Circ.kahnLoop, aLoop]
  | succ fuel ih =>
    rw [Circ.kahnLoop]
    cases hf : s.frontier with
    | nil => simp [aLoop, KState.toA, hf]
    | cons p rest =>
      simp only []
      cases hc : c.cell p.1 p.2 with
      | none => simp [aLoop, KState.toA, hf, cValid, hc]
      | some o =>
        simp only []
        show c.kahnLoop fuel
          { frontier := (List.foldl (kahnStep c) ⟨rest, s.counts, s.out⟩ (c.next p.1 o)).frontier,
            counts := (List.foldl (kahnStep c) ⟨rest, s.counts, s.out⟩ (c.next p.1 o)).counts,
            out := (List.foldl (kahnStep c) ⟨rest, s.counts, s.out⟩ (c.next p.1 o)).out ++
              [(p.1, o)] } = _
        obtain ⟨h1, h2⟩ := kfold_gen (cTotal c) (kahnStep c) (kahnStep_toA c) (c.next p.1 o)
          ⟨rest, s.counts, s.out⟩
        rw [ih]
        have e1 : aLoop (cValid c) (cSucc c) (cTotal c) (fuel + 1) s.toA =
            p :: aLoop (cValid c) (cSucc c) (cTotal c) fuel
              ((c.next p.1 o).foldl (aStep (cTotal c)) ⟨rest, s.counts⟩) := by
          simp [aLoop, KState.toA, hf, cValid, cSucc, hc]
        rw [e1, List.filterMap_cons]
        have e2 : cOut c p = some (p.1, o) := by simp [cOut, hc]
        rw [e2]
        dsimp only
        rw [h2]
        simp only [KState.toA] at h1 ⊢
        rw [h1]
        simp

/-! ## the instance: points of the grid, ordered by `(cycle, location[0])` -/

theorem head_mem_loc (o : Op) (h : o.loc ≠ []) : o.head ∈ o.loc := by
  unfold Op.head
  cases hl : o.loc with
  | nil => exact absurd hl h
  | cons a t => simp

/-- the points of all operations in row-major order -/
def ptsFrom (l : List Cycle) (s : Nat) : List Pt :=
  ((l.zipIdx s).flatMap (fun (cy, i) => (sortBy Op.head cy).map (fun o => (i, o)))).map
    (fun x => (x.1, x.2.head))
def Circ.pts (c : Circ) : List Pt := c.iterCyc.map (fun x => (x.1, x.2.head))

theorem pts_eq (c : Circ) : c.pts = ptsFrom c.cycles 0 := rfl

theorem ptsFrom_cons (a : Cycle) (t : List Cycle) (s : Nat) :
    ptsFrom (a :: t) s = (sortBy Op.head a).map (fun o => (s, o.head)) ++ ptsFrom t (s + 1) := by
  simp [ptsFrom, List.zipIdx_cons, List.flatMap_cons, List.map_append, List.map_map,
    Function.comp_def]

theorem mem_pts (c : Circ) (p : Pt) :
    p ∈ c.pts ↔ ∃ k o, (∃ h : k < c.cycles.length, o ∈ c.cycles[k]) ∧ p = (k, o.head) := by
  simp only [Circ.pts, List.mem_map, Prod.exists]
  constructor
  · rintro ⟨k, o, hm, rfl⟩; exact ⟨k, o, (mem_iterCyc c k o).1 hm, rfl⟩
  · rintro ⟨k, o, hm, rfl⟩; exact ⟨k, o, (mem_iterCyc c k o).2 hm, rfl⟩

theorem cell_head (c : Circ) (hinv : c.Inv) (k : Nat) (o : Op) (hlt : k < c.cycles.length)
    (hm : o ∈ c.cycles[k]) : c.cell k o.head = some o :=
  cell_of_mem c hinv k o.head o hlt hm
    (head_mem_loc o (hinv.2.2 _ (List.getElem_mem hlt) o hm).1)

/-- within a cycle the `location[0]` identifies the operation -/
theorem same_head (c : Circ) (hinv : c.Inv) (k : Nat) (o o' : Op) (hlt : k < c.cycles.length)
    (hm : o ∈ c.cycles[k]) (hm' : o' ∈ c.cycles[k]) (hh : o.head = o'.head) : o = o' := by
  have h1 := cell_head c hinv k o hlt hm
  have h2 := cell_head c hinv k o' hlt hm'
  rw [hh, h2] at h1
  exact (Option.some.inj h1).symm

theorem insertBy_sortedLt (x : Op) (l : List Op) (hs : l.Pairwise (fun a b => a.head < b.head))
    (hx : ∀ y ∈ l, x.head ≠ y.head) :
    (insertBy Op.head x l).Pairwise (fun a b => a.head < b.head) := by
  induction l with
  | nil => simp [insertBy]
  | cons y ys ih =>
    have hs' := List.pairwise_cons.mp hs
    simp only [insertBy]
    split
    · rename_i hle
      have hne := hx y (by simp)
      have hlt : x.head < y.head := by omega
      rw [List.pairwise_cons]
      refine ⟨?_, hs⟩
      intro z hz
      rcases List.mem_cons.mp hz with rfl | hz
      · exact hlt
      · exact Nat.lt_trans hlt (hs'.1 z hz)
    · rename_i hle
      have hlt : y.head < x.head := by omega
      rw [List.pairwise_cons]
      refine ⟨?_, ih hs'.2 (fun z hz => hx z (by simp [hz]))⟩
      intro z hz
      rcases (mem_insertBy _ x z ys).1 hz with rfl | hz
      · exact hlt
      · exact hs'.1 z hz

theorem sortBy_sortedLt (cy : Cycle) (hd : cy.Pairwise (fun a b => a.head ≠ b.head)) :
    (sortBy Op.head cy).Pairwise (fun a b => a.head < b.head) := by
  induction cy with
  | nil => simp [sortBy]
  | cons a t ih =>
    have hd' := List.pairwise_cons.mp hd
    have e : sortBy Op.head (a :: t) = insertBy Op.head a (sortBy Op.head t) := rfl
    rw [e]
    exact insertBy_sortedLt a _ (ih hd'.2) (fun y hy => hd'.1 y ((mem_sortBy _ _ _).1 hy))

theorem ptsFrom_sorted (l : List Cycle) (s : Nat)
    (h : ∀ cy ∈ l, cy.Pairwise (fun a b => a.head ≠ b.head)) :
    (ptsFrom l s).Pairwise ptLt ∧ ∀ x ∈ ptsFrom l s, s ≤ x.1 := by
  induction l generalizing s with
  | nil => simp [ptsFrom]
  | cons a t ih =>
    obtain ⟨i1, i2⟩ := ih (s + 1) (fun cy hcy => h cy (by simp [hcy]))
    rw [ptsFrom_cons]
    constructor
    · rw [List.pairwise_append]
      refine ⟨?_, i1, ?_⟩
      · rw [List.pairwise_map]
        apply List.Pairwise.imp _ (sortBy_sortedLt a (h a (by simp)))
        intro x y hxy
        right; exact ⟨rfl, hxy⟩
      · intro x hx y hy
        rw [List.mem_map] at hx
        obtain ⟨o, _, rfl⟩ := hx
        have := i2 y hy
        left; show s < y.1; omega
    · intro x hx
      rcases List.mem_append.mp hx with hx | hx
      · rw [List.mem_map] at hx
        obtain ⟨o, _, rfl⟩ := hx
        exact Nat.le_refl _
      · have := i2 x hx; omega

theorem heads_distinct (c : Circ) (hinv : c.Inv) :
    ∀ cy ∈ c.cycles, cy.Pairwise (fun a b => a.head ≠ b.head) := by
  intro cy hcy
  apply List.Pairwise.imp_of_mem _ (hinv.2.1 cy hcy)
  intro a b ha hb hab hh
  have h1 := head_mem_loc a (hinv.2.2 cy hcy a ha).1
  have h2 := head_mem_loc b (hinv.2.2 cy hcy b hb).1
  rw [hh] at h1
  exact hab _ h1 h2

theorem pts_sorted (c : Circ) (hinv : c.Inv) : c.pts.Pairwise ptLt :=
  (ptsFrom_sorted c.cycles 0 (heads_distinct c hinv)).1

theorem pts_nodup (c : Circ) (hinv : c.Inv) : c.pts.Nodup :=
  (pts_sorted c hinv).imp (fun h => ptLt_ne h)

/-! ## edges -/
theorem next_mem (c : Circ) (k : Nat) (o : Op) (s : Pt) (hs : s ∈ c.next k o) :
    s ∈ c.pts ∧ k < s.1 := by
  obtain ⟨q, _, hq⟩ := (mem_next c k o s).1 hs
  obtain ⟨j, x, hlt, hc, rfl, _⟩ := (nextOn_spec c k q s).1 hq
  obtain ⟨hj, hx, _⟩ := cell_mem c j q x hc
  exact ⟨(mem_pts c _).2 ⟨j, x, ⟨hj, hx⟩, rfl⟩, hlt⟩

theorem prev_mem (c : Circ) (j : Nat) (x : Op) (s : Pt) (hs : s ∈ c.prev j x) : s ∈ c.pts := by
  obtain ⟨q, _, hq⟩ := (mem_prev c j x s).1 hs
  obtain ⟨k, o, _, hc, rfl, _⟩ := (prevOn_spec c j q s).1 hq
  obtain ⟨hk, ho, _⟩ := cell_mem c k q o hc
  exact (mem_pts c _).2 ⟨k, o, ⟨hk, ho⟩, rfl⟩

/-- `x` is a successor of `o` iff `o` is a predecessor of `x` -/
theorem next_iff_prev (c : Circ) (hinv : c.Inv) (k j : Nat) (o x : Op)
    (hk : k < c.cycles.length) (ho : o ∈ c.cycles[k])
    (hj : j < c.cycles.length) (hx : x ∈ c.cycles[j]) :
    (j, x.head) ∈ c.next k o ↔ (k, o.head) ∈ c.prev j x := by
  rw [mem_next, mem_prev]
  constructor
  · rintro ⟨q, hqo, hn⟩
    obtain ⟨j', x', _, hc, hp, _⟩ := (nextOn_spec c k q _).1 hn
    have hjj : j = j' := by simpa using congrArg Prod.fst hp
    subst hjj
    have hhd : x.head = x'.head := by simpa using congrArg Prod.snd hp
    obtain ⟨_, hx', hqx'⟩ := cell_mem c j q x' hc
    have hxx := same_head c hinv j x x' hj hx hx' hhd
    subst hxx
    exact ⟨q, hqx', (nextOn_iff_prevOn c k j q o x (cell_of_mem c hinv k q o hk ho hqo) hc).1 hn⟩
  · rintro ⟨q, hqx, hn⟩
    obtain ⟨k', o', _, hc, hp, _⟩ := (prevOn_spec c j q _).1 hn
    have hkk : k = k' := by simpa using congrArg Prod.fst hp
    subst hkk
    have hhd : o.head = o'.head := by simpa using congrArg Prod.snd hp
    obtain ⟨_, ho', hqo'⟩ := cell_mem c k q o' hc
    have hoo := same_head c hinv k o o' hk ho ho' hhd
    subst hoo
    exact ⟨q, hqo', (nextOn_iff_prevOn c k j q o x hc (cell_of_mem c hinv j q x hj hx hqx)).2 hn⟩

theorem countP_mem_nodup (A B : List Pt) (hA : A.Nodup) (hB : B.Nodup)
    (hsub : ∀ a ∈ A, a ∈ B) : B.countP (fun b => A.contains b) = A.length := by
  rw [List.countP_eq_length_filter]
  apply List.Perm.length_eq
  rw [List.perm_ext_iff_of_nodup (hB.filter _) hA]
  intro a
  simp only [List.mem_filter, List.contains_iff_mem]
  constructor
  · rintro ⟨_, h⟩; exact h
  · intro h; exact ⟨hsub a h, h⟩

theorem cSucc_pt (c : Circ) (hinv : c.Inv) (k : Nat) (o : Op) (hk : k < c.cycles.length)
    (ho : o ∈ c.cycles[k]) : cSucc c (k, o.head) = c.next k o := by
  simp [cSucc, cell_head c hinv k o hk ho]

theorem cTotal_pt (c : Circ) (hinv : c.Inv) (k : Nat) (o : Op) (hk : k < c.cycles.length)
    (ho : o ∈ c.cycles[k]) : cTotal c (k, o.head) = (c.prev k o).length := by
  simp [cTotal, cell_head c hinv k o hk ho]

/-- **the heap-ordered Kahn walk yields the row-major order** -/
theorem iterKahn_eq_iterCyc (c : Circ) (hinv : c.Inv) : c.iterKahn = c.iterCyc := by
  unfold Circ.iterKahn
  rw [kahnLoop_eq]
  simp only [KState.toA, List.nil_append]
  have hmain := aLoop_from_front (cValid c) (cSucc c) (cTotal c) c.pts c.front (c.numOps + 1)
    (pts_sorted c hinv) ?hvalid ?hnd ?hsucc ?htot (front_nodup c) ?hfm ?hfuel
  case hvalid =>
    intro p hp
    obtain ⟨k, o, ⟨hk, ho⟩, rfl⟩ := (mem_pts c p).1 hp
    simp [cValid, cell_head c hinv k o hk ho]
  case hnd =>
    intro p hp
    obtain ⟨k, o, ⟨hk, ho⟩, rfl⟩ := (mem_pts c p).1 hp
    rw [cSucc_pt c hinv k o hk ho]; exact next_nodup c k o
  case hsucc =>
    intro p hp x hx
    obtain ⟨k, o, ⟨hk, ho⟩, rfl⟩ := (mem_pts c p).1 hp
    rw [cSucc_pt c hinv k o hk ho] at hx
    obtain ⟨h1, h2⟩ := next_mem c k o x hx
    exact ⟨h1, Or.inl h2⟩
  case htot =>
    intro x hx
    obtain ⟨j, xo, ⟨hj, hxo⟩, rfl⟩ := (mem_pts c x).1 hx
    rw [cTotal_pt c hinv j xo hj hxo,
      ← countP_mem_nodup (c.prev j xo) c.pts (prev_nodup c j xo) (pts_nodup c hinv)
        (fun a ha => prev_mem c j xo a ha)]
    apply List.countP_congr
    intro r hr
    obtain ⟨k, o, ⟨hk, ho⟩, rfl⟩ := (mem_pts c r).1 hr
    rw [cSucc_pt c hinv k o hk ho]
    simp only [List.contains_iff_mem]
    exact (next_iff_prev c hinv k j o xo hk ho hj hxo).symm
  case hfm =>
    intro x
    rw [mem_front]
    constructor
    · rintro ⟨k, o, hm, he, rfl⟩
      obtain ⟨hk, ho⟩ := (mem_iterCyc c k o).1 hm
      exact ⟨(mem_pts c _).2 ⟨k, o, ⟨hk, ho⟩, rfl⟩, by rw [cTotal_pt c hinv k o hk ho, he]; rfl⟩
    · rintro ⟨hx, h0⟩
      obtain ⟨k, o, ⟨hk, ho⟩, rfl⟩ := (mem_pts c x).1 hx
      rw [cTotal_pt c hinv k o hk ho] at h0
      exact ⟨k, o, (mem_iterCyc c k o).2 ⟨hk, ho⟩, List.eq_nil_of_length_eq_zero h0, rfl⟩
  case hfuel =>
    have h1 : c.pts.length = c.iter.length := by
      rw [iter_eq_map_iterCyc]; simp [Circ.pts]
    rw [h1, (iter_perm_ops c).length_eq]
    simp [Circ.numOps]
  rw [hmain]
  -- reading the points back through the grid
  unfold Circ.pts
  rw [List.filterMap_map]
  have : ∀ x ∈ c.iterCyc, (cOut c ∘ fun x => (x.1, x.2.head)) x = some x := by
    intro x hx
    obtain ⟨k, o⟩ := x
    obtain ⟨hk, ho⟩ := (mem_iterCyc c k o).1 hx
    simp [cOut, cell_head c hinv k o hk ho]
  rw [List.filterMap_congr this]
  simp

end BqVerif.Circ
