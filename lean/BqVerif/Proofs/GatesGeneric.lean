import BqVerif.Proofs.GatesBase
import Mathlib.Tactic.IntervalCases
import Mathlib.LinearAlgebra.Matrix.SemiringInverse
/-! Generic facts about model matrices (any size): dagger, monomial matrices, products. -/
namespace BqVerif.Gates
open Matrix

variable {R : Type} [CommRing R] [StarRing R]

theorem toM_dagger (n : Nat) (U : M R) : toM n (dagger U) = (toM n U)ᴴ := by
  ext i j; simp [toM, dagger, Conj.conj, Matrix.conjTranspose_apply]

/-- for square matrices over a commutative ring a right inverse is a left inverse -/
theorem IsUnitary.left {n : Nat} {U : M R} (h : IsUnitary n U) : (toM n U)ᴴ * toM n U = 1 :=
  mul_eq_one_comm.mp h

/-- a matrix with exactly one entry per row, in pairwise different columns, each of
modulus one, is unitary -/
theorem mono_unitary (n : Nat) (col : Nat → Nat) (ph : Nat → R)
    (hlt : ∀ i, i < n → col i < n)
    (hinj : ∀ i, i < n → ∀ j, j < n → col i = col j → i = j)
    (hph : ∀ i, i < n → ph i * star (ph i) = 1) : IsUnitary n (mono col ph) := by
  unfold IsUnitary
  ext i k
  simp only [Matrix.mul_apply, Matrix.conjTranspose_apply, toM, mono, Matrix.one_apply]
  rw [Finset.sum_eq_single (⟨col i, hlt i i.2⟩ : Fin n)]
  · by_cases h : i = k
    · subst h; simp [hph i i.2]
    · have : col i ≠ col k := fun e => h (Fin.ext (hinj i i.2 k k.2 e))
      simp [h, Ne.symm this]
  · intro b _ hb
    have : col i ≠ b.val := fun e => hb (Fin.ext e.symm)
    simp [this]
  · intro h; exact absurd (Finset.mem_univ _) h

end BqVerif.Gates
