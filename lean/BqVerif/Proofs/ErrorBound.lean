import BqVerif.Model.Control
import Mathlib.Algebra.BigOperators.Group.List.Basic
import Mathlib.Algebra.Order.Monoid.Defs
import Mathlib.Tactic.Ring
import Mathlib.Tactic.Linarith
/-!
# The error bound of ForEachBlockPass

* `dist_prod_le` (S5 of DESIGN.md §3.1): for a bi-invariant pseudo-metric on a group the distance of
  two products is at most the sum of the factor-wise distances.
* `updateErrorMul_eq`: the reported bound `E' = 1 − (1−E)(1−S)` satisfies `E + S = E' + E·S`.
-/
namespace BqVerif.Control

theorem dist_prod_le {G α : Type} [Group G] [AddCommMonoid α] [PartialOrder α] [IsOrderedAddMonoid α]
    (d : G → G → α)
    (hl : ∀ g a b, d (g * a) (g * b) = d a b) (hr : ∀ g a b, d (a * g) (b * g) = d a b)
    (htri : ∀ a b c, d a c ≤ d a b + d b c) (hrefl : ∀ a, d a a = 0) :
    ∀ (l : List (G × G)),
      d (l.map Prod.fst).prod (l.map Prod.snd).prod ≤ (l.map (fun p => d p.1 p.2)).sum := by
  intro l
  induction l with
  | nil => simp [hrefl]
  | cons p l ih =>
    simp only [List.map_cons, List.prod_cons, List.sum_cons]
    calc d (p.1 * (l.map Prod.fst).prod) (p.2 * (l.map Prod.snd).prod)
        ≤ d (p.1 * (l.map Prod.fst).prod) (p.2 * (l.map Prod.fst).prod)
          + d (p.2 * (l.map Prod.fst).prod) (p.2 * (l.map Prod.snd).prod) := htri _ _ _
      _ = d p.1 p.2 + d (l.map Prod.fst).prod (l.map Prod.snd).prod := by rw [hr, hl]
      _ ≤ d p.1 p.2 + (l.map (fun p => d p.1 p.2)).sum := by gcongr

/-- `update_error_mul`: the new bound plus the second-order term is the sum of the old bound and the
added error -/
theorem updateErrorMul_eq (d : PData) (S : ℚ) :
    d.error + S = (d.updateErrorMul S).error + d.error * S := by
  simp only [PData.updateErrorMul]
  ring

theorem updateErrorMul_ge (d : PData) (S : ℚ) (hE : 0 ≤ d.error) (hE1 : d.error ≤ 1) (hS : 0 ≤ S)
    (hS1 : S ≤ 1) :
    d.error ≤ (d.updateErrorMul S).error ∧ S ≤ (d.updateErrorMul S).error ∧
      (d.updateErrorMul S).error ≤ 1 := by
  simp only [PData.updateErrorMul]
  refine ⟨?_, ?_, ?_⟩ <;> nlinarith

end BqVerif.Control
