import BqVerif.Proofs.Sem
import BqVerif.Model.Partition
/-!
What acceptance by `validPartition` means (helper lemmas for `Props/C08.lean`).
-/
namespace BqVerif.Partition
open BqVerif.Circ BqVerif.Sem

variable {b : Blocks} {bg : List Nat} {strict : Bool} {c p : Circ} {k : Nat}

/-- the clauses of an accepted partition, as propositions about Booleans -/
theorem valid_unpack (h : validPartition b bg strict c p k = none) :
    p.radixes = c.radixes ∧
    (flat b p.ops).any (isBlock b) = false ∧ (flat b c.ops).any (isBlock b) = false ∧
    (flat b p.ops).all (opOk c.numQudits) = true ∧ (flat b c.ops).all (opOk c.numQudits) = true ∧
    p.ops.all (topOk b bg strict) = true ∧ p.ops.all (widthOk b k c) = true ∧
    sameTimelines c.numQudits (flat b p.ops) (flat b c.ops) = true ∧
    p.ops.all (noBarrierInside b bg) = true ∧ p.invB = true := by
  unfold validPartition at h
  simp only [] at h
  repeat' split at h
  all_goals first | (simp at h; done) | skip
  simp_all

theorem opOk_spec {n : Nat} {o : Op} (h : opOk n o = true) :
    o.loc ≠ [] ∧ ∀ q ∈ o.loc, q < n := by
  unfold opOk at h
  simp only [Bool.and_eq_true, Bool.not_eq_true', List.isEmpty_eq_false_iff, List.all_eq_true,
    decide_eq_true_eq] at h
  exact ⟨h.1, h.2⟩

theorem proj_eq_nil_of_ge {n q : Nat} {l : List Op} (h : l.all (opOk n) = true) (hq : n ≤ q) :
    proj q l = [] := by
  unfold proj
  rw [List.filter_eq_nil_iff]
  intro o ho hon
  have := (opOk_spec (List.all_eq_true.mp h o ho)).2 q ((on_iff o q).mp hon)
  omega

theorem sameTimelines_spec {n : Nat} {l1 l2 : List Op} (h : sameTimelines n l1 l2 = true) :
    ∀ q, q < n → proj q l1 = proj q l2 := by
  intro q hq
  unfold sameTimelines at h
  rw [List.all_eq_true] at h
  have := h q (List.mem_range.mpr hq)
  simpa using this

/-- accepted ⇒ every qudit (in range or not) has the same timeline in the two unfoldings -/
theorem all_proj_eq (h : validPartition b bg strict c p k = none) :
    ∀ q, proj q (flat b p.ops) = proj q (flat b c.ops) := by
  obtain ⟨_, _, _, hp, hc, _, _, ht, _, _⟩ := valid_unpack h
  intro q
  by_cases hq : q < c.numQudits
  · exact sameTimelines_spec ht q hq
  · rw [proj_eq_nil_of_ge hp (by omega), proj_eq_nil_of_ge hc (by omega)]

theorem nonempty_locs {n : Nat} {l : List Op} (h : l.all (opOk n) = true) :
    ∀ o ∈ l, o.loc ≠ [] :=
  fun o ho => (opOk_spec (List.all_eq_true.mp h o ho)).1

/-! ## where an element of a `flatMap` comes from -/
theorem flatMap_split {α β : Type} (g : α → List β) :
    ∀ (L : List α) (A : List β) (x : β) (B : List β), L.flatMap g = A ++ x :: B →
      ∃ L1 o L2 e1 e2, L = L1 ++ o :: L2 ∧ g o = e1 ++ x :: e2 ∧
        A = L1.flatMap g ++ e1 ∧ B = e2 ++ L2.flatMap g := by
  intro L
  induction L with
  | nil => intro A x B h; simp at h
  | cons o L' ih =>
    intro A x B h
    rw [List.flatMap_cons] at h
    rcases List.append_eq_append_iff.mp h with ⟨A', hA, hrest⟩ | ⟨C, hgo, hC⟩
    · -- g o is a prefix of A
      obtain ⟨L1, o', L2, e1, e2, hL, hg, hA2, hB⟩ := ih A' x B hrest
      refine ⟨o :: L1, o', L2, e1, e2, by simp [hL], hg, ?_, hB⟩
      rw [hA, hA2, List.flatMap_cons, List.append_assoc]
    · -- A is a prefix of g o
      cases C with
      | nil =>
        simp only [List.append_nil, List.nil_append] at hgo hC
        obtain ⟨L1, o', L2, e1, e2, hL, hg, hA2, hB⟩ := ih [] x B hC.symm
        refine ⟨o :: L1, o', L2, e1, e2, by simp [hL], hg, ?_, hB⟩
        rw [List.flatMap_cons, ← hgo, List.append_assoc, ← hA2, List.append_nil]
      | cons y C' =>
        simp only [List.cons_append, List.cons.injEq] at hC
        obtain ⟨hxy, hB⟩ := hC
        subst hxy
        exact ⟨[], o, L', A, C', by simp, hgo, by simp, hB⟩

/-- a filtered list splits where the original does -/
theorem filter_split {α : Type} (pr : α → Bool) :
    ∀ (l : List α) (pre : List α) (x : α) (post : List α), l.filter pr = pre ++ x :: post →
      ∃ l1 l2, l = l1 ++ x :: l2 ∧ l1.filter pr = pre ∧ l2.filter pr = post := by
  intro l pre x post h
  obtain ⟨l1, l2', hl, h1, h2⟩ := List.filter_eq_append_iff.mp h
  obtain ⟨m1, m2, hm, hnone, _, h3⟩ := List.filter_eq_cons_iff.mp h2
  refine ⟨l1 ++ m1, m2, by simp [hl, hm], ?_, h3⟩
  rw [List.filter_append, h1, List.filter_eq_nil_iff.mpr (by simpa using hnone), List.append_nil]

/-! ## blocks -/
theorem expandOp_isSome (o : Op) : (expandOp b o).isSome = isBlock b o := by
  unfold expandOp isBlock
  cases b.body? o.gid <;> rfl

theorem flat_succ (l : List Op) : flat b l = l.flatMap (flatStep b (fuel - 1)) := by
  unfold flat
  have : fuel = (fuel - 1) + 1 := by decide
  rw [this, flattenOps_succ]
  rfl

theorem flatStep_nonblock {f : Nat} {o : Op} (h : isBlock b o = false) : flatStep b f o = [o] := by
  unfold flatStep
  have := expandOp_isSome (b := b) o
  rw [h] at this
  cases he : expandOp b o with
  | none => rfl
  | some body => rw [he] at this; simp at this

/-- a list without block ops is its own unfolding -/
theorem flattenOps_noblock : ∀ (f : Nat) (l : List Op), (∀ o ∈ l, isBlock b o = false) →
    flattenOps b f l = l := by
  intro f l h
  cases f with
  | zero => rfl
  | succ f =>
    rw [flattenOps_succ]
    induction l with
    | nil => rfl
    | cons a t ih =>
      rw [List.flatMap_cons, flatStep_nonblock (h a (by simp)), ih (fun o ho => h o (by simp [ho]))]
      rfl

theorem flat_noblock (l : List Op) (h : ∀ o ∈ l, isBlock b o = false) : flat b l = l :=
  flattenOps_noblock fuel l h

/-- the unfolding of a single top-level op -/
theorem flat_singleton (o : Op) : flat b [o] = flatStep b (fuel - 1) o := by
  rw [flat_succ]; simp

/-- In an accepted partition a barrier-like op of the unfolded output is a top-level
operation of `p`, and the unfolded ops around it are exactly the unfoldings of the
top-level ops before / after it. -/
theorem barrier_toplevel (h : validPartition b bg strict c p k = none)
    (A B : List Op) (x : Op) (hx : barrierLike bg x = true)
    (hsplit : flat b p.ops = A ++ x :: B) :
    ∃ P1 P2, p.ops = P1 ++ x :: P2 ∧ flat b P1 = A ∧ flat b P2 = B := by
  obtain ⟨_, _, _, _, _, _, _, _, hnb, _⟩ := valid_unpack h
  rw [flat_succ] at hsplit
  obtain ⟨L1, o, L2, e1, e2, hL, hg, hA, hB⟩ := flatMap_split _ _ _ _ _ hsplit
  have ho : o ∈ p.ops := by rw [hL]; simp
  have hno := List.all_eq_true.mp hnb o ho
  unfold noBarrierInside at hno
  by_cases hblk : isBlock b o = true
  · -- a block: its unfolding contains the barrier-like `x`, excluded by clause (4)
    exfalso
    rw [hblk] at hno
    simp only [Bool.not_true, Bool.false_or, List.all_eq_true, Bool.not_eq_true'] at hno
    have hxin : x ∈ flat b [o] := by rw [flat_singleton, hg]; simp
    have := hno x hxin
    rw [hx] at this
    exact Bool.noConfusion this
  · have hblk' : isBlock b o = false := by simpa using hblk
    rw [flatStep_nonblock hblk'] at hg
    -- [o] = e1 ++ x :: e2
    have hlen := congrArg List.length hg
    simp only [List.length_cons, List.length_nil, List.length_append] at hlen
    have he1 : e1 = [] := List.eq_nil_of_length_eq_zero (by omega)
    have he2 : e2 = [] := List.eq_nil_of_length_eq_zero (by omega)
    subst he1 he2
    simp only [List.nil_append, List.cons.injEq, and_true] at hg
    subst hg
    refine ⟨L1, L2, hL, ?_, ?_⟩
    · rw [flat_succ, hA, List.append_nil]
    · rw [flat_succ, hB, List.nil_append]

end BqVerif.Partition
