import BqVerif.Model.Server
/-! Helper lemmas for C13: dictionaries, the table invariant, per-handler post-states. -/
namespace BqVerif.Server

variable {α : Type}

/-! ### dictionaries -/

theorem get?_del (l : List (Nat × α)) (k k' : Nat) :
    get? (del l k) k' = if k = k' then none else get? l k' := by
  induction l with
  | nil => simp [del, get?]
  | cons p t ih =>
    obtain ⟨a, v⟩ := p
    simp only [del, List.filter] at ih ⊢
    by_cases h : a = k
    · subst h
      simp only [bne_self_eq_false]
      rw [ih]
      by_cases h2 : a = k' <;> simp [get?, h2]
    · have : (a != k) = true := by simp [h]
      simp only [this, get?]
      rw [ih]
      by_cases h2 : a = k'
      · subst h2; simp [Ne.symm h]
      · simp [h2]

theorem get?_set (l : List (Nat × α)) (k k' : Nat) (v : α) :
    get? (set l k v) k' = if k = k' then some v else get? l k' := by
  simp only [set, get?]
  by_cases h : k = k'
  · simp [h]
  · simp [h, get?_del]

theorem get?_mem {l : List (Nat × α)} {k : Nat} {v : α} (h : get? l k = some v) : (k, v) ∈ l := by
  induction l with
  | nil => simp [get?] at h
  | cons p t ih =>
    obtain ⟨a, w⟩ := p
    simp only [get?] at h
    by_cases h2 : a = k
    · simp [h2] at h; subst h2; subst h; simp
    · simp [h2] at h; exact List.mem_cons_of_mem _ (ih h)

def KeysNodup (l : List (Nat × α)) : Prop := (l.map (·.1)).Nodup

theorem mem_get? {l : List (Nat × α)} (hn : KeysNodup l) {k : Nat} {v : α} (h : (k, v) ∈ l) :
    get? l k = some v := by
  induction l with
  | nil => simp at h
  | cons p t ih =>
    obtain ⟨a, w⟩ := p
    simp only [KeysNodup, List.map_cons, List.nodup_cons] at hn
    simp only [get?]
    rcases List.mem_cons.mp h with h1 | h1
    · cases h1; simp
    · have : a ≠ k := by
        intro e; subst e
        exact hn.1 (List.mem_map.mpr ⟨(a, v), h1, rfl⟩)
      simp [this]; exact ih hn.2 h1

theorem KeysNodup.del {l : List (Nat × α)} (h : KeysNodup l) (k : Nat) : KeysNodup (del l k) := by
  unfold KeysNodup BqVerif.Server.del at *
  exact List.Nodup.sublist (List.Sublist.map _ List.filter_sublist) h

theorem KeysNodup.set {l : List (Nat × α)} (h : KeysNodup l) (k : Nat) (v : α) :
    KeysNodup (set l k v) := by
  have h2 := h.del k
  unfold KeysNodup BqVerif.Server.set at *
  simp only [List.map_cons, List.nodup_cons]
  refine ⟨?_, h2⟩
  intro hm
  obtain ⟨p, hp, hk⟩ := List.mem_map.mp hm
  simp [BqVerif.Server.del] at hp
  exact hp.2 hk

/-! ### the table invariant -/

/-- The invariant of the five tables of `DetachedServer` (C13_inv). -/
structure Inv (s : Srv) : Prop where
  /-- `tasks` is a dict: `items()` lists every key once -/
  tkNodup : KeysNodup s.tasks
  /-- `clients[c]` is a set -/
  clNodup : ∀ c ts, get? s.clients c = some ts → ts.Nodup
  /-- an open id of a client is a task of that client whose mailbox exists -/
  clSub : ∀ c ts t, get? s.clients c = some ts → t ∈ ts →
    ∃ m b, get? s.tasks t = some (m, c) ∧ get? s.boxes m = some b
  /-- every task belongs to a connected client; `mailbox_to_task_dict` inverts `tasks`;
  mailbox ids are below the counter -/
  tk : ∀ t m c, get? s.tasks t = some (m, c) →
    (∃ ts, get? s.clients c = some ts) ∧ get? s.m2t m = some t ∧ m < s.counter
  /-- `tasks` inverts `mailbox_to_task_dict` -/
  mt : ∀ m t, get? s.m2t m = some t → ∃ c, get? s.tasks t = some (m, c)
  /-- a mailbox exists only for an open task of a connected client -/
  bx : ∀ m b, get? s.boxes m = some b →
    ∃ t c ts, get? s.tasks t = some (m, c) ∧ get? s.clients c = some ts ∧ t ∈ ts
  /-- closed connections are not clients -/
  closed : ∀ c, c ∈ s.closed → get? s.clients c = none
  running : s.running = true

theorem inv_init : Inv init := by
  constructor <;> simp [init, get?, KeysNodup]

/-- `Inv` does not read the message log. -/
theorem Inv.congr {s s' : Srv} (h : Inv s) (h1 : s'.clients = s.clients) (h2 : s'.tasks = s.tasks)
    (h3 : s'.m2t = s.m2t) (h4 : s'.boxes = s.boxes) (h5 : s'.counter = s.counter)
    (h6 : s'.running = s.running) (h7 : s'.closed = s.closed) : Inv s' := by
  obtain ⟨a, b, c, d, e, f, g, r⟩ := h
  constructor <;> simp only [h1, h2, h3, h4, h5, h6, h7] <;> assumption

theorem Inv.emit {s : Srv} (h : Inv s) (o : Out) : Inv (s.emit o) :=
  h.congr rfl rfl rfl rfl rfl rfl rfl

theorem Inv.clearOut {s : Srv} (h : Inv s) : Inv { s with out := [] } :=
  h.congr rfl rfl rfl rfl rfl rfl rfl

/-- two tasks with the same mailbox are the same task -/
theorem Inv.mb_inj {s : Srv} (h : Inv s) {t t' m c c'} (h1 : get? s.tasks t = some (m, c))
    (h2 : get? s.tasks t' = some (m, c')) : t = t' := by
  have a := (h.tk _ _ _ h1).2.1
  have b := (h.tk _ _ _ h2).2.1
  rw [a] at b; exact Option.some.inj b

/-- what an open id of `c` looks like in the tables -/
theorem Inv.open_task {s : Srv} (h : Inv s) {c ts t} (hc : get? s.clients c = some ts) (ht : t ∈ ts) :
    ∃ m b, get? s.tasks t = some (m, c) ∧ get? s.boxes m = some b ∧ get? s.m2t m = some t ∧
      c ∉ s.closed := by
  obtain ⟨m, b, h1, h2⟩ := h.clSub c ts t hc ht
  refine ⟨m, b, h1, h2, (h.tk _ _ _ h1).2.1, ?_⟩
  intro hcl
  have := h.closed c hcl
  rw [hc] at this; cases this

/-! ### the handlers on invariant states: no failing lookup, explicit post-state -/

theorem Inv.notMine {s : Srv} (h : Inv s) {c ts} (t : Tid) (hc : get? s.clients c = some ts) :
    notMine s c t = .ok (!(ts.contains t)) := by
  simp only [BqVerif.Server.notMine, hc]
  by_cases ht : t ∈ ts
  · obtain ⟨m, b, h1, _⟩ := h.clSub c ts t hc ht
    simp [ht, h1]
  · simp [ht]

/-- the status the server reports for `t` to a client whose open ids are `ts` -/
def statusOf (s : Srv) (ts : List Tid) (t : Tid) : CStat :=
  if t ∈ ts then
    match get? s.tasks t with
    | some (m, _) =>
      match get? s.boxes m with
      | some b => if b.result.isSome then .done else .running
      | none => .unknown
    | none => .unknown
  else .unknown

theorem handleStatus_eq {s : Srv} (h : Inv s) {c ts} (t : Tid) (hc : get? s.clients c = some ts) :
    handleStatus s c t = .ok (s.emit (.status c (statusOf s ts t))) := by
  simp only [handleStatus, h.notMine t hc, statusOf]
  by_cases ht : t ∈ ts
  · obtain ⟨m, b, h1, h2⟩ := h.clSub c ts t hc ht
    simp [ht, h1, h2]
  · simp [ht]

/-- post-state of a successful client cancel of an open task -/
def afterCancel (s : Srv) (c : Conn) (ts : List Tid) (t : Tid) (m : Mid) : Srv :=
  (({ s with boxes := del s.boxes m,
             clients := set s.clients c (ts.filter (· != t)) }).emit (.downCancel m)).emit (.cancelAck c)

theorem cancelCore_eq {s : Srv} (h : Inv s) {c ts t} (hc : get? s.clients c = some ts) (ht : t ∈ ts) :
    ∃ m b, get? s.tasks t = some (m, c) ∧ get? s.boxes m = some b ∧
      cancelCore s t = .ok (afterCancel s c ts t m) := by
  obtain ⟨m, b, h1, h2, _, h4⟩ := h.open_task hc ht
  refine ⟨m, b, h1, h2, ?_⟩
  simp [cancelCore, h1, h2, hc, removeTid, ht, afterCancel, Srv.emit, h4]

theorem handleCancel_eq {s : Srv} (h : Inv s) {c ts} (t : Tid) (hc : get? s.clients c = some ts) :
    (t ∉ ts ∧ handleCancel s c t = .ok (s.emit (.cancelAck c))) ∨
    (t ∈ ts ∧ ∃ m b, get? s.tasks t = some (m, c) ∧ get? s.boxes m = some b ∧
      handleCancel s c t = .ok (afterCancel s c ts t m)) := by
  by_cases ht : t ∈ ts
  · right
    obtain ⟨m, b, h1, h2, h3⟩ := cancelCore_eq h hc ht
    exact ⟨ht, m, b, h1, h2, by simp [handleCancel, h.notMine t hc, ht, h3]⟩
  · left
    exact ⟨ht, by simp [handleCancel, h.notMine t hc, ht]⟩

/-- post-state of delivering a stored result -/
def afterDeliver (s : Srv) (c : Conn) (ts : List Tid) (t : Tid) (m : Mid) (v : Nat) : Srv :=
  { s.emit (.resultTo c v) with boxes := del s.boxes m,
                                 clients := set s.clients c (ts.filter (· != t)) }

theorem handleRequest_mine {s : Srv} (h : Inv s) {c ts t} (hc : get? s.clients c = some ts)
    (ht : t ∈ ts) :
    ∃ m b, get? s.tasks t = some (m, c) ∧ get? s.boxes m = some b ∧
      handleRequest s c t = .ok (match b.result with
        | some v => afterDeliver s c ts t m v
        | none => { s with boxes := set s.boxes m { b with waiting := true } }) := by
  obtain ⟨m, b, h1, h2, _, _⟩ := h.open_task hc ht
  refine ⟨m, b, h1, h2, ?_⟩
  simp only [handleRequest, h.notMine t hc, h1, h2]
  cases hb : b.result with
  | none => simp [ht]
  | some v => simp [ht, Srv.emit, hc, removeTid, afterDeliver]

theorem handleRequest_notMine {s : Srv} (h : Inv s) {c ts t} (hc : get? s.clients c = some ts)
    (ht : t ∉ ts) :
    handleRequest s c t = handleDisconnect (s.emit (.errorNow c 0)) c := by
  simp [handleRequest, h.notMine t hc, ht]

/-- post-state of a submit -/
def afterSubmit (s : Srv) (c : Conn) (ts : List Tid) (t : Tid) : Srv :=
  ({ s with counter := s.counter + 1,
            tasks := set s.tasks t (s.counter, c),
            m2t := set s.m2t s.counter t,
            boxes := set s.boxes s.counter ⟨none, false⟩,
            clients := set s.clients c (t :: ts) }).emit (.downSubmit s.counter)

theorem handleNewCompTask_eq {s : Srv} (h : Inv s) {c ts t} (hc : get? s.clients c = some ts)
    (hf : get? s.tasks t = none) :
    handleNewCompTask s c t = .ok (afterSubmit s c ts t) := by
  have : t ∉ ts := by
    intro ht
    obtain ⟨m, b, h1, _⟩ := h.clSub c ts t hc ht
    rw [hf] at h1; cases h1
  simp [handleNewCompTask, hc, addTid, this, afterSubmit]

/-- post-state of a RESULT for a live mailbox -/
def afterResult (s : Srv) (m : Mid) (b : Box) (v : Nat) (t : Tid) (c : Conn) (ts : List Tid) : Srv :=
  if b.waiting then
    { s.emit (.resultTo c v) with clients := set s.clients c (ts.filter (· != t)),
                                   boxes := del (set s.boxes m { b with result := some v }) m }
  else { s with boxes := set s.boxes m { b with result := some v } }

theorem handleResult_eq {s : Srv} (h : Inv s) (m : Mid) (v : Nat) :
    (get? s.boxes m = none ∧ handleResult s m v = .ok s) ∨
    (∃ b t c ts, get? s.boxes m = some b ∧ get? s.m2t m = some t ∧ get? s.tasks t = some (m, c) ∧
      get? s.clients c = some ts ∧ t ∈ ts ∧
      handleResult s m v = .ok (afterResult s m b v t c ts)) := by
  cases hb : get? s.boxes m with
  | none => left; simp [handleResult, hb]
  | some b =>
    right
    obtain ⟨t, c, ts, h1, h2, h3⟩ := h.bx m b hb
    have h4 := (h.tk _ _ _ h1).2.1
    refine ⟨b, t, c, ts, rfl, h4, h1, h2, h3, ?_⟩
    simp only [handleResult, hb, h4, afterResult]
    by_cases hw : b.waiting
    · simp [hw, h1, Srv.emit, h2, removeTid, h3]
    · simp [hw]

theorem routeUp_eq {s : Srv} (h : Inv s) (m : Mid) (mk : Conn → Out) :
    (get? s.m2t m = none ∧ routeUp s m mk = .ok s) ∨
    (∃ t c, get? s.m2t m = some t ∧ get? s.tasks t = some (m, c) ∧
      routeUp s m mk = .ok (s.emit (mk c))) := by
  cases hm : get? s.m2t m with
  | none => left; simp [routeUp, hm]
  | some t =>
    right
    obtain ⟨c, h1⟩ := h.mt m t hm
    exact ⟨t, c, rfl, h1, by simp [routeUp, hm, h1]⟩

/-- `handle_error` after fix 3a23d26: forwarded iff the mailbox still exists -/
theorem handleError_eq {s : Srv} (h : Inv s) (m : Mid) (msg : Nat) :
    (get? s.boxes m = none ∧ handleError s m msg = .ok s) ∨
    (∃ b t c ts, get? s.boxes m = some b ∧ get? s.m2t m = some t ∧ get? s.tasks t = some (m, c) ∧
      get? s.clients c = some ts ∧ t ∈ ts ∧
      handleError s m msg = .ok (s.emit (.errorTo c msg))) := by
  cases hb : get? s.boxes m with
  | none => left; simp [handleError, hb]
  | some b =>
    right
    obtain ⟨t, c, ts, h1, h2, h3⟩ := h.bx m b hb
    have h4 := (h.tk _ _ _ h1).2.1
    exact ⟨b, t, c, ts, rfl, h4, h1, h2, h3, by simp [handleError, hb, h4, routeUp, h1]⟩

/-! ### preservation of the invariant -/

/-- `Inv` reads `clients`, `m2t` through `get?` and `boxes` only through presence. -/
theorem Inv.ext {s s' : Srv} (h : Inv s) (h2 : s'.tasks = s.tasks)
    (h1 : ∀ c, get? s'.clients c = get? s.clients c)
    (h3 : ∀ m, get? s'.m2t m = get? s.m2t m)
    (h4 : ∀ m, (get? s'.boxes m).isSome = (get? s.boxes m).isSome)
    (h5 : s'.counter = s.counter) (h6 : s'.running = s.running) (h7 : s'.closed = s.closed) :
    Inv s' := by
  obtain ⟨a, b, c, d, e, f, g, r⟩ := h
  have bxs : ∀ m b, get? s'.boxes m = some b → ∃ b', get? s.boxes m = some b' := by
    intro m b hb
    have := h4 m; rw [hb] at this
    cases hh : get? s.boxes m with
    | none => rw [hh] at this; cases this
    | some b' => exact ⟨b', rfl⟩
  have bxs' : ∀ m b, get? s.boxes m = some b → ∃ b', get? s'.boxes m = some b' := by
    intro m b hb
    have := h4 m; rw [hb] at this
    cases hh : get? s'.boxes m with
    | none => rw [hh] at this; cases this
    | some b' => exact ⟨b', rfl⟩
  constructor
  · rw [h2]; exact a
  · intro c' ts hc; rw [h1] at hc; exact b c' ts hc
  · intro c' ts t hc ht; rw [h1] at hc
    obtain ⟨m, bb, x, y⟩ := c c' ts t hc ht
    obtain ⟨b', hb'⟩ := bxs' m bb y
    exact ⟨m, b', by rw [h2]; exact x, hb'⟩
  · intro t m c' ht; rw [h2] at ht
    have := d t m c' ht
    rw [h1, h3, h5]; exact this
  · intro m t hm; rw [h3] at hm; rw [h2]; exact e m t hm
  · intro m bb hb
    obtain ⟨b', hb'⟩ := bxs m bb hb
    obtain ⟨t, c', ts, x, y, z⟩ := f m b' hb'
    exact ⟨t, c', ts, by rw [h2]; exact x, by rw [h1]; exact y, z⟩
  · intro c' hc; rw [h7] at hc; rw [h1]; exact g c' hc
  · rw [h6]; exact r

theorem mem_filter_ne {ts : List Tid} {t t' : Tid} : t' ∈ ts.filter (· != t) ↔ t' ∈ ts ∧ t' ≠ t := by
  simp [List.mem_filter]

/-- an open task stops being open (cancelled or delivered): its mailbox and its entry in
the owner's set go, `tasks` / `mailbox_to_task_dict` keep it -/
def closeTask (s : Srv) (c : Conn) (ts : List Tid) (t : Tid) (m : Mid) : Srv :=
  { s with boxes := del s.boxes m, clients := set s.clients c (ts.filter (· != t)) }

theorem Inv.closeTask {s : Srv} (h : Inv s) {c ts t m} (hc : get? s.clients c = some ts)
    (ht : t ∈ ts) (h1 : get? s.tasks t = some (m, c)) : Inv (closeTask s c ts t m) := by
  have hcl : c ∉ s.closed := by
    intro x; have := h.closed c x; rw [hc] at this; cases this
  constructor
  · exact h.tkNodup
  · intro c' ts' hc'
    simp only [BqVerif.Server.closeTask, get?_set] at hc'
    by_cases e : c = c'
    · subst e; simp at hc'; subst hc'
      exact List.Nodup.sublist List.filter_sublist (h.clNodup _ _ hc)
    · simp [e] at hc'; exact h.clNodup _ _ hc'
  · intro c' ts' t' hc' ht'
    simp only [BqVerif.Server.closeTask, get?_set] at hc'
    simp only [BqVerif.Server.closeTask, get?_del]
    by_cases e : c = c'
    · subst e; simp at hc'; subst hc'
      obtain ⟨ht1, ht2⟩ := mem_filter_ne.mp ht'
      obtain ⟨m', b', x, y⟩ := h.clSub _ _ _ hc ht1
      refine ⟨m', b', x, ?_⟩
      have : m ≠ m' := by
        intro e; subst e; exact ht2 (h.mb_inj x h1)
      simp [this, y]
    · simp [e] at hc'
      obtain ⟨m', b', x, y⟩ := h.clSub _ _ _ hc' ht'
      refine ⟨m', b', x, ?_⟩
      have : m ≠ m' := by
        intro e2; subst e2
        have := h.mb_inj x h1; subst this
        rw [h1] at x; cases x; exact e rfl
      simp [this, y]
  · intro t' m' c' ht'
    have := h.tk t' m' c' ht'
    refine ⟨?_, this.2⟩
    simp only [BqVerif.Server.closeTask, get?_set]
    by_cases e : c = c'
    · simp [e]
    · simp [e]; exact this.1
  · exact h.mt
  · intro m' b' hb'
    simp only [BqVerif.Server.closeTask, get?_del] at hb'
    by_cases e : m = m'
    · simp [e] at hb'
    · simp [e] at hb'
      obtain ⟨t', c', ts', x, y, z⟩ := h.bx m' b' hb'
      simp only [BqVerif.Server.closeTask, get?_set]
      by_cases e2 : c = c'
      · subst e2
        rw [hc] at y; cases y
        refine ⟨t', c, ts.filter (· != t), x, by simp, mem_filter_ne.mpr ⟨z, ?_⟩⟩
        intro e3; subst e3; rw [h1] at x; cases x; exact e rfl
      · exact ⟨t', c', ts', x, by simp [e2, y], z⟩
  · intro c' hc'
    simp only [BqVerif.Server.closeTask, get?_set]
    have : c ≠ c' := by intro e; subst e; exact hcl hc'
    simp [this]; exact h.closed c' hc'
  · exact h.running

end BqVerif.Server
