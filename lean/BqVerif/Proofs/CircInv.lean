import BqVerif.Proofs.CircBasic
/-! `Inv` is preserved by the core editing steps (C05). -/
namespace BqVerif.Circ

/-- what constructing an `Operation` guarantees -/
def Op.Shape (o : Op) : Prop := o.loc ≠ [] ∧ o.loc.Nodup ∧ o.rad.length = o.loc.length

def CycleOk (n : Nat) (rad : List Nat) (cy : Cycle) : Prop :=
  cy ≠ [] ∧ cy.Pairwise Indep ∧ ∀ o ∈ cy, o.WF n rad

theorem inv_iff (c : Circ) : c.Inv ↔ ∀ cy ∈ c.cycles, CycleOk c.numQudits c.radixes cy := by
  unfold Circ.Inv CycleOk
  constructor
  · rintro ⟨h1, h2, h3⟩ cy hcy; exact ⟨h1 cy hcy, h2 cy hcy, h3 cy hcy⟩
  · intro h
    exact ⟨fun cy hcy => (h cy hcy).1, fun cy hcy => (h cy hcy).2.1, fun cy hcy => (h cy hcy).2.2⟩

theorem mem_modify {α} (l : List α) (k : Nat) (f : α → α) (x : α) (hx : x ∈ l.modify k f) :
    x ∈ l ∨ ∃ h : k < l.length, x = f l[k] := by
  induction l generalizing k with
  | nil => simp at hx
  | cons a t ih =>
    cases k with
    | zero =>
      simp only [List.modify_zero_cons, List.mem_cons] at hx
      rcases hx with rfl | hx
      · exact Or.inr ⟨by simp, by simp⟩
      · exact Or.inl (by simp [hx])
    | succ k =>
      simp only [List.modify_succ_cons, List.mem_cons] at hx
      rcases hx with rfl | hx
      · exact Or.inl (by simp)
      · rcases ih k hx with h | ⟨h, he⟩
        · exact Or.inl (by simp [h])
        · exact Or.inr ⟨by simpa using h, by simpa using he⟩

theorem checkValid_ok (c : Circ) (o : Op) (hs : o.Shape) (h : c.checkValid o = .ok ()) :
    o.WF c.numQudits c.radixes := by
  unfold Circ.checkValid at h
  split at h
  · simp at h
  · rename_i h1
    split at h
    · simp at h
    · rename_i h2
      refine ⟨hs.1, hs.2.1, ?_, ?_⟩
      · have h1' : ∀ q ∈ o.loc, q < c.numQudits := by simpa using h1
        exact h1'
      · apply List.ext_getElem
        · simpa using hs.2.2
        · intro i hi1 hi2
          have hz : (o.rad.zip o.loc).any (fun x => x.1 != c.radixes.getD x.2 0) = false := by
            simpa using h2
          rw [List.any_eq_false] at hz
          have hi3 : i < o.loc.length := by simpa using hi2
          have hmem : (o.rad[i], o.loc[i]) ∈ o.rad.zip o.loc := by
            have : (o.rad.zip o.loc)[i]'(by simp; omega) = (o.rad[i], o.loc[i]) := by simp
            rw [← this]; exact List.getElem_mem _
          have := hz _ hmem
          simpa using this

theorem appendCore_inv (c : Circ) (o : Op) (hinv : c.Inv) (hwf : o.WF c.numQudits c.radixes) :
    (c.appendCore o).1.Inv := by
  rw [inv_iff] at *
  unfold Circ.appendCore
  dsimp only
  split
  · -- a new last cycle
    intro cy hcy
    simp only [Circ.numQudits, List.mem_append, List.mem_singleton] at hcy ⊢
    rcases hcy with hcy | rfl
    · exact hinv cy hcy
    · exact ⟨by simp, by simp, by simpa [Circ.numQudits] using hwf⟩
  · rename_i hk
    intro cy hcy
    simp only [Circ.numQudits] at hcy ⊢
    rcases mem_modify _ _ _ _ hcy with hcy | ⟨hlt, rfl⟩
    · exact hinv cy hcy
    · have hok := hinv _ (List.getElem_mem hlt)
      refine ⟨by simp, ?_, ?_⟩
      · rw [List.pairwise_append]
        refine ⟨hok.2.1, by simp, ?_⟩
        intro a ha b hb
        simp only [List.mem_singleton] at hb
        subst hb
        intro q hqa hqo
        have := findAvailable_free c b.loc q hqo (c.findAvailable b.loc) (Nat.le_refl _)
        rw [getD_of_lt _ _ hlt, occ_eq_false_iff] at this
        exact this a ha hqa
      · intro x hx
        rcases List.mem_append.mp hx with hx | hx
        · exact hok.2.2 x hx
        · simp only [List.mem_singleton] at hx; subst hx; simpa [Circ.numQudits] using hwf

theorem append_inv (c : Circ) (o : Op) (hinv : c.Inv) (hs : o.Shape) : (c.append o).1.Inv := by
  unfold Circ.append
  cases h : c.checkValid o with
  | error e => simpa using hinv
  | ok u =>
    cases u
    exact appendCore_inv c o hinv (checkValid_ok c o hs h)

/-- removing the op on `(k, q)` -/
theorem removeAt_inv (c : Circ) (k q : Nat) (hinv : c.Inv) : (c.removeAt k q).Inv := by
  rw [inv_iff] at *
  unfold Circ.removeAt
  simp only
  split
  · intro cy hcy
    exact hinv cy (List.mem_of_mem_eraseIdx hcy)
  · rename_i hne
    intro cy hcy
    simp only [Circ.numQudits] at hcy ⊢
    rcases List.mem_or_eq_of_mem_set hcy with hcy | rfl
    · exact hinv cy hcy
    · by_cases hlt : k < c.cycles.length
      · have hok := hinv _ (List.getElem_mem hlt)
        rw [getD_of_lt _ _ hlt]
        rw [getD_of_lt _ _ hlt] at hne
        refine ⟨by simpa using hne, hok.2.1.filter _, ?_⟩
        intro x hx
        exact hok.2.2 x (List.mem_filter.mp hx).1
      · rw [getD_of_ge _ _ (Nat.le_of_not_lt hlt)] at hne
        simp at hne

theorem insertAt_inv (c : Circ) (k : Nat) (o : Op) (hk : k < c.numCycles) (hinv : c.Inv)
    (hwf : o.WF c.numQudits c.radixes) : (c.insertAt k o).Inv := by
  rw [inv_iff] at *
  unfold Circ.insertAt
  split
  · rename_i hun
    intro cy hcy
    simp only [Circ.numQudits] at hcy ⊢
    rcases mem_modify _ _ _ _ hcy with hcy | ⟨hlt, rfl⟩
    · exact hinv cy hcy
    · have hok := hinv _ (List.getElem_mem hlt)
      refine ⟨by simp, ?_, ?_⟩
      · rw [List.pairwise_append]
        refine ⟨hok.2.1, by simp, ?_⟩
        intro a ha b hb
        simp only [List.mem_singleton] at hb
        subst hb
        intro q hqa hqo
        unfold Circ.unoccupied at hun
        rw [List.all_eq_true] at hun
        have := hun q hqo
        rw [getD_of_lt _ _ hlt] at this
        have h2 : occ c.cycles[k] q = false := by simpa using this
        rw [occ_eq_false_iff] at h2
        exact h2 a ha hqa
      · intro x hx
        rcases List.mem_append.mp hx with hx | hx
        · exact hok.2.2 x hx
        · simp only [List.mem_singleton] at hx; subst hx; simpa [Circ.numQudits] using hwf
  · intro cy hcy
    simp only [Circ.numQudits] at hcy ⊢
    have hle : k ≤ c.cycles.length := by simp only [Circ.numCycles] at hk; omega
    rcases (List.mem_insertIdx hle).mp hcy with rfl | hcy
    · exact ⟨by simp, by simp, by simpa [Circ.numQudits] using hwf⟩
    · exact hinv cy hcy

end BqVerif.Circ
