import BqVerif.Proofs.CircPopQudit
/-! # `remove_all` as one `batch_pop`: the grid afterwards (C04)

`batch_pop` removes the selected operations from the last cycle to the first; within one cycle it
removes them one by one and drops the cycle when it becomes empty.  For the points of all
operations satisfying a predicate the result is the grid with every cycle filtered and the empty
cycles dropped. -/
namespace BqVerif.Circ

/-- what is left of a list of cycles: every cycle filtered, empty cycles dropped -/
def keepCycles (pred : Op → Bool) (l : List Cycle) : List Cycle :=
  (l.map (fun cy => cy.filter (fun o => !pred o))).filter (fun cy => !cy.isEmpty)

theorem keepCycles_append (pred : Op → Bool) (l1 l2 : List Cycle) :
    keepCycles pred (l1 ++ l2) = keepCycles pred l1 ++ keepCycles pred l2 := by
  simp [keepCycles]

theorem keepCycles_single (pred : Op → Bool) (cy : Cycle) :
    keepCycles pred [cy] =
      if (cy.filter (fun o => !pred o)).isEmpty then [] else [cy.filter (fun o => !pred o)] := by
  simp only [keepCycles, List.map_cons, List.map_nil, List.filter_cons, List.filter_nil]
  split <;> simp_all

theorem keepCycles_flatten (pred : Op → Bool) (l : List Cycle) :
    (keepCycles pred l).flatten = l.flatten.filter (fun o => !pred o) := by
  induction l with
  | nil => rfl
  | cons cy t ih =>
    have : keepCycles pred (cy :: t) = keepCycles pred [cy] ++ keepCycles pred t :=
      keepCycles_append pred [cy] t
    rw [this, List.flatten_append, ih, keepCycles_single, List.flatten_cons, List.filter_append]
    congr 1
    split
    · rename_i h
      have : cy.filter (fun o => !pred o) = [] := by simpa using h
      simp [this]
    · simp

theorem indep_of_mem (cy : Cycle) (hp : cy.Pairwise Indep) {a b : Op} (ha : a ∈ cy) (hb : b ∈ cy)
    (hab : a ≠ b) : Indep a b := by
  induction cy with
  | nil => simp at ha
  | cons c t ih =>
    rw [List.pairwise_cons] at hp
    rcases List.mem_cons.mp ha with ha' | ha' <;> rcases List.mem_cons.mp hb with hb' | hb'
    · exact absurd (ha'.trans hb'.symm) hab
    · rw [ha']; exact hp.1 b hb'
    · rw [hb']; exact fun q hq hqa => (hp.1 a ha') q hqa hq
    · exact ih hp.2 ha' hb'

theorem head_mem_loc (o : Op) (h : o.loc ≠ []) : o.head ∈ o.loc := by
  unfold Op.head
  cases hl : o.loc with
  | nil => exact absurd hl h
  | cons a t => simp

/-- in a well-formed cycle, the operation covering `o.head` is `o` -/
theorem on_head_iff (cy : Cycle) (hp : cy.Pairwise Indep) (hne : ∀ x ∈ cy, x.loc ≠ []) {o x : Op}
    (ho : o ∈ cy) (hx : x ∈ cy) : x.on o.head = true ↔ x = o := by
  constructor
  · intro h
    by_contra hxo
    have hind := indep_of_mem cy hp ho hx (fun e => hxo e.symm)
    exact hind o.head (head_mem_loc o (hne o ho)) (by simpa [Op.on] using h)
  · rintro rfl; simpa [Op.on] using head_mem_loc x (hne x hx)

theorem removeAt_mid (r : List Nat) (pre post : List Cycle) (cy : Cycle) (q m : Nat)
    (hm : pre.length = m) :
    (Circ.mk r (pre ++ cy :: post)).removeAt m q =
      ⟨r, pre ++ (if (cy.filter (fun o => !o.on q)).isEmpty then []
        else [cy.filter (fun o => !o.on q)]) ++ post⟩ := by
  subst hm
  unfold Circ.removeAt
  have hget : (pre ++ cy :: post).getD pre.length [] = cy := by
    simp [List.getD_eq_getElem?_getD]
  simp only [hget]
  split
  · simp [List.eraseIdx_append_of_length_le]
  · simp

/-- removing, one by one, a duplicate-free bucket `B` of operations of the cycle at index `m` -/
theorem removeAt_bucket (r : List Nat) (pre post : List Cycle) (cy : Cycle) (m : Nat)
    (hm : pre.length = m) (B : List Op) (hp : cy.Pairwise Indep) (hne : ∀ x ∈ cy, x.loc ≠ [])
    (hcy : cy ≠ []) (hB : B.Nodup) (hsub : ∀ o ∈ B, o ∈ cy) :
    B.foldr (fun o acc => acc.removeAt m o.head) (Circ.mk r (pre ++ cy :: post)) =
      ⟨r, pre ++ (if (cy.filter (fun x => !B.contains x)).isEmpty then []
        else [cy.filter (fun x => !B.contains x)]) ++ post⟩ := by
  induction B with
  | nil =>
    have : cy.filter (fun x => !([] : List Op).contains x) = cy := by simp
    rw [this]
    have : cy.isEmpty = false := by cases cy with
      | nil => exact absurd rfl hcy
      | cons _ _ => rfl
    simp [this]
  | cons o B' ih =>
    rw [List.nodup_cons] at hB
    have ih' := ih hB.2 (fun x hx => hsub x (by simp [hx]))
    simp only [List.foldr_cons]
    rw [ih']
    have ho : o ∈ cy := hsub o (by simp)
    have hmem : o ∈ cy.filter (fun x => !B'.contains x) := by
      simp [List.mem_filter, ho, hB.1]
    have hne' : (cy.filter (fun x => !B'.contains x)).isEmpty = false := by
      cases h : cy.filter (fun x => !B'.contains x) with
      | nil => rw [h] at hmem; simp at hmem
      | cons _ _ => rfl
    rw [if_neg (by rw [hne']; exact Bool.false_ne_true)]
    simp only [List.append_assoc, List.singleton_append]
    rw [removeAt_mid r pre post _ o.head m hm]
    have hff : (cy.filter (fun x => !B'.contains x)).filter (fun x => !x.on o.head) =
        cy.filter (fun x => !(o :: B').contains x) := by
      rw [List.filter_filter]
      apply List.filter_congr
      intro x hx
      have hiff := on_head_iff cy hp hne ho hx
      by_cases hxo : x = o
      · have h1 : x.on o.head = true := hiff.2 hxo
        subst hxo
        simp [h1]
      · have h1 : x.on o.head = false := by
          cases h : x.on o.head with
          | false => rfl
          | true => exact absurd (hiff.1 h) hxo
        simp [h1, List.contains_cons, hxo]
    rw [hff]
    simp only [List.append_assoc]

/-- the removal fold of `batch_pop` over a list grouped by cycle, when the group of cycle `k`
holds exactly the operations of that cycle satisfying `pred` -/
theorem remove_groups (c : Circ) (hinv : c.Inv) (pred : Op → Bool) (F : Nat → List Op)
    (hF : ∀ k (h : k < c.cycles.length), (F k).Nodup ∧
      ∀ o, o ∈ F k ↔ o ∈ c.cycles[k] ∧ pred o = true)
    (m : Nat) (hm : m ≤ c.cycles.length) (X : List Cycle) :
    ((List.range m).flatMap (fun k => (F k).map (fun o => (k, o)))).foldr
        (fun (x : Nat × Op) (acc : Circ) => acc.removeAt x.1 x.2.head)
          (Circ.mk c.radixes (c.cycles.take m ++ X)) =
      ⟨c.radixes, keepCycles pred (c.cycles.take m) ++ X⟩ := by
  induction m generalizing X with
  | zero => simp [keepCycles]
  | succ m ih =>
    have hlt : m < c.cycles.length := by omega
    rw [List.range_succ, List.flatMap_append, List.foldr_append]
    simp only [List.flatMap_cons, List.flatMap_nil, List.append_nil, List.foldr_map]
    have htake : c.cycles.take (m + 1) = c.cycles.take m ++ [c.cycles[m]] :=
      List.take_succ_eq_append_getElem hlt
    have hcyk := List.getElem_mem hlt
    obtain ⟨hnd, hmemF⟩ := hF m hlt
    have hbucket := removeAt_bucket c.radixes (c.cycles.take m) X c.cycles[m] m
      (by rw [List.length_take]; omega) (F m) (hinv.2.1 _ hcyk)
      (fun x hx => (hinv.2.2 _ hcyk x hx).1) (hinv.1 _ hcyk) hnd
      (fun o ho => ((hmemF o).1 ho).1)
    rw [htake, List.append_assoc, List.singleton_append, hbucket, List.append_assoc,
      ih (by omega), keepCycles_append, keepCycles_single, List.append_assoc]
    have : c.cycles[m].filter (fun x => !(F m).contains x) =
        c.cycles[m].filter (fun o => !pred o) := by
      apply List.filter_congr
      intro x hx
      have := hmemF x
      cases hp : pred x with
      | true =>
        have : x ∈ F m := this.2 ⟨hx, hp⟩
        simp [this]
      | false =>
        have : x ∉ F m := fun h => by simpa [hp] using (this.1 h).2
        simp [this]
    rw [this]

/-- `batch_pop` with in-range points of which at least one holds an operation: the result is the
removal fold over the selected operations (`Circ.selected`), the returned circuit their slice -/
theorem batchPop_selected (c : Circ) (pts : List (Int × Int))
    (hall : pts.all (fun p => c.cycleInRange p.1 && c.qubitInRange p.2) = true)
    (hne : ((pts.map (fun p => (normIdx c.numCycles p.1, normIdx c.numQudits p.2))).filterMap
      (fun x => (c.cell x.1 x.2).map (fun o => (x.1, o)))).isEmpty = false) :
    let sel := c.selected (pts.map (fun p => (normIdx c.numCycles p.1, normIdx c.numQudits p.2)))
    c.batchPop pts = (sel.foldr (fun x acc => acc.removeAt x.1 x.2.head) c,
      .ok (subCircuit c.radixes (sel.map (·.2)))) := by
  intro sel
  unfold Circ.batchPop
  rw [hall]
  simp only [Bool.not_true, Bool.false_eq_true, if_false]
  have hf' : ((List.map (fun p => (normIdx c.numCycles p.1, normIdx c.numQudits p.2))
      pts).filterMap (fun x => (c.cell x.1 x.2).map (fun o => (x.1, o)))).isEmpty = false := hne
  rw [hf']
  simp only [Bool.false_eq_true, if_false]
  rw [List.foldl_reverse]
  rfl

theorem mem_pointsOf (c : Circ) (pred : Op → Bool) (p : Int × Int) :
    p ∈ c.pointsOf pred ↔ ∃ k o, (∃ h : k < c.cycles.length, o ∈ c.cycles[k]) ∧ pred o = true ∧
      p = ((k : Int), (o.head : Int)) := by
  simp only [Circ.pointsOf, List.mem_filterMap, Prod.exists]
  constructor
  · rintro ⟨k, o, hm, h⟩
    split at h
    · rename_i hp
      exact ⟨k, o, (mem_iterCyc c k o).1 hm, hp, by simpa using h.symm⟩
    · simp at h
  · rintro ⟨k, o, hm, hp, rfl⟩
    exact ⟨k, o, (mem_iterCyc c k o).2 hm, by rw [if_pos hp]⟩

/-- the operations `batch_pop` finds at the points of `pred` are exactly the operations of the
grid satisfying `pred` -/
theorem mem_found_pointsOf (c : Circ) (hinv : c.Inv) (pred : Op → Bool) (k : Nat) (o : Op) :
    (k, o) ∈ ((c.pointsOf pred).map
        (fun p => (normIdx c.numCycles p.1, normIdx c.numQudits p.2))).filterMap
        (fun x => (c.cell x.1 x.2).map (fun o => (x.1, o))) ↔
      ∃ h : k < c.cycles.length, o ∈ c.cycles[k] ∧ pred o = true := by
  simp only [List.mem_filterMap, List.mem_map, Prod.exists, mem_pointsOf]
  constructor
  · rintro ⟨a, b, ⟨p1, p2, ⟨k', o', ⟨hlt, hmem⟩, hp, hpe⟩, hn⟩, hc⟩
    simp only [Prod.mk.injEq] at hpe hn
    obtain ⟨rfl, rfl⟩ := hpe
    rw [mem_foundQ.normIdx_nat', mem_foundQ.normIdx_nat'] at hn
    obtain ⟨rfl, rfl⟩ := hn
    have hcell := cell_of_mem c hinv k' o'.head o' hlt hmem
      (head_mem_loc o' (hinv.2.2 _ (List.getElem_mem hlt) o' hmem).1)
    rw [hcell] at hc
    simp only [Option.map_some, Option.some.injEq, Prod.mk.injEq] at hc
    obtain ⟨rfl, rfl⟩ := hc
    exact ⟨hlt, hmem, hp⟩
  · rintro ⟨hlt, hmem, hp⟩
    have hcell := cell_of_mem c hinv k o.head o hlt hmem
      (head_mem_loc o (hinv.2.2 _ (List.getElem_mem hlt) o hmem).1)
    refine ⟨k, o.head, ⟨(k : Int), (o.head : Int), ⟨k, o, ⟨hlt, hmem⟩, hp, rfl⟩, ?_⟩, ?_⟩
    · simp [mem_foundQ.normIdx_nat']
    · simp [hcell]

/-- **`remove_all` on the grid**: every cycle loses exactly its operations satisfying `pred`, in
place, and the cycles that became empty are dropped. -/
theorem removeAll_eq (c : Circ) (hinv : c.Inv) (pred : Op → Bool) :
    c.removeAll pred = ⟨c.radixes, keepCycles pred c.cycles⟩ := by
  unfold Circ.removeAll
  split
  · rename_i he
    have he' : c.pointsOf pred = [] := by simpa using he
    have hnone : ∀ cy ∈ c.cycles, ∀ o ∈ cy, pred o = false := by
      intro cy hcy o ho
      obtain ⟨k, hk, rfl⟩ := List.getElem_of_mem hcy
      cases hp : pred o with
      | false => rfl
      | true =>
        have : ((k : Int), (o.head : Int)) ∈ c.pointsOf pred :=
          (mem_pointsOf c pred _).2 ⟨k, o, ⟨hk, ho⟩, hp, rfl⟩
        rw [he'] at this; simp at this
    have : keepCycles pred c.cycles = c.cycles := by
      unfold keepCycles
      have h1 : c.cycles.map (fun cy => cy.filter (fun o => !pred o)) = c.cycles := by
        conv => rhs; rw [← List.map_id c.cycles]
        apply List.map_congr_left
        intro cy hcy
        show cy.filter _ = cy
        rw [List.filter_eq_self]
        intro o ho
        simp [hnone cy hcy o ho]
      rw [h1, List.filter_eq_self]
      intro cy hcy
      have := hinv.1 cy hcy
      cases cy with
      | nil => exact absurd rfl this
      | cons _ _ => rfl
    rw [this]
  · rename_i he
    have hall : (c.pointsOf pred).all (fun p => c.cycleInRange p.1 && c.qubitInRange p.2) = true := by
      rw [List.all_eq_true]
      intro p hp
      obtain ⟨k, o, ⟨hlt, hmem⟩, _, rfl⟩ := (mem_pointsOf c pred p).1 hp
      have hwf := hinv.2.2 _ (List.getElem_mem hlt) o hmem
      have hq := hwf.2.2.1 _ (head_mem_loc o hwf.1)
      have h1 : c.cycleInRange (k : Int) = true := by
        rw [cycleInRange_iff]; simp only [Circ.numCycles]; omega
      have h2 : c.qubitInRange (o.head : Int) = true := by
        simp only [Circ.qubitInRange, Bool.and_eq_true, decide_eq_true_eq]; omega
      simp [h1, h2]
    have hfound : (((c.pointsOf pred).map
        (fun p => (normIdx c.numCycles p.1, normIdx c.numQudits p.2))).filterMap
        (fun x => (c.cell x.1 x.2).map (fun o => (x.1, o)))).isEmpty = false := by
      cases hp : c.pointsOf pred with
      | nil => rw [hp] at he; simp at he
      | cons p t =>
        obtain ⟨k, o, hm, hpr, _⟩ := (mem_pointsOf c pred p).1 (by rw [hp]; simp)
        have := (mem_found_pointsOf c hinv pred k o).2 ⟨hm.1, hm.2, hpr⟩
        rw [hp] at this
        cases hf : ((p :: t).map
          (fun p => (normIdx c.numCycles p.1, normIdx c.numQudits p.2))).filterMap
          (fun x => (c.cell x.1 x.2).map (fun o => (x.1, o))) with
        | nil => rw [hf] at this; simp at this
        | cons _ _ => rfl
    have hbp := batchPop_selected c (c.pointsOf pred) hall hfound
    simp only at hbp
    rw [hbp]
    show (c.selected _).foldr _ c = _
    -- the selected list is grouped by cycle
    let F : Nat → List Op := fun k =>
      sortBy Op.head (((dedupOps (((c.pointsOf pred).map
        (fun p => (normIdx c.numCycles p.1, normIdx c.numQudits p.2))).filterMap
        (fun x => (c.cell x.1 x.2).map (fun o => (x.1, o))))).filter (·.1 == k)).map (·.2))
    have hsel : c.selected ((c.pointsOf pred).map
        (fun p => (normIdx c.numCycles p.1, normIdx c.numQudits p.2))) =
        (List.range c.cycles.length).flatMap (fun k => (F k).map (fun o => (k, o))) := rfl
    rw [hsel]
    have hF : ∀ k (h : k < c.cycles.length), (F k).Nodup ∧
        ∀ o, o ∈ F k ↔ o ∈ c.cycles[k] ∧ pred o = true := by
      intro k hk
      constructor
      · apply (sortBy_perm _ _).nodup_iff.2
        apply List.Nodup.map_on _ ((nodup_dedupOps _).filter _)
        intro x hx y hy hxy
        have hx1 : x.1 = k := by simpa using (List.mem_filter.mp hx).2
        have hy1 : y.1 = k := by simpa using (List.mem_filter.mp hy).2
        exact Prod.ext (by rw [hx1, hy1]) hxy
      · intro o
        simp only [F, mem_sortBy, List.mem_map, List.mem_filter, mem_dedupOps, Prod.exists,
          beq_iff_eq]
        constructor
        · rintro ⟨a, b, ⟨hm, rfl⟩, rfl⟩
          obtain ⟨_, h1, h2⟩ := (mem_found_pointsOf c hinv pred a b).1 hm
          exact ⟨h1, h2⟩
        · rintro ⟨h1, h2⟩
          exact ⟨k, o, ⟨(mem_found_pointsOf c hinv pred k o).2 ⟨hk, h1, h2⟩, rfl⟩, rfl⟩
    have := remove_groups c hinv pred F hF c.cycles.length (Nat.le_refl _) []
    simp only [List.take_length, List.append_nil] at this
    exact this

/-- the three consequences: nothing satisfying `pred` is left, every timeline is the old timeline
filtered, and `Inv` holds -/
theorem removeAll_ops (c : Circ) (hinv : c.Inv) (pred : Op → Bool) :
    (c.removeAll pred).ops = c.ops.filter (fun o => !pred o) := by
  rw [removeAll_eq c hinv pred]
  exact keepCycles_flatten pred c.cycles

theorem removeAll_timeline (c : Circ) (hinv : c.Inv) (pred : Op → Bool) (q : Nat) :
    (c.removeAll pred).timeline q = (c.timeline q).filter (fun o => !pred o) := by
  unfold Circ.timeline
  rw [removeAll_ops c hinv pred]
  simp only [proj, List.filter_filter]
  apply List.filter_congr
  intro x _
  exact Bool.and_comm _ _

theorem removeAll_inv (c : Circ) (hinv : c.Inv) (pred : Op → Bool) : (c.removeAll pred).Inv := by
  unfold Circ.removeAll
  split
  · exact hinv
  · exact batchPop_inv c _ hinv

end BqVerif.Circ
