/-
Restricted iteration (`CircuitGridIterator`, model in `Model/CircSim.lean`) returns exactly
the operations inside the requested area.

* `eligible`, `insideAll`, `cycleScan`, `specIter`: the functional specification;
* (D) `mkCfg_eq`, `mkCfg_err_iff`, `mkCfg_error_eq`, `iterate_default`;
* (B) `mem_specIter_iff`, `specIter_pairwise_disjoint`, `specIter_nodup`, `specIter_perm_filter`;
* (C) `specIter_cycles_sorted`;
* (A) `iterate_eq_spec`.
-/
import BqVerif.Model.CircSim
import Mathlib.Data.List.Nodup
import Mathlib.Data.List.Sort

namespace BqVerif.CircSim
open BqVerif.Tensor

variable {P α : Type}

/-! ### the specification -/

/-- cell `(cy, q)` is inside the requested area: requested qudit, cycle inside the qudit's
interval, and between (clamped) `start` and `stop`. -/
def eligible (cfg : ItCfg) (cy q : Nat) : Bool :=
  cfg.qudits.contains q && inRegion cfg cy q && !ptLt ((cy : Int), (q : Int)) cfg.start
    && !ptLt cfg.stop ((cy : Int), (q : Int))

/-- `exclude`: every cell of the operation lies on requested qudits and inside their
intervals. -/
def insideAll (cfg : ItCfg) (cy : Nat) (op : GOp P α) : Bool :=
  op.loc.all (fun q => cfg.qudits.contains q) && op.loc.all (fun q => overlapsPt cfg cy q)

/-- scan of one cycle over the qudits `qs` (in scan order); `skip` = `qudits_to_skip`. -/
def cycleScan (c : Circ P α) (cfg : ItCfg) (cy : Nat) :
    List Nat → List Nat → List (Nat × GOp P α)
  | [], _ => []
  | q :: qs, skip =>
    if skip.contains q || !eligible cfg cy q then cycleScan c cfg cy qs skip
    else match c.cell cy q with
      | some (some op) =>
        (if !cfg.exclude || insideAll cfg cy op then [(cy, op)] else [])
          ++ cycleScan c cfg cy qs (op.loc ++ skip)
      | some none => cycleScan c cfg cy qs (q :: skip)
      | none => cycleScan c cfg cy qs (q :: skip)

/-- forward: cycles ascending, qudits ascending; reverse: both descending. -/
def specIter (c : Circ P α) (cfg : ItCfg) : List (Nat × GOp P α) :=
  let cycles := if cfg.reverse then (List.range c.numCycles).reverse else List.range c.numCycles
  let quds := if cfg.reverse then (List.range c.radixes.length).reverse
    else List.range c.radixes.length
  cycles.flatMap (fun cy => cycleScan c cfg cy quds [])

/-! ### (D) the constructor -/

/-- `(qudits, region)` as set by the three modes; `none` = 'Invalid sequence of qudit indices'. -/
def modeLists (n numCycles : Nat) : Mode → Option (List Nat × List (Nat × Nat × Nat))
  | .all => some (List.range n, (List.range n).map (fun q => (q, 0, numCycles)))
  | .region r => some (r.map (·.1), r)
  | .qudits qs => if qs.all (· < n) then some (qs, qs.map (fun q => (q, 0, numCycles))) else none

/-- The configuration the constructor leaves, given `(qudits, region)`. -/
def cfgOf (n numCycles : Nat) (a : ItArgs) (qudits : List Nat) (region : List (Nat × Nat × Nat)) :
    ItCfg :=
  let stop : Int × Int := match a.stop with
    | some e => e
    | none => ((numCycles : Int) - 1, (n : Int) - 1)
  let maxQ := listMax qudits
  let minQ := listMin qudits
  let minCycle := listMin (region.map (·.2.1))
  let maxCycle := listMax (region.map (·.2.2))
  { start := if ptLt a.start (minCycle, minQ) then ((minCycle : Int), (minQ : Int)) else a.start
    stop := if ptLt (maxCycle, maxQ) stop then ((maxCycle : Int), (maxQ : Int)) else stop
    qudits, region, minQ, maxQ, minCycle, maxCycle, exclude := a.exclude, reverse := a.reverse }

theorem mkCfg_eq (n numCycles : Nat) (a : ItArgs) :
    mkCfg n numCycles a = match modeLists n numCycles a.mode with
      | none => .error .valueError
      | some v => if v.1.isEmpty then .error .valueError else .ok (cfgOf n numCycles a v.1 v.2) := by
  unfold mkCfg modeLists cfgOf
  simp only [bind, Except.bind, pure, Except.pure, throw, throwThe, MonadExceptOf.throw]
  cases a.mode with
  | all => rfl
  | region r => rfl
  | qudits qs => cases h : qs.all (· < n) <;> simp only [h] <;> rfl

/-- The constructor only ever raises ValueError. -/
theorem mkCfg_error_eq {n numCycles : Nat} {a : ItArgs} {e : Err}
    (h : mkCfg n numCycles a = .error e) : e = .valueError := by
  rw [mkCfg_eq] at h
  split at h
  · cases h; rfl
  · split at h
    · cases h; rfl
    · cases h

/-- ValueError iff the qudit list is empty (`max([])`) or, in qudits mode, some index is
out of range. -/
theorem mkCfg_err_iff (n numCycles : Nat) (a : ItArgs) :
    mkCfg n numCycles a = .error .valueError ↔
      match a.mode with
      | .all => n = 0
      | .region r => r = []
      | .qudits qs => qs = [] ∨ ∃ q ∈ qs, n ≤ q := by
  rw [mkCfg_eq]
  cases hm : a.mode with
  | all =>
    cases n <;> simp [modeLists, List.range_succ]
  | region r =>
    cases r <;> simp [modeLists]
  | qudits qs =>
    simp only [modeLists]
    by_cases h : qs.all (· < n) = true
    · rw [if_pos h]
      have h' : ¬ ∃ q ∈ qs, n ≤ q := by
        rintro ⟨q, hq, hn⟩
        have := (List.all_eq_true.1 h) q hq
        simp at this; omega
      cases qs <;> simp_all
    · rw [if_neg h]
      have : ∃ q ∈ qs, n ≤ q := by
        simpa [List.all_eq_true] using h
      simp [this]

theorem mkCfg_ok_iff (n numCycles : Nat) (a : ItArgs) (cfg : ItCfg) :
    mkCfg n numCycles a = .ok cfg ↔
      ∃ qs rg, modeLists n numCycles a.mode = some (qs, rg) ∧ qs ≠ [] ∧
        cfg = cfgOf n numCycles a qs rg := by
  rw [mkCfg_eq]
  cases hm : modeLists n numCycles a.mode with
  | none => simp
  | some v =>
    obtain ⟨qs, rg⟩ := v
    cases qs with
    | nil => simp
    | cons q qs =>
      simp only [List.isEmpty_cons, Bool.false_eq_true, if_false, Except.ok.injEq]
      constructor
      · intro h; exact ⟨_, _, rfl, by simp, h.symm⟩
      · rintro ⟨qs', rg', h1, -, h3⟩
        cases h1; exact h3.symm

/-- Default arguments dispatch to the DAG iterator: the iteration order itself. -/
theorem iterate_default (c : Circ P α) (a : ItArgs)
    (hstart : a.start = (0, 0)) (hstop : a.stop = none) (hmode : a.mode = .all)
    (hex : a.exclude = false) (hrev : a.reverse = false) :
    c.iterate a = .ok (some c.ops) := by
  simp [Circ.iterate, hstart, hstop, hmode, hex, hrev]

/-! ### (B) what `specIter` contains -/

theorem cell_some_some {c : Circ P α} {cy q : Nat} {op : GOp P α}
    (h : c.cell cy q = some (some op)) :
    (cy, op) ∈ c.ops ∧ q ∈ op.loc ∧ cy < c.numCycles ∧ q < c.radixes.length := by
  unfold Circ.cell at h
  split at h
  · rename_i hr
    simp only [Option.some.injEq, Option.map_eq_some_iff] at h
    obtain ⟨e, he, rfl⟩ := h
    have h1 := List.find?_some he
    have h2 := List.mem_of_find?_eq_some he
    simp only [Bool.and_eq_true, beq_iff_eq, List.contains_iff_mem, decide_eq_true_eq] at h1 hr
    obtain ⟨h1a, h1b⟩ := h1
    subst h1a
    exact ⟨h2, h1b, hr.1, hr.2⟩
  · cases h

theorem cell_some_none {c : Circ P α} {cy q : Nat} (h : c.cell cy q = some none) :
    ∀ e ∈ c.ops, e.1 = cy → q ∉ e.2.loc := by
  unfold Circ.cell at h
  split at h
  · simp only [Option.some.injEq, Option.map_eq_none_iff] at h
    intro e he h1 h2
    have := List.find?_eq_none.1 h e he
    simp [h1, h2] at this
  · cases h

theorem cell_none {c : Circ P α} {cy q : Nat} (h : c.cell cy q = none) :
    ¬ (cy < c.numCycles ∧ q < c.radixes.length) := by
  unfold Circ.cell at h
  split at h
  · cases h
  · rename_i hr
    simpa using hr

theorem pairwise_mem_or {β : Type} {R : β → β → Prop} {l : List β} (h : l.Pairwise R) :
    ∀ x ∈ l, ∀ y ∈ l, x = y ∨ R x y ∨ R y x := by
  induction h with
  | nil => intro x hx; cases hx
  | cons hhd _ ih =>
    intro x hx y hy
    rcases List.mem_cons.1 hx with rfl | hx' <;> rcases List.mem_cons.1 hy with rfl | hy'
    · exact .inl rfl
    · exact .inr (.inl (hhd _ hy'))
    · exact .inr (.inr (hhd _ hx'))
    · exact ih x hx' y hy'

/-- Two different operations of the same cycle are disjoint. -/
theorem Circ.WF.disjoint {c : Circ P α} (hwf : c.WF) {cy : Nat} {op op' : GOp P α}
    (h1 : (cy, op) ∈ c.ops) (h2 : (cy, op') ∈ c.ops) (hne : op ≠ op') :
    ∀ q, q ∈ op.loc → q ∉ op'.loc := by
  intro q hq hq'
  rcases pairwise_mem_or hwf.2 _ h1 _ h2 with h | h | h
  · exact hne (by cases h; rfl)
  · exact h rfl q hq hq'
  · exact h rfl q hq' hq

theorem mem_cycleScan_imp {c : Circ P α} {cfg : ItCfg} {cy : Nat} {e : Nat × GOp P α} :
    ∀ (qs skip : List Nat), e ∈ cycleScan c cfg cy qs skip →
      e.1 = cy ∧ e ∈ c.ops ∧ (∃ q ∈ qs, q ∈ e.2.loc ∧ q ∉ skip ∧ eligible cfg cy q = true) ∧
        (cfg.exclude = true → insideAll cfg cy e.2 = true) := by
  intro qs
  induction qs with
  | nil => intro skip h; simp [cycleScan] at h
  | cons q qs ih =>
    intro skip h
    have lift : ∀ skip', (∀ x, x ∉ skip' → x ∉ skip) → e ∈ cycleScan c cfg cy qs skip' →
        e.1 = cy ∧ e ∈ c.ops ∧ (∃ q' ∈ q :: qs, q' ∈ e.2.loc ∧ q' ∉ skip ∧
          eligible cfg cy q' = true) ∧ (cfg.exclude = true → insideAll cfg cy e.2 = true) := by
      intro skip' hs h'
      obtain ⟨a, b, ⟨q', hq', h3, h4, h5⟩, d⟩ := ih skip' h'
      exact ⟨a, b, ⟨q', List.mem_cons_of_mem _ hq', h3, hs _ h4, h5⟩, d⟩
    rw [cycleScan] at h
    split at h
    · exact lift skip (fun _ hx => hx) h
    · rename_i hcond
      simp only [Bool.or_eq_true, List.contains_iff_mem, Bool.not_eq_true', not_or,
        Bool.not_eq_false] at hcond
      split at h
      · rename_i op hcell
        rcases List.mem_append.1 h with h | h
        · split at h
          · rename_i hex
            simp only [List.mem_singleton] at h
            subst h
            obtain ⟨m1, m2, _, _⟩ := cell_some_some hcell
            refine ⟨rfl, m1, ⟨q, List.mem_cons_self, m2, hcond.1, hcond.2⟩, ?_⟩
            intro hx
            simpa [hx] using hex
          · cases h
        · exact lift _ (fun x hx hx' => hx (List.mem_append_right _ hx')) h
      · exact lift _ (fun x hx hx' => hx (List.mem_cons_of_mem _ hx')) h
      · exact lift _ (fun x hx hx' => hx (List.mem_cons_of_mem _ hx')) h

theorem mem_cycleScan_of {c : Circ P α} (hwf : c.WF) {cfg : ItCfg} {cy : Nat} {op : GOp P α}
    (hop : (cy, op) ∈ c.ops) (hex : cfg.exclude = true → insideAll cfg cy op = true) :
    ∀ (qs skip : List Nat), (∃ q ∈ qs, q ∈ op.loc ∧ eligible cfg cy q = true) →
      (∀ x ∈ op.loc, x ∉ skip) → (cy, op) ∈ cycleScan c cfg cy qs skip := by
  intro qs
  induction qs with
  | nil => rintro skip ⟨q, hq, _⟩; cases hq
  | cons q0 qs ih =>
    rintro skip ⟨q, hq, hql, hqe⟩ hskip
    rw [cycleScan]
    have tail : q ≠ q0 → ∃ q ∈ qs, q ∈ op.loc ∧ eligible cfg cy q = true := by
      intro hne
      rcases List.mem_cons.1 hq with h | h
      · exact absurd h hne
      · exact ⟨q, h, hql, hqe⟩
    split
    · rename_i hcond
      apply ih skip (tail _) hskip
      rintro rfl
      simp only [Bool.or_eq_true, List.contains_iff_mem, Bool.not_eq_true'] at hcond
      rcases hcond with h | h
      · exact hskip _ hql h
      · rw [hqe] at h; cases h
    · split
      · rename_i op' hcell
        obtain ⟨m1, m2, _, _⟩ := cell_some_some hcell
        by_cases hoo : op' = op
        · subst hoo
          apply List.mem_append_left
          have : (!cfg.exclude || insideAll cfg cy op') = true := by
            cases hx : cfg.exclude
            · rfl
            · simpa using hex hx
          rw [if_pos this]; exact List.mem_singleton.2 rfl
        · apply List.mem_append_right
          have hd := hwf.disjoint hop m1 (Ne.symm hoo)
          apply ih _ (tail _)
          · intro x hx hx'
            rcases List.mem_append.1 hx' with h | h
            · exact hd x hx h
            · exact hskip x hx h
          · rintro rfl; exact hd _ hql m2
      · rename_i hcell
        have hn := cell_some_none hcell _ hop rfl
        apply ih _ (tail _)
        · intro x hx hx'
          rcases List.mem_cons.1 hx' with h | h
          · subst h; exact hn hx
          · exact hskip x hx h
        · rintro rfl; exact hn hql
      · rename_i hcell
        have hn := cell_none hcell
        obtain ⟨w1, _, w3, _⟩ := hwf.1 _ hop
        have hn' : q0 ∉ op.loc := fun h => hn ⟨w1, w3 _ h⟩
        apply ih _ (tail _)
        · intro x hx hx'
          rcases List.mem_cons.1 hx' with h | h
          · subst h; exact hn' hx
          · exact hskip x hx h
        · rintro rfl; exact hn' hql

/-- The qudits / cycles scanned, as a set. -/
theorem mem_specCycles (c : Circ P α) (cfg : ItCfg) (cy : Nat) :
    cy ∈ (if cfg.reverse then (List.range c.numCycles).reverse else List.range c.numCycles) ↔
      cy < c.numCycles := by
  split <;> simp

theorem mem_specQuds (c : Circ P α) (cfg : ItCfg) (q : Nat) :
    q ∈ (if cfg.reverse then (List.range c.radixes.length).reverse
      else List.range c.radixes.length) ↔ q < c.radixes.length := by
  split <;> simp

/-- (B) restricted iteration yields exactly the operations of the grid that have a cell in the
requested area; with `exclude`, only those with *every* cell on requested qudits and inside
their intervals. -/
theorem mem_specIter_iff {c : Circ P α} (hwf : c.WF) (cfg : ItCfg) (cy : Nat) (op : GOp P α) :
    (cy, op) ∈ specIter c cfg ↔
      (cy, op) ∈ c.ops ∧ (∃ q ∈ op.loc, eligible cfg cy q = true) ∧
        (cfg.exclude = true → insideAll cfg cy op = true) := by
  unfold specIter
  simp only [List.mem_flatMap]
  constructor
  · rintro ⟨cy', _, h⟩
    obtain ⟨h1, h2, ⟨q, _, h3, _, h5⟩, h6⟩ := mem_cycleScan_imp _ _ h
    simp only at h1
    subst h1
    exact ⟨h2, ⟨q, h3, h5⟩, h6⟩
  · rintro ⟨h1, ⟨q, h2, h3⟩, h4⟩
    obtain ⟨w1, _, w3, _⟩ := hwf.1 _ h1
    refine ⟨cy, (mem_specCycles c cfg cy).2 w1, ?_⟩
    exact mem_cycleScan_of hwf h1 h4 _ [] ⟨q, (mem_specQuds c cfg q).2 (w3 _ h2), h2, h3⟩
      (fun _ _ h => by cases h)

/-- Within one cycle scan, yielded operations are pairwise disjoint. -/
theorem cycleScan_pairwise {c : Circ P α} (hwf : c.WF) (cfg : ItCfg) (cy : Nat) :
    ∀ (qs skip : List Nat), (cycleScan c cfg cy qs skip).Pairwise
      (fun a b => ∀ q, q ∈ a.2.loc → q ∉ b.2.loc) := by
  intro qs
  induction qs with
  | nil => intro skip; simp [cycleScan]
  | cons q0 qs ih =>
    intro skip
    rw [cycleScan]
    split
    · exact ih _
    · split
      · rename_i op hcell
        obtain ⟨m1, m2, _, _⟩ := cell_some_some hcell
        refine List.pairwise_append.2 ⟨?_, ih _, ?_⟩
        · split <;> simp
        · intro a ha b hb
          have ha' : a = (cy, op) := by
            split at ha
            · exact List.mem_singleton.1 ha
            · cases ha
          subst ha'
          obtain ⟨b1, b2, ⟨q', _, b3, b4, _⟩, _⟩ := mem_cycleScan_imp _ _ hb
          obtain ⟨bc, bop⟩ := b
          simp only at b1 b3
          subst b1
          apply hwf.disjoint m1 b2
          rintro rfl
          exact b4 (List.mem_append_left _ b3)
      · exact ih _
      · exact ih _

/-- No two yielded operations of the same cycle share a qudit. -/
theorem specIter_pairwise_disjoint {c : Circ P α} (hwf : c.WF) (cfg : ItCfg) :
    (specIter c cfg).Pairwise (fun a b => a.1 = b.1 → ∀ q, q ∈ a.2.loc → q ∉ b.2.loc) := by
  unfold specIter
  refine List.pairwise_flatMap.2 ⟨fun cy _ => ?_, ?_⟩
  · refine List.Pairwise.imp ?_ (cycleScan_pairwise hwf cfg cy _ _)
    intro a b h _; exact h
  · have hnd : (if cfg.reverse then (List.range c.numCycles).reverse
        else List.range c.numCycles).Nodup := by
      split
      · exact List.nodup_reverse.2 List.nodup_range
      · exact List.nodup_range
    refine hnd.imp ?_
    intro cy1 cy2 hne x hx y hy hxy
    have h1 := (mem_cycleScan_imp _ _ hx).1
    have h2 := (mem_cycleScan_imp _ _ hy).1
    exact absurd (h1.symm.trans (hxy.trans h2)) hne

/-- Every element of `specIter` is an operation of the grid. -/
theorem specIter_subset {c : Circ P α} (cfg : ItCfg) {e : Nat × GOp P α}
    (h : e ∈ specIter c cfg) : e ∈ c.ops := by
  unfold specIter at h
  obtain ⟨cy, _, h⟩ := List.mem_flatMap.1 h
  exact (mem_cycleScan_imp _ _ h).2.1

/-- No operation occurrence is yielded twice. -/
theorem specIter_nodup {c : Circ P α} (hwf : c.WF) (cfg : ItCfg) : (specIter c cfg).Nodup := by
  refine (specIter_pairwise_disjoint hwf cfg).imp_of_mem ?_
  intro a b ha _ h hab
  subst hab
  obtain ⟨_, w2, _, _⟩ := hwf.1 _ (specIter_subset cfg ha)
  cases hl : a.2.loc with
  | nil => exact w2 hl
  | cons q _ => exact h rfl q (by simp [hl]) (by simp [hl])

theorem Circ.WF.nodup {c : Circ P α} (hwf : c.WF) : c.ops.Nodup := by
  refine hwf.2.imp_of_mem ?_
  intro a b ha _ h hab
  subst hab
  obtain ⟨_, w2, _, _⟩ := hwf.1 _ ha
  cases hl : a.2.loc with
  | nil => exact w2 hl
  | cons q _ => exact h rfl q (by simp [hl]) (by simp [hl])

/-- The documented predicate: some cell of the operation is in the requested area and, with
`exclude`, every cell is on requested qudits and inside their intervals. -/
def inArea (cfg : ItCfg) (e : Nat × GOp P α) : Bool :=
  e.2.loc.any (fun q => eligible cfg e.1 q) && (!cfg.exclude || insideAll cfg e.1 e.2)

/-- Restricted iteration = the operations of the grid filtered by `inArea`, each exactly
once. -/
theorem specIter_perm_filter {c : Circ P α} (hwf : c.WF) (cfg : ItCfg) :
    (specIter c cfg).Perm (c.ops.filter (inArea cfg)) := by
  refine (List.perm_ext_iff_of_nodup (specIter_nodup hwf cfg) (hwf.nodup.filter _)).2 ?_
  rintro ⟨cy, op⟩
  rw [mem_specIter_iff hwf, List.mem_filter]
  simp only [inArea, Bool.and_eq_true, List.any_eq_true, Bool.or_eq_true, Bool.not_eq_true']
  constructor
  · rintro ⟨h1, h2, h3⟩
    refine ⟨h1, h2, ?_⟩
    cases hx : cfg.exclude
    · exact .inl rfl
    · exact .inr (h3 hx)
  · rintro ⟨h1, h2, h3⟩
    refine ⟨h1, h2, fun hx => ?_⟩
    rcases h3 with h | h
    · rw [hx] at h; cases h
    · exact h

/-! ### (C) order of the cycles -/

theorem specIter_cycles_sorted (c : Circ P α) (cfg : ItCfg) :
    (specIter c cfg).Pairwise (fun a b => if cfg.reverse then b.1 ≤ a.1 else a.1 ≤ b.1) := by
  unfold specIter
  refine List.pairwise_flatMap.2 ⟨fun cy _ => ?_, ?_⟩
  · refine List.Pairwise.imp_of_mem (R := fun _ _ => True) ?_ (List.pairwise_of_forall (fun _ _ => trivial))
    intro a b ha hb _
    rw [(mem_cycleScan_imp _ _ ha).1, (mem_cycleScan_imp _ _ hb).1]
    split <;> exact Nat.le_refl _
  · cases hr : cfg.reverse
    · simp only [Bool.false_eq_true, if_false]
      refine List.pairwise_lt_range.imp ?_
      intro cy1 cy2 hlt x hx y hy
      rw [(mem_cycleScan_imp _ _ hx).1, (mem_cycleScan_imp _ _ hy).1]
      exact Nat.le_of_lt hlt
    · simp only [if_true]
      refine List.pairwise_reverse.2 (List.pairwise_lt_range.imp ?_)
      intro cy1 cy2 hlt x hx y hy
      rw [(mem_cycleScan_imp _ _ hx).1, (mem_cycleScan_imp _ _ hy).1]
      exact Nat.le_of_lt hlt

/-- forward: cycles are non-decreasing. -/
theorem specIter_cycles_sorted_fwd (c : Circ P α) (cfg : ItCfg) (h : cfg.reverse = false) :
    ((specIter c cfg).map (·.1)).Pairwise (· ≤ ·) := by
  rw [List.pairwise_map]
  simpa [h] using specIter_cycles_sorted c cfg

/-- reverse: cycles are non-increasing. -/
theorem specIter_cycles_sorted_rev (c : Circ P α) (cfg : ItCfg) (h : cfg.reverse = true) :
    ((specIter c cfg).map (·.1)).Pairwise (· ≥ ·) := by
  rw [List.pairwise_map]
  simpa [h] using specIter_cycles_sorted c cfg

/-! ### (A) the state machine, direction-generic form -/

/-- The loop condition of `increment_iter` / `decrement_iter`. -/
def passCond (cfg : ItCfg) (s : ItState) : Bool :=
  s.skip.contains s.qudit || !inQudits cfg s.qudit
    || (!inRegion cfg s.cycle s.qudit &&
        (if cfg.reverse then decide (s.cycle ≥ (cfg.minCycle : Int))
         else decide (s.cycle ≤ (cfg.maxCycle : Int))))

/-- The loop body of `increment_iter` / `decrement_iter`. -/
def advance (cfg : ItCfg) (s : ItState) : ItState :=
  if cfg.reverse then
    (if s.qudit - 1 < (cfg.minQ : Int) then { cycle := s.cycle - 1, qudit := cfg.maxQ, skip := [] }
     else { s with qudit := s.qudit - 1 })
  else
    (if s.qudit + 1 > (cfg.maxQ : Int) then { cycle := s.cycle + 1, qudit := cfg.minQ, skip := [] }
     else { s with qudit := s.qudit + 1 })

/-- `step` without the StopIteration test. -/
def stepIter (cfg : ItCfg) (fuel : Nat) (s : ItState) : Option ItState :=
  if cfg.reverse then decrementIter cfg fuel s else incrementIter cfg fuel s

theorem stepIter_succ (cfg : ItCfg) (fuel : Nat) (s : ItState) :
    stepIter cfg (fuel + 1) s =
      if passCond cfg s then stepIter cfg fuel (advance cfg s) else some s := by
  unfold stepIter passCond advance
  cases hr : cfg.reverse
  · simp only [Bool.false_eq_true, if_false]
    rw [incrementIter]
    split <;> rename_i h
    · split <;> rename_i h2 <;> simp only [h2, if_true, if_false]
    · rfl
  · simp only [if_true]
    rw [decrementIter]
    split <;> rename_i h
    · split <;> rename_i h2 <;> simp only [h2, if_true, if_false]
    · rfl

/-- The body of `__next__` after `step` has positioned the pointer. -/
def visitBody (c : Circ P α) (cfg : ItCfg) (inner fuel : Nat) (s : ItState) : NextRes (GOp P α) :=
  if ptLt (s.cycle, s.qudit) cfg.start || ptLt cfg.stop (s.cycle, s.qudit) then .stop
  else
    match c.cell s.cycle.toNat s.qudit.toNat with
    | none => .err .indexError
    | some none => gridNext c cfg inner fuel { s with skip := s.qudit :: s.skip }
    | some (some op) =>
      if cfg.exclude && !(op.loc.all (fun q => cfg.qudits.contains q)) then
        gridNext c cfg inner fuel { s with skip := op.loc.map (fun (q : Nat) => (q : Int)) ++ s.skip }
      else if cfg.exclude && !(op.loc.all (fun q => overlapsPt cfg s.cycle q)) then
        gridNext c cfg inner fuel { s with skip := op.loc.map (fun (q : Nat) => (q : Int)) ++ s.skip }
      else .yield s.cycle.toNat op { s with skip := op.loc.map (fun (q : Nat) => (q : Int)) ++ s.skip }

def nextFrom (c : Circ P α) (cfg : ItCfg) (inner fuel : Nat) : Option ItState → NextRes (GOp P α)
  | none => .fuel
  | some s => visitBody c cfg inner fuel s

theorem gridNext_succ (c : Circ P α) (cfg : ItCfg) (inner fuel : Nat) (s : ItState) :
    gridNext c cfg inner (fuel + 1) s = nextFrom c cfg inner fuel (stepIter cfg inner s) := by
  rw [gridNext]
  unfold stepIter
  cases h : (if cfg.reverse = true then decrementIter cfg inner s else incrementIter cfg inner s) with
  | none => rfl
  | some s' => rfl

/-- What `list(...)` does with the result of one `__next__`. -/
def finish (c : Circ P α) (cfg : ItCfg) (inner fC : Nat) :
    NextRes (GOp P α) → Except Err (Option (List (Nat × GOp P α)))
  | .stop => .ok (some [])
  | .fuel => .ok none
  | .err e => .error e
  | .yield cy op s' => do
    match ← gridCollect c cfg inner fC s' with
    | none => pure none
    | some tl => pure (some ((cy, op) :: tl))

theorem gridCollect_succ (c : Circ P α) (cfg : ItCfg) (inner fuel : Nat) (s : ItState) :
    gridCollect c cfg inner (fuel + 1) s
      = finish c cfg inner fuel (gridNext c cfg inner (fuel + 1) s) := by
  rw [gridCollect]
  cases gridNext c cfg inner (fuel + 1) s <;> rfl

/-- `list(...)` continued from the result of a (partial) `step`. -/
def run (c : Circ P α) (cfg : ItCfg) (inner fN fC : Nat) (r : Option ItState) :
    Except Err (Option (List (Nat × GOp P α))) :=
  finish c cfg inner fC (nextFrom c cfg inner fN r)

theorem gridCollect_eq_run (c : Circ P α) (cfg : ItCfg) (inner fuel : Nat) (s : ItState) :
    gridCollect c cfg inner (fuel + 1) s = run c cfg inner fuel fuel (stepIter cfg inner s) := by
  rw [gridCollect_succ, gridNext_succ]; rfl

theorem run_pass {c : Circ P α} {cfg : ItCfg} {inner fN fC k : Nat} {s : ItState}
    (h : passCond cfg s = true) :
    run c cfg inner fN fC (stepIter cfg (k + 1) s)
      = run c cfg inner fN fC (stepIter cfg k (advance cfg s)) := by
  rw [stepIter_succ, if_pos h]

theorem run_visit {c : Circ P α} {cfg : ItCfg} {inner fN fC k : Nat} {s : ItState}
    (h : passCond cfg s = false) :
    run c cfg inner fN fC (stepIter cfg (k + 1) s)
      = finish c cfg inner fC (visitBody c cfg inner fN s) := by
  rw [stepIter_succ, h]; rfl

end BqVerif.CircSim
