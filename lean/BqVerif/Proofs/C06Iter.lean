/-
Restricted iteration (`CircuitGridIterator`, model in `Model/CircSim.lean`) returns exactly
the operations inside the requested area.

* `eligible`, `insideAll`, `cycleScan`, `specIter`: the functional specification
  (`specIter c cfg` = for every cycle in iteration order, `cycleScan` of the qudits in
  iteration order with `qudits_to_skip = []`);
* (D) `mkCfg_eq`, `mkCfg_ok_iff`, `mkCfg_err_iff`, `mkCfg_error_eq`, `iterate_default`;
* (B) `mem_specIter_iff`, `specIter_pairwise_disjoint`, `specIter_nodup`,
  `specIter_perm_filter` (`specIter` is a permutation of `c.ops.filter (inArea cfg)`);
* (C) `specIter_cycles_sorted`, `specIter_cycles_sorted_fwd`, `specIter_cycles_sorted_rev`;
* (A) `gridCollect_eq_spec` (fuel-independent), `iterate_eq_spec` (with the model's
  `iterFuel`).

Structure of (A): `stepIter`/`passCond`/`advance` put `increment_iter`/`decrement_iter` in one
direction-generic form; `run` is `list(...)` continued from a partial `step`; `pos_step` treats
one pointer position (passed / visited / StopIteration); `main_sim` is the induction over
rows (`kr`) and positions in the row (`kq`), with explicit fuel bounds; `walk_eq_spec_fwd/rev`
identify the walked rows with `specIter`; `run_neg_prefix_fwd`, `run_neg_row_rev`,
`run_neg_fresh_rev` treat an initial pointer with a negative coordinate; `good_of_mkCfg`
supplies the facts about the constructor.  `ItArgsOK` has only the two conditions that exclude
an IndexError of the real iterator.
-/
import BqVerif.Model.CircSim
import Mathlib.Data.List.Nodup
import Mathlib.Data.List.Sort

namespace BqVerif.CircSim
open BqVerif.Tensor

variable {P α : Type}

/-! ### the specification -/

/-- cell `(cy, q)` is inside the requested area: requested qudit, cycle inside the qudit's
interval, and between (clamped) `start` and `stop`. -/
def eligible (cfg : ItCfg) (cy q : Nat) : Bool :=
  cfg.qudits.contains q && inRegion cfg cy q && !ptLt ((cy : Int), (q : Int)) cfg.start
    && !ptLt cfg.stop ((cy : Int), (q : Int))

/-- `exclude`: every cell of the operation lies on requested qudits and inside their
intervals. -/
def insideAll (cfg : ItCfg) (cy : Nat) (op : GOp P α) : Bool :=
  op.loc.all (fun q => cfg.qudits.contains q) && op.loc.all (fun q => overlapsPt cfg cy q)

/-- scan of one cycle over the qudits `qs` (in scan order); `skip` = `qudits_to_skip`. -/
def cycleScan (c : Circ P α) (cfg : ItCfg) (cy : Nat) :
    List Nat → List Nat → List (Nat × GOp P α)
  | [], _ => []
  | q :: qs, skip =>
    if skip.contains q || !eligible cfg cy q then cycleScan c cfg cy qs skip
    else match c.cell cy q with
      | some (some op) =>
        (if !cfg.exclude || insideAll cfg cy op then [(cy, op)] else [])
          ++ cycleScan c cfg cy qs (op.loc ++ skip)
      | some none => cycleScan c cfg cy qs (q :: skip)
      | none => cycleScan c cfg cy qs (q :: skip)

/-- forward: cycles ascending, qudits ascending; reverse: both descending. -/
def specIter (c : Circ P α) (cfg : ItCfg) : List (Nat × GOp P α) :=
  let cycles := if cfg.reverse then (List.range c.numCycles).reverse else List.range c.numCycles
  let quds := if cfg.reverse then (List.range c.radixes.length).reverse
    else List.range c.radixes.length
  cycles.flatMap (fun cy => cycleScan c cfg cy quds [])

/-! ### (D) the constructor -/

/-- `(qudits, region)` as set by the three modes; `none` = 'Invalid sequence of qudit indices'. -/
def modeLists (n numCycles : Nat) : Mode → Option (List Nat × List (Nat × Nat × Nat))
  | .all => some (List.range n, (List.range n).map (fun q => (q, 0, numCycles)))
  | .region r => some (r.map (·.1), r)
  | .qudits qs => if qs.all (· < n) then some (qs, qs.map (fun q => (q, 0, numCycles))) else none

/-- The configuration the constructor leaves, given `(qudits, region)`. -/
def cfgOf (n numCycles : Nat) (a : ItArgs) (qudits : List Nat) (region : List (Nat × Nat × Nat)) :
    ItCfg :=
  let stop : Int × Int := match a.stop with
    | some e => e
    | none => ((numCycles : Int) - 1, (n : Int) - 1)
  let maxQ := listMax qudits
  let minQ := listMin qudits
  let minCycle := listMin (region.map (·.2.1))
  let maxCycle := listMax (region.map (·.2.2))
  { start := if ptLt a.start (minCycle, minQ) then ((minCycle : Int), (minQ : Int)) else a.start
    stop := if ptLt (maxCycle, maxQ) stop then ((maxCycle : Int), (maxQ : Int)) else stop
    qudits, region, minQ, maxQ, minCycle, maxCycle, exclude := a.exclude, reverse := a.reverse }

theorem mkCfg_eq (n numCycles : Nat) (a : ItArgs) :
    mkCfg n numCycles a = match modeLists n numCycles a.mode with
      | none => .error .valueError
      | some v => if v.1.isEmpty then .error .valueError else .ok (cfgOf n numCycles a v.1 v.2) := by
  unfold mkCfg modeLists cfgOf
  simp only [bind, Except.bind, pure, Except.pure, throw, throwThe, MonadExceptOf.throw]
  cases a.mode with
  | all => rfl
  | region r => rfl
  | qudits qs => cases h : qs.all (· < n) <;> simp only [h] <;> rfl

/-- The constructor only ever raises ValueError. -/
theorem mkCfg_error_eq {n numCycles : Nat} {a : ItArgs} {e : Err}
    (h : mkCfg n numCycles a = .error e) : e = .valueError := by
  rw [mkCfg_eq] at h
  split at h
  · cases h; rfl
  · split at h
    · cases h; rfl
    · cases h

/-- ValueError iff the qudit list is empty (`max([])`) or, in qudits mode, some index is
out of range. -/
theorem mkCfg_err_iff (n numCycles : Nat) (a : ItArgs) :
    mkCfg n numCycles a = .error .valueError ↔
      match a.mode with
      | .all => n = 0
      | .region r => r = []
      | .qudits qs => qs = [] ∨ ∃ q ∈ qs, n ≤ q := by
  rw [mkCfg_eq]
  cases hm : a.mode with
  | all =>
    cases n <;> simp [modeLists, List.range_succ]
  | region r =>
    cases r <;> simp [modeLists]
  | qudits qs =>
    simp only [modeLists]
    by_cases h : qs.all (· < n) = true
    · rw [if_pos h]
      have h' : ¬ ∃ q ∈ qs, n ≤ q := by
        rintro ⟨q, hq, hn⟩
        have := (List.all_eq_true.1 h) q hq
        simp at this; omega
      cases qs <;> simp_all
    · rw [if_neg h]
      have : ∃ q ∈ qs, n ≤ q := by
        simpa [List.all_eq_true] using h
      simp [this]

theorem mkCfg_ok_iff (n numCycles : Nat) (a : ItArgs) (cfg : ItCfg) :
    mkCfg n numCycles a = .ok cfg ↔
      ∃ qs rg, modeLists n numCycles a.mode = some (qs, rg) ∧ qs ≠ [] ∧
        cfg = cfgOf n numCycles a qs rg := by
  rw [mkCfg_eq]
  cases hm : modeLists n numCycles a.mode with
  | none => simp
  | some v =>
    obtain ⟨qs, rg⟩ := v
    cases qs with
    | nil => simp
    | cons q qs =>
      simp only [List.isEmpty_cons, Bool.false_eq_true, if_false, Except.ok.injEq]
      constructor
      · intro h; exact ⟨_, _, rfl, by simp, h.symm⟩
      · rintro ⟨qs', rg', h1, -, h3⟩
        cases h1; exact h3.symm

/-- Default arguments dispatch to the DAG iterator: the iteration order itself. -/
theorem iterate_default (c : Circ P α) (a : ItArgs)
    (hstart : a.start = (0, 0)) (hstop : a.stop = none) (hmode : a.mode = .all)
    (hex : a.exclude = false) (hrev : a.reverse = false) :
    c.iterate a = .ok (some c.ops) := by
  simp [Circ.iterate, hstart, hstop, hmode, hex, hrev]

/-! ### (B) what `specIter` contains -/

theorem cell_some_some {c : Circ P α} {cy q : Nat} {op : GOp P α}
    (h : c.cell cy q = some (some op)) :
    (cy, op) ∈ c.ops ∧ q ∈ op.loc ∧ cy < c.numCycles ∧ q < c.radixes.length := by
  unfold Circ.cell at h
  split at h
  · rename_i hr
    simp only [Option.some.injEq, Option.map_eq_some_iff] at h
    obtain ⟨e, he, rfl⟩ := h
    have h1 := List.find?_some he
    have h2 := List.mem_of_find?_eq_some he
    simp only [Bool.and_eq_true, beq_iff_eq, List.contains_iff_mem, decide_eq_true_eq] at h1 hr
    obtain ⟨h1a, h1b⟩ := h1
    subst h1a
    exact ⟨h2, h1b, hr.1, hr.2⟩
  · cases h

theorem cell_some_none {c : Circ P α} {cy q : Nat} (h : c.cell cy q = some none) :
    ∀ e ∈ c.ops, e.1 = cy → q ∉ e.2.loc := by
  unfold Circ.cell at h
  split at h
  · simp only [Option.some.injEq, Option.map_eq_none_iff] at h
    intro e he h1 h2
    have := List.find?_eq_none.1 h e he
    simp [h1, h2] at this
  · cases h

theorem cell_none {c : Circ P α} {cy q : Nat} (h : c.cell cy q = none) :
    ¬ (cy < c.numCycles ∧ q < c.radixes.length) := by
  unfold Circ.cell at h
  split at h
  · cases h
  · rename_i hr
    simpa using hr

theorem pairwise_mem_or {β : Type} {R : β → β → Prop} {l : List β} (h : l.Pairwise R) :
    ∀ x ∈ l, ∀ y ∈ l, x = y ∨ R x y ∨ R y x := by
  induction h with
  | nil => intro x hx; cases hx
  | cons hhd _ ih =>
    intro x hx y hy
    rcases List.mem_cons.1 hx with rfl | hx' <;> rcases List.mem_cons.1 hy with rfl | hy'
    · exact .inl rfl
    · exact .inr (.inl (hhd _ hy'))
    · exact .inr (.inr (hhd _ hx'))
    · exact ih x hx' y hy'

/-- Two different operations of the same cycle are disjoint. -/
theorem Circ.WF.disjoint {c : Circ P α} (hwf : c.WF) {cy : Nat} {op op' : GOp P α}
    (h1 : (cy, op) ∈ c.ops) (h2 : (cy, op') ∈ c.ops) (hne : op ≠ op') :
    ∀ q, q ∈ op.loc → q ∉ op'.loc := by
  intro q hq hq'
  rcases pairwise_mem_or hwf.2 _ h1 _ h2 with h | h | h
  · exact hne (by cases h; rfl)
  · exact h rfl q hq hq'
  · exact h rfl q hq' hq

theorem mem_cycleScan_imp {c : Circ P α} {cfg : ItCfg} {cy : Nat} {e : Nat × GOp P α} :
    ∀ (qs skip : List Nat), e ∈ cycleScan c cfg cy qs skip →
      e.1 = cy ∧ e ∈ c.ops ∧ (∃ q ∈ qs, q ∈ e.2.loc ∧ q ∉ skip ∧ eligible cfg cy q = true) ∧
        (cfg.exclude = true → insideAll cfg cy e.2 = true) := by
  intro qs
  induction qs with
  | nil => intro skip h; simp [cycleScan] at h
  | cons q qs ih =>
    intro skip h
    have lift : ∀ skip', (∀ x, x ∉ skip' → x ∉ skip) → e ∈ cycleScan c cfg cy qs skip' →
        e.1 = cy ∧ e ∈ c.ops ∧ (∃ q' ∈ q :: qs, q' ∈ e.2.loc ∧ q' ∉ skip ∧
          eligible cfg cy q' = true) ∧ (cfg.exclude = true → insideAll cfg cy e.2 = true) := by
      intro skip' hs h'
      obtain ⟨a, b, ⟨q', hq', h3, h4, h5⟩, d⟩ := ih skip' h'
      exact ⟨a, b, ⟨q', List.mem_cons_of_mem _ hq', h3, hs _ h4, h5⟩, d⟩
    rw [cycleScan] at h
    split at h
    · exact lift skip (fun _ hx => hx) h
    · rename_i hcond
      simp only [Bool.or_eq_true, List.contains_iff_mem, Bool.not_eq_true', not_or,
        Bool.not_eq_false] at hcond
      split at h
      · rename_i op hcell
        rcases List.mem_append.1 h with h | h
        · split at h
          · rename_i hex
            simp only [List.mem_singleton] at h
            subst h
            obtain ⟨m1, m2, _, _⟩ := cell_some_some hcell
            refine ⟨rfl, m1, ⟨q, List.mem_cons_self, m2, hcond.1, hcond.2⟩, ?_⟩
            intro hx
            simpa [hx] using hex
          · cases h
        · exact lift _ (fun x hx hx' => hx (List.mem_append_right _ hx')) h
      · exact lift _ (fun x hx hx' => hx (List.mem_cons_of_mem _ hx')) h
      · exact lift _ (fun x hx hx' => hx (List.mem_cons_of_mem _ hx')) h

theorem mem_cycleScan_of {c : Circ P α} (hwf : c.WF) {cfg : ItCfg} {cy : Nat} {op : GOp P α}
    (hop : (cy, op) ∈ c.ops) (hex : cfg.exclude = true → insideAll cfg cy op = true) :
    ∀ (qs skip : List Nat), (∃ q ∈ qs, q ∈ op.loc ∧ eligible cfg cy q = true) →
      (∀ x ∈ op.loc, x ∉ skip) → (cy, op) ∈ cycleScan c cfg cy qs skip := by
  intro qs
  induction qs with
  | nil => rintro skip ⟨q, hq, _⟩; cases hq
  | cons q0 qs ih =>
    rintro skip ⟨q, hq, hql, hqe⟩ hskip
    rw [cycleScan]
    have tail : q ≠ q0 → ∃ q ∈ qs, q ∈ op.loc ∧ eligible cfg cy q = true := by
      intro hne
      rcases List.mem_cons.1 hq with h | h
      · exact absurd h hne
      · exact ⟨q, h, hql, hqe⟩
    split
    · rename_i hcond
      apply ih skip (tail _) hskip
      rintro rfl
      simp only [Bool.or_eq_true, List.contains_iff_mem, Bool.not_eq_true'] at hcond
      rcases hcond with h | h
      · exact hskip _ hql h
      · rw [hqe] at h; cases h
    · split
      · rename_i op' hcell
        obtain ⟨m1, m2, _, _⟩ := cell_some_some hcell
        by_cases hoo : op' = op
        · subst hoo
          apply List.mem_append_left
          have : (!cfg.exclude || insideAll cfg cy op') = true := by
            cases hx : cfg.exclude
            · rfl
            · simpa using hex hx
          rw [if_pos this]; exact List.mem_singleton.2 rfl
        · apply List.mem_append_right
          have hd := hwf.disjoint hop m1 (Ne.symm hoo)
          apply ih _ (tail _)
          · intro x hx hx'
            rcases List.mem_append.1 hx' with h | h
            · exact hd x hx h
            · exact hskip x hx h
          · rintro rfl; exact hd _ hql m2
      · rename_i hcell
        have hn := cell_some_none hcell _ hop rfl
        apply ih _ (tail _)
        · intro x hx hx'
          rcases List.mem_cons.1 hx' with h | h
          · subst h; exact hn hx
          · exact hskip x hx h
        · rintro rfl; exact hn hql
      · rename_i hcell
        have hn := cell_none hcell
        obtain ⟨w1, _, w3, _⟩ := hwf.1 _ hop
        have hn' : q0 ∉ op.loc := fun h => hn ⟨w1, w3 _ h⟩
        apply ih _ (tail _)
        · intro x hx hx'
          rcases List.mem_cons.1 hx' with h | h
          · subst h; exact hn' hx
          · exact hskip x hx h
        · rintro rfl; exact hn' hql

/-- The qudits / cycles scanned, as a set. -/
theorem mem_specCycles (c : Circ P α) (cfg : ItCfg) (cy : Nat) :
    cy ∈ (if cfg.reverse then (List.range c.numCycles).reverse else List.range c.numCycles) ↔
      cy < c.numCycles := by
  split <;> simp

theorem mem_specQuds (c : Circ P α) (cfg : ItCfg) (q : Nat) :
    q ∈ (if cfg.reverse then (List.range c.radixes.length).reverse
      else List.range c.radixes.length) ↔ q < c.radixes.length := by
  split <;> simp

/-- (B) restricted iteration yields exactly the operations of the grid that have a cell in the
requested area; with `exclude`, only those with *every* cell on requested qudits and inside
their intervals. -/
theorem mem_specIter_iff {c : Circ P α} (hwf : c.WF) (cfg : ItCfg) (cy : Nat) (op : GOp P α) :
    (cy, op) ∈ specIter c cfg ↔
      (cy, op) ∈ c.ops ∧ (∃ q ∈ op.loc, eligible cfg cy q = true) ∧
        (cfg.exclude = true → insideAll cfg cy op = true) := by
  unfold specIter
  simp only [List.mem_flatMap]
  constructor
  · rintro ⟨cy', _, h⟩
    obtain ⟨h1, h2, ⟨q, _, h3, _, h5⟩, h6⟩ := mem_cycleScan_imp _ _ h
    simp only at h1
    subst h1
    exact ⟨h2, ⟨q, h3, h5⟩, h6⟩
  · rintro ⟨h1, ⟨q, h2, h3⟩, h4⟩
    obtain ⟨w1, _, w3, _⟩ := hwf.1 _ h1
    refine ⟨cy, (mem_specCycles c cfg cy).2 w1, ?_⟩
    exact mem_cycleScan_of hwf h1 h4 _ [] ⟨q, (mem_specQuds c cfg q).2 (w3 _ h2), h2, h3⟩
      (fun _ _ h => by cases h)

/-- Within one cycle scan, yielded operations are pairwise disjoint. -/
theorem cycleScan_pairwise {c : Circ P α} (hwf : c.WF) (cfg : ItCfg) (cy : Nat) :
    ∀ (qs skip : List Nat), (cycleScan c cfg cy qs skip).Pairwise
      (fun a b => ∀ q, q ∈ a.2.loc → q ∉ b.2.loc) := by
  intro qs
  induction qs with
  | nil => intro skip; simp [cycleScan]
  | cons q0 qs ih =>
    intro skip
    rw [cycleScan]
    split
    · exact ih _
    · split
      · rename_i op hcell
        obtain ⟨m1, m2, _, _⟩ := cell_some_some hcell
        refine List.pairwise_append.2 ⟨?_, ih _, ?_⟩
        · split <;> simp
        · intro a ha b hb
          have ha' : a = (cy, op) := by
            split at ha
            · exact List.mem_singleton.1 ha
            · cases ha
          subst ha'
          obtain ⟨b1, b2, ⟨q', _, b3, b4, _⟩, _⟩ := mem_cycleScan_imp _ _ hb
          obtain ⟨bc, bop⟩ := b
          simp only at b1 b3
          subst b1
          apply hwf.disjoint m1 b2
          rintro rfl
          exact b4 (List.mem_append_left _ b3)
      · exact ih _
      · exact ih _

/-- No two yielded operations of the same cycle share a qudit. -/
theorem specIter_pairwise_disjoint {c : Circ P α} (hwf : c.WF) (cfg : ItCfg) :
    (specIter c cfg).Pairwise (fun a b => a.1 = b.1 → ∀ q, q ∈ a.2.loc → q ∉ b.2.loc) := by
  unfold specIter
  refine List.pairwise_flatMap.2 ⟨fun cy _ => ?_, ?_⟩
  · refine List.Pairwise.imp ?_ (cycleScan_pairwise hwf cfg cy _ _)
    intro a b h _; exact h
  · have hnd : (if cfg.reverse then (List.range c.numCycles).reverse
        else List.range c.numCycles).Nodup := by
      split
      · exact List.nodup_reverse.2 List.nodup_range
      · exact List.nodup_range
    refine hnd.imp ?_
    intro cy1 cy2 hne x hx y hy hxy
    have h1 := (mem_cycleScan_imp _ _ hx).1
    have h2 := (mem_cycleScan_imp _ _ hy).1
    exact absurd (h1.symm.trans (hxy.trans h2)) hne

/-- Every element of `specIter` is an operation of the grid. -/
theorem specIter_subset {c : Circ P α} (cfg : ItCfg) {e : Nat × GOp P α}
    (h : e ∈ specIter c cfg) : e ∈ c.ops := by
  unfold specIter at h
  obtain ⟨cy, _, h⟩ := List.mem_flatMap.1 h
  exact (mem_cycleScan_imp _ _ h).2.1

/-- No operation occurrence is yielded twice. -/
theorem specIter_nodup {c : Circ P α} (hwf : c.WF) (cfg : ItCfg) : (specIter c cfg).Nodup := by
  refine (specIter_pairwise_disjoint hwf cfg).imp_of_mem ?_
  intro a b ha _ h hab
  subst hab
  obtain ⟨_, w2, _, _⟩ := hwf.1 _ (specIter_subset cfg ha)
  cases hl : a.2.loc with
  | nil => exact w2 hl
  | cons q _ => exact h rfl q (by simp [hl]) (by simp [hl])

theorem Circ.WF.nodup {c : Circ P α} (hwf : c.WF) : c.ops.Nodup := by
  refine hwf.2.imp_of_mem ?_
  intro a b ha _ h hab
  subst hab
  obtain ⟨_, w2, _, _⟩ := hwf.1 _ ha
  cases hl : a.2.loc with
  | nil => exact w2 hl
  | cons q _ => exact h rfl q (by simp [hl]) (by simp [hl])

/-- The documented predicate: some cell of the operation is in the requested area and, with
`exclude`, every cell is on requested qudits and inside their intervals. -/
def inArea (cfg : ItCfg) (e : Nat × GOp P α) : Bool :=
  e.2.loc.any (fun q => eligible cfg e.1 q) && (!cfg.exclude || insideAll cfg e.1 e.2)

/-- Restricted iteration = the operations of the grid filtered by `inArea`, each exactly
once. -/
theorem specIter_perm_filter {c : Circ P α} (hwf : c.WF) (cfg : ItCfg) :
    (specIter c cfg).Perm (c.ops.filter (inArea cfg)) := by
  refine (List.perm_ext_iff_of_nodup (specIter_nodup hwf cfg) (hwf.nodup.filter _)).2 ?_
  rintro ⟨cy, op⟩
  rw [mem_specIter_iff hwf, List.mem_filter]
  simp only [inArea, Bool.and_eq_true, List.any_eq_true, Bool.or_eq_true, Bool.not_eq_true']
  constructor
  · rintro ⟨h1, h2, h3⟩
    refine ⟨h1, h2, ?_⟩
    cases hx : cfg.exclude
    · exact .inl rfl
    · exact .inr (h3 hx)
  · rintro ⟨h1, h2, h3⟩
    refine ⟨h1, h2, fun hx => ?_⟩
    rcases h3 with h | h
    · rw [hx] at h; cases h
    · exact h

/-! ### (C) order of the cycles -/

theorem specIter_cycles_sorted (c : Circ P α) (cfg : ItCfg) :
    (specIter c cfg).Pairwise (fun a b => if cfg.reverse then b.1 ≤ a.1 else a.1 ≤ b.1) := by
  unfold specIter
  refine List.pairwise_flatMap.2 ⟨fun cy _ => ?_, ?_⟩
  · refine List.Pairwise.imp_of_mem (R := fun _ _ => True) ?_ (List.pairwise_of_forall (fun _ _ => trivial))
    intro a b ha hb _
    rw [(mem_cycleScan_imp _ _ ha).1, (mem_cycleScan_imp _ _ hb).1]
    split <;> exact Nat.le_refl _
  · cases hr : cfg.reverse
    · simp only [Bool.false_eq_true, if_false]
      refine List.pairwise_lt_range.imp ?_
      intro cy1 cy2 hlt x hx y hy
      rw [(mem_cycleScan_imp _ _ hx).1, (mem_cycleScan_imp _ _ hy).1]
      exact Nat.le_of_lt hlt
    · simp only [if_true]
      refine List.pairwise_reverse.2 (List.pairwise_lt_range.imp ?_)
      intro cy1 cy2 hlt x hx y hy
      rw [(mem_cycleScan_imp _ _ hx).1, (mem_cycleScan_imp _ _ hy).1]
      exact Nat.le_of_lt hlt

/-- forward: cycles are non-decreasing. -/
theorem specIter_cycles_sorted_fwd (c : Circ P α) (cfg : ItCfg) (h : cfg.reverse = false) :
    ((specIter c cfg).map (·.1)).Pairwise (· ≤ ·) := by
  rw [List.pairwise_map]
  simpa [h] using specIter_cycles_sorted c cfg

/-- reverse: cycles are non-increasing. -/
theorem specIter_cycles_sorted_rev (c : Circ P α) (cfg : ItCfg) (h : cfg.reverse = true) :
    ((specIter c cfg).map (·.1)).Pairwise (· ≥ ·) := by
  rw [List.pairwise_map]
  simpa [h] using specIter_cycles_sorted c cfg

/-! ### (A) the state machine, direction-generic form -/

/-- The loop condition of `increment_iter` / `decrement_iter`. -/
def passCond (cfg : ItCfg) (s : ItState) : Bool :=
  s.skip.contains s.qudit || !inQudits cfg s.qudit
    || (!inRegion cfg s.cycle s.qudit &&
        (if cfg.reverse then decide (s.cycle ≥ (cfg.minCycle : Int))
         else decide (s.cycle ≤ (cfg.maxCycle : Int))))

/-- The loop body of `increment_iter` / `decrement_iter`. -/
def advance (cfg : ItCfg) (s : ItState) : ItState :=
  if cfg.reverse then
    (if s.qudit - 1 < (cfg.minQ : Int) then { cycle := s.cycle - 1, qudit := cfg.maxQ, skip := [] }
     else { s with qudit := s.qudit - 1 })
  else
    (if s.qudit + 1 > (cfg.maxQ : Int) then { cycle := s.cycle + 1, qudit := cfg.minQ, skip := [] }
     else { s with qudit := s.qudit + 1 })

/-- `step` without the StopIteration test. -/
def stepIter (cfg : ItCfg) (fuel : Nat) (s : ItState) : Option ItState :=
  if cfg.reverse then decrementIter cfg fuel s else incrementIter cfg fuel s

theorem stepIter_succ (cfg : ItCfg) (fuel : Nat) (s : ItState) :
    stepIter cfg (fuel + 1) s =
      if passCond cfg s then stepIter cfg fuel (advance cfg s) else some s := by
  unfold stepIter passCond advance
  cases hr : cfg.reverse
  · simp only [Bool.false_eq_true, if_false]
    rw [incrementIter]
    split <;> rename_i h
    · split <;> rename_i h2 <;> simp only [h2, if_true, if_false]
    · rfl
  · simp only [if_true]
    rw [decrementIter]
    split <;> rename_i h
    · split <;> rename_i h2 <;> simp only [h2, if_true, if_false]
    · rfl

/-- The body of `__next__` after `step` has positioned the pointer. -/
def visitBody (c : Circ P α) (cfg : ItCfg) (inner fuel : Nat) (s : ItState) : NextRes (GOp P α) :=
  if ptLt (s.cycle, s.qudit) cfg.start || ptLt cfg.stop (s.cycle, s.qudit) then .stop
  else
    match c.cell s.cycle.toNat s.qudit.toNat with
    | none => .err .indexError
    | some none => gridNext c cfg inner fuel { s with skip := s.qudit :: s.skip }
    | some (some op) =>
      if cfg.exclude && !(op.loc.all (fun q => cfg.qudits.contains q)) then
        gridNext c cfg inner fuel { s with skip := op.loc.map (fun (q : Nat) => (q : Int)) ++ s.skip }
      else if cfg.exclude && !(op.loc.all (fun q => overlapsPt cfg s.cycle q)) then
        gridNext c cfg inner fuel { s with skip := op.loc.map (fun (q : Nat) => (q : Int)) ++ s.skip }
      else .yield s.cycle.toNat op { s with skip := op.loc.map (fun (q : Nat) => (q : Int)) ++ s.skip }

def nextFrom (c : Circ P α) (cfg : ItCfg) (inner fuel : Nat) : Option ItState → NextRes (GOp P α)
  | none => .fuel
  | some s => visitBody c cfg inner fuel s

theorem gridNext_succ (c : Circ P α) (cfg : ItCfg) (inner fuel : Nat) (s : ItState) :
    gridNext c cfg inner (fuel + 1) s = nextFrom c cfg inner fuel (stepIter cfg inner s) := by
  rw [gridNext]
  unfold stepIter
  cases h : (if cfg.reverse = true then decrementIter cfg inner s else incrementIter cfg inner s) with
  | none => rfl
  | some s' => rfl

/-- What `list(...)` does with the result of one `__next__`. -/
def finish (c : Circ P α) (cfg : ItCfg) (inner fC : Nat) :
    NextRes (GOp P α) → Except Err (Option (List (Nat × GOp P α)))
  | .stop => .ok (some [])
  | .fuel => .ok none
  | .err e => .error e
  | .yield cy op s' => do
    match ← gridCollect c cfg inner fC s' with
    | none => pure none
    | some tl => pure (some ((cy, op) :: tl))

theorem gridCollect_succ (c : Circ P α) (cfg : ItCfg) (inner fuel : Nat) (s : ItState) :
    gridCollect c cfg inner (fuel + 1) s
      = finish c cfg inner fuel (gridNext c cfg inner (fuel + 1) s) := by
  rw [gridCollect]
  cases gridNext c cfg inner (fuel + 1) s <;> rfl

/-- `list(...)` continued from the result of a (partial) `step`. -/
def run (c : Circ P α) (cfg : ItCfg) (inner fN fC : Nat) (r : Option ItState) :
    Except Err (Option (List (Nat × GOp P α))) :=
  finish c cfg inner fC (nextFrom c cfg inner fN r)

theorem gridCollect_eq_run (c : Circ P α) (cfg : ItCfg) (inner fuel : Nat) (s : ItState) :
    gridCollect c cfg inner (fuel + 1) s = run c cfg inner fuel fuel (stepIter cfg inner s) := by
  rw [gridCollect_succ, gridNext_succ]; rfl

theorem run_pass {c : Circ P α} {cfg : ItCfg} {inner fN fC k : Nat} {s : ItState}
    (h : passCond cfg s = true) :
    run c cfg inner fN fC (stepIter cfg (k + 1) s)
      = run c cfg inner fN fC (stepIter cfg k (advance cfg s)) := by
  rw [stepIter_succ, if_pos h]

theorem run_visit {c : Circ P α} {cfg : ItCfg} {inner fN fC k : Nat} {s : ItState}
    (h : passCond cfg s = false) :
    run c cfg inner fN fC (stepIter cfg (k + 1) s)
      = finish c cfg inner fC (visitBody c cfg inner fN s) := by
  rw [stepIter_succ, h]; rfl

/-! ### states with natural-number coordinates -/

/-- The iterator state with pointer `(cy, q)` and `qudits_to_skip = skip`. -/
def st (cy q : Nat) (skip : List Nat) : ItState :=
  ⟨(cy : Int), (q : Int), skip.map (fun (x : Nat) => (x : Int))⟩

theorem contains_map_cast (skip : List Nat) (q : Nat) :
    (skip.map (fun (x : Nat) => (x : Int))).contains (q : Int) = skip.contains q := by
  induction skip with
  | nil => rfl
  | cons x xs ih =>
    simp only [List.map_cons, List.contains_cons, ih]
    congr 1
    by_cases h : q = x <;> simp [h]
    exact_mod_cast h

theorem inQudits_cast (cfg : ItCfg) (q : Nat) : inQudits cfg (q : Int) = cfg.qudits.contains q := by
  unfold inQudits
  induction cfg.qudits with
  | nil => rfl
  | cons x xs ih =>
    simp only [List.any_cons, List.contains_cons, ih]
    congr 1
    by_cases h : q = x
    · subst h; simp
    · have h' : ¬ ((x : Int) = (q : Int)) := by omega
      simp [h, h']

/-- The loop condition at a natural-number pointer. -/
def passN (cfg : ItCfg) (cy q : Nat) (skip : List Nat) : Bool :=
  skip.contains q || !cfg.qudits.contains q
    || (!inRegion cfg cy q &&
        (if cfg.reverse then decide (cfg.minCycle ≤ cy) else decide (cy ≤ cfg.maxCycle)))

theorem passCond_st (cfg : ItCfg) (cy q : Nat) (skip : List Nat) :
    passCond cfg (st cy q skip) = passN cfg cy q skip := by
  unfold passCond passN st
  simp only [contains_map_cast, inQudits_cast]
  congr 2
  split <;> simp

/-- What the proof needs to know about the configuration (all of it follows from
`mkCfg … = .ok cfg` and the range hypotheses on the arguments). -/
structure Good (c : Circ P α) (cfg : ItCfg) : Prop where
  minQ_mem : cfg.minQ ∈ cfg.qudits
  maxQ_mem : cfg.maxQ ∈ cfg.qudits
  q_ge : ∀ q ∈ cfg.qudits, cfg.minQ ≤ q
  q_le : ∀ q ∈ cfg.qudits, q ≤ cfg.maxQ
  q_lt : ∀ q ∈ cfg.qudits, q < c.radixes.length
  start_cy : (cfg.minCycle : Int) ≤ cfg.start.1
  stop_cy : cfg.stop.1 ≤ (cfg.maxCycle : Int)
  stop_lt : cfg.stop.1 < (c.numCycles : Int)

/-- `point < start or point > end` -/
def outside (cfg : ItCfg) (cy q : Nat) : Bool :=
  ptLt ((cy : Int), (q : Int)) cfg.start || ptLt cfg.stop ((cy : Int), (q : Int))

theorem eligible_false_of_pass {cfg : ItCfg} {cy q : Nat} {skip : List Nat}
    (hp : passN cfg cy q skip = true) (hs : q ∉ skip) : eligible cfg cy q = false := by
  unfold passN at hp
  unfold eligible
  have hs' : skip.contains q = false := by simpa using hs
  rw [hs'] at hp
  cases h1 : cfg.qudits.contains q
  · simp
  · cases h2 : inRegion cfg cy q
    · simp
    · rw [h1, h2] at hp; simp at hp

theorem eligible_of_visit {c : Circ P α} {cfg : ItCfg} (G : Good c cfg) {cy q : Nat}
    {skip : List Nat} (hp : passN cfg cy q skip = false) (ho : outside cfg cy q = false) :
    eligible cfg cy q = true ∧ q ∉ skip ∧ cy < c.numCycles ∧ q < c.radixes.length := by
  unfold passN at hp
  unfold outside at ho
  simp only [Bool.or_eq_false_iff, Bool.not_eq_false', Bool.and_eq_false_imp,
    Bool.not_eq_true'] at hp ho
  obtain ⟨⟨hs, hq⟩, hr⟩ := hp
  obtain ⟨ho1, ho2⟩ := ho
  have hqm : q ∈ cfg.qudits := by simpa using hq
  have hcy : (cy : Int) ≤ cfg.stop.1 ∧ cfg.start.1 ≤ (cy : Int) := by
    simp only [ptLt, Bool.or_eq_false_iff, decide_eq_false_iff_not, Bool.and_eq_false_imp,
      beq_iff_eq] at ho1 ho2
    omega
  have hreg : inRegion cfg cy q = true := by
    cases h : inRegion cfg cy q
    · have := hr h
      have g1 := G.start_cy; have g2 := G.stop_cy
      split at this <;> simp at this <;> omega
    · rfl
  refine ⟨?_, ?_, ?_, G.q_lt _ hqm⟩
  · unfold eligible
    simp [hqm, hreg, ho1, ho2]
  · simpa using hs
  · have := G.stop_lt; omega

theorem visitBody_stop {c : Circ P α} {cfg : ItCfg} {inner fN cy q : Nat} {skip : List Nat}
    (ho : outside cfg cy q = true) : visitBody c cfg inner fN (st cy q skip) = .stop := by
  unfold visitBody st
  unfold outside at ho
  simp only [ho, if_true]

theorem visitBody_live {c : Circ P α} {cfg : ItCfg} {inner fN cy q : Nat} {skip : List Nat}
    (ho : outside cfg cy q = false) :
    visitBody c cfg inner fN (st cy q skip) =
      match c.cell cy q with
      | none => .err .indexError
      | some none => gridNext c cfg inner fN (st cy q (q :: skip))
      | some (some op) =>
        if !cfg.exclude || insideAll cfg cy op then .yield cy op (st cy q (op.loc ++ skip))
        else gridNext c cfg inner fN (st cy q (op.loc ++ skip)) := by
  unfold visitBody st
  unfold outside at ho
  simp only [ho, Bool.false_eq_true, if_false, Int.toNat_natCast]
  cases c.cell cy q with
  | none => rfl
  | some o =>
    cases o with
    | none => rfl
    | some op =>
      simp only [List.map_append, insideAll]
      cases cfg.exclude <;> cases (op.loc.all fun q => cfg.qudits.contains q) <;>
        cases (op.loc.all fun q => overlapsPt cfg (cy : Int) q) <;> rfl

/-! ### one pointer position -/

theorem passN_of_mem {cfg : ItCfg} {cy q : Nat} {skip : List Nat} (h : q ∈ skip) :
    passN cfg cy q skip = true := by
  unfold passN
  simp [h]

theorem finish_gridNext {c : Circ P α} {cfg : ItCfg} {inner fN fC : Nat} {s : ItState} :
    finish c cfg inner fC (gridNext c cfg inner (fN + 1) s)
      = run c cfg inner fN fC (stepIter cfg inner s) := by
  rw [gridNext_succ]; rfl

theorem finish_yield {c : Circ P α} {cfg : ItCfg} {inner fC cy : Nat} {op : GOp P α}
    {s : ItState} {tl : List (Nat × GOp P α)}
    (h : run c cfg inner fC fC (stepIter cfg inner s) = .ok (some tl)) :
    finish c cfg inner (fC + 1) (.yield cy op s) = .ok (some ((cy, op) :: tl)) := by
  simp only [finish]
  rw [gridCollect_eq_run, h]
  rfl

/-- One pointer position: if the rest of the run (from the advanced pointer, whatever
`qudits_to_skip` has become) produces `cycleScan rest skip' ++ later`, the run from this
position produces `cycleScan (q :: rest) skip ++ later`. `m` bounds the number of positions
still to be walked after this one. -/
theorem pos_step {c : Circ P α} {cfg : ItCfg} (G : Good c cfg) {cy q : Nat} {rest : List Nat}
    {later : List (Nat × GOp P α)} {inner m : Nat} (hinner : m + 2 ≤ inner)
    (hcont : ∀ skip' k' fN' fC', m + 1 ≤ k' → m ≤ fN' → m ≤ fC' →
      run c cfg inner fN' fC' (stepIter cfg k' (advance cfg (st cy q skip')))
        = .ok (some (cycleScan c cfg cy rest skip' ++ later)))
    (hdead : ∀ skip, passN cfg cy q skip = false → outside cfg cy q = true →
      cycleScan c cfg cy (q :: rest) skip ++ later = [])
    (skip : List Nat) (k fN fC : Nat) (hk : m + 2 ≤ k) (hfN : m + 1 ≤ fN) (hfC : m + 1 ≤ fC) :
    run c cfg inner fN fC (stepIter cfg k (st cy q skip))
      = .ok (some (cycleScan c cfg cy (q :: rest) skip ++ later)) := by
  obtain ⟨k, rfl⟩ : ∃ k0, k = k0 + 1 := ⟨k - 1, by omega⟩
  obtain ⟨inner, rfl⟩ : ∃ i0, inner = i0 + 1 := ⟨inner - 1, by omega⟩
  obtain ⟨fN, rfl⟩ : ∃ f0, fN = f0 + 1 := ⟨fN - 1, by omega⟩
  obtain ⟨fC, rfl⟩ : ∃ f0, fC = f0 + 1 := ⟨fC - 1, by omega⟩
  -- after a visit the pointer is in `qudits_to_skip`, hence passed
  have after : ∀ skip' fN' fC', q ∈ skip' → m ≤ fN' → m ≤ fC' →
      run c cfg (inner + 1) fN' fC' (stepIter cfg (inner + 1) (st cy q skip'))
        = .ok (some (cycleScan c cfg cy rest skip' ++ later)) := by
    intro skip' fN' fC' hq h1 h2
    rw [run_pass (by rw [passCond_st]; exact passN_of_mem hq)]
    exact hcont skip' inner fN' fC' (by omega) h1 h2
  cases hp : passN cfg cy q skip
  · -- visited
    rw [run_visit (by rw [passCond_st]; exact hp)]
    cases ho : outside cfg cy q
    · obtain ⟨hel, hns, hcy, hq⟩ := eligible_of_visit G hp ho
      have hcond : (skip.contains q || !eligible cfg cy q) = false := by
        simp [hns, hel]
      rw [visitBody_live ho, cycleScan, hcond]
      simp only [Bool.false_eq_true, if_false]
      cases hcell : c.cell cy q with
      | none => exact absurd ⟨hcy, hq⟩ (cell_none hcell)
      | some o =>
        cases o with
        | none =>
          simp only
          rw [finish_gridNext]
          exact after _ _ _ List.mem_cons_self (by omega) (by omega)
        | some op =>
          have hql : q ∈ op.loc ++ skip :=
            List.mem_append_left _ (cell_some_some hcell).2.1
          simp only
          split
          · rw [finish_yield (after _ _ _ hql (by omega) (by omega))]
            rfl
          · rw [finish_gridNext]
            simpa using after _ _ _ hql (by omega) (by omega)
    · rw [visitBody_stop ho, hdead skip hp ho]
      rfl
  · -- passed
    rw [run_pass (by rw [passCond_st]; exact hp)]
    rw [hcont skip k fN.succ fC.succ (by omega) (by omega) (by omega)]
    have hcond : (skip.contains q || !eligible cfg cy q) = true := by
      by_cases hs : q ∈ skip
      · simp [hs]
      · simp [eligible_false_of_pass hp hs]
    rw [cycleScan, if_pos hcond]

/-! ### the walk: rows of pointer positions -/

/-- `[q, q-1, …]`, `k` entries. -/
def dnL : Nat → Nat → List Nat
  | _, 0 => []
  | q, k + 1 => q :: dnL (q - 1) k

/-- `k` consecutive positions from `q` in walk direction. -/
def dirL (rev : Bool) (q k : Nat) : List Nat := if rev then dnL q k else List.range' q k

theorem dirL_succ (rev : Bool) (q k : Nat) :
    dirL rev q (k + 1) = q :: dirL rev (if rev then q - 1 else q + 1) k := by
  cases rev <;> rfl

theorem mem_dnL_le {x : Nat} : ∀ {k q : Nat}, x ∈ dnL q k → x ≤ q
  | 0, _, h => by cases h
  | k + 1, q, h => by
    rcases List.mem_cons.1 h with h | h
    · omega
    · have := mem_dnL_le h; omega

theorem mem_dirL {rev : Bool} {x q k : Nat} (h : x ∈ dirL rev q k) :
    if rev then x ≤ q else q ≤ x := by
  cases rev
  · simp only [dirL, Bool.false_eq_true, if_false, List.mem_range'_1] at h ⊢
    exact h.1
  · exact mem_dnL_le h

/-- first qudit of a row in walk direction -/
def rowStart (cfg : ItCfg) : Nat := if cfg.reverse then cfg.maxQ else cfg.minQ
/-- width of a row -/
def rowW (cfg : ItCfg) : Nat := cfg.maxQ + 1 - cfg.minQ
/-- a complete row in walk direction -/
def rowFull (cfg : ItCfg) : List Nat := dirL cfg.reverse (rowStart cfg) (rowW cfg)
/-- the cycle after `cy` in walk direction -/
def nextCy (cfg : ItCfg) (cy : Nat) : Nat := if cfg.reverse then cy - 1 else cy + 1

/-- what the `kr` rows after row `cy` contribute -/
def laterRows (c : Circ P α) (cfg : ItCfg) (cy kr : Nat) : List (Nat × GOp P α) :=
  (dirL cfg.reverse (nextCy cfg cy) kr).flatMap (fun cy' => cycleScan c cfg cy' (rowFull cfg) [])

/-- `kq` positions from `q` reach exactly the end of the row (a single position may lie
beyond the row end: the initial pointer). -/
def rowShape (cfg : ItCfg) (q kq : Nat) : Prop :=
  if cfg.reverse then q + 1 ≤ cfg.minQ + kq ∧ (2 ≤ kq → q + 1 = cfg.minQ + kq)
  else cfg.maxQ + 1 ≤ q + kq ∧ (2 ≤ kq → q + kq = cfg.maxQ + 1)

/-- `kr` further rows reach the last row in which anything can happen. -/
def rowsShape (cfg : ItCfg) (cy kr : Nat) : Prop :=
  if cfg.reverse then kr = cy else cfg.maxCycle ≤ cy + kr

/-- the pointer has not left the area on the side it started from -/
def live (cfg : ItCfg) (cy q : Nat) : Prop :=
  if cfg.reverse then ptLt cfg.stop ((cy : Int), (q : Int)) = false
  else ptLt ((cy : Int), (q : Int)) cfg.start = false

theorem advance_fwd_in {cfg : ItCfg} (hr : cfg.reverse = false) {cy q : Nat} {skip : List Nat}
    (h : q + 1 ≤ cfg.maxQ) : advance cfg (st cy q skip) = st cy (q + 1) skip := by
  unfold advance st
  simp only [hr, Bool.false_eq_true, if_false]
  rw [if_neg (by omega)]
  rfl

theorem advance_fwd_wrap {cfg : ItCfg} (hr : cfg.reverse = false) {cy q : Nat} {skip : List Nat}
    (h : cfg.maxQ ≤ q) : advance cfg (st cy q skip) = st (cy + 1) cfg.minQ [] := by
  unfold advance st
  simp only [hr, Bool.false_eq_true, if_false]
  rw [if_pos (by omega)]
  rfl

theorem advance_rev_in {cfg : ItCfg} (hr : cfg.reverse = true) {cy q : Nat} {skip : List Nat}
    (h : cfg.minQ + 1 ≤ q) : advance cfg (st cy q skip) = st cy (q - 1) skip := by
  unfold advance st
  simp only [hr, if_true]
  rw [if_neg (by omega)]
  congr 1
  omega

theorem advance_rev_wrap {cfg : ItCfg} (hr : cfg.reverse = true) {cy q : Nat} {skip : List Nat}
    (h : q ≤ cfg.minQ) :
    advance cfg (st cy q skip) = { cycle := (cy : Int) - 1, qudit := cfg.maxQ, skip := [] } := by
  unfold advance st
  simp only [hr, if_true]
  rw [if_pos (by omega)]

theorem cycleScan_nil {c : Circ P α} {cfg : ItCfg} {cy : Nat} :
    ∀ (qs skip : List Nat), (∀ q ∈ qs, eligible cfg cy q = false) →
      cycleScan c cfg cy qs skip = []
  | [], _, _ => rfl
  | q :: qs, skip, h => by
    rw [cycleScan, if_pos (by simp [h q List.mem_cons_self])]
    exact cycleScan_nil qs skip (fun x hx => h x (List.mem_cons_of_mem _ hx))

theorem eligible_false_of_stop {cfg : ItCfg} {cy q : Nat}
    (h : ptLt cfg.stop ((cy : Int), (q : Int)) = true) : eligible cfg cy q = false := by
  simp [eligible, h]

theorem eligible_false_of_start {cfg : ItCfg} {cy q : Nat}
    (h : ptLt ((cy : Int), (q : Int)) cfg.start = true) : eligible cfg cy q = false := by
  simp [eligible, h]

/-- Once the pointer has left the area on the far side, nothing later is eligible. -/
theorem dead_nil {c : Circ P α} {cfg : ItCfg} {cy q kq kr : Nat} {skip : List Nat}
    (hl : live cfg cy q) (hrows : rowsShape cfg cy kr) (ho : outside cfg cy q = true) :
    cycleScan c cfg cy (dirL cfg.reverse q kq) skip ++ laterRows c cfg cy kr = [] := by
  unfold live at hl
  unfold rowsShape at hrows
  unfold outside at ho
  unfold laterRows nextCy
  cases hr : cfg.reverse
  · simp only [hr, Bool.false_eq_true, if_false] at hl hrows ⊢
    rw [hl, Bool.false_or] at ho
    have key : ∀ cy' q' : Nat, cy < cy' ∨ (cy' = cy ∧ q ≤ q') → eligible cfg cy' q' = false := by
      intro cy' q' h
      apply eligible_false_of_stop
      simp only [ptLt, Bool.or_eq_true, decide_eq_true_eq, Bool.and_eq_true, beq_iff_eq] at ho ⊢
      omega
    rw [cycleScan_nil _ _ (fun q' hq' => key cy q' (.inr ⟨rfl, by simpa using mem_dirL hq'⟩))]
    simp only [List.nil_append, List.flatMap_eq_nil_iff]
    intro cy' hcy'
    exact cycleScan_nil _ _ (fun q' _ => key cy' q' (.inl (by
      have := mem_dirL hcy'; simp at this; omega)))
  · simp only [hr, if_true] at hl hrows ⊢
    rw [hl, Bool.or_false] at ho
    have key : ∀ cy' q' : Nat, cy' < cy ∨ (cy' = cy ∧ q' ≤ q) → eligible cfg cy' q' = false := by
      intro cy' q' h
      apply eligible_false_of_start
      simp only [ptLt, Bool.or_eq_true, decide_eq_true_eq, Bool.and_eq_true, beq_iff_eq] at ho ⊢
      omega
    rw [cycleScan_nil _ _ (fun q' hq' => key cy q' (.inr ⟨rfl, by simpa using mem_dirL hq'⟩))]
    simp only [List.nil_append, List.flatMap_eq_nil_iff]
    intro cy' hcy'
    have hne : cy ≠ 0 := by
      rintro rfl
      subst hrows
      simp [dirL, dnL] at hcy'
    exact cycleScan_nil _ _ (fun q' _ => key cy' q' (.inl (by
      have := mem_dirL hcy'; simp at this; omega)))

theorem rowW_pos {c : Circ P α} {cfg : ItCfg} (G : Good c cfg) : cfg.minQ ≤ cfg.maxQ :=
  G.q_le _ G.minQ_mem

/-- The run from pointer `(cy, q)` with `kq + 1` positions left in the row and `kr` further
rows produces the scan of these positions. -/
def SimAt (c : Circ P α) (cfg : ItCfg) (inner kr kq : Nat) : Prop :=
  ∀ (cy q : Nat) (skip : List Nat) (k fN fC : Nat),
    rowShape cfg q (kq + 1) → rowsShape cfg cy kr → live cfg cy q →
    kq + kr * rowW cfg + 2 ≤ inner → kq + kr * rowW cfg + 2 ≤ k →
    kq + kr * rowW cfg + 1 ≤ fN → kq + kr * rowW cfg + 1 ≤ fC →
    run c cfg inner fN fC (stepIter cfg k (st cy q skip))
      = .ok (some (cycleScan c cfg cy (dirL cfg.reverse q (kq + 1)) skip ++ laterRows c cfg cy kr))

/-- Beyond the last row the iterator stops at once. -/
theorem sim_base {c : Circ P α} {cfg : ItCfg} (G : Good c cfg) (inner : Nat) :
    SimAt c cfg inner 0 0 := by
  intro cy q skip k fN fC hrow hrows hl hinner hk hfN hfC
  rw [dirL_succ]
  refine pos_step G (m := 0) (by omega) ?_ ?_ skip k fN fC (by omega) (by omega) (by omega)
  · intro skip' k' fN' fC' hk' _ _
    obtain ⟨k', rfl⟩ : ∃ k0, k' = k0 + 1 := ⟨k' - 1, by omega⟩
    have hnil : cycleScan c cfg cy (dirL cfg.reverse (if cfg.reverse then q - 1 else q + 1) 0) skip'
        ++ laterRows c cfg cy 0 = [] := by
      cases hr : cfg.reverse <;> simp [dirL, dnL, laterRows, cycleScan]
    rw [hnil]
    unfold rowShape at hrow
    unfold rowsShape at hrows
    have g1 := G.start_cy; have g2 := G.stop_cy
    cases hr : cfg.reverse
    · simp only [hr, Bool.false_eq_true, if_false] at hrow hrows
      rw [advance_fwd_wrap hr (by omega)]
      have hp : passN cfg (cy + 1) cfg.minQ [] = false := by
        have : (cy + 1 ≤ cfg.maxCycle) = False := by simp; omega
        simp [passN, hr, G.minQ_mem, this]
      rw [run_visit (by rw [passCond_st]; exact hp), visitBody_stop]
      · rfl
      · simp only [outside, ptLt, Bool.or_eq_true, decide_eq_true_eq, Bool.and_eq_true, beq_iff_eq]
        push_cast
        omega
    · simp only [hr, if_true] at hrow hrows
      rw [advance_rev_wrap hr (by omega)]
      subst hrows
      have hp : passCond cfg { cycle := ((0 : Nat) : Int) - 1, qudit := cfg.maxQ, skip := [] }
          = false := by
        have h1 : inQudits cfg (cfg.maxQ : Int) = true := by
          rw [inQudits_cast]; simpa using G.maxQ_mem
        simp only [passCond, hr, h1, if_true, List.contains_nil, Bool.not_true, Bool.or_self,
          Bool.false_or, Bool.and_eq_false_imp, decide_eq_false_iff_not]
        intro _; omega
      rw [run_visit hp]
      have : visitBody c cfg inner fN'
          { cycle := ((0 : Nat) : Int) - 1, qudit := cfg.maxQ, skip := [] } = .stop := by
        unfold visitBody
        rw [if_pos]
        simp only [ptLt, Bool.or_eq_true, decide_eq_true_eq, Bool.and_eq_true, beq_iff_eq]
        omega
      rw [this]; rfl
  · intro skip' _ ho
    have := dead_nil (c := c) (kq := 1) (skip := skip') hl hrows ho
    rwa [dirL_succ] at this

theorem sim_row {c : Circ P α} {cfg : ItCfg} (G : Good c cfg) {inner kr j : Nat}
    (h : SimAt c cfg inner kr j) : SimAt c cfg inner kr (j + 1) := by
  intro cy q skip k fN fC hrow hrows hl hinner hk hfN hfC
  rw [dirL_succ]
  refine pos_step G (m := j + kr * rowW cfg + 1) (by omega) ?_ ?_ skip k fN fC
    (by omega) (by omega) (by omega)
  · intro skip' k' fN' fC' hk' hfN' hfC'
    unfold rowShape at hrow
    unfold live at hl
    cases hr : cfg.reverse
    · simp only [hr, Bool.false_eq_true, if_false] at hrow hl ⊢
      rw [advance_fwd_in hr (by omega)]
      have := h cy (q + 1) skip' k' fN' fC' (by unfold rowShape; simp only [hr]; simp; omega) hrows
        (by
          unfold live; simp only [hr, Bool.false_eq_true, if_false]
          simp only [ptLt, Bool.or_eq_false_iff, decide_eq_false_iff_not, Bool.and_eq_false_imp,
            beq_iff_eq] at hl ⊢
          push_cast; omega)
        (by omega) (by omega) (by omega) (by omega)
      simpa only [hr] using this
    · simp only [hr, if_true] at hrow hl ⊢
      rw [advance_rev_in hr (by omega)]
      have := h cy (q - 1) skip' k' fN' fC' (by unfold rowShape; simp only [hr]; simp; omega) hrows
        (by
          unfold live; simp only [hr, if_true]
          simp only [ptLt, Bool.or_eq_false_iff, decide_eq_false_iff_not, Bool.and_eq_false_imp,
            beq_iff_eq] at hl ⊢
          omega)
        (by omega) (by omega) (by omega) (by omega)
      simpa only [hr] using this
  · intro skip' _ ho
    have := dead_nil (c := c) (kq := j + 1 + 1) (skip := skip') hl hrows ho
    rwa [dirL_succ] at this

theorem laterRows_succ (c : Circ P α) (cfg : ItCfg) (cy r : Nat) :
    laterRows c cfg cy (r + 1)
      = cycleScan c cfg (nextCy cfg cy) (rowFull cfg) [] ++ laterRows c cfg (nextCy cfg cy) r := by
  unfold laterRows
  rw [dirL_succ, List.flatMap_cons]
  rfl

theorem sim_wrap {c : Circ P α} {cfg : ItCfg} (G : Good c cfg) {inner r : Nat}
    (h : SimAt c cfg inner r (rowW cfg - 1)) : SimAt c cfg inner (r + 1) 0 := by
  intro cy q skip k fN fC hrow hrows hl hinner hk hfN hfC
  have hmq := rowW_pos G
  have hW : (r + 1) * rowW cfg = r * rowW cfg + rowW cfg := Nat.succ_mul _ _
  have hW1 : rowW cfg = cfg.maxQ + 1 - cfg.minQ := rfl
  rw [dirL_succ]
  refine pos_step G (m := (r + 1) * rowW cfg) (by omega) ?_ ?_ skip k fN fC
    (by omega) (by omega) (by omega)
  · intro skip' k' fN' fC' hk' hfN' hfC'
    have hnil : ∀ x, cycleScan c cfg cy (dirL cfg.reverse x 0) skip' = [] := by
      intro x; cases hr : cfg.reverse <;> simp [dirL, dnL, cycleScan]
    rw [hnil, List.nil_append, laterRows_succ]
    have hfull : rowFull cfg = dirL cfg.reverse (rowStart cfg) (rowW cfg - 1 + 1) := by
      unfold rowFull; congr 1; omega
    rw [hfull]
    unfold rowShape at hrow
    unfold rowsShape at hrows
    unfold live at hl
    cases hr : cfg.reverse
    · simp only [hr, Bool.false_eq_true, if_false] at hrow hrows hl
      rw [advance_fwd_wrap hr (by omega)]
      have hn : nextCy cfg cy = cy + 1 := by simp [nextCy, hr]
      have hs : rowStart cfg = cfg.minQ := by simp [rowStart, hr]
      rw [hn, hs]
      have := h (cy + 1) cfg.minQ [] k' fN' fC'
        (by unfold rowShape; simp only [hr]; simp; omega)
        (by unfold rowsShape; simp only [hr]; simp; omega)
        (by
          unfold live; simp only [hr, Bool.false_eq_true, if_false]
          simp only [ptLt, Bool.or_eq_false_iff, decide_eq_false_iff_not, Bool.and_eq_false_imp,
            beq_iff_eq] at hl ⊢
          push_cast; omega)
        (by omega) (by omega) (by omega) (by omega)
      simpa only [hr] using this
    · simp only [hr, if_true] at hrow hrows hl
      rw [advance_rev_wrap hr (by omega)]
      have hn : nextCy cfg cy = cy - 1 := by simp [nextCy, hr]
      have hs : rowStart cfg = cfg.maxQ := by simp [rowStart, hr]
      rw [hn, hs]
      have hst : ({ cycle := (cy : Int) - 1, qudit := cfg.maxQ, skip := [] } : ItState)
          = st (cy - 1) cfg.maxQ [] := by
        unfold st; congr 1; omega
      rw [hst]
      have := h (cy - 1) cfg.maxQ [] k' fN' fC'
        (by unfold rowShape; simp only [hr]; simp; omega)
        (by unfold rowsShape; simp only [hr]; simp; omega)
        (by
          unfold live; simp only [hr, if_true]
          simp only [ptLt, Bool.or_eq_false_iff, decide_eq_false_iff_not, Bool.and_eq_false_imp,
            beq_iff_eq] at hl ⊢
          omega)
        (by omega) (by omega) (by omega) (by omega)
      simpa only [hr] using this
  · intro skip' _ ho
    have := dead_nil (c := c) (kq := 1) (skip := skip') hl hrows ho
    rwa [dirL_succ] at this

/-- The state machine walks the rows exactly like `cycleScan`. -/
theorem main_sim {c : Circ P α} {cfg : ItCfg} (G : Good c cfg) (inner : Nat) :
    ∀ kr kq, SimAt c cfg inner kr kq := by
  intro kr
  induction kr with
  | zero =>
    intro kq
    induction kq with
    | zero => exact sim_base G inner
    | succ j ih => exact sim_row G ih
  | succ r ihr =>
    intro kq
    induction kq with
    | zero => exact sim_wrap G (ihr _)
    | succ j ih => exact sim_row G ih

/-! ### what the constructor guarantees -/

theorem foldl_max_spec : ∀ (l : List Nat) (a : Nat),
    a ≤ l.foldl max a ∧ (∀ x ∈ l, x ≤ l.foldl max a) ∧ (l.foldl max a = a ∨ l.foldl max a ∈ l)
  | [], a => ⟨Nat.le_refl _, (fun _ h => by cases h), Or.inl rfl⟩
  | y :: ys, a => by
    obtain ⟨h1, h2, h3⟩ := foldl_max_spec ys (max a y)
    simp only [List.foldl_cons]
    refine ⟨by omega, ?_, ?_⟩
    · intro x hx
      rcases List.mem_cons.1 hx with rfl | hx
      · omega
      · exact h2 x hx
    · rcases h3 with h | h
      · rw [h]
        rcases Nat.le_total a y with hay | hay
        · right; rw [Nat.max_eq_right hay]; exact List.mem_cons_self
        · left; exact Nat.max_eq_left hay
      · right; exact List.mem_cons_of_mem _ h

theorem foldl_min_spec : ∀ (l : List Nat) (a : Nat),
    l.foldl min a ≤ a ∧ (∀ x ∈ l, l.foldl min a ≤ x) ∧ (l.foldl min a = a ∨ l.foldl min a ∈ l)
  | [], a => ⟨Nat.le_refl _, (fun _ h => by cases h), Or.inl rfl⟩
  | y :: ys, a => by
    obtain ⟨h1, h2, h3⟩ := foldl_min_spec ys (min a y)
    simp only [List.foldl_cons]
    refine ⟨by omega, ?_, ?_⟩
    · intro x hx
      rcases List.mem_cons.1 hx with rfl | hx
      · omega
      · exact h2 x hx
    · rcases h3 with h | h
      · rw [h]
        rcases Nat.le_total a y with hay | hay
        · left; exact Nat.min_eq_left hay
        · right; rw [Nat.min_eq_right hay]; exact List.mem_cons_self
      · right; exact List.mem_cons_of_mem _ h

theorem le_listMax {l : List Nat} {x : Nat} (h : x ∈ l) : x ≤ listMax l :=
  (foldl_max_spec l 0).2.1 x h

theorem listMax_mem {l : List Nat} (h : l ≠ []) : listMax l ∈ l := by
  rcases (foldl_max_spec l 0).2.2 with h0 | hm
  · cases l with
    | nil => exact absurd rfl h
    | cons y ys =>
      have : y ≤ listMax (y :: ys) := le_listMax List.mem_cons_self
      have h0' : listMax (y :: ys) = 0 := h0
      have : y = 0 := by omega
      rw [h0', ← this]; exact List.mem_cons_self
  · exact hm

theorem listMin_le {l : List Nat} {x : Nat} (h : x ∈ l) : listMin l ≤ x := by
  cases l with
  | nil => cases h
  | cons y ys =>
    obtain ⟨h1, h2, _⟩ := foldl_min_spec ys y
    rcases List.mem_cons.1 h with rfl | h
    · exact h1
    · exact h2 x h

theorem listMin_mem {l : List Nat} (h : l ≠ []) : listMin l ∈ l := by
  cases l with
  | nil => exact absurd rfl h
  | cons y ys =>
    rcases (foldl_min_spec ys y).2.2 with h0 | hm
    · have : listMin (y :: ys) = y := h0
      rw [this]; exact List.mem_cons_self
    · exact List.mem_cons_of_mem _ hm

/-- The argument ranges under which (A) is proven (besides `mkCfg … = .ok cfg`).  Both
conditions exclude an IndexError of the real iterator, which raises it exactly when a visited
cell `_circuit[cycle][qudit]` lies outside the grid: a requested qudit `≥ num_qudits`
(possible only for an explicit region; a qudit sequence is checked by the constructor), or a
cycle `≥ num_cycles` (reachable only when an explicit `end` has such a cycle, because the
intervals of the `all`/qudits modes and `region.max_cycle` may include `num_cycles` itself
while the default `end` has cycle `num_cycles - 1`).  Nothing else is assumed: negative
coordinates of `start`/`end` (which `CircuitPoint.is_point` accepts), points far outside the
grid, regions with arbitrary intervals and circuits with 0 cycles are all covered. -/
structure ItArgsOK (c : Circ P α) (a : ItArgs) : Prop where
  /-- explicit regions only mention qudits of the circuit -/
  region_lt : ∀ r, a.mode = .region r → ∀ e ∈ r, e.1 < c.radixes.length
  /-- the cycle of an explicit `end` exists (otherwise `_circuit[cycle]` raises IndexError) -/
  stop_lt : ∀ e, a.stop = some e → e.1 < (c.numCycles : Int)

theorem modeLists_region {n N : Nat} {m : Mode} {qs : List Nat} {rg : List (Nat × Nat × Nat)}
    (h : modeLists n N m = some (qs, rg)) : qs = rg.map (·.1) := by
  cases m with
  | all => simp [modeLists] at h; obtain ⟨rfl, rfl⟩ := h; simp [Function.comp_def]
  | region r => simp [modeLists] at h; obtain ⟨rfl, rfl⟩ := h; rfl
  | qudits l =>
    simp only [modeLists] at h
    split at h
    · simp at h; obtain ⟨rfl, rfl⟩ := h; simp [Function.comp_def]
    · cases h

theorem modeLists_lt {n N : Nat} {m : Mode} {qs : List Nat} {rg : List (Nat × Nat × Nat)}
    (h : modeLists n N m = some (qs, rg))
    (hreg : ∀ r, m = .region r → ∀ e ∈ r, e.1 < n) : ∀ q ∈ qs, q < n := by
  cases m with
  | all => simp [modeLists] at h; obtain ⟨rfl, rfl⟩ := h; intro q hq; simpa using hq
  | region r =>
    simp [modeLists] at h; obtain ⟨rfl, rfl⟩ := h
    intro q hq
    obtain ⟨e, he, rfl⟩ := List.mem_map.1 hq
    exact hreg _ rfl e he
  | qudits l =>
    simp only [modeLists] at h
    split at h
    · rename_i hall
      simp at h; obtain ⟨rfl, rfl⟩ := h
      intro q hq
      simpa using List.all_eq_true.1 hall q hq
    · cases h

/-- The clamped `end` is at most the requested one. -/
theorem cfgOf_stop_le (n N : Nat) (a : ItArgs) (qs : List Nat) (rg : List (Nat × Nat × Nat)) :
    (cfgOf n N a qs rg).stop.1 ≤
      (match a.stop with | some e => e | none => ((N : Int) - 1, (n : Int) - 1)).1 := by
  simp only [cfgOf]
  cases a.stop <;> simp only <;> split
  all_goals first
    | exact Int.le_refl _
    | (rename_i h
       simp only [ptLt, Bool.or_eq_true, decide_eq_true_eq, Bool.and_eq_true, beq_iff_eq] at h
       omega)

theorem good_of_mkCfg {c : Circ P α} {a : ItArgs} {cfg : ItCfg}
    (hcfg : mkCfg c.radixes.length c.numCycles a = .ok cfg) (ha : ItArgsOK c a) : Good c cfg := by
  obtain ⟨qs, rg, hm, hne, rfl⟩ := (mkCfg_ok_iff _ _ _ _).1 hcfg
  refine ⟨listMin_mem hne, listMax_mem hne, fun q h => listMin_le h, fun q h => le_listMax h,
    modeLists_lt hm ha.region_lt, ?_, ?_, ?_⟩
  · simp only [cfgOf]
    split
    · exact Int.le_refl _
    · rename_i h
      simp only [ptLt, Bool.or_eq_true, decide_eq_true_eq, Bool.and_eq_true, beq_iff_eq] at h
      omega
  · simp only [cfgOf]
    cases a.stop <;> simp only <;> split
    all_goals first
      | exact Int.le_refl _
      | (rename_i h
         simp only [ptLt, Bool.or_eq_true, decide_eq_true_eq, Bool.and_eq_true, beq_iff_eq] at h
         omega)
  · refine Int.lt_of_le_of_lt (cfgOf_stop_le _ _ _ _ _) ?_
    cases hs : a.stop with
    | none => simp only; omega
    | some e => exact ha.stop_lt e hs

/-! ### the walk covers everything eligible -/

theorem cycleScan_filter {c : Circ P α} {cfg : ItCfg} {cy : Nat} :
    ∀ (qs skip : List Nat),
      cycleScan c cfg cy qs skip = cycleScan c cfg cy (qs.filter (eligible cfg cy)) skip := by
  intro qs
  induction qs with
  | nil => intro skip; rfl
  | cons q qs ih =>
    intro skip
    cases he : eligible cfg cy q
    · rw [List.filter_cons_of_neg (by simp [he]), cycleScan, if_pos (by simp [he])]
      exact ih skip
    · rw [List.filter_cons_of_pos he]
      simp only [cycleScan]
      simp only [ih]

theorem cycleScan_congr {c : Circ P α} {cfg : ItCfg} {cy : Nat} {l₁ l₂ : List Nat}
    (h : l₁.filter (eligible cfg cy) = l₂.filter (eligible cfg cy)) (skip : List Nat) :
    cycleScan c cfg cy l₁ skip = cycleScan c cfg cy l₂ skip := by
  rw [cycleScan_filter l₁, cycleScan_filter l₂, h]

theorem filter_eq_of_lt {p : Nat → Bool} {l₁ l₂ : List Nat} (h1 : l₁.Pairwise (· < ·))
    (h2 : l₂.Pairwise (· < ·)) (h : ∀ x, p x = true → (x ∈ l₁ ↔ x ∈ l₂)) :
    l₁.filter p = l₂.filter p := by
  refine List.Pairwise.eq_of_mem_iff (h1.filter p) (h2.filter p) ?_
  intro x
  simp only [List.mem_filter]
  constructor
  · rintro ⟨a, b⟩; exact ⟨(h x b).1 a, b⟩
  · rintro ⟨a, b⟩; exact ⟨(h x b).2 a, b⟩

theorem filter_eq_of_gt {p : Nat → Bool} {l₁ l₂ : List Nat} (h1 : l₁.Pairwise (· > ·))
    (h2 : l₂.Pairwise (· > ·)) (h : ∀ x, p x = true → (x ∈ l₁ ↔ x ∈ l₂)) :
    l₁.filter p = l₂.filter p := by
  refine List.Pairwise.eq_of_mem_iff (h1.filter p) (h2.filter p) ?_
  intro x
  simp only [List.mem_filter]
  constructor
  · rintro ⟨a, b⟩; exact ⟨(h x b).1 a, b⟩
  · rintro ⟨a, b⟩; exact ⟨(h x b).2 a, b⟩

theorem dnL_eq_aux : ∀ (k s : Nat), dnL (s + k) (k + 1) = (List.range' s (k + 1)).reverse
  | 0, s => rfl
  | k + 1, s => by
    rw [dnL, show s + (k + 1) - 1 = s + k by omega, dnL_eq_aux k s,
      List.range'_1_concat (n := k + 1), List.reverse_append]
    rfl

theorem dnL_eq (k q : Nat) (h : k ≤ q + 1) : dnL q k = (List.range' (q + 1 - k) k).reverse := by
  cases k with
  | zero => rfl
  | succ k =>
    have := dnL_eq_aux k (q - k)
    rw [show q - k + k = q by omega] at this
    rw [this]
    congr 2
    omega

theorem pairwise_gt_dnL {k q : Nat} (h : k ≤ q + 1) : (dnL q k).Pairwise (· > ·) := by
  rw [dnL_eq k q h, List.pairwise_reverse]
  exact List.pairwise_lt_range'

theorem mem_dnL {k q x : Nat} (h : k ≤ q + 1) : x ∈ dnL q k ↔ q + 1 ≤ x + k ∧ x ≤ q := by
  rw [dnL_eq k q h, List.mem_reverse, List.mem_range'_1]
  omega

theorem pairwise_gt_range_reverse (n : Nat) : (List.range n).reverse.Pairwise (· > ·) := by
  rw [List.pairwise_reverse]
  exact List.pairwise_lt_range

theorem flatMap_filter {β : Type} {p : Nat → Bool} {g : Nat → List β} :
    ∀ (l : List Nat), (∀ x, p x = false → g x = []) → l.flatMap g = (l.filter p).flatMap g
  | [], _ => rfl
  | x :: xs, h => by
    cases hp : p x
    · rw [List.filter_cons_of_neg (by simp [hp]), List.flatMap_cons, h x hp, List.nil_append]
      exact flatMap_filter xs h
    · rw [List.filter_cons_of_pos hp, List.flatMap_cons, List.flatMap_cons, flatMap_filter xs h]

theorem flatMap_congr' {β : Type} {f g : Nat → List β} :
    ∀ (l : List Nat), (∀ x ∈ l, f x = g x) → l.flatMap f = l.flatMap g
  | [], _ => rfl
  | x :: xs, h => by
    rw [List.flatMap_cons, List.flatMap_cons, h x List.mem_cons_self,
      flatMap_congr' xs (fun y hy => h y (List.mem_cons_of_mem _ hy))]

/-- the cycles between `start` and `stop` -/
def rowLive (cfg : ItCfg) (cy : Nat) : Bool :=
  decide (cfg.start.1 ≤ (cy : Int)) && decide ((cy : Int) ≤ cfg.stop.1)

theorem cycleScan_nil_of_not_rowLive {c : Circ P α} {cfg : ItCfg} {cy : Nat}
    (h : rowLive cfg cy = false) (qs skip : List Nat) : cycleScan c cfg cy qs skip = [] := by
  apply cycleScan_nil
  intro q _
  simp only [rowLive, Bool.and_eq_false_imp, decide_eq_true_eq, decide_eq_false_iff_not] at h
  by_cases h1 : cfg.start.1 ≤ (cy : Int)
  · apply eligible_false_of_stop
    have := h h1
    simp only [ptLt, Bool.or_eq_true, decide_eq_true_eq, Bool.and_eq_true, beq_iff_eq]
    omega
  · apply eligible_false_of_start
    simp only [ptLt, Bool.or_eq_true, decide_eq_true_eq, Bool.and_eq_true, beq_iff_eq]
    omega

/-- facts packed in `eligible` -/
theorem eligible_facts {c : Circ P α} {cfg : ItCfg} (G : Good c cfg) {cy q : Nat}
    (h : eligible cfg cy q = true) :
    cfg.minQ ≤ q ∧ q ≤ cfg.maxQ ∧ q < c.radixes.length ∧
      ptLt ((cy : Int), (q : Int)) cfg.start = false ∧
      ptLt cfg.stop ((cy : Int), (q : Int)) = false := by
  simp only [eligible, Bool.and_eq_true, List.contains_iff_mem, Bool.not_eq_true'] at h
  obtain ⟨⟨⟨h1, _⟩, h3⟩, h4⟩ := h
  exact ⟨G.q_ge _ h1, G.q_le _ h1, G.q_lt _ h1, h3, h4⟩

theorem specIter_eq (c : Circ P α) (cfg : ItCfg) :
    specIter c cfg =
      (if cfg.reverse then (List.range c.numCycles).reverse else List.range c.numCycles).flatMap
        (fun cy => cycleScan c cfg cy
          (if cfg.reverse then (List.range c.radixes.length).reverse
            else List.range c.radixes.length) []) := rfl

theorem walk_eq_spec_fwd {c : Circ P α} {cfg : ItCfg} (G : Good c cfg)
    (hr : cfg.reverse = false) {cy0 q0 kq kr : Nat}
    (hs1 : cfg.start.1 = (cy0 : Int))
    (hq0 : ∀ x : Nat, ptLt ((cy0 : Int), (x : Int)) cfg.start = false → q0 ≤ x)
    (hrow : rowShape cfg q0 (kq + 1)) (hrows : rowsShape cfg cy0 kr) :
    cycleScan c cfg cy0 (dirL cfg.reverse q0 (kq + 1)) [] ++ laterRows c cfg cy0 kr
      = specIter c cfg := by
  have hmq := rowW_pos G
  rw [specIter_eq]
  unfold laterRows rowFull rowStart nextCy
  unfold rowShape at hrow
  unfold rowsShape at hrows
  simp only [hr, Bool.false_eq_true, if_false, dirL] at hrow hrows ⊢
  -- first row
  have h0 : cycleScan c cfg cy0 (List.range' q0 (kq + 1)) []
      = cycleScan c cfg cy0 (List.range c.radixes.length) [] := by
    apply cycleScan_congr
    apply filter_eq_of_lt List.pairwise_lt_range' List.pairwise_lt_range
    intro x hx
    obtain ⟨e1, e2, e3, e4, _⟩ := eligible_facts G hx
    have := hq0 x e4
    simp only [List.mem_range'_1, List.mem_range]
    omega
  have h1 : ∀ cy ∈ List.range' (cy0 + 1) kr,
      cycleScan c cfg cy (List.range' cfg.minQ (rowW cfg)) []
        = cycleScan c cfg cy (List.range c.radixes.length) [] := by
    intro cy _
    apply cycleScan_congr
    apply filter_eq_of_lt List.pairwise_lt_range' List.pairwise_lt_range
    intro x hx
    obtain ⟨e1, e2, e3, _, _⟩ := eligible_facts G hx
    simp only [List.mem_range'_1, List.mem_range, rowW]
    omega
  rw [h0, flatMap_congr' _ h1]
  have : ∀ g : Nat → List (Nat × GOp P α),
      g cy0 ++ (List.range' (cy0 + 1) kr).flatMap g = (List.range' cy0 (kr + 1)).flatMap g := by
    intro g; rw [List.range'_succ, List.flatMap_cons]
  refine (this (fun cy => cycleScan c cfg cy (List.range c.radixes.length) [])).trans ?_
  rw [flatMap_filter (p := rowLive cfg) (List.range' cy0 (kr + 1))
      (fun x hx => cycleScan_nil_of_not_rowLive hx _ _),
    flatMap_filter (p := rowLive cfg) (List.range c.numCycles)
      (fun x hx => cycleScan_nil_of_not_rowLive hx _ _)]
  congr 1
  apply filter_eq_of_lt List.pairwise_lt_range' List.pairwise_lt_range
  intro x hx
  simp only [rowLive, hs1, Bool.and_eq_true, decide_eq_true_eq] at hx
  have g1 := G.stop_cy; have g2 := G.stop_lt
  simp only [List.mem_range'_1, List.mem_range]
  omega

theorem walk_eq_spec_rev {c : Circ P α} {cfg : ItCfg} (G : Good c cfg)
    (hr : cfg.reverse = true) {cy0 q0 kq kr : Nat}
    (hq0 : ∀ x : Nat, eligible cfg cy0 x = true → x ≤ q0)
    (hdead : ∀ x q : Nat, cy0 < x → eligible cfg x q = false)
    (hlt : cy0 < c.numCycles)
    (hrow : rowShape cfg q0 (kq + 1)) (hrows : rowsShape cfg cy0 kr) :
    cycleScan c cfg cy0 (dirL cfg.reverse q0 (kq + 1)) [] ++ laterRows c cfg cy0 kr
      = specIter c cfg := by
  have hmq := rowW_pos G
  rw [specIter_eq]
  unfold laterRows rowFull rowStart nextCy
  unfold rowShape at hrow
  unfold rowsShape at hrows
  simp only [hr, if_true, dirL] at hrow hrows ⊢
  rw [hrows]
  have hkq : kq + 1 ≤ q0 + 1 := by omega
  have h0 : cycleScan c cfg cy0 (dnL q0 (kq + 1)) []
      = cycleScan c cfg cy0 (List.range c.radixes.length).reverse [] := by
    apply cycleScan_congr
    apply filter_eq_of_gt (pairwise_gt_dnL hkq) (pairwise_gt_range_reverse _)
    intro x hx
    obtain ⟨e1, e2, e3, _, _⟩ := eligible_facts G hx
    have := hq0 x hx
    rw [mem_dnL hkq]
    simp only [List.mem_reverse, List.mem_range]
    omega
  have hW : rowW cfg ≤ cfg.maxQ + 1 := by unfold rowW; omega
  have h1 : ∀ cy ∈ dnL (cy0 - 1) cy0,
      cycleScan c cfg cy (dnL cfg.maxQ (rowW cfg)) []
        = cycleScan c cfg cy (List.range c.radixes.length).reverse [] := by
    intro cy _
    apply cycleScan_congr
    apply filter_eq_of_gt (pairwise_gt_dnL hW) (pairwise_gt_range_reverse _)
    intro x hx
    obtain ⟨e1, e2, e3, _, _⟩ := eligible_facts G hx
    rw [mem_dnL hW]
    simp only [List.mem_reverse, List.mem_range, rowW]
    omega
  rw [h0, flatMap_congr' _ h1]
  have : ∀ g : Nat → List (Nat × GOp P α),
      g cy0 ++ (dnL (cy0 - 1) cy0).flatMap g = (dnL cy0 (cy0 + 1)).flatMap g := by
    intro g; rw [dnL, List.flatMap_cons]
  refine (this (fun cy => cycleScan c cfg cy (List.range c.radixes.length).reverse [])).trans ?_
  have hnil : ∀ x, (fun x => decide (x ≤ cy0)) x = false →
      cycleScan c cfg x (List.range c.radixes.length).reverse [] = [] := by
    intro x hx
    simp only [decide_eq_false_iff_not] at hx
    exact cycleScan_nil _ _ (fun q _ => hdead x q (by omega))
  rw [flatMap_filter (p := fun x => decide (x ≤ cy0)) (dnL cy0 (cy0 + 1)) hnil,
    flatMap_filter (p := fun x => decide (x ≤ cy0)) (List.range c.numCycles).reverse hnil]
  congr 1
  apply filter_eq_of_gt (pairwise_gt_dnL (Nat.le_refl _)) (pairwise_gt_range_reverse _)
  intro x hx
  simp only [decide_eq_true_eq] at hx
  rw [mem_dnL (Nat.le_refl _)]
  simp only [List.mem_reverse, List.mem_range]
  omega

/-! ### initial pointers off the grid -/

theorem inQudits_neg (cfg : ItCfg) {q : Int} (h : q < 0) : inQudits cfg q = false := by
  unfold inQudits
  rw [List.any_eq_false]
  intro x _
  simp only [beq_iff_eq]
  omega

theorem passCond_neg (cfg : ItCfg) {s : ItState} (h : s.qudit < 0) : passCond cfg s = true := by
  unfold passCond
  simp [inQudits_neg cfg h]

/-- forward: a pointer at a negative qudit walks up to qudit 0 -/
theorem run_neg_prefix_fwd {c : Circ P α} {cfg : ItCfg} (hr : cfg.reverse = false)
    {inner fN fC : Nat} (cy : Int) :
    ∀ (d k : Nat), run c cfg inner fN fC (stepIter cfg (k + d) ⟨cy, -(d : Int), []⟩)
      = run c cfg inner fN fC (stepIter cfg k ⟨cy, 0, []⟩)
  | 0, k => by simp
  | d + 1, k => by
    have hp : passCond cfg ⟨cy, -((d + 1 : Nat) : Int), []⟩ = true :=
      passCond_neg cfg (by simp only; omega)
    rw [show k + (d + 1) = (k + d) + 1 by omega, run_pass hp]
    have : advance cfg ⟨cy, -((d + 1 : Nat) : Int), []⟩ = ⟨cy, -(d : Int), []⟩ := by
      unfold advance
      simp only [hr, Bool.false_eq_true, if_false]
      rw [if_neg (by omega)]
      congr 1
      omega
    rw [this]
    exact run_neg_prefix_fwd hr cy d k

/-- in a row before the grid the first pointer not passed raises StopIteration -/
theorem visitBody_neg_stop {c : Circ P α} {cfg : ItCfg} (G : Good c cfg) {inner fN : Nat}
    {s : ItState} (h : s.cycle < 0) : visitBody c cfg inner fN s = .stop := by
  unfold visitBody
  rw [if_pos]
  have := G.start_cy
  simp only [ptLt, Bool.or_eq_true, decide_eq_true_eq, Bool.and_eq_true, beq_iff_eq]
  omega

/-- reverse: at the first qudit of a row before the grid the iterator stops -/
theorem run_neg_fresh_rev {c : Circ P α} {cfg : ItCfg} (G : Good c cfg) (hr : cfg.reverse = true)
    {inner fN fC : Nat} {cy : Int} (hcy : cy < 0) (k : Nat) (hk : 1 ≤ k) :
    run c cfg inner fN fC (stepIter cfg k ⟨cy, cfg.maxQ, []⟩) = .ok (some []) := by
  obtain ⟨k, rfl⟩ : ∃ k0, k = k0 + 1 := ⟨k - 1, by omega⟩
  have hp : passCond cfg ⟨cy, cfg.maxQ, []⟩ = false := by
    have h1 : inQudits cfg (cfg.maxQ : Int) = true := by
      rw [inQudits_cast]; simpa using G.maxQ_mem
    simp only [passCond, hr, h1, if_true, List.contains_nil, Bool.not_true, Bool.or_self,
      Bool.false_or, Bool.and_eq_false_imp, decide_eq_false_iff_not]
    intro _; omega
  rw [run_visit hp, visitBody_neg_stop G hcy]
  rfl

/-- reverse: from a pointer in a row before the grid nothing is yielded -/
theorem run_neg_row_rev {c : Circ P α} {cfg : ItCfg} (G : Good c cfg) (hr : cfg.reverse = true)
    {inner fN fC : Nat} {cy : Int} (hcy : cy < 0) :
    ∀ (m : Nat) (q : Int) (k : Nat), q < (cfg.minQ : Int) + m → m + 2 ≤ k →
      run c cfg inner fN fC (stepIter cfg k ⟨cy, q, []⟩) = .ok (some []) := by
  have final : ∀ k, 1 ≤ k →
      run c cfg inner fN fC (stepIter cfg k ⟨cy - 1, cfg.maxQ, []⟩) = .ok (some []) :=
    fun k hk => run_neg_fresh_rev G hr (by omega) k hk
  intro m
  induction m with
  | zero =>
    intro q k hq hk
    obtain ⟨k, rfl⟩ : ∃ k0, k = k0 + 1 := ⟨k - 1, by omega⟩
    cases hp : passCond cfg ⟨cy, q, []⟩
    · rw [run_visit hp, visitBody_neg_stop G hcy]; rfl
    · rw [run_pass hp]
      have : advance cfg ⟨cy, q, []⟩ = ⟨cy - 1, cfg.maxQ, []⟩ := by
        unfold advance
        simp only [hr, if_true]
        rw [if_pos (by omega)]
      rw [this]
      exact final k (by omega)
  | succ m ih =>
    intro q k hq hk
    obtain ⟨k, rfl⟩ : ∃ k0, k = k0 + 1 := ⟨k - 1, by omega⟩
    cases hp : passCond cfg ⟨cy, q, []⟩
    · rw [run_visit hp, visitBody_neg_stop G hcy]; rfl
    · rw [run_pass hp]
      by_cases hw : q - 1 < (cfg.minQ : Int)
      · have : advance cfg ⟨cy, q, []⟩ = ⟨cy - 1, cfg.maxQ, []⟩ := by
          unfold advance
          simp only [hr, if_true]
          rw [if_pos hw]
        rw [this]
        exact final k (by omega)
      · have : advance cfg ⟨cy, q, []⟩ = ⟨cy, q - 1, []⟩ := by
          unfold advance
          simp only [hr, if_true]
          rw [if_neg hw]
        rw [this]
        exact ih (q - 1) k (by push_cast at hq ⊢; omega) (by omega)

theorem specIter_nil {c : Circ P α} {cfg : ItCfg}
    (h : ∀ cy q : Nat, eligible cfg cy q = false) : specIter c cfg = [] := by
  rw [specIter_eq, List.flatMap_eq_nil_iff]
  intro cy _
  exact cycleScan_nil _ _ (fun q _ => h cy q)

/-! ### (A) the iterator returns `specIter` -/

/-- Forward iteration, any fuel above the number of pointer positions. -/
theorem gridCollect_fwd {c : Circ P α} {cfg : ItCfg} (G : Good c cfg) (hr : cfg.reverse = false)
    {F : Nat}
    (hF : cfg.start.2.natAbs + cfg.maxQ + (cfg.maxCycle - cfg.start.1.toNat) * rowW cfg + 2 ≤ F) :
    gridCollect c cfg F F ⟨cfg.start.1, cfg.start.2, []⟩ = .ok (some (specIter c cfg)) := by
  obtain ⟨F, rfl⟩ : ∃ f, F = f + 1 := ⟨F - 1, by omega⟩
  rw [gridCollect_eq_run]
  have h1 : 0 ≤ cfg.start.1 := by have := G.start_cy; omega
  generalize hcy0 : cfg.start.1.toNat = cy0 at hF
  generalize hq0' : cfg.start.2.toNat = q0
  have hs1 : cfg.start.1 = (cy0 : Int) := by omega
  -- walk up to qudit 0 when the pointer starts at a negative qudit
  have hpre : ∃ k, cfg.maxQ + (cfg.maxCycle - cy0) * rowW cfg + 2 ≤ k ∧
      run c cfg (F + 1) F F (stepIter cfg (F + 1) ⟨cfg.start.1, cfg.start.2, []⟩)
        = run c cfg (F + 1) F F (stepIter cfg k (st cy0 q0 [])) := by
    by_cases hq : 0 ≤ cfg.start.2
    · refine ⟨F + 1, by omega, ?_⟩
      have : (⟨cfg.start.1, cfg.start.2, []⟩ : ItState) = st cy0 q0 [] := by
        unfold st; congr 1; omega
      rw [this]
    · refine ⟨F + 1 - cfg.start.2.natAbs, by omega, ?_⟩
      have e1 : F + 1 = (F + 1 - cfg.start.2.natAbs) + cfg.start.2.natAbs := by omega
      have e2 : (⟨cfg.start.1, cfg.start.2, []⟩ : ItState)
          = ⟨cfg.start.1, -(cfg.start.2.natAbs : Int), []⟩ := by congr 1; omega
      have e3 : (⟨cfg.start.1, 0, []⟩ : ItState) = st cy0 q0 [] := by
        unfold st; congr 1; omega
      rw [e2]
      conv_lhs => rw [e1]
      rw [run_neg_prefix_fwd hr, e3, ← e1]
  obtain ⟨k, hk, hrun⟩ := hpre
  rw [hrun]
  have hrow : rowShape cfg q0 (cfg.maxQ - q0 + 1) := by
    unfold rowShape; simp only [hr]; simp; omega
  have hrows : rowsShape cfg cy0 (cfg.maxCycle - cy0) := by
    unfold rowsShape; simp only [hr]; simp; omega
  have hl : live cfg cy0 q0 := by
    unfold live
    simp only [hr, Bool.false_eq_true, if_false, ptLt, Bool.or_eq_false_iff,
      decide_eq_false_iff_not, Bool.and_eq_false_imp, beq_iff_eq]
    omega
  rw [main_sim G (F + 1) _ _ cy0 q0 [] k F F hrow hrows hl (by omega) (by omega) (by omega)
    (by omega)]
  refine congrArg (fun l => Except.ok (some l)) (walk_eq_spec_fwd G hr hs1 ?_ hrow hrows)
  intro x hx
  simp only [ptLt, Bool.or_eq_false_iff, decide_eq_false_iff_not, Bool.and_eq_false_imp,
    beq_iff_eq] at hx
  omega

/-- Reverse iteration, any fuel above the number of pointer positions. -/
theorem gridCollect_rev {c : Circ P α} {cfg : ItCfg} (G : Good c cfg) (hr : cfg.reverse = true)
    {F : Nat} (hF : cfg.stop.2.toNat + cfg.stop.1.toNat * rowW cfg + 3 ≤ F) :
    gridCollect c cfg F F ⟨cfg.stop.1, cfg.stop.2, []⟩ = .ok (some (specIter c cfg)) := by
  obtain ⟨F, rfl⟩ : ∃ f, F = f + 1 := ⟨F - 1, by omega⟩
  rw [gridCollect_eq_run]
  have hmq := rowW_pos G
  have hlt := G.stop_lt
  by_cases hc : cfg.stop.1 < 0
  · -- `end` lies before the grid: nothing is eligible, the iterator stops at once
    rw [run_neg_row_rev G hr hc (cfg.stop.2.toNat + 1) cfg.stop.2 (F + 1) (by omega) (by omega)]
    rw [specIter_nil]
    intro cy q
    apply eligible_false_of_stop
    simp only [ptLt, Bool.or_eq_true, decide_eq_true_eq, Bool.and_eq_true, beq_iff_eq]
    omega
  generalize hcy0 : cfg.stop.1.toNat = cy0 at hF
  have hs1 : cfg.stop.1 = (cy0 : Int) := by omega
  by_cases hq : 0 ≤ cfg.stop.2
  · generalize hq0' : cfg.stop.2.toNat = q0 at hF
    have hs2 : cfg.stop.2 = (q0 : Int) := by omega
    have hs : (⟨cfg.stop.1, cfg.stop.2, []⟩ : ItState) = st cy0 q0 [] := by
      unfold st; congr 1
    rw [hs]
    have hrow : rowShape cfg q0 (q0 - cfg.minQ + 1) := by
      unfold rowShape; simp only [hr]; simp; omega
    have hrows : rowsShape cfg cy0 cy0 := by
      unfold rowsShape; simp only [hr]; simp
    have hl : live cfg cy0 q0 := by
      unfold live
      simp only [hr, if_true, ptLt, Bool.or_eq_false_iff, decide_eq_false_iff_not,
        Bool.and_eq_false_imp, beq_iff_eq]
      omega
    rw [main_sim G (F + 1) _ _ cy0 q0 [] (F + 1) F F hrow hrows hl (by omega) (by omega)
      (by omega) (by omega)]
    refine congrArg (fun l => Except.ok (some l))
      (walk_eq_spec_rev G hr ?_ ?_ (by omega) hrow hrows)
    · intro x hx
      obtain ⟨_, _, _, _, e5⟩ := eligible_facts G hx
      simp only [ptLt, Bool.or_eq_false_iff, decide_eq_false_iff_not, Bool.and_eq_false_imp,
        beq_iff_eq] at e5
      omega
    · intro x q hx
      apply eligible_false_of_stop
      simp only [ptLt, Bool.or_eq_true, decide_eq_true_eq, Bool.and_eq_true, beq_iff_eq]
      omega
  · -- `end` has a negative qudit: one move wraps to the previous row
    have hp : passCond cfg ⟨cfg.stop.1, cfg.stop.2, []⟩ = true :=
      passCond_neg cfg (by simp only; omega)
    rw [run_pass hp]
    have hadv : advance cfg ⟨cfg.stop.1, cfg.stop.2, []⟩ = ⟨cfg.stop.1 - 1, cfg.maxQ, []⟩ := by
      unfold advance
      simp only [hr, if_true]
      rw [if_pos (by omega)]
    rw [hadv]
    have hdeadrow : ∀ x q : Nat, cy0 ≤ x → eligible cfg x q = false := by
      intro x q hx
      apply eligible_false_of_stop
      simp only [ptLt, Bool.or_eq_true, decide_eq_true_eq, Bool.and_eq_true, beq_iff_eq]
      omega
    cases cy0 with
    | zero =>
      rw [run_neg_fresh_rev G hr (by omega) F (by omega)]
      rw [specIter_nil (fun cy q => hdeadrow cy q (Nat.zero_le _))]
    | succ r =>
      have hs : (⟨cfg.stop.1 - 1, cfg.maxQ, []⟩ : ItState) = st r cfg.maxQ [] := by
        unfold st; congr 1; omega
      rw [hs]
      have hW : (r + 1) * rowW cfg = r * rowW cfg + rowW cfg := Nat.succ_mul _ _
      have hW1 : rowW cfg = cfg.maxQ + 1 - cfg.minQ := rfl
      have hrow : rowShape cfg cfg.maxQ (rowW cfg - 1 + 1) := by
        unfold rowShape; simp only [hr]; simp; omega
      have hrows : rowsShape cfg r r := by
        unfold rowsShape; simp only [hr]; simp
      have hl : live cfg r cfg.maxQ := by
        unfold live
        simp only [hr, if_true, ptLt, Bool.or_eq_false_iff, decide_eq_false_iff_not,
          Bool.and_eq_false_imp, beq_iff_eq]
        omega
      rw [main_sim G (F + 1) _ _ r cfg.maxQ [] F F F hrow hrows hl (by omega) (by omega)
        (by omega) (by omega)]
      refine congrArg (fun l => Except.ok (some l))
        (walk_eq_spec_rev G hr ?_ ?_ (by omega) hrow hrows)
      · intro x hx
        exact (eligible_facts G hx).2.1
      · intro x q hx
        exact hdeadrow x q (by omega)

/-- The dispatch test of `operations_with_cycles`: all arguments are the defaults. -/
def isDefaultArgs (a : ItArgs) : Bool :=
  a.start == (0, 0) && a.stop.isNone && !a.exclude && !a.reverse
    && (match a.mode with | .all => true | _ => false)

theorem iterate_of_mkCfg {c : Circ P α} {a : ItArgs} {cfg : ItCfg}
    (hnd : isDefaultArgs a = false)
    (hcfg : mkCfg c.radixes.length c.numCycles a = .ok cfg) :
    c.iterate a = gridCollect c cfg (iterFuel c a cfg) (iterFuel c a cfg)
      (if cfg.reverse then ⟨cfg.stop.1, cfg.stop.2, []⟩ else ⟨cfg.start.1, cfg.start.2, []⟩) := by
  unfold Circ.iterate
  unfold isDefaultArgs at hnd
  rw [hcfg]
  simp only
  exact (if_neg (fun h => absurd (hnd.symm.trans h) (by decide))).trans rfl

theorem fuel_arith {x r W S C D : Nat} (hx : x ≤ S * D) (hr : r + D ≤ C) (hW : W ≤ S) :
    x + r * W ≤ S * C := by
  calc x + r * W ≤ S * D + r * S := Nat.add_le_add hx (Nat.mul_le_mul_left r hW)
    _ = S * (D + r) := by rw [Nat.mul_add, Nat.mul_comm r S]
    _ ≤ S * C := Nat.mul_le_mul_left S (by omega)

theorem iterFuel_eq (c : Circ P α) (a : ItArgs) (cfg : ItCfg) :
    iterFuel c a cfg =
      (cfg.maxQ + c.radixes.length + 3 + a.start.2.natAbs
          + (match a.stop with | some e => e.2.natAbs | none => 0))
        * (cfg.maxCycle + c.numCycles + 3 + a.start.1.natAbs
            + (match a.stop with | some e => e.1.natAbs | none => 0)) + 8 := rfl

/-- The initial pointer: `start`, or `end` when iterating in reverse. -/
def initState (cfg : ItCfg) : ItState :=
  if cfg.reverse then ⟨cfg.stop.1, cfg.stop.2, []⟩ else ⟨cfg.start.1, cfg.start.2, []⟩

/-- the clamped `start` is the corner of the requested area or the requested `start` -/
theorem cfg_start_cases {c : Circ P α} {a : ItArgs} {cfg : ItCfg}
    (hcfg : mkCfg c.radixes.length c.numCycles a = .ok cfg) :
    cfg.start = ((cfg.minCycle : Int), (cfg.minQ : Int)) ∨ cfg.start = a.start := by
  obtain ⟨qs, rg, hm, hne, hc⟩ := (mkCfg_ok_iff _ _ _ _).1 hcfg
  rw [hc]; simp only [cfgOf]
  split <;> simp

/-- the clamped `end` is the corner of the requested area or the requested `end` -/
theorem cfg_stop_cases {c : Circ P α} {a : ItArgs} {cfg : ItCfg}
    (hcfg : mkCfg c.radixes.length c.numCycles a = .ok cfg) :
    cfg.stop = ((cfg.maxCycle : Int), (cfg.maxQ : Int)) ∨
      cfg.stop = (match a.stop with
        | some e => e
        | none => ((c.numCycles : Int) - 1, (c.radixes.length : Int) - 1)) := by
  obtain ⟨qs, rg, hm, hne, hc⟩ := (mkCfg_ok_iff _ _ _ _).1 hcfg
  rw [hc]; simp only [cfgOf]
  cases a.stop <;> simp only <;> split <;> simp

/-- (A), fuel-independent form: with enough fuel (the Python iterator has no fuel at all) the
state machine returns exactly `specIter`, under the range hypotheses `ItArgsOK` only: no
IndexError, no other result. -/
theorem gridCollect_eq_spec {c : Circ P α} {a : ItArgs} {cfg : ItCfg}
    (hcfg : mkCfg c.radixes.length c.numCycles a = .ok cfg) (ha : ItArgsOK c a) :
    ∃ F0, ∀ F, F0 ≤ F →
      gridCollect c cfg F F (initState cfg) = .ok (some (specIter c cfg)) := by
  have G := good_of_mkCfg hcfg ha
  refine ⟨cfg.start.2.natAbs + cfg.maxQ + cfg.stop.2.toNat
    + (cfg.maxCycle + cfg.stop.1.toNat) * rowW cfg + 3, fun F hF => ?_⟩
  unfold initState
  cases hr : cfg.reverse
  · simp only [Bool.false_eq_true, if_false]
    refine gridCollect_fwd G hr ?_
    have : (cfg.maxCycle - cfg.start.1.toNat) * rowW cfg
        ≤ (cfg.maxCycle + cfg.stop.1.toNat) * rowW cfg := Nat.mul_le_mul_right _ (by omega)
    omega
  · simp only [if_true]
    refine gridCollect_rev G hr ?_
    have : cfg.stop.1.toNat * rowW cfg
        ≤ (cfg.maxCycle + cfg.stop.1.toNat) * rowW cfg := Nat.mul_le_mul_right _ (by omega)
    omega

/-- (A) Restricted iteration returns exactly `specIter`: the model's fuel suffices, no
IndexError occurs, and the yielded list is the functional specification.
Hypotheses:
* `hnd`: the arguments are not all defaults (the default case is `iterate_default`);
* `hcfg`: the constructor succeeds (its failures are `mkCfg_err_iff`);
* `ha : ItArgsOK c a`: qudits of an explicit region exist and the cycle of an explicit `end`
  exists (outside these the real iterator can raise IndexError, see `ItArgsOK`).
Well-formedness of the circuit is *not* needed, nor any sign or range condition on
`start`/`end`.  (`gridCollect_eq_spec` is the fuel-independent form.) -/
theorem iterate_eq_spec {c : Circ P α} {a : ItArgs} {cfg : ItCfg}
    (hnd : isDefaultArgs a = false)
    (hcfg : mkCfg c.radixes.length c.numCycles a = .ok cfg) (ha : ItArgsOK c a) :
    c.iterate a = .ok (some (specIter c cfg)) := by
  have G := good_of_mkCfg hcfg ha
  rw [iterate_of_mkCfg hnd hcfg]
  have hmq := rowW_pos G
  have hW : rowW cfg ≤ cfg.maxQ + 1 := by unfold rowW; omega
  have hn : cfg.minQ < c.radixes.length := G.q_lt _ G.minQ_mem
  rw [iterFuel_eq]
  generalize hS : cfg.maxQ + c.radixes.length + 3 + a.start.2.natAbs
    + (match a.stop with | some e => e.2.natAbs | none => 0) = S
  generalize hC : cfg.maxCycle + c.numCycles + 3 + a.start.1.natAbs
    + (match a.stop with | some e => e.1.natAbs | none => 0) = C
  cases hr : cfg.reverse
  · -- forward
    simp only [Bool.false_eq_true, if_false]
    refine gridCollect_fwd G hr ?_
    have hx : cfg.start.2.natAbs + cfg.maxQ ≤ S * 1 := by
      rcases cfg_start_cases hcfg with h | h
      · rw [h]; simp only [Int.natAbs_natCast]; omega
      · rw [h]; omega
    have := fuel_arith (x := cfg.start.2.natAbs + cfg.maxQ)
      (r := cfg.maxCycle - cfg.start.1.toNat)
      (W := rowW cfg) (S := S) (C := C) (D := 1) hx (by omega) (by omega)
    omega
  · -- reverse
    simp only [if_true]
    have hlt := G.stop_lt
    refine gridCollect_rev G hr ?_
    have hx : cfg.stop.2.toNat ≤ S * 1 := by
      rcases cfg_stop_cases hcfg with h | h
      · rw [h]; simp only [Int.toNat_natCast]; omega
      · cases hs : a.stop with
        | some e =>
          rw [hs] at h hS
          simp only at h hS
          rw [h]; omega
        | none =>
          rw [hs] at h hS
          simp only at h hS
          rw [h]; simp only; omega
    have := fuel_arith (x := cfg.stop.2.toNat) (r := cfg.stop.1.toNat)
      (W := rowW cfg) (S := S) (C := C) (D := 1) hx (by omega) (by omega)
    omega

end BqVerif.CircSim
