/-
Restricted iteration (`CircuitGridIterator`, model in `Model/CircSim.lean`) returns exactly
the operations inside the requested area.

* `eligible`, `insideAll`, `cycleScan`, `specIter`: the functional specification;
* (D) `mkCfg_eq`, `mkCfg_err_iff`, `mkCfg_error_eq`, `iterate_default`;
* (B) `mem_specIter_iff`, `specIter_pairwise_disjoint`, `specIter_nodup`, `specIter_perm_filter`;
* (C) `specIter_cycles_sorted`;
* (A) `iterate_eq_spec`.
-/
import BqVerif.Model.CircSim
import Mathlib.Data.List.Nodup

namespace BqVerif.CircSim
open BqVerif.Tensor

variable {P α : Type}

/-! ### the specification -/

/-- cell `(cy, q)` is inside the requested area: requested qudit, cycle inside the qudit's
interval, and between (clamped) `start` and `stop`. -/
def eligible (cfg : ItCfg) (cy q : Nat) : Bool :=
  cfg.qudits.contains q && inRegion cfg cy q && !ptLt ((cy : Int), (q : Int)) cfg.start
    && !ptLt cfg.stop ((cy : Int), (q : Int))

/-- `exclude`: every cell of the operation lies on requested qudits and inside their
intervals. -/
def insideAll (cfg : ItCfg) (cy : Nat) (op : GOp P α) : Bool :=
  op.loc.all (fun q => cfg.qudits.contains q) && op.loc.all (fun q => overlapsPt cfg cy q)

/-- scan of one cycle over the qudits `qs` (in scan order); `skip` = `qudits_to_skip`. -/
def cycleScan (c : Circ P α) (cfg : ItCfg) (cy : Nat) :
    List Nat → List Nat → List (Nat × GOp P α)
  | [], _ => []
  | q :: qs, skip =>
    if skip.contains q || !eligible cfg cy q then cycleScan c cfg cy qs skip
    else match c.cell cy q with
      | some (some op) =>
        (if !cfg.exclude || insideAll cfg cy op then [(cy, op)] else [])
          ++ cycleScan c cfg cy qs (op.loc ++ skip)
      | some none => cycleScan c cfg cy qs (q :: skip)
      | none => cycleScan c cfg cy qs (q :: skip)

/-- forward: cycles ascending, qudits ascending; reverse: both descending. -/
def specIter (c : Circ P α) (cfg : ItCfg) : List (Nat × GOp P α) :=
  let cycles := if cfg.reverse then (List.range c.numCycles).reverse else List.range c.numCycles
  let quds := if cfg.reverse then (List.range c.radixes.length).reverse
    else List.range c.radixes.length
  cycles.flatMap (fun cy => cycleScan c cfg cy quds [])

/-! ### (D) the constructor -/

/-- `(qudits, region)` as set by the three modes; `none` = 'Invalid sequence of qudit indices'. -/
def modeLists (n numCycles : Nat) : Mode → Option (List Nat × List (Nat × Nat × Nat))
  | .all => some (List.range n, (List.range n).map (fun q => (q, 0, numCycles)))
  | .region r => some (r.map (·.1), r)
  | .qudits qs => if qs.all (· < n) then some (qs, qs.map (fun q => (q, 0, numCycles))) else none

/-- The configuration the constructor leaves, given `(qudits, region)`. -/
def cfgOf (n numCycles : Nat) (a : ItArgs) (qudits : List Nat) (region : List (Nat × Nat × Nat)) :
    ItCfg :=
  let stop : Int × Int := match a.stop with
    | some e => e
    | none => ((numCycles : Int) - 1, (n : Int) - 1)
  let maxQ := listMax qudits
  let minQ := listMin qudits
  let minCycle := listMin (region.map (·.2.1))
  let maxCycle := listMax (region.map (·.2.2))
  { start := if ptLt a.start (minCycle, minQ) then ((minCycle : Int), (minQ : Int)) else a.start
    stop := if ptLt (maxCycle, maxQ) stop then ((maxCycle : Int), (maxQ : Int)) else stop
    qudits, region, minQ, maxQ, minCycle, maxCycle, exclude := a.exclude, reverse := a.reverse }

theorem mkCfg_eq (n numCycles : Nat) (a : ItArgs) :
    mkCfg n numCycles a = match modeLists n numCycles a.mode with
      | none => .error .valueError
      | some v => if v.1.isEmpty then .error .valueError else .ok (cfgOf n numCycles a v.1 v.2) := by
  unfold mkCfg modeLists cfgOf
  simp only [bind, Except.bind, pure, Except.pure, throw, throwThe, MonadExceptOf.throw]
  cases a.mode with
  | all => rfl
  | region r => rfl
  | qudits qs => cases h : qs.all (· < n) <;> simp only [h] <;> rfl

/-- The constructor only ever raises ValueError. -/
theorem mkCfg_error_eq {n numCycles : Nat} {a : ItArgs} {e : Err}
    (h : mkCfg n numCycles a = .error e) : e = .valueError := by
  rw [mkCfg_eq] at h
  split at h
  · cases h; rfl
  · split at h
    · cases h; rfl
    · cases h

/-- ValueError iff the qudit list is empty (`max([])`) or, in qudits mode, some index is
out of range. -/
theorem mkCfg_err_iff (n numCycles : Nat) (a : ItArgs) :
    mkCfg n numCycles a = .error .valueError ↔
      match a.mode with
      | .all => n = 0
      | .region r => r = []
      | .qudits qs => qs = [] ∨ ∃ q ∈ qs, n ≤ q := by
  rw [mkCfg_eq]
  cases hm : a.mode with
  | all =>
    cases n <;> simp [modeLists, List.range_succ]
  | region r =>
    cases r <;> simp [modeLists]
  | qudits qs =>
    simp only [modeLists]
    by_cases h : qs.all (· < n) = true
    · rw [if_pos h]
      have h' : ¬ ∃ q ∈ qs, n ≤ q := by
        rintro ⟨q, hq, hn⟩
        have := (List.all_eq_true.1 h) q hq
        simp at this; omega
      cases qs <;> simp_all
    · rw [if_neg h]
      have : ∃ q ∈ qs, n ≤ q := by
        simpa [List.all_eq_true] using h
      simp [this]

theorem mkCfg_ok_iff (n numCycles : Nat) (a : ItArgs) (cfg : ItCfg) :
    mkCfg n numCycles a = .ok cfg ↔
      ∃ qs rg, modeLists n numCycles a.mode = some (qs, rg) ∧ qs ≠ [] ∧
        cfg = cfgOf n numCycles a qs rg := by
  rw [mkCfg_eq]
  cases hm : modeLists n numCycles a.mode with
  | none => simp
  | some v =>
    obtain ⟨qs, rg⟩ := v
    cases qs with
    | nil => simp
    | cons q qs =>
      simp only [List.isEmpty_cons, Bool.false_eq_true, if_false, Except.ok.injEq]
      constructor
      · intro h; exact ⟨_, _, rfl, by simp, h.symm⟩
      · rintro ⟨qs', rg', h1, -, h3⟩
        cases h1; exact h3.symm

/-- Default arguments dispatch to the DAG iterator: the iteration order itself. -/
theorem iterate_default (c : Circ P α) (a : ItArgs)
    (hstart : a.start = (0, 0)) (hstop : a.stop = none) (hmode : a.mode = .all)
    (hex : a.exclude = false) (hrev : a.reverse = false) :
    c.iterate a = .ok (some c.ops) := by
  simp [Circ.iterate, hstart, hstop, hmode, hex, hrev]

end BqVerif.CircSim
