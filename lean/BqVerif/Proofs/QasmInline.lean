import BqVerif.Model.QasmElab
/-! # A user-gate call is its body, inlined

`buildOp` builds the nested `CircuitGate` the reader constructs.  `Op.flat` unfolds the blocks
(locations composed through the block's own location — DESIGN S3 `den_flatten`).  `inlineG`
is the specification: a call of a user gate is the concatenation of its body statements, each
instantiated at the composed location with the parameter expressions evaluated under the
binding of the formals, recursively for any nesting depth. -/
namespace BqVerif.Qasm

variable {V : Type}

/-- a primitive gate application: gate identity, location, parameters -/
abbrev Prim (V : Type) := String × List Nat × List V

/-- push an operation of a block through the block's location -/
def relabel (loc : List Nat) (p : Prim V) : Prim V := (p.1, p.2.1.map (loc.getD · 0), p.2.2)

mutual
/-- primitive operations of an op after unfolding blocks (locations composed) -/
def Op.flat : Op V → List (Prim V)
  | .prim g loc ps => [(g, loc, ps)]
  | .block _ _ body loc => (flatList body).map (relabel loc)
  | .barrier _ => []
  | .measure _ _ => []
  | .reset _ => []
def flatList : List (Op V) → List (Prim V)
  | [] => []
  | o :: os => o.flat ++ flatList os
end

mutual
/-- specification of a gate application by inlining -/
def inlineG (A : Arith V) : GDef V → List Nat → List V → Option (List (Prim V))
  | .builtin b, loc, vs => (mkPrim A b loc vs).map Op.flat
  | .custom _ _ nv body, loc, vs =>
    match inlineBody A nv body vs with
    | some ps => if nodup loc && loc.length == nv then some (ps.map (relabel loc)) else none
    | none => none
def inlineBody (A : Arith V) (nv : Nat) : List (GBody V) → List V → Option (List (Prim V))
  | [], _ => some []
  | .mk g loc ps :: rest, vs =>
    match evalPExps A vs ps with
    | some sub =>
      (match inlineG A g loc sub with
       | some xs =>
         if loc.all (· < nv) then
           (match inlineBody A nv rest vs with
            | some ys => some (xs ++ ys)
            | none => none)
         else none
       | none => none)
    | none => none
end

theorem mkPrim_loc (A : Arith V) (b : BuiltinDef) (loc : List Nat) (vs : List V) (op : Op V)
    (h : mkPrim A b loc vs = some op) : op.loc = loc := by
  simp only [mkPrim] at h
  split at h <;> split at h
  all_goals first
    | (simp only [Option.some.injEq] at h; subst h; rfl)
    | simp at h

mutual
theorem buildOp_loc (A : Arith V) : ∀ (g : GDef V) (loc : List Nat) (vs : List V) (op : Op V),
    buildOp A g loc vs = some op → op.loc = loc
  | .builtin b, loc, vs, op, h => mkPrim_loc A b loc vs op (by simpa [buildOp] using h)
  | .custom name np nv body, loc, vs, op, h => by
    simp only [buildOp] at h
    split at h
    · split at h
      · simp only [Option.some.injEq] at h; subst h; rfl
      · simp at h
    · simp at h
end

mutual
/-- the nested operation the reader builds unfolds to the inlined body -/
theorem buildOp_inline (A : Arith V) :
    ∀ (g : GDef V) (loc : List Nat) (vs : List V) (op : Op V),
      buildOp A g loc vs = some op → inlineG A g loc vs = some op.flat
  | .builtin b, loc, vs, op, h => by
    simp only [buildOp] at h
    simp [inlineG, h]
  | .custom name np nv body, loc, vs, op, h => by
    simp only [buildOp] at h
    split at h
    · rename_i ops hops
      split at h
      · rename_i hc
        simp only [Option.some.injEq] at h
        subst h
        simp [inlineG, buildBody_inline A nv body vs ops hops, hc, Op.flat]
      · simp at h
    · simp at h
theorem buildBody_inline (A : Arith V) (nv : Nat) :
    ∀ (body : List (GBody V)) (vs : List V) (ops : List (Op V)),
      buildBody A nv body vs = some ops → inlineBody A nv body vs = some (flatList ops)
  | [], vs, ops, h => by
    simp only [buildBody, Option.some.injEq] at h
    subst h
    simp [inlineBody, flatList]
  | .mk g loc ps :: rest, vs, ops, h => by
    simp only [buildBody] at h
    split at h
    · rename_i sub hsub
      split at h
      · rename_i op hop
        have hl := buildOp_loc A g loc sub op hop
        split at h
        · rename_i hall
          split at h
          · rename_i ops' hops'
            simp only [Option.some.injEq] at h
            subst h
            rw [hl] at hall
            simp [inlineBody, hsub, buildOp_inline A g loc sub op hop, hall,
              buildBody_inline A nv rest vs ops' hops', flatList]
          · simp at h
        · simp at h
      · simp at h
    · simp at h
end

end BqVerif.Qasm
