import BqVerif.Proofs.RouteTrace
/-
C09 (and S4 of DESIGN.md §3.1): what a list of operations *denotes*, without matrices.
`Sem M` packages the only facts about "unitaries" that the routing theorems use: they form a
monoid (first applied operation = left factor), operations on disjoint qudits commute, and a
swap gate exchanges the roles of its two wires.
-/
namespace BqVerif.Route
open BqVerif.Circ (Op proj)

structure Sem (M : Type) where
  mul : M → M → M
  one : M
  mul_assoc : ∀ a b c, mul (mul a b) c = mul a (mul b c)
  one_mul : ∀ a, mul one a = a
  mul_one : ∀ a, mul a one = a
  /-- meaning of one operation -/
  sem : Op → M
  /-- the swap gate on wires `a`, `b` (what SABRE inserts: `SwapGate(radix)` at `(a, b)`) -/
  swapOp : Nat → Nat → Op
  /-- operations on disjoint qudits commute -/
  comm : ∀ a b : Op, (∀ q, q ∈ a.loc → q ∉ b.loc) → mul (sem a) (sem b) = mul (sem b) (sem a)
  /-- an operation followed by the swap of wires `a`,`b` is the swap followed by the same
  operation on the exchanged wires -/
  swap_law : ∀ (o : Op) (a b : Nat),
    mul (sem o) (sem (swapOp a b)) = mul (sem (swapOp a b)) (sem (relab (swapFn a b) o))

/-- denotation of an operation list: first applied operation is the leftmost factor -/
def Sem.den {M : Type} (S : Sem M) : List Op → M
  | [] => S.one
  | o :: r => S.mul (S.sem o) (S.den r)

theorem Sem.den_append {M : Type} (S : Sem M) (a b : List Op) :
    S.den (a ++ b) = S.mul (S.den a) (S.den b) := by
  induction a with
  | nil => simp [Sem.den, S.one_mul]
  | cons o r ih => simp [Sem.den, ih, S.mul_assoc]

end BqVerif.Route
