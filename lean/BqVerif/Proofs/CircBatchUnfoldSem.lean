import BqVerif.Proofs.CircUnfoldAll
import BqVerif.Proofs.CircBatchUnfold
/-! # `batch_unfold` keeps the unitary, whatever the points are (C04) -/
namespace BqVerif.Circ

/-- the fold body of `batch_unfold` -/
def buStep (b : Blocks) (acc : Circ × Except Err Unit) (x : Nat × Op) : Circ × Except Err Unit :=
  match acc.2 with
  | .error _ => acc
  | .ok () =>
    let k' := acc.1.seekOp x.2 x.2.head x.1 (acc.1.numCycles - x.1)
    acc.1.unfold b ((k' : Int), (x.2.head : Int))

/-- the list `batch_unfold` walks (from its end): the found operations, duplicates collapsed, by
cycle and then `location[0]` -/
def buSorted (c : Circ) (found : List (Nat × Nat × Op)) : List (Nat × Op) :=
  (List.range c.numCycles).flatMap (fun k =>
    (sortBy Op.head (((dedupOps (found.map (fun x => (x.1, x.2.2)))).filter (·.1 == k)).map
      (·.2))).map (fun o => (k, o)))

theorem batchUnfold_eq (c : Circ) (b : Blocks) (pts : List (Int × Int)) :
    c.batchUnfold b pts =
      match pts.mapM c.getOp with
      | .error e => (c, .error e)
      | .ok found => (buSorted c found).reverse.foldl (buStep b) (c, .ok ()) := by
  unfold Circ.batchUnfold
  cases pts.mapM c.getOp with
  | error e => rfl
  | ok found => rfl

theorem mem_of_proj_eq (l1 l2 : List Op) (h1 : ∀ x ∈ l1, x.loc ≠ [])
    (hp : ∀ q, proj q l1 = proj q l2) : ∀ x ∈ l1, x ∈ l2 := by
  intro x hx
  obtain ⟨q, hq⟩ := List.exists_mem_of_ne_nil _ (h1 x hx)
  have : x ∈ proj q l1 := (mem_proj q x l1).2 ⟨hx, hq⟩
  rw [hp q] at this
  exact ((mem_proj q x l2).1 this).1

theorem getOp_mem_ops (c : Circ) (p : Int × Int) (k q0 : Nat) (o : Op)
    (hg : c.getOp p = .ok (k, q0, o)) : o ∈ c.ops := by
  obtain ⟨hlt, hmem, _⟩ := getOp_ok c p k q0 o hg
  simp only [Circ.ops, List.mem_flatten]
  exact ⟨_, List.getElem_mem hlt, hmem⟩

/-- a failing `unfold` (no operation at the point, or not a block of the table) changes nothing -/
theorem unfold_unchanged (c : Circ) (b : Blocks) (p : Int × Int)
    (h : (∃ e, c.getOp p = .error e) ∨
      ∃ k q0 o, c.getOp p = .ok (k, q0, o) ∧ b.body? o.gid = none) :
    (c.unfold b p).1 = c ∧ ∃ e, (c.unfold b p).2 = .error e := by
  rcases h with ⟨e, he⟩ | ⟨k, q0, o, hg, hb⟩
  · have : c.unfold b p = (c, .error e) := by unfold Circ.unfold; rw [he]
    rw [this]; exact ⟨rfl, e, rfl⟩
  · have : c.unfold b p = (c, .error .value) := by unfold Circ.unfold; rw [hg]; simp only [hb]
    rw [this]; exact ⟨rfl, .value, rfl⟩

/-- a successful `unfold` keeps the blocks fitting: the new operations are relabelled body
operations, which fit because the table is hereditarily well-formed -/
theorem unfold_fits (c : Circ) (hinv : c.Inv) (b : Blocks) (hb : b.HF) (hfit : Fits b c)
    (p : Int × Int) (k q0 : Nat) (o : Op) (body : Circ)
    (hg : c.getOp p = .ok (k, q0, o)) (hbody : b.body? o.gid = some body) :
    Fits b (c.unfold b p).1 := by
  have ho : o ∈ c.ops := getOp_mem_ops c p k q0 o hg
  have hbinv := (hb _ body hbody).1
  have hfo := hfit o ho body hbody
  obtain ⟨hlt, inner, _, hinvU, hne, hinner, _, hafter⟩ :=
    unfold_timeline c hinv b p k q0 o body hg hbody hbinv hfo
  have hcyk := List.getElem_mem hlt
  intro x hx
  obtain ⟨q, hq⟩ := List.exists_mem_of_ne_nil _ (mem_ops_wf _ hinvU x hx).1
  have hxt : x ∈ (c.unfold b p).1.timeline q := (mem_proj q x _).2 ⟨hx, hq⟩
  rw [hafter q] at hxt
  have hold : ∀ y, y ∈ c.ops → ∀ body', b.body? y.gid = some body' → body'.radixes = y.rad :=
    fun y hy => hfit y hy
  simp only [List.mem_append] at hxt
  rcases hxt with ((hxt | hxt) | hxt) | hxt
  · have := ((mem_proj q x _).1 hxt).1
    apply hold
    simp only [Circ.ops, List.mem_flatten] at this ⊢
    obtain ⟨cy, hcy, hxc⟩ := this
    exact ⟨cy, List.mem_of_mem_take hcy, hxc⟩
  · have hxi := ((mem_proj q x _).1 hxt).1
    have hxe := mem_of_proj_eq inner _ hne hinner x hxi
    have he : expandFlat b o = (distribute body.iter o.par).map (·.mapLoc o.loc) := by
      simp [expandFlat, hbody]
    exact expandFlat_fits b hb o (hfit o ho) x (he ▸ hxe)
  · have := ((mem_proj q x _).1 hxt).1
    apply hold
    simp only [Circ.ops, List.mem_flatten]
    exact ⟨_, hcyk, (List.mem_filter.mp this).1⟩
  · have := ((mem_proj q x _).1 hxt).1
    apply hold
    simp only [Circ.ops, List.mem_flatten] at this ⊢
    obtain ⟨cy, hcy, hxc⟩ := this
    exact ⟨cy, List.mem_of_mem_drop hcy, hxc⟩

variable {M : Type} [Monoid M]

/-- **one `unfold`, any point**: `Inv`, the fitting of blocks and the denotation survive — the
call either fails without touching the circuit or succeeds and replaces the block by its body. -/
theorem unfold_any_point (sem : Op → M)
    (hcomm : ∀ a b, Indep a b → sem a * sem b = sem b * sem a) (b : Blocks) (hb : b.HF)
    (hblock : ∀ o inner, expandOp b o = some inner → sem o = den sem inner)
    (c : Circ) (hinv : c.Inv) (hfit : Fits b c) (p : Int × Int) :
    (c.unfold b p).1.Inv ∧ Fits b (c.unfold b p).1 ∧
      den sem (c.unfold b p).1.iter = den sem c.iter := by
  cases hg : c.getOp p with
  | error e =>
    rw [(unfold_unchanged c b p (Or.inl ⟨e, hg⟩)).1]; exact ⟨hinv, hfit, rfl⟩
  | ok r =>
    obtain ⟨k, q0, o⟩ := r
    cases hbody : b.body? o.gid with
    | none =>
      rw [(unfold_unchanged c b p (Or.inr ⟨k, q0, o, hg, hbody⟩)).1]; exact ⟨hinv, hfit, rfl⟩
    | some body =>
      have ho : o ∈ c.ops := getOp_mem_ops c p k q0 o hg
      obtain ⟨_, h2, h3⟩ := unfold_same_den sem hcomm b hblock c hinv p k q0 o body hg hbody
        (hb _ body hbody).1 (hfit o ho body hbody)
      exact ⟨h2, unfold_fits c hinv b hb hfit p k q0 o body hg hbody, h3⟩

theorem buStep_fold_den (sem : Op → M)
    (hcomm : ∀ a b, Indep a b → sem a * sem b = sem b * sem a) (b : Blocks) (hb : b.HF)
    (hblock : ∀ o inner, expandOp b o = some inner → sem o = den sem inner)
    (l : List (Nat × Op)) (acc : Circ × Except Err Unit) (hinv : acc.1.Inv)
    (hfit : Fits b acc.1) :
    (l.foldl (buStep b) acc).1.Inv ∧ Fits b (l.foldl (buStep b) acc).1 ∧
      den sem (l.foldl (buStep b) acc).1.iter = den sem acc.1.iter := by
  induction l generalizing acc with
  | nil => exact ⟨hinv, hfit, rfl⟩
  | cons x xs ih =>
    simp only [List.foldl_cons]
    have hstep : (buStep b acc x).1.Inv ∧ Fits b (buStep b acc x).1 ∧
        den sem (buStep b acc x).1.iter = den sem acc.1.iter := by
      unfold buStep
      split
      · exact ⟨hinv, hfit, rfl⟩
      · exact unfold_any_point sem hcomm b hb hblock acc.1 hinv hfit _
    obtain ⟨h1, h2, h3⟩ := ih (buStep b acc x) hstep.1 hstep.2.1
    exact ⟨h1, h2, by rw [h3, hstep.2.2]⟩

/-- **`batch_unfold` keeps the unitary** for ANY list of points (valid or not, blocks or not,
duplicates or not; whether the batch completes or stops midway with an error): `Inv`, the fitting
of blocks and the denotation are those of the circuit before the call. -/
theorem batchUnfold_same_den (sem : Op → M)
    (hcomm : ∀ a b, Indep a b → sem a * sem b = sem b * sem a) (b : Blocks) (hb : b.HF)
    (hblock : ∀ o inner, expandOp b o = some inner → sem o = den sem inner)
    (c : Circ) (hinv : c.Inv) (hfit : Fits b c) (pts : List (Int × Int)) :
    (c.batchUnfold b pts).1.Inv ∧ Fits b (c.batchUnfold b pts).1 ∧
      den sem (c.batchUnfold b pts).1.iter = den sem c.iter := by
  rw [batchUnfold_eq]
  split
  · exact ⟨hinv, hfit, rfl⟩
  · exact buStep_fold_den sem hcomm b hb hblock _ (c, .ok ()) hinv hfit

end BqVerif.Circ
