import BqVerif.Model.FineWake
/-! The reachable set of the source-line model with the lock is closed (checked once, by kernel
    evaluation), hence every schedule stays inside it. -/
namespace BqVerif.FineWake

theorem reach_closed : ∀ l ∈ reach, stepMain true l ∈ reach ∧ stepInc true l ∈ reach := by
  decide +kernel

theorem reach_init : ({} : FState) ∈ reach := by decide +kernel

theorem run_reach (sc : List Bool) : ∀ l, l ∈ reach → runL l sc ∈ reach := by
  induction sc with
  | nil => intro l hl; exact hl
  | cons b t ih =>
    intro l hl
    cases b
    · exact ih _ (reach_closed l hl).2
    · exact ih _ (reach_closed l hl).1

theorem run_append (a b : List Bool) : ∀ l, runL l (a ++ b) = runL (runL l a) b := by
  induction a with
  | nil => intro l; rfl
  | cons x t ih => intro l; exact ih _

end BqVerif.FineWake
