import BqVerif.Proofs.Wake
import BqVerif.Proofs.DeadAddr
import BqVerif.Proofs.IntegrityNet
/-!
# The wake discipline on the flat network

Discharge of the first environment assumption of `Proofs/Wake.lean` (arriving tasks are new to the
worker and have not run) from token uniqueness; the invariant `NInv` of the whole network.
-/
namespace BqVerif.Runtime

-- ------------------------------------------------------- what a loop iteration emits
/-- a predicate on messages that holds for everything a loop iteration of worker `id` can append
    to its output when children are created at or above counter `c0` and the task at `a0` runs -/
structure OutP (P : Msg → Prop) (id : Int) (c0 : Nat) (a0 : Option Addr) : Prop where
  sub : ∀ t, t.fresh → t.addr.w = id → c0 ≤ t.addr.m → P (.submit t)
  batch : ∀ ts, (∀ t ∈ ts, t.fresh ∧ t.addr.w = id ∧ c0 ≤ t.addr.m) → P (.batch ts)
  cancel : ∀ a, P (.cancel a)
  waiting : ∀ n r, P (.waiting n r)
  error : ∀ c cls, P (.error c cls)
  sysError : ∀ cls, P (.sysError cls)
  update : ∀ d, P (.update d)
  result : ∀ a v b, a0 = some a → P (.result a v b)

theorem mkChild_emitted (w : Worker) (t : Task) (m slot p k : Nat) (c0 : Nat) (h : c0 ≤ m) :
    (mkChild w t m slot p k).fresh ∧ (mkChild w t m slot p k).addr.w = w.id
      ∧ c0 ≤ (mkChild w t m slot p k).addr.m :=
  ⟨⟨rfl, rfl, rfl⟩, rfl, h⟩

theorem pick_outP {P : Msg → Prop} {id : Int} {c0 : Nat} {a0 : Option Addr} (hP : OutP P id c0 a0)
    (fuel : Nat) (w : Worker) : ∀ msg ∈ (Worker.pick fuel w).out, P msg := by
  induction fuel generalizing w with
  | zero => intro msg h; simp [Worker.pick] at h
  | succ n ih =>
    simp only [Worker.pick]
    split
    · split
      · exact ih _
      · intro msg h
        simp only [List.mem_singleton] at h
        subst h; exact hP.waiting _ _
    · split
      · exact ih _
      · split
        · exact ih _
        · split
          · exact ih _
          · intro msg h; simp at h

theorem cancelBox_outP {P : Msg → Prop} {id : Int} {c0 : Nat} {a0 : Option Addr} (hP : OutP P id c0 a0)
    (r : Run) (m : Nat) (b : Box)
    (h : ∀ msg ∈ r.out, P msg) : ∀ msg ∈ (r.cancelBox m b).out, P msg := by
  intro msg hm
  simp only [Run.cancelBox, List.mem_append, List.mem_map] at hm
  rcases hm with hm | ⟨i, _, rfl⟩
  · exact h msg hm
  · exact hP.cancel _

theorem outP_append {P : Msg → Prop} {l : List Msg} (h : ∀ msg ∈ l, P msg) (x : Msg)
    (hx : P x) : ∀ msg ∈ l ++ [x], P msg := by
  intro msg hm
  rcases List.mem_append.1 hm with hm | hm
  · exact h msg hm
  · simp only [List.mem_singleton] at hm; subst hm; exact hx

theorem runBody_outP {P : Msg → Prop} {c0 : Nat} {a0 : Option Addr} (tbl : Table) (fuel : Nat) (r : Run)
    (hP : OutP P r.w.id c0 a0) (hc : c0 ≤ r.w.counter) (h : ∀ msg ∈ r.out, P msg) :
    (∀ msg ∈ (runBody tbl fuel r).1.out, P msg) := by
  induction fuel generalizing r with
  | zero => exact h
  | succ n ih =>
    simp only [runBody]
    split
    · rename_i p _
      exact ih { r with
          w := { r.w with counter := r.w.counter + 1, boxes := r.w.boxes ++ [(r.w.counter, Box.new none)] },
          t := { r.t with owned := r.t.owned ++ [r.w.counter], futs := r.t.futs ++ [r.w.counter], pc := r.t.pc + 1 },
          out := r.out ++ [Msg.submit (mkChild r.w r.t r.w.counter 0 p r.t.futs.length)],
          evs := r.evs ++ [Ev.spawn r.t.tag r.t.futs.length r.w.counter] }
        hP (Nat.le_succ_of_le hc)
        (outP_append h _ (hP.sub _ ⟨rfl, rfl, rfl⟩ rfl hc))
    · split
      · exact h
      · rename_i ps _ _
        exact ih { r with
            w := { r.w with counter := r.w.counter + 1,
                            boxes := r.w.boxes ++ [(r.w.counter, Box.new (some ps.length))] },
            t := { r.t with owned := r.t.owned ++ [r.w.counter], futs := r.t.futs ++ [r.w.counter], pc := r.t.pc + 1 },
            out := r.out ++ [Msg.batch ((enumFrom 0 ps).map (fun ip => mkChild r.w r.t r.w.counter ip.1 ip.2 r.t.futs.length))],
            evs := r.evs ++ [Ev.spawn r.t.tag r.t.futs.length r.w.counter] }
          hP (Nat.le_succ_of_le hc)
          (outP_append h _ (hP.batch _ (by
              intro t ht
              obtain ⟨ip, _, rfl⟩ := List.mem_map.1 ht
              exact mkChild_emitted r.w r.t _ _ _ _ c0 hc)))
    · split <;> exact h
    · split
      · exact h
      · split <;> exact h
    · split
      · exact h
      · split
        · exact h
        · split
          · exact h
          · rename_i k _ _ m _ _ b _ _
            exact ih { ({ w := r.w, t := r.t, out := r.out, evs := r.evs ++ [Ev.cancel r.t.tag k] } : Run).cancelBox m b with
                t := { (({ w := r.w, t := r.t, out := r.out, evs := r.evs ++ [Ev.cancel r.t.tag k] } : Run).cancelBox m b).t with pc := r.t.pc + 1 } }
              hP hc (cancelBox_outP hP { w := r.w, t := r.t, out := r.out, evs := r.evs ++ [Ev.cancel r.t.tag k] } m b h)
    · exact h
    · exact h

/-- what `runBody` leaves alone -/
theorem runBody_fixed (tbl : Table) (fuel : Nat) (r : Run) :
    (runBody tbl fuel r).1.w.tasks = r.w.tasks ∧ (runBody tbl fuel r).1.w.delayed = r.w.delayed
    ∧ (runBody tbl fuel r).1.w.ready = r.w.ready ∧ (runBody tbl fuel r).1.t.addr = r.t.addr
    ∧ (runBody tbl fuel r).1.w.id = r.w.id := by
  induction fuel generalizing r with
  | zero => exact ⟨rfl, rfl, rfl, rfl, rfl⟩
  | succ n ih =>
    simp only [runBody]
    split
    · exact ih _
    · split
      · exact ⟨rfl, rfl, rfl, rfl, rfl⟩
      · exact ih _
    · split <;> exact ⟨rfl, rfl, rfl, rfl, rfl⟩
    · split
      · exact ⟨rfl, rfl, rfl, rfl, rfl⟩
      · split <;> exact ⟨rfl, rfl, rfl, rfl, rfl⟩
    · split
      · exact ⟨rfl, rfl, rfl, rfl, rfl⟩
      · split
        · exact ⟨rfl, rfl, rfl, rfl, rfl⟩
        · split
          · exact ⟨rfl, rfl, rfl, rfl, rfl⟩
          · exact ih _
    · exact ⟨rfl, rfl, rfl, rfl, rfl⟩
    · exact ⟨rfl, rfl, rfl, rfl, rfl⟩

theorem completionLoop_outP {P : Msg → Prop} {id : Int} {c0 : Nat} {a0 : Option Addr} (hP : OutP P id c0 a0)
    (ms : List Nat) (r : Run)
    (h : ∀ msg ∈ r.out, P msg) : ∀ msg ∈ (completionLoop ms r).1.out, P msg := by
  induction ms generalizing r with
  | nil => exact h
  | cons m ms ih =>
    simp only [completionLoop]
    split
    · split
      · exact ih _ h
      · exact ih _ (cancelBox_outP hP r m _ h)
    · exact h

theorem completionLoop_fixed (ms : List Nat) (r : Run) :
    (completionLoop ms r).1.w.tasks = r.w.tasks ∧ (completionLoop ms r).1.w.delayed = r.w.delayed
    ∧ (completionLoop ms r).1.w.ready = r.w.ready := by
  induction ms generalizing r with
  | nil => exact ⟨rfl, rfl, rfl⟩
  | cons m ms ih =>
    simp only [completionLoop]
    split
    · split
      · exact ih _
      · exact ih _
    · exact ⟨rfl, rfl, rfl⟩

theorem finishStep_outP {P : Msg → Prop} {id : Int} {c0 : Nat} (r : Run) (oc : Outcome)
    (hP : OutP P id c0 (some r.t.addr))
    (h : ∀ msg ∈ r.out, P msg) : ∀ msg ∈ (finishStep r oc).out, P msg := by
  cases oc with
  | awaitF m nxt =>
    simp only [finishStep]
    split
    · rename_i r1 h1
      rw [(processAwait_tables r r1 m nxt h1).2.2.1]; exact h
    · split
      · exact h
      · exact outP_append h _ (hP.error _ _)
  | done v =>
    have hc : ∀ msg ∈ (processCompletion r v).1.out, P msg := by
      unfold processCompletion
      split
      · exact h
      · apply completionLoop_outP hP
        unfold completionEnter
        split
        · exact outP_append h _ (hP.update _)
        · exact outP_append h _ (hP.result _ _ _ rfl)
    simp only [finishStep]
    split
    · exact outP_append hc _ (hP.sysError _)
    · exact hc
  | err cls isRt =>
    simp only [finishStep, bubbleErr]
    split
    · exact h
    · exact outP_append h _ (hP.error _ _)

theorem desiredResult_fixed (w w' : Worker) (t t' : Task) (v : Option Val)
    (h : desiredResult w t = .ok (w', t', v)) : w'.ready = w.ready ∧ t'.addr = t.addr ∧ w'.id = w.id := by
  unfold desiredResult at h
  split at h
  · simp only [Except.ok.injEq, Prod.mk.injEq] at h; rw [← h.1, ← h.2.1]; exact ⟨rfl, rfl, rfl⟩
  · split at h
    · simp at h
    · split at h
      · split at h
        · simp at h
        · simp only [Except.ok.injEq, Prod.mk.injEq] at h; rw [← h.1, ← h.2.1]; exact ⟨rfl, rfl, rfl⟩
      · split at h
        · simp at h
        · split at h
          · simp at h
          · simp only [Except.ok.injEq, Prod.mk.injEq] at h; rw [← h.1, ← h.2.1]; exact ⟨rfl, rfl, rfl⟩

theorem stepTask_outP {P : Msg → Prop} {c0 : Nat} (tbl : Table) (w : Worker) (out : List Msg) (t0 : Task)
    (hP : OutP P w.id c0 (some t0.addr)) (hc : c0 ≤ w.counter)
    (h : ∀ msg ∈ out, P msg) : ∀ msg ∈ (stepTask tbl w out t0).out, P msg := by
  unfold stepTask
  split
  · exact outP_append h _ (hP.error _ _)
  · rename_i w1 t1 val hd
    have hm := desiredResult_mono w w1 t0 t1 val hd
    obtain ⟨_, ea, eid⟩ := desiredResult_fixed w w1 t0 t1 val hd
    split
    · simp only [bubbleErr]
      split
      · exact h
      · exact outP_append h _ (hP.error _ _)
    · have hfix := runBody_fixed tbl ((tbl.getD t1.prog []).length + 2)
        { w := w1, t := (resume tbl t1 val).1, out := out, evs := (resume tbl t1 val).2 }
      have hP1 : OutP P ({ w := w1, t := (resume tbl t1 val).1, out := out, evs := (resume tbl t1 val).2 } : Run).w.id
          c0 (some t0.addr) := by show OutP P w1.id c0 _; rw [eid]; exact hP
      have hb := runBody_outP tbl ((tbl.getD t1.prog []).length + 2)
        { w := w1, t := (resume tbl t1 val).1, out := out, evs := (resume tbl t1 val).2 } hP1
        (Nat.le_trans hc hm.ctr) h
      have ha : (runBody tbl ((tbl.getD t1.prog []).length + 2)
        { w := w1, t := (resume tbl t1 val).1, out := out, evs := (resume tbl t1 val).2 }).1.t.addr = t0.addr := by
        rw [hfix.2.2.2.1]; exact (resume_fields tbl t1 val).1.trans ea
      exact finishStep_outP (id := w.id) (c0 := c0) _ _ (by rw [ha]; exact hP) hb

/-- every message a loop iteration sends satisfies `P` -/
theorem step_outP {P : Msg → Prop} (tbl : Table) (w : Worker)
    (hP : ∀ a0, (Worker.pick w.pickFuel { w with blocked := false }).task.map (·.addr) = a0 →
      OutP P w.id w.counter a0) :
    ∀ msg ∈ (w.step tbl).out, P msg := by
  unfold Worker.step
  dsimp only
  have hm := pick_mono w.pickFuel { w with blocked := false }
  split
  · rename_i hn
    exact pick_outP (hP none (by rw [hn]; rfl)) _ _
  · rename_i t0 ht0
    have hP0 := hP (some t0.addr) (by rw [ht0]; rfl)
    have := stepTask_outP tbl (Worker.pick w.pickFuel { w with blocked := false }).w
      (Worker.pick w.pickFuel { w with blocked := false }).out t0 (by rw [hm.id]; exact hP0) hm.ctr
      (pick_outP hP0 _ _)
    exact this

-- ------------------------------------------------------- where ready entries come from
/-- entries of the ready queue after some work of a worker: old entries, or addresses of tasks the
    worker held; the worker gains no task token -/
structure RS (w w' : Worker) : Prop where
  rdy : ∀ a ∈ w'.ready, a ∈ w.ready ∨ 0 < tokW a w
  tok : ∀ a, tokW a w' ≤ tokW a w

theorem RS.refl (w : Worker) : RS w w := ⟨fun _ h => Or.inl h, fun _ => Nat.le_refl _⟩

theorem RS.trans {a b c : Worker} (h1 : RS a b) (h2 : RS b c) : RS a c := by
  refine ⟨?_, fun x => Nat.le_trans (h2.tok x) (h1.tok x)⟩
  intro x hx
  rcases h2.rdy x hx with h | h
  · exact h1.rdy x h
  · exact Or.inr (Nat.lt_of_lt_of_le h (h1.tok x))

theorem RS.of_same {w w' : Worker} (ht : w'.tasks = w.tasks) (hd : w'.delayed = w.delayed)
    (hr : w'.ready = w.ready) : RS w w' :=
  ⟨fun a h => Or.inl (hr ▸ h), fun a => by simp only [tokW, ht, hd]; exact Nat.le_refl _⟩

theorem cntA_pos_of_mem (l : List Task) (t : Task) (h : t ∈ l) : 0 < cntA t.addr l := by
  have := le_sumBy_of_mem (fun x : Task => if x.addr = t.addr then 1 else 0) l t h
  simp only [if_true] at this
  exact this

theorem pick_rs (fuel : Nat) (w : Worker) : RS w (Worker.pick fuel w).w := by
  induction fuel generalizing w with
  | zero => exact RS.refl w
  | succ n ih =>
    simp only [Worker.pick]
    split
    · split
      · rename_i t ht
        refine RS.trans ?_ (ih _)
        have h1 := fun a => cntA_dropLast_getLast a w.delayed t ht
        refine ⟨?_, ?_⟩
        · intro a ha
          simp only [Worker.addTask, List.mem_append, List.mem_singleton] at ha
          rcases ha with ha | ha
          · exact Or.inl ha
          · right
            have := h1 a
            simp only [tokW]
            rw [ha] at this ⊢
            simp only [if_true] at this
            omega
        · intro a
          have h2 := tokW_addTask_le a { w with delayed := w.delayed.dropLast } t
          have := h1 a
          simp only [tokW] at h2 ⊢
          omega
      · exact RS.of_same rfl rfl rfl
    · rename_i a rest hr
      have h0 : RS w { w with ready := rest } :=
        ⟨fun x hx => Or.inl (by rw [hr]; exact List.mem_cons_of_mem _ hx), fun _ => Nat.le_refl _⟩
      split
      · exact h0.trans (ih _)
      · split
        · exact h0.trans (ih _)
        · split
          · refine (h0.trans ?_).trans (ih _)
            exact ⟨fun x hx => Or.inl hx, fun x => by
              simp only [tokW]
              have := cntA_taskErase_le x w.tasks a
              omega⟩
          · exact h0

theorem finishStep_rs (r : Run) (oc : Outcome) (hmem : ∃ x ∈ r.w.tasks, x.addr = r.t.addr) :
    RS r.w (finishStep r oc).w := by
  obtain ⟨x, hx, hxa⟩ := hmem
  have hpos : 0 < tokW r.t.addr r.w := by
    have := cntA_pos_of_mem _ _ hx
    rw [hxa] at this
    simp only [tokW]; omega
  have hset : ∀ (t' : Task), RS r.w { r.w with tasks := taskSet r.w.tasks t' } := fun t' =>
    ⟨fun a h => Or.inl h, fun a => by simp only [tokW, cntA_taskSet]; exact Nat.le_refl _⟩
  cases oc with
  | awaitF m nxt =>
    simp only [finishStep]
    split
    · rename_i r1 h1
      obtain ⟨e1, e2, _, e4⟩ := processAwait_tables r r1 m nxt h1
      refine ⟨?_, fun a => by simp only [tokW, cntA_taskSet, e1, e2]; exact Nat.le_refl _⟩
      intro a ha
      have ha' : a ∈ r1.w.ready := ha
      unfold processAwait at h1
      split at h1
      · simp at h1
      · simp only [Option.some.injEq] at h1
        rw [← h1] at ha'
        dsimp only at ha'
        split at ha'
        · rcases List.mem_append.1 ha' with h | h
          · exact Or.inl h
          · simp only [List.mem_singleton] at h
            rw [h]; exact Or.inr hpos
        · exact Or.inl ha'
    · split <;> exact hset _
  | done v =>
    have hc : RS r.w (processCompletion r v).1.w := by
      unfold processCompletion
      split
      · exact RS.refl _
      · obtain ⟨l1, l2, l3⟩ := completionLoop_fixed r.t.owned (completionEnter r v)
        refine RS.trans ?_ (RS.of_same l1 l2 l3)
        unfold completionEnter
        split
        · obtain ⟨t1, t2⟩ := handleResult_tables r.w r.t.addr v
          refine ⟨?_, ?_⟩
          · intro a ha
            have ha' : a ∈ (r.w.handleResult r.t.addr v).ready := ha
            unfold Worker.handleResult at ha'
            split at ha'
            · exact Or.inl ha'
            · split at ha'
              · exact Or.inl ha'
              · dsimp only at ha'
                split at ha'
                · exact Or.inl ha'
                · split at ha'
                  · exact Or.inl ha'
                  · rename_i d _ t hg
                    split at ha'
                    · rcases List.mem_append.1 ha' with h | h
                      · exact Or.inl h
                      · simp only [List.mem_singleton] at h
                        right
                        have := cntA_pos_of_mem _ _ (taskGet_mem _ _ _ hg)
                        rw [taskGet_addr _ _ _ hg] at this
                        rw [h]; simp only [tokW]; omega
                    · exact Or.inl ha'
          · intro a
            simp only [tokW, t1, t2]
            have := cntA_taskErase_le a r.w.tasks r.t.addr
            omega
        · exact ⟨fun a h => Or.inl h, fun a => by
            simp only [tokW]
            have := cntA_taskErase_le a r.w.tasks r.t.addr
            omega⟩
    simp only [finishStep]
    split
    · exact hc.trans (RS.of_same rfl rfl rfl)
    · exact hc
  | err cls isRt =>
    simp only [finishStep, bubbleErr]
    split <;> exact hset _

theorem desiredResult_rs (w w' : Worker) (t t' : Task) (v : Option Val)
    (h : desiredResult w t = .ok (w', t', v)) : RS w w' :=
  RS.of_same (desiredResult_tables w w' t t' v h).1 (desiredResult_tables w w' t t' v h).2
    (desiredResult_fixed w w' t t' v h).1

theorem stepTask_rs (tbl : Table) (w : Worker) (out : List Msg) (t0 : Task)
    (hmem : taskGet w.tasks t0.addr = some t0) : RS w (stepTask tbl w out t0).w := by
  unfold stepTask
  split
  · exact RS.refl _
  · rename_i w1 t1 val hd
    have h1 := desiredResult_rs w w1 t0 t1 val hd
    obtain ⟨e1, _⟩ := desiredResult_tables w w1 t0 t1 val hd
    split
    · refine h1.trans ?_
      simp only [bubbleErr]
      split <;> exact ⟨fun a h => Or.inl h, fun a => by simp only [tokW, cntA_taskSet]; exact Nat.le_refl _⟩
    · have hfix := runBody_fixed tbl ((tbl.getD t1.prog []).length + 2)
        { w := w1, t := (resume tbl t1 val).1, out := out, evs := (resume tbl t1 val).2 }
      refine h1.trans ((RS.of_same hfix.1 hfix.2.1 hfix.2.2.1).trans (finishStep_rs _ _ ?_))
      refine ⟨t0, ?_, ?_⟩
      · rw [hfix.1]; show t0 ∈ w1.tasks; rw [e1]; exact taskGet_mem _ _ _ hmem
      · rw [hfix.2.2.2.1]
        exact ((resume_fields tbl t1 val).1.trans (desiredResult_fixed w w1 t0 t1 val hd).2.1).symm

/-- ready entries after a loop iteration are old entries or addresses of tasks the worker held -/
theorem step_rs (tbl : Table) (w : Worker) : RS w (w.step tbl).w := by
  have h0 : RS w { w with blocked := false } := RS.of_same rfl rfl rfl
  have hp := pick_rs w.pickFuel { w with blocked := false }
  unfold Worker.step
  dsimp only
  split
  · exact h0.trans hp
  · rename_i t0 ht0
    exact (h0.trans hp).trans (stepTask_rs tbl _ _ t0 (pick_task_mem _ _ _ ht0))

-- ------------------------------------------------------- a returned task is not queued
def notNewResult (out0 : List Msg) (msg : Msg) : Prop := ∀ a v b, msg = .result a v b → msg ∈ out0

theorem notNewResult_outP (out0 : List Msg) (id : Int) (c0 : Nat) :
    OutP (notNewResult out0) id c0 none where
  sub := by intro t _ _ _ a v b e; cases e
  batch := by intro ts _ a v b e; cases e
  cancel := by intro x a v b e; cases e
  waiting := by intro n r a v b e; cases e
  error := by intro c cls a v b e; cases e
  sysError := by intro cls a v b e; cases e
  update := by intro d a v b e; cases e
  result := by intro a v b h; cases h

theorem resultIs_outP (id : Int) (c0 : Nat) (a0 : Option Addr) :
    OutP (fun msg => ∀ a v b, msg = Msg.result a v b → a0 = some a) id c0 a0 where
  sub := by intro t _ _ _ a v b e; cases e
  batch := by intro ts _ a v b e; cases e
  cancel := by intro x a v b e; cases e
  waiting := by intro n r a v b e; cases e
  error := by intro c cls a v b e; cases e
  sysError := by intro cls a v b e; cases e
  update := by intro d a v b e; cases e
  result := by intro x y z hx a v b e; cases e; exact hx

theorem stepTask_result_ready (tbl : Table) (w : Worker) (out : List Msg) (t0 : Task) (a : Addr) (v : Val)
    (b : Int) (h : Msg.result a v b ∈ (stepTask tbl w out t0).out) :
    Msg.result a v b ∈ out ∨ (stepTask tbl w out t0).w.ready = w.ready := by
  revert h
  unfold stepTask
  split
  · intro h
    rcases List.mem_append.1 h with h | h
    · exact Or.inl h
    · simp at h
  · rename_i w1 t1 val hd
    obtain ⟨er, _, _⟩ := desiredResult_fixed w w1 t0 t1 val hd
    split
    · simp only [bubbleErr]
      split
      · intro h; exact Or.inl h
      · intro h
        rcases List.mem_append.1 h with h | h
        · exact Or.inl h
        · simp at h
    · have hfix := runBody_fixed tbl ((tbl.getD t1.prog []).length + 2)
        { w := w1, t := (resume tbl t1 val).1, out := out, evs := (resume tbl t1 val).2 }
      have hb := runBody_outP (P := notNewResult out) (c0 := w1.counter) (a0 := none) tbl
        ((tbl.getD t1.prog []).length + 2)
        { w := w1, t := (resume tbl t1 val).1, out := out, evs := (resume tbl t1 val).2 }
        (notNewResult_outP out _ _) (Nat.le_refl _) (fun msg hm _ _ _ _ => hm)
      generalize (runBody tbl ((tbl.getD t1.prog []).length + 2)
        { w := w1, t := (resume tbl t1 val).1, out := out, evs := (resume tbl t1 val).2 }) = rb at hfix hb
      have old : Msg.result a v b ∈ rb.1.out → Msg.result a v b ∈ out :=
        fun hm => hb _ hm a v b rfl
      dsimp only
      cases hoc : rb.2 with
      | awaitF m nxt =>
        simp only [finishStep]
        split
        · rename_i r1 h1
          intro h
          rw [(processAwait_tables rb.1 r1 m nxt h1).2.2.1] at h
          exact Or.inl (old h)
        · split
          · intro h; exact Or.inl (old h)
          · intro h
            rcases List.mem_append.1 h with h | h
            · exact Or.inl (old h)
            · simp at h
      | err cls isRt =>
        simp only [finishStep, bubbleErr]
        split
        · intro h; exact Or.inl (old h)
        · intro h
          rcases List.mem_append.1 h with h | h
          · exact Or.inl (old h)
          · simp at h
      | done v' =>
        have key : Msg.result a v b ∈ (processCompletion rb.1 v').1.out →
            Msg.result a v b ∈ out ∨ (processCompletion rb.1 v').1.w.ready = w.ready := by
          unfold processCompletion
          split
          · intro h; exact Or.inl (old h)
          · have hl := completionLoop_outP (P := notNewResult (completionEnter rb.1 v').out)
              (id := 0) (c0 := 0) (a0 := none) (notNewResult_outP _ _ _) rb.1.t.owned (completionEnter rb.1 v')
              (fun msg hm _ _ _ _ => hm)
            obtain ⟨_, _, l3⟩ := completionLoop_fixed rb.1.t.owned (completionEnter rb.1 v')
            intro h
            have h' := hl _ h a v b rfl
            rw [l3]
            revert h'
            unfold completionEnter
            split
            · intro h'
              rcases List.mem_append.1 h' with h' | h'
              · exact Or.inl (old h')
              · simp at h'
            · intro _
              right
              show rb.1.w.ready = w.ready
              rw [hfix.2.2.1]; exact er
        simp only [finishStep]
        split
        · intro h
          rcases List.mem_append.1 h with h | h
          · exact key h
          · simp at h
        · exact key

/-- the address of a RESULT a loop iteration sends is not in the ready queue afterwards -/
theorem step_result_not_ready (tbl : Table) (w : Worker) (h : WInv none w) (a : Addr) (v : Val) (b : Int)
    (hr : Msg.result a v b ∈ (w.step tbl).out) : a ∉ (w.step tbl).w.ready := by
  have h0 : WInv none ({ w with blocked := false } : Worker) := h.congr rfl rfl rfl rfl rfl rfl
  have hp := pick_winv w.pickFuel _ h0
  have hP : ∀ a0, OutP (fun msg => ∀ a v b, msg = Msg.result a v b → a0 = some a) w.id w.counter a0 :=
    fun a0 => resultIs_outP _ _ a0
  revert hr
  unfold Worker.step
  dsimp only
  split
  · intro hr
    exact absurd hr (pick_out_noresult _ _ a v b)
  · rename_i t0 ht0
    intro hr
    have ha : some t0.addr = some a :=
      stepTask_outP (P := fun msg => ∀ a v b, msg = Msg.result a v b → some t0.addr = some a) (c0 := w.counter)
        tbl _ _ t0 (by rw [(pick_mono w.pickFuel { w with blocked := false }).id]; exact hP _)
        (pick_mono w.pickFuel { w with blocked := false }).ctr
        (pick_outP (hP _) _ _) _ hr a v b rfl
    rcases stepTask_result_ready tbl _ _ t0 a v b hr with h1 | h1
    · exact absurd h1 (pick_out_noresult _ _ a v b)
    · rw [h1]
      have := (hp.run t0 ht0).2.2.1
      rw [← Option.some.inj ha]
      exact this

-- ------------------------------------------------------- counters only grow
/-- mailbox counters of all nodes only grow along a transition of the flat network -/
theorem apply_ctr {n : Net} (h : GInv n) (t : Tr) :
    (∀ w' ∈ (n.apply t).net.workers, ∃ w ∈ n.workers, w.id = w'.id ∧ w.counter ≤ w'.counter)
    ∧ n.server.counter ≤ (n.apply t).net.server.counter := by
  cases t with
  | client j m dies =>
    simp only [Net.apply, Net.clientSend]
    cases m with
    | none => dsimp only; split <;> exact ⟨same_workers_ctr _, Nat.le_refl _⟩
    | some msg =>
      dsimp only
      split
      · exact ⟨by rw [show ({ (n.post (.client j) .server msg) with deadClients := _ } : Net).workers
            = (n.post (.client j) .server msg).workers from rfl, (post_fields _ _ _ _).1]; exact same_workers_ctr _,
          by rw [show ({ (n.post (.client j) .server msg) with deadClients := _ } : Net).server
            = (n.post (.client j) .server msg).server from rfl, (post_fields _ _ _ _).2.1]; exact Nat.le_refl _⟩
      · exact ⟨by rw [(post_fields _ _ _ _).1]; exact same_workers_ctr _,
          by rw [(post_fields _ _ _ _).2.1]; exact Nat.le_refl _⟩
  | step id =>
    simp only [Net.apply]
    unfold Net.workerStep
    split
    · exact ⟨same_workers_ctr _, Nat.le_refl _⟩
    · rename_i w hf
      obtain ⟨hw, hwid⟩ := find_worker_mem _ _ _ hf
      split
      · exact ⟨same_workers_ctr _, Nat.le_refl _⟩
      · dsimp only
        have hmono := step_mono n.tbl w
        have hid' : (if (w.step n.tbl).w.mainDead then { (w.step n.tbl).w with alive := false }
            else (w.step n.tbl).w).id = w.id := by split <;> simp [hmono.id]
        refine ⟨?_, by rw [(postAll_fields _ _ _).2.1]; exact Nat.le_refl _⟩
        intro w'' hw''
        rw [(postAll_fields _ _ _).1] at hw''
        rcases mem_setWorker _ _ _ hw'' with rfl | ⟨hm, _⟩
        · refine ⟨w, hw, hid'.symm, ?_⟩
          split <;> exact hmono.ctr
        · exact ⟨w'', hm, rfl, Nat.le_refl _⟩
  | deliver src dst asg ord died =>
    simp only [Net.apply]
    cases hk : chanGet n.chans (src, dst) with
    | nil => simp only [Net.deliver, hk]; exact ⟨same_workers_ctr _, Nat.le_refl _⟩
    | cons m rest =>
      cases dst with
      | wrk id =>
        simp only [Net.deliver, hk]
        split
        · exact ⟨same_workers_ctr _, Nat.le_refl _⟩
        · rename_i w hf
          obtain ⟨hw, hwid⟩ := find_worker_mem _ _ _ hf
          split
          · exact ⟨same_workers_ctr _, Nat.le_refl _⟩
          · have hmono := recv_mono w m
            refine ⟨?_, Nat.le_refl _⟩
            intro w'' hw''
            rcases mem_setWorker _ _ _ hw'' with rfl | ⟨hm, _⟩
            · exact ⟨w, hw, hmono.id.symm, hmono.ctr⟩
            · exact ⟨w'', hm, rfl, Nat.le_refl _⟩
      | client j =>
        simp only [Net.deliver, hk]
        split
        · exact ⟨same_workers_ctr _, Nat.le_refl _⟩
        · split
          · exact ⟨by rw [(post_fields _ _ _ _).1]; exact same_workers_ctr _,
              by rw [(post_fields _ _ _ _).2.1]; exact Nat.le_refl _⟩
          · exact ⟨same_workers_ctr _, Nat.le_refl _⟩
      | mgr i =>
        have : n.mgrs[i]? = none := by rw [h.flat]; rfl
        simp only [Net.deliver, hk, this]
        exact ⟨same_workers_ctr _, Nat.le_refl _⟩
      | server =>
        simp only [Net.deliver, hk]
        split
        · exact ⟨same_workers_ctr _, Nat.le_refl _⟩
        · exact ⟨by rw [(postAll_fields _ _ _).1]; exact same_workers_ctr _,
            by rw [(postAll_fields _ _ _).2.1]; exact (handle_counter n.server src m asg ord).1⟩

theorem freshA_apply_le {n : Net} (h : GInv n) (t : Tr) (a : Addr) :
    freshA a (n.apply t).net ≤ freshA a n :=
  freshA_mono a (apply_ctr h t).1 (apply_ctr h t).2

/-- an address that has a token was created -/
theorem freshA_zero_of_tok {n : Net} (h : GInv n) (a : Addr) (ht : 0 < Tok a n) : freshA a n = 0 := by
  apply freshA_zero
  · intro hs; exact h.freshS a hs ht
  · intro w hw haw; exact h.freshW w hw a haw ht

/-- tokens of a created address never increase -/
theorem Tok_apply_le_of_created {n : Net} (h : GInv n) (t : Tr) (hwf : t.wf) (a : Addr)
    (hf : freshA a n = 0) : Tok a (n.apply t).net ≤ Tok a n := by
  have := PsiA_apply h t hwf a
  simp only [PsiA] at this
  omega

-- ------------------------------------------------------- freshness of tasks in messages
/-- every task carried by the message has not run -/
def msgFresh : Msg → Prop
  | .submit t => t.fresh
  | .batch ts => ∀ t ∈ ts, t.fresh
  | _ => True

theorem msgFresh_outP (id : Int) (c0 : Nat) (a0 : Option Addr) : OutP msgFresh id c0 a0 where
  sub := by intro t h _ _; exact h
  batch := by intro ts h t ht; exact (h t ht).1
  cancel := by intro _; trivial
  waiting := by intro _ _; trivial
  error := by intro _ _; trivial
  sysError := by intro _; trivial
  update := by intro _; trivial
  result := by intro _ _ _ _; trivial

theorem step_out_fresh (tbl : Table) (w : Worker) : ∀ msg ∈ (w.step tbl).out, msgFresh msg :=
  step_outP tbl w (fun a0 _ => msgFresh_outP _ _ a0)

theorem msgFresh_of_noTok (m : Msg) (h : ∀ a, tokMsg a m = 0) : msgFresh m := by
  cases m with
  | submit t => have := h t.addr; simp [tokMsg] at this
  | batch ts =>
    intro t ht
    have := h t.addr
    have hp := cntA_pos_of_mem ts t ht
    simp only [tokMsg] at this
    omega
  | _ => trivial

theorem fresh_of_noTok (o : Out) (h : NoTok o) : ∀ dm ∈ o, msgFresh dm.2 := by
  intro dm hdm
  apply msgFresh_of_noTok
  intro a
  have := h a
  have h2 := le_sumBy_of_mem (fun dm : NodeId × Msg => tokMsg a dm.2) o dm hdm
  simp only [tokOut] at this
  omega

/-- outputs of a server handler carry only fresh tasks -/
def FOK (r : HOut Server) : Prop := ∀ dm ∈ r.direct ++ r.queued, msgFresh dm.2

theorem FOK.of_noTok {r : HOut Server} (h : HNoTok r) : FOK r := by
  intro dm hdm
  rcases List.mem_append.1 hdm with hd | hd
  · exact fresh_of_noTok _ h.1 dm hd
  · exact fresh_of_noTok _ h.2 dm hd

theorem mem_batchOf {α} (tasks : List α) (asg : List Nat) (K e : Nat) (x : α) (h : x ∈ batchOf tasks asg K e) :
    x ∈ tasks := by
  simp only [batchOf, List.mem_append, List.mem_map, List.mem_filter] at h
  rcases h with ⟨p, ⟨hp, _⟩, rfl⟩ | ⟨p, ⟨hp, _⟩, rfl⟩
  · exact (List.of_mem_zip (List.mem_of_mem_take hp)).1
  · exact (List.of_mem_zip (List.mem_of_mem_drop (List.mem_reverse.1 hp))).1

theorem mem_insDesc (x y : Nat × Int) (l : List (Nat × Int)) (h : y ∈ insDesc x l) : y = x ∨ y ∈ l := by
  induction l with
  | nil => simp [insDesc] at h; exact Or.inl h
  | cons z zs ih =>
    simp only [insDesc] at h
    split at h
    · rcases List.mem_cons.1 h with h | h
      · exact Or.inr (by rw [h]; exact List.mem_cons_self)
      · rcases ih h with h | h
        · exact Or.inl h
        · exact Or.inr (List.mem_cons_of_mem _ h)
    · rcases List.mem_cons.1 h with h | h
      · exact Or.inl h
      · exact Or.inr h

theorem schedule_tasks_sub (b : Boss) (ts : List Task) (asg : List Nat) :
    ∀ p ∈ (b.schedule ts asg).2, ∀ t ∈ p.2, t ∈ ts := by
  unfold Boss.schedule
  split
  · intro p hp; simp at hp
  · intro p hp t ht
    dsimp only at hp
    simp only [List.mem_filter, List.mem_map] at hp
    obtain ⟨⟨q, _, rfl⟩, _⟩ := hp
    exact mem_batchOf ts asg _ _ t ht

theorem Server.sched_fok (s : Server) (ts : List Task) (asg : List Nat) (h : ∀ t ∈ ts, t.fresh) :
    FOK (s.sched ts asg) := by
  unfold Server.sched
  split
  · intro dm hdm; simp at hdm
  · intro dm hdm
    simp only [List.nil_append, List.mem_map] at hdm
    obtain ⟨p, hp, rfl⟩ := hdm
    intro t ht
    exact h t (schedule_tasks_sub s.boss ts asg p hp t ht)

theorem fok_single (s : Server) (d : NodeId) (m : Msg) (hm : msgFresh m) (note : String) :
    FOK ({ st := s, queued := [(d, m)], note := note } : HOut Server) := by
  intro dm hdm
  simp only [List.nil_append, List.mem_singleton] at hdm
  subst hdm; exact hm

theorem fok_none (s : Server) (note : String) : FOK ({ st := s, note := note } : HOut Server) := by
  intro dm hdm; simp at hdm

theorem Server.result_fok (s : Server) (a : Addr) (v : Val) (by_ : Int) : FOK (s.result a v by_) := by
  unfold Server.result
  split
  · exact FOK.of_noTok (syserr_noTok _ _ _)
  · dsimp only
    split
    · split
      · exact fok_none _ _
      · split
        · exact FOK.of_noTok (syserr_noTok _ _ _)
        · split
          · split
            · exact FOK.of_noTok (syserr_noTok _ _ _)
            · split
              · exact FOK.of_noTok (syserr_noTok _ _ _)
              · split
                · exact FOK.of_noTok (syserr_noTok _ _ _)
                · exact fok_single _ _ (.sResult v) trivial _
          · exact fok_none _ _
    · split
      · exact FOK.of_noTok (syserr_noTok _ _ _)
      · split
        · exact FOK.of_noTok (syserr_noTok _ _ _)
        · exact fok_single _ _ (.result a v by_) trivial _

theorem fok_direct_only (s : Server) (o : Out) (h : NoTok o) (note : String) :
    FOK ({ st := s, direct := o, note := note } : HOut Server) := by
  intro dm hdm
  simp only [List.append_nil] at hdm
  exact fresh_of_noTok o h dm hdm

theorem Server.fromClient_fok (s : Server) (j : Nat) (m : Msg) (asg ord : List Nat) :
    FOK (s.fromClient j m asg ord) := by
  cases m with
  | cSubmit ci pid =>
    simp only [Server.fromClient]
    split
    · exact FOK.of_noTok (syserr_noTok _ _ _)
    · apply Server.sched_fok
      intro t ht
      simp only [List.mem_singleton] at ht
      subst ht
      exact ⟨rfl, rfl, rfl⟩
  | cRequest ci =>
    simp only [Server.fromClient]
    split
    · exact FOK.of_noTok (syserr_noTok _ _ _)
    · split
      · have hd := disconnect_noTok s j ord
        intro dm hdm
        simp only [List.mem_append, List.mem_cons, List.not_mem_nil, or_false] at hdm
        rcases hdm with (hdm | hdm) | hdm
        · rw [hdm]; trivial
        · exact fresh_of_noTok _ hd.1 dm hdm
        · exact fresh_of_noTok _ hd.2 dm hdm
      · split
        · exact FOK.of_noTok (syserr_noTok _ _ _)
        · split
          · exact FOK.of_noTok (syserr_noTok _ _ _)
          · split
            · exact fok_single _ _ (.sResult _) trivial _
            · exact fok_none _ _
  | cStatus ci =>
    simp only [Server.fromClient]
    split
    · exact FOK.of_noTok (syserr_noTok _ _ _)
    · split
      · exact fok_single _ _ (.sStatus 0) trivial _
      · split
        · exact FOK.of_noTok (syserr_noTok _ _ _)
        · split
          · exact FOK.of_noTok (syserr_noTok _ _ _)
          · exact fok_single _ _ (.sStatus _) trivial _
  | cCancel ci => exact FOK.of_noTok (cancelComp_noTok s ci (some j))
  | cDisconnect => exact FOK.of_noTok (disconnect_noTok s j ord)
  | eof => exact FOK.of_noTok (disconnect_noTok s j ord)
  | _ => exact FOK.of_noTok (syserr_noTok _ _ _)

theorem Server.fromBelow_fok (s : Server) (ei : Nat) (m : Msg) (asg : List Nat) (hm : msgFresh m) :
    FOK (s.fromBelow ei m asg) := by
  cases m with
  | submit t =>
    apply Server.sched_fok
    intro x hx
    simp only [List.mem_singleton] at hx
    subst hx; exact hm
  | batch ts => exact Server.sched_fok s ts asg hm
  | result a v by_ => exact Server.result_fok s a v by_
  | error comp cls =>
    simp only [Server.fromBelow]
    split
    · exact fok_none _ _
    · split
      · exact fok_none _ _
      · split
        · exact FOK.of_noTok (syserr_noTok _ _ _)
        · exact fok_single _ _ (.sError cls) trivial _
  | sysError cls => exact FOK.of_noTok (syserr_noTok _ _ _)
  | cancel a =>
    intro dm hdm
    simp only [Server.fromBelow, List.nil_append] at hdm
    exact fresh_of_noTok _ (noTok_broadcast_cancel s.boss a) dm hdm
  | shutdown => exact fok_direct_only _ _ (noTok_server_shutdown s) _
  | eof => exact fok_direct_only _ _ (noTok_server_shutdown s) _
  | waiting n r =>
    simp only [Server.fromBelow]
    split
    · exact fok_none _ _
    · exact FOK.of_noTok (syserr_noTok _ _ _)
    · exact FOK.of_noTok (syserr_noTok _ _ _)
    · exact FOK.of_noTok (syserr_noTok _ _ _)
  | update d => exact fok_none _ _
  | _ => exact FOK.of_noTok (syserr_noTok _ _ _)

theorem Server.handle_fok (s : Server) (src : NodeId) (m : Msg) (asg ord : List Nat) (hm : msgFresh m) :
    FOK (s.handle src m asg ord) := by
  unfold Server.handle
  split
  · split
    · exact fok_none _ _
    · exact Server.fromClient_fok s _ m asg ord
  · split
    · exact fok_none _ _
    · exact Server.fromBelow_fok s _ m asg hm

-- ------------------------------------------------------- incoming messages
theorem recv_ready_src (w : Worker) (m : Msg) :
    ∀ a ∈ (w.recv m).ready, a ∈ w.ready ∨ 0 < tokW a w ∨ 0 < tokMsg a m := by
  intro a ha
  cases m with
  | submit t =>
    simp only [Worker.recv, Worker.addTask, List.mem_append, List.mem_singleton] at ha
    rcases ha with ha | ha
    · exact Or.inl ha
    · right; right; simp [tokMsg, ha]
  | batch ts =>
    simp only [Worker.recv] at ha
    split at ha
    · exact Or.inl ha
    · rename_i last hl
      simp only [Worker.addTask, List.mem_append, List.mem_singleton] at ha
      rcases ha with ha | ha
      · exact Or.inl ha
      · right; right
        have hts := dropLast_getLast ts last hl
        have hmem : last ∈ ts := by rw [← hts]; simp
        have := cntA_pos_of_mem ts last hmem
        simp only [tokMsg]; rw [ha]; exact this
  | result x v by_ =>
    simp only [Worker.recv] at ha
    unfold Worker.handleResult at ha
    split at ha
    · exact Or.inl ha
    · split at ha
      · exact Or.inl ha
      · dsimp only at ha
        split at ha
        · exact Or.inl ha
        · split at ha
          · exact Or.inl ha
          · rename_i d _ t hg
            split at ha
            · rcases List.mem_append.1 ha with h | h
              · exact Or.inl h
              · simp only [List.mem_singleton] at h
                right; left
                have := cntA_pos_of_mem _ _ (taskGet_mem _ _ _ hg)
                rw [taskGet_addr _ _ _ hg] at this
                rw [h]; simp only [tokW]; omega
            · exact Or.inl ha
  | cancel x =>
    simp only [Worker.recv] at ha
    split at ha <;> exact Or.inl ha
  | shutdown => exact Or.inl ha
  | eof => exact Or.inl ha
  | error _ _ => exact Or.inl ha
  | sysError _ => exact Or.inl ha
  | waiting _ _ => exact Or.inl ha
  | update _ => exact Or.inl ha
  | cSubmit _ _ => exact Or.inl ha
  | cRequest _ => exact Or.inl ha
  | cStatus _ => exact Or.inl ha
  | cCancel _ => exact Or.inl ha
  | cDisconnect => exact Or.inl ha
  | sResult _ => exact Or.inl ha
  | sStatus _ => exact Or.inl ha
  | sCancelAck => exact Or.inl ha
  | sError _ => exact Or.inl ha

theorem not_mem_of_cntA_zero (l : List Task) (a : Addr) (h : cntA a l = 0) : a ∉ l.map (·.addr) := by
  intro hm
  obtain ⟨t, ht, rfl⟩ := List.mem_map.1 hm
  have := cntA_pos_of_mem l t ht
  omega

theorem nodup_of_cntA_le_one (l : List Task) (h : ∀ a, cntA a l ≤ 1) : (l.map (·.addr)).Nodup := by
  induction l with
  | nil => simp
  | cons x xs ih =>
    simp only [List.map_cons, List.nodup_cons]
    have hx := h x.addr
    simp only [cntA, sumBy, if_true] at hx
    refine ⟨not_mem_of_cntA_zero xs x.addr (by simp only [cntA]; omega), ih ?_⟩
    intro a
    have := h a
    simp only [cntA, sumBy] at this ⊢
    omega

/-- invariant of the flat network for the wake discipline -/
structure NInv (n : Net) : Prop where
  g : GInv n
  winv : ∀ w ∈ n.workers, WInv none w
  fresh : ChansAll msgFresh n
  rdy : ∀ w ∈ n.workers, ∀ a ∈ w.ready, freshA a n = 0 ∧ Tok a n ≤ tokW a w

/-- tokens of the head message and of the receiving worker are different tokens -/
theorem Tok_head_worker (a : Addr) (n : Net) (k : NodeId × NodeId) (m : Msg) (rest : List Msg)
    (hk : chanGet n.chans k = m :: rest) (w : Worker) (hw : w ∈ n.workers) :
    tokW a w + tokMsg a m ≤ Tok a n := by
  have h1 := Tok_pop a n k m rest hk
  have h2 := le_sumBy_of_mem (tokW a) n.workers w hw
  have h3 : sumBy (tokW a) n.workers ≤ Tok a { n with chans := chanSet n.chans k rest } := by
    simp only [Tok]; omega
  omega

/-- first environment assumption of the wake discipline, from token uniqueness -/
theorem NInv.okRecv {n : Net} (h : NInv n) (k : NodeId × NodeId) (m : Msg) (rest : List Msg)
    (hk : chanGet n.chans k = m :: rest) (w : Worker) (hw : w ∈ n.workers)
    (hres : ∀ a v b, m = .result a v b → a.w = w.id → ∀ bx, boxGet w.boxes a.m = some bx → bx.ready = false) :
    w.okRecv m := by
  have hfr := (h.fresh.pop k m rest hk).2
  have unknown : ∀ a, 0 < tokMsg a m → ¬ w.knows a := by
    intro a ha hkn
    have h1 := Tok_head_worker a n k m rest hk w hw
    have h2 := h.g.uniq a
    have hz : tokW a w = 0 := by omega
    simp only [tokW] at hz
    rcases hkn with hkn | hkn | hkn
    · exact not_mem_of_cntA_zero w.tasks a (by omega) hkn
    · have := (h.rdy w hw a hkn).2
      simp only [tokW] at this
      omega
    · exact not_mem_of_cntA_zero w.delayed a (by omega) hkn
  cases m with
  | submit t => exact ⟨hfr, unknown t.addr (by simp [tokMsg])⟩
  | batch ts =>
    refine ⟨nodup_of_cntA_le_one ts ?_, fun t ht => ⟨hfr t ht, unknown t.addr ?_⟩⟩
    · intro a
      have h1 := Tok_head_worker a n k _ rest hk w hw
      have h2 := h.g.uniq a
      simp only [tokMsg] at h1
      omega
    · simp only [tokMsg]; exact cntA_pos_of_mem ts t ht
  | result a v b => exact hres a v b rfl
  | _ => trivial

theorem freshA_zero_worker {n : Net} (a : Addr) (hf : freshA a n = 0) (w : Worker) (hw : w ∈ n.workers) :
    ¬ (w.id = a.w ∧ w.counter ≤ a.m) := by
  intro hc
  simp only [freshA] at hf
  split at hf
  · cases hf
  · rename_i hn
    apply hn
    right
    simp only [List.any_eq_true, Bool.and_eq_true, beq_iff_eq, decide_eq_true_eq]
    exact ⟨w, hw, hc⟩

/-- re-establish the invariant after a transition: the channels carry fresh tasks, and every
    worker is an old one or satisfies its part -/
theorem NInv.mk' {n : Net} (h : NInv n) (t : Tr) (hwf : t.wf)
    (hfresh : ChansAll msgFresh (n.apply t).net)
    (hwk : ∀ w' ∈ (n.apply t).net.workers, w' ∈ n.workers ∨
      (WInv none w' ∧ ∀ a ∈ w'.ready, freshA a (n.apply t).net = 0 ∧ Tok a (n.apply t).net ≤ tokW a w')) :
    NInv (n.apply t).net := by
  refine ⟨h.g.apply t hwf, ?_, hfresh, ?_⟩
  · intro w' hw'
    rcases hwk w' hw' with h1 | h1
    · exact h.winv w' h1
    · exact h1.1
  · intro w' hw' a ha
    rcases hwk w' hw' with h1 | h1
    · obtain ⟨f, tk⟩ := h.rdy w' h1 a ha
      have := freshA_apply_le h.g t a
      have := Tok_apply_le_of_created h.g t hwf a f
      exact ⟨by omega, by omega⟩
    · exact h1.2 a ha

/-- the second environment assumption, per transition: no result is deposited into a complete
    mailbox -/
def Net.depositOK (n : Net) : Tr → Prop
  | .deliver src (.wrk id) _ _ _ => ∀ w, n.workers.find? (fun w => w.id == id) = some w →
      ∀ a v b rest, chanGet n.chans (src, .wrk id) = Msg.result a v b :: rest → a.w = w.id →
        ∀ bx, boxGet w.boxes a.m = some bx → bx.ready = false
  | .step id => ∀ w, n.workers.find? (fun w => w.id == id) = some w → w.okStep n.tbl
  | _ => True

theorem NInv.clientSend {n : Net} (h : NInv n) (j : Nat) (m : Option Msg) (dies : Bool)
    (hwf : (Tr.client j m dies).wf) : NInv (n.apply (.client j m dies)).net := by
  apply h.mk' _ hwf
  · simp only [Net.apply, Net.clientSend]
    cases m with
    | none => dsimp only; split <;> exact h.fresh
    | some msg =>
      have hp : ChansAll msgFresh (n.post (.client j) .server msg) :=
        h.fresh.post _ _ _ (msgFresh_of_noTok msg hwf)
      dsimp only
      split
      · exact hp
      · exact hp
  · intro w' hw'
    left
    simp only [Net.apply, Net.clientSend] at hw'
    cases m with
    | none =>
      dsimp only at hw'
      split at hw' <;> exact hw'
    | some msg =>
      dsimp only at hw'
      split at hw'
      · have e : ({ (n.post (.client j) .server msg) with deadClients := (n.post (.client j) .server msg).deadClients ++ [j] } : Net).workers
            = (n.post (.client j) .server msg).workers := rfl
        rw [e, (post_fields _ _ _ _).1] at hw'; exact hw'
      · rw [(post_fields _ _ _ _).1] at hw'; exact hw'

/-- messages a loop iteration sends carry no token of an address that is queued afterwards -/
theorem step_out_no_ready_tok (tbl : Table) (w : Worker) (hW : WInv none w) (a : Addr)
    (hcr : ¬ (w.id = a.w ∧ w.counter ≤ a.m)) (ha : a ∈ (w.step tbl).w.ready) :
    tokMsgs a (w.step tbl).out = 0 := by
  apply sumBy_zero
  intro msg hmsg
  have hP : ∀ a0, OutP (fun msg => (∃ x v b, msg = Msg.result x v b) ∨ tokMsg a msg = 0) w.id w.counter a0 :=
    fun a0 =>
    { sub := by
        intro t _ h1 h2
        right
        simp only [tokMsg]
        split
        · rename_i e; exact absurd ⟨by rw [← e]; exact h1.symm, by rw [← e]; exact h2⟩ hcr
        · rfl
      batch := by
        intro ts hts
        right
        simp only [tokMsg]
        apply sumBy_zero
        intro t ht
        split
        · rename_i e
          exact absurd ⟨by rw [← e]; exact (hts t ht).2.1.symm, by rw [← e]; exact (hts t ht).2.2⟩ hcr
        · rfl
      cancel := by intro _; right; rfl
      waiting := by intro _ _; right; rfl
      error := by intro _ _; right; rfl
      sysError := by intro _; right; rfl
      update := by intro _; right; rfl
      result := by intro x v b _; left; exact ⟨x, v, b, rfl⟩ }
  rcases step_outP tbl w (fun a0 _ => hP a0) msg hmsg with ⟨x, v, b, rfl⟩ | h0
  · simp only [tokMsg]
    split
    · rename_i e
      subst e
      exact absurd ha (step_result_not_ready tbl w hW x v b hmsg)
    · rfl
  · exact h0

/-- the ready-queue clause for the worker that made a loop iteration -/
theorem NInv.rdy_after_step {n : Net} (h : NInv n) (w : Worker) (hw : w ∈ n.workers) (w'' : Worker)
    (hid : w''.id = w.id) (hready : w''.ready = (w.step n.tbl).w.ready)
    (htw : ∀ a, tokW a w'' = tokW a (w.step n.tbl).w) (boss src : NodeId) :
    ∀ a ∈ w''.ready, freshA a n = 0 ∧
      Tok a (({ n with workers := setWorker n.workers w'' } : Net).postAll src
        ((w.step n.tbl).out.map (fun m => (boss, m)))) ≤ tokW a w'' := by
  intro a ha
  rw [hready] at ha
  have hW := h.winv w hw
  have hrs := step_rs n.tbl w
  have hsrc : freshA a n = 0 ∧ Tok a n ≤ tokW a w := by
    rcases hrs.rdy a ha with h1 | h1
    · exact h.rdy w hw a h1
    · have h2 := le_sumBy_of_mem (tokW a) n.workers w hw
      have h3 := h.g.uniq a
      have h4 : sumBy (tokW a) n.workers ≤ Tok a n := by simp only [Tok]; omega
      exact ⟨freshA_zero_of_tok h.g a (by omega), by omega⟩
  have hcr := freshA_zero_worker a hsrc.1 w hw
  have hout := step_out_no_ready_tok n.tbl w hW a hcr ha
  refine ⟨hsrc.1, ?_⟩
  have hle := Tok_workerStep_le a n w w'' (w.step n.tbl).out boss src h.g.ids hw hid
  rw [htw a] at hle ⊢
  rw [hout] at hle
  omega

theorem NInv.workerStep {n : Net} (h : NInv n) (id : Int) (hdep : n.depositOK (.step id)) :
    NInv (n.apply (.step id)).net := by
  apply h.mk' (.step id) trivial
  · simp only [Net.apply]
    unfold Net.workerStep
    split
    · exact h.fresh
    · rename_i w hf
      split
      · exact h.fresh
      · dsimp only
        apply ChansAll.postAll
        · exact h.fresh
        · intro dm hdm
          obtain ⟨msg, hmsg, rfl⟩ := List.mem_map.1 hdm
          exact step_out_fresh n.tbl w msg hmsg
  · intro w' hw'
    have hfa := fun a => freshA_apply_le h.g (.step id) a
    simp only [Net.apply] at hw' hfa ⊢
    unfold Net.workerStep at hw' hfa ⊢
    split at hw'
    · exact Or.inl hw'
    · rename_i w hf
      obtain ⟨hw, hwid⟩ := find_worker_mem _ _ _ hf
      simp only [hf] at hfa ⊢
      split at hw'
      · exact Or.inl hw'
      · rename_i hen
        simp only [hen, Bool.false_eq_true, if_false] at hfa ⊢
        dsimp only at hw'
        rw [(postAll_fields _ _ _).1] at hw'
        rcases mem_setWorker _ _ _ hw' with rfl | ⟨hm, _⟩
        · right
          have hstep := step_winv n.tbl w (h.winv w hw) (hdep w hf)
          have hmono := step_mono n.tbl w
          have hid' : (if (w.step n.tbl).w.mainDead then { (w.step n.tbl).w with alive := false }
              else (w.step n.tbl).w).id = w.id := by split <;> simp [hmono.id]
          have hrdy : (if (w.step n.tbl).w.mainDead then { (w.step n.tbl).w with alive := false }
              else (w.step n.tbl).w).ready = (w.step n.tbl).w.ready := by split <;> rfl
          have htw : ∀ a, tokW a (if (w.step n.tbl).w.mainDead then { (w.step n.tbl).w with alive := false }
              else (w.step n.tbl).w) = tokW a (w.step n.tbl).w := by intro a; split <;> rfl
          have hWi : WInv none (if (w.step n.tbl).w.mainDead then { (w.step n.tbl).w with alive := false }
              else (w.step n.tbl).w) := by
            split
            · exact hstep.congr rfl rfl rfl rfl rfl rfl
            · exact hstep
          refine ⟨hWi, ?_⟩
          intro a ha
          have key := h.rdy_after_step w hw _ hid' hrdy htw
            (match n.mgrs.find? (fun g => g.boss.emps.any (fun e => e.id == id)) with
              | some g => NodeId.mgr g.idx
              | none => NodeId.server) (.wrk id) a ha
          have hfa' := hfa a
          exact ⟨by rw [key.1] at hfa'; exact Nat.le_zero.1 hfa', key.2⟩
        · exact Or.inl hm

/-- the ready-queue clause for the worker that received a message -/
theorem NInv.rdy_after_recv {n : Net} (h : NInv n) (w : Worker) (hw : w ∈ n.workers)
    (k : NodeId × NodeId) (m : Msg) (rest : List Msg) (hk : chanGet n.chans k = m :: rest) :
    ∀ a ∈ (w.recv m).ready, freshA a n = 0 ∧
      Tok a ({ n with chans := chanSet n.chans k rest, workers := setWorker n.workers (w.recv m) } : Net)
        ≤ tokW a (w.recv m) := by
  intro a ha
  have hhead := Tok_head_worker a n k m rest hk w hw
  have huniq := h.g.uniq a
  have hsrc : freshA a n = 0 ∧ Tok a n ≤ tokW a w + tokMsg a m := by
    rcases recv_ready_src w m a ha with h1 | h1 | h1
    · have := h.rdy w hw a h1
      exact ⟨this.1, by omega⟩
    · exact ⟨freshA_zero_of_tok h.g a (by omega), by omega⟩
    · exact ⟨freshA_zero_of_tok h.g a (by omega), by omega⟩
  refine ⟨hsrc.1, ?_⟩
  have g0 := h.g.pop k m rest hk
  have h1 := Tok_setWorker a { n with chans := chanSet n.chans k rest } w (w.recv m) g0.ids hw
    (recv_mono w m).id
  have h2 := Tok_pop a n k m rest hk
  have e : ({ ({ n with chans := chanSet n.chans k rest } : Net) with
      workers := setWorker ({ n with chans := chanSet n.chans k rest } : Net).workers (w.recv m) } : Net)
      = { n with chans := chanSet n.chans k rest, workers := setWorker n.workers (w.recv m) } := rfl
  rw [e] at h1
  omega

theorem NInv.deliver {n : Net} (h : NInv n) (src dst : NodeId) (asg ord : List Nat) (died : Bool)
    (hdep : n.depositOK (.deliver src dst asg ord died)) :
    NInv (n.apply (.deliver src dst asg ord died)).net := by
  apply h.mk' (.deliver src dst asg ord died) trivial
  · -- channels
    simp only [Net.apply]
    cases hk : chanGet n.chans (src, dst) with
    | nil => simp only [Net.deliver, hk]; exact h.fresh
    | cons m rest =>
      obtain ⟨hpop, hm⟩ := h.fresh.pop (src, dst) m rest hk
      cases dst with
      | wrk id =>
        simp only [Net.deliver, hk]
        split
        · exact hpop
        · split
          · exact hpop
          · exact hpop
      | client j =>
        simp only [Net.deliver, hk]
        split
        · exact hpop
        · split
          · exact ChansAll.post (n := { ({ n with chans := chanSet n.chans (src, .client j) rest } : Net) with
              deadClients := n.deadClients ++ [j] }) hpop _ _ _ trivial
          · exact hpop
      | mgr i =>
        have : n.mgrs[i]? = none := by rw [h.g.flat]; rfl
        simp only [Net.deliver, hk, this]
        exact hpop
      | server =>
        simp only [Net.deliver, hk]
        split
        · exact hpop
        · apply ChansAll.postAll (n := { ({ n with chans := chanSet n.chans (src, .server) rest } : Net) with
            server := (n.server.handle src m asg ord).st }) hpop
          intro dm hdm
          have hf := Server.handle_fok n.server src m asg ord hm
          rcases List.mem_append.1 hdm with hd | hd
          · exact hf dm (List.mem_append_left _ hd)
          · have : dm ∈ (n.server.handle src m asg ord).queued := by
              unfold flushServer at hd
              split at hd
              · cases hd
              · exact (List.mem_filter.1 hd).1
            exact hf dm (List.mem_append_right _ this)
  · -- workers
    intro w' hw'
    have hfa := fun a => freshA_apply_le h.g (.deliver src dst asg ord died) a
    simp only [Net.apply] at hw' hfa ⊢
    cases hk : chanGet n.chans (src, dst) with
    | nil => simp only [Net.deliver, hk] at hw'; exact Or.inl hw'
    | cons m rest =>
      cases dst with
      | wrk id =>
        simp only [Net.deliver, hk] at hw' hfa ⊢
        split at hw'
        · exact Or.inl hw'
        · rename_i w hf
          obtain ⟨hw, hwid⟩ := find_worker_mem _ _ _ hf
          simp only [hf] at hfa ⊢
          split at hw'
          · exact Or.inl hw'
          · rename_i hal
            simp only [hal, Bool.false_eq_true, if_false] at hfa ⊢
            rcases mem_setWorker _ _ _ hw' with rfl | ⟨hm, _⟩
            · right
              have hok : w.okRecv m := h.okRecv (src, .wrk id) m rest hk w hw (by
                intro a v b e haw bx hbx
                subst e
                exact hdep w hf a v b rest hk haw bx hbx)
              refine ⟨recv_winv w m (h.winv w hw) hok, ?_⟩
              intro a ha
              have key := h.rdy_after_recv w hw (src, .wrk id) m rest hk a ha
              have hfa' := hfa a
              exact ⟨by rw [key.1] at hfa'; exact Nat.le_zero.1 hfa', key.2⟩
            · exact Or.inl hm
      | client j =>
        simp only [Net.deliver, hk] at hw'
        split at hw'
        · exact Or.inl hw'
        · split at hw'
          · rw [(post_fields _ _ _ _).1] at hw'; exact Or.inl hw'
          · exact Or.inl hw'
      | mgr i =>
        have : n.mgrs[i]? = none := by rw [h.g.flat]; rfl
        simp only [Net.deliver, hk, this] at hw'
        exact Or.inl hw'
      | server =>
        simp only [Net.deliver, hk] at hw'
        split at hw'
        · exact Or.inl hw'
        · rw [(postAll_fields _ _ _).1] at hw'; exact Or.inl hw'

/-- **the invariant is kept by every transition** in which no result is deposited into a complete
    mailbox -/
theorem NInv.apply {n : Net} (h : NInv n) (t : Tr) (hwf : t.wf) (hdep : n.depositOK t) :
    NInv (n.apply t).net := by
  cases t with
  | deliver s d asg ord died => exact h.deliver s d asg ord died hdep
  | step id => exact h.workerStep id hdep
  | client j m dies => exact h.clientSend j m dies hwf

/-- no result is deposited into a complete mailbox along the run -/
def Net.depositsOK : Net → List Tr → Prop
  | _, [] => True
  | n, t :: ts => n.depositOK t ∧ Net.depositsOK (n.apply t).net ts

theorem NInv.exec {n : Net} (h : NInv n) (trs : List Tr) (hwf : ∀ t ∈ trs, t.wf)
    (hdep : n.depositsOK trs) : NInv (n.exec trs) := by
  induction trs generalizing n with
  | nil => exact h
  | cons t ts ih =>
    simp only [Net.exec, List.foldl_cons]
    exact ih (h.apply t (hwf t List.mem_cons_self) hdep.1)
      (fun t' ht' => hwf t' (List.mem_cons_of_mem _ ht')) hdep.2

theorem NInv.init (tbl : Table) (att : Bool) (nw nc : Nat) : NInv (Net.initFlat tbl att nw nc) := by
  refine ⟨GInv.init tbl att nw nc, ?_, ?_, ?_⟩
  · intro w hw
    simp only [Net.initFlat, mkWorkers, List.mem_map] at hw
    obtain ⟨i, _, rfl⟩ := hw
    exact winv_init _ rfl rfl rfl rfl
  · intro c hc
    simp [Net.initFlat] at hc
  · intro w hw a ha
    simp only [Net.initFlat, mkWorkers, List.mem_map] at hw
    obtain ⟨i, _, rfl⟩ := hw
    cases ha

-- executable form (for concrete runs)
def Net.depositOKB (n : Net) : Tr → Bool
  | .deliver src (.wrk id) _ _ _ =>
    match n.workers.find? (fun w => w.id == id), chanGet n.chans (src, .wrk id) with
    | some w, .result a _ _ :: _ =>
      decide (a.w ≠ w.id) || (match boxGet w.boxes a.m with
        | some bx => !bx.ready
        | none => true)
    | _, _ => true
  | .step id =>
    match n.workers.find? (fun w => w.id == id) with
    | some w => w.okStepB n.tbl
    | none => true
  | _ => true

def Net.depositsOKB : Net → List Tr → Bool
  | _, [] => true
  | n, t :: ts => n.depositOKB t && Net.depositsOKB (n.apply t).net ts

theorem depositOKB_sound (n : Net) (t : Tr) (h : n.depositOKB t = true) : n.depositOK t := by
  cases t with
  | deliver src dst asg ord died =>
    cases dst with
    | wrk id =>
      intro w hf a v b rest hk haw bx hbx
      simp only [Net.depositOKB, hf, hk, hbx, Bool.or_eq_true, decide_eq_true_eq, Bool.not_eq_true'] at h
      rcases h with h | h
      · exact absurd haw h
      · exact h
    | _ => trivial
  | step id =>
    intro w hf
    simp only [Net.depositOKB, hf] at h
    exact okStepB_sound n.tbl w h
  | client _ _ _ => trivial

theorem depositsOKB_sound (n : Net) (trs : List Tr) (h : n.depositsOKB trs = true) : n.depositsOK trs := by
  induction trs generalizing n with
  | nil => trivial
  | cons t ts ih =>
    simp only [Net.depositsOKB, Bool.and_eq_true] at h
    exact ⟨depositOKB_sound n t h.1, ih _ h.2⟩

end BqVerif.Runtime
