import BqVerif.Proofs.Wake
import BqVerif.Proofs.DeadAddr
import BqVerif.Proofs.IntegrityNet
/-!
# The wake discipline on the flat network

Discharge of the first environment assumption of `Proofs/Wake.lean` (arriving tasks are new to the
worker and have not run) from token uniqueness; the invariant `NInv` of the whole network.
-/
namespace BqVerif.Runtime

-- ------------------------------------------------------- what a loop iteration emits
/-- a predicate on messages that holds for everything a loop iteration of worker `id` can append
    to its output when children are created at or above counter `c0` and the task at `a0` runs -/
structure OutP (P : Msg → Prop) (id : Int) (c0 : Nat) (a0 : Option Addr) : Prop where
  sub : ∀ t, t.fresh → t.addr.w = id → c0 ≤ t.addr.m → P (.submit t)
  batch : ∀ ts, (∀ t ∈ ts, t.fresh ∧ t.addr.w = id ∧ c0 ≤ t.addr.m) → P (.batch ts)
  cancel : ∀ a, P (.cancel a)
  waiting : ∀ n r, P (.waiting n r)
  error : ∀ c cls, P (.error c cls)
  sysError : ∀ cls, P (.sysError cls)
  update : ∀ d, P (.update d)
  result : ∀ a v b, a0 = some a → P (.result a v b)

theorem mkChild_emitted (w : Worker) (t : Task) (m slot p k : Nat) (c0 : Nat) (h : c0 ≤ m) :
    (mkChild w t m slot p k).fresh ∧ (mkChild w t m slot p k).addr.w = w.id
      ∧ c0 ≤ (mkChild w t m slot p k).addr.m :=
  ⟨⟨rfl, rfl, rfl⟩, rfl, h⟩

theorem pick_outP {P : Msg → Prop} {id : Int} {c0 : Nat} {a0 : Option Addr} (hP : OutP P id c0 a0)
    (fuel : Nat) (w : Worker) : ∀ msg ∈ (Worker.pick fuel w).out, P msg := by
  induction fuel generalizing w with
  | zero => intro msg h; simp [Worker.pick] at h
  | succ n ih =>
    simp only [Worker.pick]
    split
    · split
      · exact ih _
      · intro msg h
        simp only [List.mem_singleton] at h
        subst h; exact hP.waiting _ _
    · split
      · exact ih _
      · split
        · exact ih _
        · split
          · exact ih _
          · intro msg h; simp at h

theorem cancelBox_outP {P : Msg → Prop} {id : Int} {c0 : Nat} {a0 : Option Addr} (hP : OutP P id c0 a0)
    (r : Run) (m : Nat) (b : Box)
    (h : ∀ msg ∈ r.out, P msg) : ∀ msg ∈ (r.cancelBox m b).out, P msg := by
  intro msg hm
  simp only [Run.cancelBox, List.mem_append, List.mem_map] at hm
  rcases hm with hm | ⟨i, _, rfl⟩
  · exact h msg hm
  · exact hP.cancel _

theorem outP_append {P : Msg → Prop} {l : List Msg} (h : ∀ msg ∈ l, P msg) (x : Msg)
    (hx : P x) : ∀ msg ∈ l ++ [x], P msg := by
  intro msg hm
  rcases List.mem_append.1 hm with hm | hm
  · exact h msg hm
  · simp only [List.mem_singleton] at hm; subst hm; exact hx

theorem runBody_outP {P : Msg → Prop} {c0 : Nat} {a0 : Option Addr} (tbl : Table) (fuel : Nat) (r : Run)
    (hP : OutP P r.w.id c0 a0) (hc : c0 ≤ r.w.counter) (h : ∀ msg ∈ r.out, P msg) :
    (∀ msg ∈ (runBody tbl fuel r).1.out, P msg) := by
  induction fuel generalizing r with
  | zero => exact h
  | succ n ih =>
    simp only [runBody]
    split
    · rename_i p _
      exact ih { r with
          w := { r.w with counter := r.w.counter + 1, boxes := r.w.boxes ++ [(r.w.counter, Box.new none)] },
          t := { r.t with owned := r.t.owned ++ [r.w.counter], futs := r.t.futs ++ [r.w.counter], pc := r.t.pc + 1 },
          out := r.out ++ [Msg.submit (mkChild r.w r.t r.w.counter 0 p r.t.futs.length)],
          evs := r.evs ++ [Ev.spawn r.t.tag r.t.futs.length r.w.counter] }
        hP (Nat.le_succ_of_le hc)
        (outP_append h _ (hP.sub _ ⟨rfl, rfl, rfl⟩ rfl hc))
    · split
      · exact h
      · rename_i ps _ _
        exact ih { r with
            w := { r.w with counter := r.w.counter + 1,
                            boxes := r.w.boxes ++ [(r.w.counter, Box.new (some ps.length))] },
            t := { r.t with owned := r.t.owned ++ [r.w.counter], futs := r.t.futs ++ [r.w.counter], pc := r.t.pc + 1 },
            out := r.out ++ [Msg.batch ((enumFrom 0 ps).map (fun ip => mkChild r.w r.t r.w.counter ip.1 ip.2 r.t.futs.length))],
            evs := r.evs ++ [Ev.spawn r.t.tag r.t.futs.length r.w.counter] }
          hP (Nat.le_succ_of_le hc)
          (outP_append h _ (hP.batch _ (by
              intro t ht
              obtain ⟨ip, _, rfl⟩ := List.mem_map.1 ht
              exact mkChild_emitted r.w r.t _ _ _ _ c0 hc)))
    · split <;> exact h
    · split
      · exact h
      · split <;> exact h
    · split
      · exact h
      · split
        · exact h
        · split
          · exact h
          · rename_i k _ _ m _ _ b _ _
            exact ih { ({ w := r.w, t := r.t, out := r.out, evs := r.evs ++ [Ev.cancel r.t.tag k] } : Run).cancelBox m b with
                t := { (({ w := r.w, t := r.t, out := r.out, evs := r.evs ++ [Ev.cancel r.t.tag k] } : Run).cancelBox m b).t with pc := r.t.pc + 1 } }
              hP hc (cancelBox_outP hP { w := r.w, t := r.t, out := r.out, evs := r.evs ++ [Ev.cancel r.t.tag k] } m b h)
    · exact h
    · exact h

/-- what `runBody` leaves alone -/
theorem runBody_fixed (tbl : Table) (fuel : Nat) (r : Run) :
    (runBody tbl fuel r).1.w.tasks = r.w.tasks ∧ (runBody tbl fuel r).1.w.delayed = r.w.delayed
    ∧ (runBody tbl fuel r).1.w.ready = r.w.ready ∧ (runBody tbl fuel r).1.t.addr = r.t.addr
    ∧ (runBody tbl fuel r).1.w.id = r.w.id := by
  induction fuel generalizing r with
  | zero => exact ⟨rfl, rfl, rfl, rfl, rfl⟩
  | succ n ih =>
    simp only [runBody]
    split
    · exact ih _
    · split
      · exact ⟨rfl, rfl, rfl, rfl, rfl⟩
      · exact ih _
    · split <;> exact ⟨rfl, rfl, rfl, rfl, rfl⟩
    · split
      · exact ⟨rfl, rfl, rfl, rfl, rfl⟩
      · split <;> exact ⟨rfl, rfl, rfl, rfl, rfl⟩
    · split
      · exact ⟨rfl, rfl, rfl, rfl, rfl⟩
      · split
        · exact ⟨rfl, rfl, rfl, rfl, rfl⟩
        · split
          · exact ⟨rfl, rfl, rfl, rfl, rfl⟩
          · exact ih _
    · exact ⟨rfl, rfl, rfl, rfl, rfl⟩
    · exact ⟨rfl, rfl, rfl, rfl, rfl⟩

theorem completionLoop_outP {P : Msg → Prop} {id : Int} {c0 : Nat} {a0 : Option Addr} (hP : OutP P id c0 a0)
    (ms : List Nat) (r : Run)
    (h : ∀ msg ∈ r.out, P msg) : ∀ msg ∈ (completionLoop ms r).1.out, P msg := by
  induction ms generalizing r with
  | nil => exact h
  | cons m ms ih =>
    simp only [completionLoop]
    split
    · split
      · exact ih _ h
      · exact ih _ (cancelBox_outP hP r m _ h)
    · exact h

theorem completionLoop_fixed (ms : List Nat) (r : Run) :
    (completionLoop ms r).1.w.tasks = r.w.tasks ∧ (completionLoop ms r).1.w.delayed = r.w.delayed
    ∧ (completionLoop ms r).1.w.ready = r.w.ready := by
  induction ms generalizing r with
  | nil => exact ⟨rfl, rfl, rfl⟩
  | cons m ms ih =>
    simp only [completionLoop]
    split
    · split
      · exact ih _
      · exact ih _
    · exact ⟨rfl, rfl, rfl⟩

theorem finishStep_outP {P : Msg → Prop} {id : Int} {c0 : Nat} (r : Run) (oc : Outcome)
    (hP : OutP P id c0 (some r.t.addr))
    (h : ∀ msg ∈ r.out, P msg) : ∀ msg ∈ (finishStep r oc).out, P msg := by
  cases oc with
  | awaitF m nxt =>
    simp only [finishStep]
    split
    · rename_i r1 h1
      rw [(processAwait_tables r r1 m nxt h1).2.2.1]; exact h
    · split
      · exact h
      · exact outP_append h _ (hP.error _ _)
  | done v =>
    have hc : ∀ msg ∈ (processCompletion r v).1.out, P msg := by
      unfold processCompletion
      split
      · exact h
      · apply completionLoop_outP hP
        unfold completionEnter
        split
        · exact outP_append h _ (hP.update _)
        · exact outP_append h _ (hP.result _ _ _ rfl)
    simp only [finishStep]
    split
    · exact outP_append hc _ (hP.sysError _)
    · exact hc
  | err cls isRt =>
    simp only [finishStep, bubbleErr]
    split
    · exact h
    · exact outP_append h _ (hP.error _ _)

theorem desiredResult_fixed (w w' : Worker) (t t' : Task) (v : Option Val)
    (h : desiredResult w t = .ok (w', t', v)) : w'.ready = w.ready ∧ t'.addr = t.addr ∧ w'.id = w.id := by
  unfold desiredResult at h
  split at h
  · simp only [Except.ok.injEq, Prod.mk.injEq] at h; rw [← h.1, ← h.2.1]; exact ⟨rfl, rfl, rfl⟩
  · split at h
    · simp at h
    · split at h
      · split at h
        · simp at h
        · simp only [Except.ok.injEq, Prod.mk.injEq] at h; rw [← h.1, ← h.2.1]; exact ⟨rfl, rfl, rfl⟩
      · split at h
        · simp at h
        · split at h
          · simp at h
          · simp only [Except.ok.injEq, Prod.mk.injEq] at h; rw [← h.1, ← h.2.1]; exact ⟨rfl, rfl, rfl⟩

theorem stepTask_outP {P : Msg → Prop} {c0 : Nat} (tbl : Table) (w : Worker) (out : List Msg) (t0 : Task)
    (hP : OutP P w.id c0 (some t0.addr)) (hc : c0 ≤ w.counter)
    (h : ∀ msg ∈ out, P msg) : ∀ msg ∈ (stepTask tbl w out t0).out, P msg := by
  unfold stepTask
  split
  · exact outP_append h _ (hP.error _ _)
  · rename_i w1 t1 val hd
    have hm := desiredResult_mono w w1 t0 t1 val hd
    obtain ⟨_, ea, eid⟩ := desiredResult_fixed w w1 t0 t1 val hd
    split
    · simp only [bubbleErr]
      split
      · exact h
      · exact outP_append h _ (hP.error _ _)
    · have hfix := runBody_fixed tbl ((tbl.getD t1.prog []).length + 2)
        { w := w1, t := (resume tbl t1 val).1, out := out, evs := (resume tbl t1 val).2 }
      have hP1 : OutP P ({ w := w1, t := (resume tbl t1 val).1, out := out, evs := (resume tbl t1 val).2 } : Run).w.id
          c0 (some t0.addr) := by show OutP P w1.id c0 _; rw [eid]; exact hP
      have hb := runBody_outP tbl ((tbl.getD t1.prog []).length + 2)
        { w := w1, t := (resume tbl t1 val).1, out := out, evs := (resume tbl t1 val).2 } hP1
        (Nat.le_trans hc hm.ctr) h
      have ha : (runBody tbl ((tbl.getD t1.prog []).length + 2)
        { w := w1, t := (resume tbl t1 val).1, out := out, evs := (resume tbl t1 val).2 }).1.t.addr = t0.addr := by
        rw [hfix.2.2.2.1]; exact (resume_fields tbl t1 val).1.trans ea
      exact finishStep_outP (id := w.id) (c0 := c0) _ _ (by rw [ha]; exact hP) hb

/-- every message a loop iteration sends satisfies `P` -/
theorem step_outP {P : Msg → Prop} (tbl : Table) (w : Worker)
    (hP : ∀ a0, (Worker.pick w.pickFuel { w with blocked := false }).task.map (·.addr) = a0 →
      OutP P w.id w.counter a0) :
    ∀ msg ∈ (w.step tbl).out, P msg := by
  unfold Worker.step
  dsimp only
  have hm := pick_mono w.pickFuel { w with blocked := false }
  split
  · rename_i hn
    exact pick_outP (hP none (by rw [hn]; rfl)) _ _
  · rename_i t0 ht0
    have hP0 := hP (some t0.addr) (by rw [ht0]; rfl)
    have := stepTask_outP tbl (Worker.pick w.pickFuel { w with blocked := false }).w
      (Worker.pick w.pickFuel { w with blocked := false }).out t0 (by rw [hm.id]; exact hP0) hm.ctr
      (pick_outP hP0 _ _)
    exact this

-- ------------------------------------------------------- where ready entries come from
/-- entries of the ready queue after some work of a worker: old entries, or addresses of tasks the
    worker held; the worker gains no task token -/
structure RS (w w' : Worker) : Prop where
  rdy : ∀ a ∈ w'.ready, a ∈ w.ready ∨ 0 < tokW a w
  tok : ∀ a, tokW a w' ≤ tokW a w

theorem RS.refl (w : Worker) : RS w w := ⟨fun _ h => Or.inl h, fun _ => Nat.le_refl _⟩

theorem RS.trans {a b c : Worker} (h1 : RS a b) (h2 : RS b c) : RS a c := by
  refine ⟨?_, fun x => Nat.le_trans (h2.tok x) (h1.tok x)⟩
  intro x hx
  rcases h2.rdy x hx with h | h
  · exact h1.rdy x h
  · exact Or.inr (Nat.lt_of_lt_of_le h (h1.tok x))

theorem RS.of_same {w w' : Worker} (ht : w'.tasks = w.tasks) (hd : w'.delayed = w.delayed)
    (hr : w'.ready = w.ready) : RS w w' :=
  ⟨fun a h => Or.inl (hr ▸ h), fun a => by simp only [tokW, ht, hd]; exact Nat.le_refl _⟩

theorem cntA_pos_of_mem (l : List Task) (t : Task) (h : t ∈ l) : 0 < cntA t.addr l := by
  have := le_sumBy_of_mem (fun x : Task => if x.addr = t.addr then 1 else 0) l t h
  simp only [if_true] at this
  exact this

theorem pick_rs (fuel : Nat) (w : Worker) : RS w (Worker.pick fuel w).w := by
  induction fuel generalizing w with
  | zero => exact RS.refl w
  | succ n ih =>
    simp only [Worker.pick]
    split
    · split
      · rename_i t ht
        refine RS.trans ?_ (ih _)
        have h1 := fun a => cntA_dropLast_getLast a w.delayed t ht
        refine ⟨?_, ?_⟩
        · intro a ha
          simp only [Worker.addTask, List.mem_append, List.mem_singleton] at ha
          rcases ha with ha | ha
          · exact Or.inl ha
          · right
            have := h1 a
            simp only [tokW]
            rw [ha] at this ⊢
            simp only [if_true] at this
            omega
        · intro a
          have h2 := tokW_addTask_le a { w with delayed := w.delayed.dropLast } t
          have := h1 a
          simp only [tokW] at h2 ⊢
          omega
      · exact RS.of_same rfl rfl rfl
    · rename_i a rest hr
      have h0 : RS w { w with ready := rest } :=
        ⟨fun x hx => Or.inl (by rw [hr]; exact List.mem_cons_of_mem _ hx), fun _ => Nat.le_refl _⟩
      split
      · exact h0.trans (ih _)
      · split
        · exact h0.trans (ih _)
        · split
          · refine (h0.trans ?_).trans (ih _)
            exact ⟨fun x hx => Or.inl hx, fun x => by
              simp only [tokW]
              have := cntA_taskErase_le x w.tasks a
              omega⟩
          · exact h0

theorem finishStep_rs (r : Run) (oc : Outcome) (hmem : ∃ x ∈ r.w.tasks, x.addr = r.t.addr) :
    RS r.w (finishStep r oc).w := by
  obtain ⟨x, hx, hxa⟩ := hmem
  have hpos : 0 < tokW r.t.addr r.w := by
    have := cntA_pos_of_mem _ _ hx
    rw [hxa] at this
    simp only [tokW]; omega
  have hset : ∀ (t' : Task), RS r.w { r.w with tasks := taskSet r.w.tasks t' } := fun t' =>
    ⟨fun a h => Or.inl h, fun a => by simp only [tokW, cntA_taskSet]; exact Nat.le_refl _⟩
  cases oc with
  | awaitF m nxt =>
    simp only [finishStep]
    split
    · rename_i r1 h1
      obtain ⟨e1, e2, _, e4⟩ := processAwait_tables r r1 m nxt h1
      refine ⟨?_, fun a => by simp only [tokW, cntA_taskSet, e1, e2]; exact Nat.le_refl _⟩
      intro a ha
      have ha' : a ∈ r1.w.ready := ha
      unfold processAwait at h1
      split at h1
      · simp at h1
      · simp only [Option.some.injEq] at h1
        rw [← h1] at ha'
        dsimp only at ha'
        split at ha'
        · rcases List.mem_append.1 ha' with h | h
          · exact Or.inl h
          · simp only [List.mem_singleton] at h
            rw [h]; exact Or.inr hpos
        · exact Or.inl ha'
    · split <;> exact hset _
  | done v =>
    have hc : RS r.w (processCompletion r v).1.w := by
      unfold processCompletion
      split
      · exact RS.refl _
      · obtain ⟨l1, l2, l3⟩ := completionLoop_fixed r.t.owned (completionEnter r v)
        refine RS.trans ?_ (RS.of_same l1 l2 l3)
        unfold completionEnter
        split
        · obtain ⟨t1, t2⟩ := handleResult_tables r.w r.t.addr v
          refine ⟨?_, ?_⟩
          · intro a ha
            have ha' : a ∈ (r.w.handleResult r.t.addr v).ready := ha
            unfold Worker.handleResult at ha'
            split at ha'
            · exact Or.inl ha'
            · split at ha'
              · exact Or.inl ha'
              · dsimp only at ha'
                split at ha'
                · exact Or.inl ha'
                · split at ha'
                  · exact Or.inl ha'
                  · rename_i d _ t hg
                    split at ha'
                    · rcases List.mem_append.1 ha' with h | h
                      · exact Or.inl h
                      · simp only [List.mem_singleton] at h
                        right
                        have := cntA_pos_of_mem _ _ (taskGet_mem _ _ _ hg)
                        rw [taskGet_addr _ _ _ hg] at this
                        rw [h]; simp only [tokW]; omega
                    · exact Or.inl ha'
          · intro a
            simp only [tokW, t1, t2]
            have := cntA_taskErase_le a r.w.tasks r.t.addr
            omega
        · exact ⟨fun a h => Or.inl h, fun a => by
            simp only [tokW]
            have := cntA_taskErase_le a r.w.tasks r.t.addr
            omega⟩
    simp only [finishStep]
    split
    · exact hc.trans (RS.of_same rfl rfl rfl)
    · exact hc
  | err cls isRt =>
    simp only [finishStep, bubbleErr]
    split <;> exact hset _

theorem desiredResult_rs (w w' : Worker) (t t' : Task) (v : Option Val)
    (h : desiredResult w t = .ok (w', t', v)) : RS w w' :=
  RS.of_same (desiredResult_tables w w' t t' v h).1 (desiredResult_tables w w' t t' v h).2
    (desiredResult_fixed w w' t t' v h).1

theorem stepTask_rs (tbl : Table) (w : Worker) (out : List Msg) (t0 : Task)
    (hmem : taskGet w.tasks t0.addr = some t0) : RS w (stepTask tbl w out t0).w := by
  unfold stepTask
  split
  · exact RS.refl _
  · rename_i w1 t1 val hd
    have h1 := desiredResult_rs w w1 t0 t1 val hd
    obtain ⟨e1, _⟩ := desiredResult_tables w w1 t0 t1 val hd
    split
    · refine h1.trans ?_
      simp only [bubbleErr]
      split <;> exact ⟨fun a h => Or.inl h, fun a => by simp only [tokW, cntA_taskSet]; exact Nat.le_refl _⟩
    · have hfix := runBody_fixed tbl ((tbl.getD t1.prog []).length + 2)
        { w := w1, t := (resume tbl t1 val).1, out := out, evs := (resume tbl t1 val).2 }
      refine h1.trans ((RS.of_same hfix.1 hfix.2.1 hfix.2.2.1).trans (finishStep_rs _ _ ?_))
      refine ⟨t0, ?_, ?_⟩
      · rw [hfix.1]; show t0 ∈ w1.tasks; rw [e1]; exact taskGet_mem _ _ _ hmem
      · rw [hfix.2.2.2.1]
        exact ((resume_fields tbl t1 val).1.trans (desiredResult_fixed w w1 t0 t1 val hd).2.1).symm

/-- ready entries after a loop iteration are old entries or addresses of tasks the worker held -/
theorem step_rs (tbl : Table) (w : Worker) : RS w (w.step tbl).w := by
  have h0 : RS w { w with blocked := false } := RS.of_same rfl rfl rfl
  have hp := pick_rs w.pickFuel { w with blocked := false }
  unfold Worker.step
  dsimp only
  split
  · exact h0.trans hp
  · rename_i t0 ht0
    exact (h0.trans hp).trans (stepTask_rs tbl _ _ t0 (pick_task_mem _ _ _ ht0))

-- ------------------------------------------------------- a returned task is not queued
def notNewResult (out0 : List Msg) (msg : Msg) : Prop := ∀ a v b, msg = .result a v b → msg ∈ out0

theorem notNewResult_outP (out0 : List Msg) (id : Int) (c0 : Nat) :
    OutP (notNewResult out0) id c0 none where
  sub := by intro t _ _ _ a v b e; cases e
  batch := by intro ts _ a v b e; cases e
  cancel := by intro x a v b e; cases e
  waiting := by intro n r a v b e; cases e
  error := by intro c cls a v b e; cases e
  sysError := by intro cls a v b e; cases e
  update := by intro d a v b e; cases e
  result := by intro a v b h; cases h

theorem resultIs_outP (id : Int) (c0 : Nat) (a0 : Option Addr) :
    OutP (fun msg => ∀ a v b, msg = Msg.result a v b → a0 = some a) id c0 a0 where
  sub := by intro t _ _ _ a v b e; cases e
  batch := by intro ts _ a v b e; cases e
  cancel := by intro x a v b e; cases e
  waiting := by intro n r a v b e; cases e
  error := by intro c cls a v b e; cases e
  sysError := by intro cls a v b e; cases e
  update := by intro d a v b e; cases e
  result := by intro x y z hx a v b e; cases e; exact hx

theorem stepTask_result_ready (tbl : Table) (w : Worker) (out : List Msg) (t0 : Task) (a : Addr) (v : Val)
    (b : Int) (h : Msg.result a v b ∈ (stepTask tbl w out t0).out) :
    Msg.result a v b ∈ out ∨ (stepTask tbl w out t0).w.ready = w.ready := by
  revert h
  unfold stepTask
  split
  · intro h
    rcases List.mem_append.1 h with h | h
    · exact Or.inl h
    · simp at h
  · rename_i w1 t1 val hd
    obtain ⟨er, _, _⟩ := desiredResult_fixed w w1 t0 t1 val hd
    split
    · simp only [bubbleErr]
      split
      · intro h; exact Or.inl h
      · intro h
        rcases List.mem_append.1 h with h | h
        · exact Or.inl h
        · simp at h
    · have hfix := runBody_fixed tbl ((tbl.getD t1.prog []).length + 2)
        { w := w1, t := (resume tbl t1 val).1, out := out, evs := (resume tbl t1 val).2 }
      have hb := runBody_outP (P := notNewResult out) (c0 := w1.counter) (a0 := none) tbl
        ((tbl.getD t1.prog []).length + 2)
        { w := w1, t := (resume tbl t1 val).1, out := out, evs := (resume tbl t1 val).2 }
        (notNewResult_outP out _ _) (Nat.le_refl _) (fun msg hm _ _ _ _ => hm)
      generalize (runBody tbl ((tbl.getD t1.prog []).length + 2)
        { w := w1, t := (resume tbl t1 val).1, out := out, evs := (resume tbl t1 val).2 }) = rb at hfix hb
      have old : Msg.result a v b ∈ rb.1.out → Msg.result a v b ∈ out :=
        fun hm => hb _ hm a v b rfl
      dsimp only
      cases hoc : rb.2 with
      | awaitF m nxt =>
        simp only [finishStep]
        split
        · rename_i r1 h1
          intro h
          rw [(processAwait_tables rb.1 r1 m nxt h1).2.2.1] at h
          exact Or.inl (old h)
        · split
          · intro h; exact Or.inl (old h)
          · intro h
            rcases List.mem_append.1 h with h | h
            · exact Or.inl (old h)
            · simp at h
      | err cls isRt =>
        simp only [finishStep, bubbleErr]
        split
        · intro h; exact Or.inl (old h)
        · intro h
          rcases List.mem_append.1 h with h | h
          · exact Or.inl (old h)
          · simp at h
      | done v' =>
        have key : Msg.result a v b ∈ (processCompletion rb.1 v').1.out →
            Msg.result a v b ∈ out ∨ (processCompletion rb.1 v').1.w.ready = w.ready := by
          unfold processCompletion
          split
          · intro h; exact Or.inl (old h)
          · have hl := completionLoop_outP (P := notNewResult (completionEnter rb.1 v').out)
              (id := 0) (c0 := 0) (a0 := none) (notNewResult_outP _ _ _) rb.1.t.owned (completionEnter rb.1 v')
              (fun msg hm _ _ _ _ => hm)
            obtain ⟨_, _, l3⟩ := completionLoop_fixed rb.1.t.owned (completionEnter rb.1 v')
            intro h
            have h' := hl _ h a v b rfl
            rw [l3]
            revert h'
            unfold completionEnter
            split
            · intro h'
              rcases List.mem_append.1 h' with h' | h'
              · exact Or.inl (old h')
              · simp at h'
            · intro _
              right
              show rb.1.w.ready = w.ready
              rw [hfix.2.2.1]; exact er
        simp only [finishStep]
        split
        · intro h
          rcases List.mem_append.1 h with h | h
          · exact key h
          · simp at h
        · exact key

/-- the address of a RESULT a loop iteration sends is not in the ready queue afterwards -/
theorem step_result_not_ready (tbl : Table) (w : Worker) (h : WInv none w) (a : Addr) (v : Val) (b : Int)
    (hr : Msg.result a v b ∈ (w.step tbl).out) : a ∉ (w.step tbl).w.ready := by
  have h0 : WInv none ({ w with blocked := false } : Worker) := h.congr rfl rfl rfl rfl rfl rfl
  have hp := pick_winv w.pickFuel _ h0
  have hP : ∀ a0, OutP (fun msg => ∀ a v b, msg = Msg.result a v b → a0 = some a) w.id w.counter a0 :=
    fun a0 => resultIs_outP _ _ a0
  revert hr
  unfold Worker.step
  dsimp only
  split
  · intro hr
    exact absurd hr (pick_out_noresult _ _ a v b)
  · rename_i t0 ht0
    intro hr
    have ha : some t0.addr = some a :=
      stepTask_outP (P := fun msg => ∀ a v b, msg = Msg.result a v b → some t0.addr = some a) (c0 := w.counter)
        tbl _ _ t0 (by rw [(pick_mono w.pickFuel { w with blocked := false }).id]; exact hP _)
        (pick_mono w.pickFuel { w with blocked := false }).ctr
        (pick_outP (hP _) _ _) _ hr a v b rfl
    rcases stepTask_result_ready tbl _ _ t0 a v b hr with h1 | h1
    · exact absurd h1 (pick_out_noresult _ _ a v b)
    · rw [h1]
      have := (hp.run t0 ht0).2.2.1
      rw [← Option.some.inj ha]
      exact this

end BqVerif.Runtime
