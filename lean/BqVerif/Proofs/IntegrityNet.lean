import BqVerif.Proofs.Integrity
import BqVerif.Proofs.StartOnceNet
/-!
# Result integrity on the flat network

In every reachable state: every RESULT message in any channel, every filled slot of every
worker mailbox and every result stored in a server mailbox is a value that the task with the
corresponding return address returned (`ret` event in the history of the run).
-/
namespace BqVerif.Runtime

structure IInv (n : Net) (H : List Ev) : Prop where
  chans : ∀ c ∈ n.chans, ResOK H c.2
  workers : ∀ w ∈ n.workers, WFilled H w
  server : ∀ p ∈ n.server.boxes, ∀ v, p.2.result = some v → ∃ s, RetIn H ⟨-1, p.1, s⟩ v

theorem IInv.mono {n : Net} {H H' : List Ev} (h : IInv n H) (hs : ∀ e ∈ H, e ∈ H') : IInv n H' :=
  ⟨fun c hc => (h.chans c hc).mono hs, fun w hw => (h.workers w hw).mono hs,
   fun p hp v hv => by obtain ⟨s, hr⟩ := h.server p hp v hv; exact ⟨s, hr.mono hs⟩⟩

-- ---------------------------------------------------------------- channels
theorem mem_chanSet (cs : List ((NodeId × NodeId) × List Msg)) (k : NodeId × NodeId) (v : List Msg)
    (c : (NodeId × NodeId) × List Msg) (h : c ∈ chanSet cs k v) : c ∈ cs ∨ c = (k, v) := by
  induction cs with
  | nil => simp only [chanSet, List.mem_singleton] at h; exact Or.inr h
  | cons x t ih =>
    obtain ⟨a, l⟩ := x
    simp only [chanSet] at h
    by_cases e : a = k
    · simp only [e, if_true, List.mem_cons] at h
      rcases h with h | h
      · exact Or.inr h
      · exact Or.inl (List.mem_cons_of_mem _ h)
    · simp only [e, if_false, List.mem_cons] at h
      rcases h with h | h
      · exact Or.inl (by rw [h]; exact List.mem_cons_self)
      · rcases ih h with h | h
        · exact Or.inl (List.mem_cons_of_mem _ h)
        · exact Or.inr h

theorem chanGet_mem (cs : List ((NodeId × NodeId) × List Msg)) (k : NodeId × NodeId) (m : Msg)
    (h : m ∈ chanGet cs k) : ∃ c ∈ cs, m ∈ c.2 := by
  induction cs with
  | nil => simp [chanGet] at h
  | cons x t ih =>
    obtain ⟨a, l⟩ := x
    simp only [chanGet] at h
    by_cases e : a = k
    · simp only [e, if_true] at h
      exact ⟨(a, l), List.mem_cons_self, h⟩
    · simp only [e, if_false] at h
      obtain ⟨c, hc, hm⟩ := ih h
      exact ⟨c, List.mem_cons_of_mem _ hc, hm⟩

/-- all messages of all channels satisfy `P` -/
def ChansAll (P : Msg → Prop) (n : Net) : Prop := ∀ c ∈ n.chans, ∀ m ∈ c.2, P m

theorem ChansAll.post {P : Msg → Prop} {n : Net} (h : ChansAll P n) (s d : NodeId) (m : Msg) (hm : P m) :
    ChansAll P (n.post s d m) := by
  unfold Net.post
  split
  · intro c hc x hx
    rcases mem_chanSet _ _ _ _ hc with hc | rfl
    · exact h c hc x hx
    · rcases List.mem_append.mp hx with hx | hx
      · obtain ⟨c', hc', hm'⟩ := chanGet_mem _ _ _ hx
        exact h c' hc' x hm'
      · simp only [List.mem_singleton] at hx; rw [hx]; exact hm
  · exact h

theorem ChansAll.postAll {P : Msg → Prop} {n : Net} (h : ChansAll P n) (s : NodeId) (o : Out)
    (ho : ∀ dm ∈ o, P dm.2) : ChansAll P (n.postAll s o) := by
  unfold Net.postAll
  induction o generalizing n with
  | nil => exact h
  | cons dm t ih =>
    simp only [List.foldl_cons]
    exact ih (h.post s dm.1 dm.2 (ho dm List.mem_cons_self)) (fun x hx => ho x (List.mem_cons_of_mem _ hx))

theorem ChansAll.pop {P : Msg → Prop} {n : Net} (h : ChansAll P n) (k : NodeId × NodeId) (m : Msg)
    (rest : List Msg) (hk : chanGet n.chans k = m :: rest) :
    ChansAll P { n with chans := chanSet n.chans k rest } ∧ P m := by
  have hm : ∀ x ∈ m :: rest, P x := by
    intro x hx
    have : x ∈ chanGet n.chans k := by rw [hk]; exact hx
    obtain ⟨c, hc, hxc⟩ := chanGet_mem _ _ _ this
    exact h c hc x hxc
  refine ⟨?_, hm m List.mem_cons_self⟩
  intro c hc x hx
  rcases mem_chanSet _ _ _ _ hc with hc | rfl
  · exact h c hc x hx
  · exact hm x (List.mem_cons_of_mem _ hx)

/-- the channel part of the invariant as a `ChansAll` -/
def msgOK (H : List Ev) : Msg → Prop
  | .result a v _ => RetIn H a v
  | _ => True

theorem chans_iff (n : Net) (H : List Ev) : (∀ c ∈ n.chans, ResOK H c.2) ↔ ChansAll (msgOK H) n := by
  constructor
  · intro h c hc m hm
    cases m <;> try trivial
    exact h c hc _ _ _ hm
  · intro h c hc a v b hm
    exact h c hc _ hm


-- ------------------------------------------------------------------ server
theorem tokOut_pos_of_result (o : Out) (a : Addr) (v : Val) (b : Int) (d : NodeId)
    (h : (d, Msg.result a v b) ∈ o) : 0 < tokOut a o := by
  have := le_sumBy_of_mem (fun dm : NodeId × Msg => tokMsg a dm.2) o (d, Msg.result a v b) h
  simp only [tokMsg, if_true] at this
  exact this

/-- an output list without RESULT messages -/
def NoRes (o : Out) : Prop := ∀ dm ∈ o, ∀ a v b, dm.2 ≠ Msg.result a v b

theorem NoTok.noRes {o : Out} (h : NoTok o) : NoRes o := by
  intro dm hdm a v b e
  have hm : (dm.1, Msg.result a v b) ∈ o := by rw [← e]; exact hdm
  have := tokOut_pos_of_result o a v b dm.1 hm
  rw [h a] at this
  exact absurd this (Nat.lt_irrefl 0)

theorem NoRes.append {o1 o2 : Out} (h1 : NoRes o1) (h2 : NoRes o2) : NoRes (o1 ++ o2) := by
  intro dm hdm
  rcases List.mem_append.mp hdm with h | h
  · exact h1 dm h
  · exact h2 dm h

theorem NoRes.filter {o : Out} (h : NoRes o) (p : NodeId × Msg → Bool) : NoRes (o.filter p) :=
  fun dm hdm => h dm (List.mem_filter.mp hdm).1

theorem NoRes.flush {o : Out} (h : NoRes o) (s : Server) : NoRes (flushServer s o) := by
  unfold flushServer
  split
  · intro dm hdm; simp at hdm
  · exact h.filter _

/-- handler output without RESULT messages -/
def HNoRes {σ} (r : HOut σ) : Prop := NoRes r.direct ∧ NoRes r.queued

theorem HNoTok.hNoRes {σ} {r : HOut σ} (h : HNoTok r) : HNoRes r := ⟨h.1.noRes, h.2.noRes⟩

theorem sched_noRes (s : Server) (ts : List Task) (asg : List Nat) : HNoRes (s.sched ts asg) := by
  unfold Server.sched
  split
  · exact ⟨fun _ h => by simp at h, fun _ h => by simp at h⟩
  · refine ⟨fun _ h => by simp at h, ?_⟩
    intro dm hdm a v b e
    simp only [List.mem_map] at hdm
    obtain ⟨p, _, rfl⟩ := hdm
    simp at e

/-- what the server's handlers do to the server mailboxes: every stored result was already
    stored, or is the value of the incoming RESULT addressed to that mailbox -/
def SBoxOK (s s' : Server) (m : Msg) : Prop :=
  ∀ p ∈ s'.boxes, ∀ v, p.2.result = some v →
    (∃ p' ∈ s.boxes, p'.1 = p.1 ∧ p'.2.result = some v)
    ∨ (∃ a b, m = Msg.result a v b ∧ a.w = -1 ∧ a.m = p.1)

theorem SBoxOK.refl (s : Server) (m : Msg) : SBoxOK s s m :=
  fun p hp v hv => Or.inl ⟨p, hp, rfl, hv⟩

theorem SBoxOK.of_sub {s s' : Server} (m : Msg) (h : ∀ p ∈ s'.boxes, p ∈ s.boxes) : SBoxOK s s' m :=
  fun p hp v hv => Or.inl ⟨p, h p hp, rfl, hv⟩

theorem SBoxOK.trans {a b c : Server} {m : Msg} (h1 : SBoxOK a b m) (h2 : SBoxOK b c m) : SBoxOK a c m := by
  intro p hp v hv
  rcases h2 p hp v hv with ⟨p', hp', e1, e2⟩ | h
  · rcases h1 p' hp' v e2 with ⟨p'', hp'', f1, f2⟩ | h
    · exact Or.inl ⟨p'', hp'', by rw [f1, e1], f2⟩
    · obtain ⟨x, y, hx, hy, hz⟩ := h
      exact Or.inr ⟨x, y, hx, hy, by rw [hz, e1]⟩
  · exact Or.inr h

theorem mem_assocSet {β} (l : List (Nat × β)) (k : Nat) (v : β) (p : Nat × β)
    (h : p ∈ assocSet l k v) : p ∈ l ∨ p = (k, v) := by
  induction l with
  | nil => simp only [assocSet, List.mem_singleton] at h; exact Or.inr h
  | cons x t ih =>
    obtain ⟨a, b⟩ := x
    simp only [assocSet] at h
    by_cases e : a = k
    · simp only [e, if_true, List.mem_cons] at h
      rcases h with h | h
      · exact Or.inr h
      · exact Or.inl (List.mem_cons_of_mem _ h)
    · simp only [e, if_false, List.mem_cons] at h
      rcases h with h | h
      · exact Or.inl (by rw [h]; exact List.mem_cons_self)
      · rcases ih h with h | h
        · exact Or.inl (List.mem_cons_of_mem _ h)
        · exact Or.inr h

theorem assocGet_mem {β} (l : List (Nat × β)) (k : Nat) (v : β) (h : assocGet l k = some v) : (k, v) ∈ l := by
  induction l with
  | nil => simp [assocGet] at h
  | cons x t ih =>
    obtain ⟨a, b⟩ := x
    simp only [assocGet] at h
    by_cases e : a = k
    · simp only [e, if_true, Option.some.injEq] at h
      subst h; subst e; exact List.mem_cons_self
    · simp only [e, if_false] at h
      exact List.mem_cons_of_mem _ (ih h)

theorem mem_assocErase {β} (l : List (Nat × β)) (k : Nat) (p : Nat × β) (h : p ∈ assocErase l k) : p ∈ l :=
  (List.mem_filter.mp h).1

theorem shutdown_boxes (s : Server) : s.shutdown.1.boxes = s.boxes := rfl
theorem systemError_boxes (s : Server) (cls : Nat) (why : String) :
    (s.systemError cls why).st.boxes = s.boxes := rfl

theorem cancelCore_sbox (s : Server) (ci : Nat) (m : Msg) : SBoxOK s (s.cancelCore ci).st m := by
  unfold Server.cancelCore
  split
  · exact SBoxOK.refl s m
  · split
    · exact SBoxOK.refl s m
    · exact SBoxOK.of_sub m (fun p hp => mem_assocErase _ _ _ hp)

theorem cancelComp_sbox (s : Server) (ci : Nat) (c : Option Nat) (m : Msg) :
    SBoxOK s (s.cancelComp ci c).st m := by
  unfold Server.cancelComp
  split
  · split
    · exact SBoxOK.refl s m
    · split
      · exact SBoxOK.refl s m
      · exact cancelCore_sbox s ci m
  · exact cancelCore_sbox s ci m

theorem cancelAll_sbox (l : List Nat) (acc : HOut Server) (m : Msg) :
    SBoxOK acc.st (Server.cancelAll acc l).st m := by
  induction l generalizing acc with
  | nil => exact SBoxOK.refl _ m
  | cons x xs ih =>
    simp only [Server.cancelAll]
    split
    · exact SBoxOK.refl _ m
    · exact (cancelComp_sbox acc.st x none m).trans (ih _)

theorem disconnect_sbox (s : Server) (j : Nat) (ord : List Nat) (m : Msg) :
    SBoxOK s (s.disconnect j ord).st m := by
  unfold Server.disconnect
  split
  · exact SBoxOK.refl s m
  · dsimp only
    split
    · exact SBoxOK.refl s m
    · split
      · exact SBoxOK.refl s m
      · have h0 : ∀ (acc : HOut Server), acc.st.boxes = s.boxes → SBoxOK s (Server.cancelAll acc ord).st m := by
          intro acc hb
          have h1 : SBoxOK s acc.st m := SBoxOK.of_sub m (fun p hp => by rw [hb] at hp; exact hp)
          exact h1.trans (cancelAll_sbox ord acc m)
        split
        · split
          · exact h0 _ rfl
          · exact (h0 _ rfl).trans (SBoxOK.of_sub m (fun p hp => hp))
        · split
          · exact h0 _ rfl
          · exact (h0 _ rfl).trans (SBoxOK.of_sub m (fun p hp => hp))


/-- all emitted messages satisfy `msgOK` -/
def HOutOK {σ} (H : List Ev) (r : HOut σ) : Prop := ∀ dm ∈ r.direct ++ r.queued, msgOK H dm.2

theorem HNoRes.outOK {σ} {r : HOut σ} (h : HNoRes r) (H : List Ev) : HOutOK H r := by
  intro dm hdm
  rcases List.mem_append.mp hdm with hd | hd
  · cases hm : dm.2 <;> simp only [msgOK]
    exact absurd hm (h.1 dm hd _ _ _)
  · cases hm : dm.2 <;> simp only [msgOK]
    exact absurd hm (h.2 dm hd _ _ _)

theorem syserr_noRes (s : Server) (cls : Nat) (why : String) : HNoRes (s.systemError cls why) :=
  (syserr_noTok s cls why).hNoRes

theorem result_ok (H : List Ev) (s : Server) (a : Addr) (v : Val) (b : Int) (hr : RetIn H a v) :
    HOutOK H (s.result a v b) ∧ SBoxOK s (s.result a v b).st (.result a v b) := by
  unfold Server.result
  split
  · exact ⟨(syserr_noRes _ _ _).outOK H, SBoxOK.refl _ _⟩
  · dsimp only
    split
    · rename_i haw
      split
      · exact ⟨fun dm h => by simp at h, SBoxOK.of_sub _ (fun p hp => hp)⟩
      · rename_i box hbox
        split
        · exact ⟨(syserr_noRes _ _ _).outOK H, SBoxOK.of_sub _ (fun p hp => hp)⟩
        · split
          · split
            · exact ⟨(syserr_noRes _ _ _).outOK H, SBoxOK.of_sub _ (fun p hp => hp)⟩
            · split
              · exact ⟨(syserr_noRes _ _ _).outOK H, SBoxOK.of_sub _ (fun p hp => hp)⟩
              · split
                · exact ⟨(syserr_noRes _ _ _).outOK H, SBoxOK.of_sub _ (fun p hp => hp)⟩
                · refine ⟨?_, SBoxOK.of_sub _ (fun p hp => mem_assocErase _ _ _ hp)⟩
                  intro dm hdm
                  simp only [List.nil_append, List.mem_singleton] at hdm
                  subst hdm
                  trivial
          · refine ⟨fun dm h => by simp at h, ?_⟩
            intro p hp x hx
            rcases mem_assocSet _ _ _ _ hp with hp | rfl
            · exact Or.inl ⟨p, hp, rfl, hx⟩
            · simp only [Option.some.injEq] at hx
              subst hx
              exact Or.inr ⟨a, b, rfl, haw, rfl⟩
    · split
      · exact ⟨(syserr_noRes _ _ _).outOK H, SBoxOK.of_sub _ (fun p hp => hp)⟩
      · split
        · exact ⟨(syserr_noRes _ _ _).outOK H, SBoxOK.of_sub _ (fun p hp => hp)⟩
        · refine ⟨?_, SBoxOK.of_sub _ (fun p hp => hp)⟩
          intro dm hdm
          simp only [List.nil_append, List.mem_singleton] at hdm
          subst hdm
          exact hr

theorem fromBelow_ok (H : List Ev) (s : Server) (ei : Nat) (m : Msg) (asg : List Nat) (hm : msgOK H m) :
    HOutOK H (s.fromBelow ei m asg) ∧ SBoxOK s (s.fromBelow ei m asg).st m := by
  have sched_sb : ∀ ts, SBoxOK s (s.sched ts asg).st m := by
    intro ts; unfold Server.sched; split <;> exact SBoxOK.of_sub m (fun p hp => hp)
  cases m with
  | submit t => exact ⟨(sched_noRes s [t] asg).outOK H, sched_sb _⟩
  | batch ts => exact ⟨(sched_noRes s ts asg).outOK H, sched_sb _⟩
  | result a v b => exact result_ok H s a v b hm
  | error comp cls =>
    simp only [Server.fromBelow]
    split
    · exact ⟨fun dm h => by simp at h, SBoxOK.refl _ _⟩
    · split
      · exact ⟨fun dm h => by simp at h, SBoxOK.refl _ _⟩
      · split
        · exact ⟨(syserr_noRes _ _ _).outOK H, SBoxOK.refl _ _⟩
        · refine ⟨?_, SBoxOK.refl _ _⟩
          intro dm hdm
          simp only [List.nil_append, List.mem_singleton] at hdm
          subst hdm; trivial
  | sysError cls => exact ⟨(syserr_noRes _ _ _).outOK H, SBoxOK.refl _ _⟩
  | cancel x =>
    refine ⟨?_, SBoxOK.refl _ _⟩
    have : HNoRes ({ st := s, queued := s.boss.broadcast (.cancel x) } : HOut Server) :=
      ⟨fun _ h => by simp at h, (noTok_broadcast_cancel s.boss x).noRes⟩
    exact this.outOK H
  | waiting n r =>
    simp only [Server.fromBelow]
    split
    · exact ⟨fun dm h => by simp at h, SBoxOK.of_sub _ (fun p hp => hp)⟩
    · exact ⟨(syserr_noRes _ _ _).outOK H, SBoxOK.refl _ _⟩
    · exact ⟨(syserr_noRes _ _ _).outOK H, SBoxOK.refl _ _⟩
    · exact ⟨(syserr_noRes _ _ _).outOK H, SBoxOK.refl _ _⟩
  | update d => exact ⟨fun dm h => by simp [Server.fromBelow] at h, SBoxOK.of_sub _ (fun p hp => hp)⟩
  | shutdown =>
    refine ⟨?_, SBoxOK.refl _ _⟩
    have : HNoRes ({ st := s.shutdown.1, direct := s.shutdown.2 } : HOut Server) :=
      ⟨(noTok_server_shutdown s).noRes, fun _ h => by simp at h⟩
    exact this.outOK H
  | eof =>
    refine ⟨?_, SBoxOK.refl _ _⟩
    have : HNoRes ({ st := s.shutdown.1, direct := s.shutdown.2, note := "syserr employee-eof" } : HOut Server) :=
      ⟨(noTok_server_shutdown s).noRes, fun _ h => by simp at h⟩
    exact this.outOK H
  | cSubmit _ _ => exact ⟨(syserr_noRes _ _ _).outOK H, SBoxOK.refl _ _⟩
  | cRequest _ => exact ⟨(syserr_noRes _ _ _).outOK H, SBoxOK.refl _ _⟩
  | cStatus _ => exact ⟨(syserr_noRes _ _ _).outOK H, SBoxOK.refl _ _⟩
  | cCancel _ => exact ⟨(syserr_noRes _ _ _).outOK H, SBoxOK.refl _ _⟩
  | cDisconnect => exact ⟨(syserr_noRes _ _ _).outOK H, SBoxOK.refl _ _⟩
  | sResult _ => exact ⟨(syserr_noRes _ _ _).outOK H, SBoxOK.refl _ _⟩
  | sStatus _ => exact ⟨(syserr_noRes _ _ _).outOK H, SBoxOK.refl _ _⟩
  | sCancelAck => exact ⟨(syserr_noRes _ _ _).outOK H, SBoxOK.refl _ _⟩
  | sError _ => exact ⟨(syserr_noRes _ _ _).outOK H, SBoxOK.refl _ _⟩


theorem noRes_single (d : NodeId) (m : Msg) (h : ∀ a v b, m ≠ Msg.result a v b) : NoRes [(d, m)] := by
  intro dm hdm a v b e
  simp only [List.mem_singleton] at hdm
  subst hdm
  exact h a v b e

theorem noRes_nil : NoRes [] := fun _ h => by simp at h

theorem sched_boxes (s : Server) (ts : List Task) (asg : List Nat) :
    (s.sched ts asg).st.boxes = s.boxes := by
  unfold Server.sched; split <;> rfl

theorem fromClient_ok (H : List Ev) (s : Server) (j : Nat) (m : Msg) (asg ord : List Nat) :
    HNoRes (s.fromClient j m asg ord) ∧ SBoxOK s (s.fromClient j m asg ord).st m := by
  cases m with
  | cSubmit ci pid =>
    simp only [Server.fromClient]
    split
    · exact ⟨syserr_noRes _ _ _, SBoxOK.refl _ _⟩
    · refine ⟨sched_noRes _ _ _, ?_⟩
      intro p hp v hv
      rw [sched_boxes] at hp
      rcases mem_assocSet _ _ _ _ hp with hp | rfl
      · exact Or.inl ⟨p, hp, rfl, hv⟩
      · simp at hv
  | cRequest ci =>
    simp only [Server.fromClient]
    split
    · exact ⟨syserr_noRes _ _ _, SBoxOK.refl _ _⟩
    · split
      · have hd := (disconnect_noTok s j ord).hNoRes
        refine ⟨⟨?_, hd.2⟩, disconnect_sbox s j ord _⟩
        exact (noRes_single _ _ (by intro a v b e; simp at e)).append hd.1
      · split
        · exact ⟨syserr_noRes _ _ _, SBoxOK.refl _ _⟩
        · split
          · exact ⟨syserr_noRes _ _ _, SBoxOK.refl _ _⟩
          · rename_i box hbox
            split
            · exact ⟨⟨noRes_nil, noRes_single _ _ (by intro a v b e; simp at e)⟩,
                SBoxOK.of_sub _ (fun p hp => mem_assocErase _ _ _ hp)⟩
            · refine ⟨⟨noRes_nil, noRes_nil⟩, ?_⟩
              intro p hp v hv
              rcases mem_assocSet _ _ _ _ hp with hp | rfl
              · exact Or.inl ⟨p, hp, rfl, hv⟩
              · exact Or.inl ⟨(_, box), assocGet_mem _ _ _ hbox, rfl, hv⟩
  | cStatus ci =>
    simp only [Server.fromClient]
    split
    · exact ⟨syserr_noRes _ _ _, SBoxOK.refl _ _⟩
    · split
      · exact ⟨⟨noRes_nil, noRes_single _ _ (by intro a v b e; simp at e)⟩, SBoxOK.refl _ _⟩
      · split
        · exact ⟨syserr_noRes _ _ _, SBoxOK.refl _ _⟩
        · split
          · exact ⟨syserr_noRes _ _ _, SBoxOK.refl _ _⟩
          · exact ⟨⟨noRes_nil, noRes_single _ _ (by intro a v b e; simp at e)⟩, SBoxOK.refl _ _⟩
  | cCancel ci => exact ⟨(cancelComp_noTok s ci (some j)).hNoRes, cancelComp_sbox s ci _ _⟩
  | cDisconnect => exact ⟨(disconnect_noTok s j ord).hNoRes, disconnect_sbox s j ord _⟩
  | eof => exact ⟨(disconnect_noTok s j ord).hNoRes, disconnect_sbox s j ord _⟩
  | submit _ => exact ⟨syserr_noRes _ _ _, SBoxOK.refl _ _⟩
  | batch _ => exact ⟨syserr_noRes _ _ _, SBoxOK.refl _ _⟩
  | result _ _ _ => exact ⟨syserr_noRes _ _ _, SBoxOK.refl _ _⟩
  | error _ _ => exact ⟨syserr_noRes _ _ _, SBoxOK.refl _ _⟩
  | sysError _ => exact ⟨syserr_noRes _ _ _, SBoxOK.refl _ _⟩
  | cancel _ => exact ⟨syserr_noRes _ _ _, SBoxOK.refl _ _⟩
  | waiting _ _ => exact ⟨syserr_noRes _ _ _, SBoxOK.refl _ _⟩
  | update _ => exact ⟨syserr_noRes _ _ _, SBoxOK.refl _ _⟩
  | shutdown => exact ⟨syserr_noRes _ _ _, SBoxOK.refl _ _⟩
  | sResult _ => exact ⟨syserr_noRes _ _ _, SBoxOK.refl _ _⟩
  | sStatus _ => exact ⟨syserr_noRes _ _ _, SBoxOK.refl _ _⟩
  | sCancelAck => exact ⟨syserr_noRes _ _ _, SBoxOK.refl _ _⟩
  | sError _ => exact ⟨syserr_noRes _ _ _, SBoxOK.refl _ _⟩

theorem handle_ok (H : List Ev) (s : Server) (src : NodeId) (m : Msg) (asg ord : List Nat)
    (hm : msgOK H m) :
    HOutOK H (s.handle src m asg ord) ∧ SBoxOK s (s.handle src m asg ord).st m := by
  unfold Server.handle
  split
  · split
    · exact ⟨fun dm h => by simp at h, SBoxOK.refl _ _⟩
    · have := fromClient_ok H s ‹Nat› m asg ord
      exact ⟨this.1.outOK H, this.2⟩
  · split
    · exact ⟨fun dm h => by simp at h, SBoxOK.refl _ _⟩
    · exact fromBelow_ok H s _ m asg hm


-- -------------------------------------------------------------- transitions
theorem msgOK_mono {H H' : List Ev} (hs : ∀ e ∈ H, e ∈ H') (m : Msg) (h : msgOK H m) : msgOK H' m := by
  cases m <;> try trivial
  exact RetIn.mono h hs

theorem ChansAll.mono {P Q : Msg → Prop} {n : Net} (h : ChansAll P n) (hpq : ∀ m, P m → Q m) :
    ChansAll Q n := fun c hc m hm => hpq m (h c hc m hm)

theorem IInv.workerStep {n : Net} {H : List Ev} (h : IInv n H) (id : Int) :
    IInv (n.workerStep id).net (H ++ (n.workerStep id).evs) := by
  unfold Net.workerStep
  split
  · simpa using h
  · rename_i w hf
    obtain ⟨hw, _⟩ := find_worker_mem _ _ _ hf
    split
    · simpa using h
    · dsimp only
      have hsub : ∀ e ∈ H, e ∈ H ++ (w.step n.tbl).evs := fun e he => List.mem_append_left _ he
      obtain ⟨hW', hout⟩ := step_integrity H n.tbl w (h.workers w hw)
      refine ⟨?_, ?_, ?_⟩
      · rw [chans_iff]
        apply ChansAll.postAll
        · exact ((chans_iff n H).mp h.chans).mono (msgOK_mono hsub)
        · intro dm hdm
          simp only [List.mem_map] at hdm
          obtain ⟨m, hm, rfl⟩ := hdm
          cases m <;> try trivial
          exact hout _ _ _ hm
      · intro w'' hw''
        rw [(postAll_fields _ _ _).1] at hw''
        rcases mem_setWorker _ _ _ hw'' with rfl | ⟨hm, _⟩
        · split
          · exact hW'.of_from (from_sub _ _ rfl (fun _ _ h => h))
          · exact hW'
        · exact (h.workers w'' hm).mono hsub
      · rw [(postAll_fields _ _ _).2.1]
        intro p hp v hv
        obtain ⟨s, hr⟩ := h.server p hp v hv
        exact ⟨s, hr.mono hsub⟩

theorem IInv.clientSend {n : Net} {H : List Ev} (h : IInv n H) (j : Nat) (m : Option Msg) (dies : Bool)
    (hwf : ∀ msg, m = some msg → ∀ a, tokMsg a msg = 0) :
    IInv (n.clientSend j m dies).net (H ++ (n.clientSend j m dies).evs) := by
  have hev : (n.clientSend j m dies).evs = [] := rfl
  rw [hev, List.append_nil]
  have base : IInv (match m with | some msg => n.post (.client j) .server msg | none => n) H := by
    cases m with
    | none => exact h
    | some msg =>
      refine ⟨?_, ?_, ?_⟩
      · rw [chans_iff]
        apply ChansAll.post ((chans_iff n H).mp h.chans)
        cases msg <;> try trivial
        rename_i a v b
        have := hwf _ rfl a
        simp [tokMsg] at this
      · rw [(post_fields _ _ _ _).1]; exact h.workers
      · rw [(post_fields _ _ _ _).2.1]; exact h.server
  cases m with
  | none =>
    simp only [Net.clientSend]
    split <;> exact ⟨h.chans, h.workers, h.server⟩
  | some msg =>
    simp only [Net.clientSend]
    split <;> exact ⟨base.chans, base.workers, base.server⟩

theorem IInv.deliver {n : Net} {H : List Ev} (h : IInv n H) (hflat : n.mgrs = [])
    (src dst : NodeId) (asg ord : List Nat) (died : Bool) :
    IInv (n.deliver src dst asg ord died).net (H ++ (n.deliver src dst asg ord died).evs) := by
  have hev : (n.deliver src dst asg ord died).evs = [] := by
    unfold Net.deliver
    split
    · rfl
    · dsimp only
      split
      · split
        · rfl
        · split <;> rfl
      · split
        · rfl
        · split <;> rfl
      · split <;> rfl
      · split
        · rfl
        · split <;> rfl
  rw [hev, List.append_nil]
  cases hk : chanGet n.chans (src, dst) with
  | nil => simp only [Net.deliver, hk]; exact h
  | cons m rest =>
    obtain ⟨hc0, hm⟩ := ((chans_iff n H).mp h.chans).pop (src, dst) m rest hk
    have h0 : IInv ({ n with chans := chanSet n.chans (src, dst) rest } : Net) H :=
      ⟨(chans_iff _ H).mpr hc0, h.workers, h.server⟩
    cases dst with
    | wrk id =>
      simp only [Net.deliver, hk]
      split
      · exact h0
      · rename_i w hf
        obtain ⟨hw, _⟩ := find_worker_mem _ _ _ hf
        split
        · exact h0
        · refine ⟨h0.chans, ?_, h0.server⟩
          intro w'' hw''
          rcases mem_setWorker _ _ _ hw'' with rfl | ⟨hmem, _⟩
          · apply recv_filled w m (h.workers w hw)
            intro a v b e
            subst e
            exact hm
          · exact h.workers w'' hmem
    | client j =>
      simp only [Net.deliver, hk]
      split
      · exact h0
      · split
        · refine ⟨?_, ?_, ?_⟩
          · rw [chans_iff]
            exact ChansAll.post (n := { ({ n with chans := chanSet n.chans (src, .client j) rest } : Net) with
              deadClients := n.deadClients ++ [j] }) hc0 _ _ _ trivial
          · rw [(post_fields _ _ _ _).1]; exact h.workers
          · rw [(post_fields _ _ _ _).2.1]; exact h.server
        · exact h0
    | mgr i =>
      have : n.mgrs[i]? = none := by rw [hflat]; rfl
      simp only [Net.deliver, hk, this]
      exact h0
    | server =>
      simp only [Net.deliver, hk]
      split
      · exact h0
      · obtain ⟨hout, hsb⟩ := handle_ok H n.server src m asg ord hm
        refine ⟨?_, ?_, ?_⟩
        · rw [chans_iff]
          apply ChansAll.postAll (n := { ({ n with chans := chanSet n.chans (src, .server) rest } : Net) with
            server := (n.server.handle src m asg ord).st }) hc0
          intro dm hdm
          apply hout dm
          rcases List.mem_append.mp hdm with hd | hd
          · exact List.mem_append_left _ hd
          · apply List.mem_append_right
            unfold flushServer at hd
            split at hd
            · simp at hd
            · exact (List.mem_filter.mp hd).1
        · rw [(postAll_fields _ _ _).1]; exact h.workers
        · rw [(postAll_fields _ _ _).2.1]
          intro p hp v hv
          rcases hsb p hp v hv with ⟨p', hp', e1, e2⟩ | ⟨a, b, rfl, ha, hb⟩
          · obtain ⟨s, hr⟩ := h.server p' hp' v e2
            exact ⟨s, by rw [← e1]; exact hr⟩
          · refine ⟨a.s, ?_⟩
            have : (⟨-1, p.1, a.s⟩ : Addr) = a := by
              cases a; simp only [Addr.mk.injEq] at *; exact ⟨ha.symm, hb.symm, trivial⟩
            rw [this]; exact hm

theorem IInv.apply {n : Net} {H : List Ev} (h : IInv n H) (g : GInv n) (t : Tr) (hwf : t.wf) :
    IInv (n.apply t).net (H ++ (n.apply t).evs) := by
  cases t with
  | deliver s d asg ord died => exact h.deliver g.flat s d asg ord died
  | step id => exact h.workerStep id
  | client j m dies =>
    apply h.clientSend j m dies
    intro msg hm b
    subst hm
    exact hwf b

theorem IInv.exec {n : Net} {H : List Ev} (h : IInv n H) (g : GInv n) (trs : List Tr)
    (hwf : ∀ t ∈ trs, t.wf) : IInv (n.exec trs) (H ++ n.execEvs trs) := by
  induction trs generalizing n H with
  | nil => simpa [Net.exec, Net.execEvs] using h
  | cons t ts ih =>
    have h1 := h.apply g t (hwf t List.mem_cons_self)
    have g1 := g.apply t (hwf t List.mem_cons_self)
    have := ih h1 g1 (fun t' ht' => hwf t' (List.mem_cons_of_mem _ ht'))
    simp only [Net.exec, List.foldl_cons, Net.execEvs] at this ⊢
    rw [← List.append_assoc]
    exact this

theorem IInv.init (tbl : Table) (att : Bool) (nw nc : Nat) : IInv (Net.initFlat tbl att nw nc) [] := by
  refine ⟨fun c hc => by simp [Net.initFlat] at hc, ?_, fun p hp => by simp [Net.initFlat] at hp⟩
  intro w hw m b hb
  simp only [Net.initFlat, mkWorkers, List.mem_map] at hw
  obtain ⟨i, _, rfl⟩ := hw
  simp at hb

end BqVerif.Runtime
