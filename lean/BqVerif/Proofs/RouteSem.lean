import BqVerif.Proofs.RouteSemDefs
import BqVerif.Proofs.RouteWorkflow
/-
C09 / S4 `unroute_sound`: the denotation of a routed operation list is the denotation of the
un-routed logical list placed at the initial assignment, followed by the pure swap network made
of the inserted swaps in order; that network carries the initial assignment to the final one.
-/
namespace BqVerif.Route
open BqVerif.Circ (Op proj)

/-- the (real and virtual) swaps of an emitted list, in order -/
def swapsOf : List Em → List (Nat × Nat)
  | [] => []
  | .gate _ :: r => swapsOf r
  | .swap a b :: r => (a, b) :: swapsOf r
  | .vswap a b :: r => (a, b) :: swapsOf r

/-- the emitted list as operations, virtual swaps written out as swap gates -/
def allOps (swapOp : Nat → Nat → Op) : List Em → List Op
  | [] => []
  | .gate o :: r => o :: allOps swapOp r
  | .swap a b :: r => swapOp a b :: allOps swapOp r
  | .vswap a b :: r => swapOp a b :: allOps swapOp r

def swapNet (swapOp : Nat → Nat → Op) (l : List (Nat × Nat)) : List Op :=
  l.map (fun e => swapOp e.1 e.2)

/-- how a sequence of swaps moves an assignment -/
def carry (π : List Nat) (l : List (Nat × Nat)) : List Nat :=
  l.foldl (fun π e => π.map (swapFn e.1 e.2)) π

def noVswap : Em → Bool
  | .vswap _ _ => false
  | _ => true

theorem allOps_eq_physOps (swapOp : Nat → Nat → Op) (l : List Em)
    (h : ∀ e ∈ l, noVswap e = true) : allOps swapOp l = physOps swapOp l := by
  induction l with
  | nil => rfl
  | cons e r ih =>
    have hr : ∀ e ∈ r, noVswap e = true := fun e he => h e (by simp [he])
    cases e with
    | gate o => simp [allOps, physOps, ih hr]
    | swap a b => simp [allOps, physOps, ih hr]
    | vswap a b => have := h (.vswap a b) (by simp); simp [noVswap] at this

theorem unroute_snd (π : List Nat) (l : List Em) : (unroute π l).2 = carry π (swapsOf l) := by
  induction l generalizing π with
  | nil => simp [unroute, swapsOf, carry]
  | cons e r ih =>
    cases e with
    | gate o => simp [unroute, swapsOf, ih]
    | swap a b => simp [unroute, swapsOf, ih, carry]
    | vswap a b => simp [unroute, swapsOf, ih, carry]

theorem unroute_loc_lt (l : List Em) {π : List Nat}
    (hl : ∀ e ∈ l, ∀ x ∈ e.labels, x ∈ π) :
    ∀ o ∈ (unroute π l).1, ∀ q ∈ o.loc, q < π.length := by
  induction l generalizing π with
  | nil => simp [unroute]
  | cons e r ih =>
    have hr : ∀ e ∈ r, ∀ x ∈ e.labels, x ∈ π := fun e he => hl e (by simp [he])
    cases e with
    | gate o =>
      intro o' ho' q hq
      simp only [unroute, List.mem_cons] at ho'
      rcases ho' with rfl | ho'
      · simp only [relab, List.mem_map] at hq
        obtain ⟨x, hx, rfl⟩ := hq
        exact List.idxOf_lt_length_of_mem (hl (.gate o) (by simp) x (by simpa [Em.labels] using hx))
      · exact ih hr o' ho' q hq
    | swap a b =>
      have ha : a ∈ π := hl (.swap a b) (by simp) a (by simp [Em.labels])
      have hb : b ∈ π := hl (.swap a b) (by simp) b (by simp [Em.labels])
      intro o' ho' q hq
      simp only [unroute] at ho'
      have := ih (π := π.map (swapFn a b))
        (fun e he x hx => (mem_map_swapFn ha hb x).2 (hr e he x hx)) o' ho' q hq
      simpa using this
    | vswap a b =>
      have ha : a ∈ π := hl (.vswap a b) (by simp) a (by simp [Em.labels])
      have hb : b ∈ π := hl (.vswap a b) (by simp) b (by simp [Em.labels])
      intro o' ho' q hq
      simp only [unroute] at ho'
      have := ih (π := π.map (swapFn a b))
        (fun e he x hx => (mem_map_swapFn ha hb x).2 (hr e he x hx)) o' ho' q hq
      simpa using this

variable {M : Type}

/-- pushing a swap through a placed logical list changes the placement by that swap -/
theorem den_swap_commute (S : Sem M) (π : List Nat) (a b : Nat) (L : List Op)
    (hL : ∀ o ∈ L, ∀ q ∈ o.loc, q < π.length) :
    S.mul (S.den (L.map (relab (piAt π)))) (S.sem (S.swapOp a b)) =
      S.mul (S.sem (S.swapOp a b)) (S.den (L.map (relab (piAt (π.map (swapFn a b)))))) := by
  induction L with
  | nil => simp [Sem.den, S.one_mul, S.mul_one]
  | cons o r ih =>
    have hr : ∀ o ∈ r, ∀ q ∈ o.loc, q < π.length := fun o ho => hL o (by simp [ho])
    have ho : relab (swapFn a b) (relab (piAt π) o) = relab (piAt (π.map (swapFn a b))) o := by
      rw [relab_relab]
      exact relab_congr (fun q hq => by
        simp only [Function.comp]
        exact (piAt_map _ _ (hL o (by simp) q hq)).symm)
    simp only [List.map_cons, Sem.den]
    rw [S.mul_assoc, ih hr, ← S.mul_assoc, S.swap_law, ho, S.mul_assoc]

/-- **S4 `unroute_sound`.** -/
theorem unroute_sound (S : Sem M) (l : List Em) {π : List Nat}
    (hl : ∀ e ∈ l, ∀ x ∈ e.labels, x ∈ π) :
    S.den (allOps S.swapOp l) =
      S.mul (S.den ((unroute π l).1.map (relab (piAt π))))
        (S.den (swapNet S.swapOp (swapsOf l))) := by
  induction l generalizing π with
  | nil => simp [allOps, unroute, swapsOf, swapNet, Sem.den, S.one_mul]
  | cons e r ih =>
    have hr : ∀ e ∈ r, ∀ x ∈ e.labels, x ∈ π := fun e he => hl e (by simp [he])
    cases e with
    | gate o =>
      have ho : relab (piAt π) (relab (π.idxOf ·) o) = o := by
        rw [relab_relab]
        exact relab_id_on (fun q hq => by
          simp only [Function.comp]
          exact piAt_idxOf (hl (.gate o) (by simp) q (by simpa [Em.labels] using hq)))
      simp only [allOps, unroute, swapsOf, List.map_cons, Sem.den, ho, ih hr, S.mul_assoc]
    | swap a b =>
      have ha : a ∈ π := hl (.swap a b) (by simp) a (by simp [Em.labels])
      have hb : b ∈ π := hl (.swap a b) (by simp) b (by simp [Em.labels])
      have hr' : ∀ e ∈ r, ∀ x ∈ e.labels, x ∈ π.map (swapFn a b) :=
        fun e he x hx => (mem_map_swapFn ha hb x).2 (hr e he x hx)
      have hlt := unroute_loc_lt r hr'
      simp only [List.length_map] at hlt
      simp only [allOps, unroute, swapsOf, swapNet, List.map_cons, Sem.den]
      rw [ih hr', ← S.mul_assoc, ← den_swap_commute S π a b _ hlt, S.mul_assoc]
      rfl
    | vswap a b =>
      have ha : a ∈ π := hl (.vswap a b) (by simp) a (by simp [Em.labels])
      have hb : b ∈ π := hl (.vswap a b) (by simp) b (by simp [Em.labels])
      have hr' : ∀ e ∈ r, ∀ x ∈ e.labels, x ∈ π.map (swapFn a b) :=
        fun e he x hx => (mem_map_swapFn ha hb x).2 (hr e he x hx)
      have hlt := unroute_loc_lt r hr'
      simp only [List.length_map] at hlt
      simp only [allOps, unroute, swapsOf, swapNet, List.map_cons, Sem.den]
      rw [ih hr', ← S.mul_assoc, ← den_swap_commute S π a b _ hlt, S.mul_assoc]
      rfl

/-- segment-wise equal denotations -/
def Sem.segEq (S : Sem M) : List (List Op) → List (List Op) → Prop
  | [], [] => True
  | a :: A, b :: B => S.den a = S.den b ∧ S.segEq A B
  | _, _ => False

/-- segment-wise equal denotations give equal denotations (used to lift the per-block
numerical hypothesis of PAM to the whole circuit) -/
theorem Sem.den_flatten_congr (S : Sem M) :
    ∀ (A B : List (List Op)), S.segEq A B → S.den A.flatten = S.den B.flatten
  | [], [], _ => rfl
  | [], _ :: _, h => by simp [Sem.segEq] at h
  | _ :: _, [], h => by simp [Sem.segEq] at h
  | a :: A, b :: B, h => by
    simp only [Sem.segEq] at h
    simp only [List.flatten_cons, Sem.den_append, h.1, Sem.den_flatten_congr S A B h.2]

theorem relab_piAt_range {n : Nat} {o : Op} (h : ∀ q ∈ o.loc, q < n) :
    relab (piAt (List.range n)) o = o :=
  relab_id_on (fun q hq => by simp [piAt, List.getD_eq_getElem?_getD, h q hq])

theorem map_relab_range {n : Nat} {L : List Op} (h : ∀ o ∈ L, ∀ q ∈ o.loc, q < n) :
    L.map (relab (piAt (List.range n))) = L := by
  induction L with
  | nil => rfl
  | cons o r ih =>
    simp only [List.map_cons, relab_piAt_range (h o (by simp)),
      ih (fun o ho => h o (by simp [ho]))]

/-! ### SABRE moves never emit virtual swaps -/
theorem step_no_vswap {free : Nat → Bool} {g : Graph.G} {s s' : St} (m : Move)
    (hm : m.isSabre = true) (h : ∀ e ∈ s.out, noVswap e = true)
    (hs : step free g s m = some s') : ∀ e ∈ s'.out, noVswap e = true := by
  cases m with
  | exec i =>
    simp only [step] at hs
    cases hi : s.rem[i]? with
    | none => simp [hi] at hs
    | some o =>
      simp only [hi] at hs
      split at hs
      · rw [← Option.some.inj hs]
        intro e he
        rcases List.mem_append.1 he with he | he
        · exact h e he
        · have : e = .gate (relab (piAt s.pi) o) := by simpa using he
          rw [this]; rfl
      · cases hs
  | swap a b =>
    simp only [step] at hs
    split at hs
    · cases h1 : applySwap s.pi a b with
      | none => simp [h1] at hs
      | some π' =>
        simp only [h1] at hs
        rw [← Option.some.inj hs]
        intro e he
        rcases List.mem_append.1 he with he | he
        · exact h e he
        · have : e = .swap a b := by simpa using he
          rw [this]; rfl
    · cases hs
  | unswap a b =>
    simp only [step] at hs
    split at hs
    · cases h1 : applySwap s.pi a b with
      | none => simp [h1] at hs
      | some π' =>
        simp only [h1] at hs
        rw [← Option.some.inj hs]
        intro e he
        exact h e (List.dropLast_subset _ he)
    · cases hs
  | pamBarrier i => simp [Move.isSabre] at hm
  | perm i p1 p2 s1 s2 => simp [Move.isSabre] at hm

theorem run_no_vswap {free : Nat → Bool} {g : Graph.G} (moves : List Move) {s s' : St}
    (hm : ∀ m ∈ moves, m.isSabre = true) (h : ∀ e ∈ s.out, noVswap e = true)
    (hr : run free g s moves = some s') : ∀ e ∈ s'.out, noVswap e = true := by
  induction moves generalizing s with
  | nil => simp only [run] at hr; rw [← Option.some.inj hr]; exact h
  | cons m ms ih =>
    simp only [run] at hr
    cases h1 : step free g s m with
    | none => simp [h1] at hr
    | some s1 =>
      rw [h1] at hr
      simp only [Option.bind_some] at hr
      exact ih (fun m' hm' => hm m' (by simp [hm'])) (step_no_vswap m (hm m (by simp)) h h1) hr

theorem sabre_no_vswap (free : Nat → Bool) (g : Graph.G) {n : Nat} {ops : List Op}
    (moves : List Move) {s : St} (hm : ∀ m ∈ moves, m.isSabre = true)
    (hr : run free g (init n ops) moves = some s) : ∀ e ∈ s.out, noVswap e = true :=
  run_no_vswap moves hm (by simp [init]) hr

end BqVerif.Route
