import BqVerif.Model.Cost
import Mathlib.Order.Defs.LinearOrder
import Mathlib.Data.List.Basic
/-!
Multi-start selection (`sorted(params_list, key=cost)[0]`) and method selection: helper lemmas for
`Props/C19.lean`.
-/
namespace BqVerif.Cost

section sel
variable {α κ : Type} [LinearOrder κ]

theorem insertStable_perm (key : α → κ) (x : α) (l : List α) :
    (insertStable key x l).Perm (x :: l) := by
  induction l with
  | nil => simp [insertStable]
  | cons y ys ih =>
    unfold insertStable
    split
    · exact List.Perm.refl _
    · exact (List.Perm.cons y ih).trans (List.Perm.swap x y ys)

theorem sortStable_perm (key : α → κ) (l : List α) : (sortStable key l).Perm l := by
  induction l with
  | nil => simp [sortStable]
  | cons x xs ih =>
    have : sortStable key (x :: xs) = insertStable key x (sortStable key xs) := rfl
    rw [this]
    exact (insertStable_perm key x _).trans (List.Perm.cons x ih)

theorem mem_sortStable (key : α → κ) (l : List α) (a : α) : a ∈ sortStable key l ↔ a ∈ l :=
  (sortStable_perm key l).mem_iff

theorem insertStable_sorted (key : α → κ) (x : α) (l : List α)
    (h : l.Pairwise (fun a b => key a ≤ key b)) :
    (insertStable key x l).Pairwise (fun a b => key a ≤ key b) := by
  induction l with
  | nil => simp [insertStable]
  | cons y ys ih =>
    unfold insertStable
    have hy := List.pairwise_cons.mp h
    split
    · rename_i hxy
      refine List.pairwise_cons.mpr ⟨?_, h⟩
      intro b hb
      rcases List.mem_cons.mp hb with rfl | hb
      · exact hxy
      · exact le_trans hxy (hy.1 b hb)
    · rename_i hxy
      refine List.pairwise_cons.mpr ⟨?_, ih hy.2⟩
      intro b hb
      rcases List.mem_cons.mp ((insertStable_perm key x ys).mem_iff.mp hb) with rfl | hb
      · exact le_of_lt (not_le.mp hxy)
      · exact hy.1 b hb

theorem sortStable_sorted (key : α → κ) (l : List α) :
    (sortStable key l).Pairwise (fun a b => key a ≤ key b) := by
  induction l with
  | nil => simp [sortStable]
  | cons x xs ih => exact insertStable_sorted key x _ ih

/-- stability: the elements with one given key value keep their original order -/
theorem insertStable_filter (key : α → κ) (x : α) (l : List α) (k : κ)
    (h : l.Pairwise (fun a b => key a ≤ key b)) :
    (insertStable key x l).filter (fun a => key a = k) = (x :: l).filter (fun a => key a = k) := by
  induction l with
  | nil => simp [insertStable]
  | cons y ys ih =>
    unfold insertStable
    have hy := List.pairwise_cons.mp h
    split
    · rfl
    · rename_i hxy
      have hlt : key y < key x := not_le.mp hxy
      simp only [List.filter_cons]
      rw [ih hy.2]
      simp only [List.filter_cons]
      by_cases h1 : key x = k <;> by_cases h2 : key y = k <;> simp [h1, h2]
      -- both equal k is impossible: key y < key x
      exact absurd (h1.trans h2.symm) (ne_of_gt hlt)

theorem sortStable_filter (key : α → κ) (l : List α) (k : κ) :
    (sortStable key l).filter (fun a => key a = k) = l.filter (fun a => key a = k) := by
  induction l with
  | nil => simp [sortStable]
  | cons x xs ih =>
    have : sortStable key (x :: xs) = insertStable key x (sortStable key xs) := rfl
    rw [this, insertStable_filter key x _ k (sortStable_sorted key xs)]
    simp only [List.filter_cons, ih]

theorem head?_insertStable (key : α → κ) (x : α) (s : List α) :
    (insertStable key x s).head? =
      match s.head? with
      | none => some x
      | some y => if key x ≤ key y then some x else some y := by
  cases s with
  | nil => simp [insertStable]
  | cons y ys =>
    simp only [insertStable, List.head?_cons]
    split <;> simp

theorem multiStart_cons (key : α → κ) (x : α) (l : List α) :
    multiStart (x :: l) key =
      match multiStart l key with
      | none => some x
      | some y => if key x ≤ key y then some x else some y := by
  unfold multiStart
  have : sortStable key (x :: l) = insertStable key x (sortStable key l) := rfl
  rw [this, head?_insertStable]

theorem multiStart_none (key : α → κ) (l : List α) : multiStart l key = none ↔ l = [] := by
  cases l with
  | nil => simp [multiStart, sortStable]
  | cons x xs =>
    rw [multiStart_cons]
    constructor
    · intro h
      split at h
      · cases h
      · split at h <;> cases h
    · intro h; cases h

/-- The selected candidate is the FIRST candidate of least key. -/
theorem multiStart_spec (key : α → κ) (l : List α) (p : α) (h : multiStart l key = some p) :
    (∀ q ∈ l, key p ≤ key q) ∧
    ∃ pre post, l = pre ++ p :: post ∧ ∀ q ∈ pre, key p < key q := by
  induction l generalizing p with
  | nil => simp [multiStart, sortStable] at h
  | cons x xs ih =>
    rw [multiStart_cons] at h
    cases hm : multiStart xs key with
    | none =>
      rw [hm] at h
      have hx : xs = [] := (multiStart_none key xs).mp hm
      cases h
      subst hx
      exact ⟨by simp, [], [], rfl, by simp⟩
    | some y =>
      rw [hm] at h
      obtain ⟨hmin, pre, post, hl, hpre⟩ := ih y hm
      by_cases hxy : key x ≤ key y
      · simp only [hxy, if_true] at h
        cases h
        refine ⟨?_, [], xs, rfl, by simp⟩
        intro q hq
        rcases List.mem_cons.mp hq with rfl | hq
        · exact le_refl _
        · exact le_trans hxy (hmin q hq)
      · simp only [hxy, if_false] at h
        cases h
        have hlt : key p < key x := not_le.mp hxy
        refine ⟨?_, x :: pre, post, by rw [hl]; rfl, ?_⟩
        · intro q hq
          rcases List.mem_cons.mp hq with rfl | hq
          · exact le_of_lt hlt
          · exact hmin q hq
        · intro q hq
          rcases List.mem_cons.mp hq with rfl | hq
          · exact hlt
          · exact hpre q hq

/-- Conversely: the first candidate of least key is the one selected. -/
theorem multiStart_of_first (key : α → κ) (pre post : List α) (p : α)
    (hpre : ∀ q ∈ pre, key p < key q) (hpost : ∀ q ∈ post, key p ≤ key q) :
    multiStart (pre ++ p :: post) key = some p := by
  induction pre with
  | nil =>
    simp only [List.nil_append]
    rw [multiStart_cons]
    cases hm : multiStart post key with
    | none => rfl
    | some y =>
      have hy : y ∈ post := by
        obtain ⟨_, pre', post', hl, _⟩ := multiStart_spec key post y hm
        rw [hl]; simp
      simp [hpost y hy]
  | cons x xs ih =>
    have hx : key p < key x := hpre x (by simp)
    have := ih (fun q hq => hpre q (by simp [hq]))
    simp only [List.cons_append]
    rw [multiStart_cons, this]
    simp [not_le.mpr hx]

end sel

end BqVerif.Cost

namespace BqVerif.Cost

/-! ## method selection -/

/-- index of the first element satisfying `p`, counted from `k` -/
theorem firstCapable_some (gs : List GateCaps) (l : List InstEntry) (k i : Nat) :
    firstCapable gs l k = some i ↔
      ∃ j e, i = k + j ∧ l[j]? = some e ∧ e.rule.capable gs = true ∧
        ∀ j' < j, ∀ e', l[j']? = some e' → e'.rule.capable gs = false := by
  induction l generalizing k with
  | nil => simp [firstCapable]
  | cons a as ih =>
    unfold firstCapable
    by_cases ha : a.rule.capable gs = true
    · simp only [ha, if_true]
      constructor
      · intro h
        cases h
        exact ⟨0, a, rfl, rfl, ha, fun j' hj' => absurd hj' (Nat.not_lt_zero _)⟩
      · rintro ⟨j, e, hi, _, _, hmin⟩
        cases j with
        | zero => simp [hi]
        | succ j =>
          have := hmin 0 (Nat.succ_pos _) a rfl
          rw [ha] at this; cases this
    · have ha' : a.rule.capable gs = false := by simpa using ha
      simp only [ha', Bool.false_eq_true, if_false]
      rw [ih (k + 1)]
      constructor
      · rintro ⟨j, e, hi, hj, hc, hmin⟩
        refine ⟨j + 1, e, by omega, by simpa using hj, hc, ?_⟩
        intro j' hj' e' he'
        cases j' with
        | zero => simp at he'; rw [← he']; exact ha'
        | succ j' => exact hmin j' (by omega) e' (by simpa using he')
      · rintro ⟨j, e, hi, hj, hc, hmin⟩
        cases j with
        | zero => simp at hj; rw [hj] at ha'; rw [ha'] at hc; cases hc
        | succ j =>
          refine ⟨j, e, by omega, by simpa using hj, hc, ?_⟩
          intro j' hj' e' he'
          exact hmin (j' + 1) (by omega) e' (by simpa using he')

theorem firstCapable_none (gs : List GateCaps) (l : List InstEntry) (k : Nat) :
    firstCapable gs l k = none ↔ ∀ e ∈ l, e.rule.capable gs = false := by
  induction l generalizing k with
  | nil => simp [firstCapable]
  | cons a as ih =>
    unfold firstCapable
    by_cases ha : a.rule.capable gs = true
    · simp [ha]
    · have ha' : a.rule.capable gs = false := by simpa using ha
      simp [ha', ih]

theorem firstNamed_some (s : String) (l : List InstEntry) (k i : Nat) (e : InstEntry) :
    firstNamed s l k = some (i, e) ↔
      ∃ j, i = k + j ∧ l[j]? = some e ∧ (e.name.toLower == s.toLower) = true ∧
        ∀ j' < j, ∀ e', l[j']? = some e' → (e'.name.toLower == s.toLower) = false := by
  induction l generalizing k with
  | nil => simp [firstNamed]
  | cons a as ih =>
    unfold firstNamed
    by_cases ha : (a.name.toLower == s.toLower) = true
    · simp only [ha, if_true]
      constructor
      · intro h
        cases h
        exact ⟨0, rfl, rfl, ha, fun j' hj' => absurd hj' (Nat.not_lt_zero _)⟩
      · rintro ⟨j, hi, hj, _, hmin⟩
        cases j with
        | zero => simp at hj; simp [hi, hj]
        | succ j =>
          have := hmin 0 (Nat.succ_pos _) a rfl
          rw [ha] at this; cases this
    · have ha' : (a.name.toLower == s.toLower) = false := by simpa using ha
      simp only [ha', Bool.false_eq_true, if_false]
      rw [ih (k + 1)]
      constructor
      · rintro ⟨j, hi, hj, hc, hmin⟩
        refine ⟨j + 1, by omega, by simpa using hj, hc, ?_⟩
        intro j' hj' e' he'
        cases j' with
        | zero => simp at he'; rw [← he']; exact ha'
        | succ j' => exact hmin j' (by omega) e' (by simpa using he')
      · rintro ⟨j, hi, hj, hc, hmin⟩
        cases j with
        | zero => simp at hj; rw [hj] at ha'; rw [ha'] at hc; cases hc
        | succ j =>
          refine ⟨j, by omega, by simpa using hj, hc, ?_⟩
          intro j' hj' e' he'
          exact hmin (j' + 1) (by omega) e' (by simpa using he')

theorem firstNamed_none (s : String) (l : List InstEntry) (k : Nat) :
    firstNamed s l k = none ↔ ∀ e ∈ l, (e.name.toLower == s.toLower) = false := by
  induction l generalizing k with
  | nil => simp [firstNamed]
  | cons a as ih =>
    unfold firstNamed
    by_cases ha : (a.name.toLower == s.toLower) = true
    · simp only [ha, if_true]
      constructor
      · intro h; cases h
      · intro h
        have := h a List.mem_cons_self
        rw [ha] at this; cases this
    · have ha' : (a.name.toLower == s.toLower) = false := by simpa using ha
      simp only [ha', Bool.false_eq_true, if_false]
      rw [ih]
      constructor
      · intro h e he
        rcases List.mem_cons.mp he with rfl | he
        · exact ha'
        · exact h e he
      · intro h e he; exact h e (List.mem_cons_of_mem _ he)

end BqVerif.Cost
