import BqVerif.Proofs.KronOps
import BqVerif.Proofs.GraphConn
/-!
General entry-level theorems for the Kronecker/builder model `Model/Kron.lean`:
mixed-radix `digits`/`undigits`, `embed` for an arbitrary gate and location, `dagger`, `npow`, `ipower`.

* (1) `digits_length`, `digits_getD`, `digits_lt`, `undigits_digits(_mod)`, `digits_undigits`, `undigits_lt`
* (2) `embed_at` (main theorem: `apply_*` = explicit computation on the digit string), `embed_at_digits`,
  `embed_identity`, `embed_full`, `embed_mul`, `embed_unitary`, `embed_dagger`
  (`embed_length` is in `KronOps`)
* (3) `dagger_at`, `mul_dagger_left/right`, `mul_assoc`, `mul_identity_left/right`, `npow_add`,
  `ipower_nonneg/neg/add/neg_inverse`, unitarity of `identity`, `mul`, `dagger`, `npow`, `ipower`, `embed`
* `wf_iff_unitary`: the executable `Mono.wf` decides `Mono.Unitary`

Core only, no Mathlib.
-/
namespace BqVerif.Kron

/-- `m` is a monomial UNITARY of dimension `m.length`: rows in range, all rows distinct (hence a
permutation), phases `< 4`. -/
def Mono.Unitary (m : Mono) : Prop :=
  (∀ e ∈ m, e.1 < m.length ∧ e.2 < 4) ∧ (m.map (·.1)).Nodup

/-! ### (1) mixed-radix digits -/
theorem foldl_mul_init (l : List Nat) (a : Nat) : l.foldl (· * ·) a = a * l.foldl (· * ·) 1 := by
  induction l generalizing a with
  | nil => simp
  | cons r l ih => rw [List.foldl_cons, List.foldl_cons, ih, ih (1 * r), Nat.one_mul, Nat.mul_assoc]

@[simp] theorem dim_nil : dim [] = 1 := rfl

theorem dim_cons (r : Nat) (rs : List Nat) : dim (r :: rs) = r * dim rs := by
  unfold dim
  rw [List.foldl_cons, foldl_mul_init, Nat.one_mul]

theorem dim_pos (radixes : List Nat) (hr : ∀ r ∈ radixes, 0 < r) : 0 < dim radixes := by
  induction radixes with
  | nil => simp
  | cons r rs ih =>
    rw [dim_cons]
    exact Nat.mul_pos (hr r (by simp)) (ih (fun r' h => hr r' (by simp [h])))

theorem pos_of_dim_pos (radixes : List Nat) (h : 0 < dim radixes) : ∀ r ∈ radixes, 0 < r := by
  induction radixes with
  | nil => simp
  | cons r rs ih =>
    rw [dim_cons] at h
    intro r' hr'
    rw [List.mem_cons] at hr'
    rcases hr' with rfl | hr'
    · exact Nat.pos_of_mul_pos_right h
    · exact ih (Nat.pos_of_mul_pos_left h) r' hr'

theorem digits_foldr (radixes : List Nat) (x : Nat) :
    radixes.foldr (fun r (acc : List Nat × Nat) => ((acc.2 % r) :: acc.1, acc.2 / r)) ([], x) =
      (digits radixes x, x / dim radixes) := by
  induction radixes with
  | nil => simp [digits]
  | cons r rs ih =>
    unfold digits
    rw [List.foldr_cons, ih, dim_cons, Nat.mul_comm r, ← Nat.div_div_eq_div_mul]

@[simp] theorem digits_nil (x : Nat) : digits [] x = [] := rfl

theorem digits_cons (r : Nat) (rs : List Nat) (x : Nat) :
    digits (r :: rs) x = (x / dim rs % r) :: digits rs x := by
  conv => lhs; unfold digits
  rw [List.foldr_cons, digits_foldr]

theorem digits_length (radixes : List Nat) (x : Nat) : (digits radixes x).length = radixes.length := by
  induction radixes with
  | nil => simp
  | cons r rs ih => rw [digits_cons, List.length_cons, ih, List.length_cons]

/-- closed form of a digit: digit `i` is `x / (product of the radixes right of i) % radixes[i]` -/
theorem digits_getD (radixes : List Nat) (x i : Nat) (hi : i < radixes.length) :
    (digits radixes x).getD i 0 = x / dim (radixes.drop (i + 1)) % radixes.getD i 0 := by
  induction radixes generalizing i with
  | nil => simp at hi
  | cons r rs ih =>
    rw [digits_cons]
    cases i with
    | zero => simp
    | succ i =>
      simp only [List.getD_cons_succ, List.drop_succ_cons]
      exact ih i (by simpa using hi)

/-- each digit is below its radix; only the radix at that position has to be positive -/
theorem digits_lt' (radixes : List Nat) (x i : Nat) (hi : i < radixes.length)
    (hr : 0 < radixes.getD i 0) : (digits radixes x).getD i 0 < radixes.getD i 0 := by
  rw [digits_getD radixes x i hi]
  exact Nat.mod_lt _ hr

theorem getD_pos_of_forall (radixes : List Nat) (hr : ∀ r ∈ radixes, 0 < r) (i : Nat)
    (hi : i < radixes.length) : 0 < radixes.getD i 0 := by
  rw [List.getD_eq_getElem?_getD, List.getElem?_eq_getElem hi, Option.getD_some]
  exact hr _ (List.getElem_mem _)

theorem digits_lt (radixes : List Nat) (x : Nat) (hr : ∀ r ∈ radixes, 0 < r) :
    ∀ i, i < radixes.length → (digits radixes x).getD i 0 < radixes.getD i 0 :=
  fun i hi => digits_lt' radixes x i hi (getD_pos_of_forall radixes hr i hi)

/-- the digit string `ds` is a valid index for `radixes` -/
def DigitsOK (radixes ds : List Nat) : Prop :=
  ds.length = radixes.length ∧ ∀ i, i < ds.length → ds.getD i 0 < radixes.getD i 0

theorem digitsOK_nil : DigitsOK [] [] := ⟨rfl, fun i hi => by simp at hi⟩

theorem digitsOK_cons (r d : Nat) (rs ds : List Nat) :
    DigitsOK (r :: rs) (d :: ds) ↔ d < r ∧ DigitsOK rs ds := by
  unfold DigitsOK
  constructor
  · rintro ⟨hl, hd⟩
    refine ⟨by simpa using hd 0 (by simp), by simpa using hl, fun i hi => ?_⟩
    simpa using hd (i + 1) (by simpa using hi)
  · rintro ⟨h0, hl, hd⟩
    refine ⟨by simpa using hl, fun i hi => ?_⟩
    cases i with
    | zero => simpa using h0
    | succ i => simpa using hd i (by simpa using hi)

theorem digitsOK_digits (radixes : List Nat) (x : Nat) (hr : ∀ r ∈ radixes, 0 < r) :
    DigitsOK radixes (digits radixes x) :=
  ⟨digits_length radixes x, fun i hi => digits_lt radixes x hr i (by rwa [digits_length] at hi)⟩

@[simp] theorem undigits_nil (ds : List Nat) : undigits [] ds = 0 := by simp [undigits]

theorem undigits_foldl_init (rs ds : List Nat) (hl : ds.length = rs.length) (a : Nat) :
    (rs.zip ds).foldl (fun acc rd => acc * rd.1 + rd.2) a =
      a * dim rs + (rs.zip ds).foldl (fun acc rd => acc * rd.1 + rd.2) 0 := by
  induction rs generalizing ds a with
  | nil => simp
  | cons r rs ih =>
    cases ds with
    | nil => simp at hl
    | cons d ds =>
      have hl' : ds.length = rs.length := by simpa using hl
      rw [List.zip_cons_cons, List.foldl_cons, List.foldl_cons, ih ds hl' (a * r + d),
        ih ds hl' (0 * r + d), dim_cons, Nat.zero_mul, Nat.zero_add, Nat.add_mul, Nat.mul_assoc,
        Nat.add_assoc]

theorem undigits_cons (r d : Nat) (rs ds : List Nat) (hl : ds.length = rs.length) :
    undigits (r :: rs) (d :: ds) = d * dim rs + undigits rs ds := by
  unfold undigits
  rw [List.zip_cons_cons, List.foldl_cons, undigits_foldl_init rs ds hl, Nat.zero_mul, Nat.zero_add]

/-- `undigits ∘ digits` is reduction modulo the dimension; no hypothesis at all -/
theorem undigits_digits_mod (radixes : List Nat) (x : Nat) :
    undigits radixes (digits radixes x) = x % dim radixes := by
  induction radixes with
  | nil => simp [Nat.mod_one]
  | cons r rs ih =>
    rw [digits_cons, undigits_cons _ _ _ _ (digits_length rs x), ih, dim_cons, Nat.mul_comm r,
      Nat.mod_mul, Nat.add_comm, Nat.mul_comm]

theorem undigits_digits (radixes : List Nat) (x : Nat) (hx : x < dim radixes) :
    undigits radixes (digits radixes x) = x := by
  rw [undigits_digits_mod, Nat.mod_eq_of_lt hx]

theorem undigits_lt' (radixes ds : List Nat) (h : DigitsOK radixes ds) :
    undigits radixes ds < dim radixes := by
  induction radixes generalizing ds with
  | nil => simp
  | cons r rs ih =>
    cases ds with
    | nil => simp [DigitsOK] at h
    | cons d ds =>
      rw [digitsOK_cons] at h
      rw [undigits_cons _ _ _ _ h.2.1, dim_cons]
      have := ih ds h.2
      have h2 : (d + 1) * dim rs ≤ r * dim rs := Nat.mul_le_mul_right _ h.1
      rw [Nat.add_mul] at h2
      omega

theorem undigits_lt (radixes ds : List Nat) (hl : ds.length = radixes.length)
    (hd : ∀ i, i < ds.length → ds.getD i 0 < radixes.getD i 0) :
    undigits radixes ds < dim radixes := undigits_lt' radixes ds ⟨hl, hd⟩

/-- a multiple of the dimension does not change the digits; no hypothesis -/
theorem digits_add_mul (radixes : List Nat) (k u : Nat) :
    digits radixes (k * dim radixes + u) = digits radixes u := by
  induction radixes generalizing k with
  | nil => simp
  | cons r rs ih =>
    rw [digits_cons, digits_cons, dim_cons, ← Nat.mul_assoc, ih (k * r)]
    congr 1
    by_cases hD : dim rs = 0
    · simp [hD]
    · rw [Nat.add_comm, Nat.add_mul_div_right _ _ (by omega), Nat.add_mul_mod_self_right]

theorem digits_undigits' (radixes ds : List Nat) (h : DigitsOK radixes ds) :
    digits radixes (undigits radixes ds) = ds := by
  induction radixes generalizing ds with
  | nil =>
    cases ds with
    | nil => simp
    | cons d ds => simp [DigitsOK] at h
  | cons r rs ih =>
    cases ds with
    | nil => simp [DigitsOK] at h
    | cons d ds =>
      rw [digitsOK_cons] at h
      have hu := undigits_lt' rs ds h.2
      rw [undigits_cons _ _ _ _ h.2.1, digits_cons, digits_add_mul, ih ds h.2,
        Nat.add_comm, Nat.add_mul_div_right _ _ (by omega), Nat.div_eq_of_lt hu, Nat.zero_add,
        Nat.mod_eq_of_lt h.1]

theorem digits_undigits (radixes ds : List Nat) (hl : ds.length = radixes.length)
    (hd : ∀ i, i < ds.length → ds.getD i 0 < radixes.getD i 0) :
    digits radixes (undigits radixes ds) = ds := digits_undigits' radixes ds ⟨hl, hd⟩

/-! ### `setDigits` -/
@[simp] theorem setDigits_nil_loc (ds sub : List Nat) : setDigits ds [] sub = ds := by simp [setDigits]
@[simp] theorem setDigits_nil_sub (ds loc : List Nat) : setDigits ds loc [] = ds := by simp [setDigits]

theorem setDigits_cons (ds : List Nat) (l s : Nat) (loc sub : List Nat) :
    setDigits ds (l :: loc) (s :: sub) = setDigits (ds.set l s) loc sub := by
  simp [setDigits]

theorem setDigits_length (ds loc sub : List Nat) : (setDigits ds loc sub).length = ds.length := by
  induction loc generalizing ds sub with
  | nil => simp
  | cons l loc ih =>
    cases sub with
    | nil => simp
    | cons s sub => rw [setDigits_cons, ih, List.length_set]

theorem getD_set_ne (ds : List Nat) (l s q : Nat) (h : l ≠ q) : (ds.set l s).getD q 0 = ds.getD q 0 := by
  simp [List.getD_eq_getElem?_getD, h]

theorem getD_set_eq (ds : List Nat) (l s : Nat) (h : l < ds.length) : (ds.set l s).getD l 0 = s := by
  simp [List.getD_eq_getElem?_getD, h]

/-- positions outside `loc` are untouched -/
theorem setDigits_getD_of_not_mem (ds loc sub : List Nat) (q : Nat) (hq : q ∉ loc) :
    (setDigits ds loc sub).getD q 0 = ds.getD q 0 := by
  induction loc generalizing ds sub with
  | nil => simp
  | cons l loc ih =>
    cases sub with
    | nil => simp
    | cons s sub =>
      rw [List.mem_cons, not_or] at hq
      rw [setDigits_cons, ih _ _ hq.2, getD_set_ne _ _ _ _ (fun h => hq.1 h.symm)]

/-- position `loc[k]` receives `sub[k]` (duplicate-free `loc`, in range) -/
theorem setDigits_getD_loc (ds loc sub : List Nat) (hnd : loc.Nodup) (k : Nat) (hk : k < loc.length)
    (hks : k < sub.length) (hlt : loc.getD k 0 < ds.length) :
    (setDigits ds loc sub).getD (loc.getD k 0) 0 = sub.getD k 0 := by
  induction loc generalizing ds sub k with
  | nil => simp at hk
  | cons l loc ih =>
    cases sub with
    | nil => simp at hks
    | cons s sub =>
      rw [List.nodup_cons] at hnd
      rw [setDigits_cons]
      cases k with
      | zero =>
        simp only [List.getD_cons_zero] at hlt ⊢
        rw [setDigits_getD_of_not_mem _ _ _ _ hnd.1, getD_set_eq _ _ _ hlt]
      | succ k =>
        simp only [List.getD_cons_succ] at hlt ⊢
        exact ih _ _ hnd.2 k (by simpa using hk) (by simpa using hks) (by rwa [List.length_set])

/-- writing back the digits that are already there changes nothing; no hypothesis -/
theorem setDigits_self (ds loc : List Nat) : setDigits ds loc (loc.map (fun q => ds.getD q 0)) = ds := by
  induction loc with
  | nil => simp
  | cons l loc ih =>
    rw [List.map_cons, setDigits_cons]
    have : ds.set l (ds.getD l 0) = ds := by
      apply List.ext_getElem?
      intro j
      rw [List.getElem?_set]
      split
      · rename_i h
        subst h
        split
        · rename_i h2
          simp [List.getD_eq_getElem?_getD, List.getElem?_eq_getElem h2]
        · rename_i h2
          simp [List.getElem?_eq_none (Nat.le_of_not_lt h2)]
      · rfl
    rw [this, ih]

theorem getD_map_loc (loc : List Nat) (f : Nat → Nat) (k : Nat) (hk : k < loc.length) :
    (loc.map f).getD k 0 = f (loc.getD k 0) := by
  simp [List.getD_eq_getElem?_getD, List.getElem?_eq_getElem hk]

theorem getD_default_irrel (l : List Nat) (q a b : Nat) (hq : q < l.length) : l.getD q a = l.getD q b := by
  simp [List.getD_eq_getElem?_getD, List.getElem?_eq_getElem hq]

theorem mem_loc_iff_getD (loc : List Nat) (q : Nat) : q ∈ loc ↔ ∃ k, k < loc.length ∧ loc.getD k 0 = q := by
  rw [List.mem_iff_getElem]
  constructor
  · rintro ⟨k, hk, h⟩
    exact ⟨k, hk, by simp [List.getD_eq_getElem?_getD, List.getElem?_eq_getElem hk, h]⟩
  · rintro ⟨k, hk, h⟩
    refine ⟨k, hk, ?_⟩
    simpa [List.getD_eq_getElem?_getD, List.getElem?_eq_getElem hk] using h

theorem getD_mem_loc (loc : List Nat) (k : Nat) (hk : k < loc.length) : loc.getD k 0 ∈ loc :=
  (mem_loc_iff_getD loc _).2 ⟨k, hk, rfl⟩

/-- the radixes of the gate's qudits -/
abbrev subRadixes (loc radixes : List Nat) : List Nat := loc.map (fun q => radixes.getD q 1)

/-- reading the digits at `loc` gives a valid index of the gate (also for out-of-range entries of
`loc`: radix `1`, digit `0`) -/
theorem digitsOK_read (loc radixes ds : List Nat) (hds : DigitsOK radixes ds) :
    DigitsOK (subRadixes loc radixes) (loc.map (fun q => ds.getD q 0)) := by
  refine ⟨by simp, fun i hi => ?_⟩
  have hi' : i < loc.length := by simpa using hi
  rw [getD_map_loc _ _ _ hi', getD_map_loc _ _ _ hi']
  generalize loc.getD i 0 = q
  by_cases hq : q < radixes.length
  · rw [getD_default_irrel radixes _ 1 0 hq]
    exact hds.2 _ (by rw [hds.1]; exact hq)
  · have h1 : radixes.getD q 1 = 1 := by
      rw [List.getD_eq_getElem?_getD, List.getElem?_eq_none (Nat.le_of_not_lt hq)]; rfl
    have h2 : ds.getD q 0 = 0 := by
      rw [List.getD_eq_getElem?_getD, List.getElem?_eq_none (by rw [hds.1]; exact Nat.le_of_not_lt hq)]; rfl
    rw [h1, h2]; exact Nat.one_pos

/-- writing a valid gate index at `loc` into a valid index gives a valid index -/
theorem digitsOK_setDigits (loc radixes ds sub : List Nat) (hnd : loc.Nodup)
    (hlt : ∀ q ∈ loc, q < radixes.length) (hds : DigitsOK radixes ds)
    (hsub : DigitsOK (subRadixes loc radixes) sub) :
    DigitsOK radixes (setDigits ds loc sub) := by
  refine ⟨by rw [setDigits_length, hds.1], fun q hq => ?_⟩
  rw [setDigits_length] at hq
  have hsl : sub.length = loc.length := by simpa using hsub.1
  by_cases hm : q ∈ loc
  · obtain ⟨k, hk, rfl⟩ := (mem_loc_iff_getD loc q).1 hm
    rw [setDigits_getD_loc ds loc sub hnd k hk (by omega) hq]
    have := hsub.2 k (by omega)
    rwa [getD_map_loc _ _ _ hk, getD_default_irrel radixes _ 1 0 (hlt _ hm)] at this
  · rw [setDigits_getD_of_not_mem _ _ _ _ hm]
    exact hds.2 q hq

/-- reading back what was written -/
theorem read_setDigits (loc ds sub : List Nat) (hnd : loc.Nodup) (hlt : ∀ q ∈ loc, q < ds.length)
    (hsl : sub.length = loc.length) :
    loc.map (fun q => (setDigits ds loc sub).getD q 0) = sub := by
  apply List.ext_getElem?
  intro k
  by_cases hk : k < loc.length
  · have h1 := setDigits_getD_loc ds loc sub hnd k hk (by omega) (hlt _ (getD_mem_loc loc k hk))
    rw [List.getElem?_map, List.getElem?_eq_getElem hk, Option.map_some,
      List.getElem?_eq_getElem (by omega : k < sub.length)]
    have h2 : loc.getD k 0 = loc[k] := by
      simp [List.getD_eq_getElem?_getD, List.getElem?_eq_getElem hk]
    have h3 : sub.getD k 0 = sub[k]'(by omega) := by
      simp [List.getD_eq_getElem?_getD, List.getElem?_eq_getElem (by omega : k < sub.length)]
    rw [h2, h3] at h1
    rw [h1]
  · rw [List.getElem?_eq_none (by simp; omega), List.getElem?_eq_none (by omega)]

/-- a second write at the same location overwrites the first -/
theorem setDigits_setDigits (loc ds s1 s2 : List Nat) (hnd : loc.Nodup)
    (hlt : ∀ q ∈ loc, q < ds.length) (h2 : s2.length = loc.length) :
    setDigits (setDigits ds loc s1) loc s2 = setDigits ds loc s2 := by
  apply List.ext_getElem?
  intro q
  have key : (setDigits (setDigits ds loc s1) loc s2).getD q 0 = (setDigits ds loc s2).getD q 0 := by
    by_cases hm : q ∈ loc
    · obtain ⟨k, hk, rfl⟩ := (mem_loc_iff_getD loc q).1 hm
      rw [setDigits_getD_loc _ loc s2 hnd k hk (by omega) (by rw [setDigits_length]; exact hlt _ hm),
        setDigits_getD_loc _ loc s2 hnd k hk (by omega) (hlt _ hm)]
    · rw [setDigits_getD_of_not_mem _ _ _ _ hm, setDigits_getD_of_not_mem _ _ _ _ hm,
        setDigits_getD_of_not_mem _ _ _ _ hm]
  by_cases hq : q < ds.length
  · have l1 : q < (setDigits (setDigits ds loc s1) loc s2).length := by
      rw [setDigits_length, setDigits_length]; exact hq
    have l2 : q < (setDigits ds loc s2).length := by rw [setDigits_length]; exact hq
    rw [List.getD_eq_getElem?_getD, List.getD_eq_getElem?_getD, List.getElem?_eq_getElem l1,
      List.getElem?_eq_getElem l2] at key
    rw [List.getElem?_eq_getElem l1, List.getElem?_eq_getElem l2]
    simpa using key
  · rw [List.getElem?_eq_none (by rw [setDigits_length, setDigits_length]; omega),
      List.getElem?_eq_none (by rw [setDigits_length]; omega)]

/-! ### (2) `embed` -/
theorem subRadixes_pos (loc radixes : List Nat) (hr : ∀ r ∈ radixes, 0 < r) :
    ∀ r ∈ subRadixes loc radixes, 0 < r := by
  intro r hrm
  obtain ⟨q, _, rfl⟩ := List.mem_map.1 hrm
  rw [List.getD_eq_getElem?_getD]
  by_cases hq : q < radixes.length
  · rw [List.getElem?_eq_getElem hq, Option.getD_some]
    exact hr _ (List.getElem_mem _)
  · rw [List.getElem?_eq_none (by omega)]
    simp

/-- the defining formula of `embed`, entry form -/
theorem embed_at_eq (m : Mono) (loc radixes : List Nat) (col : Nat) (hcol : col < dim radixes) :
    (embed m loc radixes).at col =
      (undigits radixes (setDigits (digits radixes col) loc
          (digits (subRadixes loc radixes)
            (m.at (undigits (subRadixes loc radixes)
              (loc.map (fun q => (digits radixes col).getD q 0)))).1)),
        (m.at (undigits (subRadixes loc radixes)
              (loc.map (fun q => (digits radixes col).getD q 0)))).2) := by
  unfold embed
  simp only
  rw [at_map_range _ _ _ hcol]

/-- the gate's column index read off the digits of a valid column is a valid gate column -/
theorem embed_sc_lt (loc radixes : List Nat) (col : Nat) (hcol : col < dim radixes) :
    undigits (subRadixes loc radixes) (loc.map (fun q => (digits radixes col).getD q 0)) <
      dim (subRadixes loc radixes) :=
  undigits_lt' _ _ (digitsOK_read loc radixes _
    (digitsOK_digits radixes col (pos_of_dim_pos radixes (Nat.lt_of_le_of_lt (Nat.zero_le _) hcol))))

/-- the digit string of the row produced by `embed` -/
theorem embed_row_digits (m : Mono) (loc radixes : List Nat) (hloc : loc.Nodup)
    (hlt : ∀ q ∈ loc, q < radixes.length) (col : Nat) (hcol : col < dim radixes) :
    ((embed m loc radixes).at col).1 < dim radixes ∧
    digits radixes ((embed m loc radixes).at col).1 =
      setDigits (digits radixes col) loc
        (digits (subRadixes loc radixes)
          (m.at (undigits (subRadixes loc radixes)
            (loc.map (fun q => (digits radixes col).getD q 0)))).1) := by
  have hr := pos_of_dim_pos radixes (Nat.lt_of_le_of_lt (Nat.zero_le _) hcol)
  have hok := digitsOK_setDigits loc radixes _ _ hloc hlt (digitsOK_digits radixes col hr)
    (digitsOK_digits (subRadixes loc radixes)
      (m.at (undigits (subRadixes loc radixes)
        (loc.map (fun q => (digits radixes col).getD q 0)))).1 (subRadixes_pos loc radixes hr))
  rw [embed_at_eq m loc radixes col hcol]
  exact ⟨undigits_lt' _ _ hok, digits_undigits' _ _ hok⟩

/-- **`embed` on the digit string** (no hypothesis on the gate `m`): the phase is the gate's phase,
the row is a valid index, its digits at `loc` are the digits of the gate's row, the other digits are
those of the column.  `hcol` implies that all radixes are positive. -/
theorem embed_at_digits (m : Mono) (loc radixes : List Nat) (hloc : loc.Nodup)
    (hlt : ∀ q ∈ loc, q < radixes.length) (col : Nat) (hcol : col < dim radixes) :
    let subR := loc.map (radixes.getD · 1)
    let ds := digits radixes col
    let sc := undigits subR (loc.map (ds.getD · 0))
    let e := m.at sc
    let out := (embed m loc radixes).at col
    out.2 = e.2 ∧ out.1 < dim radixes ∧
    (∀ k, k < loc.length →
      (digits radixes out.1).getD (loc.getD k 0) 0 = (digits subR e.1).getD k 0) ∧
    (∀ q, q < radixes.length → q ∉ loc → (digits radixes out.1).getD q 0 = ds.getD q 0) := by
  intro subR ds sc e out
  obtain ⟨h1, h2⟩ := embed_row_digits m loc radixes hloc hlt col hcol
  refine ⟨by simp only [out]; rw [embed_at_eq m loc radixes col hcol], h1, fun k hk => ?_, fun q _ hq => ?_⟩
  · simp only [out]
    rw [h2]
    exact setDigits_getD_loc _ loc _ hloc k hk (by rw [digits_length]; simpa using hk)
      (by rw [digits_length]; exact hlt _ (getD_mem_loc loc k hk))
  · simp only [out]
    rw [h2]
    exact setDigits_getD_of_not_mem _ _ _ _ hq

/-- **Main theorem for `apply_left`/`apply_right`.**  For a gate `m` of the right dimension with rows in
range: on the digit string of the column, `embed m loc radixes` reads the gate's column index `sc` at
`loc` (`sc` is a column of `m`), applies `m`, writes the digits of the gate's row back at `loc` and
leaves all other digits alone; reading the row at `loc` gives exactly the gate's row. -/
theorem embed_at (m : Mono) (loc radixes : List Nat) (hloc : loc.Nodup)
    (hlt : ∀ q ∈ loc, q < radixes.length)
    (hm : m.length = dim (loc.map (radixes.getD · 1)))
    (hrow : ∀ e ∈ m, e.1 < m.length)
    (col : Nat) (hcol : col < dim radixes) :
    let subR := loc.map (radixes.getD · 1)
    let ds := digits radixes col
    let sc := undigits subR (loc.map (ds.getD · 0))
    let e := m.at sc
    let out := (embed m loc radixes).at col
    sc < m.length ∧ out.2 = e.2 ∧ out.1 < dim radixes ∧
    (∀ k, k < loc.length →
      (digits radixes out.1).getD (loc.getD k 0) 0 = (digits subR e.1).getD k 0) ∧
    (∀ q, q < radixes.length → q ∉ loc → (digits radixes out.1).getD q 0 = ds.getD q 0) ∧
    undigits subR (loc.map ((digits radixes out.1).getD · 0)) = e.1 := by
  intro subR ds sc e out
  have hsc : sc < m.length := by rw [hm]; exact embed_sc_lt loc radixes col hcol
  obtain ⟨h1, h2, h3, h4⟩ := embed_at_digits m loc radixes hloc hlt col hcol
  refine ⟨hsc, h1, h2, h3, h4, ?_⟩
  have he : e.1 < dim subR := by
    rw [← hm]
    apply hrow
    simp only [e]
    rw [at_eq_getElem m sc hsc]
    exact List.getElem_mem _
  obtain ⟨_, h5⟩ := embed_row_digits m loc radixes hloc hlt col hcol
  simp only [out]
  rw [h5, read_setDigits loc _ _ hloc (by intro q hq; rw [digits_length]; exact hlt q hq)
    (by rw [digits_length]; simp)]
  exact undigits_digits subR e.1 he

theorem identity_length (d : Nat) : (identity d).length = d := by simp [identity]

theorem identity_at (d c : Nat) (h : c < d) : (identity d).at c = (c, 0) := by
  unfold identity; rw [at_map_range _ _ _ h]

/-- embedding an identity gate gives the identity; NO hypothesis (duplicate or out-of-range
locations and zero radixes included) -/
theorem embed_identity (loc radixes : List Nat) :
    embed (identity (dim (loc.map (radixes.getD · 1)))) loc radixes = identity (dim radixes) := by
  unfold identity embed
  apply List.map_congr_left
  intro c hc
  have hc : c < dim radixes := List.mem_range.1 hc
  have hr := pos_of_dim_pos radixes (Nat.lt_of_le_of_lt (Nat.zero_le _) hc)
  have hok := digitsOK_read loc radixes _ (digitsOK_digits radixes c hr)
  simp only
  rw [at_map_range _ _ _ (embed_sc_lt loc radixes c hc)]
  simp only
  rw [digits_undigits' _ _ hok, setDigits_self, undigits_digits radixes c hc]

theorem map_getD_range' (l : List Nat) (a : Nat) : (List.range l.length).map (fun q => l.getD q a) = l := by
  apply List.ext_getElem
  · simp
  · intro i h1 h2
    simp [List.getD_eq_getElem?_getD, List.getElem?_eq_getElem h2]

theorem setDigits_range (ds sub : List Nat) (h : sub.length = ds.length) :
    setDigits ds (List.range ds.length) sub = sub := by
  apply List.ext_getElem
  · rw [setDigits_length, h]
  · intro i h1 h2
    have hi : i < ds.length := by rwa [setDigits_length] at h1
    have hg : (List.range ds.length).getD i 0 = i := by
      simp [List.getD_eq_getElem?_getD, hi]
    have := setDigits_getD_loc ds (List.range ds.length) sub List.nodup_range i (by simpa using hi) h2
      (by rw [hg]; exact hi)
    rw [hg] at this
    simpa [List.getD_eq_getElem?_getD, List.getElem?_eq_getElem h1, List.getElem?_eq_getElem h2] using this

/-- a gate on all qudits, in order, is the gate itself -/
theorem embed_full (m : Mono) (radixes : List Nat) (hm : m.length = dim radixes)
    (hrow : ∀ e ∈ m, e.1 < m.length) :
    embed m (List.range radixes.length) radixes = m := by
  apply List.ext_getElem
  · rw [embed_length, hm]
  · intro c h1 h2
    have hc : c < dim radixes := by rwa [embed_length] at h1
    rw [← at_eq_getElem _ c h1, embed_at_eq m _ radixes c hc]
    have hsub : subRadixes (List.range radixes.length) radixes = radixes := map_getD_range' radixes 1
    have hread : (List.range radixes.length).map (fun q => (digits radixes c).getD q 0) =
        digits radixes c := by
      have := map_getD_range' (digits radixes c) 0
      rwa [digits_length] at this
    rw [hsub, hread, undigits_digits radixes c hc]
    have hset : ∀ x, setDigits (digits radixes c) (List.range radixes.length) (digits radixes x) =
        digits radixes x := by
      intro x
      have := setDigits_range (digits radixes c) (digits radixes x) (by rw [digits_length, digits_length])
      rwa [digits_length] at this
    have he : (m.at c).1 < dim radixes := by
      rw [← hm]; apply hrow; rw [at_eq_getElem m c h2]; exact List.getElem_mem _
    rw [hset, undigits_digits radixes _ he, at_eq_getElem m c h2]

/-- **embedding is multiplicative**: `Embed(A·B) = Embed(A)·Embed(B)`.  Only `B` has to have the right
dimension and rows in range (`A` is only ever read at rows of `B`). -/
theorem embed_mul (a b : Mono) (loc radixes : List Nat) (hloc : loc.Nodup)
    (hlt : ∀ q ∈ loc, q < radixes.length)
    (hb : b.length = dim (loc.map (radixes.getD · 1))) (hbrow : ∀ e ∈ b, e.1 < b.length) :
    embed (mul a b) loc radixes = mul (embed a loc radixes) (embed b loc radixes) := by
  apply List.ext_getElem
  · rw [mul_length, embed_length, embed_length]
  · intro c h1 h2
    have hc : c < dim radixes := by rwa [embed_length] at h1
    rw [← at_eq_getElem _ c h1, ← at_eq_getElem _ c h2,
      mul_at _ _ c (by rw [embed_length]; exact hc)]
    obtain ⟨hrow1, hdig1⟩ := embed_row_digits b loc radixes hloc hlt c hc
    have hsc : undigits (subRadixes loc radixes) (loc.map (fun q => (digits radixes c).getD q 0)) <
        b.length := by rw [hb]; exact embed_sc_lt loc radixes c hc
    have heb : (b.at (undigits (subRadixes loc radixes)
        (loc.map (fun q => (digits radixes c).getD q 0)))).1 < dim (subRadixes loc radixes) := by
      rw [← hb]; apply hbrow; rw [at_eq_getElem b _ hsc]; exact List.getElem_mem _
    have hdl : ∀ q ∈ loc, q < (digits radixes c).length := by
      intro q hq; rw [digits_length]; exact hlt q hq
    rw [embed_at_eq a loc radixes _ hrow1, hdig1,
      read_setDigits loc _ _ hloc hdl (by rw [digits_length]; simp),
      undigits_digits _ _ heb,
      setDigits_setDigits loc _ _ _ hloc hdl (by rw [digits_length]; simp),
      embed_at_eq (mul a b) loc radixes c hc, mul_at a b _ hsc, embed_at_eq b loc radixes c hc]

/-! ### monomial unitaries -/
theorem at_mem (m : Mono) (c : Nat) (hc : c < m.length) : m.at c ∈ m := by
  rw [at_eq_getElem m c hc]; exact List.getElem_mem _

/-- `Unitary` in terms of the column map `at`: rows in range, phases `< 4`, rows injective -/
theorem unitary_iff_at (m : Mono) : m.Unitary ↔
    (∀ c, c < m.length → (m.at c).1 < m.length ∧ (m.at c).2 < 4) ∧
    (∀ c c', c < m.length → c' < m.length → (m.at c).1 = (m.at c').1 → c = c') := by
  unfold Mono.Unitary
  constructor
  · rintro ⟨h1, h2⟩
    refine ⟨fun c hc => h1 _ (at_mem m c hc), fun c c' hc hc' he => ?_⟩
    rw [at_eq_getElem m c hc, at_eq_getElem m c' hc'] at he
    have := (List.getElem_inj (xs := m.map (·.1)) (i := c) (j := c')
      (h₀ := by simpa using hc) (h₁ := by simpa using hc') h2).1 (by simpa using he)
    exact this
  · rintro ⟨h1, h2⟩
    constructor
    · intro e he
      obtain ⟨i, hi, rfl⟩ := List.mem_iff_getElem.1 he
      rw [← at_eq_getElem m i hi]
      exact h1 i hi
    · rw [List.nodup_iff_pairwise_ne, List.pairwise_iff_getElem]
      intro i j hi hj hij he
      have hi' : i < m.length := by simpa using hi
      have hj' : j < m.length := by simpa using hj
      have := h2 i j hi' hj' (by
        rw [at_eq_getElem m i hi', at_eq_getElem m j hj']; simpa using he)
      omega

theorem Mono.Unitary.row_lt {m : Mono} (hm : m.Unitary) (c : Nat) (hc : c < m.length) :
    (m.at c).1 < m.length := (((unitary_iff_at m).1 hm).1 c hc).1

theorem Mono.Unitary.phase_lt {m : Mono} (hm : m.Unitary) (c : Nat) (hc : c < m.length) :
    (m.at c).2 < 4 := (((unitary_iff_at m).1 hm).1 c hc).2

theorem Mono.Unitary.inj {m : Mono} (hm : m.Unitary) (c c' : Nat) (hc : c < m.length)
    (hc' : c' < m.length) (h : (m.at c).1 = (m.at c').1) : c = c' :=
  ((unitary_iff_at m).1 hm).2 c c' hc hc' h

theorem Mono.Unitary.rows {m : Mono} (hm : m.Unitary) : ∀ e ∈ m, e.1 < m.length :=
  fun e he => (hm.1 e he).1

/-- a monomial unitary is a permutation: every row is hit (pigeonhole) -/
theorem Mono.Unitary.surj {m : Mono} (hm : m.Unitary) (j : Nat) (hj : j < m.length) :
    ∃ c, c < m.length ∧ (m.at c).1 = j := by
  have hmem := BqVerif.Graph.nodup_lt_full (n := m.length) (l := m.map (·.1)) hm.2
    (by
      intro x hx
      obtain ⟨e, he, rfl⟩ := List.mem_map.1 hx
      exact (hm.1 e he).1)
    (by simp) j hj
  obtain ⟨e, he, rfl⟩ := List.mem_map.1 hmem
  obtain ⟨i, hi, rfl⟩ := List.mem_iff_getElem.1 he
  exact ⟨i, hi, by rw [at_eq_getElem m i hi]⟩

theorem identity_unitary (d : Nat) : (identity d).Unitary := by
  rw [unitary_iff_at, identity_length]
  refine ⟨fun c hc => ?_, fun c c' hc hc' h => ?_⟩
  · rw [identity_at d c hc]; exact ⟨hc, Nat.zero_lt_succ 3⟩
  · rwa [identity_at d c hc, identity_at d c' hc'] at h

theorem mul_unitary (a b : Mono) (ha : a.Unitary) (hb : b.Unitary) (hl : a.length = b.length) :
    (mul a b).Unitary := by
  rw [unitary_iff_at, mul_length]
  refine ⟨fun c hc => ?_, fun c c' hc hc' h => ?_⟩
  · rw [mul_at a b c hc]
    have := ha.row_lt _ (by rw [hl]; exact hb.row_lt c hc)
    exact ⟨by rwa [hl] at this, Nat.mod_lt _ (by decide)⟩
  · rw [mul_at a b c hc, mul_at a b c' hc'] at h
    have h1 := ha.inj _ _ (by rw [hl]; exact hb.row_lt c hc) (by rw [hl]; exact hb.row_lt c' hc') h
    exact hb.inj c c' hc hc' h1

/-! ### (3) `dagger` -/
theorem dagger_length (m : Mono) : (dagger m).length = m.length := by simp [dagger]

theorem findIdx_row (m : Mono) (hm : m.Unitary) (c : Nat) (hc : c < m.length) :
    m.findIdx (fun e => e.1 == (m.at c).1) = c := by
  rw [List.findIdx_eq hc]
  refine ⟨by rw [at_eq_getElem m c hc]; simp, fun j hj => ?_⟩
  have hjl : j < m.length := by omega
  have : (m.at j).1 ≠ (m.at c).1 := fun h => by
    have := hm.inj j c hjl hc h
    omega
  rw [at_eq_getElem m j hjl] at this
  simpa using this

/-- `M†` sends the row of column `c` back to `c`, with the opposite phase -/
theorem dagger_at (m : Mono) (hm : m.Unitary) (c : Nat) (hc : c < m.length) :
    (dagger m).at (m.at c).1 = (c, (4 - (m.at c).2) % 4) := by
  unfold dagger
  rw [at_map_range _ _ _ (hm.row_lt c hc)]
  simp only
  rw [findIdx_row m hm c hc]

theorem mul_dagger_left (m : Mono) (hm : m.Unitary) : mul (dagger m) m = identity m.length := by
  apply tab_ext
  · rw [mul_length]
  · intro c hc
    rw [mul_at _ _ c hc, dagger_at m hm c hc]
    have := hm.phase_lt c hc
    simp only [Prod.mk.injEq, true_and]
    omega

theorem mul_dagger_right (m : Mono) (hm : m.Unitary) : mul m (dagger m) = identity m.length := by
  apply tab_ext
  · rw [mul_length, dagger_length]
  · intro j hj
    obtain ⟨c, hc, rfl⟩ := hm.surj j hj
    rw [mul_at _ _ _ (by rw [dagger_length]; exact hj), dagger_at m hm c hc]
    have := hm.phase_lt c hc
    simp only
    rw [Prod.mk.injEq]
    exact ⟨rfl, by omega⟩

theorem dagger_unitary (m : Mono) (hm : m.Unitary) : (dagger m).Unitary := by
  rw [unitary_iff_at, dagger_length]
  refine ⟨fun j hj => ?_, fun j j' hj hj' h => ?_⟩
  · obtain ⟨c, hc, rfl⟩ := hm.surj j hj
    rw [dagger_at m hm c hc]
    exact ⟨hc, Nat.mod_lt _ (by decide)⟩
  · obtain ⟨c, hc, rfl⟩ := hm.surj j hj
    obtain ⟨c', hc', rfl⟩ := hm.surj j' hj'
    rw [dagger_at m hm c hc, dagger_at m hm c' hc'] at h
    simp only at h
    rw [h]

/-! ### associativity, identity, powers -/
/-- `(A·B)·C = A·(B·C)`; exact guard: the rows of `C` are columns of `B` -/
theorem mul_assoc (a b c : Mono) (hc : ∀ e ∈ c, e.1 < b.length) :
    mul (mul a b) c = mul a (mul b c) := by
  apply List.ext_getElem
  · rw [mul_length, mul_length, mul_length]
  · intro k h1 h2
    have hk : k < c.length := by rwa [mul_length] at h1
    rw [← at_eq_getElem _ k h1, ← at_eq_getElem _ k h2, mul_at _ _ k hk,
      mul_at _ _ k (by rw [mul_length]; exact hk), mul_at b c k hk,
      mul_at a b _ (hc _ (at_mem c k hk))]
    simp only [Prod.mk.injEq, true_and]
    omega

/-- exact guards: rows of `m` below `d`, phases `< 4` (the product reduces phases mod 4) -/
theorem mul_identity_left (m : Mono) (d : Nat) (hm : ∀ e ∈ m, e.1 < d ∧ e.2 < 4) :
    mul (identity d) m = m := by
  apply List.ext_getElem
  · rw [mul_length]
  · intro k h1 h2
    rw [← at_eq_getElem _ k h1, mul_at _ _ k h2]
    obtain ⟨h3, h4⟩ := hm _ (at_mem m k h2)
    rw [identity_at d _ h3, ← at_eq_getElem m k h2]
    simp only
    rw [Nat.add_zero, Nat.mod_eq_of_lt h4]

theorem mul_identity_right (m : Mono) (hm : ∀ e ∈ m, e.2 < 4) :
    mul m (identity m.length) = m := by
  apply List.ext_getElem
  · rw [mul_length, identity_length]
  · intro k h1 h2
    rw [← at_eq_getElem _ k h1, mul_at _ _ k (by rw [identity_length]; exact h2),
      identity_at _ k h2, ← at_eq_getElem m k h2]
    have h4 := hm _ (at_mem m k h2)
    simp only
    rw [Nat.zero_add, Nat.mod_eq_of_lt h4]

theorem npow_length (m : Mono) (k : Nat) : (npow m k).length = m.length := by
  cases k with
  | zero => simp [npow, identity_length]
  | succ k => simp [npow, mul_length]

theorem mul_phase_lt (a b : Mono) : ∀ e ∈ mul a b, e.2 < 4 := by
  intro e he
  unfold mul at he
  obtain ⟨f, _, rfl⟩ := List.mem_map.1 he
  exact Nat.mod_lt _ (by omega)

theorem npow_phase_lt (m : Mono) (k : Nat) : ∀ e ∈ npow m k, e.2 < 4 := by
  cases k with
  | zero =>
    intro e he
    obtain ⟨c, _, rfl⟩ := List.mem_map.1 he
    exact Nat.zero_lt_succ 3
  | succ k => exact mul_phase_lt _ _

/-- exact guard: rows of `m` in range (phases are arbitrary) -/
theorem npow_add_of_rows (m : Mono) (hm : ∀ e ∈ m, e.1 < m.length) (a b : Nat) :
    npow m (a + b) = mul (npow m a) (npow m b) := by
  induction b with
  | zero =>
    have := mul_identity_right (npow m a) (npow_phase_lt m a)
    rw [npow_length] at this
    rw [Nat.add_zero, npow, this]
  | succ b ih =>
    rw [← Nat.add_assoc, npow, ih, npow, mul_assoc _ _ _ (by rw [npow_length]; exact hm)]

theorem npow_add (m : Mono) (hm : m.Unitary) (a b : Nat) :
    npow m (a + b) = mul (npow m a) (npow m b) := npow_add_of_rows m hm.rows a b

theorem npow_unitary (m : Mono) (hm : m.Unitary) (k : Nat) : (npow m k).Unitary := by
  induction k with
  | zero => exact identity_unitary _
  | succ k ih => exact mul_unitary _ _ ih hm (npow_length m k)

theorem ipower_nonneg (m : Mono) (k : Nat) : ipower m k = npow m k := by
  unfold ipower
  rw [if_neg (by omega)]
  rfl

theorem ipower_neg (m : Mono) (k : Nat) (hk : 0 < k) : ipower m (-(k : Int)) = npow (dagger m) k := by
  unfold ipower
  rw [if_pos (by omega)]
  congr 1
  omega

theorem ipower_length (m : Mono) (k : Int) : (ipower m k).length = m.length := by
  unfold ipower
  split
  · rw [npow_length, dagger_length]
  · rw [npow_length]

theorem ipower_unitary (m : Mono) (hm : m.Unitary) (k : Int) : (ipower m k).Unitary := by
  unfold ipower
  split
  · exact npow_unitary _ (dagger_unitary m hm) _
  · exact npow_unitary _ hm _

theorem Mono.Unitary.all {m : Mono} (hm : m.Unitary) (d : Nat) (hd : m.length = d) :
    ∀ e ∈ m, e.1 < d ∧ e.2 < 4 := by subst hd; exact hm.1

theorem ipower_succ (m : Mono) (hm : m.Unitary) (k : Int) : ipower m (k + 1) = mul (ipower m k) m := by
  rcases k with n | n
  · rw [Int.ofNat_eq_natCast]
    rw [show ((n : Int) + 1 : Int) = ((n + 1 : Nat) : Int) by omega, ipower_nonneg, ipower_nonneg, npow]
  · rw [show (Int.negSucc n : Int) = -((n + 1 : Nat) : Int) by omega, ipower_neg _ _ (by omega), npow,
      mul_assoc _ _ _ (by rw [dagger_length]; exact hm.rows), mul_dagger_left m hm]
    have h1 := mul_identity_right (npow (dagger m) n) (npow_phase_lt _ n)
    rw [npow_length, dagger_length] at h1
    rw [h1]
    cases n with
    | zero => simp [ipower, npow, dagger_length]
    | succ n =>
      rw [show (-((n + 1 + 1 : Nat) : Int) + 1 : Int) = -((n + 1 : Nat) : Int) by omega,
        ipower_neg _ _ (by omega)]

theorem ipower_pred (m : Mono) (hm : m.Unitary) (k : Int) :
    ipower m (k - 1) = mul (ipower m k) (dagger m) := by
  rcases k with n | n
  · cases n with
    | zero =>
      rw [Int.ofNat_eq_natCast,
        show (((0 : Nat) : Int) - 1 : Int) = -((1 : Nat) : Int) by omega, ipower_neg _ _ (by omega)]
      simp [ipower, npow, dagger_length]
    | succ n =>
      rw [Int.ofNat_eq_natCast,
        show (((n + 1 : Nat) : Int) - 1 : Int) = (n : Int) by omega, ipower_nonneg,
        ipower_nonneg, npow,
        mul_assoc _ _ _ (by intro e he; exact (dagger_unitary m hm).rows e he |> fun h => by rwa [dagger_length] at h),
        mul_dagger_right m hm]
      have h1 := mul_identity_right (npow m n) (npow_phase_lt _ n)
      rw [npow_length] at h1
      rw [h1]
  · rw [show (Int.negSucc n - 1 : Int) = -((n + 1 + 1 : Nat) : Int) by omega, ipower_neg _ _ (by omega),
      show (Int.negSucc n : Int) = -((n + 1 : Nat) : Int) by omega, ipower_neg _ _ (by omega)]
    rfl

/-- **group law**: `ipower m` is a homomorphism `ℤ → matrices` -/
theorem ipower_add (m : Mono) (hm : m.Unitary) (a b : Int) :
    ipower m (a + b) = mul (ipower m a) (ipower m b) := by
  have hpos : ∀ n : Nat, ipower m (a + (n : Int)) = mul (ipower m a) (ipower m (n : Int)) := by
    intro n
    induction n with
    | zero =>
      have h1 := mul_identity_right (ipower m a) (fun e he => ((ipower_unitary m hm a).1 e he).2)
      rw [ipower_length] at h1
      simp only [Int.natCast_zero, Int.add_zero]
      rw [show ipower m 0 = identity m.length by simp [ipower, npow], h1]
    | succ n ih =>
      rw [show (a + ((n + 1 : Nat) : Int) : Int) = (a + (n : Int)) + 1 by omega, ipower_succ m hm, ih,
        show (((n + 1 : Nat) : Int) : Int) = (n : Int) + 1 by omega, ipower_succ m hm,
        mul_assoc _ _ _ (by rw [ipower_length]; exact hm.rows)]
  have hneg : ∀ n : Nat, ipower m (a - (n : Int)) = mul (ipower m a) (ipower m (-(n : Int))) := by
    intro n
    induction n with
    | zero =>
      have := hpos 0
      simpa using this
    | succ n ih =>
      rw [show (a - ((n + 1 : Nat) : Int) : Int) = (a - (n : Int)) - 1 by omega, ipower_pred m hm, ih,
        show (-((n + 1 : Nat) : Int) : Int) = -(n : Int) - 1 by omega, ipower_pred m hm,
        mul_assoc _ _ _ (by
          rw [ipower_length]; intro e he
          have := (dagger_unitary m hm).rows e he
          rwa [dagger_length] at this)]
  rcases b with n | n
  · exact hpos n
  · have := hneg (n + 1)
    rw [show (a + Int.negSucc n : Int) = a - ((n + 1 : Nat) : Int) by omega,
      show (Int.negSucc n : Int) = -((n + 1 : Nat) : Int) by omega]
    exact this

/-- `ipower m (-k)` is the inverse of `ipower m k` -/
theorem ipower_neg_inverse (m : Mono) (hm : m.Unitary) (k : Int) :
    mul (ipower m (-k)) (ipower m k) = identity m.length := by
  rw [← ipower_add m hm, show (-k + k : Int) = 0 by omega]
  simp [ipower, npow]

/-! ### `embed` preserves unitarity -/
theorem embed_unitary (m : Mono) (loc radixes : List Nat) (hm : m.Unitary) (hloc : loc.Nodup)
    (hlt : ∀ q ∈ loc, q < radixes.length) (hml : m.length = dim (loc.map (radixes.getD · 1))) :
    (embed m loc radixes).Unitary := by
  rw [unitary_iff_at, embed_length]
  have hsc : ∀ c, c < dim radixes →
      undigits (subRadixes loc radixes) (loc.map (fun q => (digits radixes c).getD q 0)) < m.length :=
    fun c hc => by rw [hml]; exact embed_sc_lt loc radixes c hc
  refine ⟨fun c hc => ?_, fun c c' hc hc' h => ?_⟩
  · refine ⟨(embed_row_digits m loc radixes hloc hlt c hc).1, ?_⟩
    rw [embed_at_eq m loc radixes c hc]
    exact hm.phase_lt _ (hsc c hc)
  · obtain ⟨_, h1⟩ := embed_row_digits m loc radixes hloc hlt c hc
    obtain ⟨_, h2⟩ := embed_row_digits m loc radixes hloc hlt c' hc'
    rw [h] at h1
    rw [h1] at h2
    -- `h2 : setDigits ds loc s = setDigits ds' loc s'`
    have hdl : ∀ c, ∀ q ∈ loc, q < (digits radixes c).length := by
      intro c q hq; rw [digits_length]; exact hlt q hq
    have hsl : ∀ x, (digits (subRadixes loc radixes) x).length = loc.length := by
      intro x; rw [digits_length]; simp
    have hread := congrArg (fun l => loc.map (fun q => l.getD q 0)) h2
    rw [read_setDigits loc _ _ hloc (hdl c) (hsl _), read_setDigits loc _ _ hloc (hdl c') (hsl _)] at hread
    have hrow := congrArg (undigits (subRadixes loc radixes)) hread
    rw [undigits_digits _ _ (by rw [← hml]; exact hm.row_lt _ (hsc c hc)),
      undigits_digits _ _ (by rw [← hml]; exact hm.row_lt _ (hsc c' hc'))] at hrow
    have hsceq := hm.inj _ _ (hsc c hc) (hsc c' hc') hrow
    have hr := pos_of_dim_pos radixes (Nat.lt_of_le_of_lt (Nat.zero_le _) hc)
    have hrd := congrArg (digits (subRadixes loc radixes)) hsceq
    rw [digits_undigits' _ _ (digitsOK_read loc radixes _ (digitsOK_digits radixes c hr)),
      digits_undigits' _ _ (digitsOK_read loc radixes _ (digitsOK_digits radixes c' hr))] at hrd
    have e1 := setDigits_setDigits loc (digits radixes c)
      (digits (subRadixes loc radixes) (m.at (undigits (subRadixes loc radixes)
        (loc.map (fun q => (digits radixes c).getD q 0)))).1)
      (loc.map (fun q => (digits radixes c).getD q 0)) hloc (hdl c) (by simp)
    have e2 := setDigits_setDigits loc (digits radixes c')
      (digits (subRadixes loc radixes) (m.at (undigits (subRadixes loc radixes)
        (loc.map (fun q => (digits radixes c').getD q 0)))).1)
      (loc.map (fun q => (digits radixes c').getD q 0)) hloc (hdl c') (by simp)
    rw [setDigits_self] at e1 e2
    rw [h2, hrd, e2] at e1
    have := congrArg (undigits radixes) e1
    rw [undigits_digits radixes c hc, undigits_digits radixes c' hc'] at this
    exact this.symm

/-! ### the executable check `Mono.wf` decides `Mono.Unitary` -/
theorem length_eraseDups_le : ∀ (n : Nat) (l : List Nat), l.length ≤ n → l.eraseDups.length ≤ l.length
  | 0, l, h => by
    cases l with
    | nil => simp
    | cons a as => simp at h
  | n + 1, l, h => by
    cases l with
    | nil => simp
    | cons a as =>
      rw [List.eraseDups_cons, List.length_cons, List.length_cons]
      have h1 : (as.filter fun b => !b == a).length ≤ as.length := List.length_filter_le _ _
      have h2 := length_eraseDups_le n (as.filter fun b => !b == a) (by simp at h; omega)
      omega

theorem nodup_of_length_eraseDups : ∀ (n : Nat) (l : List Nat), l.length ≤ n →
    l.eraseDups.length = l.length → l.Nodup
  | 0, l, h, _ => by
    cases l with
    | nil => simp
    | cons a as => simp at h
  | n + 1, l, h, he => by
    cases l with
    | nil => simp
    | cons a as =>
      rw [List.eraseDups_cons, List.length_cons, List.length_cons] at he
      have h1 : (as.filter fun b => !b == a).length ≤ as.length := List.length_filter_le _ _
      have h2 := length_eraseDups_le _ (as.filter fun b => !b == a) (Nat.le_refl _)
      have h3 : (as.filter fun b => !b == a).length = as.length := by omega
      have h4 := List.length_filter_eq_length_iff.1 h3
      have h5 : (as.filter fun b => !b == a) = as := List.filter_eq_self.2 h4
      rw [h5] at he
      rw [List.nodup_cons]
      refine ⟨fun hmem => ?_, nodup_of_length_eraseDups n as (by simp at h; omega) (by omega)⟩
      have := h4 a hmem
      simp at this

theorem length_eraseDups_eq_iff_nodup (l : List Nat) : l.eraseDups.length = l.length ↔ l.Nodup :=
  ⟨nodup_of_length_eraseDups l.length l (Nat.le_refl _),
   fun h => by rw [BqVerif.Graph.eraseDups_eq_self_of_nodup l h]⟩

theorem wf_iff_unitary (m : Mono) : m.wf = true ↔ m.Unitary := by
  unfold Mono.wf Mono.Unitary
  rw [Bool.and_eq_true, List.all_eq_true, beq_iff_eq]
  have h : (m.map (·.1)).eraseDups.length = m.length ↔ (m.map (·.1)).Nodup := by
    have := length_eraseDups_eq_iff_nodup (m.map (·.1))
    rwa [List.length_map] at this
  rw [h]
  constructor
  · rintro ⟨h1, h2⟩
    exact ⟨fun e he => by simpa using h1 e he, h2⟩
  · rintro ⟨h1, h2⟩
    exact ⟨fun e he => by simpa using h1 e he, h2⟩

/-! ### inverses are unique; `embed` commutes with `dagger` -/
/-- a left inverse of a monomial unitary is its `dagger` -/
theorem eq_dagger_of_mul_eq_identity (x e : Mono) (hx : x.Unitary) (he : e.Unitary)
    (hl : x.length = e.length) (h : mul x e = identity e.length) : x = dagger e := by
  have h1 := mul_identity_right x (fun f hf => (hx.1 f hf).2)
  have hde := dagger_unitary e he
  rw [hl, ← mul_dagger_right e he,
    ← mul_assoc x e (dagger e) (by intro f hf; have := hde.rows f hf; rwa [dagger_length] at this),
    h, mul_identity_left (dagger e) e.length (hde.all _ (dagger_length e))] at h1
  exact h1.symm

theorem dagger_dagger (m : Mono) (hm : m.Unitary) : dagger (dagger m) = m := by
  have := eq_dagger_of_mul_eq_identity m (dagger m) hm (dagger_unitary m hm) (dagger_length m).symm
    (by rw [mul_dagger_right m hm, dagger_length])
  exact this.symm

/-- `apply_*(…, inverse=True)`: embedding the conjugate transpose is the conjugate transpose of the
embedding -/
theorem embed_dagger (m : Mono) (loc radixes : List Nat) (hm : m.Unitary) (hloc : loc.Nodup)
    (hlt : ∀ q ∈ loc, q < radixes.length) (hml : m.length = dim (loc.map (radixes.getD · 1))) :
    embed (dagger m) loc radixes = dagger (embed m loc radixes) := by
  apply eq_dagger_of_mul_eq_identity
  · exact embed_unitary _ loc radixes (dagger_unitary m hm) hloc hlt (by rw [dagger_length]; exact hml)
  · exact embed_unitary m loc radixes hm hloc hlt hml
  · rw [embed_length, embed_length]
  · rw [← embed_mul (dagger m) m loc radixes hloc hlt hml hm.rows, mul_dagger_left m hm, hml,
      embed_identity, embed_length]

/-! ### the builder keeps a monomial unitary -/
theorem zip_all_eq_map (loc rs radixes : List Nat) (hl : loc.length = rs.length)
    (h : (loc.zip rs).all (fun lr => radixes.getD lr.1 0 == lr.2) = true) :
    rs = loc.map (fun q => radixes.getD q 0) := by
  induction loc generalizing rs with
  | nil =>
    cases rs with
    | nil => rfl
    | cons r rs => simp at hl
  | cons l loc ih =>
    cases rs with
    | nil => simp at hl
    | cons r rs =>
      rw [List.zip_cons_cons, List.all_cons, Bool.and_eq_true, beq_iff_eq] at h
      rw [List.map_cons, ← ih rs (by simpa using hl) h.2, h.1]

/-- what the argument checks of `apply_left`/`apply_right` give: exactly the guards of the `embed`
theorems -/
theorem Op.ok_spec (o : Op) (radixes : List Nat) (h : o.ok radixes = true) :
    o.loc.Nodup ∧ (∀ q ∈ o.loc, q < radixes.length) ∧
    o.radixes = o.loc.map (radixes.getD · 1) ∧
    o.m.length = dim (o.loc.map (radixes.getD · 1)) := by
  unfold Op.ok validLocation at h
  simp only [Bool.and_eq_true, beq_iff_eq, List.all_eq_true, decide_eq_true_eq] at h
  obtain ⟨⟨⟨⟨h1, h2⟩, h3⟩, h4⟩, h5⟩ := h
  have hr : o.radixes = o.loc.map (radixes.getD · 1) := by
    rw [zip_all_eq_map o.loc o.radixes radixes h3 (by simpa [List.all_eq_true] using h4)]
    apply List.map_congr_left
    intro q hq
    exact getD_default_irrel radixes q 0 1 (h1 q hq)
  exact ⟨(length_eraseDups_eq_iff_nodup o.loc).1 h2, h1, hr, by rw [h5, hr]⟩

theorem applyOp_unitary (radixes : List Nat) (u : Mono) (o : Op) (hu : u.Unitary)
    (hul : u.length = dim radixes) (hm : o.m.Unitary) (hok : o.ok radixes = true) :
    (applyOp radixes u o).Unitary ∧ (applyOp radixes u o).length = dim radixes := by
  obtain ⟨h1, h2, _, h4⟩ := Op.ok_spec o radixes hok
  have hg : ∀ g : Mono, g.Unitary → g.length = o.m.length →
      (embed g o.loc radixes).Unitary := fun g hg hgl =>
    embed_unitary g o.loc radixes hg h1 h2 (by rw [hgl]; exact h4)
  have hg' : (embed (if o.inverse then dagger o.m else o.m) o.loc radixes).Unitary := by
    split
    · exact hg _ (dagger_unitary _ hm) (dagger_length _)
    · exact hg _ hm rfl
  unfold applyOp
  simp only
  cases o.side with
  | right =>
    exact ⟨mul_unitary _ _ hg' hu (by rw [embed_length, hul]), by rw [mul_length, hul]⟩
  | left =>
    exact ⟨mul_unitary _ _ hu hg' (by rw [embed_length, hul]), by rw [mul_length, embed_length]⟩

/-- `UnitaryBuilder`: if every apply passes the argument checks and every operand is a monomial
unitary, no apply raises and `get_unitary()` is a monomial unitary of the full dimension -/
theorem build_unitary (radixes : List Nat) (ops : List Op)
    (hops : ∀ o ∈ ops, o.ok radixes = true ∧ o.m.Unitary) :
    ∃ u, build radixes ops = some u ∧ u.Unitary ∧ u.length = dim radixes := by
  rw [build_eq]
  have : ∀ (u : Mono), u.Unitary → u.length = dim radixes →
      ∃ v, ops.foldl (buildStep radixes) (some u) = some v ∧ v.Unitary ∧ v.length = dim radixes := by
    induction ops with
    | nil => intro u hu hul; exact ⟨u, rfl, hu, hul⟩
    | cons o ops ih =>
      intro u hu hul
      obtain ⟨hok, hm⟩ := hops o (by simp)
      rw [List.foldl_cons]
      simp only [buildStep, hok, if_true]
      obtain ⟨h1, h2⟩ := applyOp_unitary radixes u o hu hul hm hok
      exact ih (fun o' ho' => hops o' (by simp [ho'])) _ h1 h2
  exact this _ (identity_unitary _) (identity_length _)

/-! ### non-vacuity, sanity checks, exactness of the guards -/
section Examples
/-- a controlled phase-ish monomial gate on two qubits -/
private def g4 : Mono := [(0, 0), (1, 1), (3, 2), (2, 3)]
/-- a gate on a qutrit and a qubit (radixes `[3, 2]`) -/
private def g6 : Mono := [(1, 0), (0, 1), (3, 2), (2, 3), (5, 0), (4, 1)]

example : g4.Unitary := (wf_iff_unitary g4).1 (by decide)
example : g6.Unitary := (wf_iff_unitary g6).1 (by decide)
example : ¬ Mono.Unitary [(0, 0), (0, 1)] := fun h => by
  have := (wf_iff_unitary _).2 h; revert this; decide

-- (1) digits
example : digits [2, 3, 2] 11 = [1, 2, 1] := by decide
example : undigits [2, 3, 2] [1, 2, 1] = 11 := by decide
example : dim [2, 3, 2] = 12 := by decide
example : (digits [2, 3, 2] 100).length = 3 := digits_length _ _
example : ∀ i, i < 3 → (digits [2, 3, 2] 100).getD i 0 < [2, 3, 2].getD i 0 :=
  digits_lt [2, 3, 2] 100 (by decide)
/-- `digits_lt` needs a positive radix -/
example : ¬ (digits [2, 0] 5).getD 1 0 < [2, 0].getD 1 0 := by decide
example : undigits [2, 3, 2] (digits [2, 3, 2] 7) = 7 := undigits_digits _ _ (by decide)
/-- `undigits_digits` needs `x < dim radixes` -/
example : undigits [2, 3] (digits [2, 3] 7) ≠ 7 := by decide
example : digits [2, 3, 2] (undigits [2, 3, 2] [1, 0, 1]) = [1, 0, 1] :=
  digits_undigits _ _ rfl (by decide)
/-- `digits_undigits` needs the digit bound and the length -/
example : digits [2, 2] (undigits [2, 2] [0, 3]) ≠ [0, 3] := by decide
example : digits [2, 2] (undigits [2, 2] [1, 1, 1]) ≠ [1, 1, 1] := by decide
example : undigits [2, 3, 2] [1, 0, 1] < dim [2, 3, 2] := undigits_lt _ _ rfl (by decide)
example : ¬ undigits [2, 2] [0, 5] < dim [2, 2] := by decide

-- (2) embed
example : embed g6 [1, 2] [2, 3, 2] =
    [(1, 0), (0, 1), (3, 2), (2, 3), (5, 0), (4, 1), (7, 0), (6, 1), (9, 2), (8, 3), (11, 0), (10, 1)] := by
  decide
example : embed g6 [2, 0] [2, 2, 3] =
    [(6, 0), (7, 2), (8, 0), (9, 0), (10, 2), (11, 0), (0, 1), (1, 3), (2, 1), (3, 1), (4, 3), (5, 1)] := by
  decide
example :
    let subR := [2, 0].map ([2, 2, 3].getD · 1)
    let ds := digits [2, 2, 3] 7
    let sc := undigits subR ([2, 0].map (ds.getD · 0))
    let e := g6.at sc
    let out := (embed g6 [2, 0] [2, 2, 3]).at 7
    sc < g6.length ∧ out.2 = e.2 ∧ out.1 < dim [2, 2, 3] ∧
    (∀ k, k < [2, 0].length →
      (digits [2, 2, 3] out.1).getD ([2, 0].getD k 0) 0 = (digits subR e.1).getD k 0) ∧
    (∀ q, q < [2, 2, 3].length → q ∉ [2, 0] → (digits [2, 2, 3] out.1).getD q 0 = ds.getD q 0) ∧
    undigits subR ([2, 0].map ((digits [2, 2, 3] out.1).getD · 0)) = e.1 :=
  embed_at g6 [2, 0] [2, 2, 3] (by decide) (by decide) (by decide) (by decide) 7 (by decide)
/-- `embed_at` needs a duplicate-free location: the write-back clause fails for `loc = [0, 0]` -/
example : ¬ ((digits [2] ((embed [(1, 0), (2, 0), (3, 0), (0, 0)] [0, 0] [2]).at 0).1).getD 0 0 =
    (digits [2, 2] (Mono.at [(1, 0), (2, 0), (3, 0), (0, 0)] 0).1).getD 0 0) := by decide
/-- `embed_at` needs `col < dim radixes`: outside, `at` is the default `(0, 0)` -/
example : ((embed g4 [0, 1] [2, 2]).at 5).2 ≠
    (g4.at (undigits [2, 2] ([0, 1].map ((digits [2, 2] 5).getD · 0)))).2 := by decide
example : embed (identity (dim ([2, 0].map ([2, 2, 3].getD · 1)))) [2, 0] [2, 2, 3] = identity 12 :=
  embed_identity [2, 0] [2, 2, 3]
example : embed g6 (List.range 2) [3, 2] = g6 := embed_full g6 [3, 2] (by decide) (by decide)
/-- `embed_full` needs rows in range (the row is reduced modulo the dimension) and the right length -/
example : embed [(5, 0), (0, 0)] (List.range 1) [2] ≠ [(5, 0), (0, 0)] := by decide
example : embed [(0, 0)] (List.range 1) [2] ≠ [(0, 0)] := by decide
example : embed (mul g6 g6) [2, 0] [2, 2, 3] = mul (embed g6 [2, 0] [2, 2, 3]) (embed g6 [2, 0] [2, 2, 3]) :=
  embed_mul g6 g6 [2, 0] [2, 2, 3] (by decide) (by decide) (by decide) (by decide)
/-- `embed_mul` needs a duplicate-free location, rows of `b` in range, and `b` of the right length -/
example : embed (mul [(1, 0), (0, 0), (0, 0), (0, 0)] [(2, 0), (0, 0), (0, 0), (0, 0)]) [0, 0] [2, 2] ≠
    mul (embed [(1, 0), (0, 0), (0, 0), (0, 0)] [0, 0] [2, 2])
      (embed [(2, 0), (0, 0), (0, 0), (0, 0)] [0, 0] [2, 2]) := by decide
example : embed (mul [(1, 0), (0, 0)] [(2, 0), (0, 0)]) [0] [2, 2] ≠
    mul (embed [(1, 0), (0, 0)] [0] [2, 2]) (embed [(2, 0), (0, 0)] [0] [2, 2]) := by decide
example : embed (mul [(1, 0), (0, 0)] [(0, 0)]) [0] [2, 2] ≠
    mul (embed [(1, 0), (0, 0)] [0] [2, 2]) (embed [(0, 0)] [0] [2, 2]) := by decide
example : (embed g6 [2, 0] [2, 2, 3]).Unitary :=
  embed_unitary g6 [2, 0] [2, 2, 3] ((wf_iff_unitary g6).1 (by decide)) (by decide) (by decide) (by decide)
/-- `embed_unitary` needs a duplicate-free location -/
example : (embed g4 [0, 0] [2, 2]).wf = false := by decide
example : embed (dagger g6) [2, 0] [2, 2, 3] = dagger (embed g6 [2, 0] [2, 2, 3]) :=
  embed_dagger g6 [2, 0] [2, 2, 3] ((wf_iff_unitary g6).1 (by decide)) (by decide) (by decide) (by decide)

-- (3) dagger, powers
example : dagger g4 = [(0, 0), (1, 3), (3, 1), (2, 2)] := by decide
example : (dagger g4).at (g4.at 2).1 = (2, (4 - (g4.at 2).2) % 4) :=
  dagger_at g4 ((wf_iff_unitary g4).1 (by decide)) 2 (by decide)
/-- `dagger_at` needs distinct rows -/
example : (dagger [(0, 0), (0, 1)]).at (Mono.at [(0, 0), (0, 1)] 1).1 ≠
    (1, (4 - (Mono.at [(0, 0), (0, 1)] 1).2) % 4) := by decide
example : mul (dagger g6) g6 = identity 6 := mul_dagger_left g6 ((wf_iff_unitary g6).1 (by decide))
example : mul g6 (dagger g6) = identity 6 := mul_dagger_right g6 ((wf_iff_unitary g6).1 (by decide))
/-- `mul_dagger_left` needs phases `< 4`, `mul_dagger_right` needs a permutation -/
example : mul (dagger [(0, 5)]) [(0, 5)] ≠ identity 1 := by decide
example : mul [(0, 0), (0, 0)] (dagger [(0, 0), (0, 0)]) ≠ identity 2 := by decide
example : mul (mul g4 (dagger g4)) g4 = mul g4 (mul (dagger g4) g4) :=
  mul_assoc g4 (dagger g4) g4 (by decide)
/-- `mul_assoc` needs the rows of `c` to be columns of `b` -/
example : mul (mul [(1, 0), (0, 0)] [(0, 0)]) [(1, 0)] ≠ mul [(1, 0), (0, 0)] (mul [(0, 0)] [(1, 0)]) := by
  decide
example : mul (identity 4) g4 = g4 := mul_identity_left g4 4 (by decide)
example : mul g4 (identity 4) = g4 := mul_identity_right g4 (by decide)
/-- the identity laws need phases `< 4` (and rows in range on the left) -/
example : mul (identity 1) [(0, 5)] ≠ [(0, 5)] := by decide
example : mul [(0, 5)] (identity 1) ≠ [(0, 5)] := by decide
example : mul (identity 1) [(3, 0)] ≠ [(3, 0)] := by decide
example : npow g4 (2 + 3) = mul (npow g4 2) (npow g4 3) :=
  npow_add g4 ((wf_iff_unitary g4).1 (by decide)) 2 3
/-- `npow_add` needs rows in range -/
example : npow [(1, 0), (0, 0), (5, 0)] (1 + 1) ≠
    mul (npow [(1, 0), (0, 0), (5, 0)] 1) (npow [(1, 0), (0, 0), (5, 0)] 1) := by decide
example : ipower g4 (-(3 : Nat)) = npow (dagger g4) 3 := ipower_neg g4 3 (by decide)
example : ipower g4 (2 + -5) = mul (ipower g4 2) (ipower g4 (-5)) :=
  ipower_add g4 ((wf_iff_unitary g4).1 (by decide)) 2 (-5)
example : mul (ipower g6 (-3)) (ipower g6 3) = identity 6 :=
  ipower_neg_inverse g6 ((wf_iff_unitary g6).1 (by decide)) 3
/-- the tables printed by the Python code (`UnitaryMatrix.ipower`, `UnitaryBuilder.apply_right`) -/
example : ipower g6 3 = [(1, 1), (0, 2), (3, 3), (2, 0), (5, 1), (4, 2)] := by decide
example : ipower g6 (-3) = [(1, 2), (0, 3), (3, 0), (2, 1), (5, 2), (4, 3)] := by decide
example : dagger g6 = [(1, 3), (0, 0), (3, 1), (2, 2), (5, 3), (4, 0)] := by decide
example : embed (dagger g6) [2, 0] [2, 2, 3] =
    [(6, 3), (7, 1), (8, 3), (9, 3), (10, 1), (11, 3), (0, 0), (1, 2), (2, 0), (3, 0), (4, 2), (5, 0)] := by
  decide
/-- the group law needs a unitary -/
example : ipower [(0, 0), (0, 0)] (1 + -1) ≠ mul (ipower [(0, 0), (0, 0)] 1) (ipower [(0, 0), (0, 0)] (-1)) := by
  decide
example : ∃ u, build [2, 2, 3]
    [{ side := .right, inverse := true, loc := [2, 0], radixes := [3, 2], m := g6 },
     { side := .left, inverse := false, loc := [0, 1], radixes := [2, 2], m := g4 }] = some u ∧
    u.Unitary ∧ u.length = dim [2, 2, 3] :=
  build_unitary _ _ (by
    intro o ho
    simp only [List.mem_cons, List.not_mem_nil, or_false] at ho
    rcases ho with rfl | rfl
    · exact ⟨by decide, (wf_iff_unitary g6).1 (by decide)⟩
    · exact ⟨by decide, (wf_iff_unitary g4).1 (by decide)⟩)
end Examples

end BqVerif.Kron
