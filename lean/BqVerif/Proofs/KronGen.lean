import BqVerif.Proofs.KronOps
import BqVerif.Proofs.GraphConn
/-!
General entry-level theorems for the Kronecker/builder model `Model/Kron.lean`:
mixed-radix `digits`/`undigits`, `embed` for an arbitrary gate and location, `dagger`, `npow`, `ipower`.

Core only, no Mathlib.
-/
namespace BqVerif.Kron

/-- `m` is a monomial UNITARY of dimension `m.length`: rows in range, all rows distinct (hence a
permutation), phases `< 4`. -/
def Mono.Unitary (m : Mono) : Prop :=
  (∀ e ∈ m, e.1 < m.length ∧ e.2 < 4) ∧ (m.map (·.1)).Nodup

/-! ### (1) mixed-radix digits -/
theorem foldl_mul_init (l : List Nat) (a : Nat) : l.foldl (· * ·) a = a * l.foldl (· * ·) 1 := by
  induction l generalizing a with
  | nil => simp
  | cons r l ih => rw [List.foldl_cons, List.foldl_cons, ih, ih (1 * r), Nat.one_mul, Nat.mul_assoc]

@[simp] theorem dim_nil : dim [] = 1 := rfl

theorem dim_cons (r : Nat) (rs : List Nat) : dim (r :: rs) = r * dim rs := by
  unfold dim
  rw [List.foldl_cons, foldl_mul_init, Nat.one_mul]

theorem dim_pos (radixes : List Nat) (hr : ∀ r ∈ radixes, 0 < r) : 0 < dim radixes := by
  induction radixes with
  | nil => simp
  | cons r rs ih =>
    rw [dim_cons]
    exact Nat.mul_pos (hr r (by simp)) (ih (fun r' h => hr r' (by simp [h])))

theorem pos_of_dim_pos (radixes : List Nat) (h : 0 < dim radixes) : ∀ r ∈ radixes, 0 < r := by
  induction radixes with
  | nil => simp
  | cons r rs ih =>
    rw [dim_cons] at h
    intro r' hr'
    rw [List.mem_cons] at hr'
    rcases hr' with rfl | hr'
    · exact Nat.pos_of_mul_pos_right h
    · exact ih (Nat.pos_of_mul_pos_left h) r' hr'

theorem digits_foldr (radixes : List Nat) (x : Nat) :
    radixes.foldr (fun r (acc : List Nat × Nat) => ((acc.2 % r) :: acc.1, acc.2 / r)) ([], x) =
      (digits radixes x, x / dim radixes) := by
  induction radixes with
  | nil => simp [digits]
  | cons r rs ih =>
    unfold digits
    rw [List.foldr_cons, ih, dim_cons, Nat.mul_comm r, ← Nat.div_div_eq_div_mul]

@[simp] theorem digits_nil (x : Nat) : digits [] x = [] := rfl

theorem digits_cons (r : Nat) (rs : List Nat) (x : Nat) :
    digits (r :: rs) x = (x / dim rs % r) :: digits rs x := by
  conv => lhs; unfold digits
  rw [List.foldr_cons, digits_foldr]

theorem digits_length (radixes : List Nat) (x : Nat) : (digits radixes x).length = radixes.length := by
  induction radixes with
  | nil => simp
  | cons r rs ih => rw [digits_cons, List.length_cons, ih, List.length_cons]

/-- closed form of a digit: digit `i` is `x / (product of the radixes right of i) % radixes[i]` -/
theorem digits_getD (radixes : List Nat) (x i : Nat) (hi : i < radixes.length) :
    (digits radixes x).getD i 0 = x / dim (radixes.drop (i + 1)) % radixes.getD i 0 := by
  induction radixes generalizing i with
  | nil => simp at hi
  | cons r rs ih =>
    rw [digits_cons]
    cases i with
    | zero => simp
    | succ i =>
      simp only [List.getD_cons_succ, List.drop_succ_cons]
      exact ih i (by simpa using hi)

/-- each digit is below its radix; only the radix at that position has to be positive -/
theorem digits_lt' (radixes : List Nat) (x i : Nat) (hi : i < radixes.length)
    (hr : 0 < radixes.getD i 0) : (digits radixes x).getD i 0 < radixes.getD i 0 := by
  rw [digits_getD radixes x i hi]
  exact Nat.mod_lt _ hr

theorem getD_pos_of_forall (radixes : List Nat) (hr : ∀ r ∈ radixes, 0 < r) (i : Nat)
    (hi : i < radixes.length) : 0 < radixes.getD i 0 := by
  rw [List.getD_eq_getElem?_getD, List.getElem?_eq_getElem hi, Option.getD_some]
  exact hr _ (List.getElem_mem _)

theorem digits_lt (radixes : List Nat) (x : Nat) (hr : ∀ r ∈ radixes, 0 < r) :
    ∀ i, i < radixes.length → (digits radixes x).getD i 0 < radixes.getD i 0 :=
  fun i hi => digits_lt' radixes x i hi (getD_pos_of_forall radixes hr i hi)

/-- the digit string `ds` is a valid index for `radixes` -/
def DigitsOK (radixes ds : List Nat) : Prop :=
  ds.length = radixes.length ∧ ∀ i, i < ds.length → ds.getD i 0 < radixes.getD i 0

theorem digitsOK_nil : DigitsOK [] [] := ⟨rfl, fun i hi => by simp at hi⟩

theorem digitsOK_cons (r d : Nat) (rs ds : List Nat) :
    DigitsOK (r :: rs) (d :: ds) ↔ d < r ∧ DigitsOK rs ds := by
  unfold DigitsOK
  constructor
  · rintro ⟨hl, hd⟩
    refine ⟨by simpa using hd 0 (by simp), by simpa using hl, fun i hi => ?_⟩
    simpa using hd (i + 1) (by simpa using hi)
  · rintro ⟨h0, hl, hd⟩
    refine ⟨by simpa using hl, fun i hi => ?_⟩
    cases i with
    | zero => simpa using h0
    | succ i => simpa using hd i (by simpa using hi)

theorem digitsOK_digits (radixes : List Nat) (x : Nat) (hr : ∀ r ∈ radixes, 0 < r) :
    DigitsOK radixes (digits radixes x) :=
  ⟨digits_length radixes x, fun i hi => digits_lt radixes x hr i (by rwa [digits_length] at hi)⟩

@[simp] theorem undigits_nil (ds : List Nat) : undigits [] ds = 0 := by simp [undigits]

theorem undigits_foldl_init (rs ds : List Nat) (hl : ds.length = rs.length) (a : Nat) :
    (rs.zip ds).foldl (fun acc rd => acc * rd.1 + rd.2) a =
      a * dim rs + (rs.zip ds).foldl (fun acc rd => acc * rd.1 + rd.2) 0 := by
  induction rs generalizing ds a with
  | nil => simp
  | cons r rs ih =>
    cases ds with
    | nil => simp at hl
    | cons d ds =>
      have hl' : ds.length = rs.length := by simpa using hl
      rw [List.zip_cons_cons, List.foldl_cons, List.foldl_cons, ih ds hl' (a * r + d),
        ih ds hl' (0 * r + d), dim_cons, Nat.zero_mul, Nat.zero_add, Nat.add_mul, Nat.mul_assoc,
        Nat.add_assoc]

theorem undigits_cons (r d : Nat) (rs ds : List Nat) (hl : ds.length = rs.length) :
    undigits (r :: rs) (d :: ds) = d * dim rs + undigits rs ds := by
  unfold undigits
  rw [List.zip_cons_cons, List.foldl_cons, undigits_foldl_init rs ds hl, Nat.zero_mul, Nat.zero_add]

/-- `undigits ∘ digits` is reduction modulo the dimension; no hypothesis at all -/
theorem undigits_digits_mod (radixes : List Nat) (x : Nat) :
    undigits radixes (digits radixes x) = x % dim radixes := by
  induction radixes with
  | nil => simp [Nat.mod_one]
  | cons r rs ih =>
    rw [digits_cons, undigits_cons _ _ _ _ (digits_length rs x), ih, dim_cons, Nat.mul_comm r,
      Nat.mod_mul, Nat.add_comm, Nat.mul_comm]

theorem undigits_digits (radixes : List Nat) (x : Nat) (hx : x < dim radixes) :
    undigits radixes (digits radixes x) = x := by
  rw [undigits_digits_mod, Nat.mod_eq_of_lt hx]

theorem undigits_lt' (radixes ds : List Nat) (h : DigitsOK radixes ds) :
    undigits radixes ds < dim radixes := by
  induction radixes generalizing ds with
  | nil => simp
  | cons r rs ih =>
    cases ds with
    | nil => simp [DigitsOK] at h
    | cons d ds =>
      rw [digitsOK_cons] at h
      rw [undigits_cons _ _ _ _ h.2.1, dim_cons]
      have := ih ds h.2
      have h2 : (d + 1) * dim rs ≤ r * dim rs := Nat.mul_le_mul_right _ h.1
      rw [Nat.add_mul] at h2
      omega

theorem undigits_lt (radixes ds : List Nat) (hl : ds.length = radixes.length)
    (hd : ∀ i, i < ds.length → ds.getD i 0 < radixes.getD i 0) :
    undigits radixes ds < dim radixes := undigits_lt' radixes ds ⟨hl, hd⟩

/-- a multiple of the dimension does not change the digits; no hypothesis -/
theorem digits_add_mul (radixes : List Nat) (k u : Nat) :
    digits radixes (k * dim radixes + u) = digits radixes u := by
  induction radixes generalizing k with
  | nil => simp
  | cons r rs ih =>
    rw [digits_cons, digits_cons, dim_cons, ← Nat.mul_assoc, ih (k * r)]
    congr 1
    by_cases hD : dim rs = 0
    · simp [hD]
    · rw [Nat.add_comm, Nat.add_mul_div_right _ _ (by omega), Nat.add_mul_mod_self_right]

theorem digits_undigits' (radixes ds : List Nat) (h : DigitsOK radixes ds) :
    digits radixes (undigits radixes ds) = ds := by
  induction radixes generalizing ds with
  | nil =>
    cases ds with
    | nil => simp
    | cons d ds => simp [DigitsOK] at h
  | cons r rs ih =>
    cases ds with
    | nil => simp [DigitsOK] at h
    | cons d ds =>
      rw [digitsOK_cons] at h
      have hu := undigits_lt' rs ds h.2
      rw [undigits_cons _ _ _ _ h.2.1, digits_cons, digits_add_mul, ih ds h.2,
        Nat.add_comm, Nat.add_mul_div_right _ _ (by omega), Nat.div_eq_of_lt hu, Nat.zero_add,
        Nat.mod_eq_of_lt h.1]

theorem digits_undigits (radixes ds : List Nat) (hl : ds.length = radixes.length)
    (hd : ∀ i, i < ds.length → ds.getD i 0 < radixes.getD i 0) :
    digits radixes (undigits radixes ds) = ds := digits_undigits' radixes ds ⟨hl, hd⟩

end BqVerif.Kron
