import BqVerif.Proofs.GatesBase
import Mathlib.Analysis.Real.Sqrt
import Mathlib.Data.Complex.Basic
import Mathlib.Data.ZMod.Basic
/-! Witnesses for the non-vacuity examples of Props/C18.lean: the hypotheses on the
constants and on angles are satisfiable in `ℂ` (with a non-trivial angle). -/
namespace BqVerif.Gates
open Complex

noncomputable def K0 : Consts ℂ := ⟨Complex.I, 1 / 2, ((Real.sqrt 2 / 2 : ℝ) : ℂ), 3⟩

theorem K0_valid : K0.Valid where
  ii := by simp [K0]
  si := by simp [K0]
  hh := by simp [K0]; norm_num
  sh := by simp [K0]
  rr := by
    simp only [K0]
    rw [← Complex.ofReal_mul]
    have : Real.sqrt 2 / 2 * (Real.sqrt 2 / 2) = 1 / 2 := by
      have h := Real.mul_self_sqrt (show (0 : ℝ) ≤ 2 by norm_num)
      nlinarith [h]
    rw [this]; simp
  sr := by simp [K0]

/-- the angle with `cos = 3/5`, `sin = 4/5` -/
noncomputable def a0 : Ang ℂ := ⟨3 / 5, 4 / 5⟩

theorem a0_valid : a0.Valid where
  circ := by simp [a0]; norm_num
  rc := by simp [a0]
  rs := by simp [a0]

theorem a0_nontrivial : a0.s ≠ 0 := by simp [a0]

end BqVerif.Gates
