import BqVerif.Proofs.QasmPrec
/-! # Lark accepts every well-formed expression

`W true ts` : `ts` is an operand (`-`* followed by a number, a name, `( … )` or `f( … )`);
`W false ts` : `ts` is operand (binop operand)*.  Every rendering of a tree without spliced
values is well-formed, and the Lark-level parser `qExp` (greedy `usub`, shift preferred)
accepts every well-formed string completely. -/
namespace BqVerif.Qasm

variable {V : Type}

def isBinTok : ETok V → Bool
  | .plus => true | .minus => true | .star => true | .slash => true | .pow => true
  | _ => false

/-- well-formed operand (`true`) / expression (`false`) token strings -/
inductive W : Bool → List (ETok V) → Prop where
  | lit (s : String) : W true [.lit s]
  | name (s : String) : W true [.name s]
  | paren {ts : List (ETok V)} : W false ts → W true (.lp :: ts ++ [.rp])
  | call (g : Fn) {ts : List (ETok V)} : W false ts → W true (.fn g :: .lp :: ts ++ [.rp])
  | neg {ts : List (ETok V)} : W true ts → W true (.minus :: ts)
  | single {ts : List (ETok V)} : W true ts → W false ts
  | bin {a rest : List (ETok V)} (b : ETok V) :
      W true a → isBinTok b = true → W false rest → W false (a ++ b :: rest)

/-- a prefix minus attaches to the first operand -/
theorem W.negExpr {ts : List (ETok V)} (h : W false ts) : W false (.minus :: ts) := by
  cases h with
  | single ho => exact .single (.neg ho)
  | bin b ha hb hr => exact .bin (a := .minus :: _) b (.neg ha) hb hr

theorem W.append {x y : List (ETok V)} (b : ETok V) (hb : isBinTok b = true)
    (hx : W false x) (hy : W false y) : W false (x ++ b :: y) := by
  generalize hk : false = k at hx
  induction hx with
  | lit s => cases hk
  | name s => cases hk
  | paren _ _ => cases hk
  | call _ _ _ => cases hk
  | neg _ _ => cases hk
  | single ho _ => exact .bin b ho hb hy
  | bin b' ha hb' _ _ ih =>
    rw [List.append_assoc]
    exact .bin b' ha hb' (by simpa using ih rfl)

theorem W.nonempty {k : Bool} {ts : List (ETok V)} (h : W k ts) : ts ≠ [] := by
  induction h with
  | lit s => simp
  | name s => simp
  | paren _ _ => simp
  | call _ _ _ => simp
  | neg _ _ => simp
  | single _ ih => exact ih
  | bin b _ _ _ iha _ => intro h; simp at h

/-- the tree has no spliced value token -/
def PE.noVal : PE V → Bool
  | .lit _ => true
  | .val _ => false
  | .name _ => true
  | .neg e => e.noVal
  | .bin _ l r => l.noVal && r.noVal
  | .pow a b => a.noVal && b.noVal
  | .call _ e => e.noVal

theorem BOp.tok_isBin (op : BOp) : isBinTok (op.tok : ETok V) = true := by
  cases op <;> rfl

theorem wrap_W {b : Bool} {ts : List (ETok V)} (h : W false ts) : W false (wrap b ts) := by
  cases b
  · exact h
  · exact .single (.paren h)

/-- every rendering is well-formed; at level 3 it is an operand -/
theorem render_W (e : PE V) (he : e.noVal = true) :
    (∀ ctx, W false (render ctx e)) ∧ W true (render 3 e) := by
  induction e with
  | lit s => exact ⟨fun _ => .single (.lit s), .lit s⟩
  | val v => simp [PE.noVal] at he
  | name s => exact ⟨fun _ => .single (.name s), .name s⟩
  | call g x ih =>
    have := (ih (by simpa [PE.noVal] using he)).1 0
    exact ⟨fun _ => .single (.call g this), .call g this⟩
  | neg x ih =>
    have hx := (ih (by simpa [PE.noVal] using he)).1 2
    have hb : W false (.minus :: render 2 x) := W.negExpr hx
    refine ⟨fun ctx => by simp only [render]; exact wrap_W hb, ?_⟩
    simp only [render, wrap, show decide (2 < 3) = true from rfl, if_true]
    exact .paren hb
  | pow a b iha ihb =>
    simp only [PE.noVal, Bool.and_eq_true] at he
    have ha := (iha he.1).2
    have hb := (ihb he.2).1 2
    have hbody : W false (render 3 a ++ .pow :: render 2 b) := .bin .pow ha rfl hb
    refine ⟨fun ctx => by simp only [render]; exact wrap_W hbody, ?_⟩
    simp only [render, wrap, show decide (2 < 3) = true from rfl, if_true]
    exact .paren hbody
  | bin op l r ihl ihr =>
    simp only [PE.noVal, Bool.and_eq_true] at he
    have hl := (ihl he.1).1 op.level
    have hr := (ihr he.2).1 (op.level + 1)
    have hbody : W false (render op.level l ++ op.tok :: render (op.level + 1) r) :=
      W.append _ (BOp.tok_isBin op) hl hr
    refine ⟨fun ctx => by simp only [render]; exact wrap_W hbody, ?_⟩
    have hlt : decide (op.level < 3) = true := by cases op <;> rfl
    simp only [render, wrap, hlt, if_true]
    exact .paren hbody

/-! ## acceptance -/

/-- what may follow a complete expression: the end, or a closing parenthesis -/
def Delim (D : List (ETok V)) : Prop := D = [] ∨ ∃ r, D = .rp :: r

/-- remainder after a `primaryexp`: nothing, or a non-`^` operator and a well-formed rest -/
def Rem1 (rem : List (ETok V)) : Prop :=
  rem = [] ∨ ∃ b rest, rem = b :: rest ∧ (b = .plus ∨ b = .minus ∨ b = .star ∨ b = .slash) ∧
    W false rest
/-- remainder after a `mulexp` -/
def Rem0 (rem : List (ETok V)) : Prop :=
  rem = [] ∨ ∃ b rest, rem = b :: rest ∧ (b = .plus ∨ b = .minus) ∧ W false rest

theorem qExpLoop_delim (f : Nat) (acc : QE V) (D : List (ETok V)) (hD : Delim D) :
    qExpLoop (f + 1) acc D = some (acc, D) := by
  unfold qExpLoop
  rcases hD with rfl | ⟨r, rfl⟩ <;> rfl
theorem qMulLoop_delim (f : Nat) (acc : QE V) (D : List (ETok V)) (hD : Delim D) :
    qMulLoop (f + 1) acc D = some (acc, D) := by
  unfold qMulLoop
  rcases hD with rfl | ⟨r, rfl⟩ <;> rfl

/-- the five acceptance statements for strings of length ≤ n -/
structure Acc (n : Nat) : Prop where
  exp : ∀ (ts : List (ETok V)), ts.length ≤ n → W false ts → ∀ D, Delim D →
    ∀ f, 8 * ts.length + 8 ≤ f → ∃ q, qExp f (ts ++ D) = some (q, D)
  prim : ∀ (ts : List (ETok V)), ts.length ≤ n → W false ts → ∀ D, Delim D →
    ∀ f, 8 * ts.length + 6 ≤ f → ∃ q rem, qPrim f (ts ++ D) = some (q, rem ++ D) ∧
      Rem1 rem ∧ rem.length < ts.length
  mul : ∀ (ts : List (ETok V)), ts.length ≤ n → W false ts → ∀ D, Delim D →
    ∀ f, 8 * ts.length + 7 ≤ f → ∃ q rem, qMul f (ts ++ D) = some (q, rem ++ D) ∧
      Rem0 rem ∧ rem.length < ts.length
  mulLoop : ∀ (acc : QE V) (rem : List (ETok V)), rem.length ≤ n → Rem1 rem → ∀ D, Delim D →
    ∀ f, 8 * rem.length + 7 ≤ f → ∃ q rem', qMulLoop f acc (rem ++ D) = some (q, rem' ++ D) ∧
      Rem0 rem' ∧ rem'.length ≤ rem.length
  expLoop : ∀ (acc : QE V) (rem : List (ETok V)), rem.length ≤ n → Rem0 rem → ∀ D, Delim D →
    ∀ f, 8 * rem.length + 8 ≤ f → ∃ q, qExpLoop f acc (rem ++ D) = some (q, D)

theorem delim_rp (r : List (ETok V)) : Delim (.rp :: r) := Or.inr ⟨r, rfl⟩

theorem delim_not_pow {D : List (ETok V)} (hD : Delim D) : ∀ r, D ≠ .pow :: r := by
  intro r h
  rcases hD with rfl | ⟨r', rfl⟩ <;> simp at h

/-- an operand that does not start with `-` is read by `qAtom` whatever follows -/
theorem operand_atom (n : Nat) (ih : Acc (V := V) n) (a : List (ETok V)) (ha : W true a)
    (hlen : a.length ≤ n + 1) (tail : List (ETok V)) (f : Nat) (hf : 8 * a.length + 4 ≤ f) :
    (∃ a', a = .minus :: a' ∧ W true a') ∨ (∃ q, qAtom f (a ++ tail) = some (q, tail)) := by
  obtain ⟨k, rfl⟩ : ∃ k, f = k + 1 := ⟨f - 1, by omega⟩
  generalize hk : true = kk at ha
  cases ha with
  | lit s => exact Or.inr ⟨.num s, by simp [qAtom]⟩
  | name s => exact Or.inr ⟨.id s, by simp [qAtom]⟩
  | @paren inner hin =>
    right
    simp only [List.length_cons, List.length_append, List.length_nil] at hlen hf
    obtain ⟨q, hq⟩ := ih.exp inner (by omega) hin (.rp :: tail) (delim_rp tail) k (by omega)
    refine ⟨.paren q, ?_⟩
    simp only [List.cons_append, List.append_assoc, List.nil_append]
    unfold qAtom
    simp [hq]
  | @call g inner hin =>
    right
    simp only [List.length_cons, List.length_append, List.length_nil] at hlen hf
    obtain ⟨q, hq⟩ := ih.exp inner (by omega) hin (.rp :: tail) (delim_rp tail) k (by omega)
    refine ⟨.call g q, ?_⟩
    simp only [List.cons_append, List.append_assoc, List.nil_append]
    unfold qAtom
    simp [hq]
  | @neg a' ha' => exact Or.inl ⟨a', rfl, ha'⟩
  | single _ => cases hk
  | bin _ _ _ _ => cases hk

theorem binTok_cases {b : ETok V} (hb : isBinTok b = true) :
    b = .pow ∨ b = .plus ∨ b = .minus ∨ b = .star ∨ b = .slash := by
  cases b <;> simp_all [isBinTok]

/-- `primaryexp` on well-formed strings of length ≤ n+1 -/
theorem prim_step (n : Nat) (ih : Acc (V := V) n) :
    ∀ (ts : List (ETok V)), ts.length ≤ n + 1 → W false ts → ∀ D, Delim D →
    ∀ f, 8 * ts.length + 6 ≤ f → ∃ q rem, qPrim f (ts ++ D) = some (q, rem ++ D) ∧
      Rem1 rem ∧ rem.length < ts.length := by
  intro ts hlen hW D hD f hf
  obtain ⟨k, rfl⟩ : ∃ k, f = k + 1 := ⟨f - 1, by omega⟩
  generalize hk : false = kk at hW
  cases hW with
  | lit s => cases hk
  | name s => cases hk
  | paren _ => cases hk
  | call _ _ => cases hk
  | neg _ => cases hk
  | single ha =>
    rcases operand_atom n ih ts ha hlen D k (by omega) with ⟨a', rfl, ha'⟩ | ⟨q, hq⟩
    · -- - operand
      simp only [List.length_cons] at hlen hf
      obtain ⟨j, rfl⟩ : ∃ j, k = j + 1 := ⟨k - 1, by omega⟩
      obtain ⟨q, hq⟩ := ih.exp a' (by omega) (.single ha') D hD j (by omega)
      refine ⟨.usub q, [], ?_, Or.inl rfl, by simp⟩
      have hne := delim_not_pow hD
      simp only [List.cons_append, List.nil_append]
      unfold qPrim qAtom
      simp only [hq, Option.bind_some]
      try (split
           · rename_i r heq; exact absurd heq (hne r)
           · rfl)
    · refine ⟨q, [], ?_, Or.inl rfl, ?_⟩
      · have hne := delim_not_pow hD
        simp only [List.nil_append]
        unfold qPrim
        simp only [hq, Option.bind_some]
        try (split
             · rename_i r heq; exact absurd heq (hne r)
             · rfl)
      · have := W.nonempty ha
        cases ts with
        | nil => exact absurd rfl this
        | cons _ _ => simp
  | @bin a rest b ha hb hrest =>
    simp only [List.length_append, List.length_cons] at hlen hf
    have hassoc : (a ++ b :: rest) ++ D = a ++ (b :: (rest ++ D)) := by simp
    rw [hassoc]
    rcases operand_atom n ih a ha (by omega) (b :: (rest ++ D)) k (by omega) with
      ⟨a', rfl, ha'⟩ | ⟨q, hq⟩
    · -- `- a' b rest`: the greedy usub takes everything up to the delimiter
      simp only [List.length_cons] at hlen hf
      obtain ⟨j, rfl⟩ : ∃ j, k = j + 1 := ⟨k - 1, by omega⟩
      have hW' : W false (a' ++ b :: rest) := .bin b ha' hb hrest
      obtain ⟨q, hq⟩ := ih.exp (a' ++ b :: rest)
        (by simp only [List.length_append, List.length_cons]; omega) hW' D hD j
        (by simp only [List.length_append, List.length_cons]; omega)
      refine ⟨.usub q, [], ?_, Or.inl rfl, by simp⟩
      have hne := delim_not_pow hD
      have hassoc' : (a' ++ b :: rest) ++ D = a' ++ b :: (rest ++ D) := by simp
      rw [hassoc'] at hq
      simp only [List.cons_append, List.nil_append]
      unfold qPrim qAtom
      simp only [hq, Option.bind_some]
      try (split
           · rename_i r heq; exact absurd heq (hne r)
           · rfl)
    · unfold qPrim
      simp only [hq, Option.bind_some]
      rcases binTok_cases hb with rfl | hb'
      · -- pow: continue with the right operand(s)
        obtain ⟨q2, rem, hq2, hrem, hlt⟩ := ih.prim rest (by omega) hrest D hD k (by omega)
        refine ⟨.pow q q2, rem, by simp [hq2], hrem, by simp; omega⟩
      · have hapos : 0 < a.length := by
          have := W.nonempty ha
          cases a with
          | nil => exact absurd rfl this
          | cons _ _ => simp
        refine ⟨q, b :: rest, ?_, Or.inr ⟨b, rest, rfl, hb', hrest⟩, by simp; omega⟩
        rcases hb' with rfl | rfl | rfl | rfl <;> simp

theorem mulLoop_step (n : Nat) (ih : Acc (V := V) n) :
    ∀ (acc : QE V) (rem : List (ETok V)), rem.length ≤ n + 1 → Rem1 rem → ∀ D, Delim D →
    ∀ f, 8 * rem.length + 7 ≤ f → ∃ q rem', qMulLoop f acc (rem ++ D) = some (q, rem' ++ D) ∧
      Rem0 rem' ∧ rem'.length ≤ rem.length := by
  intro acc rem hlen hrem D hD f hf
  obtain ⟨k, rfl⟩ : ∃ k, f = k + 1 := ⟨f - 1, by omega⟩
  rcases hrem with rfl | ⟨b, rest, rfl, hb, hrest⟩
  · exact ⟨acc, [], by simpa using qMulLoop_delim k acc D hD, Or.inl rfl, by simp⟩
  · simp only [List.length_cons] at hlen hf
    have hprim := ih.prim rest (by omega) hrest D hD k (by omega)
    obtain ⟨q, rem2, hq, hrem2, hlt⟩ := hprim
    rcases hb with rfl | rfl | rfl | rfl
    · exact ⟨acc, .plus :: rest, by simp [qMulLoop],
        Or.inr ⟨.plus, rest, rfl, Or.inl rfl, hrest⟩, by simp⟩
    · exact ⟨acc, .minus :: rest, by simp [qMulLoop],
        Or.inr ⟨.minus, rest, rfl, Or.inr rfl, hrest⟩, by simp⟩
    · obtain ⟨q', rem', hq', hrem', hle⟩ :=
        ih.mulLoop (.bin .mul acc q) rem2 (by omega) hrem2 D hD k (by omega)
      exact ⟨q', rem', by simp [qMulLoop, hq, hq'], hrem', by simp; omega⟩
    · obtain ⟨q', rem', hq', hrem', hle⟩ :=
        ih.mulLoop (.bin .div acc q) rem2 (by omega) hrem2 D hD k (by omega)
      exact ⟨q', rem', by simp [qMulLoop, hq, hq'], hrem', by simp; omega⟩

theorem mul_step (n : Nat) (ih : Acc (V := V) n) :
    ∀ (ts : List (ETok V)), ts.length ≤ n + 1 → W false ts → ∀ D, Delim D →
    ∀ f, 8 * ts.length + 7 ≤ f → ∃ q rem, qMul f (ts ++ D) = some (q, rem ++ D) ∧
      Rem0 rem ∧ rem.length < ts.length := by
  intro ts hlen hW D hD f hf
  obtain ⟨k, rfl⟩ : ∃ k, f = k + 1 := ⟨f - 1, by omega⟩
  obtain ⟨q, rem, hq, hrem, hlt⟩ := prim_step n ih ts hlen hW D hD k (by omega)
  obtain ⟨q', rem', hq', hrem', hle⟩ :=
    ih.mulLoop q rem (by omega) hrem D hD k (by omega)
  exact ⟨q', rem', by simp [qMul, hq, hq'], hrem', by omega⟩

theorem expLoop_step (n : Nat) (ih : Acc (V := V) n) :
    ∀ (acc : QE V) (rem : List (ETok V)), rem.length ≤ n + 1 → Rem0 rem → ∀ D, Delim D →
    ∀ f, 8 * rem.length + 8 ≤ f → ∃ q, qExpLoop f acc (rem ++ D) = some (q, D) := by
  intro acc rem hlen hrem D hD f hf
  obtain ⟨k, rfl⟩ : ∃ k, f = k + 1 := ⟨f - 1, by omega⟩
  rcases hrem with rfl | ⟨b, rest, rfl, hb, hrest⟩
  · exact ⟨acc, by simpa using qExpLoop_delim k acc D hD⟩
  · simp only [List.length_cons] at hlen hf
    obtain ⟨q, rem2, hq, hrem2, hlt⟩ := ih.mul rest (by omega) hrest D hD k (by omega)
    rcases hb with rfl | rfl
    · obtain ⟨q', hq'⟩ := ih.expLoop (.bin .add acc q) rem2 (by omega) hrem2 D hD k (by omega)
      exact ⟨q', by simp [qExpLoop, hq, hq']⟩
    · obtain ⟨q', hq'⟩ := ih.expLoop (.bin .sub acc q) rem2 (by omega) hrem2 D hD k (by omega)
      exact ⟨q', by simp [qExpLoop, hq, hq']⟩

theorem exp_step (n : Nat) (ih : Acc (V := V) n) :
    ∀ (ts : List (ETok V)), ts.length ≤ n + 1 → W false ts → ∀ D, Delim D →
    ∀ f, 8 * ts.length + 8 ≤ f → ∃ q, qExp f (ts ++ D) = some (q, D) := by
  intro ts hlen hW D hD f hf
  obtain ⟨k, rfl⟩ : ∃ k, f = k + 1 := ⟨f - 1, by omega⟩
  obtain ⟨q, rem, hq, hrem, hlt⟩ := mul_step n ih ts hlen hW D hD k (by omega)
  obtain ⟨q', hq'⟩ := ih.expLoop q rem (by omega) hrem D hD k (by omega)
  exact ⟨q', by simp [qExp, hq, hq']⟩

theorem acc_all : ∀ n, Acc (V := V) n := by
  intro n
  induction n with
  | zero =>
    have hW0 : ∀ ts : List (ETok V), ts.length ≤ 0 → W false ts → False := by
      intro ts hl hW
      have := W.nonempty hW
      cases ts with
      | nil => exact this rfl
      | cons _ _ => simp at hl
    refine ⟨?_, ?_, ?_, ?_, ?_⟩
    · intro ts hl hW; exact (hW0 ts hl hW).elim
    · intro ts hl hW; exact (hW0 ts hl hW).elim
    · intro ts hl hW; exact (hW0 ts hl hW).elim
    · intro acc rem hl hrem D hD f hf
      have : rem = [] := by cases rem with
        | nil => rfl
        | cons _ _ => simp at hl
      subst this
      obtain ⟨k, rfl⟩ : ∃ k, f = k + 1 := ⟨f - 1, by omega⟩
      exact ⟨acc, [], by simpa using qMulLoop_delim k acc D hD, Or.inl rfl, by simp⟩
    · intro acc rem hl hrem D hD f hf
      have : rem = [] := by cases rem with
        | nil => rfl
        | cons _ _ => simp at hl
      subst this
      obtain ⟨k, rfl⟩ : ∃ k, f = k + 1 := ⟨f - 1, by omega⟩
      exact ⟨acc, by simpa using qExpLoop_delim k acc D hD⟩
  | succ n ih =>
    exact ⟨exp_step n ih, prim_step n ih, mul_step n ih, mulLoop_step n ih, expLoop_step n ih⟩

/-- **Lark accepts every well-formed expression** -/
theorem larkParse_W (ts : List (ETok V)) (h : W false ts) : ∃ q, larkParse ts = some q := by
  obtain ⟨q, hq⟩ := (acc_all ts.length).exp ts (Nat.le_refl _) h [] (Or.inl rfl)
    (exprFuel ts) (by simp [exprFuel]; omega)
  simp only [List.append_nil] at hq
  exact ⟨q, by simp [larkParse, hq]⟩

/-- in particular every rendering of a tree without spliced values -/
theorem larkParse_render (e : PE V) (he : e.noVal = true) :
    ∃ q, larkParse (render 0 e) = some q :=
  larkParse_W _ ((render_W e he).1 0)

end BqVerif.Qasm
