import Mathlib.Tactic.NoncommRing
import Mathlib.Tactic.Abel
/-! C10 — the recombination identity of `BlockZXZPass.initial_decompose` (Krol & Al-Ars, eqs 5–9).
For the unitary `U = [[X, Y], [U21, U22]]` with polar decompositions `X = S_X·U_X`, `Y = S_Y·U_Y`
(what the two SVDs are used for) the code sets
  `A₁ = (S_X + i S_Y) U_X`, `C† = i U_Y† U_X`, `A₂ = U21 + U22 C†`, `B = 2 A₁† X − 1`
and the circuit it emits implements `½·diag(A₁, A₂)·[[1+B, 1−B], [1−B, 1+B]]·diag(1, C)`
(multiplexed A, H — controlled-B — H on the top qubit, controlled C). This file proves, in any ring
with a central `i`, `i² = −1`, that the four blocks of that product are `X, Y, U21, U22`, and that
`A₁` is unitary, from: `U_X`, `U_Y` unitary, `S_X S_Y = S_Y S_X`, `S_X² + S_Y² = 1` (first block row
of `U U† = 1`) and `U21 X† + U22 Y† = 0` (off-diagonal block of `U U† = 1`). That `svd` returns the
polar factors is a LAPACK fact validated by the harness. -/
namespace BqVerif.BlockZXZ

variable {R : Type} [Ring R]

structure Setup (i X Y U21 U22 SX SY UX UXd UY UYd : R) : Prop where
  ii : i * i = -1
  central : ∀ a : R, a * i = i * a
  ux : UX * UXd = 1
  uxd : UXd * UX = 1
  uyd : UYd * UY = 1
  comm : SX * SY = SY * SX
  sq : SX * SX + SY * SY = 1
  hX : X = SX * UX
  hY : Y = SY * UY
  orth : U21 * (UXd * SX) + U22 * (UYd * SY) = 0

variable {i X Y U21 U22 SX SY UX UXd UY UYd : R}

/-- `(S_X − i S_Y)(S_X + i S_Y) = 1 = (S_X + i S_Y)(S_X − i S_Y)`. -/
theorem unit_s (h : Setup i X Y U21 U22 SX SY UX UXd UY UYd) :
    (SX + i * SY) * (SX - i * SY) = 1 ∧ (SX - i * SY) * (SX + i * SY) = 1 := by
  have c1 : SX * (i * SY) = i * (SX * SY) := by rw [← mul_assoc, h.central SX, mul_assoc]
  have c2 : i * SY * (i * SY) = -(SY * SY) := by
    calc i * SY * (i * SY) = i * ((SY * i) * SY) := by noncomm_ring
      _ = i * ((i * SY) * SY) := by rw [h.central SY]
      _ = (i * i) * (SY * SY) := by noncomm_ring
      _ = -(SY * SY) := by rw [h.ii]; noncomm_ring
  constructor
  · calc (SX + i * SY) * (SX - i * SY)
        = SX * SX - SX * (i * SY) + i * (SY * SX) - i * SY * (i * SY) := by noncomm_ring
      _ = SX * SX - i * (SX * SY) + i * (SX * SY) + SY * SY := by rw [c1, c2, h.comm]; noncomm_ring
      _ = SX * SX + SY * SY := by abel
      _ = 1 := h.sq
  · calc (SX - i * SY) * (SX + i * SY)
        = SX * SX + SX * (i * SY) - i * (SY * SX) - i * SY * (i * SY) := by noncomm_ring
      _ = SX * SX + i * (SX * SY) - i * (SX * SY) + SY * SY := by rw [c1, c2, h.comm]; noncomm_ring
      _ = SX * SX + SY * SY := by abel
      _ = 1 := h.sq

/-- `A₁ A₁† = 1`. -/
theorem a1_unitary (h : Setup i X Y U21 U22 SX SY UX UXd UY UYd) :
    ((SX + i * SY) * UX) * (UXd * (SX - i * SY)) = 1 := by
  calc ((SX + i * SY) * UX) * (UXd * (SX - i * SY))
      = (SX + i * SY) * ((UX * UXd) * (SX - i * SY)) := by noncomm_ring
    _ = 1 := by rw [h.ux, one_mul, (unit_s h).1]

/-- Upper left block: `X = A₁ P` with `P = A₁† X = ½(1 + B)`. -/
theorem block_x (h : Setup i X Y U21 U22 SX SY UX UXd UY UYd) :
    ((SX + i * SY) * UX) * ((UXd * (SX - i * SY)) * X) = X := by
  calc ((SX + i * SY) * UX) * ((UXd * (SX - i * SY)) * X)
      = (((SX + i * SY) * UX) * (UXd * (SX - i * SY))) * X := by noncomm_ring
    _ = X := by rw [a1_unitary h, one_mul]

/-- Upper right block: `Y = A₁ (1 − P) C` with `1 − P = ½(1 − B)`, `C = −i U_X† U_Y`. -/
theorem block_y (h : Setup i X Y U21 U22 SX SY UX UXd UY UYd) :
    ((SX + i * SY) * UX) * (1 - (UXd * (SX - i * SY)) * X) * (-(i * (UXd * UY))) = Y := by
  have hA : ((SX + i * SY) * UX) * (1 - (UXd * (SX - i * SY)) * X) =
      (SX + i * SY) * UX - X := by
    calc ((SX + i * SY) * UX) * (1 - (UXd * (SX - i * SY)) * X)
        = (SX + i * SY) * UX -
          (((SX + i * SY) * UX) * (UXd * (SX - i * SY))) * X := by noncomm_ring
      _ = (SX + i * SY) * UX - X := by rw [a1_unitary h, one_mul]
  have hd : (SX + i * SY) * UX - X = i * (SY * UX) := by rw [h.hX]; noncomm_ring
  rw [hA, hd, h.hY]
  calc i * (SY * UX) * (-(i * (UXd * UY)))
      = -(i * ((SY * (UX * i)) * (UXd * UY))) := by noncomm_ring
    _ = -(i * ((SY * (i * UX)) * (UXd * UY))) := by rw [h.central UX]
    _ = -(i * (((SY * i) * UX) * (UXd * UY))) := by noncomm_ring
    _ = -(i * (((i * SY) * UX) * (UXd * UY))) := by rw [h.central SY]
    _ = -((i * i) * (SY * ((UX * UXd) * UY))) := by noncomm_ring
    _ = SY * UY := by rw [h.ii, h.ux, one_mul]; noncomm_ring

/-- Lower left block: `U21 = A₂ (1 − P)` with `A₂ = U21 + U22 C†`, `C† = i U_Y† U_X`. -/
theorem block_21 (h : Setup i X Y U21 U22 SX SY UX UXd UY UYd) :
    (U21 + U22 * (i * (UYd * UX))) * (1 - (UXd * (SX - i * SY)) * X) = U21 := by
  have pull : ∀ a b : R, a * (i * b) = i * (a * b) := fun a b => by
    rw [← mul_assoc, h.central a, mul_assoc]
  have hESY : (SX - i * SY) * SY = SY * (SX - i * SY) := by
    calc (SX - i * SY) * SY = SX * SY - i * (SY * SY) := by noncomm_ring
      _ = SY * SX - SY * (i * SY) := by rw [h.comm, pull SY SY]
      _ = SY * (SX - i * SY) := by noncomm_ring
  have hESX : (SX - i * SY) * SX = SX * (SX - i * SY) := by
    calc (SX - i * SY) * SX = SX * SX - i * (SY * SX) := by noncomm_ring
      _ = SX * SX - SX * (i * SY) := by rw [← h.comm, pull SX SY]
      _ = SX * (SX - i * SY) := by noncomm_ring
  have h1P : 1 - (SX - i * SY) * SX = (SX - i * SY) * (i * SY) := by
    have := (unit_s h).2
    rw [mul_add] at this
    rw [← this]; abel
  have ho : U22 * (UYd * SY) = -(U21 * (UXd * SX)) := by
    rw [eq_neg_iff_add_eq_zero, add_comm]; exact h.orth
  -- 1 − P, conjugated form
  have hP : 1 - (UXd * (SX - i * SY)) * X = UXd * (((SX - i * SY) * (i * SY)) * UX) := by
    calc 1 - (UXd * (SX - i * SY)) * X
        = UXd * UX - UXd * (((SX - i * SY) * SX) * UX) := by rw [h.uxd, h.hX]; noncomm_ring
      _ = UXd * ((1 - (SX - i * SY) * SX) * UX) := by noncomm_ring
      _ = UXd * (((SX - i * SY) * (i * SY)) * UX) := by rw [h1P]
  -- the C† part turns into U21·P
  have hW : U22 * (i * (UYd * UX)) * (UXd * (((SX - i * SY) * (i * SY)) * UX)) =
      U21 * ((UXd * (SX - i * SY)) * X) := by
    calc U22 * (i * (UYd * UX)) * (UXd * (((SX - i * SY) * (i * SY)) * UX))
        = U22 * (i * (UYd * ((UX * UXd) * ((SX - i * SY) * (i * (SY * UX)))))) := by noncomm_ring
      _ = U22 * (i * (UYd * ((SX - i * SY) * (i * (SY * UX))))) := by rw [h.ux, one_mul]
      _ = U22 * (i * (UYd * (i * ((SX - i * SY) * (SY * UX))))) := by
          rw [pull (SX - i * SY) (SY * UX)]
      _ = U22 * (i * (i * (UYd * ((SX - i * SY) * (SY * UX))))) := by
          rw [pull UYd ((SX - i * SY) * (SY * UX))]
      _ = (i * i) * (U22 * (UYd * (((SX - i * SY) * SY) * UX))) := by
          rw [pull U22, pull U22]; noncomm_ring
      _ = -((U22 * (UYd * SY)) * ((SX - i * SY) * UX)) := by rw [h.ii, hESY]; noncomm_ring
      _ = U21 * (UXd * ((SX * (SX - i * SY)) * UX)) := by rw [ho]; noncomm_ring
      _ = U21 * ((UXd * (SX - i * SY)) * X) := by rw [← hESX, h.hX]; noncomm_ring
  rw [hP, add_mul, hW, ← hP]
  noncomm_ring

/-- Lower right block: `U22 = A₂ P C`. -/
theorem block_22 (h : Setup i X Y U21 U22 SX SY UX UXd UY UYd) :
    (U21 + U22 * (i * (UYd * UX))) * ((UXd * (SX - i * SY)) * X) * (-(i * (UXd * UY))) = U22 := by
  have pull : ∀ a b : R, a * (i * b) = i * (a * b) := fun a b => by
    rw [← mul_assoc, h.central a, mul_assoc]
  have h4 := block_21 h
  have hAP : (U21 + U22 * (i * (UYd * UX))) * ((UXd * (SX - i * SY)) * X) =
      U22 * (i * (UYd * UX)) := by
    have : (U21 + U22 * (i * (UYd * UX))) * ((UXd * (SX - i * SY)) * X) =
        (U21 + U22 * (i * (UYd * UX))) -
          (U21 + U22 * (i * (UYd * UX))) * (1 - (UXd * (SX - i * SY)) * X) := by noncomm_ring
    rw [this, h4]; abel
  rw [hAP]
  calc U22 * (i * (UYd * UX)) * (-(i * (UXd * UY)))
      = -(U22 * (i * (UYd * (UX * (i * (UXd * UY)))))) := by noncomm_ring
    _ = -(U22 * (i * (UYd * (i * (UX * (UXd * UY)))))) := by rw [pull UX (UXd * UY)]
    _ = -(U22 * (i * (i * (UYd * (UX * (UXd * UY)))))) := by rw [pull UYd]
    _ = -((i * i) * (U22 * (UYd * ((UX * UXd) * UY)))) := by rw [pull U22, pull U22]; noncomm_ring
    _ = U22 := by rw [h.ii, h.ux, one_mul, h.uyd]; noncomm_ring

end BqVerif.BlockZXZ
