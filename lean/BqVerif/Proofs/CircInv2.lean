import BqVerif.Proofs.CircInv
import BqVerif.Model.CircStep
/-! `Inv` through `insert`, `pop`, `replace`, the batch and circuit variants, and every
history of calls (C05_inv_history). -/
namespace BqVerif.Circ

theorem normIdx_lt (n : Nat) (i : Int) (h1 : i < (n : Int)) (h2 : i ≥ -(n : Int)) (hn : 0 < n) :
    normIdx n i < n := by
  unfold normIdx
  split <;> omega

theorem cycleInRange_iff (c : Circ) (i : Int) :
    c.cycleInRange i = true ↔ i < (c.numCycles : Int) ∧ i ≥ -(c.numCycles : Int) := by
  simp [Circ.cycleInRange]

theorem appendCore_radixes (c : Circ) (o : Op) : (c.appendCore o).1.radixes = c.radixes := by
  unfold Circ.appendCore; dsimp only; split <;> rfl

theorem insertAt_radixes (c : Circ) (k : Nat) (o : Op) : (c.insertAt k o).radixes = c.radixes := by
  unfold Circ.insertAt; split <;> rfl

theorem removeAt_radixes (c : Circ) (k q : Nat) : (c.removeAt k q).radixes = c.radixes := by
  unfold Circ.removeAt; dsimp only; split <;> rfl

theorem insert_radixes (c : Circ) (ci : Int) (o : Op) : (c.insert ci o).1.radixes = c.radixes := by
  unfold Circ.insert
  split
  · rfl
  · split
    · exact appendCore_radixes _ _
    · split
      · split
        · exact insertAt_radixes _ _ _
        · exact appendCore_radixes _ _
      · exact insertAt_radixes _ _ _

theorem pop_radixes (c : Circ) (p : Option (Int × Int)) : (c.pop p).1.radixes = c.radixes := by
  unfold Circ.pop
  dsimp only
  split
  · rfl
  · split
    · rfl
    · exact removeAt_radixes _ _ _

theorem insert_inv (c : Circ) (ci : Int) (o : Op) (hinv : c.Inv) (hs : o.Shape) :
    (c.insert ci o).1.Inv := by
  unfold Circ.insert
  cases h : c.checkValid o with
  | error e => simpa using hinv
  | ok u =>
    cases u
    have hwf := checkValid_ok c o hs h
    dsimp only
    split
    · exact appendCore_inv c o hinv hwf
    · rename_i hn
      have hpos : 0 < c.numCycles := by
        have : c.numCycles ≠ 0 := by simpa using hn
        omega
      split
      · split
        · exact insertAt_inv c 0 o hpos hinv hwf
        · exact appendCore_inv c o hinv hwf
      · rename_i hr
        have hr' : c.cycleInRange ci = true := by simpa using hr
        rw [cycleInRange_iff] at hr'
        exact insertAt_inv c _ o (normIdx_lt _ _ hr'.1 hr'.2 hpos) hinv hwf

theorem pop_inv (c : Circ) (p : Option (Int × Int)) (hinv : c.Inv) : (c.pop p).1.Inv := by
  unfold Circ.pop
  dsimp only
  split
  · exact hinv
  · split
    · exact hinv
    · exact removeAt_inv c _ _ hinv

theorem popCycle_inv (c : Circ) (ci : Int) (hinv : c.Inv) : (c.popCycle ci).1.Inv := by
  unfold Circ.popCycle
  split
  · exact hinv
  · rw [inv_iff] at *
    intro cy hcy
    exact hinv cy (List.mem_of_mem_eraseIdx hcy)

theorem removeAt_fold_inv (l : List (Nat × Op)) (c : Circ) (hinv : c.Inv) :
    (l.foldl (fun (c : Circ) (x : Nat × Op) => c.removeAt x.1 x.2.head) c).Inv := by
  induction l generalizing c with
  | nil => simpa using hinv
  | cons a t ih => simp only [List.foldl_cons]; exact ih _ (removeAt_inv c _ _ hinv)

theorem batchPop_inv (c : Circ) (pts : List (Int × Int)) (hinv : c.Inv) :
    (c.batchPop pts).1.Inv := by
  unfold Circ.batchPop
  split
  · exact hinv
  · dsimp only
    split
    · exact hinv
    · exact removeAt_fold_inv _ c hinv

/-- the cell lookup returns a member of the cycle -/
theorem cell_mem (c : Circ) (k q : Nat) (o : Op) (h : c.cell k q = some o) :
    ∃ hlt : k < c.cycles.length, o ∈ c.cycles[k] ∧ q ∈ o.loc := by
  unfold Circ.cell at h
  by_cases hlt : k < c.cycles.length
  · rw [getD_of_lt _ _ hlt] at h
    have h1 := List.mem_of_find?_eq_some h
    have h2 := List.find?_some h
    exact ⟨hlt, h1, by simpa [Op.on] using h2⟩
  · rw [getD_of_ge _ _ (Nat.le_of_not_lt hlt)] at h
    simp at h

theorem getOp_ok (c : Circ) (p : Int × Int) (k q : Nat) (o : Op)
    (h : c.getOp p = .ok (k, q, o)) :
    ∃ hlt : k < c.cycles.length, o ∈ c.cycles[k] ∧ q ∈ o.loc ∧ k = normIdx c.numCycles p.1 := by
  unfold Circ.getOp at h
  split at h
  · simp at h
  · dsimp only at h
    split at h
    · simp at h
    · rename_i o' hc
      injection h with h
      injection h with h1 h
      injection h with h2 h3
      subst h1 h2 h3
      obtain ⟨hlt, h1, h2⟩ := cell_mem c _ _ _ hc
      exact ⟨hlt, h1, h2, rfl⟩

theorem sameSet_iff (a b : List Nat) : sameSet a b = true ↔ (∀ q, q ∈ a ↔ q ∈ b) := by
  simp only [sameSet, Bool.and_eq_true, List.all_eq_true, List.contains_iff_mem]
  constructor
  · rintro ⟨h1, h2⟩ q; exact ⟨h1 q, h2 q⟩
  · intro h; exact ⟨fun q hq => (h q).1 hq, fun q hq => (h q).2 hq⟩

/-- argument well-formedness for `replace`: its in-place branch does not re-check the
radixes (the code calls `check_valid_operation` only on the insert path). -/
def Op.RadOk (radixes : List Nat) (o : Op) : Prop := o.rad = o.loc.map (radixes.getD · 0)

theorem replace_inv (c : Circ) (p : Int × Int) (o : Op) (hinv : c.Inv) (hs : o.Shape)
    (hr : o.RadOk c.radixes) : (c.replace p o).1.Inv := by
  unfold Circ.replace
  cases hg : c.getOp p with
  | error e => simpa using hinv
  | ok r =>
    obtain ⟨k, q, old⟩ := r
    obtain ⟨hlt, hmem, _, hk⟩ := getOp_ok c p k q old hg
    dsimp only
    split
    · exact hinv
    · split
      · rename_i hss
        rw [sameSet_iff] at hss
        rw [inv_iff] at *
        intro cy hcy
        simp only [Circ.numQudits] at hcy ⊢
        rcases mem_modify _ _ _ _ hcy with hcy | ⟨_, rfl⟩
        · exact hinv cy hcy
        · have hok := hinv _ (List.getElem_mem hlt)
          have hold := hok.2.2 old hmem
          have howf : o.WF c.radixes.length c.radixes :=
            ⟨hs.1, hs.2.1, fun q hq => hold.2.2.1 q ((hss q).2 hq), hr⟩
          refine ⟨by simpa using hok.1, ?_, ?_⟩
          · apply List.Pairwise.map _ _ hok.2.1
            intro a b hab
            by_cases ha : a = old <;> by_cases hb : b = old
            · subst ha hb
              exfalso
              obtain ⟨q0, hq0⟩ := List.exists_mem_of_ne_nil _ hold.1
              exact hab q0 hq0 hq0
            · subst ha
              simp only [beq_self_eq_true, if_true]
              have : (b == a) = false := by simpa using hb
              simp only [this]
              intro q hq; exact hab q ((hss q).2 hq)
            · subst hb
              have : (a == b) = false := by simpa using ha
              simp only [this, beq_self_eq_true, if_true]
              intro q hq hqo; exact hab q hq ((hss q).2 hqo)
            · have h1 : (a == old) = false := by simpa using ha
              have h2 : (b == old) = false := by simpa using hb
              simpa [h1, h2] using hab
          · intro x hx
            rw [List.mem_map] at hx
            obtain ⟨y, hy, rfl⟩ := hx
            split
            · exact howf
            · exact hok.2.2 y hy
      · have h1 := pop_inv c (some p) hinv
        have hr1 := pop_radixes c (some p)
        cases hp : c.pop (some p) with
        | mk c1 r1 =>
          rw [hp] at h1 hr1
          dsimp only
          cases r1 with
          | error e => exact h1
          | ok _ => exact insert_inv c1 _ o h1 hs

theorem replace_radixes (c : Circ) (p : Int × Int) (o : Op) : (c.replace p o).1.radixes = c.radixes := by
  unfold Circ.replace
  split
  · rfl
  · dsimp only
    split
    · rfl
    · split
      · rfl
      · have hr1 := pop_radixes c (some p)
        cases hp : c.pop (some p) with
        | mk c1 r1 =>
          rw [hp] at hr1
          dsimp only
          cases r1 with
          | error e => exact hr1
          | ok _ => rw [insert_radixes]; exact hr1

end BqVerif.Circ
