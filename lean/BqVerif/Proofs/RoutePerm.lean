import BqVerif.Model.Route
import BqVerif.Proofs.GraphSub
import BqVerif.Proofs.GraphConn
/-!
`_apply_swap` / `_apply_perm` of the mapping passes (model: `applySwap`, `applyPerm`):
a swap is the relabelling by a transposition, `_apply_perm` succeeds exactly when all
entries are valid indices, rearranges `pi` (result is a permutation of the old list),
moves `pi[perm[i]]` to position `sorted(perm)[i]` and leaves the other positions alone.
-/
namespace BqVerif.Route
open BqVerif.Graph (sortNat)

/-! ### generic helpers -/

theorem getD_of_lt {l : List Nat} {i : Nat} (h : i < l.length) : l.getD i 0 = l[i] := by
  simp [List.getD_eq_getElem?_getD, h]

theorem nodup_map_of_inj_on {f : Nat → Nat} {l : List Nat}
    (hinj : ∀ x ∈ l, ∀ y ∈ l, f x = f y → x = y) (hnd : l.Nodup) : (l.map f).Nodup := by
  induction l with
  | nil => simp
  | cons a l ih =>
    rw [List.map_cons, List.nodup_cons]
    have h := List.nodup_cons.1 hnd
    refine ⟨?_, ih (fun x hx y hy => hinj x (List.mem_cons_of_mem _ hx) y
      (List.mem_cons_of_mem _ hy)) h.2⟩
    intro hm
    obtain ⟨y, hy, hfy⟩ := List.mem_map.1 hm
    have := hinj y (List.mem_cons_of_mem _ hy) a (List.mem_cons_self ..) hfy
    subst this
    exact h.1 hy

theorem idxOf_eq_iff {l : List Nat} (hnd : l.Nodup) {i : Nat} (hi : i < l.length) (x : Nat) :
    l.idxOf x = i ↔ l[i] = x := by
  constructor
  · intro h
    subst h
    exact List.getElem_idxOf hi
  · intro h
    rw [← h]
    exact Graph.idxOf_getElem_of_nodup l hnd i hi

theorem getD_inj_of_nodup {l : List Nat} (hnd : l.Nodup) {i j : Nat} (hi : i < l.length)
    (hj : j < l.length) (h : l.getD i 0 = l.getD j 0) : i = j := by
  rw [getD_of_lt hi, getD_of_lt hj] at h
  have h1 := Graph.idxOf_getElem_of_nodup l hnd i hi
  have h2 := Graph.idxOf_getElem_of_nodup l hnd j hj
  rw [h] at h1
  omega

theorem map_piAt_range (π : List Nat) : (List.range π.length).map (piAt π) = π := by
  apply List.ext_getElem
  · simp
  · intro i h1 h2
    rw [List.getElem_map, List.getElem_range]
    exact getD_of_lt h2

/-! ### `swapFn` and `applySwap` -/

theorem swapFn_swapFn (a b x : Nat) : swapFn a b (swapFn a b x) = x := by
  unfold swapFn
  grind

theorem swapFn_injective (a b : Nat) {x y : Nat} (h : swapFn a b x = swapFn a b y) : x = y := by
  have := congrArg (swapFn a b) h
  simpa [swapFn_swapFn] using this

theorem map_swapFn_nodup {π : List Nat} (a b : Nat) (h : π.Nodup) :
    (π.map (swapFn a b)).Nodup :=
  nodup_map_of_inj_on (fun _ _ _ _ h => swapFn_injective a b h) h

theorem map_swapFn_map_swapFn (π : List Nat) (a b : Nat) :
    (π.map (swapFn a b)).map (swapFn a b) = π := by
  induction π with
  | nil => rfl
  | cons x xs ih => simp only [List.map_cons, swapFn_swapFn, ih]

theorem swapFn_mem {π : List Nat} {a b : Nat} (ha : a ∈ π) (hb : b ∈ π) {y : Nat} (hy : y ∈ π) :
    swapFn a b y ∈ π := by
  unfold swapFn
  split
  · exact hb
  · split
    · exact ha
    · exact hy

theorem mem_map_swapFn {π : List Nat} {a b : Nat} (ha : a ∈ π) (hb : b ∈ π) (x : Nat) :
    x ∈ π.map (swapFn a b) ↔ x ∈ π := by
  constructor
  · intro h
    obtain ⟨y, hy, rfl⟩ := List.mem_map.1 h
    exact swapFn_mem ha hb hy
  · intro h
    exact List.mem_map.2 ⟨swapFn a b x, swapFn_mem ha hb h, swapFn_swapFn a b x⟩

theorem applySwap_eq_map {π : List Nat} {a b : Nat} (hnd : π.Nodup) (ha : a ∈ π) (hb : b ∈ π) :
    applySwap π a b = some (π.map (swapFn a b)) := by
  unfold applySwap
  have hc : (π.contains a && π.contains b) = true := by simp [ha, hb]
  rw [if_pos hc]
  congr 1
  apply List.ext_getElem
  · simp
  · intro i h1 h2
    have hi : i < π.length := by simpa using h2
    rw [List.getElem_set, List.getElem_set, List.getElem_map]
    simp only [idxOf_eq_iff hnd hi]
    unfold swapFn
    grind

theorem applySwap_isSome_iff (π : List Nat) (a b : Nat) :
    (applySwap π a b).isSome = true ↔ a ∈ π ∧ b ∈ π := by
  unfold applySwap
  by_cases h : (π.contains a && π.contains b) = true
  · rw [if_pos h]
    simpa using h
  · rw [if_neg h]
    simpa using h

/-! ### duplicate-free lists below `n` of length `n` -/

theorem perm_range_of_nodup {l : List Nat} {n : Nat} (hnd : l.Nodup) (hlt : ∀ x ∈ l, x < n)
    (hlen : l.length = n) : l.Perm (List.range n) :=
  (List.perm_ext_iff_of_nodup hnd List.nodup_range).2 (fun x => by
    rw [List.mem_range]
    exact ⟨hlt x, Graph.nodup_lt_full hnd hlt hlen x⟩)

/-! ### a fold of `set`s -/

theorem foldl_set_length (f g : Nat → Nat) (l : List Nat) (π : List Nat) :
    (l.foldl (fun acc i => acc.set (f i) (g i)) π).length = π.length := by
  induction l generalizing π with
  | nil => rfl
  | cons j l ih => rw [List.foldl_cons, ih, List.length_set]

theorem foldl_set_getD_notin (f g : Nat → Nat) (q : Nat) (l : List Nat) (π : List Nat)
    (h : ∀ i ∈ l, f i ≠ q) :
    (l.foldl (fun acc i => acc.set (f i) (g i)) π).getD q 0 = π.getD q 0 := by
  induction l generalizing π with
  | nil => rfl
  | cons j l ih =>
    rw [List.foldl_cons, ih _ (fun i hi => h i (List.mem_cons_of_mem _ hi))]
    have hj := h j (List.mem_cons_self ..)
    simp [List.getD_eq_getElem?_getD, List.getElem?_set_ne hj]

theorem foldl_set_getD_in (f g : Nat → Nat) (l : List Nat) (π : List Nat) (hnd : l.Nodup)
    (hinj : ∀ i ∈ l, ∀ j ∈ l, f i = f j → i = j) (i : Nat) (hi : i ∈ l)
    (hlt : f i < π.length) :
    (l.foldl (fun acc i => acc.set (f i) (g i)) π).getD (f i) 0 = g i := by
  induction l generalizing π with
  | nil => simp at hi
  | cons j l ih =>
    rw [List.foldl_cons]
    have hnd' := List.nodup_cons.1 hnd
    by_cases hij : i = j
    · subst hij
      rw [foldl_set_getD_notin]
      · simp [List.getD_eq_getElem?_getD, List.getElem?_set_self hlt]
      · intro k hk hfk
        have := hinj k (List.mem_cons_of_mem _ hk) i (List.mem_cons_self ..) hfk
        subst this
        exact hnd'.1 hk
    · have hi' : i ∈ l := by simpa [hij] using hi
      exact ih _ hnd'.2 (fun a ha b hb => hinj a (List.mem_cons_of_mem _ ha) b
        (List.mem_cons_of_mem _ hb)) hi' (by simpa using hlt)

/-! ### `applyPerm` -/

/-- the list `_apply_perm` leaves in `pi` when it does not raise -/
def permRes (perm π : List Nat) : List Nat :=
  (List.range perm.length).foldl
    (fun acc i => acc.set ((sortNat perm).getD i 0) (piAt π (perm.getD i 0))) π

theorem applyPerm_eq (perm π : List Nat) :
    applyPerm perm π = if perm.all (· < π.length) then some (permRes perm π) else none := rfl

theorem permRes_length (perm π : List Nat) : (permRes perm π).length = π.length :=
  foldl_set_length (fun i => (sortNat perm).getD i 0) (fun i => piAt π (perm.getD i 0)) _ _

theorem sortNat_length (perm : List Nat) : (sortNat perm).length = perm.length :=
  (Graph.sortNat_perm perm).length_eq

theorem sortNat_getD_mem {perm : List Nat} {i : Nat} (hi : i < perm.length) :
    (sortNat perm).getD i 0 ∈ perm := by
  have hi' : i < (sortNat perm).length := by rw [sortNat_length]; exact hi
  rw [getD_of_lt hi']
  exact (Graph.sortNat_perm perm).mem_iff.1 (List.getElem_mem hi')

theorem permRes_at {perm π : List Nat} (hnd : perm.Nodup) (hlt : ∀ q ∈ perm, q < π.length)
    (i : Nat) (hi : i < perm.length) :
    piAt (permRes perm π) ((sortNat perm).getD i 0) = piAt π (perm.getD i 0) := by
  have hsnd : (sortNat perm).Nodup := (Graph.sortNat_perm perm).nodup_iff.2 hnd
  exact foldl_set_getD_in (fun i => (sortNat perm).getD i 0) (fun i => piAt π (perm.getD i 0))
    (List.range perm.length) π List.nodup_range
    (fun a ha b hb h => getD_inj_of_nodup hsnd
      (by rw [sortNat_length]; exact List.mem_range.1 ha)
      (by rw [sortNat_length]; exact List.mem_range.1 hb) h)
    i (List.mem_range.2 hi) (hlt _ (sortNat_getD_mem hi))

theorem permRes_notin {perm : List Nat} (π : List Nat) {q : Nat} (hq : q ∉ perm) :
    piAt (permRes perm π) q = piAt π q :=
  foldl_set_getD_notin (fun i => (sortNat perm).getD i 0) (fun i => piAt π (perm.getD i 0)) q
    (List.range perm.length) π
    (fun _ hi h => hq (h ▸ sortNat_getD_mem (List.mem_range.1 hi)))

/-- the index bijection `_apply_perm` reads `pi` through -/
def permTau (perm : List Nat) (q : Nat) : Nat :=
  if q ∈ perm then perm.getD ((sortNat perm).idxOf q) 0 else q

theorem permTau_mem {perm : List Nat} {q : Nat} (hq : q ∈ perm) : permTau perm q ∈ perm := by
  unfold permTau
  rw [if_pos hq]
  have hqs : q ∈ sortNat perm := (Graph.sortNat_perm perm).mem_iff.2 hq
  have hi : (sortNat perm).idxOf q < perm.length := by
    rw [← sortNat_length]; exact List.idxOf_lt_length_of_mem hqs
  rw [getD_of_lt hi]
  exact List.getElem_mem hi

theorem permTau_inj {perm : List Nat} (hnd : perm.Nodup) {x y : Nat}
    (h : permTau perm x = permTau perm y) : x = y := by
  by_cases hx : x ∈ perm <;> by_cases hy : y ∈ perm
  · have hxs : x ∈ sortNat perm := (Graph.sortNat_perm perm).mem_iff.2 hx
    have hys : y ∈ sortNat perm := (Graph.sortNat_perm perm).mem_iff.2 hy
    have hix := List.idxOf_lt_length_of_mem hxs
    have hiy := List.idxOf_lt_length_of_mem hys
    unfold permTau at h
    rw [if_pos hx, if_pos hy] at h
    have := getD_inj_of_nodup hnd (by rw [← sortNat_length]; exact hix)
      (by rw [← sortNat_length]; exact hiy) h
    have h1 : (sortNat perm)[(sortNat perm).idxOf x] = x := List.getElem_idxOf hix
    have h2 : (sortNat perm)[(sortNat perm).idxOf y] = y := List.getElem_idxOf hiy
    rw [← h1, ← h2]
    simp only [this]
  · have := permTau_mem hx
    rw [h] at this
    unfold permTau at this
    rw [if_neg hy] at this
    exact absurd this hy
  · have := permTau_mem hy
    rw [← h] at this
    unfold permTau at this
    rw [if_neg hx] at this
    exact absurd this hx
  · unfold permTau at h
    rw [if_neg hx, if_neg hy] at h
    exact h

theorem permRes_eq_map {perm π : List Nat} (hnd : perm.Nodup)
    (hlt : ∀ q ∈ perm, q < π.length) :
    permRes perm π = ((List.range π.length).map (permTau perm)).map (piAt π) := by
  apply List.ext_getElem
  · simp [permRes_length]
  · intro q h1 h2
    have hq : q < π.length := by rw [permRes_length] at h1; exact h1
    rw [← getD_of_lt h1]
    simp only [List.getElem_map, List.getElem_range]
    show piAt (permRes perm π) q = _
    by_cases hqp : q ∈ perm
    · have hqs : q ∈ sortNat perm := (Graph.sortNat_perm perm).mem_iff.2 hqp
      have hi := List.idxOf_lt_length_of_mem hqs
      have hi' : (sortNat perm).idxOf q < perm.length := by rw [← sortNat_length]; exact hi
      have h := permRes_at hnd hlt _ hi'
      rw [getD_of_lt hi, List.getElem_idxOf hi] at h
      rw [h]
      unfold permTau
      rw [if_pos hqp]
    · rw [permRes_notin π hqp]
      unfold permTau
      rw [if_neg hqp]

theorem permRes_perm {perm π : List Nat} (hnd : perm.Nodup)
    (hlt : ∀ q ∈ perm, q < π.length) : (permRes perm π).Perm π := by
  rw [permRes_eq_map hnd hlt]
  have hp : ((List.range π.length).map (permTau perm)).Perm (List.range π.length) := by
    apply perm_range_of_nodup
    · exact nodup_map_of_inj_on (fun _ _ _ _ h => permTau_inj hnd h) List.nodup_range
    · intro x hx
      obtain ⟨q, hq, rfl⟩ := List.mem_map.1 hx
      by_cases hqp : q ∈ perm
      · exact hlt _ (permTau_mem hqp)
      · unfold permTau
        rw [if_neg hqp]
        exact List.mem_range.1 hq
    · simp
  have := hp.map (piAt π)
  rw [map_piAt_range] at this
  exact this

theorem applyPerm_spec {perm π : List Nat} (hnd : perm.Nodup)
    (hlt : ∀ q ∈ perm, q < π.length) :
    ∃ π', applyPerm perm π = some π' ∧ π'.length = π.length ∧
      (∀ i, i < perm.length → piAt π' ((sortNat perm).getD i 0) = piAt π (perm.getD i 0)) ∧
      (∀ q, q ∉ perm → piAt π' q = piAt π q) ∧
      π'.Perm π := by
  have hall : perm.all (· < π.length) = true := by
    rw [List.all_eq_true]
    intro q hq
    simpa using hlt q hq
  refine ⟨permRes perm π, ?_, permRes_length perm π, permRes_at hnd hlt,
    fun q hq => permRes_notin π hq, permRes_perm hnd hlt⟩
  rw [applyPerm_eq, if_pos hall]

theorem applyPerm_full {perm π : List Nat} (hp : perm.Perm (List.range π.length)) :
    applyPerm perm π = some (perm.map (piAt π)) := by
  have hnd : perm.Nodup := hp.nodup_iff.2 List.nodup_range
  have hlt : ∀ q ∈ perm, q < π.length := fun q hq => List.mem_range.1 (hp.mem_iff.1 hq)
  have hs : sortNat perm = List.range π.length := (Graph.sortNat_eq_range_iff _ _).2 hp
  have hlen : perm.length = π.length := by simpa using hp.length_eq
  obtain ⟨π', he, hl, hat, _, _⟩ := applyPerm_spec hnd hlt
  rw [he]
  congr 1
  apply List.ext_getElem
  · simp [hl, hlen]
  · intro i h1 h2
    have hi : i < perm.length := by simpa using h2
    have h := hat i hi
    rw [hs, getD_of_lt (by simpa [hlen] using hi), List.getElem_range, getD_of_lt hi] at h
    rw [List.getElem_map, ← h]
    exact (getD_of_lt h1).symm

theorem applyPerm_isSome_iff (perm π : List Nat) :
    (applyPerm perm π).isSome = true ↔ ∀ q ∈ perm, q < π.length := by
  rw [applyPerm_eq]
  by_cases h : perm.all (· < π.length) = true
  · rw [if_pos h]
    simpa using h
  · rw [if_neg h]
    simpa using h

end BqVerif.Route
