import BqVerif.Proofs.CrashStep
/-
C14 - the liveness invariant `Inv` (what every reachable state of a run without an
outgoing-thread reset satisfies) and its preservation by every transition.
-/
namespace BqVerif.Crash

structure Topo.WF (t : Topo) : Prop where
  root : t.parent 0 = 0
  lt : ∀ i, 0 < i → t.parent i < i
  kroot : t.kind 0 = .server
  knon : ∀ i, 0 < i → t.kind i ≠ .server
  pk : ∀ i, 0 < i → t.kind (t.parent i) ≠ .worker

/-- the fields the invariant reads -/
structure View where
  alive : Nat → Bool
  running : Nat → Bool
  cleared : Nat → Bool
  downOpen : Nat → Bool
  sent : Nat → Bool
  upOpen : Nat → Bool
  copen : Nat → Bool

def State.view (s : State) : View :=
  ⟨s.alive, s.running, s.cleared, s.downOpen, s.sentShutdown, s.upOpen, s.copen⟩

def View.gone (v : View) (i : Nat) : Bool := !(v.alive i) || !(v.running i)

structure InvV (t : Topo) (v : View) : Prop where
  srv : v.alive 0 = true
  wrk : ∀ i, t.kind i = .worker → v.running i = true
  clients : v.running 0 = false → ∀ c, v.copen c = false
  down : ∀ p e, t.isChild p e = true → v.alive p = true → v.running p = true →
    v.downOpen e = true ∧ v.cleared p = false
  upc : ∀ g, g ≠ 0 → v.running g = false → v.upOpen g = false
  upo : ∀ n, v.running n = true → v.upOpen n = true
  dclosed : ∀ p e, t.isChild p e = true → v.running p = false → v.downOpen e = false
  sent : ∀ p e, t.isChild p e = true → v.running p = false → v.sent e = true ∨ v.gone e = true

/-- the invariant of all runs -/
def Inv (t : Topo) (s : State) : Prop := InvV t s.view

theorem inv_init (t : Topo) : Inv t init where
  srv := rfl
  wrk := fun _ _ => rfl
  clients := fun h => by simp [State.view, init] at h
  down := fun _ _ _ _ _ => ⟨rfl, rfl⟩
  upc := fun _ _ h => by simp [State.view, init] at h
  upo := fun _ _ => rfl
  dclosed := fun _ _ _ h => by simp [State.view, init] at h
  sent := fun _ _ _ h => by simp [State.view, init] at h

/-! ### view operations -/

/-- `handle_shutdown` of `p` on its main thread; `xc e`: `p` closed `e`'s connection just
before (the EOF branch of `handle_disconnect`). -/
def shutV (t : Topo) (v : View) (p : Nat) (xc : Nat → Bool) : View :=
  let live := fun e => t.isChild p e && !(v.cleared p)
  { alive := v.alive
    running := upd v.running p false
    cleared := upd v.cleared p true
    downOpen := fun e => if live e then false else v.downOpen e
    sent := fun e => v.sent e || (!(xc e) && (live e && v.downOpen e))
    upOpen := if p != 0 then upd v.upOpen p false else v.upOpen
    copen := if p = 0 then (fun _ => false) else v.copen }

def killV (v : View) (w : Nat) : View := { v with alive := upd v.alive w false }
def upCloseV (v : View) (n : Nat) : View := { v with upOpen := upd v.upOpen n false }
def cCloseV (v : View) (c : Nat) : View := { v with copen := upd v.copen c false }

theorem isChild_iff {t : Topo} {p e : Nat} :
    t.isChild p e = true ↔ e ≠ 0 ∧ e < t.n ∧ t.parent e = p := by
  unfold Topo.isChild
  simp [Bool.and_eq_true, and_assoc]

theorem child_lt {t : Topo} (wf : t.WF) {p e : Nat} (h : t.isChild p e = true) : p < e := by
  obtain ⟨h0, _, hp⟩ := isChild_iff.mp h
  have := wf.lt e (Nat.pos_of_ne_zero h0)
  omega

theorem View.gone_mono {v v' : View} (ha : ∀ i, v'.alive i = true → v.alive i = true)
    (hr : ∀ i, v'.running i = true → v.running i = true) (i : Nat) (h : v.gone i = true) :
    v'.gone i = true := by
  have := ha i; have := hr i
  unfold View.gone at *
  cases h1 : v'.alive i <;> cases h2 : v'.running i <;> simp_all

theorem InvV.kill {t : Topo} {v : View} (h : InvV t v) (w : Nat) (hw : w ≠ 0) : InvV t (killV v w) := by
  have hal : ∀ i, (killV v w).alive i = true → v.alive i = true := by
    intro i x; simp only [killV, upd_apply] at x; split at x <;> simp_all
  have hg := View.gone_mono (v := v) (v' := killV v w) hal (fun _ x => x)
  refine ⟨?_, h.wrk, h.clients, fun p e hc ha hr => h.down p e hc (hal p ha) hr, h.upc,
    h.upo, h.dclosed, fun p e hc hr => ?_⟩
  · have := h.srv
    simp only [killV, upd_apply]
    have : (0 : Nat) ≠ w := fun x => hw x.symm
    simp [this, h.srv]
  · rcases h.sent p e hc hr with h1 | h1
    · exact Or.inl h1
    · exact Or.inr (hg _ h1)

theorem InvV.cClose {t : Topo} {v : View} (h : InvV t v) (c : Nat) : InvV t (cCloseV v c) := by
  refine ⟨h.srv, h.wrk, fun hr c' => ?_, h.down, h.upc, h.upo, h.dclosed, h.sent⟩
  have := h.clients hr c'
  simp only [cCloseV, upd_apply]
  split <;> simp_all

/-- closing upstream first makes no difference to a manager that then shuts down -/
theorem shutV_upClose (t : Topo) (v : View) {p : Nat} (hp : p ≠ 0) (xc : Nat → Bool) :
    shutV t (upCloseV v p) p xc = shutV t v p xc := by
  have hb : (p != 0) = true := by simpa using hp
  simp only [shutV, upCloseV, hb, if_true, View.mk.injEq, true_and, and_true]
  refine ⟨rfl, ?_⟩
  funext i
  simp only [upd_apply]
  split <;> rfl

/-- the main thread of `p` shuts down -/
theorem InvV.shut {t : Topo} (_wf : t.WF) {v : View} (h : InvV t v) {p : Nat} {xc : Nat → Bool}
    (ha : v.alive p = true) (hr : v.running p = true) (hk : t.kind p ≠ .worker)
    (hx : ∀ e, xc e = true → (v.alive e && v.upOpen e) = false) :
    InvV t (shutV t v p xc) := by
  have hrl : ∀ i, (shutV t v p xc).running i = true → v.running i = true := by
    intro i x; simp only [shutV, upd_apply] at x; split at x <;> simp_all
  have hg := View.gone_mono (v := v) (v' := shutV t v p xc) (fun _ x => x) hrl
  refine ⟨h.srv, fun i hi => ?_, fun h0 c => ?_, fun q e hc haq hrq => ?_, fun g hg0 hrg => ?_,
    fun g hrg => ?_, fun q e hc hrq => ?_, fun q e hc hrq => ?_⟩
  · have := h.wrk i hi
    simp only [shutV, upd_apply]
    split
    · rename_i hip; subst hip; exact absurd hi hk
    · exact this
  · -- clients
    simp only [shutV, upd_apply] at h0 ⊢
    by_cases hp0 : p = 0
    · simp [hp0]
    · simp only [hp0, if_false] at h0 ⊢
      have : (0 : Nat) ≠ p := fun x => hp0 x.symm
      simp only [this, if_false] at h0
      exact h.clients h0 c
  · -- down
    simp only [shutV, upd_apply] at hrq haq ⊢
    by_cases hqp : q = p
    · simp [hqp] at hrq
    · simp only [hqp, if_false] at hrq ⊢
      obtain ⟨h1, h2⟩ := h.down q e hc haq hrq
      refine ⟨?_, h2⟩
      have : t.isChild p e = false := by
        cases hpe : t.isChild p e
        · rfl
        · have a := (isChild_iff.mp hc).2.2
          have b := (isChild_iff.mp hpe).2.2
          omega
      simp [this, h1]
  · -- upc
    simp only [shutV, upd_apply] at hrg ⊢
    by_cases hgp : g = p
    · subst hgp
      have : (g != 0) = true := by simpa using hg0
      simp [this]
    · simp only [hgp, if_false] at hrg
      have := h.upc g hg0 hrg
      split
      · simp only [upd_apply, hgp, if_false]; exact this
      · exact this
  · -- upo
    simp only [shutV, upd_apply] at hrg ⊢
    by_cases hgp : g = p
    · simp [hgp] at hrg
    · simp only [hgp, if_false] at hrg
      have := h.upo g hrg
      split
      · simp only [upd_apply, hgp, if_false]; exact this
      · exact this
  · -- dclosed
    simp only [shutV, upd_apply] at hrq ⊢
    by_cases hqp : q = p
    · subst hqp
      have hcl := (h.down q e hc ha hr).2
      simp [hc, hcl]
    · simp only [hqp, if_false] at hrq
      have := h.dclosed q e hc hrq
      split
      · rfl
      · exact this
  · -- sent
    simp only [shutV, upd_apply] at hrq
    by_cases hqp : q = p
    · subst hqp
      obtain ⟨hd, hcl⟩ := h.down q e hc ha hr
      by_cases hxe : xc e = true
      · -- the connection that reported EOF: its node is gone
        right
        have hxe' := hx e hxe
        simp only [Bool.and_eq_false_iff] at hxe'
        have he0 : e ≠ 0 := (isChild_iff.mp hc).1
        have hpar : t.parent e = q := (isChild_iff.mp hc).2.2
        apply hg
        unfold View.gone
        rcases hxe' with h1 | h1
        · simp [h1]
        · cases hre : v.running e
          · simp
          · have := h.upo e hre
            rw [h1] at this; cases this
      · left
        have : xc e = false := by simpa using hxe
        simp [shutV, hc, hcl, hd, this]
    · simp only [hqp, if_false] at hrq
      rcases h.sent q e hc hrq with h1 | h1
      · left; simp [shutV, h1]
      · exact Or.inr (hg _ h1)

/-! ### views of the model's functions -/

@[simp] theorem view_put (s : State) (p : Nat) (l : List (Dest × Msg)) : (s.put p l).view = s.view := rfl

@[simp] theorem view_handleResult (s : State) (m v : Nat) : (handleResult s m v).view = s.view := by
  unfold handleResult; split
  · rfl
  · split <;> rfl

@[simp] theorem view_handleSubmit (s : State) (c k : Nat) (l : List (Dest × Msg)) :
    (handleSubmit s c k l).view = s.view := rfl

theorem view_shutdownNode (t : Topo) (s : State) (p : Nat) :
    (shutdownNode t s p).view = shutV t s.view p (fun _ => false) := rfl

theorem view_systemError (t : Topo) (s : State) (p : Nat) :
    (systemError t s p).view = shutV t s.view p (fun _ => false) := by
  unfold systemError
  split
  · rfl
  · split <;> rfl

theorem view_closeShutdown (t : Topo) (s : State) (p e : Nat) (hc : t.isChild p e = true)
    (hcl : s.cleared p = false) :
    (shutdownNode t { s with downOpen := upd s.downOpen e false } p).view =
      shutV t s.view p (fun e' => e' == e) := by
  show shutV t ({ s with downOpen := upd s.downOpen e false } : State).view p (fun _ => false) = _
  simp only [shutV, State.view, View.mk.injEq, true_and, and_true]
  constructor
  · funext e'
    simp only [upd_apply]
    by_cases h : e' = e
    · subst h; simp [hc, hcl]
    · simp [h]
  · funext e'
    simp only [upd_apply]
    by_cases h : e' = e
    · subst h; simp
    · have hb : (e' == e) = false := by simpa using h
      simp [h, hb]

theorem Inv.shutdownNode {t : Topo} (wf : t.WF) {s : State} (h : Inv t s) {p : Nat}
    (hl : s.loopOk t p = true) : Inv t (shutdownNode t s p) := by
  unfold Inv; rw [view_shutdownNode]
  unfold State.loopOk at hl
  simp only [Bool.and_eq_true, bne_iff_ne, ne_eq] at hl
  exact InvV.shut wf h hl.1.2 hl.2 hl.1.1.2 (fun _ x => by cases x)

theorem Inv.systemError {t : Topo} (wf : t.WF) {s : State} (h : Inv t s) {p : Nat}
    (hl : s.loopOk t p = true) : Inv t (systemError t s p) := by
  unfold Inv; rw [view_systemError]
  unfold State.loopOk at hl
  simp only [Bool.and_eq_true, bne_iff_ne, ne_eq] at hl
  exact InvV.shut wf h hl.1.2 hl.2 hl.1.1.2 (fun _ x => by cases x)

theorem Inv.congr {t : Topo} {s s' : State} (h : Inv t s) (hv : s'.view = s.view) : Inv t s' := by
  unfold Inv; rw [hv]; exact h

theorem Inv.clientGone {t : Topo} (wf : t.WF) {s : State} (h : Inv t s) (hl : s.loopOk t 0 = true)
    (c : Nat) (em : List (Dest × Msg)) : Inv t (clientGone t s c em) := by
  unfold Crash.clientGone
  split
  · exact h.shutdownNode wf hl
  · exact InvV.cClose h c

theorem Inv.handleRequest {t : Topo} (wf : t.WF) {s : State} (h : Inv t s) (hl : s.loopOk t 0 = true)
    (c m : Nat) (em : List (Dest × Msg)) : Inv t (handleRequest t s c m em) := by
  have hbad : Inv t (Crash.clientGone t { s with toClient := upd s.toClient c (s.toClient c ++ [.error]) } c em) :=
    Inv.clientGone (s := { s with toClient := upd s.toClient c (s.toClient c ++ [.error]) }) wf (h.congr rfl) hl c em
  unfold Crash.handleRequest
  simp only
  split
  · exact hbad
  · split
    · split
      · split
        · exact h.congr rfl
        · exact h.congr rfl
      · exact hbad
    · exact hbad

/-- every transition keeps the invariant -/
theorem step_inv {t : Topo} (wf : t.WF) {s s' : State} {l : Label} (hi : Inv t s)
    (h : step t s l = some s') : Inv t s' := by
  cases l with
  | flushDrop n =>
    simp only [step] at h
    unfold flushDrop at h
    split at h
    · cases h
    split at h
    · cases h
    split at h <;> cases h
    exact hi.congr rfl
  | crash n tr =>
    simp only [step, crash] at h
    split at h
    · cases h
    rename_i hg
    simp only [Bool.not_eq_true', Bool.not_eq_false, Bool.and_eq_true, decide_eq_true_eq] at hg
    have hn0 : n ≠ 0 := by omega
    split at h <;> cases h
    · exact InvV.kill hi n hn0
    · exact InvV.kill hi n hn0
  | recvEmp p e em f =>
    simp only [step] at h
    unfold recvEmp at h
    split at h
    · cases h
    rename_i hg
    simp only [Bool.not_eq_true', Bool.not_eq_false, Bool.and_eq_true] at hg
    obtain ⟨⟨⟨hloop, hch⟩, hdo⟩, _⟩ := hg
    have hloop' := hloop
    unfold State.loopOk at hloop'
    simp only [Bool.and_eq_true, bne_iff_ne, ne_eq] at hloop'
    have hcl := (hi.down p e hch hloop'.1.2 hloop'.2).2
    have closeShut : Inv t (shutdownNode t { s with downOpen := upd s.downOpen e false } p) →
        True := fun _ => trivial
    split at h
    · -- EOF
      split at h
      · cases h
      rename_i heof
      have heof' : (s.alive e && s.upOpen e) = false := by simpa using heof
      have key : Inv t (shutdownNode t { s with downOpen := upd s.downOpen e false } p) := by
        unfold Inv
        rw [view_closeShutdown t s p e hch hcl]
        refine InvV.shut wf hi hloop'.1.2 hloop'.2 hloop'.1.1.2 (fun e' x => ?_)
        have : e' = e := by simpa using x
        subst this; exact heof'
      split at h
      · cases h; exact hi.systemError wf hloop
      split at h
      · cases h; exact key.congr rfl
      split at h
      · cases h; exact hi.shutdownNode wf hloop
      · cases h; exact key
    · rename_i m rest hout
      have hi0 : Inv t { s with outbox := upd s.outbox e rest } := hi.congr rfl
      have hl0 : ({ s with outbox := upd s.outbox e rest } : State).loopOk t p = true := hloop
      simp only at h
      split at h
      · split at h <;> cases h
        · exact hi0.shutdownNode wf hl0
        · exact hi0.congr rfl
      · cases h; exact hi0.systemError wf hl0
      · split at h <;> cases h
        · exact (hi0.systemError wf hl0).congr rfl
        · exact hi0.congr rfl
      · split at h <;> cases h
        · exact hi0.congr (view_handleResult _ _ _)
        · exact hi0.congr rfl
      · split at h <;> cases h
        · exact hi0.systemError wf hl0
        · exact hi0.congr rfl
      · split at h <;> cases h
        · exact hi0.systemError wf hl0
        · exact hi0.congr rfl
  | recvUp n em f =>
    simp only [step] at h
    unfold recvUp at h
    split at h
    · cases h
    rename_i hg
    simp only [Bool.not_eq_true', Bool.not_eq_false, Bool.and_eq_true] at hg
    obtain ⟨⟨⟨hloop, hn0'⟩, _⟩, _⟩ := hg
    have hn0 : n ≠ 0 := by simpa using hn0'
    split at h
    · split at h
      · cases h
      split at h
      · cases h; exact hi.systemError wf hloop
      · rename_i heof
        cases h
        have hloop' := hloop
        unfold State.loopOk at hloop'
        simp only [Bool.and_eq_true, bne_iff_ne, ne_eq] at hloop'
        unfold Inv
        rw [view_shutdownNode]
        show InvV t (shutV t (upCloseV s.view n) n (fun _ => false))
        rw [shutV_upClose t s.view hn0]
        exact InvV.shut wf hi hloop'.1.2 hloop'.2 hloop'.1.1.2 (fun _ x => by cases x)
    · rename_i m rest hin
      have hi0 : Inv t { s with inbox := upd s.inbox n rest } := hi.congr rfl
      have hl0 : ({ s with inbox := upd s.inbox n rest } : State).loopOk t n = true := hloop
      simp only at h
      split at h
      · cases h; exact hi0.shutdownNode wf hl0
      · cases h; exact hi0.systemError wf hl0
      · split at h <;> cases h
        · exact hi0.systemError wf hl0
        · exact hi0.congr rfl
  | recvClient c em f =>
    simp only [step] at h
    unfold recvClient at h
    split at h
    · cases h
    rename_i hg
    simp only [Bool.not_eq_true', Bool.not_eq_false, Bool.and_eq_true] at hg
    obtain ⟨⟨hloop, _⟩, _⟩ := hg
    split at h
    · split at h
      · cases h
      · cases h; exact Inv.clientGone wf hi hloop c em
    · rename_i m rest hin
      have hi0 : Inv t { s with toServer := upd s.toServer c rest } := hi.congr rfl
      have hl0 : ({ s with toServer := upd s.toServer c rest } : State).loopOk t 0 = true := hloop
      simp only at h
      split at h
      · cases h; exact Inv.clientGone wf hi0 hl0 c em
      · cases h; exact hi0.congr rfl
      · cases h; exact Inv.handleRequest wf hi0 hl0 c _ em
      · split at h <;> cases h
        · exact hi0.systemError wf hl0
        · exact hi0.congr rfl
      · cases h; exact hi0.systemError wf hl0
  | flush n =>
    simp only [step] at h
    unfold flush at h
    split at h
    · cases h
    split at h
    · cases h
    simp only at h
    split at h
    · split at h
      · cases h
      split at h <;> cases h <;> exact hi.congr rfl
    · split at h
      · cases h
      split at h <;> cases h <;> exact hi.congr rfl
    · split at h
      · cases h
      split at h <;> cases h <;> exact hi.congr rfl
  | wsend w m =>
    simp only [step] at h
    unfold wsend at h
    split at h
    · cases h
    rename_i hg
    have hw0 : w ≠ 0 := by
      intro x; subst x
      simp [isWorker, wf.kroot] at hg
    split at h <;> cases h
    · exact hi.congr rfl
    · exact hi.congr rfl
    · exact InvV.kill hi w hw0
  | wrecv w =>
    simp only [step] at h
    unfold wrecv at h
    split at h
    · cases h
    rename_i hg
    have hw0 : w ≠ 0 := by
      intro x; subst x
      simp [isWorker, wf.kroot] at hg
    split at h
    · split at h <;> cases h
      exact InvV.kill hi w hw0
    · simp only at h
      split at h <;> cases h
      · exact InvV.kill (t := t) (v := s.view) hi w hw0
      · exact InvV.kill (t := t) (v := s.view) hi w hw0
      · exact hi.congr rfl
  | ccall c r =>
    simp only [step] at h
    unfold ccall at h
    split at h
    · cases h
    split at h
    · cases h; exact hi.congr rfl
    split at h <;> cases h <;> exact hi.congr rfl
  | cwake c =>
    simp only [step] at h
    unfold cwake at h
    split at h
    · cases h
    split at h
    · cases h
    split at h <;> cases h <;> exact hi.congr rfl

end BqVerif.Crash
