import BqVerif.Model.GraphExt
import BqVerif.Proofs.GraphConn
/-!
`CouplingGraph.get_qpu_to_qudit_map` (graph.py 200-222): the model `G.qpuToQudit` (with the inner
worklist loop `compLoop` over `localAdj`) returns exactly the connected components of the graph
without its remote edges (the "QPUs"), discovered by increasing smallest vertex, which is the first
element of every member list.  The order inside a member list after its first element is the
model's FIFO order and is not claimed to be Python's (`frontier.pop()` of a set); everything is
stated up to that order.

Also (code as fixed in 2c665e0): `get_qudit_to_qpu_map` never raises KeyError and is the documented
map `qudit ↦ index of its QPU` for all well-formed graphs (`quditToQpuImpl?_eq_spec`,
`quditToQpuImpl_get`, `qpuOf_eq_iff`), and `get_qpu_connectivity` is the adjacency between the
QPUs over the remote edges (`qpuConnImpl_spec`, `qpuConnImpl_eq_spec`).
-/
namespace BqVerif.Graph

/-! ### reachability over non-remote edges -/

/-- adjacency over non-remote edges -/
def localEdge (g : G) (remote : List (Nat × Nat)) (a b : Nat) : Prop :=
  g.hasEdge a b = true ∧ remote.contains (norm (a, b)) = false

/-- reflexive-transitive closure of `localEdge` -/
inductive ReachLocal (g : G) (remote : List (Nat × Nat)) : Nat → Nat → Prop
  | refl (a : Nat) : ReachLocal g remote a a
  | step {a b c : Nat} : ReachLocal g remote a b → localEdge g remote b c → ReachLocal g remote a c

theorem localEdge_comm {g : G} {remote : List (Nat × Nat)} {a b : Nat}
    (h : localEdge g remote a b) : localEdge g remote b a := by
  unfold localEdge at *
  rw [G.hasEdge_comm, norm_comm]
  exact h

theorem ReachLocal.trans {g : G} {remote : List (Nat × Nat)} {a b c : Nat}
    (h1 : ReachLocal g remote a b) (h2 : ReachLocal g remote b c) : ReachLocal g remote a c := by
  induction h2 with
  | refl => exact h1
  | step _ he ih => exact ReachLocal.step ih he

theorem ReachLocal.single {g : G} {remote : List (Nat × Nat)} {a b : Nat}
    (h : localEdge g remote a b) : ReachLocal g remote a b :=
  ReachLocal.step (ReachLocal.refl a) h

theorem ReachLocal.symm {g : G} {remote : List (Nat × Nat)} {a b : Nat}
    (h : ReachLocal g remote a b) : ReachLocal g remote b a := by
  induction h with
  | refl => exact ReachLocal.refl _
  | step _ he ih => exact ReachLocal.trans (ReachLocal.single (localEdge_comm he)) ih

theorem ReachLocal.lt {g : G} {remote : List (Nat × Nat)} (hwf : g.WF) {a b : Nat}
    (h : ReachLocal g remote a b) (ha : a < g.n) : b < g.n := by
  induction h with
  | refl => exact ha
  | step _ he _ => exact (g.hasEdge_lt hwf he.1).2.2

/-- a local path is a path -/
theorem ReachLocal.reach {g : G} {remote : List (Nat × Nat)} {a b : Nat}
    (h : ReachLocal g remote a b) : Reach g a b := by
  induction h with
  | refl => exact Reach.refl _
  | step _ he ih => exact Reach.step ih he.1

/-- without remote edges local reachability is reachability -/
theorem reachLocal_nil_iff {g : G} {a b : Nat} : ReachLocal g [] a b ↔ Reach g a b := by
  constructor
  · exact ReachLocal.reach
  · intro h
    induction h with
    | refl => exact ReachLocal.refl _
    | step _ he ih => exact ReachLocal.step ih ⟨he, by simp⟩

theorem mem_localAdj (g : G) (remote : List (Nat × Nat)) (v u : Nat) :
    u ∈ localAdj g remote v ↔ u < g.n ∧ localEdge g remote v u := by
  unfold localAdj localEdge
  rw [List.mem_filter, G.mem_adj]
  simp [and_assoc]

theorem mem_localAdj_wf (g : G) (hwf : g.WF) (remote : List (Nat × Nat)) (v u : Nat) :
    u ∈ localAdj g remote v ↔ localEdge g remote v u := by
  rw [mem_localAdj]
  exact ⟨fun h => h.2, fun h => ⟨(g.hasEdge_lt hwf h.1).2.2, h⟩⟩

theorem nodup_localAdj (g : G) (remote : List (Nat × Nat)) (v : Nat) :
    (localAdj g remote v).Nodup :=
  List.Pairwise.filter _ (g.nodup_adj v)

/-! ### the worklist loop -/

/-- the invariant of the inner `while len(frontier) > 0` loop, for the search started at `q` -/
structure CompInv (g : G) (remote : List (Nat × Nat)) (q : Nat) (frontier qpu : List Nat) :
    Prop where
  nodup : (qpu ++ frontier).Nodup
  ok : ∀ v ∈ qpu ++ frontier, v < g.n ∧ ReachLocal g remote q v
  head : (qpu ++ frontier).head? = some q
  closed : ∀ v ∈ qpu, ∀ u, localEdge g remote v u → u ∈ qpu ++ frontier

theorem compInv_init (g : G) (remote : List (Nat × Nat)) (q : Nat) (hq : q < g.n) :
    CompInv g remote q [q] [] where
  nodup := by simp
  ok := by
    intro v hv
    simp at hv
    subst hv
    exact ⟨hq, ReachLocal.refl _⟩
  head := by simp
  closed := by simp

theorem compLoop_cons (g : G) (remote : List (Nat × Nat)) (fuel node : Nat) (rest qpu : List Nat) :
    compLoop g remote (fuel + 1) (node :: rest) qpu =
      compLoop g remote fuel
        (rest ++ (localAdj g remote node).filter (fun u =>
          !(if qpu.contains node then qpu else qpu ++ [node]).contains u && !rest.contains u))
        (if qpu.contains node then qpu else qpu ++ [node]) := rfl

/-- one iteration: the popped node is new (the `contains` test of the model never fires) and the
invariant is kept -/
theorem compInv_step {g : G} (hwf : g.WF) {remote : List (Nat × Nat)} {q node : Nat}
    {rest qpu : List Nat} (h : CompInv g remote q (node :: rest) qpu) :
    qpu.contains node = false ∧
    CompInv g remote q
      (rest ++ (localAdj g remote node).filter (fun u =>
        !(qpu ++ [node]).contains u && !rest.contains u))
      (qpu ++ [node]) := by
  have hnd := h.nodup
  have hnq : node ∉ qpu := by
    intro hm
    rw [List.nodup_append] at hnd
    exact hnd.2.2 node hm node (by simp) rfl
  have hmemnew : ∀ u, u ∈ (localAdj g remote node).filter (fun u =>
        !(qpu ++ [node]).contains u && !rest.contains u) ↔
        localEdge g remote node u ∧ u ∉ qpu ++ node :: rest := by
    intro u
    rw [List.mem_filter, mem_localAdj_wf g hwf]
    simp only [Bool.and_eq_true, Bool.not_eq_true', List.contains_eq_mem, decide_eq_false_iff_not,
      List.mem_append, List.mem_cons, List.not_mem_nil, or_false, not_or]
    constructor
    · rintro ⟨h1, ⟨h2, h3⟩, h4⟩; exact ⟨h1, h2, h3, h4⟩
    · rintro ⟨h1, h2, h3, h4⟩; exact ⟨h1, ⟨h2, h3⟩, h4⟩
  have hassoc : ∀ (new : List Nat), (qpu ++ [node]) ++ (rest ++ new) = (qpu ++ node :: rest) ++ new := by
    intro new; simp
  refine ⟨by simpa using hnq, ?_⟩
  constructor
  · rw [hassoc, List.nodup_append]
    refine ⟨hnd, List.Pairwise.filter _ (nodup_localAdj g remote node), ?_⟩
    intro a ha b hb hab
    rw [hmemnew] at hb
    exact hb.2 (hab ▸ ha)
  · intro v hv
    rw [hassoc, List.mem_append] at hv
    rcases hv with hv | hv
    · exact h.ok v hv
    · rw [hmemnew] at hv
      have hn := h.ok node (by simp)
      exact ⟨(g.hasEdge_lt hwf hv.1.1).2.2, ReachLocal.step hn.2 hv.1⟩
  · rw [hassoc]
    have := h.head
    cases hl : qpu ++ node :: rest with
    | nil => simp at hl
    | cons x xs => rw [hl] at this; simpa using this
  · intro v hv u hu
    rw [hassoc, List.mem_append]
    rw [List.mem_append, List.mem_singleton] at hv
    by_cases hin : u ∈ qpu ++ node :: rest
    · exact Or.inl hin
    · rcases hv with hv | hv
      · exact absurd (h.closed v hv u hu) hin
      · subst hv
        exact Or.inr ((hmemnew u).2 ⟨hu, hin⟩)

/-- the loop keeps the invariant and ends with an empty frontier when the fuel is at least the
number of vertices not yet in `qpu` -/
theorem compLoop_inv (g : G) (hwf : g.WF) (remote : List (Nat × Nat)) (q : Nat) :
    ∀ (fuel : Nat) (frontier qpu : List Nat), CompInv g remote q frontier qpu →
      g.n - qpu.length ≤ fuel →
      CompInv g remote q [] (compLoop g remote fuel frontier qpu)
  | fuel, [], qpu, h, _ => by
    cases fuel <;> exact h
  | 0, node :: rest, qpu, h, hf => by
    have := nodup_lt_length_le h.nodup (fun x hx => (h.ok x hx).1)
    simp at this
    omega
  | fuel + 1, node :: rest, qpu, h, hf => by
    rw [compLoop_cons]
    obtain ⟨hc, hinv⟩ := compInv_step hwf h
    rw [hc]
    simp only [Bool.false_eq_true, if_false]
    refine compLoop_inv g hwf remote q fuel _ _ hinv ?_
    simp
    omega

/-- what the invariant says at the end -/
theorem CompInv.final {g : G} {remote : List (Nat × Nat)} {q : Nat} {c : List Nat}
    (h : CompInv g remote q [] c) :
    c.Nodup ∧ c.head? = some q ∧ ∀ v, v ∈ c ↔ ReachLocal g remote q v := by
  have hnd := h.nodup
  have hhd := h.head
  simp only [List.append_nil] at hnd hhd
  refine ⟨hnd, hhd, fun v => ⟨fun hv => (h.ok v (by simpa using hv)).2, fun hr => ?_⟩⟩
  induction hr with
  | refl =>
    cases c with
    | nil => simp at hhd
    | cons x xs => simp at hhd; simp [hhd]
  | step _ he ih => simpa using h.closed _ ih _ he

/-- one component search: from `[q]` with `qpu = []` the loop returns exactly the vertices
reachable from `q` over non-remote edges, duplicate free, `q` first; any fuel `≥ n` will do. -/
theorem compLoop_spec_fuel (g : G) (hwf : g.WF) (remote : List (Nat × Nat)) (q : Nat)
    (hq : q < g.n) (fuel : Nat) (hf : g.n ≤ fuel) :
    let c := compLoop g remote fuel [q] []
    c.Nodup ∧ c.head? = some q ∧ ∀ v, v ∈ c ↔ ReachLocal g remote q v :=
  (compLoop_inv g hwf remote q fuel [q] [] (compInv_init g remote q hq) (by simp; omega)).final

theorem compLoop_spec (g : G) (hwf : g.WF) (remote : List (Nat × Nat)) (q : Nat) (hq : q < g.n) :
    let c := compLoop g remote (g.n + 1) [q] []
    c.Nodup ∧ c.head? = some q ∧ ∀ v, v ∈ c ↔ ReachLocal g remote q v :=
  compLoop_spec_fuel g hwf remote q hq (g.n + 1) (by omega)

/-! ### the outer loop -/

/-- `c` is the full `ReachLocal`-class of `q`, duplicate free, with `q` first and smallest -/
structure IsComp (g : G) (remote : List (Nat × Nat)) (c : List Nat) (q : Nat) : Prop where
  head : c.head? = some q
  nodup : c.Nodup
  mem : ∀ v, v ∈ c ↔ ReachLocal g remote q v
  min : ∀ v ∈ c, q ≤ v

/-- the body of `for qudit in range(num_qudits)` -/
def qpuStep (g : G) (remote : List (Nat × Nat)) (qpus : List (List Nat)) (qudit : Nat) :
    List (List Nat) :=
  if qpus.any (·.contains qudit) then qpus
  else qpus ++ [compLoop g remote (g.n + 1) [qudit] []]

theorem qpuToQudit_eq_foldl (g : G) (remote : List (Nat × Nat)) :
    g.qpuToQudit remote = (List.range g.n).foldl (qpuStep g remote) [] := rfl

/-- the invariant of the outer loop after the qudits `< k` -/
structure QpuInv (g : G) (remote : List (Nat × Nat)) (k : Nat) (qs : List (List Nat)) : Prop where
  covers : ∀ v, v < k → ∃ c ∈ qs, v ∈ c
  comp : ∀ c ∈ qs, ∃ q, q < k ∧ IsComp g remote c q
  disj : qs.Pairwise (fun c d => ∀ u ∈ c, ∀ v ∈ d, ¬ ReachLocal g remote u v)
  incr : qs.Pairwise (fun c d => c.headD 0 < d.headD 0)

theorem IsComp.headD {g : G} {remote : List (Nat × Nat)} {c : List Nat} {q : Nat}
    (h : IsComp g remote c q) : c.headD 0 = q := by
  have := h.head
  cases c with
  | nil => simp at this
  | cons x xs => simpa using this

theorem IsComp.self_mem {g : G} {remote : List (Nat × Nat)} {c : List Nat} {q : Nat}
    (h : IsComp g remote c q) : q ∈ c := (h.mem q).2 (ReachLocal.refl q)

theorem qpuInv_step {g : G} (hwf : g.WF) {remote : List (Nat × Nat)} {k : Nat}
    {qs : List (List Nat)} (h : QpuInv g remote k qs) (hk : k < g.n) :
    QpuInv g remote (k + 1) (qpuStep g remote qs k) := by
  unfold qpuStep
  by_cases hany : qs.any (·.contains k) = true
  · rw [if_pos hany]
    refine ⟨?_, ?_, h.disj, h.incr⟩
    · intro v hv
      by_cases hvk : v = k
      · subst hvk
        simpa using hany
      · exact h.covers v (by omega)
    · intro c hc
      obtain ⟨q, hq, hcq⟩ := h.comp c hc
      exact ⟨q, by omega, hcq⟩
  · rw [if_neg hany]
    have hnot : ∀ c ∈ qs, k ∉ c := by
      intro c hc hkc
      apply hany
      simp only [List.any_eq_true, List.contains_eq_mem, decide_eq_true_eq]
      exact ⟨c, hc, hkc⟩
    obtain ⟨hnd, hhd, hmem⟩ := compLoop_spec g hwf remote k hk
    -- nothing reachable from `k` lies in an earlier list
    have hfresh : ∀ c ∈ qs, ∀ u ∈ c, ∀ v, ReachLocal g remote k v → ¬ ReachLocal g remote u v := by
      intro c hc u hu v hkv huv
      obtain ⟨q, _, hcq⟩ := h.comp c hc
      have hqu := (hcq.mem u).1 hu
      exact hnot c hc ((hcq.mem k).2 (hqu.trans (huv.trans hkv.symm)))
    have hnew : IsComp g remote (compLoop g remote (g.n + 1) [k] []) k := by
      refine ⟨hhd, hnd, hmem, ?_⟩
      intro v hv
      apply Classical.byContradiction
      intro hlt
      obtain ⟨c, hc, hvc⟩ := h.covers v (by omega)
      exact hfresh c hc v hvc v ((hmem v).1 hv) (ReachLocal.refl v)
    refine ⟨?_, ?_, ?_, ?_⟩
    · intro v hv
      by_cases hvk : v = k
      · subst hvk
        exact ⟨_, by simp, hnew.self_mem⟩
      · obtain ⟨c, hc, hvc⟩ := h.covers v (by omega)
        exact ⟨c, by simp [hc], hvc⟩
    · intro c hc
      rw [List.mem_append, List.mem_singleton] at hc
      rcases hc with hc | hc
      · obtain ⟨q, hq, hcq⟩ := h.comp c hc
        exact ⟨q, by omega, hcq⟩
      · subst hc
        exact ⟨k, by omega, hnew⟩
    · rw [List.pairwise_append]
      refine ⟨h.disj, by simp, ?_⟩
      intro c hc d hd u hu v hv
      rw [List.mem_singleton] at hd
      subst hd
      exact hfresh c hc u hu v ((hmem v).1 hv)
    · rw [List.pairwise_append]
      refine ⟨h.incr, by simp, ?_⟩
      intro c hc d hd
      rw [List.mem_singleton] at hd
      subst hd
      obtain ⟨q, hq, hcq⟩ := h.comp c hc
      rw [hcq.headD, hnew.headD]
      exact hq

theorem qpuInv_range (g : G) (hwf : g.WF) (remote : List (Nat × Nat)) :
    ∀ k, k ≤ g.n → QpuInv g remote k ((List.range k).foldl (qpuStep g remote) [])
  | 0, _ => by
    refine ⟨fun v hv => by omega, by simp, by simp, by simp⟩
  | k + 1, hk => by
    rw [List.range_succ, List.foldl_append]
    exact qpuInv_step hwf (qpuInv_range g hwf remote k (by omega)) (by omega)

/-- `get_qpu_to_qudit_map`: a partition of `[0, n)` into the `ReachLocal`-classes, ordered by
smallest member, which is the head of each member list. -/
theorem qpuToQudit_spec (g : G) (hwf : g.WF) (remote : List (Nat × Nat)) :
    let qs := g.qpuToQudit remote
    (∀ v, v < g.n → ∃ c ∈ qs, v ∈ c) ∧
    (∀ c ∈ qs, c ≠ [] ∧ c.Nodup ∧ ∀ v ∈ c, v < g.n) ∧
    (∀ c ∈ qs, ∀ u ∈ c, ∀ v, v ∈ c ↔ ReachLocal g remote u v) ∧
    (qs.Pairwise (fun c d => ∀ u ∈ c, ∀ v ∈ d, ¬ ReachLocal g remote u v)) ∧
    (qs.Pairwise (fun c d => c.headD 0 < d.headD 0)) ∧
    (∀ c ∈ qs, ∀ v ∈ c, c.headD 0 ≤ v) := by
  intro qs
  have h : QpuInv g remote g.n qs := qpuInv_range g hwf remote g.n (Nat.le_refl _)
  refine ⟨h.covers, ?_, ?_, h.disj, h.incr, ?_⟩
  · intro c hc
    obtain ⟨q, hq, hcq⟩ := h.comp c hc
    refine ⟨List.ne_nil_of_mem hcq.self_mem, hcq.nodup, ?_⟩
    intro v hv
    exact ((hcq.mem v).1 hv).lt hwf hq
  · intro c hc u hu v
    obtain ⟨q, hq, hcq⟩ := h.comp c hc
    have hqu := (hcq.mem u).1 hu
    rw [hcq.mem v]
    exact ⟨fun hqv => hqu.symm.trans hqv, fun huv => hqu.trans huv⟩
  · intro c hc v hv
    obtain ⟨q, hq, hcq⟩ := h.comp c hc
    rw [hcq.headD]
    exact hcq.min v hv

/-- consequences in the usual partition form: every qudit is in exactly one list -/
theorem qpuToQudit_unique (g : G) (hwf : g.WF) (remote : List (Nat × Nat)) (v : Nat)
    (hv : v < g.n) : ∃ c ∈ g.qpuToQudit remote, v ∈ c ∧
      ∀ i j : Nat, (g.qpuToQudit remote)[i]? = some c → v ∈ (g.qpuToQudit remote)[j]?.getD [] → i = j := by
  obtain ⟨hcov, _, hcls, hdisj, _, _⟩ := qpuToQudit_spec g hwf remote
  obtain ⟨c, hc, hvc⟩ := hcov v hv
  refine ⟨c, hc, hvc, ?_⟩
  intro i j hi hj
  cases hjd : (g.qpuToQudit remote)[j]? with
  | none => rw [hjd] at hj; simp at hj
  | some d =>
    rw [hjd] at hj
    simp only [Option.getD_some] at hj
    have hrel := List.pairwise_iff_getElem.1 hdisj
    obtain ⟨hil, hic⟩ := List.getElem?_eq_some_iff.1 hi
    obtain ⟨hjl, hjc⟩ := List.getElem?_eq_some_iff.1 hjd
    apply Classical.byContradiction
    intro hne
    rcases Nat.lt_or_gt_of_ne hne with hlt | hlt
    · exact hrel i j hil hjl hlt v (hic ▸ hvc) v (hjc ▸ hj) (ReachLocal.refl v)
    · exact hrel j i hjl hil hlt v (hjc ▸ hj) v (hic ▸ hvc) (ReachLocal.refl v)

/-! ### `get_qudit_to_qpu_map` -/

/-- the QPU index of a qudit: position of the (unique) QPU list containing it -/
def G.qpuOf (g : G) (remote : List (Nat × Nat)) (q : Nat) : Nat :=
  (g.qpuToQudit remote).findIdx (·.contains q)

/-- no qudit lies in two different QPU lists -/
theorem qpuToQudit_idx_unique (g : G) (hwf : g.WF) (remote : List (Nat × Nat)) {i j v : Nat}
    {c d : List Nat} (hi : (g.qpuToQudit remote)[i]? = some c)
    (hj : (g.qpuToQudit remote)[j]? = some d) (hc : v ∈ c) (hd : v ∈ d) : i = j := by
  obtain ⟨_, _, _, hdisj, _, _⟩ := qpuToQudit_spec g hwf remote
  have hrel := List.pairwise_iff_getElem.1 hdisj
  obtain ⟨hil, hic⟩ := List.getElem?_eq_some_iff.1 hi
  obtain ⟨hjl, hjc⟩ := List.getElem?_eq_some_iff.1 hj
  apply Classical.byContradiction
  intro hne
  rcases Nat.lt_or_gt_of_ne hne with hlt | hlt
  · exact hrel i j hil hjl hlt v (hic ▸ hc) v (hjc ▸ hd) (ReachLocal.refl v)
  · exact hrel j i hjl hil hlt v (hjc ▸ hd) v (hic ▸ hc) (ReachLocal.refl v)

/-- `qpuOf q` is the index of a list that contains `q`, for `q < n` -/
theorem qpuOf_spec (g : G) (hwf : g.WF) (remote : List (Nat × Nat)) (q : Nat) (hq : q < g.n) :
    ∃ c, (g.qpuToQudit remote)[g.qpuOf remote q]? = some c ∧ q ∈ c := by
  obtain ⟨hcov, _⟩ := qpuToQudit_spec g hwf remote
  obtain ⟨c, hc, hqc⟩ := hcov q hq
  have hex : ∃ x ∈ g.qpuToQudit remote, (fun l : List Nat => l.contains q) x = true :=
    ⟨c, hc, by simpa using hqc⟩
  have hlt := List.findIdx_lt_length_of_exists hex
  refine ⟨(g.qpuToQudit remote)[g.qpuOf remote q]'hlt, ?_, ?_⟩
  · exact List.getElem?_eq_getElem hlt
  · have := List.findIdx_getElem (w := hlt)
    simpa [G.qpuOf] using this

/-- … and the only one -/
theorem qpuOf_unique (g : G) (hwf : g.WF) (remote : List (Nat × Nat)) (q : Nat) (hq : q < g.n)
    {i : Nat} {c : List Nat} (hi : (g.qpuToQudit remote)[i]? = some c) (hc : q ∈ c) :
    i = g.qpuOf remote q := by
  obtain ⟨d, hd, hqd⟩ := qpuOf_spec g hwf remote q hq
  exact qpuToQudit_idx_unique g hwf remote hi hd hc hqd

/-- the dict holds `(q, i)` exactly when `q` is in the `i`-th list -/
theorem mem_qpuDict (qs : List (List Nat)) (q i : Nat) :
    (q, i) ∈ qs.zipIdx.flatMap (fun qi => qi.1.map (fun q => (q, qi.2))) ↔
      ∃ c, qs[i]? = some c ∧ q ∈ c := by
  rw [List.mem_flatMap]
  constructor
  · rintro ⟨⟨c, k⟩, hck, hm⟩
    rw [List.mem_zipIdx_iff_getElem?] at hck
    simp only [List.mem_map, Prod.mk.injEq] at hm
    obtain ⟨q', hq', rfl, rfl⟩ := hm
    exact ⟨c, hck, hq'⟩
  · rintro ⟨c, hc, hqc⟩
    refine ⟨(c, i), List.mem_zipIdx_iff_getElem?.2 hc, ?_⟩
    exact List.mem_map.2 ⟨q, hqc, rfl⟩

theorem mapM_option_eq_some {α β} (f : α → Option β) (h : α → β) :
    ∀ (l : List α), (∀ x ∈ l, f x = some (h x)) → l.mapM f = some (l.map h)
  | [], _ => rfl
  | a :: l, hl => by
    rw [List.mapM_cons, hl a (by simp), mapM_option_eq_some f h l (fun x hx => hl x (by simp [hx]))]
    rfl

/-- the dict lookup of a qudit `q < n` succeeds and yields `qpuOf q`, whatever the order of
insertion -/
theorem qpuDict_lookup (g : G) (hwf : g.WF) (remote : List (Nat × Nat)) (q : Nat) (hq : q < g.n) :
    (((g.qpuToQudit remote).zipIdx.flatMap (fun qi => qi.1.map (fun q => (q, qi.2)))).reverse.find?
      (fun kv => kv.1 == q)).map (·.2) = some (g.qpuOf remote q) := by
  obtain ⟨c, hc, hqc⟩ := qpuOf_spec g hwf remote q hq
  cases hf : ((g.qpuToQudit remote).zipIdx.flatMap
      (fun qi => qi.1.map (fun q => (q, qi.2)))).reverse.find? (fun kv => kv.1 == q) with
  | none =>
    rw [List.find?_eq_none] at hf
    have := hf (q, g.qpuOf remote q)
      (List.mem_reverse.2 ((mem_qpuDict _ q _).2 ⟨c, hc, hqc⟩))
    simp at this
  | some kv =>
    have hp := List.find?_some hf
    have hm := List.mem_reverse.1 (List.mem_of_find?_eq_some hf)
    obtain ⟨k, i⟩ := kv
    simp only [beq_iff_eq] at hp
    subst hp
    obtain ⟨d, hd, hkd⟩ := (mem_qpuDict _ _ _).1 hm
    simp only [Option.map_some, Option.some.injEq]
    exact qpuOf_unique g hwf remote _ hq hd hkd

/-- get_qudit_to_qpu_map never raises KeyError and is the documented map, for ALL graphs -/
theorem quditToQpuImpl?_eq_spec (g : G) (hwf : g.WF) (remote : List (Nat × Nat)) :
    g.quditToQpuImpl? remote = some (g.quditToQpuSpec remote) := by
  unfold G.quditToQpuImpl? G.quditToQpuSpec
  apply mapM_option_eq_some
  intro q hq
  exact qpuDict_lookup g hwf remote q (List.mem_range.1 hq)

theorem quditToQpuImpl_eq_spec (g : G) (hwf : g.WF) (remote : List (Nat × Nat)) :
    g.quditToQpuImpl remote = g.quditToQpuSpec remote := by
  unfold G.quditToQpuImpl
  rw [quditToQpuImpl?_eq_spec g hwf remote]
  rfl

theorem quditToQpuSpec_getD (g : G) (remote : List (Nat × Nat)) (q : Nat) (hq : q < g.n) :
    (g.quditToQpuSpec remote).getD q 0 = g.qpuOf remote q := by
  unfold G.quditToQpuSpec G.qpuOf
  simp [List.getD_eq_getElem?_getD, hq]

/-- … i.e. entry q is the index of the QPU that holds q -/
theorem quditToQpuImpl_get (g : G) (hwf : g.WF) (remote : List (Nat × Nat)) (q : Nat)
    (hq : q < g.n) :
    (g.quditToQpuImpl remote).length = g.n ∧
    (g.quditToQpuImpl remote).getD q 0 < (g.qpuToQudit remote).length ∧
    q ∈ (g.qpuToQudit remote).getD ((g.quditToQpuImpl remote).getD q 0) [] ∧
    ∀ i, q ∈ (g.qpuToQudit remote).getD i [] → i = (g.quditToQpuImpl remote).getD q 0 := by
  rw [quditToQpuImpl_eq_spec g hwf remote, quditToQpuSpec_getD g remote q hq]
  obtain ⟨c, hc, hqc⟩ := qpuOf_spec g hwf remote q hq
  refine ⟨by simp [G.quditToQpuSpec], (List.getElem?_eq_some_iff.1 hc).1, ?_, ?_⟩
  · rw [List.getD_eq_getElem?_getD, hc]
    exact hqc
  · intro i hi
    rw [List.getD_eq_getElem?_getD] at hi
    cases hd : (g.qpuToQudit remote)[i]? with
    | none => rw [hd] at hi; simp at hi
    | some d =>
      rw [hd] at hi
      exact qpuOf_unique g hwf remote q hq hd hi

/-- two qudits are in the same QPU iff connected over non-remote edges -/
theorem qpuOf_eq_iff (g : G) (hwf : g.WF) (remote : List (Nat × Nat)) (a b : Nat)
    (ha : a < g.n) (hb : b < g.n) :
    g.qpuOf remote a = g.qpuOf remote b ↔ ReachLocal g remote a b := by
  obtain ⟨_, _, hcls, _, _, _⟩ := qpuToQudit_spec g hwf remote
  obtain ⟨c, hc, hac⟩ := qpuOf_spec g hwf remote a ha
  obtain ⟨d, hd, hbd⟩ := qpuOf_spec g hwf remote b hb
  constructor
  · intro h
    have hdc : d = c := by rw [h, hd] at hc; exact Option.some.inj hc
    subst hdc
    exact (hcls d (List.mem_of_getElem? hd) a hac b).1 hbd
  · intro h
    have hbc := (hcls c (List.mem_of_getElem? hc) a hac b).2 h
    exact qpuOf_unique g hwf remote b hb hc hbc

theorem qpuOf_lt (g : G) (hwf : g.WF) (remote : List (Nat × Nat)) (q : Nat) (hq : q < g.n) :
    g.qpuOf remote q < (g.qpuToQudit remote).length := by
  obtain ⟨c, hc, _⟩ := qpuOf_spec g hwf remote q hq
  exact (List.getElem?_eq_some_iff.1 hc).1

/-! ### `get_qpu_connectivity` -/

/-- `qpu_adj[a].add(b)` -/
def addAdj (adj : List (List Nat)) (a b : Nat) : List (List Nat) :=
  adj.modify a (fun l => if l.contains b then l else l ++ [b])

theorem length_addAdj (adj : List (List Nat)) (a b : Nat) :
    (addAdj adj a b).length = adj.length := by simp [addAdj]

theorem getD_addAdj (adj : List (List Nat)) (a b j : Nat) :
    (addAdj adj a b).getD j [] =
      if a = j ∧ j < adj.length then
        (if (adj.getD j []).contains b then adj.getD j [] else adj.getD j [] ++ [b])
      else adj.getD j [] := by
  simp only [List.getD_eq_getElem?_getD, addAdj, List.getElem?_modify]
  cases h : adj[j]? with
  | none =>
    have : ¬ j < adj.length := by
      intro hlt
      rw [List.getElem?_eq_getElem hlt] at h
      exact absurd h (by simp)
    simp [this]
  | some l =>
    have : j < adj.length := (List.getElem?_eq_some_iff.1 h).1
    by_cases haj : a = j <;> simp [haj, this]

theorem mem_addAdj (adj : List (List Nat)) (a b j x : Nat) :
    x ∈ (addAdj adj a b).getD j [] ↔ x ∈ adj.getD j [] ∨ (a = j ∧ j < adj.length ∧ x = b) := by
  rw [getD_addAdj]
  by_cases h : a = j ∧ j < adj.length
  · rw [if_pos h]
    by_cases hc : (adj.getD j []).contains b = true
    · rw [if_pos hc]
      constructor
      · exact Or.inl
      · rintro (h1 | ⟨_, _, rfl⟩)
        · exact h1
        · simpa using hc
    · rw [if_neg hc, List.mem_append, List.mem_singleton]
      simp [h.1, h.2]
  · rw [if_neg h]
    constructor
    · exact Or.inl
    · rintro (h1 | ⟨h2, h3, _⟩)
      · exact h1
      · exact absurd ⟨h2, h3⟩ h

theorem nodup_addAdj (adj : List (List Nat)) (a b j : Nat) (h : (adj.getD j []).Nodup) :
    ((addAdj adj a b).getD j []).Nodup := by
  rw [getD_addAdj]
  split
  · split
    · exact h
    · rename_i hc
      rw [List.nodup_append]
      refine ⟨h, by simp, ?_⟩
      intro x hx y hy hxy
      rw [List.mem_singleton] at hy
      subst hy; subst hxy
      exact hc (by simpa using hx)
  · exact h

/-- one remote edge -/
def connStep (f : Nat → Nat) (adj : List (List Nat)) (e : Nat × Nat) : List (List Nat) :=
  addAdj (addAdj adj (f e.1) (f e.2)) (f e.2) (f e.1)

theorem qpuConnWith_eq (count : Nat) (q2q : List Nat) (remote : List (Nat × Nat)) :
    qpuConnWith count q2q remote =
      remote.foldl (connStep (fun q => q2q.getD q 0)) (List.replicate count []) := rfl

theorem connFold_spec (f : Nat → Nat) : ∀ (remote : List (Nat × Nat)) (adj : List (List Nat)),
    (remote.foldl (connStep f) adj).length = adj.length ∧
    (∀ j, (adj.getD j []).Nodup → ((remote.foldl (connStep f) adj).getD j []).Nodup) ∧
    ∀ j x, x ∈ (remote.foldl (connStep f) adj).getD j [] ↔
      x ∈ adj.getD j [] ∨ (j < adj.length ∧ ∃ e ∈ remote,
        (f e.1 = j ∧ f e.2 = x) ∨ (f e.1 = x ∧ f e.2 = j))
  | [], adj => by simp
  | e :: remote, adj => by
    obtain ⟨h1, h2, h3⟩ := connFold_spec f remote (connStep f adj e)
    have hl : (connStep f adj e).length = adj.length := by
      simp [connStep, length_addAdj]
    rw [List.foldl_cons]
    refine ⟨by rw [h1, hl], ?_, ?_⟩
    · intro j hj
      exact h2 j (nodup_addAdj _ _ _ _ (nodup_addAdj _ _ _ _ hj))
    · intro j x
      rw [h3, hl]
      unfold connStep
      rw [mem_addAdj, mem_addAdj, length_addAdj]
      simp only [List.mem_cons, exists_eq_or_imp]
      constructor
      · rintro ((( h | ⟨ha, hb, hc⟩) | ⟨ha, hb, hc⟩) | ⟨hj, e', he', h⟩)
        · exact Or.inl h
        · exact Or.inr ⟨hb, Or.inl (Or.inl ⟨ha, hc.symm⟩)⟩
        · exact Or.inr ⟨hb, Or.inl (Or.inr ⟨hc.symm, ha⟩)⟩
        · exact Or.inr ⟨hj, Or.inr ⟨e', he', h⟩⟩
      · rintro (h | ⟨hj, (⟨ha, hc⟩ | ⟨hc, ha⟩) | ⟨e', he', h⟩⟩)
        · exact Or.inl (Or.inl (Or.inl h))
        · exact Or.inl (Or.inl (Or.inr ⟨ha, hj, hc.symm⟩))
        · exact Or.inl (Or.inr ⟨ha, hj, hc.symm⟩)
        · exact Or.inr ⟨hj, e', he', h⟩

/-- `qpuConnWith` for any lookup list: `count` rows, duplicate free, row `a < count` holds `b` iff
some remote edge has the looked-up end points `{a, b}` -/
theorem qpuConnWith_spec (count : Nat) (q2q : List Nat) (remote : List (Nat × Nat)) :
    (qpuConnWith count q2q remote).length = count ∧
    (∀ a, ((qpuConnWith count q2q remote).getD a []).Nodup) ∧
    ∀ a b, b ∈ (qpuConnWith count q2q remote).getD a [] ↔
      a < count ∧ ∃ e ∈ remote,
        (q2q.getD e.1 0 = a ∧ q2q.getD e.2 0 = b) ∨ (q2q.getD e.1 0 = b ∧ q2q.getD e.2 0 = a) := by
  rw [qpuConnWith_eq]
  obtain ⟨h1, h2, h3⟩ := connFold_spec (fun q => q2q.getD q 0) remote (List.replicate count [])
  have h0 : ∀ j, (List.replicate count ([] : List Nat)).getD j [] = [] := by
    intro j
    rw [List.getD_eq_getElem?_getD, List.getElem?_replicate]
    split <;> rfl
  refine ⟨by simpa using h1, ?_, ?_⟩
  · intro a
    exact h2 a (by rw [h0]; simp)
  · intro a b
    rw [h3, h0]
    simp

/-- get_qpu_connectivity = adjacency between QPU classes via remote edges (remote edges are edges
of g, as the constructor enforces; so their end points are < n) -/
theorem qpuConnImpl_spec (g : G) (hwf : g.WF) (remote : List (Nat × Nat))
    (hrem : ∀ e ∈ remote, g.hasEdge e.1 e.2 = true) :
    (g.qpuConnImpl remote).length = (g.qpuToQudit remote).length ∧
    (∀ a, ((g.qpuConnImpl remote).getD a []).Nodup) ∧
    ∀ a b, b ∈ (g.qpuConnImpl remote).getD a [] ↔
      ∃ e ∈ remote, (g.qpuOf remote e.1 = a ∧ g.qpuOf remote e.2 = b) ∨
                    (g.qpuOf remote e.1 = b ∧ g.qpuOf remote e.2 = a) := by
  unfold G.qpuConnImpl
  obtain ⟨h1, h2, h3⟩ := qpuConnWith_spec (g.qpuToQudit remote).length (g.quditToQpuImpl remote) remote
  refine ⟨h1, h2, ?_⟩
  intro a b
  rw [h3, quditToQpuImpl_eq_spec g hwf remote]
  have hlook : ∀ e ∈ remote,
      (g.quditToQpuSpec remote).getD e.1 0 = g.qpuOf remote e.1 ∧
      (g.quditToQpuSpec remote).getD e.2 0 = g.qpuOf remote e.2 ∧
      g.qpuOf remote e.1 < (g.qpuToQudit remote).length ∧
      g.qpuOf remote e.2 < (g.qpuToQudit remote).length := by
    intro e he
    obtain ⟨_, hl1, hl2⟩ := g.hasEdge_lt hwf (hrem e he)
    exact ⟨quditToQpuSpec_getD g remote _ hl1, quditToQpuSpec_getD g remote _ hl2,
      qpuOf_lt g hwf remote _ hl1, qpuOf_lt g hwf remote _ hl2⟩
  constructor
  · rintro ⟨_, e, he, h⟩
    obtain ⟨e1, e2, _, _⟩ := hlook e he
    rw [e1, e2] at h
    exact ⟨e, he, h⟩
  · rintro ⟨e, he, h⟩
    obtain ⟨e1, e2, l1, l2⟩ := hlook e he
    refine ⟨?_, e, he, by rw [e1, e2]; exact h⟩
    rcases h with ⟨ha, _⟩ | ⟨_, ha⟩
    · rw [← ha]; exact l1
    · rw [← ha]; exact l2

theorem qpuConnImpl_eq_spec (g : G) (hwf : g.WF) (remote : List (Nat × Nat)) :
    g.qpuConnImpl remote = g.qpuConnSpec remote := by
  unfold G.qpuConnImpl G.qpuConnSpec
  rw [quditToQpuImpl_eq_spec g hwf remote]

/-- the former defect reproducers now give the documented values -/
theorem quditToQpu_fixed_examples :
    (G.mk 3 [(0,2),(1,2)]).quditToQpuImpl [(1,2)] = [0,1,0] ∧
    (G.mk 4 [(0,3),(1,3),(2,3)]).qpuConnImpl [(1,3),(2,3)] = [[1,2],[0],[0]] := by decide

/-! ### non-vacuity -/

/-- path 0-1-2-3 with the remote edge (1,2): hypotheses hold; two QPUs -/
example : (⟨4, [(0,1),(1,2),(2,3)]⟩ : G).WF ∧ 2 < (⟨4, [(0,1),(1,2),(2,3)]⟩ : G).n ∧
    compLoop ⟨4, [(0,1),(1,2),(2,3)]⟩ [(1,2)] 5 [2] [] = [2, 3] ∧
    (⟨4, [(0,1),(1,2),(2,3)]⟩ : G).qpuToQudit [(1,2)] = [[0,1],[2,3]] := by
  unfold G.WF; decide

/-- through the theorems: 3 is locally reachable from 2, 1 is not -/
example : ReachLocal ⟨4, [(0,1),(1,2),(2,3)]⟩ [(1,2)] 2 3 ∧
    ¬ ReachLocal ⟨4, [(0,1),(1,2),(2,3)]⟩ [(1,2)] 2 1 := by
  have h := (compLoop_spec ⟨4, [(0,1),(1,2),(2,3)]⟩ (by unfold G.WF; decide) [(1,2)] 2
    (by decide)).2.2
  exact ⟨(h 3).1 (by decide), fun hr => absurd ((h 1).2 hr) (by decide)⟩

/-- … and the same through `qpuOf_eq_iff`: both directions are exercised -/
example : ReachLocal ⟨4, [(0,1),(1,2),(2,3)]⟩ [(1,2)] 2 3 ∧
    ¬ ReachLocal ⟨4, [(0,1),(1,2),(2,3)]⟩ [(1,2)] 2 1 := by
  have hwf : (⟨4, [(0,1),(1,2),(2,3)]⟩ : G).WF := by unfold G.WF; decide
  exact ⟨(qpuOf_eq_iff _ hwf [(1,2)] 2 3 (by decide) (by decide)).1 (by decide),
    fun hr => absurd ((qpuOf_eq_iff _ hwf [(1,2)] 2 1 (by decide) (by decide)).2 hr) (by decide)⟩

/-- the hypotheses of `qpuConnImpl_spec` hold for the star with two remote edges; the QPU lists are
not in qudit order there (`[[0,3],[1],[2]]`: the dict is filled 0,3,1,2) -/
example : (⟨4, [(0,3),(1,3),(2,3)]⟩ : G).WF ∧
    (∀ e ∈ [(1,3),(2,3)], (⟨4, [(0,3),(1,3),(2,3)]⟩ : G).hasEdge e.1 e.2 = true) ∧
    (⟨4, [(0,3),(1,3),(2,3)]⟩ : G).qpuToQudit [(1,3),(2,3)] = [[0,3],[1],[2]] ∧
    (⟨4, [(0,3),(1,3),(2,3)]⟩ : G).quditToQpuImpl? [(1,3),(2,3)] = some [0,1,2,0] := by
  unfold G.WF; decide

/-- the hypothesis `hrem` of `qpuConnImpl_spec` cannot be dropped: for an end point `≥ n` the model
looks up the default 0 (Python: IndexError), `qpuOf` gives the number of QPUs -/
example : (⟨2, [(0,1)]⟩ : G).qpuConnImpl [(0,5)] = [[0]] ∧
    (⟨2, [(0,1)]⟩ : G).qpuOf [(0,5)] 5 = 1 := by decide

/-- `remote` need not be normalised or consist of edges for the theorems on the maps; a pair that
is not normalised is simply never matched (`_remote_edges` is normalised by the constructor) -/
example : (⟨2, [(0,1)]⟩ : G).qpuToQudit [(1,0)] = [[0,1]] ∧
    (⟨2, [(0,1)]⟩ : G).qpuToQudit [(0,1)] = [[0],[1]] := by decide

/-- `n = 0`: no QPU, empty maps -/
example : (⟨0, []⟩ : G).qpuToQudit [] = [] ∧ (⟨0, []⟩ : G).quditToQpuImpl? [] = some [] ∧
    (⟨0, []⟩ : G).qpuConnImpl [] = [] := by decide

end BqVerif.Graph
