import BqVerif.Model.GraphExt
import BqVerif.Proofs.GraphConn
/-!
`CouplingGraph.get_qpu_to_qudit_map` (graph.py 200-222): the model `G.qpuToQudit` (with the inner
worklist loop `compLoop` over `localAdj`) returns exactly the connected components of the graph
without its remote edges (the "QPUs"), discovered by increasing smallest vertex, which is the first
element of every member list.  The order inside a member list after its first element is the
model's FIFO order and is not claimed to be Python's (`frontier.pop()` of a set); everything is
stated up to that order.

Also: kernel-checked witnesses of the defect of `get_qudit_to_qpu_map` / `get_qpu_connectivity`
(`list(dict.values())` is in insertion order, not indexed by qudit).
-/
namespace BqVerif.Graph

/-! ### reachability over non-remote edges -/

/-- adjacency over non-remote edges -/
def localEdge (g : G) (remote : List (Nat × Nat)) (a b : Nat) : Prop :=
  g.hasEdge a b = true ∧ remote.contains (norm (a, b)) = false

/-- reflexive-transitive closure of `localEdge` -/
inductive ReachLocal (g : G) (remote : List (Nat × Nat)) : Nat → Nat → Prop
  | refl (a : Nat) : ReachLocal g remote a a
  | step {a b c : Nat} : ReachLocal g remote a b → localEdge g remote b c → ReachLocal g remote a c

theorem localEdge_comm {g : G} {remote : List (Nat × Nat)} {a b : Nat}
    (h : localEdge g remote a b) : localEdge g remote b a := by
  unfold localEdge at *
  rw [G.hasEdge_comm, norm_comm]
  exact h

theorem ReachLocal.trans {g : G} {remote : List (Nat × Nat)} {a b c : Nat}
    (h1 : ReachLocal g remote a b) (h2 : ReachLocal g remote b c) : ReachLocal g remote a c := by
  induction h2 with
  | refl => exact h1
  | step _ he ih => exact ReachLocal.step ih he

theorem ReachLocal.single {g : G} {remote : List (Nat × Nat)} {a b : Nat}
    (h : localEdge g remote a b) : ReachLocal g remote a b :=
  ReachLocal.step (ReachLocal.refl a) h

theorem ReachLocal.symm {g : G} {remote : List (Nat × Nat)} {a b : Nat}
    (h : ReachLocal g remote a b) : ReachLocal g remote b a := by
  induction h with
  | refl => exact ReachLocal.refl _
  | step _ he ih => exact ReachLocal.trans (ReachLocal.single (localEdge_comm he)) ih

theorem ReachLocal.lt {g : G} {remote : List (Nat × Nat)} (hwf : g.WF) {a b : Nat}
    (h : ReachLocal g remote a b) (ha : a < g.n) : b < g.n := by
  induction h with
  | refl => exact ha
  | step _ he _ => exact (g.hasEdge_lt hwf he.1).2.2

/-- a local path is a path -/
theorem ReachLocal.reach {g : G} {remote : List (Nat × Nat)} {a b : Nat}
    (h : ReachLocal g remote a b) : Reach g a b := by
  induction h with
  | refl => exact Reach.refl _
  | step _ he ih => exact Reach.step ih he.1

/-- without remote edges local reachability is reachability -/
theorem reachLocal_nil_iff {g : G} {a b : Nat} : ReachLocal g [] a b ↔ Reach g a b := by
  constructor
  · exact ReachLocal.reach
  · intro h
    induction h with
    | refl => exact ReachLocal.refl _
    | step _ he ih => exact ReachLocal.step ih ⟨he, by simp⟩

theorem mem_localAdj (g : G) (remote : List (Nat × Nat)) (v u : Nat) :
    u ∈ localAdj g remote v ↔ u < g.n ∧ localEdge g remote v u := by
  unfold localAdj localEdge
  rw [List.mem_filter, G.mem_adj]
  simp [and_assoc]

theorem mem_localAdj_wf (g : G) (hwf : g.WF) (remote : List (Nat × Nat)) (v u : Nat) :
    u ∈ localAdj g remote v ↔ localEdge g remote v u := by
  rw [mem_localAdj]
  exact ⟨fun h => h.2, fun h => ⟨(g.hasEdge_lt hwf h.1).2.2, h⟩⟩

theorem nodup_localAdj (g : G) (remote : List (Nat × Nat)) (v : Nat) :
    (localAdj g remote v).Nodup :=
  List.Pairwise.filter _ (g.nodup_adj v)

/-! ### the worklist loop -/

/-- the invariant of the inner `while len(frontier) > 0` loop, for the search started at `q` -/
structure CompInv (g : G) (remote : List (Nat × Nat)) (q : Nat) (frontier qpu : List Nat) :
    Prop where
  nodup : (qpu ++ frontier).Nodup
  ok : ∀ v ∈ qpu ++ frontier, v < g.n ∧ ReachLocal g remote q v
  head : (qpu ++ frontier).head? = some q
  closed : ∀ v ∈ qpu, ∀ u, localEdge g remote v u → u ∈ qpu ++ frontier

theorem compInv_init (g : G) (remote : List (Nat × Nat)) (q : Nat) (hq : q < g.n) :
    CompInv g remote q [q] [] where
  nodup := by simp
  ok := by
    intro v hv
    simp at hv
    subst hv
    exact ⟨hq, ReachLocal.refl _⟩
  head := by simp
  closed := by simp

theorem compLoop_cons (g : G) (remote : List (Nat × Nat)) (fuel node : Nat) (rest qpu : List Nat) :
    compLoop g remote (fuel + 1) (node :: rest) qpu =
      compLoop g remote fuel
        (rest ++ (localAdj g remote node).filter (fun u =>
          !(if qpu.contains node then qpu else qpu ++ [node]).contains u && !rest.contains u))
        (if qpu.contains node then qpu else qpu ++ [node]) := rfl

/-- one iteration: the popped node is new (the `contains` test of the model never fires) and the
invariant is kept -/
theorem compInv_step {g : G} (hwf : g.WF) {remote : List (Nat × Nat)} {q node : Nat}
    {rest qpu : List Nat} (h : CompInv g remote q (node :: rest) qpu) :
    qpu.contains node = false ∧
    CompInv g remote q
      (rest ++ (localAdj g remote node).filter (fun u =>
        !(qpu ++ [node]).contains u && !rest.contains u))
      (qpu ++ [node]) := by
  have hnd := h.nodup
  have hnq : node ∉ qpu := by
    intro hm
    rw [List.nodup_append] at hnd
    exact hnd.2.2 node hm node (by simp) rfl
  have hmemnew : ∀ u, u ∈ (localAdj g remote node).filter (fun u =>
        !(qpu ++ [node]).contains u && !rest.contains u) ↔
        localEdge g remote node u ∧ u ∉ qpu ++ node :: rest := by
    intro u
    rw [List.mem_filter, mem_localAdj_wf g hwf]
    simp only [Bool.and_eq_true, Bool.not_eq_true', List.contains_eq_mem, decide_eq_false_iff_not,
      List.mem_append, List.mem_cons, List.not_mem_nil, or_false, not_or]
    constructor
    · rintro ⟨h1, ⟨h2, h3⟩, h4⟩; exact ⟨h1, h2, h3, h4⟩
    · rintro ⟨h1, h2, h3, h4⟩; exact ⟨h1, ⟨h2, h3⟩, h4⟩
  have hassoc : ∀ (new : List Nat), (qpu ++ [node]) ++ (rest ++ new) = (qpu ++ node :: rest) ++ new := by
    intro new; simp
  refine ⟨by simpa using hnq, ?_⟩
  constructor
  · rw [hassoc, List.nodup_append]
    refine ⟨hnd, List.Pairwise.filter _ (nodup_localAdj g remote node), ?_⟩
    intro a ha b hb hab
    rw [hmemnew] at hb
    exact hb.2 (hab ▸ ha)
  · intro v hv
    rw [hassoc, List.mem_append] at hv
    rcases hv with hv | hv
    · exact h.ok v hv
    · rw [hmemnew] at hv
      have hn := h.ok node (by simp)
      exact ⟨(g.hasEdge_lt hwf hv.1.1).2.2, ReachLocal.step hn.2 hv.1⟩
  · rw [hassoc]
    have := h.head
    cases hl : qpu ++ node :: rest with
    | nil => simp at hl
    | cons x xs => rw [hl] at this; simpa using this
  · intro v hv u hu
    rw [hassoc, List.mem_append]
    rw [List.mem_append, List.mem_singleton] at hv
    by_cases hin : u ∈ qpu ++ node :: rest
    · exact Or.inl hin
    · rcases hv with hv | hv
      · exact absurd (h.closed v hv u hu) hin
      · subst hv
        exact Or.inr ((hmemnew u).2 ⟨hu, hin⟩)

/-- the loop keeps the invariant and ends with an empty frontier when the fuel is at least the
number of vertices not yet in `qpu` -/
theorem compLoop_inv (g : G) (hwf : g.WF) (remote : List (Nat × Nat)) (q : Nat) :
    ∀ (fuel : Nat) (frontier qpu : List Nat), CompInv g remote q frontier qpu →
      g.n - qpu.length ≤ fuel →
      CompInv g remote q [] (compLoop g remote fuel frontier qpu)
  | fuel, [], qpu, h, _ => by
    cases fuel <;> exact h
  | 0, node :: rest, qpu, h, hf => by
    have := nodup_lt_length_le h.nodup (fun x hx => (h.ok x hx).1)
    simp at this
    omega
  | fuel + 1, node :: rest, qpu, h, hf => by
    rw [compLoop_cons]
    obtain ⟨hc, hinv⟩ := compInv_step hwf h
    rw [hc]
    simp only [Bool.false_eq_true, if_false]
    refine compLoop_inv g hwf remote q fuel _ _ hinv ?_
    simp
    omega

/-- what the invariant says at the end -/
theorem CompInv.final {g : G} {remote : List (Nat × Nat)} {q : Nat} {c : List Nat}
    (h : CompInv g remote q [] c) :
    c.Nodup ∧ c.head? = some q ∧ ∀ v, v ∈ c ↔ ReachLocal g remote q v := by
  have hnd := h.nodup
  have hhd := h.head
  simp only [List.append_nil] at hnd hhd
  refine ⟨hnd, hhd, fun v => ⟨fun hv => (h.ok v (by simpa using hv)).2, fun hr => ?_⟩⟩
  induction hr with
  | refl =>
    cases c with
    | nil => simp at hhd
    | cons x xs => simp at hhd; simp [hhd]
  | step _ he ih => simpa using h.closed _ ih _ he

/-- one component search: from `[q]` with `qpu = []` the loop returns exactly the vertices
reachable from `q` over non-remote edges, duplicate free, `q` first; any fuel `≥ n` will do. -/
theorem compLoop_spec_fuel (g : G) (hwf : g.WF) (remote : List (Nat × Nat)) (q : Nat)
    (hq : q < g.n) (fuel : Nat) (hf : g.n ≤ fuel) :
    let c := compLoop g remote fuel [q] []
    c.Nodup ∧ c.head? = some q ∧ ∀ v, v ∈ c ↔ ReachLocal g remote q v :=
  (compLoop_inv g hwf remote q fuel [q] [] (compInv_init g remote q hq) (by simp; omega)).final

theorem compLoop_spec (g : G) (hwf : g.WF) (remote : List (Nat × Nat)) (q : Nat) (hq : q < g.n) :
    let c := compLoop g remote (g.n + 1) [q] []
    c.Nodup ∧ c.head? = some q ∧ ∀ v, v ∈ c ↔ ReachLocal g remote q v :=
  compLoop_spec_fuel g hwf remote q hq (g.n + 1) (by omega)

/-! ### the outer loop -/

/-- `c` is the full `ReachLocal`-class of `q`, duplicate free, with `q` first and smallest -/
structure IsComp (g : G) (remote : List (Nat × Nat)) (c : List Nat) (q : Nat) : Prop where
  head : c.head? = some q
  nodup : c.Nodup
  mem : ∀ v, v ∈ c ↔ ReachLocal g remote q v
  min : ∀ v ∈ c, q ≤ v

/-- the body of `for qudit in range(num_qudits)` -/
def qpuStep (g : G) (remote : List (Nat × Nat)) (qpus : List (List Nat)) (qudit : Nat) :
    List (List Nat) :=
  if qpus.any (·.contains qudit) then qpus
  else qpus ++ [compLoop g remote (g.n + 1) [qudit] []]

theorem qpuToQudit_eq_foldl (g : G) (remote : List (Nat × Nat)) :
    g.qpuToQudit remote = (List.range g.n).foldl (qpuStep g remote) [] := rfl

/-- the invariant of the outer loop after the qudits `< k` -/
structure QpuInv (g : G) (remote : List (Nat × Nat)) (k : Nat) (qs : List (List Nat)) : Prop where
  covers : ∀ v, v < k → ∃ c ∈ qs, v ∈ c
  comp : ∀ c ∈ qs, ∃ q, q < k ∧ IsComp g remote c q
  disj : qs.Pairwise (fun c d => ∀ u ∈ c, ∀ v ∈ d, ¬ ReachLocal g remote u v)
  incr : qs.Pairwise (fun c d => c.headD 0 < d.headD 0)

theorem IsComp.headD {g : G} {remote : List (Nat × Nat)} {c : List Nat} {q : Nat}
    (h : IsComp g remote c q) : c.headD 0 = q := by
  have := h.head
  cases c with
  | nil => simp at this
  | cons x xs => simpa using this

theorem IsComp.self_mem {g : G} {remote : List (Nat × Nat)} {c : List Nat} {q : Nat}
    (h : IsComp g remote c q) : q ∈ c := (h.mem q).2 (ReachLocal.refl q)

theorem qpuInv_step {g : G} (hwf : g.WF) {remote : List (Nat × Nat)} {k : Nat}
    {qs : List (List Nat)} (h : QpuInv g remote k qs) (hk : k < g.n) :
    QpuInv g remote (k + 1) (qpuStep g remote qs k) := by
  unfold qpuStep
  by_cases hany : qs.any (·.contains k) = true
  · rw [if_pos hany]
    refine ⟨?_, ?_, h.disj, h.incr⟩
    · intro v hv
      by_cases hvk : v = k
      · subst hvk
        simpa using hany
      · exact h.covers v (by omega)
    · intro c hc
      obtain ⟨q, hq, hcq⟩ := h.comp c hc
      exact ⟨q, by omega, hcq⟩
  · rw [if_neg hany]
    have hnot : ∀ c ∈ qs, k ∉ c := by
      intro c hc hkc
      apply hany
      simp only [List.any_eq_true, List.contains_eq_mem, decide_eq_true_eq]
      exact ⟨c, hc, hkc⟩
    obtain ⟨hnd, hhd, hmem⟩ := compLoop_spec g hwf remote k hk
    -- nothing reachable from `k` lies in an earlier list
    have hfresh : ∀ c ∈ qs, ∀ u ∈ c, ∀ v, ReachLocal g remote k v → ¬ ReachLocal g remote u v := by
      intro c hc u hu v hkv huv
      obtain ⟨q, _, hcq⟩ := h.comp c hc
      have hqu := (hcq.mem u).1 hu
      exact hnot c hc ((hcq.mem k).2 (hqu.trans (huv.trans hkv.symm)))
    have hnew : IsComp g remote (compLoop g remote (g.n + 1) [k] []) k := by
      refine ⟨hhd, hnd, hmem, ?_⟩
      intro v hv
      apply Classical.byContradiction
      intro hlt
      obtain ⟨c, hc, hvc⟩ := h.covers v (by omega)
      exact hfresh c hc v hvc v ((hmem v).1 hv) (ReachLocal.refl v)
    refine ⟨?_, ?_, ?_, ?_⟩
    · intro v hv
      by_cases hvk : v = k
      · subst hvk
        exact ⟨_, by simp, hnew.self_mem⟩
      · obtain ⟨c, hc, hvc⟩ := h.covers v (by omega)
        exact ⟨c, by simp [hc], hvc⟩
    · intro c hc
      rw [List.mem_append, List.mem_singleton] at hc
      rcases hc with hc | hc
      · obtain ⟨q, hq, hcq⟩ := h.comp c hc
        exact ⟨q, by omega, hcq⟩
      · subst hc
        exact ⟨k, by omega, hnew⟩
    · rw [List.pairwise_append]
      refine ⟨h.disj, by simp, ?_⟩
      intro c hc d hd u hu v hv
      rw [List.mem_singleton] at hd
      subst hd
      exact hfresh c hc u hu v ((hmem v).1 hv)
    · rw [List.pairwise_append]
      refine ⟨h.incr, by simp, ?_⟩
      intro c hc d hd
      rw [List.mem_singleton] at hd
      subst hd
      obtain ⟨q, hq, hcq⟩ := h.comp c hc
      rw [hcq.headD, hnew.headD]
      exact hq

theorem qpuInv_range (g : G) (hwf : g.WF) (remote : List (Nat × Nat)) :
    ∀ k, k ≤ g.n → QpuInv g remote k ((List.range k).foldl (qpuStep g remote) [])
  | 0, _ => by
    refine ⟨fun v hv => by omega, by simp, by simp, by simp⟩
  | k + 1, hk => by
    rw [List.range_succ, List.foldl_append]
    exact qpuInv_step hwf (qpuInv_range g hwf remote k (by omega)) (by omega)

/-- `get_qpu_to_qudit_map`: a partition of `[0, n)` into the `ReachLocal`-classes, ordered by
smallest member, which is the head of each member list. -/
theorem qpuToQudit_spec (g : G) (hwf : g.WF) (remote : List (Nat × Nat)) :
    let qs := g.qpuToQudit remote
    (∀ v, v < g.n → ∃ c ∈ qs, v ∈ c) ∧
    (∀ c ∈ qs, c ≠ [] ∧ c.Nodup ∧ ∀ v ∈ c, v < g.n) ∧
    (∀ c ∈ qs, ∀ u ∈ c, ∀ v, v ∈ c ↔ ReachLocal g remote u v) ∧
    (qs.Pairwise (fun c d => ∀ u ∈ c, ∀ v ∈ d, ¬ ReachLocal g remote u v)) ∧
    (qs.Pairwise (fun c d => c.headD 0 < d.headD 0)) ∧
    (∀ c ∈ qs, ∀ v ∈ c, c.headD 0 ≤ v) := by
  intro qs
  have h : QpuInv g remote g.n qs := qpuInv_range g hwf remote g.n (Nat.le_refl _)
  refine ⟨h.covers, ?_, ?_, h.disj, h.incr, ?_⟩
  · intro c hc
    obtain ⟨q, hq, hcq⟩ := h.comp c hc
    refine ⟨List.ne_nil_of_mem hcq.self_mem, hcq.nodup, ?_⟩
    intro v hv
    exact ((hcq.mem v).1 hv).lt hwf hq
  · intro c hc u hu v
    obtain ⟨q, hq, hcq⟩ := h.comp c hc
    have hqu := (hcq.mem u).1 hu
    rw [hcq.mem v]
    exact ⟨fun hqv => hqu.symm.trans hqv, fun huv => hqu.trans huv⟩
  · intro c hc v hv
    obtain ⟨q, hq, hcq⟩ := h.comp c hc
    rw [hcq.headD]
    exact hcq.min v hv

/-- consequences in the usual partition form: every qudit is in exactly one list -/
theorem qpuToQudit_unique (g : G) (hwf : g.WF) (remote : List (Nat × Nat)) (v : Nat)
    (hv : v < g.n) : ∃ c ∈ g.qpuToQudit remote, v ∈ c ∧
      ∀ i j : Nat, (g.qpuToQudit remote)[i]? = some c → v ∈ (g.qpuToQudit remote)[j]?.getD [] → i = j := by
  obtain ⟨hcov, _, hcls, hdisj, _, _⟩ := qpuToQudit_spec g hwf remote
  obtain ⟨c, hc, hvc⟩ := hcov v hv
  refine ⟨c, hc, hvc, ?_⟩
  intro i j hi hj
  cases hjd : (g.qpuToQudit remote)[j]? with
  | none => rw [hjd] at hj; simp at hj
  | some d =>
    rw [hjd] at hj
    simp only [Option.getD_some] at hj
    have hrel := List.pairwise_iff_getElem.1 hdisj
    obtain ⟨hil, hic⟩ := List.getElem?_eq_some_iff.1 hi
    obtain ⟨hjl, hjc⟩ := List.getElem?_eq_some_iff.1 hjd
    apply Classical.byContradiction
    intro hne
    rcases Nat.lt_or_gt_of_ne hne with hlt | hlt
    · exact hrel i j hil hjl hlt v (hic ▸ hvc) v (hjc ▸ hj) (ReachLocal.refl v)
    · exact hrel j i hjl hil hlt v (hjc ▸ hj) v (hic ▸ hvc) (ReachLocal.refl v)

/-! ### the defect of `get_qudit_to_qpu_map` / `get_qpu_connectivity` -/

/-- `list(dict.values())` is in insertion order: on the graph `0-2, 1-2` with remote edge `(1,2)`
the QPUs are `[[0,2],[1]]`; the code returns `[0,0,1]`, the documented map is `[0,1,0]`. -/
theorem quditToQpu_defect_witness :
    (G.mk 3 [(0,2),(1,2)]).quditToQpuImpl [(1,2)] = [0,0,1] ∧
    (G.mk 3 [(0,2),(1,2)]).quditToQpuSpec [(1,2)] = [0,1,0] := by decide

/-- … and the QPU connectivity computed from it is wrong: star with centre 3, remote `(1,3),(2,3)`:
QPUs `[[0,3],[1],[2]]`, the code gives `[[2],[2],[0,1]]`, correct is `[[1,2],[0],[0]]`. -/
theorem qpuConn_defect_witness :
    (G.mk 4 [(0,3),(1,3),(2,3)]).qpuConnImpl [(1,3),(2,3)] ≠
    (G.mk 4 [(0,3),(1,3),(2,3)]).qpuConnSpec [(1,3),(2,3)] := by decide

theorem qpuConn_defect_values :
    (G.mk 4 [(0,3),(1,3),(2,3)]).qpuToQudit [(1,3),(2,3)] = [[0,3],[1],[2]] ∧
    (G.mk 4 [(0,3),(1,3),(2,3)]).qpuConnImpl [(1,3),(2,3)] = [[2],[2],[0,1]] ∧
    (G.mk 4 [(0,3),(1,3),(2,3)]).qpuConnSpec [(1,3),(2,3)] = [[1,2],[0],[0]] := by decide

/-! ### when the code is right -/

/-- for pairwise disjoint lists, labelling block by block is labelling every listed element by
the index of the first list containing it -/
theorem blockLabels_eq_findIdx : ∀ (qs pre : List (List Nat)),
    (∀ c ∈ pre, ∀ d ∈ qs, ∀ u ∈ d, u ∉ c) →
    qs.Pairwise (fun c d => ∀ u ∈ d, u ∉ c) →
    (qs.zipIdx pre.length).flatMap (fun qi => qi.1.map (fun _ => qi.2)) =
      qs.flatten.map (fun q => (pre ++ qs).findIdx (·.contains q))
  | [], _, _, _ => by simp
  | c :: qs, pre, hpre, hpw => by
    rw [List.pairwise_cons] at hpw
    rw [List.zipIdx_cons, List.flatMap_cons, List.flatten_cons, List.map_append]
    have ih := blockLabels_eq_findIdx qs (pre ++ [c]) (by
      intro c' hc' d hd u hu
      rw [List.mem_append, List.mem_singleton] at hc'
      rcases hc' with hc' | hc'
      · exact hpre c' hc' d (by simp [hd]) u hu
      · subst hc'; exact hpw.1 d hd u hu) hpw.2
    rw [List.length_append, List.length_singleton, List.append_assoc, List.singleton_append] at ih
    rw [ih]
    congr 1
    apply List.map_congr_left
    intro u hu
    rw [List.findIdx_append]
    have h1 : pre.findIdx (·.contains u) = pre.length := by
      apply List.findIdx_eq_length_of_false
      intro c' hc'
      simpa using hpre c' hc' c (by simp) u hu
    rw [h1]
    simp [List.findIdx_cons, hu]

/-- the list the code returns is the documented map read along the concatenation of the QPUs
instead of along `0, 1, …, n-1` -/
theorem quditToQpuImpl_eq (g : G) (hwf : g.WF) (remote : List (Nat × Nat)) :
    g.quditToQpuImpl remote =
      (g.qpuToQudit remote).flatten.map (fun q => (g.qpuToQudit remote).findIdx (·.contains q)) := by
  obtain ⟨_, _, _, hdisj, _, _⟩ := qpuToQudit_spec g hwf remote
  have hpw : (g.qpuToQudit remote).Pairwise (fun c d => ∀ u ∈ d, u ∉ c) :=
    hdisj.imp (fun {c d} h u hud huc => h u huc u hud (ReachLocal.refl u))
  have := blockLabels_eq_findIdx (g.qpuToQudit remote) [] (by simp) hpw
  simpa [G.quditToQpuImpl] using this

/-- … hence when the QPUs, concatenated in the order of discovery, list the qudits in increasing order
(every QPU a contiguous block of qudits, listed increasingly) the code returns the documented map.
(Sufficient, not necessary: only the block sizes enter `quditToQpuImpl`.) -/
theorem quditToQpuImpl_eq_spec_of_contiguous (g : G) (hwf : g.WF) (remote : List (Nat × Nat))
    (hc : (g.qpuToQudit remote).flatten = List.range g.n) :
    g.quditToQpuImpl remote = g.quditToQpuSpec remote := by
  rw [quditToQpuImpl_eq g hwf remote, hc]
  rfl

/-! ### non-vacuity -/

/-- path 0-1-2-3 with the remote edge (1,2): hypotheses hold; two QPUs -/
example : (⟨4, [(0,1),(1,2),(2,3)]⟩ : G).WF ∧ 2 < (⟨4, [(0,1),(1,2),(2,3)]⟩ : G).n ∧
    compLoop ⟨4, [(0,1),(1,2),(2,3)]⟩ [(1,2)] 5 [2] [] = [2, 3] ∧
    (⟨4, [(0,1),(1,2),(2,3)]⟩ : G).qpuToQudit [(1,2)] = [[0,1],[2,3]] := by
  unfold G.WF; decide

/-- through the theorems: 3 is locally reachable from 2, 1 is not -/
example : ReachLocal ⟨4, [(0,1),(1,2),(2,3)]⟩ [(1,2)] 2 3 ∧
    ¬ ReachLocal ⟨4, [(0,1),(1,2),(2,3)]⟩ [(1,2)] 2 1 := by
  have h := (compLoop_spec ⟨4, [(0,1),(1,2),(2,3)]⟩ (by unfold G.WF; decide) [(1,2)] 2
    (by decide)).2.2
  exact ⟨(h 3).1 (by decide), fun hr => absurd ((h 1).2 hr) (by decide)⟩

/-- the contiguity hypothesis is satisfiable (and there the two maps agree) … -/
example : ((⟨4, [(0,1),(1,2),(2,3)]⟩ : G).qpuToQudit [(1,2)]).flatten = List.range 4 ∧
    (⟨4, [(0,1),(1,2),(2,3)]⟩ : G).quditToQpuImpl [(1,2)] = [0,0,1,1] := by decide

/-- … and it is not necessary: QPU `{0,1,2}` discovered as `[0,2,1]`, both maps are `[0,0,0]` -/
example : ((⟨3, [(0,2),(1,2)]⟩ : G).qpuToQudit []).flatten = [0,2,1] ∧
    (⟨3, [(0,2),(1,2)]⟩ : G).quditToQpuImpl [] = (⟨3, [(0,2),(1,2)]⟩ : G).quditToQpuSpec [] := by
  decide

/-- `remote` need not be normalised or consist of edges for the theorems; a pair that is not
normalised is simply never matched (`_remote_edges` is normalised by the constructor) -/
example : (⟨2, [(0,1)]⟩ : G).qpuToQudit [(1,0)] = [[0,1]] ∧
    (⟨2, [(0,1)]⟩ : G).qpuToQudit [(0,1)] = [[0],[1]] := by decide

/-- `n = 0`: no QPU -/
example : (⟨0, []⟩ : G).qpuToQudit [] = [] := by decide

end BqVerif.Graph
