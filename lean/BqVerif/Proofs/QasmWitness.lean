import BqVerif.Model.QasmPrint
import BqVerif.Proofs.QasmInline
/-! A decidable arithmetic (`Int`) to evaluate the model inside the kernel: used only for
the `_witness` theorems, which show that a full-strength statement fails on a concrete input. -/
namespace BqVerif.Qasm

/-- integers with truncating division; `pi = 3`; functions are the identity -/
def intArith : Arith Int where
  ofLit m e := if e ≥ 0 then (m : Int) * 10 ^ e.toNat else (m : Int) / 10 ^ (-e).toNat
  pi := 3
  zero := 0
  add := (· + ·)
  sub := (· - ·)
  mul := (· * ·)
  div := (· / ·)
  pow a b := a ^ b.toNat
  neg a := -a
  fn _ x := x
  isNeg v := decide (v < 0)
  abs v := (v.natAbs : Int)

/-- a three-row gate table for the witnesses -/
def tinyTable : List BuiltinDef :=
  [⟨"rz", 1, 1, "RZGate", 1, 1⟩, ⟨"h", 0, 1, "HGate", 0, 1⟩, ⟨"cx", 0, 2, "CNOTGate", 0, 2⟩]

def Op.meas {V : Type} : Op V → List (Nat × String × Nat)
  | .measure _ ms => ms
  | _ => []

def Op.params {V : Type} : Op V → List V
  | .prim _ _ ps => ps
  | _ => []

/-- (number of qubits, primitive gate applications) of a decoded program -/
def Decoded.summary {V : Type} (d : Decoded V) : Nat × List (String × List Nat × List V) :=
  (d.numQubits, flatList d.ops)

/-- header tokens `OPENQASM 2.0; qreg <name>[n];` -/
def qregToks (name : String) (n : Nat) : List Tok :=
  [.kw "qreg", .id name, .sym "[", .num (toString n), .sym "]", .sym ";"]
def hdrToks : List Tok := [.kw "OPENQASM", .num "2.0", .sym ";"]
def qb (name : String) (i : Nat) : List Tok := [.id name, .sym "[", .num (toString i), .sym "]"]

end BqVerif.Qasm
