/-
Error arithmetic for C01 / C03.

BQSKit measures success of a numeric pass by the Hilbert–Schmidt cost `c = 1 − |tr(T†U)|/N` and
reports closeness of unitaries by `get_distance_from`, `d = √(1 − (|tr(T†U)|/N)²)`; hence
`d = √(2c − c²)`.  A replacement accepted with `c < ε` therefore has `d ≤ √(2ε − ε²)`, and `K`
accepted replacements composed along a circuit (triangle inequality of a bi-invariant
pseudo-metric) stay within `K·√(2ε − ε²)`.
-/
import Mathlib.Analysis.Real.Sqrt
import Mathlib.Tactic.Ring
import Mathlib.Tactic.Linarith
import Mathlib.Algebra.BigOperators.Group.List.Basic

namespace BqVerif.PipelineBudget

/-- distance as a function of the cost -/
noncomputable def distOfCost (c : ℝ) : ℝ := Real.sqrt (2 * c - c ^ 2)

/-- `√(1 − (1 − c)²) = √(2c − c²)`: BQSKit's distance written in its cost. -/
theorem dist_eq_distOfCost (c : ℝ) : Real.sqrt (1 - (1 - c) ^ 2) = distOfCost c := by
  unfold distOfCost
  congr 1
  ring

theorem distOfCost_mono {c e : ℝ} (_hc : 0 ≤ c) (hce : c ≤ e) (he : e ≤ 1) :
    distOfCost c ≤ distOfCost e := by
  unfold distOfCost
  apply Real.sqrt_le_sqrt
  nlinarith [mul_nonneg (sub_nonneg.mpr hce) (by linarith : (0 : ℝ) ≤ 2 - e - c)]

theorem distOfCost_nonneg (c : ℝ) : 0 ≤ distOfCost c := Real.sqrt_nonneg _

/-- `K` accepted replacements of cost `< ε` each: the distances add up to at most
`K·√(2ε − ε²)`. -/
theorem budget (ε : ℝ) (hε : ε ≤ 1) (costs : List ℝ)
    (h : ∀ c ∈ costs, 0 ≤ c ∧ c < ε) :
    (costs.map distOfCost).sum ≤ costs.length * distOfCost ε := by
  induction costs with
  | nil => simp
  | cons c cs ih =>
    have hc := h c (List.mem_cons_self ..)
    have := distOfCost_mono hc.1 (le_of_lt hc.2) hε
    have ih' := ih (fun x hx => h x (List.mem_cons_of_mem _ hx))
    simp only [List.map_cons, List.sum_cons, List.length_cons, Nat.cast_succ]
    linarith

/-- Triangle inequality along a product, for a pseudo-metric that is invariant under left and
right multiplication (block rewrites inside a circuit): the distance between two products is at
most the sum of the distances of the factors. -/
theorem product_error {M : Type} [Monoid M] (d : M → M → ℝ)
    (d_self : ∀ x, d x x = 0)
    (tri : ∀ x y z, d x z ≤ d x y + d y z)
    (left : ∀ g x y, d (g * x) (g * y) = d x y)
    (right : ∀ g x y, d (x * g) (y * g) = d x y)
    (l : List (M × M)) :
    d (l.map Prod.fst).prod (l.map Prod.snd).prod ≤ (l.map fun p => d p.1 p.2).sum := by
  induction l with
  | nil => simp [d_self]
  | cons p ps ih =>
    simp only [List.map_cons, List.prod_cons, List.sum_cons]
    have h1 := tri (p.1 * (ps.map Prod.fst).prod) (p.2 * (ps.map Prod.fst).prod)
      (p.2 * (ps.map Prod.snd).prod)
    rw [right, left] at h1
    linarith

end BqVerif.PipelineBudget
