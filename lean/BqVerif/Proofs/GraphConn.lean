import BqVerif.Proofs.GraphBasic
/-!
`CouplingGraph.is_fully_connected` (graph.py 261-279): the frontier BFS of the model
(`bfsLoop` / `G.isFullyConnected`) decides connectivity, and the fuel `g.n + 2` is enough
(any fuel `≥ g.n + 1` gives the same answer).
-/
namespace BqVerif.Graph

/-! ### pigeonhole for duplicate-free lists of naturals below `n` -/

theorem nodup_lt_pigeon : ∀ (n : Nat) (l : List Nat), l.Nodup → (∀ x ∈ l, x < n) →
    l.length ≤ n ∧ (l.length = n → ∀ v, v < n → v ∈ l)
  | 0, l, _, hlt => by
    cases l with
    | nil => simp
    | cons a as => exact absurd (hlt a (by simp)) (by omega)
  | n + 1, l, hnd, hlt => by
    have hnd' : (l.erase n).Nodup := hnd.erase n
    have hlt' : ∀ x ∈ l.erase n, x < n := by
      intro x hx
      rw [hnd.mem_erase_iff] at hx
      have := hlt x hx.2
      omega
    have ih := nodup_lt_pigeon n (l.erase n) hnd' hlt'
    have hlen : (l.erase n).length = if n ∈ l then l.length - 1 else l.length := List.length_erase
    by_cases hn : n ∈ l
    · rw [if_pos hn] at hlen
      have hpos : 0 < l.length := List.length_pos_of_mem hn
      refine ⟨by omega, fun hl v hv => ?_⟩
      by_cases hvn : v = n
      · subst hvn; exact hn
      · have := ih.2 (by omega) v (by omega)
        rw [hnd.mem_erase_iff] at this
        exact this.2
    · rw [if_neg hn] at hlen
      refine ⟨by omega, fun hl => ?_⟩
      omega

theorem nodup_lt_length_le {n : Nat} {l : List Nat} (hnd : l.Nodup) (hlt : ∀ x ∈ l, x < n) :
    l.length ≤ n := (nodup_lt_pigeon n l hnd hlt).1

theorem nodup_lt_full {n : Nat} {l : List Nat} (hnd : l.Nodup) (hlt : ∀ x ∈ l, x < n)
    (hlen : l.length = n) : ∀ v, v < n → v ∈ l := (nodup_lt_pigeon n l hnd hlt).2 hlen

/-- a short duplicate-free list of naturals below `n` misses some `v < n`. -/
theorem nodup_lt_missing {n : Nat} {l : List Nat} (hlen : l.length < n) :
    ∃ v, v < n ∧ v ∉ l := by
  apply Classical.byContradiction
  intro hno
  have hall : ∀ v, v < n → v ∈ l := by
    intro v hv
    apply Classical.byContradiction
    intro hv'
    exact hno ⟨v, hv, hv'⟩
  -- `range n` is duplicate free and contained in `l`: erase-based counting
  have : ∀ (m : Nat) (l : List Nat), (∀ v, v < m → v ∈ l) → m ≤ l.length := by
    intro m
    induction m with
    | zero => intros; omega
    | succ m ih =>
      intro l hl
      have hm : m ∈ l := hl m (by omega)
      have h1 : (l.erase m).length = l.length - 1 := List.length_erase_of_mem hm
      have hpos : 0 < l.length := List.length_pos_of_mem hm
      have := ih (l.erase m) (by
        intro v hv
        exact (List.mem_erase_of_ne (by omega)).2 (hl v (by omega)))
      omega
  have := this n l hall
  omega

/-! ### one BFS step -/

theorem mem_expand (g : G) (frontier : List Nat) (u : Nat) :
    u ∈ expand g frontier ↔ u ∈ frontier ∨ ∃ v ∈ frontier, u ∈ g.adj v := by
  simp [expand, List.mem_flatMap]

/-- the invariant of the `while` loop -/
structure BfsInv (g : G) (frontier seen : List Nat) : Prop where
  zero : 0 ∈ seen ∨ 0 ∈ frontier
  closed : ∀ v ∈ seen, v ∉ frontier → ∀ u, g.hasEdge v u = true → u ∈ seen
  nodup : seen.Nodup
  seen_ok : ∀ v ∈ seen, v < g.n ∧ Reach g 0 v
  front_ok : ∀ v ∈ frontier, v < g.n ∧ Reach g 0 v
  short : seen.length < g.n

theorem bfsInv_init (g : G) (hn : 1 ≤ g.n) : BfsInv g [0] [] where
  zero := by simp
  closed := by simp
  nodup := by simp
  seen_ok := by simp
  front_ok := by
    intro v hv
    simp at hv
    subst hv
    exact ⟨by omega, Reach.refl 0⟩
  short := by simp; omega

/-- with an empty frontier the seen set is closed, contains 0 and is too small. -/
theorem BfsInv.not_all_reach {g : G} {seen : List Nat} (h : BfsInv g [] seen) :
    ¬ ∀ v, v < g.n → Reach g 0 v := by
  intro hall
  obtain ⟨v, hv, hvs⟩ := nodup_lt_missing h.short
  have h0 : 0 ∈ seen := by
    rcases h.zero with h0 | h0
    · exact h0
    · simp at h0
  have hcl : ∀ w, Reach g 0 w → w ∈ seen := by
    intro w hw
    induction hw with
    | refl => exact h0
    | step _ he ih => exact h.closed _ ih (by simp) _ he
  exact hvs (hcl v (hall v hv))

section step
variable {g : G} {frontier seen : List Nat}

private theorem mem_front' (v : Nat) :
    v ∈ (expand g frontier).filter (fun v => !seen.contains v) ↔
      v ∈ expand g frontier ∧ v ∉ seen := by
  simp [List.mem_filter]

theorem expand_ok (h : BfsInv g frontier seen) :
    ∀ v ∈ expand g frontier, v < g.n ∧ Reach g 0 v := by
  intro v hv
  rw [mem_expand] at hv
  rcases hv with hv | ⟨w, hw, hv⟩
  · exact h.front_ok v hv
  · rw [G.mem_adj] at hv
    exact ⟨hv.1, Reach.step (h.front_ok w hw).2 hv.2⟩

theorem seen'_nodup (h : BfsInv g frontier seen) :
    (seen ++ (expand g frontier).filter (fun v => !seen.contains v)).Nodup := by
  rw [List.nodup_append]
  refine ⟨h.nodup, List.Pairwise.filter _ (nodup_eraseDups _), ?_⟩
  intro a ha b hb hab
  rw [mem_front'] at hb
  exact hb.2 (hab ▸ ha)

theorem seen'_ok (h : BfsInv g frontier seen) :
    ∀ v ∈ seen ++ (expand g frontier).filter (fun v => !seen.contains v),
      v < g.n ∧ Reach g 0 v := by
  intro v hv
  rw [List.mem_append, mem_front'] at hv
  rcases hv with hv | hv
  · exact h.seen_ok v hv
  · exact expand_ok h v hv.1

theorem bfsInv_step (hwf : g.WF) (h : BfsInv g frontier seen)
    (hshort : (seen ++ (expand g frontier).filter (fun v => !seen.contains v)).length < g.n) :
    BfsInv g ((expand g frontier).filter (fun v => !seen.contains v))
      (seen ++ (expand g frontier).filter (fun v => !seen.contains v)) where
  zero := by
    left
    rw [List.mem_append, mem_front']
    rcases h.zero with h0 | h0
    · exact Or.inl h0
    · by_cases hs : 0 ∈ seen
      · exact Or.inl hs
      · exact Or.inr ⟨(mem_expand g frontier 0).2 (Or.inl h0), hs⟩
  closed := by
    intro v hv hvf u hu
    have hvs : v ∈ seen := by
      rw [List.mem_append] at hv
      rcases hv with hv | hv
      · exact hv
      · exact absurd hv hvf
    rw [List.mem_append, mem_front']
    by_cases hvfr : v ∈ frontier
    · by_cases hus : u ∈ seen
      · exact Or.inl hus
      · refine Or.inr ⟨?_, hus⟩
        rw [mem_expand]
        exact Or.inr ⟨v, hvfr, (G.mem_adj_wf g hwf v u).2 hu⟩
    · exact Or.inl (h.closed v hvs hvfr u hu)
  nodup := seen'_nodup h
  seen_ok := seen'_ok h
  front_ok := by
    intro v hv
    rw [mem_front'] at hv
    exact expand_ok h v hv.1
  short := hshort

end step

/-! ### the loop -/

theorem bfsLoop_succ (g : G) (fuel : Nat) (frontier seen : List Nat) :
    bfsLoop g (fuel + 1) frontier seen =
      if frontier.isEmpty then false else
      if (seen ++ (expand g frontier).filter (fun v => !seen.contains v)).length == g.n then true
      else bfsLoop g fuel ((expand g frontier).filter (fun v => !seen.contains v))
        (seen ++ (expand g frontier).filter (fun v => !seen.contains v)) := rfl

/-- generalised correctness of the loop: under the invariant and with enough fuel the loop
answers whether every vertex is reachable from 0. -/
theorem bfsLoop_correct (g : G) (hwf : g.WF) :
    ∀ (fuel : Nat) (frontier seen : List Nat), BfsInv g frontier seen → 1 ≤ fuel →
      (frontier ≠ [] → g.n - seen.length + 1 ≤ fuel) →
      (bfsLoop g fuel frontier seen = true ↔ ∀ v, v < g.n → Reach g 0 v)
  | 0, _, _, _, h1, _ => by omega
  | fuel + 1, frontier, seen, h, _, hfuel => by
    rw [bfsLoop_succ]
    cases hfr : frontier with
    | nil =>
      subst hfr
      simp only [List.isEmpty_nil, if_true]
      exact ⟨fun hf => by simp at hf, fun hall => absurd hall h.not_all_reach⟩
    | cons a as =>
      rw [← hfr]
      have hne : frontier ≠ [] := by rw [hfr]; simp
      have hie : frontier.isEmpty = false := by rw [hfr]; rfl
      rw [hie]
      simp only [Bool.false_eq_true, if_false]
      have hnd := seen'_nodup h
      have hok := seen'_ok h
      have hle := nodup_lt_length_le hnd (fun x hx => (hok x hx).1)
      by_cases hlen : (seen ++ (expand g frontier).filter (fun v => !seen.contains v)).length = g.n
      · have hb : ((seen ++ (expand g frontier).filter
            (fun v => !seen.contains v)).length == g.n) = true := beq_iff_eq.2 hlen
        rw [hb]
        simp only [if_true, true_iff]
        intro v hv
        exact (hok v (nodup_lt_full hnd (fun x hx => (hok x hx).1) hlen v hv)).2
      · have hb : ((seen ++ (expand g frontier).filter
            (fun v => !seen.contains v)).length == g.n) = false := beq_eq_false_iff_ne.2 hlen
        rw [hb]
        simp only [Bool.false_eq_true, if_false]
        have hshort : (seen ++ (expand g frontier).filter
            (fun v => !seen.contains v)).length < g.n := by omega
        have hinv := bfsInv_step hwf h hshort
        have hf := hfuel hne
        have hs := h.short
        refine bfsLoop_correct g hwf fuel _ _ hinv (by omega) ?_
        intro hne'
        have hpos : 0 < ((expand g frontier).filter (fun v => !seen.contains v)).length :=
          List.length_pos_iff.2 hne'
        rw [List.length_append]
        omega

/-! ### final theorems -/

/-- any fuel `≥ n + 1` decides reachability of every vertex from 0 -/
theorem bfsLoop_init_iff (g : G) (hwf : g.WF) (hn : 1 ≤ g.n) (fuel : Nat) (hf : g.n + 1 ≤ fuel) :
    bfsLoop g fuel [0] [] = true ↔ ∀ v, v < g.n → Reach g 0 v :=
  bfsLoop_correct g hwf fuel [0] [] (bfsInv_init g hn) (by omega)
    (fun _ => by simp only [List.length_nil]; omega)

/-- main: BFS answer ⇔ every vertex reachable from 0 -/
theorem isFullyConnected_iff (g : G) (hwf : g.WF) (hn : 1 ≤ g.n) :
    g.isFullyConnected = true ↔ ∀ v, v < g.n → Reach g 0 v :=
  bfsLoop_init_iff g hwf hn (g.n + 2) (by omega)

/-- the fuel is irrelevant from n+1 on -/
theorem bfsLoop_fuel_irrelevant (g : G) (hwf : g.WF) (hn : 1 ≤ g.n) (fuel : Nat)
    (hf : g.n + 1 ≤ fuel) :
    bfsLoop g fuel [0] [] = g.isFullyConnected := by
  have h1 := bfsLoop_init_iff g hwf hn fuel hf
  have h2 := isFullyConnected_iff g hwf hn
  have h3 : bfsLoop g fuel [0] [] = true ↔ g.isFullyConnected = true := h1.trans h2.symm
  cases ha : bfsLoop g fuel [0] [] <;> cases hb : g.isFullyConnected <;> simp_all

/-- corollary in the all-pairs form -/
theorem isFullyConnected_iff_all_pairs (g : G) (hwf : g.WF) (hn : 1 ≤ g.n) :
    g.isFullyConnected = true ↔ ∀ u v, u < g.n → v < g.n → Reach g u v := by
  rw [isFullyConnected_iff g hwf hn]
  constructor
  · intro h u v hu hv
    exact (h u hu).symm.trans (h v hv)
  · intro h v hv
    exact h 0 v (by omega) hv

/-! ### non-vacuity -/

/-- the path 0 - 1 - 2 : hypotheses hold, the answer is `true` -/
example : (⟨3, [(0, 1), (1, 2)]⟩ : G).WF ∧ 1 ≤ (⟨3, [(0, 1), (1, 2)]⟩ : G).n ∧
    (⟨3, [(0, 1), (1, 2)]⟩ : G).isFullyConnected = true := by
  unfold G.WF; decide

/-- vertex 2 isolated: hypotheses hold, the answer is `false` -/
example : (⟨3, [(0, 1)]⟩ : G).WF ∧ 1 ≤ (⟨3, [(0, 1)]⟩ : G).n ∧
    (⟨3, [(0, 1)]⟩ : G).isFullyConnected = false := by
  unfold G.WF; decide

/-- consequently (through the theorem) 2 is reachable from 0 in the path … -/
example : Reach ⟨3, [(0, 1), (1, 2)]⟩ 0 2 :=
  (isFullyConnected_iff ⟨3, [(0, 1), (1, 2)]⟩ (by unfold G.WF; decide) (by decide)).1
    (by decide) 2 (by decide)

/-- … and some vertex is unreachable from 0 when 2 is isolated. -/
example : ¬ ∀ v, v < 3 → Reach ⟨3, [(0, 1)]⟩ 0 v := fun h =>
  absurd ((isFullyConnected_iff ⟨3, [(0, 1)]⟩ (by unfold G.WF; decide) (by decide)).2 h)
    (by decide)

/-- fuel irrelevance instance: fuel `n + 1 = 4` and fuel `100` agree with the model's `n + 2`. -/
example : bfsLoop ⟨3, [(0, 1), (1, 2)]⟩ 4 [0] [] = true ∧
    bfsLoop ⟨3, [(0, 1), (1, 2)]⟩ 100 [0] [] = true := by decide

/-- some lower bound on the fuel is needed: with fuel `1` the connected path on 3 vertices is
answered `false` (the loop needs 2 rounds there).  `n + 1` is not claimed to be optimal. -/
example : bfsLoop ⟨3, [(0, 1), (1, 2)]⟩ 1 [0] [] = false := by decide

/-- Remark (n = 0).  Python: `frontier = {0}`, then `self._adj[0]` raises `IndexError` on the
empty adjacency list.  The model is total: `adj 0 = []`, the first round sees `{0}`, length
`1 ≠ 0`, the second round has an empty new frontier and the loop answers `false`, although
"every vertex `< 0` is reachable" holds vacuously.  Hence the guard `1 ≤ g.n`. -/
example : (⟨0, []⟩ : G).WF ∧ (⟨0, []⟩ : G).isFullyConnected = false ∧
    (∀ v, v < (⟨0, []⟩ : G).n → Reach ⟨0, []⟩ 0 v) := by
  refine ⟨by unfold G.WF; decide, by decide, ?_⟩
  intro v hv
  exact absurd hv (Nat.not_lt_zero v)

end BqVerif.Graph
