import BqVerif.Model.QasmNames
namespace BqVerif.QasmNames

theorem resolve_mem {β κ : Type} [DecidableEq κ] (key : β → κ) (defs : List β) (name : κ) (d : β)
    (h : resolve key defs name = some d) : d ∈ defs ∧ key d = name := by
  unfold resolve at h
  have h1 := List.mem_of_find?_eq_some h
  have h2 := List.find?_some h
  exact ⟨List.mem_reverse.1 h1, by simpa using h2⟩

theorem resolve_isSome {β κ : Type} [DecidableEq κ] (key : β → κ) (defs : List β) (b : β)
    (hb : b ∈ defs) : ∃ d, resolve key defs (key b) = some d := by
  unfold resolve
  cases h : defs.reverse.find? (fun d => key d == key b) with
  | some d => exact ⟨d, rfl⟩
  | none =>
    have := List.find?_eq_none.1 h b (List.mem_reverse.2 hb)
    simp at this

/-- the calls of all blocks read back as their blocks iff the naming key separates the blocks -/
theorem roundTrips_iff {β κ : Type} [DecidableEq β] [DecidableEq κ] (key : β → κ) (defs : List β) :
    roundTrips key defs = true ↔ ∀ b ∈ defs, ∀ b' ∈ defs, key b = key b' → b = b' := by
  simp only [roundTrips, List.all_eq_true, beq_iff_eq]
  constructor
  · intro h b hb b' hb' hk
    have h1 := h b hb
    have h2 := h b' hb'
    rw [hk] at h1
    rw [h1] at h2
    exact Option.some.inj h2
  · intro h b hb
    obtain ⟨d, hd⟩ := resolve_isSome key defs b hb
    obtain ⟨hm, hk⟩ := resolve_mem key defs (key b) d hd
    rw [hd, h d hm b hb hk]

end BqVerif.QasmNames
