import BqVerif.Model.QasmExpr
/-! # What the reader's Python text is

`stripG ts` = the token string `ts` without its *grouping* parentheses (those of a function
call stay).  Whenever Lark accepts a token string, the text `eval_exp_recurse` builds from the
tree is exactly `stripG` of it — whatever shape the LALR tree has.  Hence the value the reader
computes depends only on `stripG ts`, read by Python's grammar. -/
namespace BqVerif.Qasm

variable {V : Type}

/-- remove grouping parentheses; the stack remembers whether an open `(` belongs to a call -/
def stripAux : List Bool → List (ETok V) → List (ETok V)
  | _, [] => []
  | st, .fn g :: .lp :: ts => .fn g :: .lp :: stripAux (true :: st) ts
  | st, .lp :: ts => stripAux (false :: st) ts
  | true :: st, .rp :: ts => .rp :: stripAux st ts
  | false :: st, .rp :: ts => stripAux st ts
  | [], .rp :: ts => .rp :: stripAux [] ts
  | st, t :: ts => t :: stripAux st ts

def stripG (ts : List (ETok V)) : List (ETok V) := stripAux [] ts

@[simp] theorem strip_fn_lp (st : List Bool) (g : Fn) (ts : List (ETok V)) :
    stripAux st (.fn g :: .lp :: ts) = .fn g :: .lp :: stripAux (true :: st) ts := by
  simp [stripAux]
@[simp] theorem strip_lp (st : List Bool) (ts : List (ETok V)) :
    stripAux st (.lp :: ts) = stripAux (false :: st) ts := by
  simp [stripAux]
@[simp] theorem strip_rp_true (st : List Bool) (ts : List (ETok V)) :
    stripAux (true :: st) (.rp :: ts) = .rp :: stripAux st ts := by
  simp [stripAux]
@[simp] theorem strip_rp_false (st : List Bool) (ts : List (ETok V)) :
    stripAux (false :: st) (.rp :: ts) = stripAux st ts := by
  simp [stripAux]
@[simp] theorem strip_lit (st : List Bool) (s : String) (ts : List (ETok V)) :
    stripAux st (.lit s :: ts) = .lit s :: stripAux st ts := by
  simp [stripAux]
@[simp] theorem strip_name (st : List Bool) (s : String) (ts : List (ETok V)) :
    stripAux st (.name s :: ts) = .name s :: stripAux st ts := by
  simp [stripAux]
@[simp] theorem strip_plus (st : List Bool) (ts : List (ETok V)) :
    stripAux st (.plus :: ts) = .plus :: stripAux st ts := by
  simp [stripAux]
@[simp] theorem strip_minus (st : List Bool) (ts : List (ETok V)) :
    stripAux st (.minus :: ts) = .minus :: stripAux st ts := by
  simp [stripAux]
@[simp] theorem strip_star (st : List Bool) (ts : List (ETok V)) :
    stripAux st (.star :: ts) = .star :: stripAux st ts := by
  simp [stripAux]
@[simp] theorem strip_slash (st : List Bool) (ts : List (ETok V)) :
    stripAux st (.slash :: ts) = .slash :: stripAux st ts := by
  simp [stripAux]
@[simp] theorem strip_pow (st : List Bool) (ts : List (ETok V)) :
    stripAux st (.pow :: ts) = .pow :: stripAux st ts := by
  simp [stripAux]

/-- `ts = pre ++ rest`, and stripping `pre` (in any context) appends to `pfx` what flattening
`q` gives -/
def Consumes (A : Arith V) (ts rest : List (ETok V)) (pfx : List (ETok V)) (q : QE V) : Prop :=
  ∃ pre, ts = pre ++ rest ∧
    ∀ st tl, pfx ++ stripAux st (pre ++ tl) = flatten A q ++ stripAux st tl

theorem q_consumes (A : Arith V) : ∀ f,
    (∀ ts q rest, qExp f ts = some (q, rest) → Consumes A ts rest [] q) ∧
    (∀ acc ts q rest, qExpLoop f acc ts = some (q, rest) →
      Consumes A ts rest (flatten A acc) q) ∧
    (∀ ts q rest, qMul f ts = some (q, rest) → Consumes A ts rest [] q) ∧
    (∀ acc ts q rest, qMulLoop f acc ts = some (q, rest) →
      Consumes A ts rest (flatten A acc) q) ∧
    (∀ ts q rest, qPrim f ts = some (q, rest) → Consumes A ts rest [] q) ∧
    (∀ ts q rest, qAtom f ts = some (q, rest) → Consumes A ts rest [] q) := by
  intro f
  induction f with
  | zero =>
    refine ⟨?_, ?_, ?_, ?_, ?_, ?_⟩ <;> intros <;> simp_all [qExp, qExpLoop, qMul, qMulLoop, qPrim, qAtom]
  | succ f ih =>
    obtain ⟨ihE, ihEL, ihM, ihML, ihP, ihA⟩ := ih
    refine ⟨?_, ?_, ?_, ?_, ?_, ?_⟩
    · -- qExp
      intro ts q rest h
      simp only [qExp, Option.bind_eq_some_iff] at h
      obtain ⟨p, hp, hl⟩ := h
      obtain ⟨pre1, rfl, h1⟩ := ihM ts p.1 p.2 (by simpa using hp)
      obtain ⟨pre2, h2e, h2⟩ := ihEL p.1 p.2 q rest hl
      refine ⟨pre1 ++ pre2, by rw [h2e]; simp, ?_⟩
      intro st tl
      have := h1 st (pre2 ++ tl)
      simp only [List.nil_append, List.append_assoc] at this ⊢
      rw [this]
      exact h2 st tl
    · -- qExpLoop
      intro acc ts q rest h
      unfold qExpLoop at h
      split at h
      · rename_i ts'
        simp only [Option.bind_eq_some_iff] at h
        obtain ⟨p, hp, hl⟩ := h
        obtain ⟨pre1, rfl, h1⟩ := ihM ts' p.1 p.2 (by simpa using hp)
        obtain ⟨pre2, h2e, h2⟩ := ihEL _ p.2 q rest hl
        refine ⟨.plus :: pre1 ++ pre2, by rw [h2e]; simp, ?_⟩
        intro st tl
        have h1' := h1 st (pre2 ++ tl)
        have h2' := h2 st tl
        simp only [List.nil_append, List.append_assoc, List.cons_append, strip_plus,
          flatten, BOp.tok] at h1' h2' ⊢
        rw [h1']
        simpa using h2'
      · rename_i ts'
        simp only [Option.bind_eq_some_iff] at h
        obtain ⟨p, hp, hl⟩ := h
        obtain ⟨pre1, rfl, h1⟩ := ihM ts' p.1 p.2 (by simpa using hp)
        obtain ⟨pre2, h2e, h2⟩ := ihEL _ p.2 q rest hl
        refine ⟨.minus :: pre1 ++ pre2, by rw [h2e]; simp, ?_⟩
        intro st tl
        have h1' := h1 st (pre2 ++ tl)
        have h2' := h2 st tl
        simp only [List.nil_append, List.append_assoc, List.cons_append, strip_minus,
          flatten, BOp.tok] at h1' h2' ⊢
        rw [h1']
        simpa using h2'
      · simp only [Option.some.injEq, Prod.mk.injEq] at h
        obtain ⟨rfl, rfl⟩ := h
        exact ⟨[], by simp, by intro st tl; simp⟩
    · -- qMul
      intro ts q rest h
      simp only [qMul, Option.bind_eq_some_iff] at h
      obtain ⟨p, hp, hl⟩ := h
      obtain ⟨pre1, rfl, h1⟩ := ihP ts p.1 p.2 (by simpa using hp)
      obtain ⟨pre2, h2e, h2⟩ := ihML p.1 p.2 q rest hl
      refine ⟨pre1 ++ pre2, by rw [h2e]; simp, ?_⟩
      intro st tl
      have := h1 st (pre2 ++ tl)
      simp only [List.nil_append, List.append_assoc] at this ⊢
      rw [this]
      exact h2 st tl
    · -- qMulLoop
      intro acc ts q rest h
      unfold qMulLoop at h
      split at h
      · rename_i ts'
        simp only [Option.bind_eq_some_iff] at h
        obtain ⟨p, hp, hl⟩ := h
        obtain ⟨pre1, rfl, h1⟩ := ihP ts' p.1 p.2 (by simpa using hp)
        obtain ⟨pre2, h2e, h2⟩ := ihML _ p.2 q rest hl
        refine ⟨.star :: pre1 ++ pre2, by rw [h2e]; simp, ?_⟩
        intro st tl
        have h1' := h1 st (pre2 ++ tl)
        have h2' := h2 st tl
        simp only [List.nil_append, List.append_assoc, List.cons_append, strip_star,
          flatten, BOp.tok] at h1' h2' ⊢
        rw [h1']
        simpa using h2'
      · rename_i ts'
        simp only [Option.bind_eq_some_iff] at h
        obtain ⟨p, hp, hl⟩ := h
        obtain ⟨pre1, rfl, h1⟩ := ihP ts' p.1 p.2 (by simpa using hp)
        obtain ⟨pre2, h2e, h2⟩ := ihML _ p.2 q rest hl
        refine ⟨.slash :: pre1 ++ pre2, by rw [h2e]; simp, ?_⟩
        intro st tl
        have h1' := h1 st (pre2 ++ tl)
        have h2' := h2 st tl
        simp only [List.nil_append, List.append_assoc, List.cons_append, strip_slash,
          flatten, BOp.tok] at h1' h2' ⊢
        rw [h1']
        simpa using h2'
      · simp only [Option.some.injEq, Prod.mk.injEq] at h
        obtain ⟨rfl, rfl⟩ := h
        exact ⟨[], by simp, by intro st tl; simp⟩
    · -- qPrim
      intro ts q rest h
      simp only [qPrim, Option.bind_eq_some_iff] at h
      obtain ⟨p, hp, hm⟩ := h
      obtain ⟨pre1, rfl, h1⟩ := ihA ts p.1 p.2 (by simpa using hp)
      split at hm
      · rename_i r hr
        simp only [Option.bind_eq_some_iff, Option.some.injEq, Prod.mk.injEq] at hm
        obtain ⟨p2, hp2, rfl, rfl⟩ := hm
        obtain ⟨pre2, rfl, h2⟩ := ihP r p2.1 p2.2 (by simpa using hp2)
        refine ⟨pre1 ++ .pow :: pre2, by rw [hr]; simp, ?_⟩
        intro st tl
        have h1' := h1 st (.pow :: pre2 ++ tl)
        have h2' := h2 st tl
        simp only [List.nil_append, List.append_assoc, List.cons_append, strip_pow,
          flatten] at h1' h2' ⊢
        rw [h1', h2']
      · simp only [Option.some.injEq] at hm
        subst hm
        exact ⟨pre1, rfl, h1⟩
    · -- qAtom
      intro ts q rest h
      unfold qAtom at h
      split at h
      · -- ( exp )
        rename_i ts'
        simp only [Option.bind_eq_some_iff] at h
        obtain ⟨p, hp, hm⟩ := h
        obtain ⟨pre1, rfl, h1⟩ := ihE ts' p.1 p.2 (by simpa using hp)
        split at hm
        · rename_i r hr
          simp only [Option.some.injEq, Prod.mk.injEq] at hm
          obtain ⟨rfl, rfl⟩ := hm
          refine ⟨.lp :: pre1 ++ [.rp], by rw [hr]; simp, ?_⟩
          intro st tl
          have h1' := h1 (false :: st) (.rp :: tl)
          simp only [List.nil_append, List.append_assoc, List.cons_append, strip_lp,
            strip_rp_false, flatten] at h1' ⊢
          exact h1'
        · simp at hm
      · -- - exp
        rename_i ts'
        simp only [Option.bind_eq_some_iff, Option.some.injEq, Prod.mk.injEq] at h
        obtain ⟨p, hp, rfl, rfl⟩ := h
        obtain ⟨pre1, rfl, h1⟩ := ihE ts' p.1 p.2 (by simpa using hp)
        refine ⟨.minus :: pre1, by simp, ?_⟩
        intro st tl
        have h1' := h1 st tl
        simp only [List.nil_append, List.cons_append, strip_minus, flatten] at h1' ⊢
        rw [h1']
      · -- f ( exp )
        rename_i g ts'
        simp only [Option.bind_eq_some_iff] at h
        obtain ⟨p, hp, hm⟩ := h
        obtain ⟨pre1, rfl, h1⟩ := ihE ts' p.1 p.2 (by simpa using hp)
        split at hm
        · rename_i r hr
          simp only [Option.some.injEq, Prod.mk.injEq] at hm
          obtain ⟨rfl, rfl⟩ := hm
          refine ⟨.fn g :: .lp :: pre1 ++ [.rp], by rw [hr]; simp, ?_⟩
          intro st tl
          have h1' := h1 (true :: st) (.rp :: tl)
          simp only [List.nil_append, List.append_assoc, List.cons_append, strip_fn_lp,
            strip_rp_true, flatten] at h1' ⊢
          rw [h1']
        · simp at hm
      · rename_i s ts'
        simp only [Option.some.injEq, Prod.mk.injEq] at h
        obtain ⟨rfl, rfl⟩ := h
        exact ⟨[.lit s], by simp, by intro st tl; simp [flatten]⟩
      · rename_i s ts'
        simp only [Option.some.injEq, Prod.mk.injEq] at h
        obtain ⟨rfl, rfl⟩ := h
        exact ⟨[.name s], by simp, by intro st tl; simp [flatten]⟩
      · simp at h

/-- **the Python text the reader evaluates is the token string without its grouping
parentheses** — for every token string Lark accepts, whatever tree it builds -/
theorem flatten_larkParse (A : Arith V) (ts : List (ETok V)) (q : QE V)
    (h : larkParse ts = some q) : flatten A q = stripG ts := by
  unfold larkParse at h
  split at h
  · rename_i e hq
    simp only [Option.some.injEq] at h
    subst h
    obtain ⟨pre, hpre, hs⟩ := (q_consumes A (exprFuel ts)).1 ts e [] hq
    have := hs [] []
    simp only [List.nil_append, List.append_nil, stripAux] at this hpre
    rw [hpre]
    exact this.symm
  · simp at h

end BqVerif.Qasm
