/-
Algebra behind `Circuit.get_unitary_and_grad` (C06), over an arbitrary
non-commutative semiring.

BQSKit computes the gradient of `U = E_n ⋯ E_2 E_1` (`E_1` applied first) with two
running partial products:

```
left = 1 ; right = E_n ⋯ E_1
for j = 1..n:            # op j: matrix E_j, "inverse" F_j (dagger), derivatives dE_{j,·}
    right = right * F_j
    for dE in dE_j:  emit  right * (dE * left)
    left = E_j * left
return left, emitted
```

* `prodRev`, `prodRev_eq_reverse_prod`, `prodRev_append`, `prodRev_take_drop`:
  the reversed product `E_n ⋯ E_1`;
* `gradLoopAbs` is the loop, `gradSpec` / `gradLoopAbs_spec` say what it emits:
  for derivative `de` of op `j` the entry `R_j * (de * L_j)` with
  `R_j = r0 * E_n ⋯ E_{j+1}` and `L_j = E_{j-1} ⋯ E_1 * left0`, in op order then
  derivative order, and the returned `left` is the full product (`C06_grad_loop`);
* `deriv_prodRev`, `deriv_prodRev_single`: the Leibniz rule for `prodRev`, and for a
  derivation vanishing on all factors but the `j`-th the derivative of the product
  is exactly the emitted entry (`C06_grad_is_derivation`).
-/
import Mathlib.Algebra.Ring.Defs
import Mathlib.Algebra.BigOperators.Group.List.Basic
import Mathlib.Tactic.Abel
import Mathlib.Data.Matrix.Mul
import Mathlib.LinearAlgebra.Matrix.Notation

namespace BqVerif.C06Alg

variable {R : Type*}

section Semiring
variable [Semiring R]

/-! ### `prodRev` -/

/-- `U_n ⋯ U_1` for the list `[U_1, …, U_n]`. -/
def prodRev (l : List R) : R := l.foldl (fun acc u => u * acc) 1

theorem foldl_mul_eq_prodRev_mul (l : List R) (a : R) :
    l.foldl (fun acc u => u * acc) a = prodRev l * a := by
  unfold prodRev
  induction l generalizing a with
  | nil => simp
  | cons x xs ih =>
    simp only [List.foldl_cons]
    rw [ih (x * a), ih (x * 1), mul_one, mul_assoc]

@[simp] theorem prodRev_nil : prodRev ([] : List R) = 1 := rfl

theorem prodRev_cons (x : R) (l : List R) : prodRev (x :: l) = prodRev l * x := by
  have h : prodRev (x :: l) = prodRev l * (x * 1) := foldl_mul_eq_prodRev_mul l (x * 1)
  rwa [mul_one] at h

@[simp] theorem prodRev_singleton (x : R) : prodRev [x] = x := by
  rw [prodRev_cons, prodRev_nil, one_mul]

theorem prodRev_append (a b : List R) : prodRev (a ++ b) = prodRev b * prodRev a := by
  induction a with
  | nil => simp
  | cons x xs ih => rw [List.cons_append, prodRev_cons, ih, prodRev_cons, mul_assoc]

theorem prodRev_eq_reverse_prod (l : List R) : prodRev l = l.reverse.prod := by
  induction l with
  | nil => simp
  | cons x xs ih =>
    rw [prodRev_cons, ih, List.reverse_cons, List.prod_append, List.prod_singleton]

theorem prodRev_take_drop (l : List R) (j : Nat) :
    prodRev l = prodRev (l.drop j) * prodRev (l.take j) := by
  conv_lhs => rw [← List.take_append_drop j l]
  exact prodRev_append _ _

/-- Splitting the product around the `j`-th factor. -/
theorem prodRev_split (l : List R) (j : Nat) (hj : j < l.length) :
    prodRev l = prodRev (l.drop (j + 1)) * l[j] * prodRev (l.take j) := by
  rw [prodRev_take_drop l j, ← List.cons_getElem_drop_succ (h := hj), prodRev_cons]

/-! ### The loop -/

/-- The main loop of `get_unitary_and_grad`: entries are `(E, F, dEs)`. -/
def gradLoopAbs : List (R × R × List R) → R → R → R × List R
  | [], left, _ => (left, [])
  | (e, f, des) :: rest, left, right =>
    let right' := right * f
    let gs := des.map (fun de => right' * (de * left))
    let r := gradLoopAbs rest (e * left) right'
    (r.1, gs ++ r.2)

/-- Recursive specification of the emitted list: with `left` the product of the
operations already consumed (times `left0`) and `r0` a fixed left factor, the entry for
derivative `de` of the head operation is `r0 * (product of the remaining ops) * (de * left)`. -/
def gradSpec : List (R × R × List R) → R → R → List R
  | [], _, _ => []
  | (e, _, des) :: rest, left, r0 =>
    des.map (fun de => r0 * prodRev (rest.map (·.1)) * (de * left))
      ++ gradSpec rest (e * left) r0

@[simp] theorem gradSpec_nil (left r0 : R) : gradSpec [] left r0 = [] := rfl

theorem gradSpec_cons (e f : R) (des : List R) (rest : List (R × R × List R)) (left r0 : R) :
    gradSpec ((e, f, des) :: rest) left r0 =
      des.map (fun de => r0 * prodRev (rest.map (·.1)) * (de * left))
        ++ gradSpec rest (e * left) r0 := rfl

/-- `C06_grad_loop`, recursive form: if every `F_j` is a right inverse of `E_j` and the loop is
started with `right = r0 * (E_n ⋯ E_1)`, it returns `(E_n ⋯ E_1 * left0, gradSpec …)`. -/
theorem gradLoopAbs_eq_gradSpec (l : List (R × R × List R))
    (hinv : ∀ x ∈ l, x.1 * x.2.1 = 1) (left0 r0 : R) :
    gradLoopAbs l left0 (r0 * prodRev (l.map (·.1))) =
      (prodRev (l.map (·.1)) * left0, gradSpec l left0 r0) := by
  induction l generalizing left0 with
  | nil => simp [gradLoopAbs]
  | cons x rest ih =>
    obtain ⟨e, f, des⟩ := x
    have hef : e * f = 1 := hinv (e, f, des) (List.mem_cons_self ..)
    have hrest : ∀ x ∈ rest, x.1 * x.2.1 = 1 := fun x hx => hinv x (List.mem_cons_of_mem _ hx)
    have hright : r0 * prodRev (((e, f, des) :: rest).map (·.1)) * f
        = r0 * prodRev (rest.map (·.1)) := by
      rw [List.map_cons, prodRev_cons, mul_assoc r0, mul_assoc (prodRev _), hef, mul_one]
    rw [gradLoopAbs]
    simp only [hright, ih hrest (e * left0), gradSpec_cons]
    rw [List.map_cons, prodRev_cons, mul_assoc]

/-- Closed (indexed) form of `gradSpec`: op order, then derivative order; the entry for
derivative `de` of the op at (0-based) index `j` is `R_j * (de * L_j)` where `R_j` is `r0` times
the reversed product of the ops at indices `> j` and `L_j` is the reversed product of the ops
at indices `< j` times `left0`. -/
theorem gradSpec_eq_flatMap (l : List (R × R × List R)) (left0 r0 : R) :
    gradSpec l left0 r0 =
      (List.range l.length).flatMap (fun j =>
        ((l.getD j (1, 1, [])).2.2).map (fun de =>
          r0 * prodRev ((l.map (·.1)).drop (j + 1))
            * (de * (prodRev ((l.map (·.1)).take j) * left0)))) := by
  induction l generalizing left0 with
  | nil => simp
  | cons x rest ih =>
    obtain ⟨e, f, des⟩ := x
    rw [gradSpec_cons, ih (e * left0), List.length_cons, List.range_succ_eq_map,
      List.flatMap_cons, List.flatMap_map]
    congr 1
    · simp
    · apply List.flatMap_congr
      intro j _
      simp [prodRev_cons, mul_assoc]

/-- `C06_grad_loop`, indexed form. -/
theorem gradLoopAbs_spec (l : List (R × R × List R))
    (hinv : ∀ x ∈ l, x.1 * x.2.1 = 1) (left0 r0 : R) :
    gradLoopAbs l left0 (r0 * prodRev (l.map (·.1))) =
      (prodRev (l.map (·.1)) * left0,
        (List.range l.length).flatMap (fun j =>
          ((l.getD j (1, 1, [])).2.2).map (fun de =>
            r0 * prodRev ((l.map (·.1)).drop (j + 1))
              * (de * (prodRev ((l.map (·.1)).take j) * left0))))) := by
  rw [gradLoopAbs_eq_gradSpec l hinv, gradSpec_eq_flatMap]

/-- `C06_grad_loop` as the code runs it: `left = 1`, `right = E_n ⋯ E_1`. -/
theorem gradLoopAbs_spec_one (l : List (R × R × List R))
    (hinv : ∀ x ∈ l, x.1 * x.2.1 = 1) :
    gradLoopAbs l 1 (prodRev (l.map (·.1))) =
      (prodRev (l.map (·.1)),
        (List.range l.length).flatMap (fun j =>
          ((l.getD j (1, 1, [])).2.2).map (fun de =>
            prodRev ((l.map (·.1)).drop (j + 1))
              * (de * prodRev ((l.map (·.1)).take j))))) := by
  have h := gradLoopAbs_spec l hinv 1 1
  simpa only [one_mul, mul_one] using h

/-- Recursive form with `left = 1`, `right = E_n ⋯ E_1`. -/
theorem gradLoopAbs_eq_gradSpec_one (l : List (R × R × List R))
    (hinv : ∀ x ∈ l, x.1 * x.2.1 = 1) :
    gradLoopAbs l 1 (prodRev (l.map (·.1))) = (prodRev (l.map (·.1)), gradSpec l 1 1) := by
  have h := gradLoopAbs_eq_gradSpec l hinv 1 1
  simpa only [one_mul, mul_one] using h

/-- The loop emits one entry per derivative matrix. -/
theorem length_gradSpec (l : List (R × R × List R)) (left0 r0 : R) :
    (gradSpec l left0 r0).length = ((l.map (·.2.2.length)).sum) := by
  induction l generalizing left0 with
  | nil => simp
  | cons x rest ih =>
    obtain ⟨e, f, des⟩ := x
    simp [gradSpec_cons, ih]

/-! ### Derivations of a product -/

section Deriv
variable (D : R → R)

/-- A derivation kills a product of factors it kills. -/
theorem deriv_prodRev_eq_zero (hmul : ∀ a b, D (a * b) = D a * b + a * D b) (hone : D 1 = 0)
    (l : List R) (hz : ∀ x ∈ l, D x = 0) : D (prodRev l) = 0 := by
  induction l with
  | nil => simpa using hone
  | cons x xs ih =>
    rw [prodRev_cons, hmul, ih (fun y hy => hz y (List.mem_cons_of_mem _ hy)),
      hz x (List.mem_cons_self ..), zero_mul, mul_zero, add_zero]

/-- Leibniz rule for `E_n ⋯ E_1` (`C06_grad_is_derivation`): the derivative is the sum over
the factors `j` of `(E_n ⋯ E_{j+1}) * D E_j * (E_{j-1} ⋯ E_1)`.
(Additivity of `D` is not needed.) -/
theorem deriv_prodRev (hmul : ∀ a b, D (a * b) = D a * b + a * D b) (hone : D 1 = 0)
    (l : List R) :
    D (prodRev l) =
      ((List.range l.length).map (fun j =>
        prodRev (l.drop (j + 1)) * D (l.getD j 0) * prodRev (l.take j))).sum := by
  induction l with
  | nil => simpa using hone
  | cons x xs ih =>
    have hsum : ∀ (t : List R), (t.map (fun b => b * x)).sum = t.sum * x := by
      intro t
      induction t with
      | nil => simp
      | cons b t iht => simp [iht, add_mul]
    rw [prodRev_cons, hmul, ih, List.length_cons, List.range_succ_eq_map, List.map_cons,
      List.sum_cons, List.map_map, add_comm, ← hsum, List.map_map]
    congr 1
    · simp
    · congr 1
      apply List.map_congr_left
      intro j _
      simp [prodRev_cons, mul_assoc]

/-- For a derivation vanishing on all factors but the `j`-th (e.g. `∂/∂θ_k` where `θ_k` only
occurs in operation `j`), the derivative of the circuit product is exactly the entry the
loop emits for that operation. -/
theorem deriv_prodRev_single (hmul : ∀ a b, D (a * b) = D a * b + a * D b) (hone : D 1 = 0)
    (l : List R) (j : Nat) (hj : j < l.length)
    (hz : ∀ i, i < l.length → i ≠ j → D (l.getD i 0) = 0) :
    D (prodRev l) = prodRev (l.drop (j + 1)) * D (l.getD j 0) * prodRev (l.take j) := by
  have hget : ∀ i (h : i < l.length), l.getD i 0 = l[i] := by
    intro i h
    simp [List.getD_eq_getElem?_getD, h]
  have hdrop : D (prodRev (l.drop (j + 1))) = 0 := by
    apply deriv_prodRev_eq_zero D hmul hone
    intro x hx
    obtain ⟨i, hi, rfl⟩ := List.mem_drop_iff_getElem.1 hx
    have := hz (j + 1 + i) (by omega) (by omega)
    rwa [hget _ (by omega)] at this
  have htake : D (prodRev (l.take j)) = 0 := by
    apply deriv_prodRev_eq_zero D hmul hone
    intro x hx
    obtain ⟨i, hi, rfl⟩ := List.mem_take_iff_getElem.1 hx
    have := hz i (by omega) (by omega)
    rwa [hget _ (by omega)] at this
  rw [hget j hj]
  conv_lhs => rw [prodRev_split l j hj]
  rw [hmul, hmul, hdrop, htake, zero_mul, zero_add, mul_zero, add_zero]

/-- `deriv_prodRev_single` in the shape emitted by `gradLoopAbs` (see
`gradLoopAbs_spec_one`): `R_j * (dE * L_j)`. -/
theorem deriv_prodRev_single' (hmul : ∀ a b, D (a * b) = D a * b + a * D b) (hone : D 1 = 0)
    (l : List R) (j : Nat) (hj : j < l.length)
    (hz : ∀ i, i < l.length → i ≠ j → D (l.getD i 0) = 0) :
    D (prodRev l) = prodRev (l.drop (j + 1)) * (D (l.getD j 0) * prodRev (l.take j)) := by
  rw [deriv_prodRev_single D hmul hone l j hj hz, mul_assoc]

end Deriv

end Semiring

/-! ### Non-vacuity -/

section Examples

/-- Inner derivations `a ↦ a * x - x * a` of a ring satisfy the hypotheses of
`deriv_prodRev` (so they are not vacuous in the non-commutative case). -/
theorem commutator_isDerivation [Ring R] (x : R) :
    (∀ a b : R, (a + b) * x - x * (a + b) = (a * x - x * a) + (b * x - x * b)) ∧
    (∀ a b : R, (a * b) * x - x * (a * b) = (a * x - x * a) * b + a * (b * x - x * b)) ∧
    ((1 : R) * x - x * 1 = 0) := by
  refine ⟨?_, ?_, ?_⟩
  · intro a b
    rw [add_mul, mul_add]; abel
  · intro a b
    simp only [sub_mul, mul_sub, mul_assoc]; abel
  · simp

/-- Leibniz rule for the commutator with `x`, as an instance of `deriv_prodRev`. -/
example [Ring R] (x : R) (l : List R) :
    prodRev l * x - x * prodRev l =
      ((List.range l.length).map (fun j =>
        prodRev (l.drop (j + 1)) * (l.getD j 0 * x - x * l.getD j 0) * prodRev (l.take j))).sum :=
  deriv_prodRev (fun a => a * x - x * a) (commutator_isDerivation x).2.1
    (commutator_isDerivation x).2.2 l

/-- Over `ℤ` (units `±1`): ops `(1, 1, [2, 3])`, `(-1, -1, [5])`, `(-1, -1, [])`, `(1, 1, [7])`. -/
example :
    gradLoopAbs [((1 : Int), (1 : Int), [2, 3]), (-1, -1, [5]), (-1, -1, []), (1, 1, [7])] 1
        (prodRev [1, -1, -1, 1]) = (1, [2, 3, -5, 7]) := by
  decide

example :
    gradSpec [((1 : Int), (1 : Int), [2, 3]), (-1, -1, [5]), (-1, -1, []), (1, 1, [7])] 1 1
      = [2, 3, -5, 7] := by
  decide

/-! A genuinely non-commutative instance: `2 × 2` integer matrices (shears). -/

/-- `2 × 2` integer matrices. -/
abbrev M2 := Matrix (Fin 2) (Fin 2) ℤ

/-- Upper shear, its inverse, lower shear, its inverse, and two "derivative" matrices. -/
def exE1 : M2 := !![1, 1; 0, 1]
@[inherit_doc exE1] def exF1 : M2 := !![1, -1; 0, 1]
@[inherit_doc exE1] def exE2 : M2 := !![1, 0; 1, 1]
@[inherit_doc exE1] def exF2 : M2 := !![1, 0; -1, 1]
@[inherit_doc exE1] def exDA : M2 := !![0, 1; 0, 0]
@[inherit_doc exE1] def exDB : M2 := !![0, 0; 1, 0]

example : exE1 * exE2 ≠ exE2 * exE1 := by decide

/-- The hypothesis `hinv` of `gradLoopAbs_spec` is satisfiable. -/
example : ∀ x ∈ [(exE1, exF1, [exDA]), (exE2, exF2, [exDB, exDA])], x.1 * x.2.1 = 1 := by
  decide

/-- The loop run on `[E1, E2]`: returns `E2 * E1` and `[E2 * dA, dB * E1, dA * E1]`. -/
example :
    gradLoopAbs [(exE1, exF1, [exDA]), (exE2, exF2, [exDB, exDA])] 1 (prodRev [exE1, exE2])
      = (!![1, 1; 1, 2], [!![0, 1; 0, 1], !![0, 0; 1, 1], !![0, 1; 0, 0]]) := by
  decide

/-- `deriv_prodRev_single` for the commutator with `E1` on `E1 * E2 * E1`: only the middle
factor contributes. -/
example :
    (fun a : M2 => a * exE1 - exE1 * a) (prodRev [exE1, exE2, exE1])
      = prodRev [exE1] * (exE2 * exE1 - exE1 * exE2) * prodRev [exE1] :=
  deriv_prodRev_single (fun a : M2 => a * exE1 - exE1 * a)
    (commutator_isDerivation exE1).2.1 (commutator_isDerivation exE1).2.2
    [exE1, exE2, exE1] 1 (by decide) (by decide)

end Examples

end BqVerif.C06Alg
