import BqVerif.Proofs.GatesEmbed
/-! Mixed-radix index arithmetic of `EmbeddedGate._map_matrix`: for level maps that are
one-to-one into the target radixes, `embTarget` is one-to-one from `[0, ∏ gate radixes)`
into `[0, ∏ target radixes)`. -/
namespace BqVerif.Gates
set_option linter.unusedVariables false

theorem foldl_mul_acc (l : List Nat) (a : Nat) : l.foldl (· * ·) a = a * l.foldl (· * ·) 1 := by
  induction l generalizing a with
  | nil => simp
  | cons r l ih => simp only [List.foldl_cons]; rw [ih (a * r), ih (1 * r)]; ring

theorem prodL_cons (r : Nat) (l : List Nat) : prodL (r :: l) = r * prodL l := by
  simp only [prodL, List.foldl_cons]; rw [foldl_mul_acc]; ring

theorem prodL_pos (l : List Nat) (h : ∀ r ∈ l, 0 < r) : 0 < prodL l := by
  induction l with
  | nil => simp [prodL]
  | cons r l ih =>
    rw [prodL_cons]
    exact Nat.mul_pos (h r (by simp)) (ih fun x hx => h x (by simp [hx]))

/-- `ravel` with a start value -/
theorem ravel_acc (rs ds : List Nat) (a : Nat) (hl : ds.length = rs.length) :
    (rs.zip ds).foldl (fun acc p => acc * p.1 + p.2) a = a * prodL rs + ravel rs ds := by
  induction rs generalizing ds a with
  | nil => simp [ravel, prodL]
  | cons r rs ih =>
    cases ds with
    | nil => simp at hl
    | cons d ds =>
      have hl' : ds.length = rs.length := by simpa using hl
      simp only [List.zip_cons_cons, List.foldl_cons, ravel]
      rw [ih ds (a * r + d) hl', ih ds (0 * r + d) hl', prodL_cons]
      simp only [ravel]; ring

theorem ravel_cons (r d : Nat) (rs ds : List Nat) (hl : ds.length = rs.length) :
    ravel (r :: rs) (d :: ds) = d * prodL rs + ravel rs ds := by
  simp only [ravel, List.zip_cons_cons, List.foldl_cons]
  rw [ravel_acc rs ds (0 * r + d) hl]; simp [ravel]

/-- digit lists in range -/
def InRange : List Nat → List Nat → Prop
  | [], [] => True
  | r :: rs, d :: ds => d < r ∧ InRange rs ds
  | _, _ => False

theorem InRange.length : ∀ {rs ds : List Nat}, InRange rs ds → ds.length = rs.length
  | [], [], _ => rfl
  | r :: rs, d :: ds, h => by simp [InRange.length h.2]
  | [], _ :: _, h => h.elim
  | _ :: _, [], h => h.elim

theorem ravel_lt : ∀ (rs ds : List Nat), InRange rs ds → ravel rs ds < prodL rs
  | [], [], _ => by simp [ravel, prodL]
  | r :: rs, d :: ds, h => by
    rw [ravel_cons r d rs ds h.2.length, prodL_cons]
    have := ravel_lt rs ds h.2
    have hd := h.1
    calc d * prodL rs + ravel rs ds < d * prodL rs + prodL rs := by omega
      _ = (d + 1) * prodL rs := by ring
      _ ≤ r * prodL rs := Nat.mul_le_mul_right _ hd
  | [], _ :: _, h => h.elim
  | _ :: _, [], h => h.elim

theorem ravel_inj : ∀ (rs ds es : List Nat), InRange rs ds → InRange rs es →
    ravel rs ds = ravel rs es → ds = es
  | [], [], [], _, _, _ => rfl
  | r :: rs, d :: ds, e :: es, hd, he, h => by
    rw [ravel_cons r d rs ds hd.2.length, ravel_cons r e rs es he.2.length] at h
    have h1 := ravel_lt rs ds hd.2
    have h2 := ravel_lt rs es he.2
    have hde : d = e := by
      have hp : 0 < prodL rs := by omega
      have e1 : (d * prodL rs + ravel rs ds) / prodL rs = d := by
        rw [Nat.add_comm, Nat.add_mul_div_right _ _ hp, Nat.div_eq_of_lt h1]; simp
      have e2 : (e * prodL rs + ravel rs es) / prodL rs = e := by
        rw [Nat.add_comm, Nat.add_mul_div_right _ _ hp, Nat.div_eq_of_lt h2]; simp
      rw [← e1, ← e2, h]
    subst hde
    have : ravel rs ds = ravel rs es := by omega
    rw [ravel_inj rs ds es hd.2 he.2 this]
  | [], [], _ :: _, _, h, _ => h.elim
  | [], _ :: _, _, h, _, _ => h.elim
  | _ :: _, [], _, h, _, _ => h.elim
  | _ :: _, _ :: _, [], _, h, _ => h.elim

/-- the loop of `unravel`: digits of the processed suffix and the remaining quotient -/
def unravelAux (rs : List Nat) (i : Nat) : List Nat × Nat :=
  rs.foldr (fun r (acc : List Nat × Nat) => ((acc.2 % r) :: acc.1, acc.2 / r)) ([], i)

theorem unravel_eq (rs : List Nat) (i : Nat) : unravel rs i = (unravelAux rs i).1 := rfl

theorem unravelAux_cons (r : Nat) (rs : List Nat) (i : Nat) :
    unravelAux (r :: rs) i =
      (((unravelAux rs i).2 % r) :: (unravelAux rs i).1, (unravelAux rs i).2 / r) := rfl

theorem unravelAux_spec : ∀ (rs : List Nat) (i : Nat), (∀ r ∈ rs, 0 < r) →
    InRange rs (unravelAux rs i).1 ∧
    (unravelAux rs i).2 * prodL rs + ravel rs (unravelAux rs i).1 = i
  | [], i, _ => by simp [unravelAux, InRange, prodL, ravel]
  | r :: rs, i, h => by
    have hr : 0 < r := h r (by simp)
    obtain ⟨ih1, ih2⟩ := unravelAux_spec rs i (fun x hx => h x (by simp [hx]))
    rw [unravelAux_cons]
    refine ⟨⟨Nat.mod_lt _ hr, ih1⟩, ?_⟩
    simp only
    rw [ravel_cons _ _ _ _ ih1.length, prodL_cons]
    have := Nat.div_add_mod (unravelAux rs i).2 r
    calc (unravelAux rs i).2 / r * (r * prodL rs) +
          ((unravelAux rs i).2 % r * prodL rs + ravel rs (unravelAux rs i).1)
        = (r * ((unravelAux rs i).2 / r) + (unravelAux rs i).2 % r) * prodL rs +
            ravel rs (unravelAux rs i).1 := by ring
      _ = i := by rw [this, ih2]

/-- `ravel ∘ unravel = id` on the index range -/
theorem ravel_unravel (rs : List Nat) (h : ∀ r ∈ rs, 0 < r) (i : Nat) (hi : i < prodL rs) :
    InRange rs (unravel rs i) ∧ ravel rs (unravel rs i) = i := by
  obtain ⟨h1, h2⟩ := unravelAux_spec rs i h
  refine ⟨h1, ?_⟩
  rw [unravel_eq]
  have hq : (unravelAux rs i).2 = 0 := by
    by_contra hne
    have hpos : 1 ≤ (unravelAux rs i).2 := Nat.one_le_iff_ne_zero.mpr hne
    have : prodL rs ≤ (unravelAux rs i).2 * prodL rs := Nat.le_mul_of_pos_left _ hpos
    omega
  rw [hq] at h2; simpa using h2

/-- one level map per qudit: gate radix, target radix, map -/
def MapsOK : List Nat → List Nat → List (List Nat) → Prop
  | [], [], [] => True
  | g :: gr, r :: rs, m :: maps =>
    m.length = g ∧ m.Nodup ∧ (∀ l ∈ m, l < r) ∧ MapsOK gr rs maps
  | _, _, _ => False

def mapDigits (maps : List (List Nat)) (ds : List Nat) : List Nat :=
  (maps.zip ds).map fun p => p.1.getD p.2 0

theorem getD_lt (l : List Nat) (d : Nat) (h : d < l.length) : l.getD d 0 = l[d] := by
  simp [List.getD, List.getElem?_eq_getElem h]

theorem mapDigits_range : ∀ (gr rs : List Nat) (maps : List (List Nat)) (ds : List Nat),
    MapsOK gr rs maps → InRange gr ds → InRange rs (mapDigits maps ds)
  | [], [], [], [], _, _ => by simp [mapDigits, InRange]
  | g :: gr, r :: rs, m :: maps, d :: ds, hm, hd => by
    obtain ⟨hl, _, hlt, hrest⟩ := hm
    simp only [mapDigits, List.zip_cons_cons, List.map_cons]
    refine ⟨?_, mapDigits_range gr rs maps ds hrest hd.2⟩
    have hdl : d < m.length := by rw [hl]; exact hd.1
    rw [getD_lt _ _ hdl]
    exact hlt _ (List.getElem_mem hdl)
  | [], [], [], _ :: _, _, h => h.elim
  | _ :: _, _ :: _, _ :: _, [], _, h => h.elim
  | [], [], _ :: _, _, h, _ => h.elim
  | [], _ :: _, _, _, h, _ => h.elim
  | _ :: _, [], _, _, h, _ => h.elim
  | _ :: _, _ :: _, [], _, h, _ => h.elim

theorem mapDigits_inj : ∀ (gr rs : List Nat) (maps : List (List Nat)) (ds es : List Nat),
    MapsOK gr rs maps → InRange gr ds → InRange gr es →
    mapDigits maps ds = mapDigits maps es → ds = es
  | [], [], [], [], [], _, _, _, _ => rfl
  | g :: gr, r :: rs, m :: maps, d :: ds, e :: es, hm, hd, he, h => by
    obtain ⟨hl, hnd, _, hrest⟩ := hm
    simp only [mapDigits, List.zip_cons_cons, List.map_cons, List.cons.injEq] at h
    have hdl : d < m.length := by rw [hl]; exact hd.1
    have hel : e < m.length := by rw [hl]; exact he.1
    rw [getD_lt _ _ hdl, getD_lt _ _ hel] at h
    have hde : d = e := (List.Nodup.getElem_inj_iff hnd).mp h.1
    rw [hde, mapDigits_inj gr rs maps ds es hrest hd.2 he.2 h.2]
  | [], [], [], [], _ :: _, _, _, h, _ => h.elim
  | [], [], [], _ :: _, _, _, h, _, _ => h.elim
  | _ :: _, _ :: _, _ :: _, [], _, _, h, _, _ => h.elim
  | _ :: _, _ :: _, _ :: _, _ :: _, [], _, _, h, _ => h.elim
  | [], [], _ :: _, _, _, h, _, _, _ => h.elim
  | [], _ :: _, _, _, _, h, _, _, _ => h.elim
  | _ :: _, [], _, _, _, h, _, _, _ => h.elim
  | _ :: _, _ :: _, [], _, _, h, _, _, _ => h.elim

theorem embTarget_eq (gr rs : List Nat) (maps : List (List Nat)) (i : Nat) :
    embTarget gr rs maps i = ravel rs (mapDigits maps (unravel gr i)) := rfl

/-- level maps that are one-to-one into the target radixes make `embTarget` one-to-one from
`[0, ∏ gate radixes)` into `[0, ∏ target radixes)` -/
theorem embTarget_ok (gr rs : List Nat) (maps : List (List Nat)) (hm : MapsOK gr rs maps)
    (hpos : ∀ r ∈ gr, 0 < r) :
    (∀ i, i < prodL gr → embTarget gr rs maps i < prodL rs) ∧
    (∀ i, i < prodL gr → ∀ j, j < prodL gr →
      embTarget gr rs maps i = embTarget gr rs maps j → i = j) := by
  constructor
  · intro i hi
    rw [embTarget_eq]
    exact ravel_lt _ _ (mapDigits_range gr rs maps _ hm (ravel_unravel gr hpos i hi).1)
  · intro i hi j hj h
    rw [embTarget_eq, embTarget_eq] at h
    obtain ⟨ri, ei⟩ := ravel_unravel gr hpos i hi
    obtain ⟨rj, ej⟩ := ravel_unravel gr hpos j hj
    have h1 := ravel_inj rs _ _ (mapDigits_range gr rs maps _ hm ri)
      (mapDigits_range gr rs maps _ hm rj) h
    have h2 := mapDigits_inj gr rs maps _ _ hm ri rj h1
    rw [← ei, ← ej, h2]

end BqVerif.Gates
