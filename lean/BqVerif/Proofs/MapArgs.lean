import BqVerif.Proofs.Mailbox
import BqVerif.Model.MapArgs
/-! `Worker.map` over several argument sequences: the number of tasks created is the minimum of
    the lengths, and a mailbox with that many slots is ready exactly when all of them returned. -/
namespace BqVerif.Runtime

theorem foldl_min_le (ls : List Nat) (l : Nat) :
    ls.foldl min l ≤ l ∧ ∀ x ∈ ls, ls.foldl min l ≤ x := by
  induction ls generalizing l with
  | nil => simp
  | cons y ys ih =>
    simp only [List.foldl_cons, List.mem_cons]
    have h := ih (min l y)
    refine ⟨by have := h.1; omega, ?_⟩
    rintro x (rfl | hx)
    · have := h.1; omega
    · exact h.2 x hx

theorem foldl_min_mem (ls : List Nat) (l : Nat) : ls.foldl min l = l ∨ ls.foldl min l ∈ ls := by
  induction ls generalizing l with
  | nil => simp
  | cons y ys ih =>
    simp only [List.foldl_cons, List.mem_cons]
    rcases ih (min l y) with h | h
    · rw [h]
      rcases Nat.le_total l y with hly | hly
      · left; omega
      · right; left; omega
    · right; right; exact h

/-- `mapCount` is the minimum of the lengths -/
theorem mapCount_spec (l : Nat) (ls : List Nat) :
    (∀ x ∈ l :: ls, mapCount (l :: ls) ≤ x) ∧ mapCount (l :: ls) ∈ l :: ls := by
  simp only [mapCount, List.mem_cons]
  refine ⟨?_, ?_⟩
  · rintro x (rfl | hx)
    · exact (foldl_min_le ls x).1
    · exact (foldl_min_le ls l).2 x hx
  · rcases foldl_min_mem ls l with h | h
    · left; exact h
    · right; exact h

def depositAll (b : Box) (ds : List (Nat × Val)) : Box := ds.foldl (fun b d => b.deposit d.1 d.2) b

/-- deposits into pairwise distinct, still empty slots: the refinement is kept and every deposit
    fills one more slot -/
theorem deposits_refines (ds : List (Nat × Val)) : ∀ (f : Fut) (b : Box), Refines b f →
    (∀ d ∈ ds, d.1 < f.length) → (ds.map (·.1)).Nodup → (∀ d ∈ ds, f[d.1]? = some none) →
    ∃ f', Refines (depositAll b ds) f' ∧ f'.length = f.length
      ∧ Fut.filled f' = Fut.filled f + ds.length := by
  induction ds with
  | nil => intro f b h _ _ _; exact ⟨f, h, rfl, by simp⟩
  | cons d ds ih =>
    intro f b h hlt hnd hem
    have hd := hlt d (by simp)
    have he := hem d (by simp)
    have h1 := h.deposit d.1 d.2 hd he
    simp only [List.map_cons, List.nodup_cons] at hnd
    have hlen : (Fut.deposit f d.1 d.2).length = f.length := by simp [Fut.deposit]
    obtain ⟨f', hr, hl, hf⟩ := ih (Fut.deposit f d.1 d.2) (b.deposit d.1 d.2) h1
      (fun x hx => by rw [hlen]; exact hlt x (by simp [hx]))
      hnd.2
      (fun x hx => by
        have hne : d.1 ≠ x.1 := by
          intro heq
          exact hnd.1 (by rw [heq]; exact List.mem_map_of_mem hx)
        simp only [Fut.deposit]
        rw [List.getElem?_set_ne hne]
        exact hem x (by simp [hx]))
    refine ⟨f', hr, by rw [hl, hlen], ?_⟩
    rw [hf]
    simp only [Fut.deposit, List.length_cons]
    rw [filled_set_none f d.1 d.2 hd he]
    omega

/-- a `map` mailbox with `n` slots that received the results `ds` of pairwise distinct created
    tasks (slots `< n`) is ready exactly when ALL `n` created tasks returned -/
theorem map_ready_iff (n : Nat) (ds : List (Nat × Val)) (hlt : ∀ d ∈ ds, d.1 < n)
    (hnd : (ds.map (·.1)).Nodup) :
    (depositAll (Box.new (some n)) ds).ready = true ↔ (ds.length = n ∧ 0 < n) := by
  have hc := Refines.create n
  have hlen : (Fut.create n).length = n := by simp [Fut.create]
  have h0 : Fut.filled (Fut.create n) = 0 := by
    have := hc.num
    simpa [Box.new] using this.symm
  obtain ⟨f', hr, hl, hf⟩ := deposits_refines ds (Fut.create n) _ hc
    (fun d hd => by rw [hlen]; exact hlt d hd) hnd
    (fun d hd => by
      have := hlt d hd
      simp [Fut.create, List.getElem?_replicate, this])
  rw [hr.ready_iff]
  simp only [Fut.complete, Bool.and_eq_true, Bool.not_eq_true', List.isEmpty_eq_false_iff]
  rw [← filled_eq_length_iff, hf, h0, hl, hlen]
  constructor
  · rintro ⟨h1, h2⟩
    refine ⟨by omega, ?_⟩
    rcases Nat.eq_zero_or_pos n with hz | hp
    · exfalso; apply h2; apply List.length_eq_zero_iff.mp; rw [hl, hlen, hz]
    · exact hp
  · rintro ⟨h1, h2⟩
    refine ⟨by omega, ?_⟩
    intro he
    rw [he] at hl
    simp at hl
    omega

end BqVerif.Runtime
