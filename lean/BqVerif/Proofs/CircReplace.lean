import BqVerif.Proofs.CircTimeline2
/-! The general (pop-then-insert) branch of `Circ.replace`: its effect on every timeline (C04). -/
namespace BqVerif.Circ

theorem normIdx_nat (n k : Nat) : normIdx n (k : Int) = k := by
  unfold normIdx; simp

theorem take_eraseIdx_self {α : Type} (l : List α) (k : Nat) : (l.eraseIdx k).take k = l.take k := by
  induction l generalizing k with
  | nil => simp
  | cons a t ih => cases k with
    | zero => simp
    | succ k => simp [ih]

theorem drop_eraseIdx_self {α : Type} (l : List α) (k : Nat) :
    (l.eraseIdx k).drop k = l.drop (k + 1) := by
  induction l generalizing k with
  | nil => simp
  | cons a t ih => cases k with
    | zero => simp
    | succ k => simp [ih]

theorem take_set_self {α : Type} (l : List α) (k : Nat) (x : α) : (l.set k x).take k = l.take k := by
  induction l generalizing k with
  | nil => simp
  | cons a t ih => cases k with
    | zero => simp
    | succ k => simp [ih]

theorem drop_set_self {α : Type} (l : List α) (k : Nat) (x : α) (h : k < l.length) :
    (l.set k x).drop k = x :: l.drop (k + 1) := by
  induction l generalizing k with
  | nil => simp at h
  | cons a t ih => cases k with
    | zero => simp
    | succ k => simpa using ih k (by simpa using h)

/-- **insert at a non-negative index `k ≤ numCycles`** (including the two fall-backs to append):
the operation comes after everything in cycles `< k` and before everything in cycles `≥ k`. -/
theorem insert_nat_timeline (c : Circ) (k : Nat) (o : Op) (hv : c.checkValid o = .ok ())
    (hk : k ≤ c.numCycles) (q : Nat) :
    (c.insert (k : Int) o).2 = .ok () ∧
    (c.insert (k : Int) o).1.timeline q =
      proj q (c.cycles.take k).flatten ++ (if o.on q then [o] else []) ++
        proj q (c.cycles.drop k).flatten := by
  unfold Circ.insert
  rw [hv]; dsimp only
  split
  · rename_i h0
    have h0' : c.cycles = [] := by
      have : c.cycles.length = 0 := by simpa [Circ.numCycles] using h0
      exact List.eq_nil_of_length_eq_zero this
    refine ⟨rfl, ?_⟩
    rw [appendCore_timeline]; simp [Circ.timeline, Circ.ops, h0', proj]
  · split
    · rename_i hr
      have hr' : ¬ ((k : Int) < (c.numCycles : Int) ∧ (k : Int) ≥ -(c.numCycles : Int)) := by
        rw [← cycleInRange_iff]; simpa using hr
      have hkn : k = c.cycles.length := by
        simp only [Circ.numCycles] at hr' hk; omega
      split
      · rename_i hneg; exfalso; omega
      · refine ⟨rfl, ?_⟩
        rw [appendCore_timeline, hkn]
        simp [Circ.timeline, Circ.ops, proj]
    · rename_i hr
      have hr' : (k : Int) < (c.numCycles : Int) ∧ (k : Int) ≥ -(c.numCycles : Int) := by
        rw [← cycleInRange_iff]; simpa using hr
      refine ⟨rfl, ?_⟩
      rw [normIdx_nat]
      exact insertAt_timeline c k o q (by omega)

theorem removeAt_take (c : Circ) (k q0 : Nat) :
    (c.removeAt k q0).cycles.take k = c.cycles.take k := by
  unfold Circ.removeAt; dsimp only
  split
  · exact take_eraseIdx_self _ _
  · exact take_set_self _ _ _

theorem removeAt_drop_flatten (c : Circ) (k q0 : Nat) (hlt : k < c.cycles.length) :
    ((c.removeAt k q0).cycles.drop k).flatten =
      c.cycles[k].filter (fun o => !o.on q0) ++ (c.cycles.drop (k + 1)).flatten := by
  unfold Circ.removeAt; dsimp only
  rw [getD_of_lt _ _ hlt]
  split
  · rename_i he
    have : c.cycles[k].filter (fun o => !o.on q0) = [] := by simpa using he
    rw [this, drop_eraseIdx_self]; rfl
  · rw [drop_set_self _ _ _ hlt]; rfl

theorem removeAt_numCycles_ge (c : Circ) (k q0 : Nat) (hlt : k < c.cycles.length) :
    k ≤ (c.removeAt k q0).numCycles := by
  unfold Circ.removeAt Circ.numCycles; dsimp only
  split
  · rw [List.length_eraseIdx_of_lt hlt]; omega
  · simp; omega

theorem removeAt_checkValid (c : Circ) (k q0 : Nat) (o : Op) :
    (c.removeAt k q0).checkValid o = c.checkValid o := by
  unfold Circ.checkValid Circ.numQudits
  rw [removeAt_radixes]

/-- the shape of cycle `k` around the replaced operation -/
theorem proj_cycle_old (cy : Cycle) (q0 q : Nat) (old : Op) (hp : cy.Pairwise Indep)
    (hne : ∀ x ∈ cy, x.loc ≠ []) (hf : cy.find? (·.on q0) = some old) :
    proj q cy = (if old.on q then [old] else []) ++ proj q (cy.filter (fun x => !x.on q0)) ∧
      (old.on q = true → proj q (cy.filter (fun x => !x.on q0)) = []) := by
  obtain ⟨A, B, h1, h2⟩ := cycle_split cy q0 old hp hne hf
  rw [h2]
  have hind : old.on q = true → proj q (A ++ B) = [] := by
    intro hq
    have hq' : q ∈ old.loc := by simpa [Op.on] using hq
    simp only [proj, List.filter_eq_nil_iff]
    intro x hx
    rw [h1] at hp
    have hpa := List.pairwise_append.mp hp
    have hpc := List.pairwise_cons.mp hpa.2.1
    rcases List.mem_append.mp hx with hx | hx
    · have := hpa.2.2 x hx old (by simp) q
      simp only [Op.on, List.contains_eq_mem, decide_eq_true_eq]
      intro hqx; exact this hqx hq'
    · have := hpc.1 x hx q hq'
      simpa [Op.on] using this
  refine ⟨?_, hind⟩
  rw [h1]
  by_cases hq : old.on q = true
  · have := hind hq
    rw [proj_append] at this
    have hA : proj q A = [] := (List.append_eq_nil_iff.mp this).1
    have hB : proj q B = [] := (List.append_eq_nil_iff.mp this).2
    have e : proj q (old :: B) = old :: proj q B := by simp [proj, List.filter_cons, hq]
    rw [proj_append, proj_append, e, hA, hB]; simp [hq]
  · have e : proj q (old :: B) = proj q B := by simp [proj, List.filter_cons, hq]
    rw [proj_append, proj_append, e]; simp [hq]

/-- **replace, general branch** (location set changes; pop then insert at the NORMALISED cycle
index).  With `pre`/`post` the qudit's operations in the cycles before/after `k` and `mid` those
of cycle `k` other than the replaced one:
`before = pre ++ [old if on q] ++ mid ++ post`, `after = pre ++ [new if on q] ++ mid ++ post`,
and `mid` is empty when `old` is on `q`. -/
theorem replace_general_timeline (c : Circ) (hinv : c.Inv) (p : Int × Int) (o : Op)
    (k q0 : Nat) (old : Op) (hg : c.getOp p = .ok (k, q0, old))
    (hd : disjointL old.loc o.loc = false) (hs : sameSet old.loc o.loc = false)
    (hv : c.checkValid o = .ok ()) (q : Nat) :
    ∃ hlt : k < c.cycles.length,
    (c.replace p o).2 = .ok () ∧
    c.timeline q = proj q (c.cycles.take k).flatten ++ (if old.on q then [old] else []) ++
      proj q (c.cycles[k].filter (fun x => !x.on q0)) ++ proj q (c.cycles.drop (k + 1)).flatten ∧
    (c.replace p o).1.timeline q =
      proj q (c.cycles.take k).flatten ++ (if o.on q then [o] else []) ++
      proj q (c.cycles[k].filter (fun x => !x.on q0)) ++ proj q (c.cycles.drop (k + 1)).flatten ∧
    (old.on q = true → proj q (c.cycles[k].filter (fun x => !x.on q0)) = []) := by
  obtain ⟨hlt, hmem, hq0, hk⟩ := getOp_ok c p k q0 old hg
  refine ⟨hlt, ?_⟩
  have hcell : c.cycles[k].find? (·.on q0) = some old := by
    unfold Circ.getOp at hg
    split at hg
    · simp at hg
    · dsimp only at hg
      split at hg
      · simp at hg
      · rename_i o' hc
        simp only [Except.ok.injEq, Prod.mk.injEq] at hg
        obtain ⟨h1, h2, h3⟩ := hg
        subst h1 h2 h3
        unfold Circ.cell at hc
        rwa [getD_of_lt _ _ hlt] at hc
  have hcyk := List.getElem_mem hlt
  obtain ⟨hsplit, hmid⟩ := proj_cycle_old c.cycles[k] q0 q old (hinv.2.1 _ hcyk)
    (fun x hx => (hinv.2.2 _ hcyk x hx).1) hcell
  have hpop : c.pop (some p) = (c.removeAt k q0, .ok old) := by
    unfold Circ.pop; simp [hg]
  have hins := insert_nat_timeline (c.removeAt k q0) k o
    (by rw [removeAt_checkValid]; exact hv) (removeAt_numCycles_ge c k q0 hlt) q
  have hrep : c.replace p o = (c.removeAt k q0).insert (k : Int) o := by
    unfold Circ.replace
    simp [hg, hd, hs, hpop]
  rw [hrep]
  refine ⟨hins.1, ?_, ?_, hmid⟩
  · unfold Circ.timeline Circ.ops
    rw [flatten_split c.cycles k hlt]
    simp only [proj_append, hsplit, List.append_assoc]
  · rw [hins.2, removeAt_take, removeAt_drop_flatten c k q0 hlt]
    simp only [proj_append, List.append_assoc]

end BqVerif.Circ
