import Mathlib.LinearAlgebra.Matrix.Trace
import Mathlib.LinearAlgebra.Matrix.ConjTranspose
import Mathlib.Tactic.Ring
import Mathlib.Tactic.LinearCombination
/-!
Algebra behind C19, over an arbitrary commutative *-ring `R` (no order, no square roots):

* `frob_eq_iff`  — the equality case of Cauchy–Schwarz for the Frobenius (Hilbert–Schmidt) inner
  product, for two matrices of equal squared norm `c`: `t·t̄ = c²  ↔  B = λ·A` with `λ·λ̄ = 1`,
  where `t = tr(A†B)`.  The only non-algebraic input is definiteness `tr(D†D) = 0 → D = 0`, taken as
  a hypothesis (`Definite`) and discharged for ℂ (Mathlib) and for the model's Gaussian rationals.
* `resid_sumsq`  — `tr((U·T† − 1)†(U·T† − 1)) = tr(T U†U T†) − t − t̄ + N`.
* the chain rule for the cost formulas under a derivation.
-/
namespace BqVerif.CostAlg
open Matrix

variable {R : Type*} [CommRing R] [StarRing R]
variable {m k : Type*} [Fintype m] [Fintype k]

/-- `tr(D†D) = 0` only for `D = 0` -/
def Definite (R : Type*) [CommRing R] [StarRing R] (m k : Type*) [Fintype m] [Fintype k] : Prop :=
  ∀ D : Matrix m k R, (Dᴴ * D).trace = 0 → D = 0

/-- Hilbert–Schmidt inner product `tr(A†B)` -/
def hs (A B : Matrix m k R) : R := (Aᴴ * B).trace

theorem hs_conj (A B : Matrix m k R) : star (hs A B) = hs B A := by
  unfold hs
  rw [← trace_conjTranspose, conjTranspose_mul, conjTranspose_conjTranspose]

theorem hs_smul_right (A B : Matrix m k R) (l : R) : hs A (l • B) = l * hs A B := by
  unfold hs; rw [Matrix.mul_smul, trace_smul, smul_eq_mul]

theorem hs_smul_left (A B : Matrix m k R) (l : R) : hs (l • A) B = star l * hs A B := by
  unfold hs; rw [conjTranspose_smul, Matrix.smul_mul, trace_smul, smul_eq_mul]

theorem hs_sub_right (A B C : Matrix m k R) : hs A (B - C) = hs A B - hs A C := by
  unfold hs; rw [Matrix.mul_sub, trace_sub]

theorem hs_sub_left (A B C : Matrix m k R) : hs (A - B) C = hs A C - hs B C := by
  unfold hs; rw [conjTranspose_sub, Matrix.sub_mul, trace_sub]

/-- `‖B − λA‖² = ‖B‖² − λ̄·t̄... ` expanded -/
theorem hs_diff (A B : Matrix m k R) (l : R) :
    hs (B - l • A) (B - l • A) =
      hs B B - l * hs B A - star l * hs A B + star l * l * hs A A := by
  rw [hs_sub_right, hs_sub_left, hs_sub_left, hs_smul_right, hs_smul_left, hs_smul_left,
    hs_smul_right]
  ring

/-- Equality case of Cauchy–Schwarz for matrices of equal squared norm `c` (`c` self-adjoint and
invertible): `|tr(A†B)|² = c²` iff `B = λ·A` for a phase `λ`. -/
theorem frob_eq_iff (hdef : Definite R m k) (A B : Matrix m k R) (c cinv : R)
    (hc : c * cinv = 1) (hcs : star c = c) (hcis : star cinv = cinv)
    (hA : hs A A = c) (hB : hs B B = c) :
    hs A B * star (hs A B) = c * c ↔ ∃ l : R, l * star l = 1 ∧ B = l • A := by
  constructor
  · intro ht
    set t := hs A B with htdef
    refine ⟨t * cinv, ?_, ?_⟩
    · rw [star_mul', hcis]
      linear_combination (cinv * cinv) * ht + (c * cinv + 1) * hc
    · have hBA : hs B A = star t := (hs_conj A B).symm
      have h0 : hs (B - (t * cinv) • A) (B - (t * cinv) • A) = 0 := by
        rw [hs_diff, hA, hB, hBA, star_mul', hcis]
        linear_combination (-2 * cinv + cinv * cinv * c) * ht + (c * (c * cinv - 1)) * hc
      have := hdef _ h0
      exact sub_eq_zero.mp this
  · rintro ⟨l, hl, rfl⟩
    rw [hs_smul_right, hA, star_mul', hcs]
    linear_combination (c * c) * hl


/-! ## residuals: `‖U·T† − 1‖²` -/
section resid
variable {n : Type*} [Fintype n] [DecidableEq n]

theorem hs_one_left (M : Matrix n n R) : hs (1 : Matrix n n R) M = M.trace := by
  unfold hs; rw [conjTranspose_one, Matrix.one_mul]

theorem hs_one_right (M : Matrix n n R) : hs M (1 : Matrix n n R) = star M.trace := by
  rw [← hs_conj, hs_one_left]

theorem hs_one_one : hs (1 : Matrix n n R) 1 = (Fintype.card n : R) := by
  rw [hs_one_left, trace_one]

/-- The squared Frobenius norm of the residual matrix `U·T† − 1`, for a circuit matrix `U` with
`U†U = 1`:  `‖T‖² − t − t̄ + N`  where `t = tr(T†U)`. -/
theorem resid_normsq (T U : Matrix n n R) (hU : Uᴴ * U = 1) :
    hs (U * Tᴴ - 1) (U * Tᴴ - 1) =
      hs T T - hs T U - star (hs T U) + (Fintype.card n : R) := by
  have h1 : hs (U * Tᴴ) (U * Tᴴ) = hs T T := by
    unfold hs
    rw [conjTranspose_mul, conjTranspose_conjTranspose, Matrix.mul_assoc, ← Matrix.mul_assoc Uᴴ,
      hU, Matrix.one_mul, trace_mul_comm]
  have h2 : (U * Tᴴ).trace = hs T U := by unfold hs; rw [trace_mul_comm]
  rw [hs_sub_right, hs_sub_left, hs_sub_left, hs_one_left, hs_one_right, hs_one_one, h1, h2]
  ring

/-- for a unitary target: `2N − t − t̄` -/
theorem resid_normsq_unitary (T U : Matrix n n R) (hU : Uᴴ * U = 1) (hT : Tᴴ * T = 1) :
    hs (U * Tᴴ - 1) (U * Tᴴ - 1) = 2 * (Fintype.card n : R) - hs T U - star (hs T U) := by
  rw [resid_normsq T U hU]
  have : hs T T = (Fintype.card n : R) := by unfold hs; rw [hT, trace_one]
  rw [this]; ring

end resid

/-! ## chain rule under a derivation -/
section deriv

/-- an additive map with the Leibniz rule that commutes with conjugation: differentiation with
respect to one real parameter -/
structure RealDeriv (R : Type*) [CommRing R] [StarRing R] where
  D : R →+ R
  leibniz : ∀ a b, D (a * b) = D a * b + a * D b
  star_comm : ∀ a, D (star a) = star (D a)

variable (d : RealDeriv R)

theorem RealDeriv.one : d.D 1 = 0 := by
  have h := d.leibniz 1 1
  simp only [mul_one, one_mul] at h
  have : d.D 1 + d.D 1 = d.D 1 + 0 := by rw [add_zero]; exact h.symm
  exact add_left_cancel this

/-- **Gradient of the Hilbert–Schmidt cost.**  If `s² = t·t̄` (`s = |t|`), `cost = 1 − s/N`
(`Ninv` a constant), then `2·s·∂cost = −(1/N)·(t̄·∂t + t·conj(∂t))`, i.e.
`∂cost = −Re(t̄·∂t)/(N·|t|)`. -/
theorem grad_cost (s t cost Ninv : R) (hs : s * s = t * star t) (hcost : cost = 1 - s * Ninv)
    (hN : d.D Ninv = 0) :
    2 * s * d.D cost = -(Ninv * (star t * d.D t + t * star (d.D t))) := by
  have h1 : d.D (s * s) = d.D (t * star t) := by rw [hs]
  rw [d.leibniz, d.leibniz, d.star_comm] at h1
  rw [hcost, map_sub, d.one, d.leibniz, hN]
  linear_combination (-Ninv) * h1

/-- state-target cost `1 − t·t̄`: `∂cost = −(t̄·∂t + t·conj(∂t)) = −2·Re(t̄·∂t)`. -/
theorem grad_state_cost (t cost : R) (hcost : cost = 1 - t * star t) :
    d.D cost = -(star t * d.D t + t * star (d.D t)) := by
  rw [hcost, map_sub, d.one, d.leibniz, d.star_comm]
  ring

/-- `∂ tr(T†U) = tr(T†·∂U)` for a constant target (derivative taken entrywise). -/
theorem deriv_hs {m k : Type*} [Fintype m] [Fintype k] (T U : Matrix m k R)
    (hT : ∀ i j, d.D (star (T i j)) = 0) :
    d.D (hs T U) = hs T (U.map d.D) := by
  unfold hs
  simp only [trace, diag, Matrix.mul_apply, conjTranspose_apply, map_sum, map_apply]
  refine Finset.sum_congr rfl fun i _ => Finset.sum_congr rfl fun j _ => ?_
  rw [d.leibniz, hT]; ring

end deriv

end BqVerif.CostAlg
