/-
Scopes of the regenerated-workflow obligations of C01/C02/C03: which configurations the
full-strength postconditions are claimed for, and the classes of configurations that are excluded
because the code as it is does NOT establish the postcondition there (each exclusion has a
`_witness` theorem in Props/C02.lean or Props/C03.lean and an end-to-end reproducer in the harness).
-/
import BqVerif.Model.Pipeline

namespace BqVerif.Pipeline

def WF.isCircuit (w : WF) : Bool := w.cfg.kind == .circuit
def WF.isUnitary (w : WF) : Bool := w.cfg.kind == .unitary
def WF.isStateLike (w : WF) : Bool := w.cfg.kind == .state || w.cfg.kind == .system

/-- Finding F-many: with a >= 3-qudit native gate the retargeting body synthesises blocks with the
model connectivity hidden (ExtractModelConnectivityPass), also AFTER mapping; on a graph that is
not complete the result may use uncoupled pairs. -/
def WF.manyOnSparse (w : WF) : Bool := w.cfg.m.hasMany && !w.cfg.m.allToAll

/-- Finding F-width: workflows without ApplyPlacement on the path (unitary / state / state-system
synthesis) return a circuit of the input's width on a wider machine.  (The one-qudit circuit at
level 4, where the whole SeqPAM stage is skipped, was fixed in /repo by ded687c.) -/
def WF.unplacedOnWider (w : WF) : Bool := w.cfg.wider && w.cfg.kind != .circuit

/-- Configurations for which C02's full postcondition is claimed: every input kind (state and
state-system workflows since the /repo fix 5e098c4), outside the two remaining defect classes. -/
def WF.c02Scope (w : WF) : Bool := !w.manyOnSparse && !w.unplacedOnWider

def c02Check (w : WF) : Bool := !w.c02Scope || executable w.final

/-- What holds for EVERY regenerated tree regardless of the findings: no foreign multi-qudit gate,
no CircuitGate, the target model is set and its connectivity restored. -/
def structural (a : AState) : Bool :=
  !a.f2 && !a.fMany && !a.blocks && !a.noModel && !a.hidden

def c01Check (w : WF) : Bool := !w.isCircuit || semOK w.final
def c03Check (w : WF) : Bool := w.isCircuit || semOK w.final

/-! Classes of configurations in which a pass of the workflow raises on the code as it is (each
has a `_witness` theorem and an end-to-end reproducer in the harness).  The two model facts are
answers of the REAL instantiaters about a circuit of the model's own gates. -/

/-- Finding F-noinst: no instantiater of `instantiater_order` accepts the model's own gates
(`{CZ, VariableUnitaryGate(1)}`: Minimization refuses VariableUnitaryGates, QFactor refuses CZ). -/
def WF.noInstantiater (w : WF) : Bool := !w.cfg.m.anyCapable

/-- Finding F-state-min: the state / state-system workflows force `method='minimization'`, which
`Circuit.instantiate` refuses for a gate set with a VariableUnitaryGate (also the default qutrit
gate set). -/
def WF.stateForcedMinimization (w : WF) : Bool := w.isStateLike && !w.cfg.m.minCapable

/-- Finding F-pas-state: at level 4 the state / state-system synthesis is wrapped in
PermutationAwareSynthesisPass, which multiplies the target by permutation matrices as if it were
a unitary. -/
def WF.pasOnState (w : WF) : Bool := w.isStateLike && w.cfg.level == 4

/-- Finding F-state-1q: a one-qudit state (levels >= 2) or state system: when the first layer
misses the threshold the multi-qudit layer generator is asked to expand a one-qudit circuit. -/
def WF.oneQuditStateSearch (w : WF) : Bool :=
  w.isStateLike && w.cfg.width == 1 && !(w.cfg.kind == .state && w.cfg.level == 1)

/-- Configurations for which "no modelled pass raises" is claimed. -/
def WF.raiseScope (w : WF) : Bool :=
  !w.noInstantiater && !w.stateForcedMinimization && !w.pasOnState && !w.oneQuditStateSearch

def noRaise (w : WF) : Bool := !w.raiseScope || !w.final.crash

/-- Everything the regenerated-tree obligations demand of one workflow. -/
def allCheck (w : WF) : Bool :=
  c02Check w && structural w.final && c01Check w && c03Check w && noRaise w

end BqVerif.Pipeline
