/-
Scopes of the regenerated-workflow obligations of C01/C02/C03: which configurations the
full-strength postconditions are claimed for, and the classes of configurations that are excluded
because the code as it is does NOT establish the postcondition there (each exclusion has a
`_witness` theorem in Props/C02.lean or Props/C03.lean and an end-to-end reproducer in the harness).
-/
import BqVerif.Model.Pipeline

namespace BqVerif.Pipeline

def WF.isCircuit (w : WF) : Bool := w.cfg.kind == .circuit
def WF.isUnitary (w : WF) : Bool := w.cfg.kind == .unitary
def WF.isStateLike (w : WF) : Bool := w.cfg.kind == .state || w.cfg.kind == .system

/-- Finding F-many: with a >= 3-qudit native gate the retargeting body synthesises blocks with the
model connectivity hidden (ExtractModelConnectivityPass), also AFTER mapping; on a graph that is
not complete the result may use uncoupled pairs. -/
def WF.manyOnSparse (w : WF) : Bool := w.cfg.m.hasMany && !w.cfg.m.allToAll

/-- Finding F-width: workflows without ApplyPlacement on the path (unitary / state / state-system
synthesis; level 4 with a one-qudit circuit, where the whole SeqPAM stage is skipped) return a
circuit of the input's width on a wider machine. -/
def WF.unplacedOnWider (w : WF) : Bool :=
  w.cfg.wider && (w.cfg.kind != .circuit || (w.cfg.level == 4 && w.cfg.width == 1))

/-- Configurations for which C02's full postcondition is claimed. -/
def WF.c02Scope (w : WF) : Bool :=
  (w.isCircuit || w.isUnitary) && !w.manyOnSparse && !w.unplacedOnWider

def c02Check (w : WF) : Bool := !w.c02Scope || executable w.final

/-- What holds for EVERY regenerated tree regardless of the findings: no foreign multi-qudit gate,
no CircuitGate, the target model is set and its connectivity restored. -/
def structural (a : AState) : Bool :=
  !a.f2 && !a.fMany && !a.blocks && !a.noModel && !a.hidden

def c01Check (w : WF) : Bool := !w.isCircuit || semOK w.final
def c03Check (w : WF) : Bool := w.isCircuit || semOK w.final

/-- Everything the regenerated-tree obligations demand of one workflow. -/
def noRaise (w : WF) : Bool := !w.final.crash

def allCheck (w : WF) : Bool :=
  c02Check w && structural w.final && c01Check w && c03Check w && noRaise w

end BqVerif.Pipeline
