import BqVerif.Proofs.Sched
import BqVerif.Model.Network
/-!
# Per-node counter invariant of managers and servers

`BossInv` (every employee's idle count within `0 … total_workers`, the node's
`num_idle_workers` is their sum, the totals add up) is kept by every message handler of a
`Manager` and of a `DetachedServer`, for every message, assignment and iteration order, as long
as the node keeps running - under the one assumption that an employee never reports more idle
workers than it has.
-/
namespace BqVerif.Runtime

/-- the employee with index `ei` never reports more idle workers than its size -/
def waitingOK (b : Boss) (ei : Nat) : Msg → Prop
  | .waiting n _ => ∀ e, b.emps[ei]? = some e → n ≤ e.total
  | _ => True

theorem Manager.sched_inv (g : Manager) (ts : List Task) (asg : List Nat) (h : BossInv g.boss) :
    BossInv (g.sched ts asg).st.boss ∧ (g.sched ts asg).st.running = g.running := by
  unfold Manager.sched
  split
  · exact ⟨h, rfl⟩
  · exact ⟨schedule_inv g.boss ts asg h, rfl⟩

theorem Manager.systemError_stops (g : Manager) (cls : Nat) (why : String) :
    (g.systemError cls why).st.running = false := rfl

theorem Manager.updateUp_boss (g : Manager) : g.updateUp.1.boss = g.boss ∧ g.updateUp.1.running = g.running := by
  unfold Manager.updateUp
  split <;> exact ⟨rfl, rfl⟩

theorem Manager.fromAbove_inv (g : Manager) (m : Msg) (asg : List Nat) (h : BossInv g.boss)
    (hr : (g.fromAbove m asg).st.running = true) : BossInv (g.fromAbove m asg).st.boss := by
  cases m with
  | submit t => exact (Manager.sched_inv { g with receipt := some t.addr } [t] asg h).1
  | batch ts =>
    simp only [Manager.fromAbove] at hr ⊢
    split
    · rename_i hh; rw [hh] at hr; cases hr
    · rename_i t hh
      exact (Manager.sched_inv { g with receipt := some t.addr } ts asg h).1
  | result a v by_ =>
    simp only [Manager.fromAbove] at hr ⊢
    split
    · rename_i hh; rw [if_pos hh] at hr; cases hr
    · rename_i hh
      rw [if_neg hh] at hr
      split
      · rename_i h2; rw [h2] at hr; cases hr
      · exact h
  | cancel a => exact h
  | shutdown => cases hr
  | eof => cases hr
  | _ => cases hr

theorem Manager.schedLocal_inv (g : Manager) (ts : List Task) (asg : List Nat) (h : BossInv g.boss) :
    BossInv (g.schedLocal ts asg).st.boss := by
  unfold Manager.schedLocal
  dsimp only
  split
  · split
    · exact (Manager.sched_inv g _ asg h).1
    · show BossInv (g.sched (ts.take g.boss.numIdle.toNat) asg).st.updateUp.1.boss
      rw [(Manager.updateUp_boss _).1]
      exact (Manager.sched_inv g _ asg h).1
  · exact h

theorem Manager.sendUpOrSchedule_inv (g : Manager) (ts : List Task) (asg : List Nat) (h : BossInv g.boss) :
    BossInv (g.sendUpOrSchedule ts asg).st.boss := by
  have key := Manager.schedLocal_inv g ts asg h
  unfold Manager.sendUpOrSchedule
  dsimp only
  split
  · exact key
  · split
    · exact key
    · exact key

theorem Manager.fromBelow_inv (g : Manager) (ei : Nat) (m : Msg) (asg : List Nat) (h : BossInv g.boss)
    (henv : waitingOK g.boss ei m)
    (hr : (g.fromBelow ei m asg).st.running = true) : BossInv (g.fromBelow ei m asg).st.boss := by
  cases m with
  | submit t => exact Manager.sendUpOrSchedule_inv g [t] asg h
  | batch ts => exact Manager.sendUpOrSchedule_inv g ts asg h
  | result a v by_ =>
    simp only [Manager.fromBelow] at hr ⊢
    split
    · rename_i hh; rw [hh] at hr; cases hr
    · rename_i b' hh
      have hb := completed_inv g.boss b' by_ h hh
      rw [hh] at hr
      dsimp only at hr
      split
      · rename_i h1
        rw [if_pos h1] at hr
        split
        · rename_i h2; rw [h2] at hr; cases hr
        · exact hb
      · exact hb
  | waiting n r =>
    have hw := waiting_inv g.boss ei n r h henv
    simp only [Manager.fromBelow] at hr ⊢
    split
    · rename_i b' hh
      rw [hh] at hw
      show BossInv ({ g with boss := b' } : Manager).updateUp.1.boss
      rw [(Manager.updateUp_boss _).1]
      exact hw
    · rename_i hh; rw [hh] at hr; cases hr
    · rename_i hh; rw [hh] at hr; cases hr
    · rename_i hh; rw [hh] at hr; cases hr
  | update d => exact update_inv g.boss ei d h
  | eof => cases hr
  | _ => exact h

/-- **per-node counter invariant of a manager** -/
theorem Manager.handle_inv (g : Manager) (src : NodeId) (m : Msg) (asg : List Nat) (h : BossInv g.boss)
    (henv : ∀ ei, waitingOK g.boss ei m)
    (hr : (g.handle src m asg).st.running = true) : BossInv (g.handle src m asg).st.boss := by
  unfold Manager.handle at hr ⊢
  split
  · rename_i hs; rw [if_pos hs] at hr; exact Manager.fromAbove_inv g m asg h hr
  · rename_i hs
    rw [if_neg hs] at hr
    split
    · exact h
    · rename_i ei hh
      rw [hh] at hr
      exact Manager.fromBelow_inv g ei m asg h (henv ei) hr

-- ------------------------------------------------------------------ server
/-- what the handlers guarantee: still running ⇒ invariant -/
def SOK (r : HOut Server) : Prop := r.st.running = true → BossInv r.st.boss

theorem Server.systemError_sok (s : Server) (cls : Nat) (why : String) : SOK (s.systemError cls why) := by
  intro hr; cases hr

theorem Server.sched_sok (s : Server) (ts : List Task) (asg : List Nat) (h : BossInv s.boss) :
    SOK (s.sched ts asg) := by
  intro _
  unfold Server.sched
  split
  · exact h
  · exact schedule_inv s.boss ts asg h

theorem Server.cancelCore_sok (s : Server) (ci : Nat) (h : BossInv s.boss) : SOK (s.cancelCore ci) := by
  unfold Server.cancelCore
  split
  · exact Server.systemError_sok _ _ _
  · split
    · exact Server.systemError_sok _ _ _
    · intro _; exact h

theorem Server.cancelComp_sok (s : Server) (ci : Nat) (c : Option Nat) (h : BossInv s.boss) :
    SOK (s.cancelComp ci c) := by
  unfold Server.cancelComp
  split
  · split
    · exact Server.systemError_sok _ _ _
    · split
      · intro _; exact h
      · exact Server.cancelCore_sok s ci h
  · exact Server.cancelCore_sok s ci h

theorem Server.cancelComp_note (s : Server) (ci : Nat) (c : Option Nat)
    (hn : (s.cancelComp ci c).note = "ok") : (s.cancelComp ci c).st.boss = s.boss := by
  revert hn
  unfold Server.cancelComp Server.cancelCore
  dsimp only
  split
  · split
    · intro hn; simp [Server.systemError] at hn
    · split
      · intro _; rfl
      · split
        · intro hn; simp [Server.systemError] at hn
        · split
          · intro hn; simp [Server.systemError] at hn
          · intro _; rfl
  · split
    · intro hn; simp [Server.systemError] at hn
    · split
      · intro hn; simp [Server.systemError] at hn
      · intro _; rfl

theorem Server.cancelAll_sok (l : List Nat) (acc : HOut Server) (h1 : SOK acc)
    (h2 : acc.note = "ok" → BossInv acc.st.boss) :
    SOK (Server.cancelAll acc l) ∧ ((Server.cancelAll acc l).note = "ok" → BossInv (Server.cancelAll acc l).st.boss) := by
  induction l generalizing acc with
  | nil => exact ⟨h1, h2⟩
  | cons ci rest ih =>
    simp only [Server.cancelAll]
    split
    · exact ⟨h1, h2⟩
    · rename_i hn
      have hok : acc.note = "ok" := by simpa using hn
      apply ih
      · exact Server.cancelComp_sok acc.st ci none (h2 hok)
      · intro hn'
        show BossInv (Server.cancelComp acc.st ci none).st.boss
        rw [Server.cancelComp_note acc.st ci none hn']
        exact h2 hok

theorem Server.disconnect_core_sok (s1 : Server) (direct : Out) (j : Nat) (ord : List Nat)
    (h : BossInv s1.boss) :
    SOK (if (Server.cancelAll { st := s1, direct := direct } ord).note != "ok" then
           Server.cancelAll { st := s1, direct := direct } ord
         else
           { (Server.cancelAll { st := s1, direct := direct } ord) with
             st := { (Server.cancelAll { st := s1, direct := direct } ord).st with
               tasks := (Server.cancelAll { st := s1, direct := direct } ord).st.tasks.filter (fun t => t.2.2 != j),
               mbox2task := (Server.cancelAll { st := s1, direct := direct } ord).st.mbox2task.filter
                 (fun p => !(((Server.cancelAll { st := s1, direct := direct } ord).st.tasks.filter
                   (fun t => t.2.2 == j)).map (·.2.1)).contains p.1) } }) := by
  have key := Server.cancelAll_sok ord { st := s1, direct := direct } (fun _ => h) (fun _ => h)
  split
  · exact key.1
  · rename_i hn
    intro _
    exact key.2 (by simpa using hn)

theorem Server.disconnect_sok (s : Server) (j : Nat) (ord : List Nat) (h : BossInv s.boss) :
    SOK (s.disconnect j ord) := by
  unfold Server.disconnect
  split
  · intro hr; cases hr
  · dsimp only
    split
    · intro hr; cases hr
    · split
      · intro _; exact h
      · exact Server.disconnect_core_sok _ _ j ord h

theorem Server.result_sok (s : Server) (a : Addr) (v : Val) (by_ : Int) (h : BossInv s.boss) :
    SOK (s.result a v by_) := by
  unfold Server.result
  split
  · exact Server.systemError_sok _ _ _
  · rename_i b' hb
    have hb' := completed_inv s.boss b' by_ h hb
    dsimp only
    split
    · split
      · intro _; exact hb'
      · split
        · exact Server.systemError_sok _ _ _
        · split
          · split
            · exact Server.systemError_sok _ _ _
            · split
              · exact Server.systemError_sok _ _ _
              · split
                · exact Server.systemError_sok _ _ _
                · intro _; exact hb'
          · intro _; exact hb'
    · split
      · exact Server.systemError_sok _ _ _
      · split
        · exact Server.systemError_sok _ _ _
        · intro _; exact hb'

theorem Server.fromClient_sok (s : Server) (j : Nat) (m : Msg) (asg ord : List Nat) (h : BossInv s.boss) :
    SOK (s.fromClient j m asg ord) := by
  cases m with
  | cSubmit ci pid =>
    simp only [Server.fromClient]
    split
    · exact Server.systemError_sok _ _ _
    · exact Server.sched_sok _ _ _ h
  | cRequest ci =>
    simp only [Server.fromClient]
    split
    · exact Server.systemError_sok _ _ _
    · split
      · intro hr; exact Server.disconnect_sok s j ord h hr
      · split
        · exact Server.systemError_sok _ _ _
        · split
          · exact Server.systemError_sok _ _ _
          · split
            · intro _; exact h
            · intro _; exact h
  | cStatus ci =>
    simp only [Server.fromClient]
    split
    · exact Server.systemError_sok _ _ _
    · split
      · intro _; exact h
      · split
        · exact Server.systemError_sok _ _ _
        · split
          · exact Server.systemError_sok _ _ _
          · intro _; exact h
  | cCancel ci => exact Server.cancelComp_sok s ci (some j) h
  | cDisconnect => exact Server.disconnect_sok s j ord h
  | eof => exact Server.disconnect_sok s j ord h
  | _ => exact Server.systemError_sok _ _ _

theorem Server.fromBelow_sok (s : Server) (ei : Nat) (m : Msg) (asg : List Nat) (h : BossInv s.boss)
    (henv : waitingOK s.boss ei m) : SOK (s.fromBelow ei m asg) := by
  cases m with
  | submit t => exact Server.sched_sok _ _ _ h
  | batch ts => exact Server.sched_sok _ _ _ h
  | result a v by_ => exact Server.result_sok s a v by_ h
  | error comp cls =>
    simp only [Server.fromBelow]
    split
    · intro _; exact h
    · split
      · intro _; exact h
      · split
        · exact Server.systemError_sok _ _ _
        · intro _; exact h
  | sysError cls => exact Server.systemError_sok _ _ _
  | cancel a => intro _; exact h
  | shutdown => intro hr; cases hr
  | eof => intro hr; cases hr
  | waiting n r =>
    have hw := waiting_inv s.boss ei n r h henv
    simp only [Server.fromBelow]
    split
    · rename_i b' hh; rw [hh] at hw; intro _; exact hw
    · exact Server.systemError_sok _ _ _
    · exact Server.systemError_sok _ _ _
    · exact Server.systemError_sok _ _ _
  | update d => intro _; exact update_inv s.boss ei d h
  | _ => exact Server.systemError_sok _ _ _

/-- **per-node counter invariant of a server** -/
theorem Server.handle_inv (s : Server) (src : NodeId) (m : Msg) (asg ord : List Nat) (h : BossInv s.boss)
    (henv : ∀ ei, waitingOK s.boss ei m)
    (hr : (s.handle src m asg ord).st.running = true) : BossInv (s.handle src m asg ord).st.boss := by
  have key : SOK (s.handle src m asg ord) := by
    unfold Server.handle
    split
    · split
      · intro _; exact h
      · exact Server.fromClient_sok s _ m asg ord h
    · split
      · intro _; exact h
      · rename_i ei _
        exact Server.fromBelow_sok s ei m asg h (henv ei)
  exact key hr

end BqVerif.Runtime
