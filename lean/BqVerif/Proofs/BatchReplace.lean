import BqVerif.Model.Circ
/-!
# `Circuit.batch_replace`: same-location batches are pointwise

When every new operation has the same location set as the operation it replaces, `replace` edits
the cycle in place, the number of cycles never changes, the shrink amount stays 0 and points
collected before the batch stay valid: the result is the pointwise substitution.
-/
namespace BqVerif.Circ

theorem normIdx_nat (n k : Nat) : normIdx n (k : Int) = k := by
  simp [normIdx]

theorem cycleInRange_nat (c : Circ) (k : Nat) (h : k < c.numCycles) : c.cycleInRange (k : Int) = true := by
  simp only [Circ.cycleInRange, Bool.and_eq_true, decide_eq_true_eq]
  omega

theorem qubitInRange_nat (c : Circ) (q : Nat) (h : q < c.numQudits) : c.qubitInRange (q : Int) = true := by
  simp only [Circ.qubitInRange, Bool.and_eq_true, decide_eq_true_eq]
  omega

theorem not_disjoint_of_sameSet {a b : List Nat} (hne : a ≠ []) (h : sameSet a b = true) :
    disjointL a b = false := by
  cases a with
  | nil => exact absurd rfl hne
  | cons x xs =>
    simp only [sameSet, Bool.and_eq_true, List.all_cons] at h
    simp only [disjointL, List.all_cons, h.1.1, Bool.not_true, Bool.false_and]

/-- one same-location `replace` at the point `(k, o.head)` of the operation `o` -/
theorem replace_sameLoc (cur : Circ) (k : Nat) (o n : Op)
    (hk : k < cur.numCycles) (hq : o.head < cur.numQudits)
    (hcell : cur.cell k o.head = some o) (hne : o.loc ≠ [])
    (hss : sameSet o.loc n.loc = true) :
    cur.replace ((k : Int), (o.head : Int)) n =
      ({ cur with cycles := cur.cycles.modify k (fun cy => cy.map (fun x => if x == o then n else x)) },
        .ok ()) := by
  simp only [Circ.replace, Circ.getOp, cycleInRange_nat cur k hk, qubitInRange_nat cur _ hq,
    normIdx_nat, hcell, Bool.and_self, Bool.not_true]
  simp [not_disjoint_of_sameSet hne hss, hss]

/-! ## substitution of targets -/
/-- a target of a same-location batch: (cycle, the operation there, its replacement) -/
abbrev Tgt := Nat × Op × Op

def Tgt.key (t : Tgt) : Nat × Op := (t.1, t.2.1)
def Tgt.item (t : Tgt) : (Int × Int) × Op := (((t.1 : Int), (t.2.1.head : Int)), t.2.2)

def hit (P : List Tgt) (k : Nat) (x : Op) : Option Op :=
  (P.find? (fun t => t.1 == k && t.2.1 == x)).map (·.2.2)
def substOp (P : List Tgt) (k : Nat) (x : Op) : Op := (hit P k x).getD x
def substCycles (P : List Tgt) (cycles : List Cycle) : List Cycle :=
  cycles.mapIdx (fun k cy => cy.map (substOp P k))

theorem hit_some_mem {P : List Tgt} {k : Nat} {x n : Op} (h : hit P k x = some n) : (k, x, n) ∈ P := by
  unfold hit at h
  cases hf : P.find? (fun t => t.1 == k && t.2.1 == x) with
  | none => simp [hf] at h
  | some t =>
    have hm := List.mem_of_find?_eq_some hf
    have hp := List.find?_some hf
    simp only [Bool.and_eq_true, beq_iff_eq] at hp
    simp only [hf, Option.map_some, Option.some.injEq] at h
    obtain ⟨a, b, c⟩ := t
    simp only at hp h
    obtain ⟨h1, h2⟩ := hp
    subst h1; subst h2; subst h
    exact hm

theorem hit_none_not_mem {P : List Tgt} {k : Nat} {x : Op} (h : hit P k x = none) :
    ∀ n, (k, x, n) ∉ P := by
  intro n hm
  unfold hit at h
  simp only [Option.map_eq_none_iff] at h
  have := List.find?_eq_none.mp h (k, x, n) hm
  simp at this

theorem hit_none_of_key {P : List Tgt} {k : Nat} {x : Op} (h : (k, x) ∉ P.map Tgt.key) :
    hit P k x = none := by
  unfold hit
  simp only [Option.map_eq_none_iff, List.find?_eq_none]
  intro t ht hp
  simp only [Bool.and_eq_true, beq_iff_eq] at hp
  apply h
  simp only [List.mem_map]
  exact ⟨t, ht, by simp [Tgt.key, hp.1, hp.2]⟩

theorem hit_append (P : List Tgt) (t : Tgt) (k : Nat) (x : Op) :
    hit (P ++ [t]) k x =
      match hit P k x with
      | some n => some n
      | none => if t.1 == k && t.2.1 == x then some t.2.2 else none := by
  unfold hit
  rw [List.find?_append]
  cases hf : P.find? (fun t => t.1 == k && t.2.1 == x) with
  | some a => simp
  | none =>
    by_cases hp : (t.1 == k && t.2.1 == x) = true
    · simp [List.find?, hp]
    · simp [List.find?, hp]

/-! ## locations under same-set substitution -/
theorem contains_of_sameSet {a b : List Nat} (h : sameSet a b = true) (q : Nat) :
    b.contains q = a.contains q := by
  simp only [sameSet, Bool.and_eq_true, List.all_eq_true, List.contains_iff_mem] at h
  cases hb : b.contains q <;> cases ha : a.contains q <;> simp_all

theorem sameSet_refl (a : List Nat) : sameSet a a = true := by
  simp [sameSet]

/-- every replacement keeps the location set -/
def AllSame (P : List Tgt) : Prop := ∀ t ∈ P, sameSet t.2.1.loc t.2.2.loc = true

theorem substOp_on {P : List Tgt} (hs : AllSame P) (k : Nat) (x : Op) (q : Nat) :
    (substOp P k x).on q = x.on q := by
  unfold substOp
  cases hh : hit P k x with
  | none => simp
  | some n =>
    have := hs _ (hit_some_mem hh)
    simp only [Option.getD_some, Op.on]
    exact contains_of_sameSet this q

theorem find?_unique {α : Type} {p : α → Bool} {l : List α} {o : α} (hm : o ∈ l) (hp : p o = true)
    (hu : ∀ x ∈ l, p x = true → x = o) : l.find? p = some o := by
  induction l with
  | nil => simp at hm
  | cons a l ih =>
    simp only [List.find?]
    cases hpa : p a with
    | true => simp [hu a (by simp) hpa]
    | false =>
      simp only
      simp only [List.mem_cons] at hm
      rcases hm with hm | hm
      · subst hm; rw [hp] at hpa; cases hpa
      · exact ih hm (fun x hx => hu x (by simp [hx]))

theorem disjointL_symm {a b : List Nat} (h : disjointL a b = true) : disjointL b a = true := by
  simp only [disjointL, List.all_eq_true, Bool.not_eq_true', List.contains_eq_mem,
    decide_eq_false_iff_not] at h ⊢
  intro q hq hqa
  exact h q hqa hq

theorem head_mem_loc {o : Op} (h : o.loc ≠ []) : o.head ∈ o.loc := by
  unfold Op.head
  cases hl : o.loc with
  | nil => exact absurd hl h
  | cons a l => simp

/-- in a cycle of pairwise disjoint operations, the only operation on a qudit of `o` is `o` -/
theorem unique_on {cy : Cycle} (hd : cy.Pairwise (fun a b => disjointL a.loc b.loc = true))
    {o : Op} (ho : o ∈ cy) {q : Nat} (hq : q ∈ o.loc) :
    ∀ x ∈ cy, x.on q = true → x = o := by
  intro x hx hon
  by_cases hne : x = o
  · exact hne
  exfalso
  have hdis : disjointL x.loc o.loc = true := by
    induction cy with
    | nil => simp at hx
    | cons a l ih =>
      simp only [List.pairwise_cons] at hd
      simp only [List.mem_cons] at hx ho
      rcases hx with hx | hx <;> rcases ho with ho | ho
      · subst hx; subst ho; exact absurd rfl hne
      · subst hx; exact hd.1 o ho
      · subst ho; exact disjointL_symm (hd.1 x hx)
      · exact ih hd.2 ho hx
  simp only [disjointL, List.all_eq_true, Bool.not_eq_true', List.contains_eq_mem,
    decide_eq_false_iff_not] at hdis
  simp only [Op.on, List.contains_eq_mem, decide_eq_true_eq] at hon
  exact hdis q hon hq

/-- the cell at `(k, o.head)` of the partially substituted cycle is still `o` -/
theorem find_subst {P : List Tgt} (hs : AllSame P) {cy : Cycle}
    (hd : cy.Pairwise (fun a b => disjointL a.loc b.loc = true))
    {k : Nat} {o : Op} (ho : o ∈ cy) (hne : o.loc ≠ []) (hk : (k, o) ∉ P.map Tgt.key) :
    (cy.map (substOp P k)).find? (·.on o.head) = some o := by
  rw [List.find?_map]
  have hfun : ((fun x : Op => x.on o.head) ∘ substOp P k) = (fun x : Op => x.on o.head) := by
    funext x; simp [substOp_on hs]
  rw [hfun, find?_unique ho (by simp [Op.on, head_mem_loc hne]) (unique_on hd ho (head_mem_loc hne))]
  simp [substOp, hit_none_of_key hk]

theorem substOp_append_other (P : List Tgt) (t : Tgt) (j : Nat) (x : Op) (h : t.1 ≠ j) :
    substOp (P ++ [t]) j x = substOp P j x := by
  unfold substOp
  rw [hit_append]
  cases hit P j x with
  | some n => rfl
  | none => simp [h]

/-- replacing `o` by `n` in the partially substituted cycle = substituting one more target -/
theorem map_subst_step {P : List Tgt} (hs : AllSame P) {cy : Cycle}
    (hd : cy.Pairwise (fun a b => disjointL a.loc b.loc = true))
    {k : Nat} {o n : Op} (ho : o ∈ cy) (hne : o.loc ≠ []) (hk : (k, o) ∉ P.map Tgt.key) :
    (cy.map (substOp P k)).map (fun x => if x == o then n else x) =
      cy.map (substOp (P ++ [(k, o, n)]) k) := by
  rw [List.map_map]
  apply List.map_congr_left
  intro x hx
  simp only [Function.comp]
  unfold substOp
  rw [hit_append]
  cases hh : hit P k x with
  | none =>
    by_cases hxo : x = o
    · subst hxo; simp
    · have : (o == x) = false := by simp [Ne.symm hxo]
      simp [hxo, this]
  | some m =>
    simp only [Option.getD_some]
    have hmem := hit_some_mem hh
    have hxo : x ≠ o := by
      intro h; subst h
      exact hk (List.mem_map.mpr ⟨_, hmem, rfl⟩)
    have hmo : m ≠ o := by
      intro h; subst h
      have hss := hs _ hmem
      have : x.on m.head = true := by
        have := contains_of_sameSet hss m.head
        simp only [Op.on]
        rw [← this]
        simpa using head_mem_loc hne
      exact hxo (unique_on hd ho (head_mem_loc hne) x hx this)
    simp [hmo]

/-- the fold of `batch_replace` over same-location targets -/
theorem fold_sameLoc (R : List Nat) (C : List Cycle)
    (hd : ∀ cy ∈ C, cy.Pairwise (fun a b => disjointL a.loc b.loc = true))
    (hwf : ∀ cy ∈ C, ∀ o ∈ cy, o.loc ≠ [] ∧ ∀ q ∈ o.loc, q < R.length) :
    ∀ (rest P : List Tgt),
      AllSame (P ++ rest) → ((P ++ rest).map Tgt.key).Nodup →
      (∀ t ∈ rest, ∃ cy, C[t.1]? = some cy ∧ t.2.1 ∈ cy) →
      (rest.map Tgt.item).foldl (fun (acc : Circ × Except Err Unit) item =>
          match acc.2 with
          | .error _ => acc
          | .ok () =>
            let shrink : Int := (C.length : Int) - (acc.1.numCycles : Int)
            acc.1.replace (item.1.1 - shrink, item.1.2) item.2)
        ((⟨R, substCycles P C⟩ : Circ), .ok ()) =
      ((⟨R, substCycles (P ++ rest) C⟩ : Circ), .ok ()) := by
  intro rest
  induction rest with
  | nil => intro P _ _ _; simp
  | cons t rest ih =>
    intro P hs hn hm
    obtain ⟨k, o, n⟩ := t
    obtain ⟨cy, hcy, ho⟩ := hm (k, o, n) (by simp)
    have hcyC : cy ∈ C := List.mem_of_getElem? hcy
    have hkC : k < C.length := by
      have := (List.getElem?_eq_some_iff.mp hcy).1; exact this
    have hsP : AllSame P := fun t ht => hs t (by simp [ht])
    have hkey : (k, o) ∉ P.map Tgt.key := by
      rw [List.map_append, List.nodup_append] at hn
      intro h
      exact hn.2.2 (k, o) h (k, o) (by simp [Tgt.key]) rfl
    have hne := (hwf cy hcyC o ho).1
    have hlen : (substCycles P C).length = C.length := by simp [substCycles]
    simp only [List.map_cons, List.foldl_cons, Tgt.item, Circ.numCycles, hlen, Int.sub_self,
      Int.sub_zero]
    have hcell : (⟨R, substCycles P C⟩ : Circ).cell k o.head = some o := by
      simp only [Circ.cell, List.getD_eq_getElem?_getD, substCycles, List.getElem?_mapIdx, hcy,
        Option.map_some, Option.getD_some]
      exact find_subst hsP (hd cy hcyC) ho hne hkey
    have hq : o.head < (⟨R, substCycles P C⟩ : Circ).numQudits :=
      (hwf cy hcyC o ho).2 _ (head_mem_loc hne)
    rw [replace_sameLoc _ k o n (by simp [Circ.numCycles, hlen, hkC]) hq hcell hne
      (hs (k, o, n) (by simp))]
    have hstep : (substCycles P C).modify k (fun cy => cy.map (fun x => if x == o then n else x)) =
        substCycles (P ++ [(k, o, n)]) C := by
      apply List.ext_getElem?
      intro j
      simp only [List.getElem?_modify, substCycles, List.getElem?_mapIdx]
      cases hj : C[j]? with
      | none => simp
      | some cyj =>
        simp only [Option.map_some, Option.map_eq_map]
        by_cases hkj : k = j
        · subst hkj
          rw [hcy] at hj
          cases hj
          simp only [if_true]
          rw [map_subst_step hsP (hd cy hcyC) ho hne hkey]
        · simp only [hkj, if_false]
          congr 1
          apply List.map_congr_left
          intro x _
          exact (substOp_append_other P (k, o, n) j x hkj).symm
    simp only [hstep]
    have := ih (P ++ [(k, o, n)]) (by simpa [List.append_assoc] using hs)
      (by simpa [List.append_assoc] using hn) (fun t ht => hm t (by simp [ht]))
    simpa [List.append_assoc, Tgt.item, Circ.numCycles] using this

/-! ## the sort by cycle is a permutation that commutes with `Tgt.item` -/
def insT (t : Tgt) : List Tgt → List Tgt
  | [] => [t]
  | y :: ys => if (t.1 : Int) ≤ (y.1 : Int) then t :: y :: ys else y :: insT t ys
def sortT (l : List Tgt) : List Tgt := l.foldr insT []

theorem ins_item (t : Tgt) (l : List Tgt) :
    Circ.batchReplace.ins (Tgt.item t) (l.map Tgt.item) = (insT t l).map Tgt.item := by
  induction l with
  | nil => simp [Circ.batchReplace.ins, insT]
  | cons y ys ih =>
    simp only [List.map_cons, Circ.batchReplace.ins, insT]
    by_cases h : (t.1 : Int) ≤ (y.1 : Int)
    · simp [Tgt.item, h]
    · have h' : ¬ ((Tgt.item t).1.1 ≤ (Tgt.item y).1.1) := by simpa [Tgt.item] using h
      rw [if_neg h', if_neg h, List.map_cons, ih]

theorem sort_item (l : List Tgt) :
    (l.map Tgt.item).foldr (fun x acc => Circ.batchReplace.ins x acc) [] = (sortT l).map Tgt.item := by
  induction l with
  | nil => simp [sortT]
  | cons t l ih =>
    simp only [List.map_cons, List.foldr_cons, ih, sortT]
    exact ins_item t _

theorem insT_perm (t : Tgt) (l : List Tgt) : (insT t l).Perm (t :: l) := by
  induction l with
  | nil => simp [insT]
  | cons y ys ih =>
    simp only [insT]
    by_cases h : (t.1 : Int) ≤ (y.1 : Int)
    · simp [h]
    · simp only [h, if_false]
      exact ((List.perm_cons y).mpr ih).trans (List.Perm.swap t y ys)

theorem sortT_perm (l : List Tgt) : (sortT l).Perm l := by
  induction l with
  | nil => simp [sortT]
  | cons t l ih =>
    simp only [sortT, List.foldr_cons]
    exact (insT_perm t _).trans ((List.perm_cons t).mpr ih)

theorem substCycles_nil (C : List Cycle) : substCycles [] C = C := by
  apply List.ext_getElem?
  intro j
  simp only [substCycles, List.getElem?_mapIdx]
  cases C[j]? with
  | none => rfl
  | some cy =>
    simp only [Option.map_some, Option.some.injEq]
    have : substOp [] j = id := by funext x; simp [substOp, hit]
    rw [this, List.map_id]

/-- what a same-location batch does to one operation `x` of cycle `k` -/
def RelT (l : List Tgt) (k : Nat) (x y : Op) : Prop :=
  (∃ n, (k, x, n) ∈ l ∧ y = n) ∨ ((∀ n, (k, x, n) ∉ l) ∧ y = x)

/-- hypotheses of a same-location batch on `c`: cycles hold pairwise disjoint, non-empty, in-range
operations; every target `(k, o, n)` names an operation `o` of cycle `k` and a replacement `n` with
the same location set; no operation is targeted twice -/
structure SameLocBatch (c : Circ) (l : List Tgt) : Prop where
  disj : ∀ cy ∈ c.cycles, cy.Pairwise (fun a b => disjointL a.loc b.loc = true)
  wf : ∀ cy ∈ c.cycles, ∀ o ∈ cy, o.loc ≠ [] ∧ ∀ q ∈ o.loc, q < c.numQudits
  mem : ∀ t ∈ l, ∃ cy, c.cycles[t.1]? = some cy ∧ t.2.1 ∈ cy
  same : AllSame l
  nodup : (l.map Tgt.key).Nodup

theorem batchReplace_sameLoc_aux (R : List Nat) (C : List Cycle) (l : List Tgt)
    (h : SameLocBatch ⟨R, C⟩ l) :
    ∃ r : Nat → Op → Op,
      (∀ k x, RelT l k x (r k x)) ∧ (∀ k x q, (r k x).on q = x.on q) ∧
      (⟨R, C⟩ : Circ).batchReplace (l.map Tgt.item) =
        (⟨R, C.mapIdx (fun k cy => cy.map (r k))⟩, .ok ()) := by
  have hperm := sortT_perm l
  have hsame : AllSame (sortT l) := fun t ht => h.same t (hperm.mem_iff.mp ht)
  refine ⟨substOp (sortT l), ?_, fun k x q => substOp_on hsame k x q, ?_⟩
  · intro k x
    unfold substOp RelT
    cases hh : hit (sortT l) k x with
    | some n => exact Or.inl ⟨n, hperm.mem_iff.mp (hit_some_mem hh), by simp⟩
    | none =>
      exact Or.inr ⟨fun n hn => hit_none_not_mem hh n (hperm.mem_iff.mpr hn), by simp⟩
  · have hrange : (l.map Tgt.item).all
        (fun it => (⟨R, C⟩ : Circ).cycleInRange it.1.1 && (⟨R, C⟩ : Circ).qubitInRange it.1.2) = true := by
      simp only [List.all_map, List.all_eq_true]
      intro t ht
      obtain ⟨cy, hcy, ho⟩ := h.mem t ht
      have hk : t.1 < (⟨R, C⟩ : Circ).numCycles := (List.getElem?_eq_some_iff.mp hcy).1
      have hw := h.wf cy (List.mem_of_getElem? hcy) _ ho
      simp [Tgt.item, cycleInRange_nat ⟨R, C⟩ _ hk, qubitInRange_nat ⟨R, C⟩ _ (hw.2 _ (head_mem_loc hw.1))]
    have hnorm : (l.map Tgt.item).map (fun it =>
        ((((normIdx (⟨R, C⟩ : Circ).numCycles it.1.1 : Nat) : Int), ((normIdx (⟨R, C⟩ : Circ).numQudits it.1.2 : Nat) : Int)), it.2)) =
        l.map Tgt.item := by
      rw [List.map_map]
      apply List.map_congr_left
      intro t _
      simp [Tgt.item, normIdx_nat]
    have hfold := fold_sameLoc R C h.disj h.wf (sortT l) []
      (by simpa using hsame)
      (by simpa using (hperm.map Tgt.key).nodup_iff.mpr h.nodup)
      (fun t ht => h.mem t (hperm.mem_iff.mp ht))
    simp only [Circ.batchReplace, hrange, Bool.not_true, Bool.false_eq_true, if_false, hnorm,
      sort_item]
    rw [substCycles_nil] at hfold
    simp only [substCycles, Circ.numCycles] at hfold ⊢
    exact hfold

/-- `batch_replace` with replacements on the same location sets: never raises, and is the pointwise
substitution `r`: the targeted operations become their replacements, every other operation stays
what and where it was, cycle indices are stable -/
theorem batchReplace_sameLoc (c : Circ) (l : List Tgt) (h : SameLocBatch c l) :
    ∃ r : Nat → Op → Op,
      (∀ k x, RelT l k x (r k x)) ∧ (∀ k x q, (r k x).on q = x.on q) ∧
      c.batchReplace (l.map Tgt.item) =
        (⟨c.radixes, c.cycles.mapIdx (fun k cy => cy.map (r k))⟩, .ok ()) := by
  obtain ⟨R, C⟩ := c
  exact batchReplace_sameLoc_aux R C l h

end BqVerif.Circ
