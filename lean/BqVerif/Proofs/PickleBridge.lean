import BqVerif.Proofs.PickleMain
import BqVerif.Proofs.PickleKahn
/-!
Bridge between C05 and C16: if the Kahn walk equals the row-major iteration (C05's
`iter_kahn_eq_rowmajor`), the hypothesis `kahnCovers` of `C16_reduce_rebuild_dag` holds.
Core Lean only.
-/
namespace BqVerif.Circ

theorem permOpsL_of_perm (l1 l2 : List Op) (h : l1.Perm l2) :
    Circ.iterOkB.permOpsL l1 l2 = true := by
  induction l1 generalizing l2 with
  | nil => simp [Circ.iterOkB.permOpsL, h.symm.eq_nil]
  | cons x xs ih =>
    have hx : x ∈ l2 := h.subset (by simp)
    have h2 : xs.Perm (l2.erase x) := by
      have := h.trans (List.perm_cons_erase hx)
      exact List.Perm.cons_inv this
    simp [Circ.iterOkB.permOpsL, hx, ih _ h2]

theorem filter_blocksFrom {α : Type} (bs : List (List α)) (i k : Nat) :
    ((blocksFrom i bs).filter (fun x => x.1 == k)).map (·.2)
      = if i ≤ k then bs.getD (k - i) [] else [] := by
  induction bs generalizing i with
  | nil => simp [blocksFrom]
  | cons b bs ih =>
    simp only [blocksFrom, List.filter_append, List.map_append, ih (i + 1)]
    by_cases hik : i = k
    · subst hik
      have h1 : (b.map (fun x => (i, x))).filter (fun x => x.1 == i) = b.map (fun x => (i, x)) := by
        rw [List.filter_eq_self]; intro x hx
        obtain ⟨y, _, rfl⟩ := List.mem_map.1 hx; simp
      have h0 : ¬ i + 1 ≤ i := by omega
      simp [h1, Function.comp_def, h0]
    · have h1 : (b.map (fun x => (i, x))).filter (fun x => x.1 == k) = [] := by
        rw [List.filter_eq_nil_iff]; intro x hx
        obtain ⟨y, _, rfl⟩ := List.mem_map.1 hx; simpa using hik
      simp only [h1, List.map_nil, List.nil_append]
      by_cases hle : i ≤ k
      · have h2 : i + 1 ≤ k := by omega
        have h3 : k - i = (k - (i + 1)) + 1 := by omega
        simp [hle, h2, h3]
      · have h2 : ¬ i + 1 ≤ k := by omega
        simp [hle, h2]

/-- bridge for C05's `iter_kahn_eq_rowmajor`: once the Kahn walk is known to equal the
row-major iteration, the hypothesis `kahnCovers` of `C16_reduce_rebuild_dag` holds. -/
theorem kahnCovers_of_eq_rowmajor (c : Circ) (h : c.iterKahn = c.iterCyc) : c.kahnCovers = true := by
  unfold Circ.kahnCovers
  rw [List.all_eq_true]
  intro k hk
  rw [h, iterCyc_blocks, filter_blocksFrom]
  simp only [Nat.zero_le, if_true, Nat.sub_zero]
  apply permOpsL_of_perm
  have hk' : k < c.cycles.length := by simpa [Circ.numCycles] using hk
  simp only [List.getD, List.getElem?_map, List.getElem?_eq_getElem hk', Option.map_some,
    Option.getD_some]
  exact sortBy_perm _ _

end BqVerif.Circ
