import BqVerif.Proofs.StartOnceNet
/-!
# Every task returns at most once (flat network)

Same potential argument as for `start`: `TokT a n` counts the task tokens of `a` (messages,
delayed lists, task tables - not RESULT messages); a `ret a` event removes the task from its
table; tokens are only created at fresh addresses.
-/
namespace BqVerif.Runtime

def isRet (a : Addr) : Ev → Nat
  | .ret b _ _ => if b = a then 1 else 0
  | _ => 0
def retsOf (a : Addr) (evs : List Ev) : Nat := sumBy (isRet a) evs

theorem retsOf_append (a : Addr) (l1 l2 : List Ev) : retsOf a (l1 ++ l2) = retsOf a l1 + retsOf a l2 :=
  sumBy_append _ _ _

def TokT (a : Addr) (n : Net) : Nat := tokChansU a n.chans + sumBy (tokW a) n.workers

def isDone : Outcome → Bool
  | .done _ => true
  | _ => false

theorem tokMsgsU_le (a : Addr) (ms : List Msg) : tokMsgsU a ms ≤ tokMsgs a ms :=
  sumBy_le _ _ _ (fun m _ => tokMsgU_le a m)

theorem tokW_recv_leU (a : Addr) (w : Worker) (m : Msg) : tokW a (w.recv m) ≤ tokW a w + tokMsgU a m := by
  by_cases hr : ∃ x v b, m = Msg.result x v b
  · obtain ⟨x, v, b, rfl⟩ := hr
    simp only [Worker.recv, tokMsgU]
    rw [tokW_handleResult]; omega
  · have h := tokW_recv_le a w m
    have e : tokMsg a m = tokMsgU a m := by
      cases m <;> first | rfl | exact absurd ⟨_, _, _, rfl⟩ hr
    rw [e] at h; exact h

theorem pick_tokT (a : Addr) (fuel : Nat) (w : Worker) :
    tokW a (Worker.pick fuel w).w + tokMsgsU a (Worker.pick fuel w).out ≤ tokW a w := by
  have h1 := pick_tok a fuel w
  have h2 := tokMsgsU_le a (Worker.pick fuel w).out
  simp only [phi] at h1
  omega

/-- weight of the outcome: 1 iff the body returned and the task is `a` -/
def doneW (a : Addr) (addr : Addr) : Outcome → Nat
  | .done _ => if addr = a then 1 else 0
  | _ => 0

theorem retsOf_snoc (a : Addr) (l : List Ev) (e : Ev) : retsOf a (l ++ [e]) = retsOf a l + isRet a e := by
  simp [retsOf, sumBy_append, sumBy]

/-- `ret` events of `runBody`: exactly one, for the active task, iff the body returns -/
theorem runBody_rets (a : Addr) (tbl : Table) (fuel : Nat) (r : Run) :
    retsOf a (runBody tbl fuel r).1.evs
      = retsOf a r.evs + doneW a r.t.addr (runBody tbl fuel r).2 := by
  induction fuel generalizing r with
  | zero => simp [runBody, doneW]
  | succ n ih =>
    simp only [runBody]
    split
    · rw [ih]; simp only [retsOf_snoc, isRet, Nat.add_zero]
    · split
      · simp [doneW]
      · rw [ih]; simp only [retsOf_snoc, isRet, Nat.add_zero]
    · split <;> simp [doneW]
    · split
      · simp [doneW]
      · split <;> simp [doneW]
    · split
      · simp [doneW]
      · split
        · simp only [doneW, retsOf_snoc, isRet, Nat.add_zero]
        · split
          · simp only [doneW, retsOf_snoc, isRet, Nat.add_zero]
          · rw [ih]; simp only [Run.cancelBox, retsOf_snoc, isRet, Nat.add_zero]
    · simp only [doneW, retsOf_snoc, isRet, Nat.add_zero]
    · simp only [doneW, retsOf_snoc, isRet, if_true]

/-- after the coroutine stopped: a completing task leaves its table -/
theorem finishStep_T (a : Addr) (r : Run) (oc : Outcome) (hg : (taskGet r.w.tasks r.t.addr).isSome) :
    tokW a (finishStep r oc).w + tokMsgsU a (finishStep r oc).out
        + doneW a r.t.addr oc
      ≤ tokW a r.w + tokMsgsU a r.out := by
  cases oc with
  | awaitF m nxt =>
    simp only [finishStep, doneW]
    split
    · rename_i r1 hpa
      obtain ⟨h1, h2, h3, _, _, _⟩ := processAwait_U _ _ _ _ hpa
      simp [tokW, cntA_taskSet, h1, h2, h3]
    · split <;> simp [tokW, cntA_taskSet, tokMsgsU, sumBy_append, sumBy, tokMsgU]
  | done v =>
    have key : tokW a (processCompletion r v).1.w + tokMsgsU a (processCompletion r v).1.out
          + (if r.t.addr = a then 1 else 0) ≤ tokW a r.w + tokMsgsU a r.out := by
      unfold processCompletion
      split
      · rename_i hn; rw [hn] at hg; simp at hg
      · rename_i x hx
        obtain ⟨c1, c2, c3, _⟩ := completionLoop_U a r.t.owned (completionEnter r v)
        simp only [tokW, c1, c2, c3]
        have hpos := cntA_pos_of_get _ _ _ hx
        have haddr := taskGet_addr _ _ _ hx
        rw [haddr] at hpos
        unfold completionEnter
        split
        · simp only [tokMsgsU_append, (handleResult_tables r.w r.t.addr v).1,
            (handleResult_tables r.w r.t.addr v).2]
          have hz : tokMsgsU a [Msg.update (-1)] = 0 := rfl
          by_cases e : r.t.addr = a
          · subst e
            have := cntA_taskErase_self r.t.addr r.w.tasks
            simp only [if_true]; omega
          · have := cntA_taskErase_other a r.t.addr r.w.tasks (fun h => e h.symm)
            simp only [e, if_false]; omega
        · simp only [tokMsgsU_append]
          have hz : tokMsgsU a [Msg.result r.t.addr v r.w.id] = 0 := rfl
          by_cases e : r.t.addr = a
          · subst e
            have := cntA_taskErase_self r.t.addr r.w.tasks
            simp only [if_true]; omega
          · have := cntA_taskErase_other a r.t.addr r.w.tasks (fun h => e h.symm)
            simp only [e, if_false]; omega
    simp only [finishStep, doneW]
    split
    · simp only [tokW, tokMsgsU_append] at key ⊢
      have : tokMsgsU a [Msg.sysError eKey] = 0 := rfl
      omega
    · exact key
  | err cls isRt =>
    simp only [finishStep, bubbleErr, doneW]
    split <;> simp [tokW, cntA_taskSet, tokMsgsU, sumBy_append, sumBy, tokMsgU]

theorem finishStep_rets (a : Addr) (r : Run) (oc : Outcome) :
    retsOf a (finishStep r oc).evs = retsOf a r.evs := by
  cases oc with
  | awaitF m nxt =>
    simp only [finishStep]
    split
    · rename_i r1 hpa; rw [(processAwait_U _ _ _ _ hpa).2.2.2.2.2]
    · split <;> rfl
  | done v =>
    have : (processCompletion r v).1.evs = r.evs := by
      unfold processCompletion
      split
      · rfl
      · rw [(completionLoop_U ⟨0, 0, 0⟩ _ _).2.2.2]
        unfold completionEnter; split <;> rfl
    simp only [finishStep]
    split <;> rw [this]
  | err cls isRt =>
    simp only [finishStep, bubbleErr]
    split <;> rfl

theorem runBody_delayed (tbl : Table) (fuel : Nat) (r : Run) :
    (runBody tbl fuel r).1.w.delayed = r.w.delayed := by
  induction fuel generalizing r with
  | zero => rfl
  | succ n ih =>
    simp only [runBody]
    split
    · rw [ih]
    · split
      · rfl
      · rw [ih]
    · split <;> rfl
    · split
      · rfl
      · split <;> rfl
    · split
      · rfl
      · split
        · rfl
        · split
          · rfl
          · rw [ih]; rfl
    · rfl
    · rfl

theorem runFinish_T (a : Addr) (tbl : Table) (fuel : Nat) (r0 : Run) (w : Worker)
    (hm : Mono w r0.w) (hg : (taskGet r0.w.tasks r0.t.addr).isSome) :
    tokW a (finishStep (runBody tbl fuel r0).1 (runBody tbl fuel r0).2).w
      + tokMsgsU a (finishStep (runBody tbl fuel r0).1 (runBody tbl fuel r0).2).out
      + retsOf a (finishStep (runBody tbl fuel r0).1 (runBody tbl fuel r0).2).evs
    ≤ tokW a r0.w + tokMsgsU a r0.out + retsOf a r0.evs
      + ind a w (finishStep (runBody tbl fuel r0).1 (runBody tbl fuel r0).2).w := by
  obtain ⟨hb1, hb2, hb3, _, _⟩ := runBody_U a tbl fuel r0 w (tokWU a r0.w + tokMsgsU a r0.out) hm
    (Nat.le_add_right _ _)
  have hdel := runBody_delayed tbl fuel r0
  have hfin := finishStep_T a (runBody tbl fuel r0).1 (runBody tbl fuel r0).2
    (by rw [hb2, hb3]; exact hg)
  have hr1 := finishStep_rets a (runBody tbl fuel r0).1 (runBody tbl fuel r0).2
  have hr2 := runBody_rets a tbl fuel r0
  have hC := ind_le_of_mono a w _ _ (finishStep_mono (runBody tbl fuel r0).1 (runBody tbl fuel r0).2)
  rw [hb3] at hfin
  simp only [tokWU, tokW, hb2, hdel] at hb1 hfin ⊢
  omega

theorem stepTask_T (a : Addr) (tbl : Table) (w : Worker) (out : List Msg) (t0 : Task)
    (hget : taskGet w.tasks t0.addr = some t0) :
    tokW a (stepTask tbl w out t0).w + tokMsgsU a (stepTask tbl w out t0).out
        + retsOf a (stepTask tbl w out t0).evs
      ≤ tokW a w + tokMsgsU a out + ind a w (stepTask tbl w out t0).w := by
  unfold stepTask
  split
  · simp [tokMsgsU, sumBy_append, sumBy, tokMsgU, retsOf]
  · rename_i w1 t1 val hd
    obtain ⟨e1, e2⟩ := desiredResult_tables _ _ _ _ _ hd
    obtain ⟨ta, _, _⟩ := desiredResult_task _ _ _ _ _ hd
    have hm1 := desiredResult_mono _ _ _ _ _ hd
    split
    · simp only [bubbleErr]
      split
      · simp [tokW, cntA_taskSet, e1, e2, retsOf, sumBy]
      · simp [tokW, cntA_taskSet, e1, e2, retsOf, sumBy, tokMsgsU, sumBy_append, tokMsgU]
    · dsimp only
      obtain ⟨_, ra, _⟩ := resume_U a tbl t1 val
      have hrf := runFinish_T a tbl ((tbl.getD t1.prog []).length + 2)
        { w := w1, t := (resume tbl t1 val).1, out := out, evs := (resume tbl t1 val).2 } w hm1
        (by simp only [ra, ta, e1, hget]; rfl)
      have hr0 : retsOf a (resume tbl t1 val).2 = 0 := by
        unfold resume
        dsimp only
        split <;> split <;> simp [retsOf, sumBy, isRet, sumBy_append]
      simp only [hr0, e1, e2, tokW] at hrf
      simp only [tokW]
      omega

theorem step_T (a : Addr) (tbl : Table) (w : Worker) :
    tokW a (w.step tbl).w + tokMsgsU a (w.step tbl).out + retsOf a (w.step tbl).evs
      ≤ tokW a w + ind a w (w.step tbl).w := by
  unfold Worker.step
  dsimp only
  have hp := pick_tokT a w.pickFuel { w with blocked := false }
  have h00 : Mono w { w with blocked := false } := Mono.of_eq rfl (fun _ h => h) (fun _ h => h) rfl
  have hpm : Mono w (Worker.pick w.pickFuel { w with blocked := false }).w :=
    h00.trans (pick_mono w.pickFuel _)
  have h0 : tokW a { w with blocked := false } = tokW a w := rfl
  split
  · simp only [retsOf, sumBy]
    omega
  · rename_i t0 ht0
    have hmem := pick_task_mem _ _ _ ht0
    have hs := stepTask_T a tbl (Worker.pick w.pickFuel { w with blocked := false }).w
      (Worker.pick w.pickFuel { w with blocked := false }).out t0 hmem
    have hsm := stepTask_mono tbl (Worker.pick w.pickFuel { w with blocked := false }).w
      (Worker.pick w.pickFuel { w with blocked := false }).out t0
    have hi := ind_trans a w _ _ hpm hsm
    omega

end BqVerif.Runtime
