import BqVerif.Proofs.CrashDown
/-
C14 - the downward potential: every node whose boss is gone stops after reading what is
pending on its upstream connection (SHUTDOWN or EOF ends it); accounting over all nodes.
-/
namespace BqVerif.Crash

/-- `s'` differs from `s`, as far as downward weights go, by: more nodes gone, and the
channel from the boss longer by at most `g n` (a boss that stops may write one SHUTDOWN,
paid for by its own disappearance) -/
structure DLe (t : Topo) (s s' : State) (g : Nat → Nat) : Prop where
  alive : ∀ i, s'.alive i = true → s.alive i = true
  running : ∀ i, s'.running i = true → s.running i = true
  inb : ∀ n, s'.gone n = false →
    (s'.inbox n).length + b2n (!(s'.gone (t.parent n))) ≤
      (s.inbox n).length + b2n (!(s.gone (t.parent n))) + g n

theorem DLe.gone {t : Topo} {s s' : State} {g : Nat → Nat} (h : DLe t s s' g) (i : Nat)
    (hg : s.gone i = true) : s'.gone i = true := by
  have ha := h.alive i
  have hr := h.running i
  unfold State.gone at *
  cases h1 : s'.alive i <;> cases h2 : s'.running i <;> simp_all

theorem DLe.dweight {t : Topo} {s s' : State} {g : Nat → Nat} (h : DLe t s s' g) (n : Nat) :
    dweight t s' n ≤ dweight t s n + g n := by
  unfold Crash.dweight
  by_cases h0 : n = 0
  · simp [h0]
  · cases hg' : s'.gone n with
    | true => simp [h0]
    | false =>
      have hg : s.gone n = false := by
        cases hx : s.gone n with
        | false => rfl
        | true => have := h.gone n hx; rw [hg'] at this; cases this
      have := h.inb n hg'
      simp only [h0, hg, decide_false, Bool.or_self, Bool.false_eq_true, if_false]
      omega

abbrev DQuiet (t : Topo) (s s' : State) : Prop := DLe t s s' (fun _ => 0)

theorem DLe.mono {t : Topo} {s s' : State} {g g' : Nat → Nat} (h : DLe t s s' g)
    (hg : ∀ i, g i ≤ g' i) : DLe t s s' g' :=
  ⟨h.alive, h.running, fun n x => by have := h.inb n x; have := hg n; omega⟩

theorem DQuiet.trans {t : Topo} {s s' s'' : State} (h : DQuiet t s s') (h' : DQuiet t s' s'') :
    DQuiet t s s'' := by
  refine ⟨fun i x => h.alive i (h'.alive i x), fun i x => h.running i (h'.running i x), fun n x => ?_⟩
  have hx' : s'.gone n = false := by
    cases hy : s'.gone n with
    | false => rfl
    | true => have := h'.gone n hy; rw [x] at this; cases this
  have := h.inb n hx'
  have := h'.inb n x
  omega

theorem DQuiet.dle {t : Topo} {s s' : State} (h : DQuiet t s s') (g : Nat → Nat) : DLe t s s' g :=
  h.mono (fun _ => by omega)

/-- only fields the downward weight does not read changed -/
theorem DLe.of_eq {t : Topo} {s s' : State} (ha : s'.alive = s.alive) (hr : s'.running = s.running)
    (hi : s'.inbox = s.inbox) : DQuiet t s s' :=
  ⟨fun i h => by rw [← ha]; exact h, fun i h => by rw [← hr]; exact h,
   fun n _ => by unfold State.gone; rw [ha, hr, hi]; omega⟩

theorem b2n_gone_mono {s s' : State} (hg : ∀ i, s.gone i = true → s'.gone i = true) (i : Nat) :
    b2n (!(s'.gone i)) ≤ b2n (!(s.gone i)) := by
  have := hg i
  cases h1 : s.gone i <;> cases h2 : s'.gone i <;> simp_all [b2n]

/-- a node that was not gone shuts down (on its main thread) -/
theorem dle_shutdownNode (t : Topo) {s : State} {p : Nat} (hp : s.gone p = false) :
    DQuiet t s (shutdownNode t s p) := by
  have hrl : ∀ i, (shutdownNode t s p).running i = true → s.running i = true := by
    intro i x; simp only [shutdownNode_running, upd_apply] at x; split at x <;> simp_all
  have hgm : ∀ i, s.gone i = true → (shutdownNode t s p).gone i = true := by
    intro i x
    unfold State.gone at *
    simp only [shutdownNode_alive, shutdownNode_running, upd_apply]
    split <;> simp_all
  refine ⟨fun _ x => x, hrl, fun n _ => ?_⟩
  have hin : (shutdownNode t s p).inbox n =
      (if t.isChild p n && !(s.cleared p) && s.downOpen n then s.inbox n ++ [Msg.shutdown] else s.inbox n) := rfl
  rw [hin]
  split
  · rename_i hc
    simp only [Bool.and_eq_true] at hc
    have hpar := parent_of_isChild hc.1.1
    rw [hpar]
    have hg' : (shutdownNode t s p).gone p = true := by simp [State.gone]
    simp only [hg', hp, List.length_append, List.length_singleton, b2n]
    simp
  · have := b2n_gone_mono hgm (t.parent n)
    omega

theorem dle_same_fields {t : Topo} {s s1 s2 : State} {g : Nat → Nat} (h : DLe t s s1 g)
    (ha : s2.alive = s1.alive) (hr : s2.running = s1.running) (hi : s2.inbox = s1.inbox) :
    DLe t s s2 g :=
  ⟨fun i x => h.alive i (by rw [← ha]; exact x), fun i x => h.running i (by rw [← hr]; exact x),
   fun n x => by
    have hx : s1.gone n = false := by unfold State.gone at *; rw [← ha, ← hr]; exact x
    have := h.inb n hx
    unfold State.gone at *
    rw [ha, hr, hi]; exact this⟩

theorem systemError_inbox (t : Topo) (s : State) (p : Nat) :
    (systemError t s p).inbox = (shutdownNode t s p).inbox := by
  unfold systemError
  split
  · rfl
  · split <;> rfl

theorem dle_systemError (t : Topo) {s : State} {p : Nat} (hp : s.gone p = false) :
    DQuiet t s (systemError t s p) :=
  dle_same_fields (dle_shutdownNode t hp) (systemError_alive t s p)
    (by rw [systemError_running]; rfl) (systemError_inbox t s p)

theorem dle_kill (t : Topo) (s : State) (w : Nat) : DQuiet t s { s with alive := upd s.alive w false } := by
  have hgm : ∀ i, s.gone i = true → ({ s with alive := upd s.alive w false } : State).gone i = true := by
    intro i x
    unfold State.gone at *
    simp only [upd_apply]
    split <;> simp_all
  refine ⟨fun i x => ?_, fun _ x => x, fun n _ => ?_⟩
  · simp only [upd_apply] at x; split at x <;> simp_all
  · have := b2n_gone_mono hgm (t.parent n)
    show (s.inbox n).length + _ ≤ _
    omega

theorem dle_pop (t : Topo) (s : State) (n : Nat) (m : Msg) (rest : List Msg) (h : s.inbox n = m :: rest) :
    DQuiet t s { s with inbox := upd s.inbox n rest } := by
  refine ⟨fun _ x => x, fun _ x => x, fun i _ => ?_⟩
  simp only [State.gone, upd_apply]
  by_cases hi : i = n
  · subst hi; simp [h]
  · simp [hi]

theorem dle_append (t : Topo) (s : State) (e : Nat) (m : Msg) :
    DLe t s { s with inbox := upd s.inbox e (s.inbox e ++ [m]) } (fun i => if i = e then 1 else 0) := by
  refine ⟨fun _ x => x, fun _ x => x, fun i _ => ?_⟩
  simp only [State.gone, upd_apply]
  by_cases hi : i = e
  · subst hi; simp only [if_true, List.length_append, List.length_singleton]; omega
  · simp only [hi, if_false]; omega

theorem dq_put (t : Topo) (s : State) (p : Nat) (l : List (Dest × Msg)) : DQuiet t s (s.put p l) :=
  DLe.of_eq rfl rfl rfl

theorem dq_handleResult (t : Topo) (s : State) (m v : Nat) : DQuiet t s (handleResult s m v) := by
  unfold handleResult
  split
  · exact DLe.of_eq rfl rfl rfl
  · split <;> exact DLe.of_eq rfl rfl rfl

theorem dq_clientGone (t : Topo) {s : State} (h0 : s.gone 0 = false) (c : Nat) (em : List (Dest × Msg)) :
    DQuiet t s (clientGone t s c em) := by
  unfold clientGone
  split
  · exact dle_shutdownNode t h0
  · exact DLe.of_eq rfl rfl rfl

theorem dq_handleRequest (t : Topo) {s : State} (h0 : s.gone 0 = false) (c k : Nat)
    (em : List (Dest × Msg)) : DQuiet t s (handleRequest t s c k em) := by
  have hbad : DQuiet t s (clientGone t { s with toClient := upd s.toClient c (s.toClient c ++ [.error]) } c em) :=
    (DLe.of_eq rfl rfl rfl : DQuiet t s { s with toClient := upd s.toClient c (s.toClient c ++ [.error]) }).trans
      (dq_clientGone t (by simpa [State.gone] using h0) c em)
  unfold handleRequest
  simp only
  split
  · exact hbad
  · split
    · split
      · split <;> exact DLe.of_eq rfl rfl rfl
      · exact hbad
    · exact hbad

/-- growth charged to node `i` by a step, downwards -/
def gAtD (s : State) : Label → Nat → Nat
  | .flush n, i => match s.outq n with
    | (.emp e, _) :: _ => if i = e then 1 else 0
    | _ => 0
  | _, _ => 0

/-- every transition against the downward weights -/
theorem step_dle {t : Topo} {s s' : State} {l : Label} (h : step t s l = some s') :
    DLe t s s' (gAtD s l) := by
  cases l with
  | crash n tr =>
    simp only [step, crash] at h
    split at h
    · cases h
    split at h <;> cases h
    · (refine DQuiet.dle ?_ _; exact (dle_kill t s n).trans (DLe.of_eq rfl rfl rfl))
    · exact (dle_kill t s n).dle _
  | recvEmp p e em f =>
    simp only [step] at h
    unfold recvEmp at h
    split at h
    · cases h
    rename_i hg
    simp only [Bool.not_eq_true', Bool.not_eq_false, Bool.and_eq_true] at hg
    have hp := gone_false_of_loopOk hg.1.1.1
    refine DQuiet.dle ?_ _
    split at h
    · split at h
      · cases h
      have hclose : DQuiet t s (shutdownNode t { s with downOpen := upd s.downOpen e false } p) :=
        (DLe.of_eq rfl rfl rfl : DQuiet t s { s with downOpen := upd s.downOpen e false }).trans
          (dle_shutdownNode t (by simpa [State.gone] using hp))
      split at h
      · cases h; exact dle_systemError t hp
      split at h
      · cases h; exact hclose.trans (DLe.of_eq rfl rfl rfl)
      split at h
      · cases h; exact dle_shutdownNode t hp
      · cases h; exact hclose
    · rename_i m rest hout
      have hq0 : DQuiet t s { s with outbox := upd s.outbox e rest } := DLe.of_eq rfl rfl rfl
      have hp0 : ({ s with outbox := upd s.outbox e rest } : State).gone p = false := by
        simpa [State.gone] using hp
      simp only at h
      split at h
      · split at h <;> cases h
        · exact hq0.trans (dle_shutdownNode t hp0)
        · exact hq0.trans (dq_put t _ _ _)
      · cases h; exact hq0.trans (dle_systemError t hp0)
      · split at h <;> cases h
        · exact (hq0.trans (dle_systemError t hp0)).trans (DLe.of_eq rfl rfl rfl)
        · exact hq0.trans (dq_put t _ _ _)
      · split at h <;> cases h
        · exact hq0.trans (dq_handleResult t _ _ _)
        · exact hq0.trans (dq_put t _ _ _)
      · split at h <;> cases h
        · exact hq0.trans (dle_systemError t hp0)
        · exact hq0.trans (dq_put t _ _ _)
      · split at h <;> cases h
        · exact hq0.trans (dle_systemError t hp0)
        · exact hq0.trans (dq_put t _ _ _)
  | recvUp n em f =>
    simp only [step] at h
    unfold recvUp at h
    split at h
    · cases h
    rename_i hg
    simp only [Bool.not_eq_true', Bool.not_eq_false, Bool.and_eq_true] at hg
    have hp := gone_false_of_loopOk hg.1.1.1
    refine DQuiet.dle ?_ _
    split at h
    · split at h
      · cases h
      split at h <;> cases h
      · exact dle_systemError t hp
      exact (DLe.of_eq rfl rfl rfl : DQuiet t s { s with upOpen := upd s.upOpen n false }).trans
        (dle_shutdownNode t (by simpa [State.gone] using hp))
    · rename_i m rest hin
      have hq0 := dle_pop t s n m rest hin
      have hp0 : ({ s with inbox := upd s.inbox n rest } : State).gone n = false := by
        simpa [State.gone] using hp
      simp only at h
      split at h
      · cases h; exact hq0.trans (dle_shutdownNode t hp0)
      · cases h; exact hq0.trans (dle_systemError t hp0)
      · split at h <;> cases h
        · exact hq0.trans (dle_systemError t hp0)
        · exact hq0.trans (dq_put t _ _ _)
  | recvClient c em f =>
    simp only [step] at h
    unfold recvClient at h
    split at h
    · cases h
    rename_i hg
    simp only [Bool.not_eq_true', Bool.not_eq_false, Bool.and_eq_true] at hg
    have hp := gone_false_of_loopOk hg.1.1
    refine DQuiet.dle ?_ _
    split at h
    · split at h <;> cases h
      exact dq_clientGone t hp c em
    · rename_i m rest hin
      have hq0 : DQuiet t s { s with toServer := upd s.toServer c rest } := DLe.of_eq rfl rfl rfl
      have hp0 : ({ s with toServer := upd s.toServer c rest } : State).gone 0 = false := by
        simpa [State.gone] using hp
      simp only at h
      split at h
      · cases h; exact hq0.trans (dq_clientGone t hp0 c em)
      · cases h; exact hq0.trans (DLe.of_eq rfl rfl rfl)
      · cases h; exact hq0.trans (dq_handleRequest t hp0 c _ em)
      · split at h <;> cases h
        · exact hq0.trans (dle_systemError t hp0)
        · exact hq0.trans (dq_put t _ _ _)
      · cases h; exact hq0.trans (dle_systemError t hp0)
  | flush n =>
    simp only [step] at h
    unfold flush at h
    split at h
    · cases h
    split at h
    · cases h
    rename_i d m rest hq
    have hq0 : DQuiet t s { s with outq := upd s.outq n rest } := DLe.of_eq rfl rfl rfl
    simp only at h
    split at h
    · split at h
      · cases h
      split at h <;> cases h
      · (refine DQuiet.dle ?_ _; exact DLe.of_eq rfl rfl rfl)
      · exact hq0.dle _
    · rename_i e
      have hg : gAtD s (.flush n) = fun i => if i = e then 1 else 0 := by
        funext i; simp [gAtD, hq]
      rw [hg]
      split at h
      · cases h
      split at h <;> cases h
      · exact dle_same_fields (dle_append t s e m) rfl rfl rfl
      · exact hq0.dle _
    · split at h
      · cases h
      split at h <;> cases h
      · (refine DQuiet.dle ?_ _; exact DLe.of_eq rfl rfl rfl)
      · exact hq0.dle _
  | flushDrop n =>
    simp only [step] at h
    unfold flushDrop at h
    split at h
    · cases h
    split at h
    · cases h
    split at h <;> cases h
    (refine DQuiet.dle ?_ _; exact DLe.of_eq rfl rfl rfl)
  | wsend w m =>
    simp only [step] at h
    unfold wsend at h
    split at h
    · cases h
    split at h <;> cases h
    · (refine DQuiet.dle ?_ _; exact DLe.of_eq rfl rfl rfl)
    · (refine DQuiet.dle ?_ _; exact DLe.of_eq rfl rfl rfl)
    · (refine DQuiet.dle ?_ _; exact (dle_kill t s w).trans (DLe.of_eq rfl rfl rfl))
  | wrecv w =>
    simp only [step] at h
    unfold wrecv at h
    split at h
    · cases h
    refine DQuiet.dle ?_ _
    split at h
    · split at h <;> cases h
      exact dle_kill t s w
    · rename_i m rest hin
      have hq0 := dle_pop t s w m rest hin
      simp only at h
      split at h <;> cases h
      · exact hq0.trans (dle_kill t _ w)
      · exact hq0.trans (dle_kill t _ w)
      · exact hq0
  | ccall c r =>
    simp only [step] at h
    unfold ccall at h
    split at h
    · cases h
    split at h
    · cases h; (refine DQuiet.dle ?_ _; exact DLe.of_eq rfl rfl rfl)
    split at h <;> cases h <;> (refine DQuiet.dle ?_ _; exact DLe.of_eq rfl rfl rfl)
  | cwake c =>
    simp only [step] at h
    unfold cwake at h
    split at h
    · cases h
    split at h
    · cases h
    split at h <;> cases h <;> (refine DQuiet.dle ?_ _; exact DLe.of_eq rfl rfl rfl)

/-- a live node that reads its upstream connection lowers its own downward weight -/
theorem reader_strict {t : Topo} (wf : t.WF) {s s' : State} (hi : Inv t s) {l : Label} {n : Nat}
    (hl : (∃ em f, l = .recvUp n em f) ∨ l = .wrecv n) (h : step t s l = some s') :
    n < t.n ∧ dweight t s' n + 1 ≤ dweight t s n := by
  have hd := step_dle h
  -- facts about the reader
  have key : n < t.n ∧ n ≠ 0 ∧ s.gone n = false ∧
      ((s.inbox n = [] ∧ s'.gone n = true) ∨
       (∃ m rest, s.inbox n = m :: rest ∧ (s'.gone n = true ∨ s'.inbox n = rest))) := by
    rcases hl with ⟨em, f, rfl⟩ | rfl
    · simp only [step] at h
      unfold recvUp at h
      split at h
      · cases h
      rename_i hg
      simp only [Bool.not_eq_true', Bool.not_eq_false, Bool.and_eq_true, bne_iff_ne, ne_eq] at hg
      have hloop := hg.1.1.1
      have hp := gone_false_of_loopOk hloop
      have hlt : n < t.n := by
        unfold State.loopOk at hloop
        simp only [Bool.and_eq_true, decide_eq_true_eq] at hloop
        exact hloop.1.1.1
      refine ⟨hlt, hg.1.1.2, hp, ?_⟩
      split at h
      · rename_i hin
        split at h
        · cases h
        split at h <;> cases h
        · exact Or.inl ⟨hin, by simp [systemError, shutdownNode, finishShutdown, baseShutdown, State.gone]⟩
        exact Or.inl ⟨hin, by simp [State.gone]⟩
      · rename_i m rest hin
        right
        refine ⟨m, rest, hin, ?_⟩
        simp only at h
        split at h
        · cases h; exact Or.inl (by simp [State.gone])
        · cases h; exact Or.inl (by simp [State.gone])
        · split at h <;> cases h
          · exact Or.inl (by simp [State.gone])
          · exact Or.inr (by simp [State.put])
    · simp only [step] at h
      unfold wrecv at h
      split at h
      · cases h
      rename_i hg
      simp only [Bool.not_eq_true', Bool.not_eq_false, isWorker, Bool.and_eq_true, decide_eq_true_eq,
        beq_iff_eq] at hg
      have hn0 : n ≠ 0 := by
        intro x; subst x
        have := wf.kroot
        rw [this] at hg; cases hg.1.2
      have hrun : s.running n = true := hi.wrk n hg.1.2
      have hp : s.gone n = false := by simp [State.gone, hg.2, hrun]
      refine ⟨hg.1.1, hn0, hp, ?_⟩
      split at h
      · rename_i hin
        split at h <;> cases h
        exact Or.inl ⟨hin, by simp [State.gone]⟩
      · rename_i m rest hin
        right
        refine ⟨m, rest, hin, ?_⟩
        simp only at h
        split at h <;> cases h
        · exact Or.inl (by simp [State.gone])
        · exact Or.inl (by simp [State.gone])
        · exact Or.inr (by simp)
  obtain ⟨hlt, hn0, hg, hcases⟩ := key
  refine ⟨hlt, ?_⟩
  have hpm := b2n_gone_mono (s := s) (s' := s') (fun i x => hd.gone i x) (t.parent n)
  unfold Crash.dweight
  simp only [hn0, hg, decide_false, Bool.or_self, Bool.false_eq_true, if_false, Bool.false_or]
  rcases hcases with ⟨_, hg'⟩ | ⟨m, rest, hin, hg' | hin'⟩
  · simp only [hg', if_true]; omega
  · simp only [hg', if_true]; omega
  · cases hgn : s'.gone n with
    | true => simp only [if_true]; omega
    | false =>
      simp only [Bool.false_eq_true, if_false, hin', hin, List.length_cons]
      omega

end BqVerif.Crash
