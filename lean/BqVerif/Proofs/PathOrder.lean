import BqVerif.Proofs.WorkersInv
/-!
# SUBMIT before CANCEL: the first FIFO link (worker → boss)

`Worker.cancel(future)` can only be called on a mailbox that exists, and the mailbox is created
by the very `submit` / `map` that sends the task: in everything a worker sends, a task with address
`a` is never behind a CANCEL of `a`.  (First link of the path-ordering argument that excludes "a
task delivered after the CANCEL of its own address", `design_notes/C12.md`.)
-/
namespace BqVerif.Runtime

def hasTask (a : Addr) : Msg → Bool
  | .submit t => t.addr == a
  | .batch ts => ts.any (fun t => t.addr == a)
  | _ => false

def isCancel (a : Addr) : Msg → Bool
  | .cancel x => x == a
  | _ => false

/-- no task with address `a` behind a CANCEL of `a` -/
def okSeq (a : Addr) : List Msg → Bool
  | [] => true
  | m :: rest => (!isCancel a m || !rest.any (hasTask a)) && okSeq a rest

theorem okSeq_append_single (a : Addr) (l : List Msg) (m : Msg) :
    okSeq a (l ++ [m]) = (okSeq a l && (!hasTask a m || !l.any (isCancel a))) := by
  induction l with
  | nil => simp [okSeq]
  | cons x xs ih =>
    simp only [List.cons_append, okSeq, ih, List.any_append, List.any_cons, List.any_nil, Bool.or_false]
    cases isCancel a x <;> cases xs.any (hasTask a) <;> cases hasTask a m <;> cases okSeq a xs
      <;> cases xs.any (isCancel a) <;> rfl

theorem okSeq_tail (a : Addr) (m : Msg) (l : List Msg) (h : okSeq a (m :: l) = true) :
    okSeq a l = true := by
  simp only [okSeq, Bool.and_eq_true] at h; exact h.2

theorem okSeq_head_cancel (a : Addr) (m : Msg) (l : List Msg) (h : okSeq a (m :: l) = true)
    (hc : isCancel a m = true) : l.any (hasTask a) = false := by
  simp only [okSeq, Bool.and_eq_true, hc, Bool.not_true, Bool.false_or, Bool.not_eq_eq_eq_not] at h
  exact h.1

/-- what is known about a message list of worker `id` whose mailbox counter is `c` -/
structure LInv (a : Addr) (id : Int) (c : Nat) (l : List Msg) : Prop where
  ok : okSeq a l = true
  can : l.any (isCancel a) = true → a.w = id ∧ a.m < c

theorem LInv.nil (a : Addr) (id : Int) (c : Nat) : LInv a id c [] := ⟨rfl, by simp⟩

theorem LInv.mono {a : Addr} {id : Int} {c c' : Nat} {l : List Msg} (h : LInv a id c l) (hc : c ≤ c') :
    LInv a id c' l := ⟨h.ok, fun x => ⟨(h.can x).1, Nat.lt_of_lt_of_le (h.can x).2 hc⟩⟩

theorem LInv.neutral {a : Addr} {id : Int} {c : Nat} {l : List Msg} (h : LInv a id c l) (m : Msg)
    (h1 : hasTask a m = false) (h2 : isCancel a m = false) : LInv a id c (l ++ [m]) := by
  refine ⟨?_, ?_⟩
  · rw [okSeq_append_single, h.ok, h1]; rfl
  · intro x
    simp only [List.any_append, List.any_cons, h2, List.any_nil, Bool.or_false] at x
    exact h.can x

/-- a message whose tasks were created with the current mailbox counter -/
theorem LInv.tasks {a : Addr} {id : Int} {c : Nat} {l : List Msg} (h : LInv a id c l) (m : Msg)
    (h1 : hasTask a m = true → a.w = id ∧ a.m = c) (h2 : isCancel a m = false) :
    LInv a id (c + 1) (l ++ [m]) := by
  refine ⟨?_, ?_⟩
  · rw [okSeq_append_single, h.ok]
    cases ht : hasTask a m with
    | false => rfl
    | true =>
      cases hc : l.any (isCancel a) with
      | false => rfl
      | true =>
        have := (h.can hc).2
        have := (h1 ht).2
        omega
  · intro x
    simp only [List.any_append, List.any_cons, h2, List.any_nil, Bool.or_false] at x
    exact ⟨(h.can x).1, Nat.lt_succ_of_lt (h.can x).2⟩

theorem LInv.cancels {a : Addr} {id : Int} {c : Nat} (L : List Msg) :
    ∀ {l : List Msg}, LInv a id c l → (∀ msg ∈ L, ∃ x, msg = Msg.cancel x ∧ x.w = id ∧ x.m < c) →
      LInv a id c (l ++ L) := by
  induction L with
  | nil => intro l h _; simpa using h
  | cons y ys ih =>
    intro l h hL
    have : l ++ y :: ys = (l ++ [y]) ++ ys := by simp
    rw [this]
    apply ih _ (fun msg hm => hL msg (List.mem_cons_of_mem _ hm))
    obtain ⟨x, rfl, hx1, hx2⟩ := hL y List.mem_cons_self
    refine ⟨?_, ?_⟩
    · rw [okSeq_append_single, h.ok]; rfl
    · intro hc
      simp only [List.any_append, List.any_cons, List.any_nil, Bool.or_false, Bool.or_eq_true] at hc
      rcases hc with hc | hc
      · exact h.can hc
      · simp only [isCancel, beq_iff_eq] at hc
        subst hc; exact ⟨hx1, hx2⟩

theorem okSeq_append (a : Addr) (l L : List Msg) :
    okSeq a (l ++ L) = (okSeq a l && okSeq a L && (!l.any (isCancel a) || !L.any (hasTask a))) := by
  induction l with
  | nil => simp [okSeq]
  | cons x xs ih =>
    simp only [List.cons_append, okSeq, ih, List.any_append, List.any_cons]
    cases isCancel a x <;> cases xs.any (hasTask a) <;> cases L.any (hasTask a) <;> cases okSeq a xs
      <;> cases xs.any (isCancel a) <;> cases okSeq a L <;> rfl

/-- appending to a channel what a worker emitted in one loop iteration: the new tasks have
    mailbox ids at or above the old counter `c`, the CANCELs in the channel ids below it -/
theorem LInv.append {a : Addr} {id : Int} {c c' : Nat} {l : List Msg} (L : List Msg)
    (h : LInv a id c l) (hok : okSeq a L = true)
    (hcan : L.any (isCancel a) = true → a.w = id ∧ a.m < c') (hc : c ≤ c')
    (hfresh : ∀ msg ∈ L, hasTask a msg = true → c ≤ a.m) : LInv a id c' (l ++ L) := by
  refine ⟨?_, ?_⟩
  · rw [okSeq_append, h.ok, hok]
    cases hcl : l.any (isCancel a) with
    | false => rfl
    | true =>
      cases ht : L.any (hasTask a) with
      | false => rfl
      | true =>
        obtain ⟨msg, hm, hmt⟩ := List.any_eq_true.1 ht
        have := hfresh msg hm hmt
        have := (h.can hcl).2
        omega
  · intro x
    simp only [List.any_append, Bool.or_eq_true] at x
    rcases x with x | x
    · exact ⟨(h.can x).1, Nat.lt_of_lt_of_le (h.can x).2 hc⟩
    · exact hcan x

-- ------------------------------------------------------------ one loop iteration of a worker
theorem LInv.of_neutral {a : Addr} {id : Int} {c : Nat} (l : List Msg)
    (h : ∀ msg ∈ l, hasTask a msg = false ∧ isCancel a msg = false) : LInv a id c l := by
  have hno : l.any (isCancel a) = false := by
    rw [List.any_eq_false]
    intro msg hm; simp [(h msg hm).2]
  refine ⟨?_, by rw [hno]; intro x; cases x⟩
  induction l with
  | nil => rfl
  | cons x xs ih =>
    simp only [okSeq, (h x List.mem_cons_self).2, Bool.not_false, Bool.true_or, Bool.true_and]
    apply ih (fun msg hm => h msg (List.mem_cons_of_mem _ hm))
    rw [List.any_eq_false]
    intro msg hm; simp [(h msg (List.mem_cons_of_mem _ hm)).2]

theorem pick_neutral (a : Addr) (fuel : Nat) (w : Worker) :
    ∀ msg ∈ (Worker.pick fuel w).out, hasTask a msg = false ∧ isCancel a msg = false := by
  induction fuel generalizing w with
  | zero => intro msg h; simp [Worker.pick] at h
  | succ n ih =>
    simp only [Worker.pick]
    split
    · split
      · exact ih _
      · intro msg h
        simp only [List.mem_singleton] at h
        subst h; exact ⟨rfl, rfl⟩
    · split
      · exact ih _
      · split
        · exact ih _
        · split
          · exact ih _
          · intro msg h; simp at h

theorem fresh_newBox (w : Worker) (b : Box) (hf : Fresh w) :
    Fresh { w with counter := w.counter + 1, boxes := w.boxes ++ [(w.counter, b)] } := by
  intro k hk
  simp only [keys, List.map_append, List.map_cons, List.map_nil, List.mem_append,
    List.mem_singleton] at hk
  rcases hk with hk | hk
  · exact Nat.lt_succ_of_lt (hf k hk)
  · subst hk; exact Nat.lt_succ_self _

theorem cancelBox_linv {a : Addr} (r : Run) (m : Nat) (b : Box) (hf : Fresh r.w)
    (hb : boxGet r.w.boxes m = some b) (h : LInv a r.w.id r.w.counter r.out) :
    LInv a (r.cancelBox m b).w.id (r.cancelBox m b).w.counter (r.cancelBox m b).out
      ∧ Fresh (r.cancelBox m b).w := by
  have hm : m < r.w.counter := hf m ((boxGet_isSome_iff _ _).1 (by rw [hb]; rfl))
  refine ⟨?_, (cancelBox_mono r m b).fresh hf⟩
  show LInv a r.w.id r.w.counter (r.out ++ _)
  apply LInv.cancels _ h
  intro msg hmsg
  obtain ⟨i, _, rfl⟩ := List.mem_map.1 hmsg
  exact ⟨_, rfl, rfl, hm⟩

theorem runBody_linv {a : Addr} (tbl : Table) (fuel : Nat) (r : Run) (hf : Fresh r.w)
    (h : LInv a r.w.id r.w.counter r.out) :
    LInv a (runBody tbl fuel r).1.w.id (runBody tbl fuel r).1.w.counter (runBody tbl fuel r).1.out
      ∧ Fresh (runBody tbl fuel r).1.w := by
  induction fuel generalizing r with
  | zero => exact ⟨h, hf⟩
  | succ n ih =>
    simp only [runBody]
    split
    · rename_i p _
      apply ih
      · exact fresh_newBox r.w _ hf
      · show LInv a r.w.id (r.w.counter + 1) (r.out ++ [_])
        apply h.tasks _ _ rfl
        intro ht
        simp only [hasTask, mkChild, beq_iff_eq] at ht
        rw [← ht]; exact ⟨rfl, rfl⟩
    · split
      · exact ⟨h, hf⟩
      · rename_i ps _ _
        apply ih
        · exact fresh_newBox r.w _ hf
        · show LInv a r.w.id (r.w.counter + 1) (r.out ++ [_])
          apply h.tasks _ _ rfl
          intro ht
          simp only [hasTask, List.any_map, List.any_eq_true, Function.comp, mkChild, beq_iff_eq] at ht
          obtain ⟨ip, _, hip⟩ := ht
          rw [← hip]; exact ⟨rfl, rfl⟩
    · split <;> exact ⟨h, hf⟩
    · split
      · exact ⟨h, hf⟩
      · split <;> exact ⟨h, hf⟩
    · split
      · exact ⟨h, hf⟩
      · split
        · exact ⟨h, hf⟩
        · split
          · exact ⟨h, hf⟩
          · rename_i k _ _ m _ _ b hb _
            have hc := cancelBox_linv (a := a)
              { w := r.w, t := r.t, out := r.out, evs := r.evs ++ [Ev.cancel r.t.tag k] } m b hf hb h
            exact ih _ hc.2 hc.1
    · exact ⟨h, hf⟩
    · exact ⟨h, hf⟩

theorem completionLoop_linv {a : Addr} (ms : List Nat) (r : Run) (hf : Fresh r.w)
    (h : LInv a r.w.id r.w.counter r.out) :
    LInv a (completionLoop ms r).1.w.id (completionLoop ms r).1.w.counter (completionLoop ms r).1.out := by
  induction ms generalizing r with
  | nil => exact h
  | cons m ms ih =>
    simp only [completionLoop]
    split
    · rename_i b hb
      split
      · apply ih
        · intro k hk
          exact hf k (mem_keys_boxErase _ _ _ hk).1
        · exact h
      · have hc := cancelBox_linv (a := a) r m b hf hb h
        exact ih _ hc.2 hc.1
    · exact h

theorem LInv.move {a : Addr} {id id' : Int} {c c' : Nat} {l : List Msg} (h : LInv a id c l)
    (hid : id' = id) (hc : c ≤ c') : LInv a id' c' l := by
  subst hid; exact h.mono hc

theorem finishStep_linv {a : Addr} (r : Run) (oc : Outcome) (hf : Fresh r.w)
    (h : LInv a r.w.id r.w.counter r.out) :
    LInv a (finishStep r oc).w.id (finishStep r oc).w.counter (finishStep r oc).out := by
  cases oc with
  | awaitF m nxt =>
    simp only [finishStep]
    split
    · rename_i r1 h1
      have hm := processAwait_mono r r1 m nxt h1
      show LInv a r1.w.id r1.w.counter r1.out
      rw [(processAwait_tables r r1 m nxt h1).2.2.1]
      exact h.move hm.id hm.ctr
    · split
      · exact h
      · exact h.neutral _ rfl rfl
  | done v =>
    have hc : LInv a (processCompletion r v).1.w.id (processCompletion r v).1.w.counter
        (processCompletion r v).1.out := by
      unfold processCompletion
      split
      · exact h
      · have hm := completionEnter_mono r v
        apply completionLoop_linv _ _ (hm.fresh hf)
        unfold completionEnter
        split
        · exact (h.neutral _ rfl rfl).move (handleResult_mono r.w _ _).id (handleResult_mono r.w _ _).ctr
        · exact h.neutral _ rfl rfl
    simp only [finishStep]
    split
    · exact hc.neutral _ rfl rfl
    · exact hc
  | err cls isRt =>
    simp only [finishStep, bubbleErr]
    split
    · exact h
    · exact h.neutral _ rfl rfl

theorem stepTask_linv {a : Addr} (tbl : Table) (w : Worker) (out : List Msg) (t0 : Task) (hf : Fresh w)
    (h : LInv a w.id w.counter out) :
    LInv a (stepTask tbl w out t0).w.id (stepTask tbl w out t0).w.counter (stepTask tbl w out t0).out := by
  unfold stepTask
  split
  · exact h.neutral _ rfl rfl
  · rename_i w1 t1 val hd
    have hm := desiredResult_mono w w1 t0 t1 val hd
    have h1 : LInv a w1.id w1.counter out := h.move hm.id hm.ctr
    split
    · simp only [bubbleErr]
      split
      · exact h1
      · exact h1.neutral _ rfl rfl
    · have hb := runBody_linv (a := a) tbl ((tbl.getD t1.prog []).length + 2)
        { w := w1, t := (resume tbl t1 val).1, out := out, evs := (resume tbl t1 val).2 } (hm.fresh hf) h1
      exact finishStep_linv _ _ hb.2 hb.1

/-- **what a loop iteration of a worker sends**: no task with address `a` behind a CANCEL of `a`,
    and a CANCEL of `a` only for a mailbox id of this worker below its (new) counter -/
theorem step_linv (a : Addr) (tbl : Table) (w : Worker) (hf : Fresh w) :
    LInv a w.id (w.step tbl).w.counter (w.step tbl).out := by
  have hm := pick_mono w.pickFuel { w with blocked := false }
  have hp : LInv a (Worker.pick w.pickFuel { w with blocked := false }).w.id
      (Worker.pick w.pickFuel { w with blocked := false }).w.counter
      (Worker.pick w.pickFuel { w with blocked := false }).out :=
    LInv.of_neutral _ (pick_neutral a _ _)
  have hfp : Fresh (Worker.pick w.pickFuel { w with blocked := false }).w := hm.fresh hf
  have hid : (w.step tbl).w.id = w.id := (step_mono tbl w).id
  rw [← hid]
  unfold Worker.step
  dsimp only
  split
  · exact hp
  · exact stepTask_linv tbl _ _ _ hfp hp

/-- tasks a loop iteration sends were created in it: mailbox ids at or above the old counter -/
theorem step_tasks_fresh (a : Addr) (tbl : Table) (w : Worker) :
    ∀ msg ∈ (w.step tbl).out, hasTask a msg = true → a.w = w.id ∧ w.counter ≤ a.m := by
  apply step_outP (P := fun msg => hasTask a msg = true → a.w = w.id ∧ w.counter ≤ a.m)
  intro a0 _
  refine ⟨?_, ?_, ?_, ?_, ?_, ?_, ?_, ?_⟩
  · intro t _ h1 h2 ht
    simp only [hasTask, beq_iff_eq] at ht
    rw [← ht]; exact ⟨h1, h2⟩
  · intro ts hts ht
    simp only [hasTask, List.any_eq_true, beq_iff_eq] at ht
    obtain ⟨t, htm, hta⟩ := ht
    rw [← hta]; exact ⟨(hts t htm).2.1, (hts t htm).2.2⟩
  all_goals (intros; simp [hasTask] at *)

end BqVerif.Runtime
