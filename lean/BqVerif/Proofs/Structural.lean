import BqVerif.Proofs.CircRel
/-! C10 — structural passes (Unfold, Compress, GroupSingleQuditGate, ExtendBlockSize, the conversion
passes, FillSingleQuditGates): contracts over flattened operation lists, in every monoid semantics
where operations on disjoint locations commute (`Proofs/Trace.lean`). -/
namespace BqVerif.Circ

variable {M : Type} [Monoid M]

/-- Same per-qudit timelines after flattening ⇒ same denotation (the check the harness runs on the
real output of the regrouping passes through `bqdriver accept`, request `sametl`). -/
theorem den_of_sameTimelines (sem : Op → M)
    (hcomm : ∀ a b, Indep a b → sem a * sem b = sem b * sem a)
    (n : Nat) (l1 l2 : List Op) (h : sameTimelines n l1 l2 = true)
    (h1 : ∀ o ∈ l1, o.loc ≠ [] ∧ ∀ q ∈ o.loc, q < n)
    (h2 : ∀ o ∈ l2, o.loc ≠ [] ∧ ∀ q ∈ o.loc, q < n) :
    den sem l1 = den sem l2 := by
  have := sameTimelines_spec n l1 l2 h (fun o ho => (h1 o ho).2) (fun o ho => (h2 o ho).2)
  unfold den
  exact trace_equiv sem hcomm l1 l2 (fun o ho => (h1 o ho).1) (fun o ho => (h2 o ho).1) this

/-- Pointwise replacement of every operation by one with the same meaning (constant ↔ variable
unitary, general gate → U3 / VariableUnitary with `calc_params`, block → ConstantUnitaryGate). -/
theorem den_map_congr (sem : Op → M) (f : Op → Op) (l : List Op)
    (h : ∀ o ∈ l, sem (f o) = sem o) : den sem (l.map f) = den sem l := by
  induction l with
  | nil => rfl
  | cons a t ih =>
    have ha := h a List.mem_cons_self
    have ht := ih (fun o ho => h o (List.mem_cons_of_mem _ ho))
    simp only [den, List.map_cons, List.prod_cons] at *
    rw [ha, ht]

/-- Operations that mean the identity can be inserted or deleted anywhere (FillSingleQuditGates
inserts general gates with `identity_as_params`). -/
theorem den_filter_identities (sem : Op → M) (p : Op → Bool) (l : List Op)
    (h : ∀ o ∈ l, p o = false → sem o = 1) : den sem (l.filter p) = den sem l := by
  induction l with
  | nil => rfl
  | cons a t ih =>
    have ht := ih (fun o ho => h o (List.mem_cons_of_mem _ ho))
    by_cases hp : p a = true
    · simp only [den, List.filter_cons, hp, if_true, List.map_cons, List.prod_cons] at *
      rw [ht]
    · have hp' : p a = false := by simpa using hp
      have ha := h a List.mem_cons_self hp'
      simp only [den, List.filter_cons, hp', List.map_cons, List.prod_cons] at *
      simp [ha, ht]

/-- Two adjacent operations may be merged into one that means their product (FillSingleQuditGates
merges consecutive single-qudit gates: `utry = op.get_unitary() @ last_op.get_unitary()`). -/
theorem den_merge (sem : Op → M) (pre post : List Op) (a b m : Op) (h : sem m = sem a * sem b) :
    den sem (pre ++ m :: post) = den sem (pre ++ a :: b :: post) := by
  simp [den, h, mul_assoc]

end BqVerif.Circ
