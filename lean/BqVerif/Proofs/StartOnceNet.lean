import BqVerif.Proofs.StartOnce
/-! Network level of "every body starts at most once": the potential
    `TokU a n + freshA a n` never increases and every `start a` event decreases it. -/
namespace BqVerif.Runtime

def hTokU {σ} (a : Addr) (r : HOut σ) : Nat := tokOutU a r.direct + tokOutU a r.queued

theorem hTokU_le {σ} (a : Addr) (r : HOut σ) : hTokU a r ≤ hTok a r := by
  have h1 := tokOutU_le a r.direct
  have h2 := tokOutU_le a r.queued
  simp only [hTokU, hTok]; omega

theorem tokOutU_append (a : Addr) (o1 o2 : Out) : tokOutU a (o1 ++ o2) = tokOutU a o1 + tokOutU a o2 :=
  sumBy_append _ _ _

theorem result_tokU (a : Addr) (s : Server) (x : Addr) (v : Val) (by_ : Int) :
    hTokU a (s.result x v by_) = 0 := by
  have hz : ∀ cls why, hTokU a (s.systemError cls why) = 0 := by
    intro cls why
    have := hTokU_le a (s.systemError cls why)
    rw [hTok_syserr] at this; omega
  have hz' : ∀ (s' : Server) cls why, hTokU a (s'.systemError cls why) = 0 := by
    intro s' cls why
    have := hTokU_le a (s'.systemError cls why)
    rw [hTok_syserr] at this; omega
  unfold Server.result
  split
  · exact hz _ _
  · dsimp only
    split
    · split
      · simp [hTokU, tokOutU, sumBy]
      · split
        · exact hz' _ _ _
        · split
          · split
            · exact hz' _ _ _
            · split
              · exact hz' _ _ _
              · split
                · exact hz' _ _ _
                · simp [hTokU, tokOutU, sumBy, tokMsgU]
          · simp [hTokU, tokOutU, sumBy]
    · split
      · exact hz' _ _ _
      · split
        · exact hz' _ _ _
        · simp [hTokU, tokOutU, sumBy, tokMsgU]

theorem fromBelow_tokU (a : Addr) (s : Server) (ei : Nat) (m : Msg) (asg : List Nat) :
    hTokU a (s.fromBelow ei m asg) ≤ tokMsgU a m := by
  have hle := Nat.le_trans (hTokU_le a (s.fromBelow ei m asg)) (fromBelow_tok a s ei m asg)
  cases m with
  | result x v b => simp only [Server.fromBelow, tokMsgU]; rw [result_tokU]; exact Nat.le_refl _
  | submit t => simpa [tokMsg, tokMsgU] using hle
  | batch ts => simpa [tokMsg, tokMsgU] using hle
  | _ => simpa [tokMsg, tokMsgU] using hle

theorem handle_tokU (a : Addr) (s : Server) (src : NodeId) (m : Msg) (asg ord : List Nat) :
    hTokU a (s.handle src m asg ord)
      ≤ if isClient src then (if a = ⟨-1, s.counter, 0⟩ then 1 else 0) else tokMsgU a m := by
  by_cases hc : isClient src = true
  · simp only [hc, if_true]
    have := handle_tok a s src m asg ord
    simp only [hc, if_true] at this
    exact Nat.le_trans (hTokU_le a _) this
  · have hc' : isClient src = false := by simpa using hc
    simp only [hc', Bool.false_eq_true, if_false]
    unfold Server.handle
    split
    · simp [isClient] at hc'
    · split
      · simp [hTokU, tokOutU, sumBy]
      · exact fromBelow_tokU a s _ m asg

-- ---------------------------------------------------------------- channels
theorem tokChansU_chanSet (a : Addr) (cs : List ((NodeId × NodeId) × List Msg)) (k : NodeId × NodeId)
    (v : List Msg) :
    tokChansU a (chanSet cs k v) + tokMsgsU a (chanGet cs k) = tokChansU a cs + tokMsgsU a v := by
  induction cs with
  | nil => simp [chanSet, chanGet, tokChansU, sumBy, tokMsgsU]
  | cons c t ih =>
    obtain ⟨x, l⟩ := c
    by_cases h : x = k
    · simp only [chanSet, chanGet, h, if_true, tokChansU, sumBy]; omega
    · simp only [chanSet, chanGet, h, if_false, tokChansU, sumBy] at ih ⊢; omega

theorem TokU_post_le (a : Addr) (n : Net) (s d : NodeId) (m : Msg) :
    TokU a (n.post s d m) ≤ TokU a n + tokMsgU a m := by
  unfold Net.post
  split
  · have := tokChansU_chanSet a n.chans (s, d) (chanGet n.chans (s, d) ++ [m])
    simp only [TokU, tokMsgsU, sumBy_append, sumBy] at this ⊢
    omega
  · exact Nat.le_add_right _ _

theorem TokU_postAll_le (a : Addr) (n : Net) (s : NodeId) (o : Out) :
    TokU a (n.postAll s o) ≤ TokU a n + tokOutU a o := by
  unfold Net.postAll
  induction o generalizing n with
  | nil => simp [tokOutU, sumBy]
  | cons dm t ih =>
    simp only [List.foldl_cons, tokOutU, sumBy]
    have h1 := ih (n.post s dm.1 dm.2)
    have h2 := TokU_post_le a n s dm.1 dm.2
    simp only [tokOutU] at h1
    omega

theorem TokU_pop (a : Addr) (n : Net) (k : NodeId × NodeId) (m : Msg) (rest : List Msg)
    (h : chanGet n.chans k = m :: rest) :
    TokU a { n with chans := chanSet n.chans k rest } + tokMsgU a m = TokU a n := by
  have := tokChansU_chanSet a n.chans k rest
  rw [h] at this
  simp only [TokU, tokMsgsU, sumBy] at this ⊢
  omega

theorem tokOutU_map_boss (a : Addr) (boss : NodeId) (out : List Msg) :
    tokOutU a (out.map (fun m => (boss, m))) = tokMsgsU a out := by
  simp only [tokOutU, tokMsgsU, sumBy_map]

theorem tokOutU_flush_le (a : Addr) (s : Server) (q : Out) : tokOutU a (flushServer s q) ≤ tokOutU a q := by
  unfold flushServer
  split
  · simp [tokOutU, sumBy]
  · exact sumBy_filter_le _ _ _

-- --------------------------------------------------------------- potential
/-- 1 iff the address has not been created yet (its mailbox index is at or above the counter of
    the node that would create it) -/
def freshA (a : Addr) (n : Net) : Nat :=
  if (a.w = -1 ∧ n.server.counter ≤ a.m)
      ∨ (n.workers.any (fun w => w.id == a.w && decide (w.counter ≤ a.m))) = true then 1 else 0

def Psi (a : Addr) (n : Net) : Nat := TokU a n + freshA a n

theorem freshA_le_one (a : Addr) (n : Net) : freshA a n ≤ 1 := by
  simp only [freshA]; split <;> omega

/-- generic step: same hypotheses as `GInv.step`, plus the bound on unstarted tokens -/
theorem Psi_step {n n' : Net} (a : Addr) (starts : Nat)
    (hctrW : ∀ w' ∈ n'.workers, ∃ w ∈ n.workers, w.id = w'.id ∧ w.counter ≤ w'.counter)
    (hctrS : n.server.counter ≤ n'.server.counter)
    (δ : Nat) (htok : TokU a n' + starts ≤ TokU a n + δ) (hδ1 : δ ≤ 1)
    (hδ : 0 < δ → freshA a n = 1 ∧ (a.w = -1 → a.m < n'.server.counter)
      ∧ (∀ w' ∈ n'.workers, a.w = w'.id → a.m < w'.counter)) :
    Psi a n' + starts ≤ Psi a n := by
  have hmono : freshA a n' ≤ freshA a n := by
    simp only [freshA]
    split
    · rename_i h'
      have hgoal : (a.w = -1 ∧ n.server.counter ≤ a.m)
          ∨ (n.workers.any (fun w => w.id == a.w && decide (w.counter ≤ a.m))) = true := by
        rcases h' with ⟨h1, h2⟩ | h2
        · exact Or.inl ⟨h1, by omega⟩
        · right
          simp only [List.any_eq_true, Bool.and_eq_true, beq_iff_eq, decide_eq_true_eq] at h2 ⊢
          obtain ⟨w', hw', e, hc⟩ := h2
          obtain ⟨w, hw, e2, hc2⟩ := hctrW w' hw'
          exact ⟨w, hw, by rw [e2]; exact e, by omega⟩
      rw [if_pos hgoal]
      exact Nat.le_refl _
    · exact Nat.zero_le _
  by_cases hd : 0 < δ
  · obtain ⟨f1, f2, f3⟩ := hδ hd
    have f0 : freshA a n' = 0 := by
      simp only [freshA]
      rw [if_neg]
      intro h'
      rcases h' with ⟨h1, h2⟩ | h2
      · have := f2 h1; omega
      · simp only [List.any_eq_true, Bool.and_eq_true, beq_iff_eq, decide_eq_true_eq] at h2
        obtain ⟨w', hw', e, hc⟩ := h2
        have := f3 w' hw' e.symm
        omega
    simp only [Psi]; omega
  · simp only [Psi]; omega


theorem le_sumBy_of_mem {α} (f : α → Nat) (l : List α) (x : α) (h : x ∈ l) : f x ≤ sumBy f l := by
  induction l with
  | nil => simp at h
  | cons y ys ih =>
    simp only [sumBy]
    rcases List.mem_cons.mp h with rfl | h'
    · omega
    · have := ih h'; omega

theorem GInv.worker_nodup {n : Net} (h : GInv n) (w : Worker) (hw : w ∈ n.workers) (b : Addr) :
    cntA b w.tasks + cntA b w.delayed ≤ 1 := by
  have h1 := le_sumBy_of_mem (tokW b) n.workers w hw
  have h2 := h.uniq b
  simp only [Tok, tokW] at h1 h2
  omega

theorem TokU_setWorker_post (a : Addr) (n : Net) (w w' : Worker) (src : NodeId) (o : Out)
    (hn : (n.workers.map (·.id)).Nodup) (hw : w ∈ n.workers) (hid : w'.id = w.id) :
    TokU a (({ n with workers := setWorker n.workers w' } : Net).postAll src o) + tokWU a w
      ≤ TokU a n + tokWU a w' + tokOutU a o := by
  have h1 := TokU_postAll_le a ({ n with workers := setWorker n.workers w' } : Net) src o
  have h2 := sumBy_setWorker (tokWU a) n.workers w w' hn hw hid
  simp only [TokU] at h1 ⊢
  omega

theorem TokU_setWorker (a : Addr) (n : Net) (w w' : Worker)
    (hn : (n.workers.map (·.id)).Nodup) (hw : w ∈ n.workers) (hid : w'.id = w.id) :
    TokU a ({ n with workers := setWorker n.workers w' } : Net) + tokWU a w = TokU a n + tokWU a w' := by
  have h2 := sumBy_setWorker (tokWU a) n.workers w w' hn hw hid
  simp only [TokU]
  omega

theorem TokU_workerStep_le (a : Addr) (n : Net) (w w' : Worker) (out : List Msg) (boss src : NodeId)
    (hn : (n.workers.map (·.id)).Nodup) (hw : w ∈ n.workers) (hid : w'.id = w.id) :
    TokU a (({ n with workers := setWorker n.workers w' } : Net).postAll src
        (out.map (fun m => (boss, m)))) + tokWU a w
      ≤ TokU a n + tokWU a w' + tokMsgsU a out := by
  have := TokU_setWorker_post a n w w' src (out.map (fun m => (boss, m))) hn hw hid
  rw [tokOutU_map_boss] at this
  exact this

theorem Psi_of_le {n n' : Net} (a : Addr)
    (hctrW : ∀ w' ∈ n'.workers, ∃ w ∈ n.workers, w.id = w'.id ∧ w.counter ≤ w'.counter)
    (hctrS : n.server.counter ≤ n'.server.counter) (htok : TokU a n' ≤ TokU a n) :
    Psi a n' + 0 ≤ Psi a n :=
  Psi_step a 0 hctrW hctrS 0 (by omega) (by omega) (fun h => absurd h (Nat.lt_irrefl 0))

theorem Psi_workerStep {n : Net} (h : GInv n) (id : Int) (a : Addr) :
    Psi a (n.workerStep id).net + startsOf a (n.workerStep id).evs ≤ Psi a n := by
  unfold Net.workerStep
  split
  · simp [startsOf, sumBy]
  · rename_i w hf
    obtain ⟨hw, hwid⟩ := find_worker_mem _ _ _ hf
    split
    · simp [startsOf, sumBy]
    · dsimp only
      have hmono := step_mono n.tbl w
      have hid' : (if (w.step n.tbl).w.mainDead then { (w.step n.tbl).w with alive := false }
          else (w.step n.tbl).w).id = w.id := by split <;> simp [hmono.id]
      refine Psi_step a _ ?_ ?_ (ind a w (w.step n.tbl).w) ?_ ?_ ?_
      · intro w'' hw''
        rw [(postAll_fields _ _ _).1] at hw''
        rcases mem_setWorker _ _ _ hw'' with rfl | ⟨hm, _⟩
        · refine ⟨w, hw, hid'.symm, ?_⟩
          split <;> exact hmono.ctr
        · exact ⟨w'', hm, rfl, Nat.le_refl _⟩
      · rw [(postAll_fields _ _ _).2.1]; exact Nat.le_refl _
      · have hst := step_U a n.tbl w (h.worker_nodup w hw)
        have e : tokWU a (if (w.step n.tbl).w.mainDead then { (w.step n.tbl).w with alive := false }
            else (w.step n.tbl).w) = tokWU a (w.step n.tbl).w := by split <;> rfl
        have key : ∀ X : Nat,
            X + tokWU a w ≤ TokU a n + tokWU a (if (w.step n.tbl).w.mainDead
                then { (w.step n.tbl).w with alive := false } else (w.step n.tbl).w)
              + tokMsgsU a (w.step n.tbl).out →
            X + startsOf a (w.step n.tbl).evs ≤ TokU a n + ind a w (w.step n.tbl).w := by
          intro X hX
          rw [e] at hX
          omega
        refine key _ ?_
        exact TokU_workerStep_le a n w _ _ _ _ h.ids hw hid'
      · simp only [ind]; split <;> omega
      · intro ha
        simp only [ind] at ha
        split at ha
        · rename_i hc
          obtain ⟨h1, h2, h3⟩ := hc
          refine ⟨?_, ?_, ?_⟩
          · simp only [freshA]
            rw [if_pos]
            right
            simp only [List.any_eq_true, Bool.and_eq_true, beq_iff_eq, decide_eq_true_eq]
            exact ⟨w, hw, h1.symm, h2⟩
          · intro hneg
            have := h.pos w hw
            omega
          · intro w'' hw'' haw
            rw [(postAll_fields _ _ _).1] at hw''
            rcases mem_setWorker _ _ _ hw'' with rfl | ⟨_, hne⟩
            · split <;> exact h3
            · exfalso
              apply hne
              rw [← haw, h1, hid']
        · omega


theorem Psi_clientSend {n : Net} (j : Nat) (m : Option Msg) (dies : Bool) (a : Addr)
    (hwf : ∀ msg, m = some msg → ∀ a, tokMsg a msg = 0) :
    Psi a (n.clientSend j m dies).net + startsOf a (n.clientSend j m dies).evs ≤ Psi a n := by
  have hev : startsOf a (n.clientSend j m dies).evs = 0 := rfl
  rw [hev]
  cases m with
  | none =>
    simp only [Net.clientSend]
    split
    · exact Psi_of_le a (same_workers_ctr _) (Nat.le_refl _) (Nat.le_refl _)
    · exact Nat.le_refl _
  | some msg =>
    have base : Psi a (n.post (.client j) .server msg) + 0 ≤ Psi a n := by
      apply Psi_of_le
      · rw [(post_fields _ _ _ _).1]; exact same_workers_ctr _
      · rw [(post_fields _ _ _ _).2.1]; exact Nat.le_refl _
      · have := TokU_post_le a n (.client j) .server msg
        have h0 := tokMsgU_le a msg
        rw [hwf msg rfl a] at h0
        omega
    simp only [Net.clientSend]
    split
    · exact Nat.le_trans (Psi_of_le a (same_workers_ctr _) (Nat.le_refl _) (Nat.le_refl _)) base
    · exact base

theorem Psi_deliver {n : Net} (h : GInv n) (src dst : NodeId) (asg ord : List Nat) (died : Bool)
    (a : Addr) :
    Psi a (n.deliver src dst asg ord died).net + startsOf a (n.deliver src dst asg ord died).evs
      ≤ Psi a n := by
  have hev : startsOf a (n.deliver src dst asg ord died).evs = 0 := by
    unfold Net.deliver
    split
    · rfl
    · dsimp only
      split
      · split
        · rfl
        · split <;> rfl
      · split
        · rfl
        · split <;> rfl
      · split <;> rfl
      · split
        · rfl
        · split <;> rfl
  rw [hev]
  cases hk : chanGet n.chans (src, dst) with
  | nil => simp only [Net.deliver, hk]; exact Nat.le_refl _
  | cons m rest =>
    have hpop := TokU_pop a n (src, dst) m rest hk
    have h0 : Psi a ({ n with chans := chanSet n.chans (src, dst) rest } : Net) + 0 ≤ Psi a n :=
      Psi_of_le a (same_workers_ctr _) (Nat.le_refl _) (by omega)
    have g0 := h.pop (src, dst) m rest hk
    cases dst with
    | wrk id =>
      simp only [Net.deliver, hk]
      split
      · exact h0
      · rename_i w hf
        obtain ⟨hw, hwid⟩ := find_worker_mem _ _ _ hf
        split
        · exact h0
        · have hmono := recv_mono w m
          apply Psi_of_le
          · intro w'' hw''
            rcases mem_setWorker _ _ _ hw'' with rfl | ⟨hm, _⟩
            · exact ⟨w, hw, hmono.id.symm, hmono.ctr⟩
            · exact ⟨w'', hm, rfl, Nat.le_refl _⟩
          · exact Nat.le_refl _
          · have h1 := TokU_setWorker a { n with chans := chanSet n.chans (src, .wrk id) rest } w (w.recv m)
              g0.ids hw hmono.id
            have h2 := tokWU_recv_le a w m
            have e : ({ ({ n with chans := chanSet n.chans (src, .wrk id) rest } : Net) with
                workers := setWorker ({ n with chans := chanSet n.chans (src, .wrk id) rest } : Net).workers
                  (w.recv m) } : Net)
                = { n with chans := chanSet n.chans (src, .wrk id) rest,
                           workers := setWorker n.workers (w.recv m) } := rfl
            rw [e] at h1
            dsimp only
            omega
    | client j =>
      simp only [Net.deliver, hk]
      split
      · exact h0
      · split
        · refine Nat.le_trans ?_ h0
          apply Psi_of_le
          · rw [(post_fields _ _ _ _).1]; exact same_workers_ctr _
          · rw [(post_fields _ _ _ _).2.1]; exact Nat.le_refl _
          · have := TokU_post_le a ({ ({ n with chans := chanSet n.chans (src, .client j) rest } : Net) with
              deadClients := n.deadClients ++ [j] } : Net) (.client j) .server .eof
            simp only [tokMsgU, Nat.add_zero] at this
            exact Nat.le_trans this (Nat.le_of_eq rfl)
        · exact h0
    | mgr i =>
      have : n.mgrs[i]? = none := by rw [h.flat]; rfl
      simp only [Net.deliver, hk, this]
      exact h0
    | server =>
      simp only [Net.deliver, hk]
      split
      · exact h0
      · have htok := handle_tokU a n.server src m asg ord
        have htokF := handle_tok a n.server src m asg ord
        have hctr := handle_counter n.server src m asg ord
        refine Psi_step a 0 ?_ ?_
          (if isClient src then hTokU a (n.server.handle src m asg ord) else 0) ?_ ?_ ?_
        · rw [(postAll_fields _ _ _).1]; exact same_workers_ctr _
        · rw [(postAll_fields _ _ _).2.1]; exact hctr.1
        · have final : TokU a (({ ({ n with chans := chanSet n.chans (src, .server) rest } : Net) with server := (n.server.handle src m asg ord).st } : Net).postAll .server ((n.server.handle src m asg ord).direct ++ flushServer (n.server.handle src m asg ord).st (n.server.handle src m asg ord).queued)) + 0
              ≤ TokU a n + (if isClient src then hTokU a (n.server.handle src m asg ord) else 0) := by
            have h1 := TokU_postAll_le a ({ ({ n with chans := chanSet n.chans (src, .server) rest } : Net) with server := (n.server.handle src m asg ord).st } : Net) .server ((n.server.handle src m asg ord).direct ++ flushServer (n.server.handle src m asg ord).st (n.server.handle src m asg ord).queued)
            have e : TokU a ({ ({ n with chans := chanSet n.chans (src, .server) rest } : Net) with server := (n.server.handle src m asg ord).st } : Net) = TokU a ({ n with chans := chanSet n.chans (src, .server) rest } : Net) := rfl
            have h2 := tokOutU_flush_le a (n.server.handle src m asg ord).st (n.server.handle src m asg ord).queued
            rw [tokOutU_append, e] at h1
            have hh : hTokU a (n.server.handle src m asg ord)
                = tokOutU a (n.server.handle src m asg ord).direct
                  + tokOutU a (n.server.handle src m asg ord).queued := rfl
            by_cases hc : isClient src = true
            · simp only [hc, if_true] at htok ⊢
              dsimp only at h1 ⊢
              omega
            · have hc' : isClient src = false := by simpa using hc
              simp only [hc', Bool.false_eq_true, if_false, Nat.add_zero] at htok ⊢
              dsimp only at h1 ⊢
              omega
          exact final
        · split
          · rename_i hc
            simp only [hc, if_true] at htok
            refine Nat.le_trans htok ?_
            split <;> omega
          · exact Nat.zero_le _
        · intro ha
          split at ha
          · rename_i hc
            simp only [hc, if_true] at htok htokF
            have ha' : a = ⟨-1, n.server.counter, 0⟩ := by
              by_cases e : a = ⟨-1, n.server.counter, 0⟩
              · exact e
              · simp only [e, if_false] at htok; omega
            have hF : 0 < hTok a (n.server.handle src m asg ord) :=
              Nat.lt_of_lt_of_le ha (hTokU_le a _)
            refine ⟨?_, ?_, ?_⟩
            · simp only [freshA]
              rw [if_pos]
              left
              rw [ha']
              exact ⟨rfl, Nat.le_refl _⟩
            · intro _
              rw [(postAll_fields _ _ _).2.1]
              have := hctr.2 a hc hF
              rw [ha']
              exact this
            · intro w' hw' haw
              rw [(postAll_fields _ _ _).1] at hw'
              have := h.pos w' hw'
              rw [ha'] at haw
              simp at haw
              omega
          · omega

theorem Psi_apply {n : Net} (h : GInv n) (t : Tr) (hwf : t.wf) (a : Addr) :
    Psi a (n.apply t).net + startsOf a (n.apply t).evs ≤ Psi a n := by
  cases t with
  | deliver s d asg ord died => exact Psi_deliver h s d asg ord died a
  | step id => exact Psi_workerStep h id a
  | client j m dies =>
    apply Psi_clientSend j m dies a
    intro msg hm b
    subst hm
    exact hwf b

/-- all body events of a run, in order -/
def Net.execEvs (n : Net) : List Tr → List Ev
  | [] => []
  | t :: ts => (n.apply t).evs ++ Net.execEvs (n.apply t).net ts

theorem Psi_exec {n : Net} (h : GInv n) (trs : List Tr) (hwf : ∀ t ∈ trs, t.wf) (a : Addr) :
    Psi a (n.exec trs) + startsOf a (n.execEvs trs) ≤ Psi a n := by
  induction trs generalizing n with
  | nil => simp [Net.exec, Net.execEvs, startsOf, sumBy]
  | cons t ts ih =>
    have h1 := Psi_apply h t (hwf t List.mem_cons_self) a
    have h2 := ih (h.apply t (hwf t List.mem_cons_self)) (fun t' ht' => hwf t' (List.mem_cons_of_mem _ ht'))
    simp only [Net.exec, List.foldl_cons, Net.execEvs, startsOf_append] at h2 ⊢
    omega

theorem TokU_init (a : Addr) (tbl : Table) (att : Bool) (nw nc : Nat) :
    TokU a (Net.initFlat tbl att nw nc) = 0 := by
  simp only [TokU, Net.initFlat, tokChansU, sumBy, Nat.zero_add]
  apply sumBy_zero
  intro w hw
  simp only [mkWorkers, List.mem_map] at hw
  obtain ⟨i, _, rfl⟩ := hw
  simp [tokWU, cntA, cntU, sumBy]

/-- **every task body is started at most once**, in every run of the flat network -/
theorem starts_at_most_once (tbl : Table) (att : Bool) (nw nc : Nat) (trs : List Tr)
    (hwf : ∀ t ∈ trs, t.wf) (a : Addr) :
    startsOf a ((Net.initFlat tbl att nw nc).execEvs trs) ≤ 1 := by
  have h := Psi_exec (GInv.init tbl att nw nc) trs hwf a
  have h1 := freshA_le_one a (Net.initFlat tbl att nw nc)
  simp only [Psi, TokU_init] at h
  omega

end BqVerif.Runtime
