/- Every regenerated workflow tree passes `allCheck` (assembled from the kernel-evaluated parts). -/
import BqVerif.Proofs.PipelineChk0
import BqVerif.Proofs.PipelineChk1
import BqVerif.Proofs.PipelineChk2
import BqVerif.Proofs.PipelineChk3
import BqVerif.Proofs.PipelineChk4

namespace BqVerif.Pipeline
open BqVerif.Generated.Workflows

theorem workflows_all_ok : workflows.all allCheck = true := by
  simp only [workflows, circuitWFs, List.all_append, chk_circuit0, chk_circuit1, chk_circuit2,
    chk_circuit3, chk_unitary, chk_state, chk_system, Bool.and_self]

theorem workflows_ok (w : WF) (hw : w ∈ workflows) : allCheck w = true :=
  List.all_eq_true.mp workflows_all_ok w hw

theorem allCheck_c02 {w : WF} (h : allCheck w = true) : c02Check w = true := by
  simp only [allCheck, Bool.and_eq_true] at h; exact h.1.1.1.1

theorem allCheck_structural {w : WF} (h : allCheck w = true) : structural w.final = true := by
  simp only [allCheck, Bool.and_eq_true] at h; exact h.1.1.1.2

theorem allCheck_c01 {w : WF} (h : allCheck w = true) : c01Check w = true := by
  simp only [allCheck, Bool.and_eq_true] at h; exact h.1.1.2

theorem allCheck_c03 {w : WF} (h : allCheck w = true) : c03Check w = true := by
  simp only [allCheck, Bool.and_eq_true] at h; exact h.1.2

theorem allCheck_noRaise {w : WF} (h : allCheck w = true) : noRaise w = true := by
  simp only [allCheck, Bool.and_eq_true] at h; exact h.2

end BqVerif.Pipeline
