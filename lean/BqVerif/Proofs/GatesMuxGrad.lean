import BqVerif.Proofs.GatesBase
/-! First-order (dual-number) gradient identities for the gates with a variable number of
parameters: displacing parameter `k` of the list changes the unitary by `ε • grad_k`. -/
namespace BqVerif.Gates
open Matrix
set_option linter.unusedSectionVars false
set_option linter.unusedVariables false

variable {R : Type} [CommRing R]

theorem getD_set_self (ps : List (Ang R)) (k : Nat) (a : Ang R) (hk : k < ps.length) :
    (ps.set k a).getD k Ang.zero = a := by
  simp [List.getD_eq_getElem?_getD, List.getElem?_set, hk]

theorem getD_set_ne (ps : List (Ang R)) (k i : Nat) (a : Ang R) (h : k ≠ i) :
    (ps.set k a).getD i Ang.zero = ps.getD i Ang.zero := by
  simp [List.getD_eq_getElem?_getD, List.getElem?_set, h]

theorem getElem_set_self (ps : List (Ang R)) (k : Nat) (a : Ang R) (hk : k < ps.length) :
    (ps.set k a)[k]?.getD Ang.zero = a := by
  simp [List.getElem?_set, hk]

theorem getElem_set_ne (ps : List (Ang R)) (k i : Nat) (a : Ang R) (h : k ≠ i) :
    (ps.set k a)[i]?.getD Ang.zero = ps[i]?.getD Ang.zero := by
  simp [List.getElem?_set, h]

theorem e_shift (K : Consts R) (a : Ang R) (k ε : R) :
    (a.shift k ε).e K = a.e K + ε * (k * a.de K) := by
  simp [Ang.shift, Ang.e, Ang.de]; ring

theorem en_shift (K : Consts R) (a : Ang R) (k ε : R) :
    (a.shift k ε).en K = a.en K + ε * (k * a.den K) := by
  simp [Ang.shift, Ang.en, Ang.den]; ring

/-- `DiagonalGate`: parameter `k` -/
theorem grad_diagGate (K : Consts R) (ps : List (Ang R)) (k : Nat) (hk : k < ps.length) (ε : R) :
    ∀ i j, diagGate K (ps.set k ((ps.getD k Ang.zero).shift 1 ε)) i j =
      diagGate K ps i j + ε * diagGate_g K ps k i j := by
  intro i j
  simp only [diagGate, diagGate_g, diag]
  by_cases hij : i = j
  · subst hij
    by_cases h0 : i = 0
    · subst h0; simp
    · by_cases hk' : k = i - 1
      · have : i = k + 1 := by omega
        subst this
        simp [getElem_set_self _ _ _ hk, e_shift]
      · have : ¬ i = k + 1 := by omega
        simp [h0, getElem_set_ne _ _ _ _ hk', this]
  · have : ¬ (i = k + 1 ∧ j = k + 1) := by omega
    simp [hij, this]

/-- `ArbitraryCPhaseGate` -/
theorem grad_acphase (K : Consts R) (D : Nat) (t : Ang R) (ε : R) :
    ∀ i j, acphase K D (t.shift 1 ε) i j = acphase K D t i j + ε * acphase_g K D t i j := by
  intro i j
  simp only [acphase, acphase_g, diag]
  by_cases hij : i = j
  · subst hij
    by_cases h : i + 1 = D <;> simp [h, e_shift]
  · have : ¬ (i + 1 = D ∧ j + 1 = D) := by omega
    simp [hij, this]

theorem ry_shift (K : Consts R) (t : Ang R) (ε : R) :
    ∀ i j, ry (t.shift K.h ε) i j = ry t i j + ε * ry_g0 K t i j := by
  intro i j
  rcases i with _ | _ | i <;> rcases j with _ | _ | j <;> simp [ry, ry_g0, Ang.shift] <;> ring

theorem rz_shift (K : Consts R) (t : Ang R) (ε : R) :
    ∀ i j, rz K (t.shift K.h ε) i j = rz K t i j + ε * rz_g0 K t i j := by
  intro i j
  rcases i with _ | _ | i <;> rcases j with _ | _ | j <;>
    simp [rz, rz_g0, e_shift, en_shift]

/-- `MPRYGate`: parameter `k` (half-angle rate) -/
theorem grad_mpry (K : Consts R) (n t : Nat) (ps : List (Ang R)) (k : Nat) (hk : k < ps.length)
    (ε : R) :
    ∀ r c, mpry n t (ps.set k ((ps.getD k Ang.zero).shift K.h ε)) r c =
      mpry n t ps r c + ε * mpry_g K n t ps k r c := by
  intro r c
  simp only [mpry, mpry_g]
  by_cases hs : sel (pow2 (n - t - 1)) r = sel (pow2 (n - t - 1)) c
  · by_cases hk' : k = sel (pow2 (n - t - 1)) r
    · have hc : sel (pow2 (n - t - 1)) c = k := by rw [← hs, hk']
      simp only [hs, if_true, hc, and_self]
      rw [getD_set_self _ _ _ hk, ry_shift]
    · have h2 : ¬ sel (pow2 (n - t - 1)) c = k := by rw [← hs]; exact fun h => hk' h.symm
      simp only [hs, if_true, h2, and_self, if_false, mul_zero, add_zero]
      rw [← hs, getD_set_ne _ _ _ _ hk']
  · have : ¬ (sel (pow2 (n - t - 1)) r = k ∧ sel (pow2 (n - t - 1)) c = k) := by
      intro h; exact hs (h.1.trans h.2.symm)
    simp [hs, this]

/-- `MPRZGate`: parameter `k` -/
theorem grad_mprz (K : Consts R) (n t : Nat) (ps : List (Ang R)) (k : Nat) (hk : k < ps.length)
    (ε : R) :
    ∀ r c, mprz K n t (ps.set k ((ps.getD k Ang.zero).shift K.h ε)) r c =
      mprz K n t ps r c + ε * mprz_g K n t ps k r c := by
  intro r c
  simp only [mprz, mprz_g]
  by_cases hs : sel (pow2 (n - t - 1)) r = sel (pow2 (n - t - 1)) c
  · by_cases hk' : k = sel (pow2 (n - t - 1)) r
    · have hc : sel (pow2 (n - t - 1)) c = k := by rw [← hs, hk']
      simp only [hs, if_true, hc, and_self]
      rw [getD_set_self _ _ _ hk, rz_shift]
    · have h2 : ¬ sel (pow2 (n - t - 1)) c = k := by rw [← hs]; exact fun h => hk' h.symm
      simp only [hs, if_true, h2, and_self, if_false, mul_zero, add_zero]
      rw [← hs, getD_set_ne _ _ _ _ hk']
  · have : ¬ (sel (pow2 (n - t - 1)) r = k ∧ sel (pow2 (n - t - 1)) c = k) := by
      intro h; exact hs (h.1.trans h.2.symm)
    simp [hs, this]

/-- `RSU3Gate(index)`, `index ≤ 6` -/
theorem grad_rsu3 (K : Consts R) (index : Nat) (t : Ang R) (ε : R) :
    toM 3 (rsu3 K index (t.shift 1 ε)) = toM 3 (rsu3 K index t) + ε • toM 3 (rsu3_g K index t) := by
  rcases index with _ | _ | _ | _ | _ | _ | _ | index <;>
  (ext i j
   fin_cases i <;> fin_cases j <;>
     simp [toM, rsu3, rsu3_g, Ang.shift, Ang.e, Ang.en, Ang.de, Ang.den, Gates.eye, zeroM,
       Matrix.add_apply, Matrix.smul_apply] <;> ring)

end BqVerif.Gates
