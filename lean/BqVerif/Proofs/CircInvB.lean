import BqVerif.Proofs.CircInv
/-! The executable invariant check `invB` (what the driver prints and the relational
validators use) decides the propositional invariant `Inv`. -/
namespace BqVerif.Circ

theorem disjointL_iff (a b : List Nat) : disjointL a b = true ↔ ∀ q ∈ a, q ∉ b := by
  simp [disjointL]

theorem nodupL_iff (l : List Nat) : nodupL l = true ↔ l.Nodup := by
  induction l with
  | nil => simp [nodupL]
  | cons a t ih => simp [nodupL, ih, List.nodup_cons]

theorem pairwiseDisj_iff (l : List Op) : pairwiseDisj l = true ↔ l.Pairwise Indep := by
  induction l with
  | nil => simp [pairwiseDisj]
  | cons a t ih =>
    simp only [pairwiseDisj, Bool.and_eq_true, List.all_eq_true, ih, List.pairwise_cons,
      disjointL_iff]
    rfl

theorem wfB_iff (n : Nat) (rad : List Nat) (o : Op) : o.wfB n rad = true ↔ o.WF n rad := by
  simp only [Op.wfB, Op.WF, Bool.and_eq_true, nodupL_iff, List.all_eq_true, decide_eq_true_eq,
    beq_iff_eq, Bool.not_eq_true', List.isEmpty_eq_false_iff]
  constructor
  · rintro ⟨⟨⟨h1, h2⟩, h3⟩, h4⟩; exact ⟨h1, h2, h3, h4⟩
  · rintro ⟨h1, h2, h3, h4⟩; exact ⟨⟨⟨h1, h2⟩, h3⟩, h4⟩

theorem invB_iff (c : Circ) : c.invB = true ↔ c.Inv := by
  rw [inv_iff]
  simp only [Circ.invB, List.all_eq_true, Bool.and_eq_true, pairwiseDisj_iff, CycleOk,
    Bool.not_eq_true', List.isEmpty_eq_false_iff]
  constructor
  · intro h cy hcy
    obtain ⟨⟨h1, h2⟩, h3⟩ := h cy hcy
    exact ⟨h1, h2, fun o ho => (wfB_iff _ _ _).1 (h3 o ho)⟩
  · intro h cy hcy
    obtain ⟨h1, h2, h3⟩ := h cy hcy
    exact ⟨⟨h1, h2⟩, fun o ho => (wfB_iff _ _ _).2 (h3 o ho)⟩

end BqVerif.Circ
