import BqVerif.Proofs.CircInv2
/-! `Inv` for the circuit-level calls and for every history. -/
namespace BqVerif.Circ

theorem mem_insertBy (key : Op → Nat) (x y : Op) (l : List Op) :
    y ∈ insertBy key x l ↔ y = x ∨ y ∈ l := by
  induction l with
  | nil => simp [insertBy]
  | cons a t ih =>
    simp only [insertBy]
    split
    · simp
    · simp only [List.mem_cons, ih]
      constructor
      · rintro (h | h | h) <;> simp [h]
      · rintro (h | h | h) <;> simp [h]

theorem mem_sortBy (key : Op → Nat) (y : Op) (l : List Op) : y ∈ sortBy key l ↔ y ∈ l := by
  induction l with
  | nil => simp [sortBy]
  | cons a t ih =>
    have : sortBy key (a :: t) = insertBy key a (sortBy key t) := rfl
    rw [this, mem_insertBy, ih]; simp

theorem mem_iter (c : Circ) (o : Op) : o ∈ c.iter ↔ o ∈ c.ops := by
  simp only [Circ.iter, Circ.ops, List.mem_flatMap, List.mem_flatten]
  constructor
  · rintro ⟨cy, hcy, h⟩; exact ⟨cy, hcy, (mem_sortBy _ _ _).1 h⟩
  · rintro ⟨cy, hcy, h⟩; exact ⟨cy, hcy, (mem_sortBy _ _ _).2 h⟩

theorem mem_iterRev (c : Circ) (o : Op) : o ∈ c.iterRev ↔ o ∈ c.ops := by
  simp only [Circ.iterRev, Circ.ops, List.mem_flatMap, List.mem_flatten, List.mem_reverse]
  constructor
  · rintro ⟨cy, hcy, h⟩; exact ⟨cy, hcy, (mem_sortBy _ _ _).1 h⟩
  · rintro ⟨cy, hcy, h⟩; exact ⟨cy, hcy, (mem_sortBy _ _ _).2 h⟩

theorem append_radixes (c : Circ) (o : Op) : (c.append o).1.radixes = c.radixes := by
  unfold Circ.append
  split
  · rfl
  · exact appendCore_radixes _ _

/-- a fold of `append`s of shaped ops keeps `Inv` -/
theorem append_fold_inv (l : List Op) (hl : ∀ o ∈ l, o.Shape) (c : Circ) (r : Except Err Unit)
    (hinv : c.Inv) :
    (l.foldl (fun (acc : Circ × Except Err Unit) o =>
      match acc.2 with
      | .error _ => acc
      | .ok () =>
        let (c', r) := acc.1.append o
        (c', r.map (fun _ => ()))) (c, r)).1.Inv := by
  induction l generalizing c r with
  | nil => simpa using hinv
  | cons a t ih =>
    simp only [List.foldl_cons]
    cases r with
    | error e =>
      exact ih (fun o ho => hl o (by simp [ho])) c _ hinv
    | ok u =>
      cases u
      have := append_inv c a hinv (hl a (by simp))
      cases hp : c.append a with
      | mk c' r' =>
        rw [hp] at this
        exact ih (fun o ho => hl o (by simp [ho])) c' _ this

theorem insert_fold_inv (ci : Int) (l : List Op) (hl : ∀ o ∈ l, o.Shape) (c : Circ)
    (r : Except Err Unit) (hinv : c.Inv) :
    (l.foldl (fun (acc : Circ × Except Err Unit) o =>
      match acc.2 with
      | .error _ => acc
      | .ok () => acc.1.insert ci o) (c, r)).1.Inv := by
  induction l generalizing c r with
  | nil => simpa using hinv
  | cons a t ih =>
    simp only [List.foldl_cons]
    cases r with
    | error e => exact ih (fun o ho => hl o (by simp [ho])) c _ hinv
    | ok u =>
      cases u
      have := insert_inv c ci a hinv (hl a (by simp))
      cases hp : c.insert ci a with
      | mk c' r' =>
        rw [hp] at this
        exact ih (fun o ho => hl o (by simp [ho])) c' _ this

theorem appendCircuit_inv (c sub : Circ) (loc : List Nat) (hinv : c.Inv)
    (hs : ∀ o ∈ sub.ops, (o.mapLoc loc).Shape) : (c.appendCircuit sub loc).1.Inv := by
  unfold Circ.appendCircuit
  split
  · exact hinv
  · have := append_fold_inv (sub.iter.map (·.mapLoc loc))
      (by
        intro o ho
        rw [List.mem_map] at ho
        obtain ⟨x, hx, rfl⟩ := ho
        exact hs x ((mem_iter _ _).1 hx)) c (.ok ()) hinv
    rw [List.foldl_map] at this
    exact this

theorem insertCircuit_inv (c sub : Circ) (ci : Int) (loc : List Nat) (hinv : c.Inv)
    (hs : ∀ o ∈ sub.ops, (o.mapLoc loc).Shape) : (c.insertCircuit ci sub loc).1.Inv := by
  unfold Circ.insertCircuit
  dsimp only
  generalize c.resolveCycle ci = ci
  split
  · exact hinv
  · split
    · exact appendCircuit_inv c sub loc hinv hs
    · have := insert_fold_inv ci (sub.iterRev.map (·.mapLoc loc))
        (by
          intro o ho
          rw [List.mem_map] at ho
          obtain ⟨x, hx, rfl⟩ := ho
          exact hs x ((mem_iterRev _ _).1 hx)) c (.ok ()) hinv
      rw [List.foldl_map] at this
      exact this

theorem compress_inv (c : Circ) (hinv : c.Inv) : c.compress.Inv := by
  unfold Circ.compress
  have key : ∀ (l : List Op) (acc : Circ), acc.radixes = c.radixes → acc.Inv →
      (∀ o ∈ l, o.WF c.numQudits c.radixes) →
      (l.foldl (fun acc o => (acc.appendCore o).1) acc).Inv := by
    intro l
    induction l with
    | nil => intro acc _ h _; simpa using h
    | cons a t ih =>
      intro acc hr h hl
      simp only [List.foldl_cons]
      apply ih
      · rw [appendCore_radixes]; exact hr
      · apply appendCore_inv _ _ h
        have := hl a (by simp)
        simpa [Circ.numQudits, hr] using this
      · intro o ho; exact hl o (by simp [ho])
  apply key
  · rfl
  · exact ⟨by simp, by simp, by simp⟩
  · intro o ho
    rw [mem_iter] at ho
    simp only [Circ.ops, List.mem_flatten] at ho
    obtain ⟨cy, hcy, ho⟩ := ho
    exact hinv.2.2 cy hcy o ho

theorem batchReplace_inv (c : Circ) (items : List ((Int × Int) × Op)) (hinv : c.Inv)
    (hs : ∀ it ∈ items, it.2.Shape ∧ it.2.RadOk c.radixes) : (c.batchReplace items).1.Inv := by
  unfold Circ.batchReplace
  split
  · exact hinv
  · dsimp only
    -- any list of (point, op) pairs with good ops, folded through `replace`
    have key : ∀ (l : List ((Int × Int) × Op)) (n0 : Int) (acc : Circ × Except Err Unit),
        acc.1.Inv → acc.1.radixes = c.radixes →
        (∀ it ∈ l, it.2.Shape ∧ it.2.RadOk c.radixes) →
        (l.foldl (fun (acc : Circ × Except Err Unit) item =>
          match acc.2 with
          | .error _ => acc
          | .ok () =>
            let shrink : Int := n0 - (acc.1.numCycles : Int)
            acc.1.replace (item.1.1 - shrink, item.1.2) item.2) acc).1.Inv := by
      intro l n0
      induction l with
      | nil => intro acc h _ _; simpa using h
      | cons a t ih =>
        intro acc h hr hl
        simp only [List.foldl_cons]
        obtain ⟨ac, ar⟩ := acc
        cases ar with
        | error e => exact ih _ h hr (fun it hit => hl it (by simp [hit]))
        | ok u =>
          cases u
          dsimp only at h hr ⊢
          have hgood := hl a (by simp)
          apply ih
          · exact replace_inv ac _ a.2 h hgood.1 (by rw [hr]; exact hgood.2)
          · rw [replace_radixes]; exact hr
          · intro it hit; exact hl it (by simp [hit])
    apply key _ _ (c, .ok ()) hinv rfl
    -- the sorted, normalised list has the same ops
    intro it hit
    have hperm : ∀ (l : List ((Int × Int) × Op)),
        ∀ x ∈ (l.foldr (fun x acc => Circ.batchReplace.ins x acc) []), x ∈ l := by
      intro l
      induction l with
      | nil => simp
      | cons a t ih =>
        intro x hx
        simp only [List.foldr_cons] at hx
        have hins : ∀ (acc : List ((Int × Int) × Op)) (z : (Int × Int) × Op),
            z ∈ Circ.batchReplace.ins a acc → z = a ∨ z ∈ acc := by
          intro acc
          induction acc with
          | nil => intro z hz; simp [Circ.batchReplace.ins] at hz; exact Or.inl hz
          | cons b u ihu =>
            intro z hz
            simp only [Circ.batchReplace.ins] at hz
            split at hz
            · simp only [List.mem_cons] at hz ⊢; exact hz
            · simp only [List.mem_cons] at hz ⊢
              rcases hz with h | h
              · exact Or.inr (Or.inl h)
              · rcases ihu z h with h | h
                · exact Or.inl h
                · exact Or.inr (Or.inr h)
        rcases hins _ x hx with h | h
        · simp [h]
        · exact List.mem_cons_of_mem _ (ih x h)
    have := hperm _ it hit
    rw [List.mem_map] at this
    obtain ⟨y, hy, rfl⟩ := this
    exact hs y hy

end BqVerif.Circ
