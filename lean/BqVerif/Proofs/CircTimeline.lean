import BqVerif.Proofs.CircInv2
/-! The documented effect of the core editing steps on every qudit's timeline (C04). -/
namespace BqVerif.Circ

theorem proj_append (q : Nat) (a b : List Op) : proj q (a ++ b) = proj q a ++ proj q b := by
  simp [proj]

theorem proj_flatten_nil (q : Nat) (l : List Cycle) (h : ∀ cy ∈ l, occ cy q = false) :
    proj q l.flatten = [] := by
  induction l with
  | nil => simp [proj]
  | cons a t ih =>
    simp only [List.flatten_cons, proj_append]
    have h1 : proj q a = [] := by
      have := h a (by simp)
      rw [occ_eq_false_iff] at this
      simp only [proj, List.filter_eq_nil_iff, Op.on]
      intro o ho; simpa using this o ho
    rw [h1, ih (fun cy hcy => h cy (by simp [hcy]))]; rfl

theorem proj_single (q : Nat) (o : Op) : proj q [o] = if o.on q then [o] else [] := by
  simp only [proj, List.filter_cons, List.filter_nil]

theorem flatten_modify (l : List Cycle) (k : Nat) (f : Cycle → Cycle) (h : k < l.length) :
    (l.modify k f).flatten = (l.take k).flatten ++ f l[k] ++ (l.drop (k + 1)).flatten := by
  induction l generalizing k with
  | nil => simp at h
  | cons a t ih =>
    cases k with
    | zero => simp
    | succ k =>
      simp only [List.modify_succ_cons, List.flatten_cons, List.take_succ_cons, List.drop_succ_cons,
        List.getElem_cons_succ]
      rw [ih k (by simpa using h)]
      simp [List.append_assoc]

theorem flatten_set (l : List Cycle) (k : Nat) (x : Cycle) (h : k < l.length) :
    (l.set k x).flatten = (l.take k).flatten ++ x ++ (l.drop (k + 1)).flatten := by
  induction l generalizing k with
  | nil => simp at h
  | cons a t ih =>
    cases k with
    | zero => simp
    | succ k =>
      simp only [List.set_cons_succ, List.flatten_cons, List.take_succ_cons, List.drop_succ_cons]
      rw [ih k (by simpa using h)]
      simp [List.append_assoc]

theorem flatten_insertIdx (l : List Cycle) (k : Nat) (x : Cycle) (h : k ≤ l.length) :
    (l.insertIdx k x).flatten = (l.take k).flatten ++ x ++ (l.drop k).flatten := by
  induction l generalizing k with
  | nil =>
    have : k = 0 := by simpa using h
    subst this; simp
  | cons a t ih =>
    cases k with
    | zero => simp
    | succ k =>
      simp only [List.insertIdx_succ_cons, List.flatten_cons, List.take_succ_cons,
        List.drop_succ_cons]
      rw [ih k (by simpa using h)]
      simp [List.append_assoc]

theorem flatten_split (l : List Cycle) (k : Nat) (h : k < l.length) :
    l.flatten = (l.take k).flatten ++ l[k] ++ (l.drop (k + 1)).flatten := by
  have := flatten_modify l k id h
  simpa using this

theorem drop_occ_false (c : Circ) (q k : Nat)
    (h : ∀ t, k ≤ t → occ (c.cycles.getD t []) q = false) :
    ∀ cy ∈ c.cycles.drop k, occ cy q = false := by
  intro cy hcy
  obtain ⟨i, hi, rfl⟩ := List.getElem_of_mem hcy
  rw [List.getElem_drop]
  have hlt : k + i < c.cycles.length := by
    simp only [List.length_drop] at hi; omega
  have := h (k + i) (by omega)
  rwa [getD_of_lt _ _ hlt] at this

/-- **append**: the operation goes to the end of the timeline of each of its qudits;
all other timelines are unchanged. -/
theorem appendCore_timeline (c : Circ) (o : Op) (q : Nat) :
    (c.appendCore o).1.timeline q = c.timeline q ++ (if o.on q then [o] else []) := by
  unfold Circ.appendCore Circ.timeline Circ.ops
  dsimp only
  split
  · simp only [List.flatten_append, List.flatten_cons, List.flatten_nil, List.append_nil,
      proj_append, proj_single]
  · rename_i hk
    have hle := findAvailable_le c o.loc
    have hlt : c.findAvailable o.loc < c.cycles.length := by
      have : c.findAvailable o.loc ≠ c.numCycles := by simpa using hk
      simp only [Circ.numCycles] at *
      omega
    rw [flatten_modify _ _ _ hlt, flatten_split c.cycles _ hlt]
    simp only [proj_append, proj_single]
    by_cases hq : o.on q = true
    · have hq' : q ∈ o.loc := by simpa [Op.on] using hq
      have hfree := findAvailable_free c o.loc q hq'
      have h1 : proj q (c.cycles.drop (c.findAvailable o.loc + 1)).flatten = [] :=
        proj_flatten_nil q _ (drop_occ_false c q _ (fun t ht => hfree t (by omega)))
      simp [h1, hq]
    · simp [hq]

/-- the cycle's unique op on `q0` can be split off -/
theorem cycle_split (cy : Cycle) (q0 : Nat) (o : Op) (hp : cy.Pairwise Indep)
    (hne : ∀ x ∈ cy, x.loc ≠ []) (hf : cy.find? (·.on q0) = some o) :
    ∃ A B, cy = A ++ o :: B ∧ cy.filter (fun x => !x.on q0) = A ++ B := by
  induction cy with
  | nil => simp at hf
  | cons a t ih =>
    rw [List.pairwise_cons] at hp
    by_cases ha : a.on q0 = true
    · have : a = o := by simpa [List.find?_cons, ha] using hf
      subst this
      refine ⟨[], t, rfl, ?_⟩
      simp only [List.filter_cons, ha, Bool.not_true, List.nil_append, Bool.false_eq_true,
        if_false]
      rw [List.filter_eq_self]
      intro x hx
      have hind := hp.1 x hx
      have hq : q0 ∈ a.loc := by simpa [Op.on] using ha
      have : q0 ∉ x.loc := hind q0 hq
      simpa [Op.on] using this
    · have hf' : t.find? (·.on q0) = some o := by simpa [List.find?_cons, ha] using hf
      obtain ⟨A, B, h1, h2⟩ := ih hp.2 (fun x hx => hne x (by simp [hx])) hf'
      refine ⟨a :: A, B, by simp [h1], ?_⟩
      simp only [List.filter_cons, ha]
      simp [h2]

/-- **pop / remove**: exactly that occurrence of the operation disappears; the relative
order of everything else is unchanged. -/
theorem removeAt_ops (c : Circ) (k q0 : Nat) (o : Op) (hinv : c.Inv) (hc : c.cell k q0 = some o) :
    ∃ pre post, c.ops = pre ++ o :: post ∧ (c.removeAt k q0).ops = pre ++ post := by
  obtain ⟨hlt, hmem, _⟩ := cell_mem c k q0 o hc
  have hf : c.cycles[k].find? (·.on q0) = some o := by
    unfold Circ.cell at hc; rwa [getD_of_lt _ _ hlt] at hc
  have hcyk := List.getElem_mem hlt
  obtain ⟨A, B, h1, h2⟩ := cycle_split c.cycles[k] q0 o (hinv.2.1 _ hcyk)
    (fun x hx => (hinv.2.2 _ hcyk x hx).1) hf
  refine ⟨(c.cycles.take k).flatten ++ A, B ++ (c.cycles.drop (k + 1)).flatten, ?_, ?_⟩
  · simp only [Circ.ops]
    rw [flatten_split c.cycles k hlt, h1]; simp [List.append_assoc]
  · unfold Circ.removeAt Circ.ops
    dsimp only
    rw [getD_of_lt _ _ hlt, h2]
    split
    · rename_i he
      have he' : A ++ B = [] := by simpa using he
      have hA : A = [] := (List.append_eq_nil_iff.mp he').1
      have hB : B = [] := (List.append_eq_nil_iff.mp he').2
      subst hA hB
      rw [List.eraseIdx_eq_take_drop_succ]
      simp
    · rw [flatten_set _ _ _ hlt]
      simp [List.append_assoc]

/-- **insert** at an in-range cycle `k`: on each of its qudits the operation sits after
everything in cycles `< k` and before everything in cycles `≥ k`; other timelines unchanged. -/
theorem insertAt_timeline (c : Circ) (k : Nat) (o : Op) (q : Nat) (hk : k < c.numCycles) :
    (c.insertAt k o).timeline q =
      proj q (c.cycles.take k).flatten ++ (if o.on q then [o] else []) ++
        proj q (c.cycles.drop k).flatten := by
  have hlt : k < c.cycles.length := hk
  unfold Circ.insertAt Circ.timeline Circ.ops
  split
  · rename_i hun
    dsimp only
    rw [flatten_modify _ _ _ hlt]
    have hd : c.cycles.drop k = c.cycles[k] :: c.cycles.drop (k + 1) := by
      rw [List.drop_eq_getElem_cons hlt]
    rw [hd]
    simp only [List.flatten_cons, proj_append, proj_single]
    by_cases hq : o.on q = true
    · have hq' : q ∈ o.loc := by simpa [Op.on] using hq
      unfold Circ.unoccupied at hun
      rw [List.all_eq_true] at hun
      have h0 := hun q hq'
      rw [getD_of_lt _ _ hlt] at h0
      have h0' : occ c.cycles[k] q = false := by simpa using h0
      have : proj q c.cycles[k] = [] := by
        have := proj_flatten_nil q [c.cycles[k]] (by simpa using h0')
        simpa using this
      simp [this, hq]
    · simp [hq]
  · dsimp only
    have hle : k ≤ c.cycles.length := Nat.le_of_lt hlt
    rw [flatten_insertIdx _ _ _ hle]
    simp only [proj_append, proj_single]

end BqVerif.Circ
