import BqVerif.Model.Accept
/-! C10 — accept-below-threshold loops: the result is the input or passed the threshold test against
the fixed target, and (removal passes) its operation list is a sub-list of the input's. No assumption
on the oracles `inst`, `good`, `score`, on the iteration order or on the fuel. -/
namespace BqVerif.Accept

variable {α P : Type}

/-- What "accepted" means for a result of a pass started on `init`. -/
def Acc (good : Ops α → P → Bool) (init s : Ops α × P) : Prop := s = init ∨ good s.1 s.2 = true

theorem popTag_sublist (ops : Ops α) (i : Nat) : (popTag ops i).Sublist ops := by
  unfold popTag; exact List.filter_sublist

/-! ### scanning -/

theorem scanStep_cases (inst : Ops α → P) (good : Ops α → P → Bool) (cur : Ops α × P) (i : Nat) :
    scanStep inst good cur i = cur ∨
    (scanStep inst good cur i = (popTag cur.1 i, inst (popTag cur.1 i)) ∧
      good (popTag cur.1 i) (inst (popTag cur.1 i)) = true) := by
  unfold scanStep
  by_cases h : good (popTag cur.1 i) (inst (popTag cur.1 i)) = true
  · right; simp [h]
  · left; simp [h]

theorem scan_inv (inst : Ops α → P) (good : Ops α → P → Bool) (keep : Nat → Bool) (init : Ops α × P)
    (order : List Nat) (cur : Ops α × P)
    (h : Acc good init cur ∧ cur.1.Sublist init.1) :
    Acc good init (scan inst good keep order cur) ∧
      (scan inst good keep order cur).1.Sublist init.1 := by
  induction order generalizing cur with
  | nil => simpa [scan] using h
  | cons i rest ih =>
    have : scan inst good keep (i :: rest) cur =
        scan inst good keep rest (if keep i then scanStep inst good cur i else cur) := by
      simp [scan]
    rw [this]
    apply ih
    by_cases hk : keep i = true
    · simp only [hk, if_true]
      rcases scanStep_cases inst good cur i with e | ⟨e, g⟩
      · rw [e]; exact h
      · rw [e]; exact ⟨Or.inr g, (popTag_sublist _ _).trans h.2⟩
    · simp only [hk]; exact h

/-! ### tree scanning -/

theorem mem_insertByLen (c x : Ops α) (l : List (Ops α)) :
    x ∈ insertByLen c l → x = c ∨ x ∈ l := by
  induction l with
  | nil => simp [insertByLen]
  | cons d t ih =>
    unfold insertByLen
    by_cases h : d.length < c.length
    · simp only [h, if_true, List.mem_cons]
      rintro (e | m)
      · exact Or.inr (Or.inl e)
      · rcases ih m with e | m
        · exact Or.inl e
        · exact Or.inr (Or.inr m)
    · simp only [h, if_false, List.mem_cons]
      rintro (e | e | m)
      · exact Or.inl e
      · exact Or.inr (Or.inl e)
      · exact Or.inr (Or.inr m)

theorem mem_sortByLen (x : Ops α) (l : List (Ops α)) : x ∈ sortByLen l → x ∈ l := by
  induction l with
  | nil => simp [sortByLen]
  | cons c t ih =>
    intro h
    have h' : x ∈ insertByLen c (sortByLen t) := by simpa [sortByLen] using h
    rcases mem_insertByLen c x _ h' with e | m
    · simp [e]
    · exact List.mem_cons_of_mem _ (ih m)

theorem treeCircsL_sublist (cur : Ops α) (chunk : List Nat) :
    ∀ c ∈ treeCircsL cur chunk, c.Sublist cur := by
  unfold treeCircsL
  suffices H : ∀ (all : List (Ops α)), (∀ c ∈ all, c.Sublist cur) →
      ∀ c ∈ chunk.foldl (fun all i => all.flatMap fun c => [popTag c i, c]) all, c.Sublist cur by
    apply H
    intro c hc
    simp only [List.mem_singleton] at hc
    rw [hc]
    exact List.Sublist.refl _
  induction chunk with
  | nil => intro all h; simpa using h
  | cons i rest ih =>
    intro all h
    simp only [List.foldl_cons]
    apply ih
    intro c hc
    simp only [List.mem_flatMap, List.mem_cons, List.not_mem_nil, or_false] at hc
    obtain ⟨d, hd, e | e⟩ := hc
    · rw [e]; exact (popTag_sublist _ _).trans (h d hd)
    · rw [e]; exact h d hd

theorem treeCands_sublist (cur : Ops α) (chunk : List Nat) :
    ∀ c ∈ treeCands cur chunk, c.Sublist cur := by
  intro c hc
  unfold treeCands at hc
  exact treeCircsL_sublist cur chunk c (mem_sortByLen _ _ ((List.dropLast_sublist _).subset hc))

theorem firstGood_some (inst : Ops α → P) (good : Ops α → P → Bool) (l : List (Ops α))
    (r : Ops α × P) (h : firstGood inst good l = some r) :
    r.1 ∈ l ∧ r.2 = inst r.1 ∧ good r.1 r.2 = true := by
  induction l with
  | nil => simp [firstGood] at h
  | cons c t ih =>
    unfold firstGood at h
    by_cases g : good c (inst c) = true
    · simp only [g, if_true, Option.some.injEq] at h
      subst h
      exact ⟨List.mem_cons_self, rfl, g⟩
    · simp only [g] at h
      have := ih h
      exact ⟨List.mem_cons_of_mem _ this.1, this.2⟩

theorem treeScan_inv (inst : Ops α → P) (good : Ops α → P → Bool) (depth : Nat) (init : Ops α × P)
    (fuel : Nat) (left : List Nat) (cur : Ops α × P)
    (h : Acc good init cur ∧ cur.1.Sublist init.1) :
    Acc good init (treeScan inst good depth fuel left cur) ∧
      (treeScan inst good depth fuel left cur).1.Sublist init.1 := by
  induction fuel generalizing left cur with
  | zero => simpa [treeScan] using h
  | succ n ih =>
    cases left with
    | nil => simpa [treeScan] using h
    | cons a t =>
      simp only [treeScan]
      apply ih
      cases hf : firstGood inst good (treeCands cur.1 (List.take depth (a :: t))) with
      | none => exact h
      | some r =>
        obtain ⟨m, _, g⟩ := firstGood_some inst good _ r hf
        exact ⟨Or.inr g, (treeCands_sublist _ _ _ m).trans h.2⟩

/-! ### exhaustive -/

theorem mem_dedupStruct [DecidableEq α] (seen : List (List α)) (l : List (Ops α)) (x : Ops α) :
    x ∈ dedupStruct seen l → x ∈ l := by
  induction l generalizing seen with
  | nil => simp [dedupStruct]
  | cons c t ih =>
    intro hx
    simp only [dedupStruct] at hx
    split at hx
    · exact List.mem_cons_of_mem _ (ih _ hx)
    · rcases List.mem_cons.mp hx with e | m
      · rw [e]; exact List.mem_cons_self
      · exact List.mem_cons_of_mem _ (ih _ m)

theorem expand_sublist [DecidableEq α] (frontier : List (Ops α × P)) (init : Ops α)
    (h : ∀ c ∈ frontier, c.1.Sublist init) : ∀ x ∈ expand frontier, x.Sublist init := by
  intro x hx
  have hx' := mem_dedupStruct _ _ _ hx
  simp only [List.mem_flatMap, List.mem_map] at hx'
  obtain ⟨c, hc, o, _, e⟩ := hx'
  rw [← e]
  exact (popTag_sublist _ _).trans (h c hc)

/-- Invariant of `(best_circuit, best_score)`: a best circuit passed the test and is a sub-list. -/
def BestOk (good : Ops α → P → Bool) (init : Ops α) (best : Option (Ops α × P) × Option Int) : Prop :=
  ∀ b, best.1 = some b → good b.1 b.2 = true ∧ b.1.Sublist init

theorem updBest_ok (good : Ops α → P → Bool) (score : Ops α → Int) (init : Ops α)
    (best : Option (Ops α × P) × Option Int) (c : Ops α × P)
    (hb : BestOk good init best) (hc : good c.1 c.2 = true ∧ c.1.Sublist init) :
    BestOk good init (updBest score best c) := by
  unfold updBest
  cases hs : best.2 with
  | none => intro b hb'; simp only [Option.some.injEq] at hb'; rw [← hb']; exact hc
  | some v =>
    by_cases g : score c.1 > v
    · simp only [g, if_true]
      intro b hb'; simp only [Option.some.injEq] at hb'; rw [← hb']; exact hc
    · simp only [g]; exact hb

theorem foldl_updBest_ok (good : Ops α → P → Bool) (score : Ops α → Int) (init : Ops α)
    (l : List (Ops α × P)) (best : Option (Ops α × P) × Option Int)
    (hb : BestOk good init best) (hl : ∀ c ∈ l, good c.1 c.2 = true ∧ c.1.Sublist init) :
    BestOk good init (l.foldl (updBest score) best) := by
  induction l generalizing best with
  | nil => simpa using hb
  | cons c t ih =>
    simp only [List.foldl_cons]
    apply ih
    · exact updBest_ok good score init best c hb (hl c List.mem_cons_self)
    · intro d hd; exact hl d (List.mem_cons_of_mem _ hd)

theorem exhaustive_ok [DecidableEq α] (inst : Ops α → P) (good : Ops α → P → Bool)
    (score : Ops α → Int) (init : Ops α) (fuel : Nat) (frontier : List (Ops α × P))
    (best : Option (Ops α × P) × Option Int)
    (hf : ∀ c ∈ frontier, c.1.Sublist init) (hb : BestOk good init best) :
    BestOk good init (exhaustive inst good score fuel frontier best) := by
  induction fuel generalizing frontier best with
  | zero => simpa [exhaustive] using hb
  | succ n ih =>
    cases frontier with
    | nil => simpa [exhaustive] using hb
    | cons a t =>
      simp only [exhaustive]
      have hnext : ∀ c ∈ List.filter (fun c : Ops α × P => good c.1 c.2)
          (List.map (fun c => (c, inst c)) (expand (a :: t))),
          good c.1 c.2 = true ∧ c.1.Sublist init := by
        intro c hc
        simp only [List.mem_filter, List.mem_map] at hc
        obtain ⟨⟨x, hx, e⟩, g⟩ := hc
        refine ⟨g, ?_⟩
        rw [← e]
        exact expand_sublist (a :: t) init hf x hx
      apply ih
      · intro c hc; exact (hnext c hc).2
      · exact foldl_updBest_ok good score init _ best hb hnext

theorem exhaustiveRun_inv [DecidableEq α] (inst : Ops α → P) (good : Ops α → P → Bool)
    (score : Ops α → Int) (init : Ops α × P) :
    Acc good init (exhaustiveRun inst good score init) ∧
      (exhaustiveRun inst good score init).1.Sublist init.1 := by
  have H := exhaustive_ok inst good score init.1 (init.1.length + 1) [init] (none, none)
    (by intro c hc; simp only [List.mem_singleton] at hc; rw [hc]; exact List.Sublist.refl _)
    (by intro b hb; simp at hb)
  unfold exhaustiveRun
  cases hr : (exhaustive inst good score (init.1.length + 1) [init] (none, none)).1 with
  | none => exact ⟨Or.inl rfl, List.Sublist.refl _⟩
  | some b => exact ⟨Or.inr (H b hr).1, (H b hr).2⟩

/-! ### every other accept-below-threshold pass (Substitute, Rebase2Qudit, synthesis loops):
whatever the candidate generator, a state that is only ever replaced by a candidate that passed the
test against the fixed target is the input or passed the test. -/

/-- States reachable by "keep the current circuit or replace it by a candidate that passed". -/
inductive Reach {S : Type} (good : S → Bool) (init : S) : S → Prop
  | start : Reach good init init
  | accept (s c : S) : Reach good init s → good c = true → Reach good init c
  | keep (s : S) : Reach good init s → Reach good init s

theorem reach_inv {S : Type} (good : S → Bool) (init s : S) (h : Reach good init s) :
    s = init ∨ good s = true := by
  induction h with
  | start => exact Or.inl rfl
  | accept s c _ g _ => exact Or.inr g
  | keep s _ ih => exact ih

end BqVerif.Accept
