import BqVerif.Proofs.CircRemoveAll
import BqVerif.Proofs.CircWhole
import BqVerif.Proofs.CircTimeline2
/-! # `get_slice`: the timelines of the slice (C04) and its invariant (C05) -/
namespace BqVerif.Circ

/-! ## the sorted set of qudits -/
theorem insertNat_perm (x : Nat) (l : List Nat) : (insertNat x l).Perm (x :: l) := by
  induction l with
  | nil => simp [insertNat]
  | cons a t ih =>
    simp only [insertNat]
    split
    · exact List.Perm.refl _
    · exact (List.Perm.cons a ih).trans (List.Perm.swap x a t)

theorem sortNat_perm (l : List Nat) : (sortNat l).Perm l := by
  induction l with
  | nil => simp [sortNat]
  | cons a t ih =>
    have : sortNat (a :: t) = insertNat a (sortNat t) := rfl
    rw [this]
    exact (insertNat_perm a _).trans (List.Perm.cons a ih)

theorem mem_dedupNat (x : Nat) (l : List Nat) : x ∈ dedupNat l ↔ x ∈ l := by
  induction l with
  | nil => simp [dedupNat]
  | cons a t ih =>
    simp only [dedupNat]
    split
    · rename_i h
      have h' : a ∈ t := by simpa using h
      rw [ih]
      constructor
      · intro hp; exact List.mem_cons_of_mem _ hp
      · intro hp
        rcases List.mem_cons.mp hp with rfl | hp
        · exact h'
        · exact hp
    · simp only [List.mem_cons, ih]

theorem nodup_dedupNat (l : List Nat) : (dedupNat l).Nodup := by
  induction l with
  | nil => simp [dedupNat]
  | cons a t ih =>
    simp only [dedupNat]
    split
    · exact ih
    · rename_i h
      have h' : a ∉ t := by simpa using h
      rw [List.nodup_cons]
      exact ⟨fun hm => h' ((mem_dedupNat a t).1 hm), ih⟩

theorem insertNat_sorted (x : Nat) (l : List Nat) (h : l.Pairwise (· ≤ ·)) :
    (insertNat x l).Pairwise (· ≤ ·) := by
  induction l with
  | nil => simp [insertNat]
  | cons a t ih =>
    simp only [insertNat]
    rw [List.pairwise_cons] at h
    split
    · rename_i hxa
      rw [List.pairwise_cons]
      refine ⟨?_, List.pairwise_cons.mpr h⟩
      intro y hy
      rcases List.mem_cons.mp hy with rfl | hy
      · exact hxa
      · exact Nat.le_trans hxa (h.1 y hy)
    · rename_i hxa
      rw [List.pairwise_cons]
      refine ⟨?_, ih h.2⟩
      intro y hy
      rcases List.mem_cons.mp ((insertNat_perm x t).mem_iff.mp hy) with rfl | hy
      · omega
      · exact h.1 y hy

theorem sortNat_sorted (l : List Nat) : (sortNat l).Pairwise (· ≤ ·) := by
  induction l with
  | nil => simp [sortNat]
  | cons a t ih => exact insertNat_sorted a _ ih

/-- the qudits of the slice: the sorted set of the qudits of the selected operations -/
def sliceQudits (ops : List Op) : List Nat := sortNat (dedupNat (ops.flatMap (·.loc)))

theorem sliceQudits_nodup (ops : List Op) : (sliceQudits ops).Nodup :=
  (sortNat_perm _).nodup_iff.2 (nodup_dedupNat _)

theorem mem_sliceQudits (ops : List Op) (q : Nat) :
    q ∈ sliceQudits ops ↔ ∃ o ∈ ops, q ∈ o.loc := by
  unfold sliceQudits
  rw [(sortNat_perm _).mem_iff, mem_dedupNat, List.mem_flatMap]

theorem sliceQudits_sorted (ops : List Op) : (sliceQudits ops).Pairwise (· < ·) := by
  have h1 := sortNat_sorted (dedupNat (ops.flatMap (·.loc)))
  have h2 := sliceQudits_nodup ops
  unfold sliceQudits at h2 ⊢
  generalize sortNat (dedupNat (ops.flatMap (·.loc))) = l at h1 h2
  induction l with
  | nil => simp
  | cons a t ih =>
    rw [List.pairwise_cons] at h1 ⊢
    rw [List.nodup_cons] at h2
    refine ⟨?_, ih h1.2 h2.2⟩
    intro y hy
    have := h1.1 y hy
    have hne : a ≠ y := fun e => h2.1 (e ▸ hy)
    omega

/-! ## the slice circuit -/
theorem subCircuit_eq (radixes : List Nat) (ops : List Op) :
    subCircuit radixes ops =
      (ops.map (Op.relabel (fun q => (sliceQudits ops).idxOf q))).foldl
        (fun c o => (c.appendCore o).1) ⟨(sliceQudits ops).map (radixes.getD · 0), []⟩ := by
  unfold subCircuit
  rw [List.foldl_map]
  rfl

theorem fold_appendCore_radixes (l : List Op) (acc : Circ) :
    (l.foldl (fun c o => (c.appendCore o).1) acc).radixes = acc.radixes := by
  induction l generalizing acc with
  | nil => rfl
  | cons a t ih => simp only [List.foldl_cons]; rw [ih, appendCore_radixes]

theorem subCircuit_radixes (radixes : List Nat) (ops : List Op) :
    (subCircuit radixes ops).radixes = (sliceQudits ops).map (radixes.getD · 0) := by
  rw [subCircuit_eq, fold_appendCore_radixes]

theorem subCircuit_timeline_raw (radixes : List Nat) (ops : List Op) (j : Nat) :
    (subCircuit radixes ops).timeline j =
      proj j (ops.map (Op.relabel (fun q => (sliceQudits ops).idxOf q))) := by
  rw [subCircuit_eq, fold_appendCore_timeline]
  simp [Circ.timeline, Circ.ops, proj]

/-- relabelling by a map injective on the qudits in use -/
theorem proj_relabel_on (f : Nat → Nat) (S : Nat → Prop)
    (hinj : ∀ a b, S a → S b → f a = f b → a = b) (l : List Op)
    (hl : ∀ o ∈ l, ∀ i ∈ o.loc, S i) (q : Nat) (hq : S q) :
    proj (f q) (l.map (Op.relabel f)) = (proj q l).map (Op.relabel f) := by
  induction l with
  | nil => simp [proj]
  | cons a t ih =>
    have hon : (Op.relabel f a).on (f q) = a.on q := by
      have hiff : f q ∈ a.loc.map f ↔ q ∈ a.loc := by
        constructor
        · intro h
          obtain ⟨x, hx, hfx⟩ := List.mem_map.mp h
          have := hinj x q (hl a (by simp) x hx) hq hfx
          exact this ▸ hx
        · intro h; exact List.mem_map.mpr ⟨q, h, rfl⟩
      simp only [Op.on, Op.relabel, List.contains_eq_mem]
      exact decide_eq_decide.mpr hiff
    have iht := ih (fun o ho => hl o (by simp [ho]))
    simp only [List.map_cons, proj, List.filter_cons, hon]
    split
    · simp only [List.map_cons, List.cons.injEq, true_and]; exact iht
    · exact iht

theorem idxOf_inj_on (l : List Nat) (a b : Nat) (ha : a ∈ l) (hb : b ∈ l)
    (h : l.idxOf a = l.idxOf b) : a = b := by
  have h1 := List.getElem_idxOf (List.idxOf_lt_length_iff.mpr ha)
  have h2 := List.getElem_idxOf (List.idxOf_lt_length_iff.mpr hb)
  simp only [h] at h1
  exact h1.symm.trans h2

/-- **the timelines of a slice**: on its `j`-th qudit — the `j`-th smallest qudit `qs[j]` touched
by the selected operations — the slice holds the selected operations on `qs[j]`, in their order,
relabelled to the slice's numbering. -/
theorem subCircuit_timeline (radixes : List Nat) (ops : List Op) (j : Nat)
    (hj : j < (sliceQudits ops).length) :
    (subCircuit radixes ops).timeline j =
      (proj (sliceQudits ops)[j] ops).map (Op.relabel (fun q => (sliceQudits ops).idxOf q)) := by
  rw [subCircuit_timeline_raw]
  have hidx : (sliceQudits ops).idxOf (sliceQudits ops)[j] = j :=
    (sliceQudits_nodup ops).idxOf_getElem j hj
  have := proj_relabel_on (fun q => (sliceQudits ops).idxOf q) (fun q => q ∈ sliceQudits ops)
    (fun a b ha hb h => idxOf_inj_on _ a b ha hb h) ops
    (fun o ho i hi => (mem_sliceQudits ops i).2 ⟨o, ho, hi⟩) (sliceQudits ops)[j]
    (List.getElem_mem hj)
  simp only [hidx] at this
  exact this

/-- beyond its qudits the slice is empty -/
theorem subCircuit_timeline_off (radixes : List Nat) (ops : List Op) (j : Nat)
    (hj : (sliceQudits ops).length ≤ j) : (subCircuit radixes ops).timeline j = [] := by
  rw [subCircuit_timeline_raw]
  simp only [proj, List.filter_eq_nil_iff, List.mem_map, Op.on]
  rintro x ⟨a, ha, rfl⟩
  simp only [Op.relabel, List.contains_eq_mem, decide_eq_true_eq, List.mem_map, not_exists, not_and]
  intro i hi he
  have : (sliceQudits ops).idxOf i < (sliceQudits ops).length :=
    List.idxOf_lt_length_iff.mpr ((mem_sliceQudits ops i).2 ⟨a, ha, hi⟩)
  omega

/-- **the slice satisfies the invariant** when the selected operations are well-formed operations
of the source circuit -/
theorem subCircuit_inv (n : Nat) (radixes : List Nat) (ops : List Op)
    (hwf : ∀ o ∈ ops, o.WF n radixes) : (subCircuit radixes ops).Inv := by
  rw [subCircuit_eq]
  apply fold_appendCore_inv
  · exact ⟨by simp, by simp, by simp⟩
  · intro x hx
    rw [List.mem_map] at hx
    obtain ⟨o, ho, rfl⟩ := hx
    obtain ⟨w1, w2, _, w4⟩ := hwf o ho
    have hin : ∀ i ∈ o.loc, i ∈ sliceQudits ops := fun i hi => (mem_sliceQudits ops i).2 ⟨o, ho, hi⟩
    refine ⟨by simpa [Op.relabel] using w1, ?_, ?_, ?_⟩
    · simp only [Op.relabel]
      exact List.Nodup.map_on
        (fun a ha b hb h => idxOf_inj_on _ a b (hin a ha) (hin b hb) h) w2
    · intro q hq
      simp only [Op.relabel, List.mem_map] at hq
      obtain ⟨i, hi, rfl⟩ := hq
      simp only [Circ.numQudits, List.length_map]
      exact List.idxOf_lt_length_iff.mpr (hin i hi)
    · simp only [Op.relabel, w4, List.map_map]
      apply List.map_congr_left
      intro i hi
      have hlt := List.idxOf_lt_length_iff.mpr (hin i hi)
      simp only [Function.comp, List.getD_eq_getElem?_getD, List.getElem?_map,
        List.getElem?_eq_getElem hlt, Option.map_some, Option.getD_some, List.getElem_idxOf hlt]

/-! ## the selected operations and the source timelines -/
theorem filter_beq_of_nodup (B : List Op) (hB : B.Nodup) (o : Op) :
    B.filter (fun x => x == o) = if o ∈ B then [o] else [] := by
  induction B with
  | nil => simp
  | cons a t ih =>
    rw [List.nodup_cons] at hB
    simp only [List.filter_cons]
    by_cases hao : a = o
    · subst hao
      have : t.filter (fun x => x == a) = [] := by
        rw [ih hB.2, if_neg hB.1]
      simp [this]
    · have h1 : (a == o) = false := by simpa using hao
      have hne : ¬ o = a := fun e => hao e.symm
      simp only [h1, Bool.false_eq_true, if_false, List.mem_cons, hne, false_or]
      exact ih hB.2

/-- a duplicate-free bucket of operations of one well-formed cycle, seen from qudit `q` -/
theorem proj_bucket (cy : Cycle) (hp : cy.Pairwise Indep) (B : List Op) (hB : B.Nodup)
    (hsub : ∀ o ∈ B, o ∈ cy) (q : Nat) :
    proj q B = ((cellOf cy q).toList).filter (fun o => B.contains o) := by
  unfold cellOf
  cases hf : cy.find? (·.on q) with
  | none =>
    rw [List.find?_eq_none] at hf
    simp only [Option.toList, List.filter_nil, proj, List.filter_eq_nil_iff]
    intro x hx
    exact hf x (hsub x hx)
  | some o =>
    have ho := List.mem_of_find?_eq_some hf
    have hoq : o.on q = true := by simpa using List.find?_some hf
    have hcongr : proj q B = B.filter (fun x => x == o) := by
      apply List.filter_congr
      intro x hx
      by_cases hxo : x = o
      · subst hxo; simp [hoq]
      · have h1 : (x == o) = false := by simpa using hxo
        rw [h1]
        cases h : x.on q with
        | false => rfl
        | true =>
          exfalso
          have hind := indep_of_mem cy hp (hsub x hx) ho hxo
          exact hind q (by simpa [Op.on] using h) (by simpa [Op.on] using hoq)
    rw [hcongr, filter_beq_of_nodup B hB o]
    simp only [Option.toList, List.filter_cons, List.filter_nil, List.contains_iff_mem]

theorem proj_groups (q : Nat) (F : Nat → List Op) (P : Nat × Op → Bool) (L : List Cycle) (i : Nat)
    (hL : ∀ cy ∈ L, cy.Pairwise Indep)
    (hF : ∀ t (h : t < L.length), (F (i + t)).Nodup ∧ (∀ o ∈ F (i + t), o ∈ L[t]) ∧
      ∀ o ∈ L[t], (P (i + t, o) = true ↔ o ∈ F (i + t))) :
    proj q (((List.range' i L.length).flatMap (fun k => (F k).map (fun o => (k, o)))).map (·.2)) =
      (((L.zipIdx i).filterMap (tlF q)).filter P).map (·.2) := by
  induction L generalizing i with
  | nil => simp [proj]
  | cons cy L' ih =>
    simp only [List.length_cons, List.range'_succ, List.flatMap_cons, List.map_append,
      List.map_map, proj_append, List.zipIdx_cons, List.filterMap_cons]
    have hid : ((fun x : Nat × Op => x.2) ∘ fun o => (i, o)) = id := rfl
    rw [hid, List.map_id]
    obtain ⟨h1, h2, h3⟩ := hF 0 (by simp)
    simp only [Nat.add_zero, List.getElem_cons_zero] at h1 h2 h3
    have htail := ih (i + 1) (fun cy' h => hL cy' (by simp [h])) (by
      intro t ht
      have := hF (t + 1) (by simpa using ht)
      simp only [List.getElem_cons_succ] at this
      have e : i + (t + 1) = i + 1 + t := by omega
      rw [e] at this
      exact this)
    rw [htail, proj_bucket cy (hL cy (by simp)) (F i) h1 h2 q]
    unfold tlF
    dsimp only
    cases hc : cellOf cy q with
    | none => simp
    | some o =>
      have hocy : o ∈ cy := by
        unfold cellOf at hc; exact List.mem_of_find?_eq_some hc
      simp only [Option.toList, Option.map_some, List.filter_cons, List.filter_nil,
        List.contains_iff_mem]
      by_cases hm : o ∈ F i
      · have := (h3 o hocy).2 hm
        simp [hm, this]
      · have : P (i, o) = false := by
          cases hP : P (i, o) with
          | false => rfl
          | true => exact absurd ((h3 o hocy).1 hP) hm
        simp [hm, this]

/-- what `Circ.selected` holds -/
theorem mem_selected (c : Circ) (npts : List (Nat × Nat)) (k : Nat) (o : Op) :
    (k, o) ∈ c.selected npts ↔ k < c.numCycles ∧ ∃ q, (k, q) ∈ npts ∧ c.cell k q = some o := by
  simp only [Circ.selected, List.mem_flatMap, List.mem_range, List.mem_map, Prod.mk.injEq,
    mem_sortBy, List.mem_filter, mem_dedupOps, List.mem_filterMap, Prod.exists, beq_iff_eq,
    Option.map_eq_some_iff]
  constructor
  · rintro ⟨k', hk', o', ⟨a, b, ⟨⟨a', q, hm, x, hx, rfl, rfl⟩, rfl⟩, rfl⟩, rfl, rfl⟩
    exact ⟨hk', q, hm, hx⟩
  · rintro ⟨hk, q, hm, hx⟩
    exact ⟨k, hk, o, ⟨k, o, ⟨⟨k, q, hm, o, hx, rfl, rfl⟩, rfl⟩, rfl⟩, rfl, rfl⟩

/-- **the selected operations, seen from a qudit of the source**: the qudit's source timeline
(with cycle indices) restricted to the selected operations — same operations, same order. -/
theorem proj_selected (c : Circ) (hinv : c.Inv) (npts : List (Nat × Nat)) (q : Nat) :
    proj q ((c.selected npts).map (·.2)) =
      ((c.timelineIdx q).filter (fun x => (c.selected npts).contains x)).map (·.2) := by
  let F : Nat → List Op := fun k =>
    sortBy Op.head (((dedupOps (npts.filterMap
      (fun x => (c.cell x.1 x.2).map (fun o => (x.1, o))))).filter (·.1 == k)).map (·.2))
  have hsel : c.selected npts =
      (List.range' 0 c.cycles.length).flatMap (fun k => (F k).map (fun o => (k, o))) := by
    rw [← List.range_eq_range']; rfl
  have hmemF : ∀ k o, o ∈ F k ↔ ∃ q', (k, q') ∈ npts ∧ c.cell k q' = some o := by
    intro k o
    simp only [F, mem_sortBy, List.mem_map, List.mem_filter, mem_dedupOps, List.mem_filterMap,
      Prod.exists, beq_iff_eq, Option.map_eq_some_iff, Prod.mk.injEq]
    constructor
    · rintro ⟨a, b, ⟨⟨a', q', hm, x, hx, rfl, rfl⟩, rfl⟩, rfl⟩
      exact ⟨q', hm, hx⟩
    · rintro ⟨q', hm, hx⟩
      exact ⟨k, o, ⟨⟨k, q', hm, o, hx, rfl, rfl⟩, rfl⟩, rfl⟩
  have := proj_groups q F (fun x => (c.selected npts).contains x) c.cycles 0 hinv.2.1 (by
    intro t ht
    simp only [Nat.zero_add]
    refine ⟨?_, ?_, ?_⟩
    · apply (sortBy_perm _ _).nodup_iff.2
      apply List.Nodup.map_on _ ((nodup_dedupOps _).filter _)
      intro x hx y hy hxy
      have hx1 : x.1 = t := by simpa using (List.mem_filter.mp hx).2
      have hy1 : y.1 = t := by simpa using (List.mem_filter.mp hy).2
      exact Prod.ext (by rw [hx1, hy1]) hxy
    · intro o ho
      obtain ⟨q', _, hc⟩ := (hmemF t o).1 ho
      obtain ⟨_, hm, _⟩ := cell_mem c t q' o hc
      exact hm
    · intro o _
      rw [List.contains_iff_mem, mem_selected, hmemF]
      constructor
      · rintro ⟨_, h⟩; exact h
      · intro h; exact ⟨ht, h⟩)
  rw [← hsel] at this
  exact this

/-! ## the call -/
theorem mem_found_iff (c : Circ) (npts : List (Nat × Nat)) (k : Nat) (o : Op) :
    (k, o) ∈ npts.filterMap (fun x => (c.cell x.1 x.2).map (fun o => (x.1, o))) ↔
      ∃ q, (k, q) ∈ npts ∧ c.cell k q = some o := by
  simp only [List.mem_filterMap, Prod.exists, Option.map_eq_some_iff, Prod.mk.injEq]
  constructor
  · rintro ⟨a, q, hm, x, hx, rfl, rfl⟩; exact ⟨q, hm, hx⟩
  · rintro ⟨q, hm, hx⟩; exact ⟨k, q, hm, o, hx, rfl, rfl⟩

theorem selected_isEmpty (c : Circ) (npts : List (Nat × Nat)) :
    (c.selected npts).isEmpty =
      (npts.filterMap (fun x => (c.cell x.1 x.2).map (fun o => (x.1, o)))).isEmpty := by
  cases hf : npts.filterMap (fun x => (c.cell x.1 x.2).map (fun o => (x.1, o))) with
  | nil =>
    have : c.selected npts = [] := by
      rw [List.eq_nil_iff_forall_not_mem]
      rintro ⟨k, o⟩ hm
      obtain ⟨_, q, h1, h2⟩ := (mem_selected c npts k o).1 hm
      have := (mem_found_iff c npts k o).2 ⟨q, h1, h2⟩
      rw [hf] at this; simp at this
    rw [this]
  | cons x t =>
    obtain ⟨k, o⟩ := x
    have hm : (k, o) ∈ npts.filterMap (fun x => (c.cell x.1 x.2).map (fun o => (x.1, o))) := by
      rw [hf]; simp
    obtain ⟨q, h1, h2⟩ := (mem_found_iff c npts k o).1 hm
    have : (k, o) ∈ c.selected npts := (mem_selected c npts k o).2 ⟨cell_lt c k q o h2, q, h1, h2⟩
    cases hs : c.selected npts with
    | nil => rw [hs] at this; simp at this
    | cons _ _ => rfl

/-- **`batch_pop` returns the slice of its points**: the returned value of `batch_pop` (which the
differential compares with the real call's result) is `get_slice` of the same points -/
theorem batchPop_returns_getSlice (c : Circ) (pts : List (Int × Int)) :
    (c.batchPop pts).2 = c.getSlice pts := by
  by_cases hall : pts.all (fun p => c.cycleInRange p.1 && c.qubitInRange p.2) = true
  · cases hne : ((pts.map (fun p => (normIdx c.numCycles p.1, normIdx c.numQudits p.2))).filterMap
        (fun x => (c.cell x.1 x.2).map (fun o => (x.1, o)))).isEmpty with
    | false =>
      have := batchPop_selected c pts hall hne
      simp only at this
      rw [this]
      unfold Circ.getSlice
      rw [hall]
      simp only [Bool.not_true, Bool.false_eq_true, if_false]
      rw [selected_isEmpty, hne]
      simp
    | true =>
      have h1 : c.batchPop pts = (c, .error .index) := by
        unfold Circ.batchPop
        rw [hall]
        simp only [Bool.not_true, Bool.false_eq_true, if_false]
        have hf' : ((List.map (fun p => (normIdx c.numCycles p.1, normIdx c.numQudits p.2))
            pts).filterMap (fun x => (c.cell x.1 x.2).map (fun o => (x.1, o)))).isEmpty = true :=
          hne
        rw [hf']
        simp
      rw [h1]
      unfold Circ.getSlice
      rw [hall]
      simp only [Bool.not_true, Bool.false_eq_true, if_false]
      rw [selected_isEmpty, hne]
      simp
  · have hall' : pts.all (fun p => c.cycleInRange p.1 && c.qubitInRange p.2) = false := by
      simpa using hall
    unfold Circ.batchPop Circ.getSlice
    rw [hall']
    simp

theorem getSlice_ok (c : Circ) (pts : List (Int × Int)) (s : Circ) (h : c.getSlice pts = .ok s) :
    s = subCircuit c.radixes ((c.selected
      (pts.map (fun p => (normIdx c.numCycles p.1, normIdx c.numQudits p.2)))).map (·.2)) := by
  unfold Circ.getSlice at h
  split at h
  · simp at h
  · dsimp only at h
    split at h
    · simp at h
    · simpa using h.symm

theorem selected_wf (c : Circ) (hinv : c.Inv) (npts : List (Nat × Nat)) :
    ∀ o ∈ (c.selected npts).map (·.2), o.WF c.numQudits c.radixes := by
  intro o ho
  rw [List.mem_map] at ho
  obtain ⟨⟨k, o'⟩, hm, rfl⟩ := ho
  obtain ⟨_, q, _, hc⟩ := (mem_selected c npts k o').1 hm
  obtain ⟨hlt, hmem, _⟩ := cell_mem c k q o' hc
  exact hinv.2.2 _ (List.getElem_mem hlt) o' hmem

/-- **`get_slice` keeps the invariant** -/
theorem getSlice_inv (c : Circ) (hinv : c.Inv) (pts : List (Int × Int)) (s : Circ)
    (h : c.getSlice pts = .ok s) : s.Inv := by
  rw [getSlice_ok c pts s h]
  exact subCircuit_inv c.numQudits c.radixes _ (selected_wf c hinv _)

end BqVerif.Circ
