import BqVerif.Proofs.GraphBasic
/-!
Correctness of the in-place Floyd–Warshall `floydWarshall` (transcription of
`CouplingGraph.all_pairs_shortest_path`) and of the weight matrix `G.weightMat` (`_mat` in `__init__`).

The diagonal of the weight matrix starts at `∞`, not `0`: `D[i][i]` is the weight of the lightest
NON-EMPTY closed walk through `i`.  The specification is therefore "minimum weight over non-empty walks".

Proof idea (no "row/column k is unchanged during iteration k" argument): every relaxation only decreases
entries (monotonicity), keeps the matrix square and keeps every finite entry the weight of a real walk.
After iteration `k` every entry is below its `k`-detour w.r.t. the matrix at the START of the iteration,
which is enough to push the invariant "below every walk with intermediate vertices `< k`" to `k + 1`.
-/
namespace BqVerif.Graph

/-- a ≤ b on weights, none = ∞ -/
def wle : W → W → Prop
  | _, none => True
  | none, some _ => False
  | some a, some b => a ≤ b

/-- weight of the non-empty walk i → v₁ → … → v_m → j (w.r.t. the matrix m); ∞ when an arc is missing -/
def walkWeight (m : Mat) : Nat → List Nat → Nat → W
  | i, [], j => m.get i j
  | i, v :: vs, j => wadd (m.get i v) (walkWeight m v vs j)

def Mat.Square (m : Mat) (n : Nat) : Prop := m.length = n ∧ ∀ row ∈ m, row.length = n

/-! ### weights -/
theorem wle_refl (a : W) : wle a a := by cases a <;> simp [wle]
theorem wle_trans {a b c : W} (h1 : wle a b) (h2 : wle b c) : wle a c := by
  cases a <;> cases b <;> cases c <;> simp_all [wle] <;> omega
theorem wle_none (a : W) : wle a none := by cases a <;> simp [wle]
theorem wle_none_left {a : W} (h : wle none a) : a = none := by cases a <;> simp_all [wle]
theorem wle_some_some {a b : Nat} : wle (some a) (some b) ↔ a ≤ b := by simp [wle]
theorem wle_some_left {a : W} {b : Nat} (h : wle a (some b)) : ∃ c, a = some c ∧ c ≤ b := by
  cases a <;> simp_all [wle]
theorem wmin_le_left (a b : W) : wle (wmin a b) a := by
  cases a <;> cases b <;> simp [wle, wmin] <;> omega
theorem wmin_le_right (a b : W) : wle (wmin a b) b := by
  cases a <;> cases b <;> simp [wle, wmin] <;> omega
theorem wmin_cases (a b : W) : wmin a b = a ∨ wmin a b = b := by
  cases a <;> cases b <;> simp [wmin] <;> omega
theorem wadd_mono {a a' b b' : W} (h1 : wle a a') (h2 : wle b b') : wle (wadd a b) (wadd a' b') := by
  cases a <;> cases b <;> cases a' <;> cases b' <;> simp_all [wle, wadd] <;> omega
theorem wle_wadd_right (a b : W) : wle b (wadd a b) := by
  cases a <;> cases b <;> simp [wle, wadd]
theorem wle_wadd_left (a b : W) : wle a (wadd a b) := by
  cases a <;> cases b <;> simp [wle, wadd]
theorem wadd_assoc (a b c : W) : wadd (wadd a b) c = wadd a (wadd b c) := by
  cases a <;> cases b <;> cases c <;> simp [wadd] <;> omega
theorem wadd_eq_some {a b : W} {w : Nat} (h : wadd a b = some w) :
    ∃ x y, a = some x ∧ b = some y ∧ w = x + y := by
  cases a <;> cases b <;> simp_all [wadd]

/-! ### matrices -/
theorem Mat.get_eq (m : Mat) (i j : Nat) : m.get i j = (m[i]?.bind (·[j]?)).join := by
  unfold Mat.get
  rw [List.getD_eq_getElem?_getD, List.getD_eq_getElem?_getD]
  cases h : m[i]? <;> simp [Option.join]
  cases h' : (_ : List W)[j]? <;> simp

theorem Mat.get_some_lt {m : Mat} {n : Nat} (hm : m.Square n) {i j : Nat} {w : Nat}
    (h : m.get i j = some w) : i < n ∧ j < n := by
  unfold Mat.get at h
  rw [List.getD_eq_getElem?_getD, List.getD_eq_getElem?_getD] at h
  cases hr : m[i]? with
  | none => simp [hr] at h
  | some row =>
    have hi : i < m.length := (List.getElem?_eq_some_iff.mp hr).1
    have hrow : row ∈ m := List.mem_of_getElem? hr
    have hl := hm.2 row hrow
    simp only [hr, Option.getD_some] at h
    cases hc : row[j]? with
    | none => simp [hc] at h
    | some c =>
      have hj : j < row.length := (List.getElem?_eq_some_iff.mp hc).1
      exact ⟨hm.1 ▸ hi, hl ▸ hj⟩

theorem Mat.set_square {m : Mat} {n : Nat} (hm : m.Square n) (i j : Nat) (w : W) :
    (m.set i j w).Square n := by
  unfold Mat.set
  refine ⟨by simpa using hm.1, ?_⟩
  intro row hrow
  obtain ⟨t, ht, hr⟩ := List.getElem_of_mem hrow
  rw [List.getElem_modify] at hr
  have hl : (m[t]'(by simpa using ht)).length = n := hm.2 _ (List.getElem_mem _)
  split at hr <;> subst hr <;> simpa using hl

theorem Mat.get_set {m : Mat} {n : Nat} (hm : m.Square n) (i j : Nat) (w : W) (i' j' : Nat) :
    (m.set i j w).get i' j' = if i' = i ∧ j' = j ∧ i < n ∧ j < n then w else m.get i' j' := by
  unfold Mat.get Mat.set
  simp only [List.getD_eq_getElem?_getD, List.getElem?_modify]
  cases hr : m[i']? with
  | none =>
    have : ¬ i' < n := by
      intro hlt; rw [← hm.1] at hlt
      simp at hr; omega
    have : ¬ (i' = i ∧ j' = j ∧ i < n ∧ j < n) := by omega
    simp [this]
  | some row =>
    have hl : row.length = n := hm.2 row (List.mem_of_getElem? hr)
    by_cases hii : i = i'
    · subst hii
      have hi : i < n := by
        have := (List.getElem?_eq_some_iff.mp hr).1; have := hm.1; omega
      simp only [Option.map_eq_map, Option.map_some, if_true, Option.getD_some, List.getElem?_set, hl]
      by_cases hjj : j = j'
      · subst hjj
        by_cases hj : j < n <;> simp [hj, hi]
        simp [List.getElem?_eq_none_iff.mpr (by omega : row.length ≤ j)]
      · have : ¬ (i = i ∧ j' = j ∧ i < n ∧ j < n) := by omega
        have hjj' : ¬ j' = j := fun h => hjj h.symm
        simp [hjj, hjj']
    · have : ¬ (i' = i ∧ j' = j ∧ i < n ∧ j < n) := by omega
      simp [hii, this]


/-! ### walks -/
theorem walkWeight_append (m : Mat) (a : Nat) (xs : List Nat) (k : Nat) (ys : List Nat) (b : Nat) :
    walkWeight m a (xs ++ k :: ys) b = wadd (walkWeight m a xs k) (walkWeight m k ys b) := by
  induction xs generalizing a with
  | nil => simp [walkWeight]
  | cons x xs ih => simp [walkWeight, ih, wadd_assoc]

theorem walkWeight_some_lt {m : Mat} {n : Nat} (hm : m.Square n) {i j : Nat} {mids : List Nat} {w : Nat}
    (h : walkWeight m i mids j = some w) : i < n ∧ j < n ∧ ∀ v ∈ mids, v < n := by
  induction mids generalizing i w with
  | nil =>
    have := Mat.get_some_lt hm h
    simp [this]
  | cons v vs ih =>
    simp only [walkWeight] at h
    obtain ⟨x, y, hx, hy, _⟩ := wadd_eq_some h
    have h1 := Mat.get_some_lt hm hx
    have h2 := ih hy
    refine ⟨h1.1, h2.2.1, ?_⟩
    intro u hu
    rcases List.mem_cons.mp hu with rfl | hu
    · exact h1.2
    · exact h2.2.2 u hu

theorem fw_split_first (k : Nat) : ∀ l : List Nat, k ∈ l → ∃ A B, l = A ++ k :: B ∧ k ∉ A
  | [], h => by simp at h
  | x :: xs, h => by
    by_cases hx : x = k
    · exact ⟨[], xs, by simp [hx], by simp⟩
    · have hk : k ∈ xs := by
        rcases List.mem_cons.mp h with h | h
        · exact absurd h.symm hx
        · exact h
      obtain ⟨A, B, hAB, hA⟩ := fw_split_first k xs hk
      refine ⟨x :: A, B, by simp [hAB], ?_⟩
      simp only [List.mem_cons, not_or]
      exact ⟨fun h => hx h.symm, hA⟩

theorem fw_split_last (k : Nat) : ∀ l : List Nat, k ∈ l → ∃ A B, l = A ++ k :: B ∧ k ∉ B
  | [], h => by simp at h
  | x :: xs, h => by
    by_cases hk : k ∈ xs
    · obtain ⟨A, B, hAB, hB⟩ := fw_split_last k xs hk
      exact ⟨x :: A, B, by simp [hAB], hB⟩
    · have hx : k = x := by
        rcases List.mem_cons.mp h with h | h
        · exact h
        · exact absurd h hk
      exact ⟨[], xs, by simp [hx], hk⟩

/-! ### relaxations -/
/-- one relaxation step `D[i][j] = min(D[i][j], D[i][k] + D[k][j])` -/
def fwRelax (D : Mat) (i j k : Nat) : Mat :=
  D.set i j (wmin (D.get i j) (wadd (D.get i k) (D.get k j)))

/-- a sequence of relaxations through `k` -/
def fwRelaxAll (k : Nat) (ps : List (Nat × Nat)) (D : Mat) : Mat :=
  ps.foldl (fun D p => fwRelax D p.1 p.2 k) D

def fwPairs (n : Nat) : List (Nat × Nat) :=
  (List.range n).flatMap (fun i => (List.range n).map (fun j => (i, j)))

theorem mem_fwPairs (n a b : Nat) : (a, b) ∈ fwPairs n ↔ a < n ∧ b < n := by
  simp [fwPairs]

theorem floydWarshall_eq (n : Nat) (m : Mat) :
    floydWarshall n m = (List.range n).foldl (fun D k => fwRelaxAll k (fwPairs n) D) m := by
  unfold floydWarshall fwRelaxAll fwPairs
  congr 1
  funext D k
  rw [List.foldl_flatMap]
  congr 1
  funext D i
  rw [List.foldl_map]
  rfl

theorem fw_foldl_inv {α β} (P : β → Prop) (f : β → α → β) (l : List α) (b : β) (hb : P b)
    (hf : ∀ b, ∀ a ∈ l, P b → P (f b a)) : P (l.foldl f b) := by
  induction l generalizing b with
  | nil => exact hb
  | cons x xs ih =>
    exact ih (f b x) (hf b x (by simp) hb) (fun b a ha => hf b a (by simp [ha]))

/-- pointwise order on matrices -/
def Mat.le (D' D : Mat) : Prop := ∀ a b, wle (D'.get a b) (D.get a b)
theorem Mat.le_refl (D : Mat) : D.le D := fun _ _ => wle_refl _
theorem Mat.le_trans {A B C : Mat} (h1 : A.le B) (h2 : B.le C) : A.le C :=
  fun a b => wle_trans (h1 a b) (h2 a b)

theorem fwRelax_square {D : Mat} {n : Nat} (h : D.Square n) (i j k : Nat) : (fwRelax D i j k).Square n :=
  Mat.set_square h _ _ _

theorem fwRelax_le {D : Mat} {n : Nat} (h : D.Square n) (i j k : Nat) : (fwRelax D i j k).le D := by
  intro a b
  unfold fwRelax
  rw [Mat.get_set h]
  split
  · next hc =>
    obtain ⟨rfl, rfl, _, _⟩ := hc
    exact wmin_le_left _ _
  · exact wle_refl _

theorem fwRelax_get_self {D : Mat} {n : Nat} (h : D.Square n) {i j : Nat} (hi : i < n) (hj : j < n) (k : Nat) :
    (fwRelax D i j k).get i j = wmin (D.get i j) (wadd (D.get i k) (D.get k j)) := by
  unfold fwRelax
  rw [Mat.get_set h]
  simp [hi, hj]

/-- soundness invariant: finite entries are weights of walks of `m` -/
def FWSound (m D : Mat) : Prop := ∀ a b w, D.get a b = some w → ∃ mids, walkWeight m a mids b = some w

theorem fwSound_init (m : Mat) : FWSound m m := fun a b w h => ⟨[], by simpa [walkWeight] using h⟩

theorem fwRelax_sound {m D : Mat} {n : Nat} (h : D.Square n) (hs : FWSound m D) (i j k : Nat) :
    FWSound m (fwRelax D i j k) := by
  intro a b w hw
  unfold fwRelax at hw
  rw [Mat.get_set h] at hw
  split at hw
  · next hc =>
    obtain ⟨rfl, rfl, _, _⟩ := hc
    rcases wmin_cases (D.get a b) (wadd (D.get a k) (D.get k b)) with he | he
    · rw [he] at hw; exact hs a b w hw
    · rw [he] at hw
      obtain ⟨x, y, hx, hy, rfl⟩ := wadd_eq_some hw
      obtain ⟨xs, hxs⟩ := hs a k x hx
      obtain ⟨ys, hys⟩ := hs k b y hy
      exact ⟨xs ++ k :: ys, by rw [walkWeight_append, hxs, hys]; rfl⟩
  · exact hs a b w hw

theorem fwRelaxAll_inv {m D : Mat} {n : Nat} (k : Nat) (ps : List (Nat × Nat)) (h : D.Square n) (hs : FWSound m D) :
    (fwRelaxAll k ps D).Square n ∧ FWSound m (fwRelaxAll k ps D) ∧ (fwRelaxAll k ps D).le D := by
  unfold fwRelaxAll
  refine fw_foldl_inv (fun D' => D'.Square n ∧ FWSound m D' ∧ D'.le D) _ ps D ⟨h, hs, Mat.le_refl D⟩ ?_
  intro D' p _ ⟨h1, h2, h3⟩
  exact ⟨fwRelax_square h1 _ _ _, fwRelax_sound h1 h2 _ _ _, Mat.le_trans (fwRelax_le h1 _ _ _) h3⟩

/-- (R): after relaxing all pairs `ps` through `k`, every processed entry is below the `k`-detour of the
start matrix. -/
theorem fwRelaxAll_bound {m D : Mat} {n : Nat} (k : Nat) (ps : List (Nat × Nat)) (h : D.Square n) (hs : FWSound m D)
    {a b : Nat} (ha : a < n) (hb : b < n) (hmem : (a, b) ∈ ps) :
    wle ((fwRelaxAll k ps D).get a b) (wadd (D.get a k) (D.get k b)) := by
  obtain ⟨ps1, ps2, rfl⟩ := List.append_of_mem hmem
  have e : fwRelaxAll k (ps1 ++ (a, b) :: ps2) D = fwRelaxAll k ps2 (fwRelax (fwRelaxAll k ps1 D) a b k) := by
    simp [fwRelaxAll, List.foldl_append]
  rw [e]
  obtain ⟨c1, c2, c3⟩ := fwRelaxAll_inv (m := m) k ps1 h hs
  have d1 := fwRelax_square c1 a b k
  have d2 := fwRelax_sound c1 c2 a b k
  obtain ⟨_, _, e3⟩ := fwRelaxAll_inv (m := m) k ps2 d1 d2
  refine wle_trans (e3 a b) ?_
  rw [fwRelax_get_self c1 ha hb]
  exact wle_trans (wmin_le_right _ _) (wadd_mono (c3 a k) (c3 k b))


/-! ### optimality -/
/-- `D` is below every walk of `m` whose intermediate vertices are all `< k` -/
def FWOpt (m : Mat) (n k : Nat) (D : Mat) : Prop :=
  ∀ a b, a < n → b < n → ∀ mids : List Nat, (∀ v ∈ mids, v < k) → wle (D.get a b) (walkWeight m a mids b)

theorem fwOpt_init (m : Mat) (n : Nat) : FWOpt m n 0 m := by
  intro a b _ _ mids h
  cases mids with
  | nil => exact wle_refl _
  | cons v vs => exact absurd (h v (by simp)) (by omega)

theorem fw_lt_of_lt_succ_not_mem {k : Nat} {l : List Nat} (h : ∀ v ∈ l, v < k + 1) (hk : k ∉ l) :
    ∀ v ∈ l, v < k := by
  intro v hv
  have := h v hv
  have : v ≠ k := fun e => hk (e ▸ hv)
  omega

/-- (L): the entry `(k, b)` is below every walk from `k` whose intermediate vertices are `≤ k`
(cut the walk at the last visit of `k`). -/
theorem fwOpt_from_k {m D : Mat} {n k : Nat} (ho : FWOpt m n k D) (hk : k < n) {b : Nat} (hb : b < n)
    (B : List Nat) (hB : ∀ v ∈ B, v < k + 1) : wle (D.get k b) (walkWeight m k B b) := by
  by_cases hmem : k ∈ B
  · obtain ⟨B1, B2, rfl, h2⟩ := fw_split_last k B hmem
    rw [walkWeight_append]
    refine wle_trans ?_ (wle_wadd_right _ _)
    exact ho k b hk hb B2 (fw_lt_of_lt_succ_not_mem (fun v hv => hB v (by simp [hv])) h2)
  · exact ho k b hk hb B (fw_lt_of_lt_succ_not_mem hB hmem)

theorem fwOpt_step {m D : Mat} {n k : Nat} (hk : k < n) (h : D.Square n) (hs : FWSound m D) (ho : FWOpt m n k D) :
    FWOpt m n (k + 1) (fwRelaxAll k (fwPairs n) D) := by
  intro a b ha hb mids hmids
  obtain ⟨_, _, hle⟩ := fwRelaxAll_inv (m := m) k (fwPairs n) h hs
  by_cases hmem : k ∈ mids
  · obtain ⟨A, B, rfl, hA⟩ := fw_split_first k mids hmem
    rw [walkWeight_append]
    refine wle_trans (fwRelaxAll_bound k (fwPairs n) h hs ha hb ((mem_fwPairs n a b).mpr ⟨ha, hb⟩)) ?_
    refine wadd_mono ?_ ?_
    · exact ho a k ha hk A (fw_lt_of_lt_succ_not_mem (fun v hv => hmids v (by simp [hv])) hA)
    · exact fwOpt_from_k ho hk hb B (fun v hv => hmids v (by simp [hv]))
  · exact wle_trans (hle a b) (ho a b ha hb mids (fw_lt_of_lt_succ_not_mem hmids hmem))

theorem fw_inv (n : Nat) (m : Mat) (hm : m.Square n) (t : Nat) (ht : t ≤ n) :
    let D := (List.range t).foldl (fun D k => fwRelaxAll k (fwPairs n) D) m
    D.Square n ∧ FWSound m D ∧ FWOpt m n t D := by
  induction t with
  | zero => exact ⟨hm, fwSound_init m, fwOpt_init m n⟩
  | succ t ih =>
    obtain ⟨h1, h2, h3⟩ := ih (by omega)
    simp only [List.range_succ, List.foldl_append, List.foldl_cons, List.foldl_nil]
    obtain ⟨c1, c2, _⟩ := fwRelaxAll_inv (m := m) t (fwPairs n) h1 h2
    exact ⟨c1, c2, fwOpt_step (by omega) h1 h2 h3⟩

/-! ### final theorems -/
theorem floydWarshall_square (n : Nat) (m : Mat) (hm : m.Square n) : (floydWarshall n m).Square n := by
  rw [floydWarshall_eq]
  exact (fw_inv n m hm n (Nat.le_refl n)).1

/-- every finite entry is the weight of an actual non-empty walk (with all intermediate vertices < n).
(`hi`, `hj` are implied by `h` for a square matrix; kept so that all final theorems share the guards.) -/
theorem floydWarshall_sound (n : Nat) (m : Mat) (hm : m.Square n) (i j : Nat) (hi : i < n) (hj : j < n) (w : Nat)
    (h : (floydWarshall n m).get i j = some w) : ∃ mids, (∀ v ∈ mids, v < n) ∧ walkWeight m i mids j = some w := by
  have _ := hi; have _ := hj
  rw [floydWarshall_eq] at h
  obtain ⟨mids, hw⟩ := (fw_inv n m hm n (Nat.le_refl n)).2.1 i j w h
  exact ⟨mids, (walkWeight_some_lt hm hw).2.2, hw⟩

/-- no non-empty walk is lighter than the entry -/
theorem floydWarshall_le (n : Nat) (m : Mat) (hm : m.Square n) (i j : Nat) (hi : i < n) (hj : j < n)
    (mids : List Nat) : wle ((floydWarshall n m).get i j) (walkWeight m i mids j) := by
  cases hw : walkWeight m i mids j with
  | none => exact wle_none _
  | some w =>
    rw [← hw, floydWarshall_eq]
    exact (fw_inv n m hm n (Nat.le_refl n)).2.2 i j hi hj mids (walkWeight_some_lt hm hw).2.2

/-- packaged: the entry is the minimum (none iff no walk) -/
theorem floydWarshall_spec (n : Nat) (m : Mat) (hm : m.Square n) (i j : Nat) (hi : i < n) (hj : j < n) :
    (∀ w, (floydWarshall n m).get i j = some w ↔
        (∃ mids, walkWeight m i mids j = some w) ∧ ∀ mids, wle (some w) (walkWeight m i mids j)) ∧
    ((floydWarshall n m).get i j = none ↔ ∀ mids, walkWeight m i mids j = none) := by
  refine ⟨fun w => ⟨fun h => ?_, fun h => ?_⟩, ⟨fun h mids => ?_, fun h => ?_⟩⟩
  · obtain ⟨mids, _, hw⟩ := floydWarshall_sound n m hm i j hi hj w h
    exact ⟨⟨mids, hw⟩, fun mids' => h ▸ floydWarshall_le n m hm i j hi hj mids'⟩
  · obtain ⟨⟨mids, hw⟩, hmin⟩ := h
    have h1 := floydWarshall_le n m hm i j hi hj mids
    rw [hw] at h1
    obtain ⟨c, hc, hcw⟩ := wle_some_left h1
    obtain ⟨mids', _, hw'⟩ := floydWarshall_sound n m hm i j hi hj c hc
    have h2 := hmin mids'
    rw [hw', wle_some_some] at h2
    rw [hc]; congr 1; omega
  · have h1 := floydWarshall_le n m hm i j hi hj mids
    rw [h] at h1
    exact wle_none_left h1
  · cases hc : (floydWarshall n m).get i j with
    | none => rfl
    | some c =>
      obtain ⟨mids', _, hw'⟩ := floydWarshall_sound n m hm i j hi hj c hc
      rw [h mids'] at hw'
      exact absurd hw' (by simp)


/-! ### the weight matrix -/
/-- `_mat[q1][q2] = w; _mat[q2][q1] = w` -/
def matPut (m : Mat) (e : Nat × Nat) (w : Nat) : Mat := (m.set e.1 e.2 (some w)).set e.2 e.1 (some w)

theorem weightMat_eq (g : G) (dw rw : Nat) (remote : List (Nat × Nat)) (over : List ((Nat × Nat) × Nat)) :
    g.weightMat dw rw remote over =
      over.foldl (fun m ew => matPut m ew.1 ew.2)
        (remote.foldl (fun m e => matPut m (norm e) rw)
          (g.edges.foldl (fun m e => matPut m e dw) (List.replicate g.n (List.replicate g.n none)))) := rfl

theorem fw_replicate_square (n : Nat) : Mat.Square (List.replicate n (List.replicate n none)) n := by
  refine ⟨by simp, ?_⟩
  intro row hrow
  rw [List.mem_replicate] at hrow
  simp [hrow.2]

theorem fw_replicate_get (n i j : Nat) : Mat.get (List.replicate n (List.replicate n none)) i j = none := by
  unfold Mat.get
  simp only [List.getD_eq_getElem?_getD, List.getElem?_replicate]
  by_cases hi : i < n <;> by_cases hj : j < n <;> simp [hi, hj]

theorem matPut_square {m : Mat} {n : Nat} (hm : m.Square n) (e : Nat × Nat) (w : Nat) : (matPut m e w).Square n :=
  Mat.set_square (Mat.set_square hm _ _ _) _ _ _

/-- does the (ordered) pair `e` denote the unordered pair `{i, j}` -/
def pairMatches (i j : Nat) (e : Nat × Nat) : Bool := e == (i, j) || e == (j, i)

theorem pairMatches_norm (i j : Nat) (e : Nat × Nat) : pairMatches i j (norm e) = pairMatches i j e := by
  obtain ⟨a, b⟩ := e
  unfold pairMatches norm
  by_cases h : a ≤ b <;> simp [h]
  rw [Bool.eq_iff_iff]; simp; omega

theorem matPut_get {m : Mat} {n : Nat} (hm : m.Square n) (e : Nat × Nat) (he : e.1 < n ∧ e.2 < n) (w : Nat)
    (i j : Nat) : (matPut m e w).get i j = if pairMatches i j e then some w else m.get i j := by
  obtain ⟨a, b⟩ := e
  unfold matPut
  rw [Mat.get_set (Mat.set_square hm _ _ _), Mat.get_set hm]
  simp only [pairMatches, Bool.or_eq_true, beq_iff_eq, Prod.mk.injEq]
  simp only at he
  by_cases h1 : i = b ∧ j = a
  · simp [h1, he]
  · by_cases h2 : i = a ∧ j = b
    · simp [h2, he]
    · have h1' : ¬ (a = j ∧ b = i) := fun h => h1 ⟨h.2.symm, h.1.symm⟩
      have h2' : ¬ (a = i ∧ b = j) := fun h => h2 ⟨h.1.symm, h.2.symm⟩
      have h3 : ¬ (i = b ∧ j = a ∧ b < n ∧ a < n) := fun h => h1 ⟨h.1, h.2.1⟩
      have h4 : ¬ (i = a ∧ j = b ∧ a < n ∧ b < n) := fun h => h2 ⟨h.1, h.2.1⟩
      simp [h1', h2', h3, h4]

theorem foldl_matPut_square {α} (key : α → Nat × Nat) (wt : α → Nat) (l : List α) {M : Mat} {n : Nat}
    (hM : M.Square n) : (l.foldl (fun m x => matPut m (key x) (wt x)) M).Square n :=
  fw_foldl_inv (fun D => D.Square n) _ l M hM (fun _ _ _ h => matPut_square h _ _)

/-- a sequence of `matPut`s: the last matching assignment wins -/
theorem foldl_matPut_get {α} (key : α → Nat × Nat) (wt : α → Nat) (l : List α) {M : Mat} {n : Nat}
    (hM : M.Square n) (hl : ∀ x ∈ l, (key x).1 < n ∧ (key x).2 < n) (i j : Nat) :
    (l.foldl (fun m x => matPut m (key x) (wt x)) M).get i j =
      match l.reverse.find? (fun x => pairMatches i j (key x)) with
      | some x => some (wt x)
      | none => M.get i j := by
  induction l generalizing M with
  | nil => simp
  | cons x xs ih =>
    rw [List.foldl_cons, ih (matPut_square hM _ _) (fun y hy => hl y (by simp [hy]))]
    rw [List.reverse_cons, List.find?_append]
    cases hf : xs.reverse.find? (fun x => pairMatches i j (key x)) with
    | some y => simp
    | none =>
      rw [matPut_get hM _ (hl x (by simp))]
      by_cases hx : pairMatches i j (key x) <;> simp [hx]

theorem weightMat_square (g : G) (dw rw : Nat) (remote : List (Nat × Nat)) (over : List ((Nat × Nat) × Nat)) :
    (g.weightMat dw rw remote over).Square g.n := by
  rw [weightMat_eq]
  exact foldl_matPut_square (fun ew : (Nat × Nat) × Nat => ew.1) (fun ew => ew.2) over
    (foldl_matPut_square (fun e : Nat × Nat => norm e) (fun _ => rw) remote
      (foldl_matPut_square (fun e : Nat × Nat => e) (fun _ => dw) g.edges (fw_replicate_square g.n)))

theorem G.hasEdge_iff_any (g : G) (hwf : g.WF) (i j : Nat) :
    g.hasEdge i j = g.edges.any (pairMatches i j) := by
  rw [Bool.eq_iff_iff, G.hasEdge_iff, List.any_eq_true]
  constructor
  · intro h
    refine ⟨_, h, ?_⟩
    rw [pairMatches_norm]; simp [pairMatches]
  · rintro ⟨⟨a, b⟩, he, hm⟩
    have := hwf _ he
    simp only [pairMatches, Bool.or_eq_true, beq_iff_eq, Prod.mk.injEq] at hm
    simp only at this
    rcases hm with ⟨rfl, rfl⟩ | ⟨rfl, rfl⟩
    · rw [norm_of_le (by omega)]; exact he
    · rw [norm_of_lt (by omega)]; exact he


theorem fw_find?_reverse_const {α} (p : α → Bool) (l : List α) (c : Nat) (d : W) :
    (match l.reverse.find? p with
      | some _ => some c
      | none => d) = if l.any p then some c else d := by
  cases hf : l.reverse.find? p with
  | some y =>
    have := List.find?_some hf
    have hm : y ∈ l := by simpa using List.mem_of_find?_eq_some hf
    have : l.any p = true := List.any_eq_true.mpr ⟨y, hm, this⟩
    simp [this]
  | none =>
    have : l.any p = false := by
      rw [List.any_eq_false]
      intro x hx
      have := List.find?_eq_none.mp hf x (by simpa using hx)
      simpa using this
    simp [this]

/-- The entries of `_mat` in general: remote edges and override keys must denote edges of the graph
(the constructor raises `ValueError` otherwise); later assignments win. -/
theorem weightMat_get (g : G) (hwf : g.WF) (dw rw : Nat) (remote : List (Nat × Nat))
    (over : List ((Nat × Nat) × Nat))
    (hrem : ∀ e ∈ remote, g.hasEdge e.1 e.2 = true)
    (hover : ∀ ew ∈ over, g.hasEdge ew.1.1 ew.1.2 = true) (i j : Nat) :
    (g.weightMat dw rw remote over).get i j =
      match over.reverse.find? (fun ew => pairMatches i j ew.1) with
      | some ew => some ew.2
      | none =>
        if remote.any (pairMatches i j) then some rw
        else if g.hasEdge i j then some dw else none := by
  rw [weightMat_eq]
  have sq1 := foldl_matPut_square (fun e : Nat × Nat => e) (fun _ => dw) g.edges (fw_replicate_square g.n)
  have sq2 := foldl_matPut_square (fun e : Nat × Nat => norm e) (fun _ => rw) remote sq1
  rw [foldl_matPut_get (fun ew : (Nat × Nat) × Nat => ew.1) (fun ew => ew.2) over sq2
    (fun ew hew => ⟨(g.hasEdge_lt hwf (hover ew hew)).2.1, (g.hasEdge_lt hwf (hover ew hew)).2.2⟩)]
  rw [foldl_matPut_get (fun e : Nat × Nat => norm e) (fun _ => rw) remote sq1 ?hr]
  case hr =>
    intro e he
    have := g.hasEdge_lt hwf (hrem e he)
    unfold norm; split <;> first | omega | (simp only []; omega)
  rw [foldl_matPut_get (fun e : Nat × Nat => e) (fun _ => dw) g.edges (fw_replicate_square g.n)
    (fun e he => by have := hwf e he; omega)]
  simp only [pairMatches_norm, fw_find?_reverse_const, fw_replicate_get, G.hasEdge_iff_any g hwf]
  split <;> rename_i h <;> simp only [h] <;> rfl

/-- the weight matrix the constructor builds (default case: no remote edges, no overrides).
(`hi`, `hj` are not needed: out of range both sides are `none` for a well-formed graph.) -/
theorem weightMat_default_get (g : G) (hwf : g.WF) (dw rw : Nat) (i j : Nat) (hi : i < g.n) (hj : j < g.n) :
    (g.weightMat dw rw [] []).get i j = if g.hasEdge i j then some dw else none := by
  have _ := hi; have _ := hj
  rw [weightMat_get g hwf dw rw [] [] (by simp) (by simp)]
  simp


/-! ### hop distances of the default matrix -/
/-- `i → v₁ → … → j` is a (non-empty) walk along edges of `g` -/
def IsWalk (g : G) : Nat → List Nat → Nat → Prop
  | i, [], j => g.hasEdge i j = true
  | i, v :: vs, j => g.hasEdge i v = true ∧ IsWalk g v vs j

theorem walkWeight_default (g : G) (hwf : g.WF) (dw rw : Nat) (i : Nat) (mids : List Nat) (j : Nat) (w : Nat) :
    walkWeight (g.weightMat dw rw [] []) i mids j = some w ↔
      IsWalk g i mids j ∧ w = dw * (mids.length + 1) := by
  induction mids generalizing i w with
  | nil =>
    simp only [walkWeight, IsWalk, weightMat_get g hwf dw rw [] [] (by simp) (by simp)]
    by_cases h : g.hasEdge i j = true <;> simp [h, eq_comm]
  | cons v vs ih =>
    simp only [walkWeight, IsWalk, weightMat_get g hwf dw rw [] [] (by simp) (by simp)]
    constructor
    · intro h
      obtain ⟨x, y, hx, hy, rfl⟩ := wadd_eq_some h
      obtain ⟨h1, h2⟩ := (ih v y).mp hy
      by_cases he : g.hasEdge i v = true
      · simp [he] at hx
        refine ⟨⟨he, h1⟩, ?_⟩
        subst hx; subst h2
        simp [Nat.mul_add]; omega
      · simp [he] at hx
    · rintro ⟨⟨he, h1⟩, rfl⟩
      have := (ih v _).mpr ⟨h1, rfl⟩
      rw [this]
      simp [he, wadd, Nat.mul_add]; omega

theorem IsWalk.append {g : G} {a : Nat} {xs : List Nat} {k : Nat} {ys : List Nat} {b : Nat}
    (h1 : IsWalk g a xs k) (h2 : IsWalk g k ys b) : IsWalk g a (xs ++ k :: ys) b := by
  induction xs generalizing a with
  | nil => exact ⟨h1, h2⟩
  | cons x xs ih => exact ⟨h1.1, ih h1.2⟩

theorem IsWalk.reach {g : G} {i : Nat} {mids : List Nat} {j : Nat} (h : IsWalk g i mids j) : Reach g i j := by
  induction mids generalizing i with
  | nil => exact Reach.single h
  | cons v vs ih => exact Reach.head h.1 (ih h.2)

theorem Reach.isWalk {g : G} {i j : Nat} (h : Reach g i j) : i = j ∨ ∃ mids, IsWalk g i mids j := by
  induction h with
  | refl => exact Or.inl rfl
  | @step b c _ he ih =>
    right
    rcases ih with rfl | ⟨mids, hm⟩
    · exact ⟨[], he⟩
    · exact ⟨mids ++ [b], IsWalk.append hm he⟩

/-- entries of Floyd–Warshall on the default matrix: `dw` times the least number of hops of a non-empty
walk (`none` iff there is no walk). -/
theorem floydWarshall_default (g : G) (hwf : g.WF) (dw rw : Nat) (i j : Nat) (hi : i < g.n) (hj : j < g.n) :
    (∀ w, (floydWarshall g.n (g.weightMat dw rw [] [])).get i j = some w ↔
      (∃ mids, IsWalk g i mids j ∧ w = dw * (mids.length + 1)) ∧
        ∀ mids, IsWalk g i mids j → w ≤ dw * (mids.length + 1)) ∧
    ((floydWarshall g.n (g.weightMat dw rw [] [])).get i j = none ↔ ∀ mids, ¬ IsWalk g i mids j) := by
  obtain ⟨h1, h2⟩ := floydWarshall_spec g.n _ (weightMat_square g dw rw [] []) i j hi hj
  constructor
  · intro w
    rw [h1 w]
    constructor
    · rintro ⟨⟨mids, hm⟩, hmin⟩
      refine ⟨⟨mids, (walkWeight_default g hwf dw rw i mids j w).mp hm⟩, ?_⟩
      intro mids' hw'
      have := hmin mids'
      rw [(walkWeight_default g hwf dw rw i mids' j _).mpr ⟨hw', rfl⟩] at this
      exact wle_some_some.mp this
    · rintro ⟨⟨mids, hm⟩, hmin⟩
      refine ⟨⟨mids, (walkWeight_default g hwf dw rw i mids j w).mpr hm⟩, ?_⟩
      intro mids'
      cases hc : walkWeight (g.weightMat dw rw [] []) i mids' j with
      | none => exact wle_none _
      | some c =>
        obtain ⟨hw', rfl⟩ := (walkWeight_default g hwf dw rw i mids' j c).mp hc
        exact wle_some_some.mpr (hmin mids' hw')
  · rw [h2]
    constructor
    · intro h mids hw
      have := (walkWeight_default g hwf dw rw i mids j _).mpr ⟨hw, rfl⟩
      rw [h mids] at this
      exact absurd this (by simp)
    · intro h mids
      cases hc : walkWeight (g.weightMat dw rw [] []) i mids j with
      | none => rfl
      | some c => exact absurd ((walkWeight_default g hwf dw rw i mids j c).mp hc).1 (h mids)

/-- default weights: for `i ≠ j` the entry is `∞` iff `j` is not reachable from `i`. -/
theorem floydWarshall_none_iff_not_reach (g : G) (hwf : g.WF) (dw rw : Nat) (i j : Nat) (hi : i < g.n) (hj : j < g.n)
    (hij : i ≠ j) :
    (floydWarshall g.n (g.weightMat dw rw [] [])).get i j = none ↔ ¬ Reach g i j := by
  rw [(floydWarshall_default g hwf dw rw i j hi hj).2]
  constructor
  · intro h hr
    rcases hr.isWalk with e | ⟨mids, hm⟩
    · exact hij e
    · exact h mids hm
  · intro h mids hm
    exact h hm.reach


/-! ### non-vacuity / sanity examples -/
section Examples
/-- path 0 -1- 1 -2- 2 with weights 1 and 2 -/
private def exM : Mat := [[none, some 1, none], [some 1, none, some 2], [none, some 2, none]]
private def exG : G := ⟨4, [(0, 1), (1, 2)]⟩

private theorem exM_sq : exM.Square 3 := by unfold Mat.Square; decide
private theorem exG_wf : exG.WF := by unfold G.WF; decide
example : floydWarshall 3 exM = [[some 2, some 1, some 3], [some 1, some 2, some 2], [some 3, some 2, some 4]] := by
  decide
-- floydWarshall_square / _sound / _le / _spec: hypotheses are satisfiable
example : (floydWarshall 3 exM).Square 3 := floydWarshall_square 3 exM exM_sq
example : ∃ mids, (∀ v ∈ mids, v < 3) ∧ walkWeight exM 0 mids 2 = some 3 :=
  floydWarshall_sound 3 exM exM_sq 0 2 (by decide) (by decide) 3 (by decide)
example : walkWeight exM 0 [1] 2 = some 3 := by decide
example : wle ((floydWarshall 3 exM).get 0 2) (walkWeight exM 0 [1, 0, 1] 2) :=
  floydWarshall_le 3 exM exM_sq 0 2 (by decide) (by decide) [1, 0, 1]
example : walkWeight exM 0 [1, 0, 1] 2 = some 5 := by decide
example : (floydWarshall 3 exM).get 0 2 = some 3 ↔
    (∃ mids, walkWeight exM 0 mids 2 = some 3) ∧ ∀ mids, wle (some 3) (walkWeight exM 0 mids 2) :=
  (floydWarshall_spec 3 exM exM_sq 0 2 (by decide) (by decide)).1 3
-- the diagonal is the lightest non-empty closed walk, not 0
example : (floydWarshall 3 exM).get 0 0 = some 2 := by decide
-- weightMat
example : exG.weightMat 1 100 [] [] =
    [[none, some 1, none, none], [some 1, none, some 1, none], [none, some 1, none, none],
     [none, none, none, none]] := by decide
example : (exG.weightMat 1 100 [] []).get 2 1 = if exG.hasEdge 2 1 then some 1 else none :=
  weightMat_default_get exG exG_wf 1 100 2 1 (by decide) (by decide)
example : (exG.weightMat 1 100 [(1, 0)] [((2, 1), 7)]).Square 4 := weightMat_square exG 1 100 _ _
example : (∀ e ∈ [((1 : Nat), (0 : Nat))], exG.hasEdge e.1 e.2 = true) ∧
    (∀ ew ∈ [(((2 : Nat), (1 : Nat)), (7 : Nat))], exG.hasEdge ew.1.1 ew.1.2 = true) := by decide
example : exG.weightMat 1 100 [(1, 0)] [((2, 1), 7)] =
    [[none, some 100, none, none], [some 100, none, some 7, none], [none, some 7, none, none],
     [none, none, none, none]] := by decide
example : (exG.weightMat 1 100 [(1, 0)] [((2, 1), 7)]).get 1 2 = some 7 := by
  rw [weightMat_get exG exG_wf 1 100 [(1, 0)] [((2, 1), 7)] (by decide) (by decide)]; decide
-- floydWarshall_default / floydWarshall_none_iff_not_reach (vertex 3 is isolated)
set_option maxRecDepth 8000 in
example : (floydWarshall exG.n (exG.weightMat 1 100 [] [])).get 0 2 = some 2 := by decide
set_option maxRecDepth 8000 in
example : (floydWarshall exG.n (exG.weightMat 1 100 [] [])).get 0 3 = none := by decide
set_option maxRecDepth 8000 in
example : ¬ Reach exG 0 3 :=
  (floydWarshall_none_iff_not_reach exG exG_wf 1 100 0 3 (by decide) (by decide) (by decide)).mp (by decide)
example : (floydWarshall exG.n (exG.weightMat 1 100 [] [])).get 0 2 = some 2 ↔
    (∃ mids, IsWalk exG 0 mids 2 ∧ 2 = 1 * (mids.length + 1)) ∧
      ∀ mids, IsWalk exG 0 mids 2 → 2 ≤ 1 * (mids.length + 1) :=
  (floydWarshall_default exG exG_wf 1 100 0 2 (by decide) (by decide)).1 2
end Examples

end BqVerif.Graph
