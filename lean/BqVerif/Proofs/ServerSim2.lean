import BqVerif.Proofs.ServerSim
/-! C13: the transitions of the tables re-establish the abstraction relation. -/
namespace BqVerif.Server

/-- the tables of `s'` are those of `closeTask s c ts t m` (read through `get?`) -/
structure ClosedLike (s s' : Srv) (c : Conn) (ts : List Tid) (t : Tid) (m : Mid) : Prop where
  tasks : s'.tasks = s.tasks
  clients : ∀ c', get? s'.clients c' = if c = c' then some (ts.filter (· != t)) else get? s.clients c'
  boxes : ∀ m', get? s'.boxes m' = if m = m' then none else get? s.boxes m'

theorem closedLike_closeTask (s : Srv) (c ts t m) : ClosedLike s (closeTask s c ts t m) c ts t m :=
  ⟨rfl, fun c' => by simp [closeTask, get?_set], fun m' => by simp [closeTask, get?_del]⟩

theorem R.close {s s' : Srv} {a : Abs} (h : Inv s) (r : R s a) {c ts t m}
    (hc : get? s.clients c = some ts) (ht : t ∈ ts) (h1 : get? s.tasks t = some (m, c))
    (p : ClosedLike s s' c ts t m) (st' : TaskSt)
    (hst' : st' = .delivered c ∨ st' = .cancelled c) : R s' (a.setTask t st') := by
  constructor
  · intro c'
    show a.conn c' = _
    rw [p.clients c', r.conn c']
    by_cases e : c = c'
    · subst e; simp [hc]
    · simp [e]
  · intro t'
    simp only [Abs.setTask]
    by_cases e : t' = t
    · subst e
      simp only [if_true]
      have : TaskRel s' t' (.delivered c) := by
        refine ⟨m, ts.filter (· != t'), by rw [p.tasks]; exact h1, by rw [p.clients c]; simp, ?_⟩
        simp [List.mem_filter]
      rcases hst' with x | x <;> subst x <;> exact this
    · simp only [e, if_false]
      refine (r.task t').frame (by rw [p.tasks]) ?_ ?_
      · intro m' c' ts' x y
        rw [p.clients c']
        by_cases e2 : c = c'
        · subst e2
          rw [hc] at y; cases y
          exact ⟨ts.filter (· != t), by simp, by simp [List.mem_filter, e]⟩
        · exact ⟨ts', by simp [e2, y], Iff.rfl⟩
      · intro m' c' x
        rw [p.boxes m']
        have : m ≠ m' := by
          intro e2; subst e2; exact e (h.mb_inj x h1)
        simp [this]

theorem R.setBox {s : Srv} {a : Abs} (h : Inv s) (r : R s a) {t m c} (b' : Box) (st' : TaskSt)
    (h1 : get? s.tasks t = some (m, c))
    (hst : TaskRel { s with boxes := set s.boxes m b' } t st') :
    R { s with boxes := set s.boxes m b' } (a.setTask t st') := by
  constructor
  · intro c'; exact r.conn c'
  · intro t'
    simp only [Abs.setTask]
    by_cases e : t' = t
    · subst e; simpa using hst
    · simp only [e, if_false]
      refine (r.task t').frame rfl (fun _ c' ts' _ y => ⟨ts', y, Iff.rfl⟩) ?_
      intro m' c' x
      have : m ≠ m' := by
        intro e2; subst e2; exact e (h.mb_inj x h1)
      simp [get?_set, this]

theorem R.submit {s : Srv} {a : Abs} (h : Inv s) (r : R s a) {c ts t}
    (hc : get? s.clients c = some ts) (hf : get? s.tasks t = none) :
    R (afterSubmit s c ts t) (a.setTask t (.running c false)) := by
  constructor
  · intro c'
    show a.conn c' = _
    simp only [afterSubmit, Srv.emit, get?_set]
    rw [r.conn c']
    by_cases e : c = c'
    · subst e; simp [hc]
    · simp [e]
  · intro t'
    simp only [Abs.setTask]
    by_cases e : t' = t
    · subst e
      simp only [if_true]
      exact ⟨s.counter, t' :: ts, by simp [afterSubmit, Srv.emit, get?_set],
        by simp [afterSubmit, Srv.emit, get?_set], by simp,
        by simp [afterSubmit, Srv.emit, get?_set]⟩
    · simp only [e, if_false]
      have e' : ¬ t = t' := fun z => e z.symm
      refine (r.task t').frame (by simp [afterSubmit, Srv.emit, get?_set, e']) ?_ ?_
      · intro m' c' ts' x y
        simp only [afterSubmit, Srv.emit, get?_set]
        by_cases e2 : c = c'
        · subst e2
          rw [hc] at y; cases y
          exact ⟨t :: ts, by simp, by simp [e]⟩
        · exact ⟨ts', by simp [e2, y], Iff.rfl⟩
      · intro m' c' x
        have : s.counter ≠ m' := Nat.ne_of_gt (h.tk _ _ _ x).2.2
        simp [afterSubmit, Srv.emit, get?_set, this]

theorem R.disc {s s' : Srv} {a : Abs} (h : Inv s) (r : R s a) {c} (p : DiscPost s c s') :
    R s' (a.drop c) := by
  constructor
  · intro c'
    rw [p.clients c']
    simp only [Abs.drop]
    by_cases e : c = c'
    · subst e; simp
    · have : ¬ c' = c := fun z => e z.symm
      simp [e, this, r.conn c']
  · intro t'
    simp only [Abs.drop]
    have ow := (r.task t').owner
    by_cases e : (a.task t').owner = some c
    · simp only [e, if_true, TaskRel]
      rw [p.tasks t']
      rw [e] at ow
      cases hx : get? s.tasks t' with
      | none => rfl
      | some x =>
        rw [hx] at ow; simp at ow
        simp [Option.filter, ow]
    · simp only [e, if_false]
      refine (r.task t').frame ?_ ?_ ?_
      · rw [p.tasks t']
        cases hx : get? s.tasks t' with
        | none => rfl
        | some x =>
          rw [hx] at ow
          have : x.2 ≠ c := by
            intro z; apply e; rw [ow]; simp [z]
          simp [Option.filter, this]
      · intro m' c' ts' x y
        have : ¬ c = c' := by
          intro z; subst z; apply e; rw [ow, x]; rfl
        exact ⟨ts', by rw [p.clients c']; simp [this, y], Iff.rfl⟩
      · intro m' c' x
        rw [p.boxes m', h.mbOwner_eq x]
        have : ¬ c' = c := by
          intro z; subst z; apply e; rw [ow, x]; rfl
        simp [this]

theorem R.connect {s : Srv} {a : Abs} (r : R s a) {c} (hc : get? s.clients c = none) :
    R { s with clients := set s.clients c [] }
      { a with conn := fun c' => if c' = c then true else a.conn c' } := by
  constructor
  · intro c'
    simp only [get?_set]
    by_cases e : c = c'
    · subst e; simp
    · have : ¬ c' = c := fun z => e z.symm
      simp [e, this, r.conn c']
  · intro t'
    refine (r.task t').frame rfl ?_ (fun _ _ _ => rfl)
    intro m' c' ts' x y
    have : ¬ c = c' := by
      intro z; subst z; rw [hc] at y; cases y
    exact ⟨ts', by simp [get?_set, this, y], Iff.rfl⟩

end BqVerif.Server
