import BqVerif.Model.NextHandout
namespace BqVerif.NextHandout

theorem run_inv {α : Type} : ∀ (es : List (Ev α)) (s : St α) (init : List α) (done : List α),
    s.c0 ++ s.c1 = init ++ done → (s.fresh1 = false → s.c1 = []) →
    (run s es).c0 ++ (run s es).c1 = init ++ (done ++ delivered es)
    ∧ ((run s es).fresh1 = false → (run s es).c1 = [])
    ∧ ((∃ e ∈ es, match e with | .a2 => True | _ => False) → (run s es).fresh1 = true)
    ∧ (s.fresh1 = true → (run s es).fresh1 = true)
  | [], s, init, done, h, h0 => by
    simp only [run, List.foldl_nil, delivered, List.append_nil]
    exact ⟨h, h0, by simp, id⟩
  | e :: t, s, init, done, h, h0 => by
    simp only [run, List.foldl_cons]
    cases e with
    | a1 =>
      have ih := run_inv t { s with outSet := true } init done h h0
      simp only [run, delivered] at ih ⊢
      refine ⟨ih.1, ih.2.1, ?_, ih.2.2.2⟩
      rintro ⟨e, he, hm⟩
      rcases List.mem_cons.1 he with rfl | he
      · cases hm
      · exact ih.2.2.1 ⟨e, he, hm⟩
    | a2 =>
      have ih := run_inv t { s with fresh1 := true } init done h (by simp)
      simp only [run, delivered] at ih ⊢
      exact ⟨ih.1, ih.2.1, fun _ => ih.2.2.2 trivial, fun _ => ih.2.2.2 trivial⟩
    | b x =>
      by_cases hf : s.fresh1 = true
      · have ih := run_inv t { s with c1 := s.c1 ++ [x] } init (done ++ [x])
          (by simp only; rw [← List.append_assoc, h, List.append_assoc]) (by simp [hf])
        simp only [run, step, hf, if_true, delivered] at ih ⊢
        refine ⟨by simpa [List.append_assoc] using ih.1, ih.2.1, ?_, fun _ => ih.2.2.2 trivial⟩
        rintro ⟨e, he, hm⟩
        rcases List.mem_cons.1 he with rfl | he
        · cases hm
        · exact ih.2.2.1 ⟨e, he, hm⟩
      · have hf' : s.fresh1 = false := by cases hs : s.fresh1 <;> simp_all
        have hc1 := h0 hf'
        have ih := run_inv t { s with c0 := s.c0 ++ [x] } init (done ++ [x])
          (by simp only; rw [hc1] at h ⊢; simp only [List.append_nil] at h ⊢; rw [h, List.append_assoc])
          (by simp only; exact h0)
        simp only [run, step, hf', Bool.false_eq_true, if_false, delivered] at ih ⊢
        refine ⟨by simpa [List.append_assoc] using ih.1, ih.2.1, ?_, fun hx => absurd hx (by simp [hf'])⟩
        rintro ⟨e, he, hm⟩
        rcases List.mem_cons.1 he with rfl | he
        · cases hm
        · exact ih.2.2.1 ⟨e, he, hm⟩

end BqVerif.NextHandout
