import BqVerif.Model.GateIdentityTable
import BqVerif.Generated.GateIdentity
/-!
# Gate identity (C18): the regenerated table, its coherence, and what coherence means

* `table_agree`, `table_coherent`, `known_incoherent` : `decide` over the table regenerated from
  the live classes (B-kind tie).
* `coherent_sound` : for EVERY semantics of values (`Sem`) that respects `compatible`, a coherent
  row maps two instances that `__eq__` identifies to the same hash key.
* `listSem`, `listSem_respects`, `compatible_tight` : a concrete semantics (values = lists of
  numbers) in which `compatible` is respected and in which the `false` entries that matter have
  counterexamples (set-equal levels in another order, dict items in insertion order, `allclose`
  against corner entries, operations with other parameters).
-/
namespace BqVerif.GateIdentity

theorem table_agree : Generated.gateIdentity = identityTable := by decide +kernel

/-- checked on the REGENERATED table itself (not through `table_agree`): updating the expected
table after a change of `__eq__`/`__hash__` does not discharge coherence -/
theorem table_coherent :
    ∀ r ∈ Generated.gateIdentity, r.cls ∉ knownIncoherent → coherent r = true := by
  decide +kernel

theorem known_incoherent :
    ∀ c ∈ knownIncoherent, ∃ r ∈ Generated.gateIdentity, r.cls = c ∧ coherent r = false := by
  decide +kernel

theorem repaired_coherent :
    ∀ c ∈ ["CircuitGate", "TaggedGate"], c ∉ knownIncoherent ∧
      ∃ r ∈ Generated.gateIdentity, r.cls = c ∧ r.hashBy ≠ "object" ∧ coherent r = true := by
  decide +kernel

/-! ## Semantics -/

/-- values of attributes, hash keys, the meaning of every comparison and hash function -/
structure Sem where
  V : Type
  K : Type
  rel : Rel → V → V → Prop
  fn : Fn → V → K

/-- `compatible` is sound in `S` -/
def Sem.Respects (S : Sem) : Prop :=
  ∀ r f, compatible r f = true → ∀ x y, S.rel r x y → S.fn f x = S.fn f y

/-- a gate instance: the value at every root path -/
abbrev Inst (S : Sem) := String → S.V

/-- `__eq__` of row `r` identifies `a` and `b`: every compared value is related -/
def eqHolds (S : Sem) (r : IdRow) (a b : Inst S) : Prop :=
  ∀ e ∈ r.eqAcc, S.rel (relIn r e) (a e.root) (b e.root)

def isInput (h : Acc) : Bool := !(fnOf h = .guard || fnOf h = .const)

/-- what `__hash__` of row `r` hashes -/
def hashKey (S : Sem) (r : IdRow) (a : Inst S) : List S.K :=
  (r.hashAcc.filter isInput).map (fun h => S.fn (fnOf h) (a h.root))

/-- the two instances are instances of class `r.cls`: derived attributes are functions of the
attributes they are computed from (`derived`), and equal `__dict__`s mean equal attributes -/
structure WF (S : Sem) (r : IdRow) (a b : Inst S) : Prop where
  derivedOK : ∀ d ∈ derived, d.1 = r.cls →
    (∀ dep ∈ d.2.2, S.rel .exact (a dep) (b dep)) → S.fn .ident (a d.2.1) = S.fn .ident (b d.2.1)
  dictAll : ∀ e ∈ r.eqAcc, relIn r e = .everything → S.rel .everything (a e.root) (b e.root) →
    ∀ f p, S.fn f (a p) = S.fn f (b p)

theorem coherent_sound (S : Sem) (hS : S.Respects) (r : IdRow) (hne : r.hashBy ≠ "object")
    (hc : coherent r = true) (a b : Inst S) (wf : WF S r a b) (heq : eqHolds S r a b) :
    hashKey S r a = hashKey S r b := by
  have hall : ∀ h ∈ r.hashAcc, covered r h = true := by
    simp only [coherent, Bool.or_eq_true, Bool.and_eq_true, decide_eq_true_eq,
      List.all_eq_true] at hc
    rcases hc with ⟨_, h2⟩ | ⟨_, h3⟩
    · exact absurd h2 hne
    · exact h3
  unfold hashKey
  apply List.map_congr_left
  intro h hm
  rw [List.mem_filter] at hm
  obtain ⟨hmem, hin⟩ := hm
  have hcov := hall h hmem
  simp only [isInput, Bool.not_eq_true', Bool.or_eq_false_iff, decide_eq_false_iff_not] at hin
  simp only [covered, Bool.or_eq_true, Bool.and_eq_true, decide_eq_true_eq, List.any_eq_true,
    List.all_eq_true] at hcov
  rcases hcov with (((hg | hk) | ⟨e, he, hev⟩) | ⟨e, he, hroot, hcomp⟩) | ⟨hid, d, hd, ⟨hcls, hp⟩, hdeps⟩
  · exact absurd hg hin.1
  · exact absurd hk hin.2
  · have hr := heq e he
    rw [hev] at hr
    exact wf.dictAll e he hev hr _ _
  · have := hS _ _ hcomp _ _ (heq e he)
    rw [hroot] at this
    exact this
  · rw [hid, ← hp]
    apply wf.derivedOK d hd hcls
    intro dep hdep
    obtain ⟨e, he, hr, hx⟩ := hdeps dep hdep
    have := heq e he
    rw [hx, hr] at this
    exact this

/-! ## A concrete semantics -/

/-- values: lists of numbers (a tuple, the levels of a control, the item codes of a dict, the
entries of a matrix, the operation codes `2·(gate, location) + parameter bit` of a circuit) -/
def listSem : Sem where
  V := List Nat
  K := List Nat
  rel
    | .exact, x, y => x = y
    | .dictEq, x, y => x.Perm y
    | .anyEq, x, y => x.Perm y
    | .approx, x, y => x.length = y.length ∧
        (x.zip y).all (fun p => decide (p.1 ≤ p.2 + 1) && decide (p.2 ≤ p.1 + 1)) = true
    | .setOfEach, x, y => ∀ n, n ∈ x ↔ n ∈ y
    | .opsGateLoc, x, y => x.map (· / 2) = y.map (· / 2)
    | .everything, x, y => x = y
    | .guard, _, _ => True
    | .unknown, _, _ => True
  fn
    | .ident, x => x
    | .sortedItems, x => x.mergeSort (fun a b => decide (a ≤ b))
    | .orderedItems, x => x
    | .corner, x => x.take 1
    | .opsHash, x => x.map (· / 2)
    | .hashOrDrop, x => x.mergeSort (fun a b => decide (a ≤ b))
    | .const, _ => []
    | .guard, _ => []
    | .unknown, x => x

theorem mergeSort_eq_of_perm {x y : List Nat} (h : x.Perm y) :
    x.mergeSort (fun a b => decide (a ≤ b)) = y.mergeSort (fun a b => decide (a ≤ b)) := by
  have tr : ∀ a b c : Nat, decide (a ≤ b) = true → decide (b ≤ c) = true →
      decide (a ≤ c) = true := by
    intro a b c h1 h2; simp only [decide_eq_true_eq] at *; omega
  have tot : ∀ a b : Nat, (decide (a ≤ b) || decide (b ≤ a)) = true := by
    intro a b; simp only [Bool.or_eq_true, decide_eq_true_eq]; omega
  apply List.Perm.eq_of_pairwise (le := fun a b => decide (a ≤ b) = true)
  · intro a b _ _ h1 h2; simp only [decide_eq_true_eq] at *; omega
  · exact List.pairwise_mergeSort tr tot x
  · exact List.pairwise_mergeSort tr tot y
  · exact (List.mergeSort_perm x _).trans (h.trans (List.mergeSort_perm y _).symm)

theorem listSem_respects : listSem.Respects := by
  intro r f hc x y hxy
  cases r <;> cases f <;> simp only [compatible] at hc <;> try (exact absurd hc (by decide))
  all_goals first
    | (simp only [listSem] at hxy ⊢; subst hxy; rfl)
    | (simp only [listSem] at hxy ⊢; exact mergeSort_eq_of_perm hxy)
    | (simp only [listSem] at hxy ⊢; exact hxy)

/-- the `false` entries of `compatible` that the findings / the seeded change rest on are
really false in `listSem`: related values with different hash keys -/
theorem compatible_tight :
    (∃ x y, listSem.rel .setOfEach x y ∧ listSem.fn .ident x ≠ listSem.fn .ident y) ∧
    (∃ x y, listSem.rel .dictEq x y ∧ listSem.fn .orderedItems x ≠ listSem.fn .orderedItems y) ∧
    (∃ x y, listSem.rel .anyEq x y ∧ listSem.fn .ident x ≠ listSem.fn .ident y) ∧
    (∃ x y, listSem.rel .approx x y ∧ listSem.fn .corner x ≠ listSem.fn .corner y) ∧
    (∃ x y, listSem.rel .opsGateLoc x y ∧ listSem.fn .ident x ≠ listSem.fn .ident y) := by
  refine ⟨⟨[0, 1], [1, 0], ?_, by simp [listSem]⟩, ⟨[0, 1], [1, 0], ?_, by simp [listSem]⟩,
    ⟨[0, 1], [1, 0], ?_, by simp [listSem]⟩, ⟨[0], [1], ?_, by simp [listSem]⟩,
    ⟨[0], [1], ?_, by simp [listSem]⟩⟩
  · intro n; simp only [List.mem_cons, List.not_mem_nil, or_false]; omega
  · exact List.Perm.swap 1 0 []
  · exact List.Perm.swap 1 0 []
  · simp [listSem]
  · simp [listSem]

end BqVerif.GateIdentity
