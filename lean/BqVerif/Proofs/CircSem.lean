import BqVerif.Proofs.CircRel
import BqVerif.Proofs.CircTimeline2
import BqVerif.Proofs.CircQudit
/-! S2: relabelling the qudits conjugates the denotation — in any semantics with a relabelling
action that is a monoid homomorphism compatible with the gate semantics (C04). -/
namespace BqVerif.Circ
variable {M : Type} [Monoid M]

theorem den_nil (sem : Op → M) : den sem [] = 1 := by simp [den]
theorem den_cons (sem : Op → M) (a : Op) (l : List Op) : den sem (a :: l) = sem a * den sem l := by
  simp [den]
theorem den_append (sem : Op → M) (l1 l2 : List Op) :
    den sem (l1 ++ l2) = den sem l1 * den sem l2 := by
  simp [den, List.map_append, List.prod_append]

/-- **list level**: the denotation of the relabelled sequence is the action on the denotation -/
theorem den_map_relabel (sem : Op → M) (act : M → M) (h1 : act 1 = 1)
    (hmul : ∀ a b, act (a * b) = act a * act b) (ρ : Nat → Nat)
    (hsem : ∀ o, sem (o.relabel ρ) = act (sem o)) (l : List Op) :
    den sem (l.map (Op.relabel ρ)) = act (den sem l) := by
  induction l with
  | nil => simp [den_nil, h1]
  | cons a t ih => rw [List.map_cons, den_cons, den_cons, hmul, ih, hsem]

theorem mapLocs_ops (c : Circ) (f : Nat → Nat) (rad' : List Nat) :
    (Circ.mk rad' (c.mapLocs f)).ops = c.ops.map (Op.relabel f) := by
  simp only [Circ.ops, Circ.mapLocs, List.map_flatten]
  rfl

/-- **circuit level**: for an injective relabelling, the relabelled circuit (whatever order its
iterator picks) denotes the action on the original denotation -/
theorem relabel_circuit_den (sem : Op → M)
    (hcomm : ∀ a b, Indep a b → sem a * sem b = sem b * sem a) (act : M → M) (h1 : act 1 = 1)
    (hmul : ∀ a b, act (a * b) = act a * act b) (f : Nat → Nat) (hf : Function.Injective f)
    (hsem : ∀ o, sem (o.relabel f) = act (sem o)) (c : Circ) (rad' : List Nat) (hinv : c.Inv)
    (hinv' : (Circ.mk rad' (c.mapLocs f)).Inv) :
    den sem (Circ.mk rad' (c.mapLocs f)).iter = act (den sem c.iter) := by
  rw [← den_map_relabel sem act h1 hmul f hsem]
  have l1 := inv_iter_locs _ hinv'
  have l2 := inv_iter_locs c hinv
  unfold den
  apply trace_equiv sem hcomm _ _ l1.1
  · intro o ho
    rw [List.mem_map] at ho
    obtain ⟨x, hx, rfl⟩ := ho
    simpa [Op.relabel] using l2.1 x hx
  · intro q
    rw [proj_iter _ hinv']
    unfold Circ.timeline
    rw [mapLocs_ops]
    by_cases hq : ∃ q0, f q0 = q
    · obtain ⟨q0, rfl⟩ := hq
      rw [proj_relabel f hf, proj_relabel f hf, proj_iter c hinv]; rfl
    · have hq' : ∀ q0, f q0 ≠ q := fun q0 h => hq ⟨q0, h⟩
      rw [proj_relabel_off f q hq', proj_relabel_off f q hq']

/-- the globally injective extension of a permutation given as a list -/
def permFun (n : Nat) (perm : List Nat) : Nat → Nat := fun q => if q < n then perm.getD q 0 else q

theorem permFun_injective (n : Nat) (perm : List Nat) (hlen : perm.length = n) (hnd : perm.Nodup)
    (hrange : ∀ x ∈ perm, x < n) : Function.Injective (permFun n perm) := by
  intro a b hab
  unfold permFun at hab
  have hin : ∀ a, a < n → perm.getD a 0 < n := by
    intro a ha
    apply hrange
    rw [getD_nat_of_lt _ _ (by omega)]
    exact List.getElem_mem _
  by_cases ha : a < n <;> by_cases hb : b < n
  · simp only [ha, hb, if_true] at hab
    have h1 := idxOf_getD_of_nodup perm a (by omega) hnd
    have h2 := idxOf_getD_of_nodup perm b (by omega) hnd
    rw [hab] at h1; omega
  · simp only [ha, hb, if_true, if_false] at hab
    have := hin a ha; omega
  · simp only [ha, hb, if_true, if_false] at hab
    have := hin b hb; omega
  · simpa [ha, hb] using hab

/-- **renumber_qudits conjugates the unitary** -/
theorem renumber_conjugates (sem : Op → M)
    (hcomm : ∀ a b, Indep a b → sem a * sem b = sem b * sem a) (act : M → M) (h1 : act 1 = 1)
    (hmul : ∀ a b, act (a * b) = act a * act b) (c : Circ) (perm : List Nat) (hinv : c.Inv)
    (hok : permOk c.numQudits perm = true)
    (hsem : ∀ o, sem (o.relabel (permFun c.numQudits perm)) = act (sem o)) :
    (c.renumber perm).2 = .ok () ∧
      den sem (c.renumber perm).1.iter = act (den sem c.iter) := by
  simp only [permOk, Bool.and_eq_true, beq_iff_eq, List.all_eq_true, decide_eq_true_eq] at hok
  obtain ⟨⟨hlen, hnd⟩, hrange⟩ := hok
  have hnd' : perm.Nodup := (renumber_inv.nodupL_iff' perm).1 hnd
  have hinv' := renumber_inv c perm hinv hrange
  have hren : c.renumber perm =
      (⟨(List.range c.numQudits).map (fun q => c.radixes.getD (perm.idxOf q) 0),
        c.mapLocs (permFun c.numQudits perm)⟩, .ok ()) := by
    unfold Circ.renumber
    have e1 : (perm.length != c.numQudits) = false := by simp [hlen]
    have e2 : (!nodupL perm) = false := by simp [hnd]
    rw [if_neg (by simp [e1]), if_neg (by simp [e2])]
    congr 2
    simp only [Circ.mapLocs]
    apply List.map_congr_left
    intro cy hcy
    apply List.map_congr_left
    intro o ho
    congr 1
    apply List.map_congr_left
    intro q hq
    have := (hinv.2.2 cy hcy o ho).2.2.1 q hq
    simp [permFun, this]
  rw [hren] at hinv' ⊢
  refine ⟨rfl, ?_⟩
  exact relabel_circuit_den sem hcomm act h1 hmul _
    (permFun_injective _ perm hlen hnd' hrange) hsem c _ hinv hinv'

/-- **insert_qudit conjugates the unitary** (the branch that shifts the qudits from `k` on) -/
theorem insertQudit_conjugates (sem : Op → M)
    (hcomm : ∀ a b, Indep a b → sem a * sem b = sem b * sem a) (act : M → M) (h1 : act 1 = 1)
    (hmul : ∀ a b, act (a * b) = act a * act b) (c : Circ) (qi r : Int) (hinv : c.Inv)
    (hr : ¬ r < 2) (hq : ¬ qi ≥ (c.numQudits : Int))
    (hsem : ∀ o, sem (o.relabel (fun q =>
      if q < (if qi ≤ -(c.numQudits : Int) then 0 else normIdx c.numQudits qi) then q else q + 1)) =
        act (sem o)) :
    den sem (c.insertQudit qi r).1.iter = act (den sem c.iter) := by
  have hinv' := insertQudit_inv c qi r hinv
  unfold Circ.insertQudit at hinv' ⊢
  rw [if_neg hr, if_neg hq] at hinv' ⊢
  generalize (if qi ≤ -(c.numQudits : Int) then 0 else normIdx c.numQudits qi) = k at hinv' hsem ⊢
  exact relabel_circuit_den sem hcomm act h1 hmul _
    (fun a b h => by split at h <;> split at h <;> omega) hsem c _ hinv hinv'

/-! ## S3: blocks -/
/-- **list level**: replacing a block operation by its expansion (body in iteration order,
parameters distributed, relabelled through the block's location) keeps the denotation, in any
semantics that reads a block as the ordered product of its contents -/
theorem den_expand_one (sem : Op → M) (b : Blocks)
    (hblock : ∀ o inner, expandOp b o = some inner → sem o = den sem inner)
    (pre post : List Op) (blk : Op) (inner : List Op) (h : expandOp b blk = some inner) :
    den sem (pre ++ inner ++ post) = den sem (pre ++ blk :: post) := by
  rw [den_append, den_append, den_append, den_cons, hblock blk inner h, mul_assoc]

/-- **full flattening keeps the denotation**, to any depth -/
theorem den_flattenOps (sem : Op → M) (b : Blocks)
    (hblock : ∀ o inner, expandOp b o = some inner → sem o = den sem inner)
    (fuel : Nat) (l : List Op) : den sem (flattenOps b fuel l) = den sem l := by
  induction fuel generalizing l with
  | zero => rfl
  | succ fuel ih =>
    simp only [flattenOps]
    induction l with
    | nil => rfl
    | cons a t iht =>
      rw [List.flatMap_cons, den_append, iht, den_cons]
      congr 1
      cases he : expandOp b a with
      | none => simp [den]
      | some body => simp only; rw [ih body, hblock a body he]

end BqVerif.Circ
