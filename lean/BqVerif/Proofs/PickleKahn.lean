import BqVerif.Model.Pickle
/-!
The heap-ordered Kahn walk `Circ.iterKahn` (model of `CircuitDagIterator`) yields cycle
indices in non-decreasing order, all in range — for EVERY circuit (no invariant needed):
the frontier is kept sorted lexicographically, every successor pushed lies in a strictly later
cycle than the point just popped, so the popped minimum never decreases.
(That it yields each operation exactly once is C05's `iter_kahn_eq_rowmajor`; C16 keeps that
part as an explicit hypothesis.)  Core Lean only.
-/
namespace BqVerif.Circ

def lexLe (a b : Nat × Nat) : Prop := a.1 < b.1 ∨ (a.1 = b.1 ∧ a.2 ≤ b.2)

theorem lexLe_trans {a b c : Nat × Nat} (h1 : lexLe a b) (h2 : lexLe b c) : lexLe a c := by
  unfold lexLe at *; omega

theorem lexLe_total (a b : Nat × Nat) : lexLe a b ∨ lexLe b a := by
  unfold lexLe; omega

theorem insertPt_cond (x y : Nat × Nat) :
    (x.1 < y.1 || (x.1 == y.1 && x.2 ≤ y.2)) = true ↔ lexLe x y := by
  simp [lexLe]

theorem mem_insertPt (x z : Nat × Nat) (l : List (Nat × Nat)) :
    z ∈ insertPt x l ↔ z = x ∨ z ∈ l := by
  induction l with
  | nil => simp [insertPt]
  | cons y ys ih =>
    simp only [insertPt]
    split
    · simp
    · simp [ih]; constructor
      · rintro (h | h | h) <;> simp [h]
      · rintro (h | h | h) <;> simp [h]

theorem insertPt_sorted (x : Nat × Nat) (l : List (Nat × Nat)) (h : l.Pairwise lexLe) :
    (insertPt x l).Pairwise lexLe := by
  induction l with
  | nil => simp [insertPt]
  | cons y ys ih =>
    have hy := List.pairwise_cons.1 h
    simp only [insertPt]
    split
    · rename_i hc
      have hxy := (insertPt_cond x y).1 hc
      refine List.pairwise_cons.2 ⟨?_, h⟩
      intro z hz
      rcases List.mem_cons.1 hz with rfl | hz
      · exact hxy
      · exact lexLe_trans hxy (hy.1 z hz)
    · rename_i hc
      have hyx : lexLe y x := by
        rcases lexLe_total x y with h' | h'
        · exact absurd ((insertPt_cond x y).2 h') hc
        · exact h'
      refine List.pairwise_cons.2 ⟨?_, ih hy.2⟩
      intro z hz
      rcases (mem_insertPt x z ys).1 hz with rfl | hz
      · exact hyx
      · exact hy.1 z hz

theorem zipIdx_index_ge {α : Type} (l : List α) (k : Nat) (p : α × Nat) (h : p ∈ l.zipIdx k) :
    k ≤ p.2 := by
  induction l generalizing k with
  | nil => simp at h
  | cons a l ih =>
    simp only [List.zipIdx_cons, List.mem_cons] at h
    rcases h with rfl | h
    · simp
    · have := ih (k + 1) h; omega

theorem zipIdx_drop_index_ge {α : Type} (l : List α) (k n : Nat) (p : α × Nat)
    (h : p ∈ (l.zipIdx k).drop n) : k + n ≤ p.2 := by
  induction l generalizing k n with
  | nil => simp at h
  | cons a l ih =>
    cases n with
    | zero => simpa using zipIdx_index_ge (a :: l) k p (by simpa using h)
    | succ n =>
      simp only [List.zipIdx_cons, List.drop_succ_cons] at h
      have := ih (k + 1) n h; omega

theorem mem_dedupPts (l : List (Nat × Nat)) (x : Nat × Nat) (h : x ∈ dedupPts l) : x ∈ l := by
  induction l with
  | nil => simp [dedupPts] at h
  | cons a l ih =>
    simp only [dedupPts] at h
    split at h
    · exact List.mem_cons_of_mem _ (ih h)
    · rcases List.mem_cons.1 h with rfl | h
      · simp
      · exact List.mem_cons_of_mem _ (ih h)

theorem nextOn_gt (c : Circ) (k q : Nat) (r : Nat × Nat) (h : c.nextOn k q = some r) : k < r.1 := by
  unfold Circ.nextOn at h
  obtain ⟨p, hp, hf⟩ := List.exists_of_findSome?_eq_some h
  have hge := zipIdx_drop_index_ge c.cycles 0 (k + 1) p hp
  cases hc : cellOf p.1 q with
  | none => simp [hc] at hf
  | some o =>
    simp [hc] at hf
    rw [← hf]; simp; omega

theorem next_gt (c : Circ) (k : Nat) (o : Op) (r : Nat × Nat) (h : r ∈ c.next k o) : k < r.1 := by
  unfold Circ.next at h
  have h2 := mem_dedupPts _ _ h
  obtain ⟨q, _, hq⟩ := List.mem_filterMap.1 h2
  exact nextOn_gt c k q r hq


def kStep (c : Circ) (s : KState) (succ : Nat × Nat) : KState :=
  let cs := kBump s.counts succ
  let total := match c.cell succ.1 succ.2 with
    | some so => (c.prev succ.1 so).length
    | none => 0
  if kCount cs succ == total then { s with counts := cs, frontier := insertPt succ s.frontier }
  else { s with counts := cs }

theorem kahnLoop_succ (c : Circ) (fuel : Nat) (s : KState) :
    c.kahnLoop (fuel + 1) s =
      match s.frontier with
      | [] => s.out
      | p :: rest =>
        match c.cell p.1 p.2 with
        | none => s.out
        | some o =>
          let s2 := (c.next p.1 o).foldl (kStep c) { s with frontier := rest }
          c.kahnLoop fuel { s2 with out := s2.out ++ [(p.1, o)] } := by
  rfl

theorem kStep_cases (c : Circ) (s : KState) (x : Nat × Nat) :
    kStep c s x = { s with counts := kBump s.counts x, frontier := insertPt x s.frontier } ∨
    kStep c s x = { s with counts := kBump s.counts x } := by
  unfold kStep
  simp only
  split <;> split <;> simp

theorem kStep_fold_out (c : Circ) (succs : List (Nat × Nat)) (s : KState) :
    (succs.foldl (kStep c) s).out = s.out := by
  induction succs generalizing s with
  | nil => rfl
  | cons x xs ih =>
    simp only [List.foldl_cons]
    rw [ih]
    rcases kStep_cases c s x with h | h <;> rw [h]

theorem kStep_fold (c : Circ) (b : Nat) (succs : List (Nat × Nat)) (hall : ∀ x ∈ succs, b ≤ x.1)
    (s : KState) (hs : s.frontier.Pairwise lexLe) (hb : ∀ q ∈ s.frontier, b ≤ q.1) :
    let r := succs.foldl (kStep c) s
    r.frontier.Pairwise lexLe ∧ (∀ q ∈ r.frontier, b ≤ q.1) ∧ r.out = s.out := by
  induction succs generalizing s with
  | nil => exact ⟨hs, hb, rfl⟩
  | cons x xs ih =>
    simp only [List.foldl_cons]
    have hx := hall x (by simp)
    have hstep : (kStep c s x).frontier.Pairwise lexLe ∧ (∀ q ∈ (kStep c s x).frontier, b ≤ q.1) ∧
        (kStep c s x).out = s.out := by
      rcases kStep_cases c s x with h | h <;> rw [h]
      · refine ⟨insertPt_sorted x _ hs, ?_, rfl⟩
        intro q hq
        rcases (mem_insertPt x q _).1 hq with rfl | hq
        · exact hx
        · exact hb q hq
      · exact ⟨hs, hb, rfl⟩
    have := ih (fun y hy => hall y (by simp [hy])) (kStep c s x) hstep.1 hstep.2.1
    simp only at this
    exact ⟨this.1, this.2.1, this.2.2.trans hstep.2.2⟩

structure KInv (s : KState) : Prop where
  fs : s.frontier.Pairwise lexLe
  os : (s.out.map (·.1)).Pairwise (· ≤ ·)
  ob : ∀ x ∈ s.out, ∀ p ∈ s.frontier, x.1 ≤ p.1

theorem kahnLoop_sorted (c : Circ) (fuel : Nat) (s : KState) (h : KInv s) :
    ((c.kahnLoop fuel s).map (·.1)).Pairwise (· ≤ ·) := by
  induction fuel generalizing s with
  | zero => exact h.os
  | succ fuel ih =>
    rw [kahnLoop_succ]
    cases hf : s.frontier with
    | nil => exact h.os
    | cons p rest =>
      simp only
      cases hc : c.cell p.1 p.2 with
      | none => exact h.os
      | some o =>
        simp only
        have hfs := h.fs
        rw [hf] at hfs
        have hp := List.pairwise_cons.1 hfs
        have hrest : ∀ q ∈ rest, p.1 ≤ q.1 := by
          intro q hq
          have := hp.1 q hq
          unfold lexLe at this; omega
        have hfold := kStep_fold c p.1 (c.next p.1 o)
          (fun x hx => Nat.le_of_lt (next_gt c p.1 o x hx)) { s with frontier := rest } hp.2 hrest
        simp only at hfold
        obtain ⟨g1, g2, g3⟩ := hfold
        apply ih
        have hout : ∀ x ∈ s.out, x.1 ≤ p.1 := fun x hx => h.ob x hx p (by rw [hf]; simp)
        refine ⟨g1, ?_, ?_⟩
        · simp only [g3, List.map_append, List.map_cons, List.map_nil]
          rw [List.pairwise_append]
          refine ⟨h.os, by simp, ?_⟩
          intro a ha b hb
          simp only [List.mem_singleton] at hb
          subst hb
          obtain ⟨x, hx, rfl⟩ := List.mem_map.1 ha
          exact hout x hx
        · intro x hx q hq
          simp only [g3, List.mem_append, List.mem_singleton] at hx
          have hq' := g2 q hq
          rcases hx with hx | rfl
          · exact Nat.le_trans (hout x hx) hq'
          · exact hq'

theorem foldr_insertPt_sorted (l : List (Nat × Nat)) : (l.foldr insertPt []).Pairwise lexLe := by
  induction l with
  | nil => exact List.Pairwise.nil
  | cons x xs ih => exact insertPt_sorted x _ ih

theorem iterKahn_sorted (c : Circ) : ((c.iterKahn).map (·.1)).Pairwise (· ≤ ·) := by
  unfold Circ.iterKahn
  apply kahnLoop_sorted
  exact ⟨foldr_insertPt_sorted _, by simp, by simp⟩

theorem cell_some_lt (c : Circ) (k q : Nat) (o : Op) (h : c.cell k q = some o) : k < c.numCycles := by
  unfold Circ.cell at h
  by_cases hk : k < c.cycles.length
  · exact hk
  · have : c.cycles.getD k [] = [] := by
      simp [List.getD, List.getElem?_eq_none (Nat.le_of_not_lt hk)]
    rw [this] at h; simp at h

theorem kahnLoop_range (c : Circ) (fuel : Nat) (s : KState)
    (h : ∀ x ∈ s.out, x.1 < c.numCycles) : ∀ x ∈ c.kahnLoop fuel s, x.1 < c.numCycles := by
  induction fuel generalizing s with
  | zero => exact h
  | succ fuel ih =>
    rw [kahnLoop_succ]
    cases hf : s.frontier with
    | nil => exact h
    | cons p rest =>
      simp only
      cases hc : c.cell p.1 p.2 with
      | none => exact h
      | some o =>
        simp only
        apply ih
        intro x hx
        simp only [kStep_fold_out, List.mem_append, List.mem_singleton] at hx
        rcases hx with hx | rfl
        · exact h x hx
        · exact cell_some_lt c _ _ o hc

theorem iterKahn_range (c : Circ) : ∀ x ∈ c.iterKahn, x.1 < c.numCycles := by
  unfold Circ.iterKahn
  apply kahnLoop_range
  simp


theorem pairwise_sortedNat (l : List Nat) (h : l.Pairwise (· ≤ ·)) : sortedNat l = true := by
  induction l with
  | nil => rfl
  | cons a t ih =>
    cases t with
    | nil => rfl
    | cons b t' =>
      have hp := List.pairwise_cons.1 h
      simp only [sortedNat, Bool.and_eq_true, decide_eq_true_eq]
      exact ⟨hp.1 b (by simp), ih hp.2⟩

/-- the part of `iterOkB` that remains a hypothesis for the DAG iterator: the items carrying
cycle index `k` are exactly the operations of cycle `k` -/
def Circ.kahnCovers (c : Circ) : Bool :=
  (List.range c.numCycles).all (fun k =>
    Circ.iterOkB.permOpsL ((c.iterKahn.filter (fun x => x.1 == k)).map (·.2)) (c.cycles.getD k []))

theorem iterOkB_kahn (c : Circ) (h : c.kahnCovers = true) : c.iterOkB c.iterKahn = true := by
  unfold Circ.iterOkB
  simp only [Bool.and_eq_true]
  refine ⟨⟨pairwise_sortedNat _ (iterKahn_sorted c), ?_⟩, h⟩
  rw [List.all_eq_true]
  intro x hx
  exact decide_eq_true (iterKahn_range c x hx)

end BqVerif.Circ
