import BqVerif.Model.Sched
/-! Lemmas about `assign_tasks` (partition, idle-first) and routing arithmetic. -/
namespace BqVerif.Runtime

-- ------------------------------------------------------------------ appendAt
theorem appendAt_length {α} (asg : List (List α)) (i : Nat) (x : α) :
    (appendAt asg i x).length = asg.length := by
  induction asg generalizing i with
  | nil => rfl
  | cons l ls ih => cases i <;> simp [appendAt, ih]

theorem appendAt_flatten_perm {α} (asg : List (List α)) (i : Nat) (x : α) (h : i < asg.length) :
    (appendAt asg i x).flatten.Perm (x :: asg.flatten) := by
  induction asg generalizing i with
  | nil => simp at h
  | cons l ls ih =>
    cases i with
    | zero =>
      simp only [appendAt, List.flatten_cons, List.append_assoc, List.singleton_append]
      exact List.perm_middle
    | succ i =>
      simp only [appendAt, List.flatten_cons]
      have := ih i (by simpa using h)
      exact (List.Perm.append_left l this).trans List.perm_middle

theorem appendAt_getD_length {α} (asg : List (List α)) (i e : Nat) (x : α) :
    ((appendAt asg i x).getD e []).length
      = (asg.getD e []).length + (if i = e ∧ e < asg.length then 1 else 0) := by
  induction asg generalizing i e with
  | nil => simp [appendAt]
  | cons l ls ih =>
    cases i with
    | zero =>
      cases e with
      | zero => simp [appendAt]
      | succ e => simp [appendAt]
    | succ i =>
      cases e with
      | zero => simp [appendAt]
      | succ e =>
        simp only [appendAt, List.getD_cons_succ, List.length_cons]
        rw [ih i e]
        simp

-- ----------------------------------------------------------------- zipAssign
theorem zipAssign_length {α} (asg : List (List α)) (is : List Nat) (ts : List α) :
    (zipAssign asg is ts).length = asg.length := by
  induction is generalizing asg ts with
  | nil => simp [zipAssign]
  | cons i is ih =>
    cases ts with
    | nil => simp [zipAssign]
    | cons t ts => simp [zipAssign, ih, appendAt_length]

theorem zipAssign_flatten_perm {α} (asg : List (List α)) (is : List Nat) (ts : List α)
    (h : ∀ i ∈ is, i < asg.length) :
    (zipAssign asg is ts).flatten.Perm (asg.flatten ++ ts.take is.length) := by
  induction is generalizing asg ts with
  | nil => simp [zipAssign]
  | cons i is ih =>
    cases ts with
    | nil => simp [zipAssign]
    | cons t ts =>
      simp only [zipAssign, List.length_cons, List.take_succ_cons]
      have h1 : ∀ j ∈ is, j < (appendAt asg i t).length := by
        intro j hj; rw [appendAt_length]; exact h j (List.mem_cons_of_mem _ hj)
      refine (ih (appendAt asg i t) ts h1).trans ?_
      have h2 := appendAt_flatten_perm asg i t (h i (List.mem_cons_self))
      refine (List.Perm.append_right _ h2).trans ?_
      simp only [List.cons_append]
      exact List.perm_middle.symm

theorem zipAssign_getD_length {α} (asg : List (List α)) (is : List Nat) (ts : List α) (e : Nat)
    (he : e < asg.length) :
    ((zipAssign asg is ts).getD e []).length
      = (asg.getD e []).length + (is.take ts.length).count e := by
  induction is generalizing asg ts with
  | nil => simp [zipAssign]
  | cons i is ih =>
    cases ts with
    | nil => simp [zipAssign]
    | cons t ts =>
      simp only [zipAssign, List.length_cons, List.take_succ_cons]
      rw [ih (appendAt asg i t) ts (by rw [appendAt_length]; exact he), appendAt_getD_length,
        List.count_cons]
      by_cases hie : i = e
      · subst hie; simp [he]; omega
      · simp [hie]

-- -------------------------------------------------------------------- bubble
theorem bubble_perm (l : List LoadKey) : (bubble l).Perm l := by
  fun_induction bubble l with
  | case1 a b t h ih => exact (List.Perm.cons b ih).trans (List.Perm.swap a b t)
  | case2 a b t h => exact List.Perm.refl _
  | case3 l h => exact List.Perm.refl _

theorem insertKey_perm (k : LoadKey) (l : List LoadKey) : (insertKey k l).Perm (k :: l) := by
  induction l with
  | nil => simp [insertKey]
  | cons b t ih =>
    simp only [insertKey]
    split
    · exact (List.Perm.cons b ih).trans (List.Perm.swap k b t)
    · exact List.Perm.refl _

theorem sortKeys_perm (l : List LoadKey) : (sortKeys l).Perm l := by
  induction l with
  | nil => simp [sortKeys]
  | cons a t ih =>
    simp only [sortKeys, List.foldr_cons]
    exact (insertKey_perm a _).trans (List.Perm.cons a ih)

-- ----------------------------------------------------------------- leastLoop
theorem leastLoop_length {α} (asg : List (List α)) (ks : List LoadKey) (ts : List α) :
    (leastLoop asg ks ts).length = asg.length := by
  fun_induction leastLoop asg ks ts with
  | case1 asg ks => rfl
  | case2 asg t ts => rfl
  | case3 asg n r e ks t ts ih => rw [ih, appendAt_length]

theorem leastLoop_flatten_perm {α} (asg : List (List α)) (ks : List LoadKey) (ts : List α)
    (hne : ks ≠ []) (h : ∀ k ∈ ks, k.2.2 < asg.length) :
    (leastLoop asg ks ts).flatten.Perm (asg.flatten ++ ts) := by
  fun_induction leastLoop asg ks ts with
  | case1 asg ks => simp
  | case2 asg t ts => exact absurd rfl hne
  | case3 asg n r e ks t ts ih =>
    have hp := bubble_perm ((n + 1, r, e) :: ks)
    have hne' : bubble ((n + 1, r, e) :: ks) ≠ [] := by
      intro h0; rw [h0] at hp; exact absurd hp.symm (List.cons_ne_nil _ _ ∘ List.Perm.eq_nil)
    have h' : ∀ k ∈ bubble ((n + 1, r, e) :: ks), k.2.2 < (appendAt asg e t).length := by
      intro k hk
      rw [appendAt_length]
      have := hp.mem_iff.mp hk
      rcases List.mem_cons.mp this with rfl | hk'
      · exact h (n, r, e) List.mem_cons_self
      · exact h k (List.mem_cons_of_mem _ hk')
    refine (ih hne' h').trans ?_
    have h2 := appendAt_flatten_perm asg e t (h (n, r, e) List.mem_cons_self)
    refine (List.Perm.append_right _ h2).trans ?_
    simp only [List.cons_append]
    exact List.perm_middle.symm

theorem leastLoop_getD_length_ge {α} (asg : List (List α)) (ks : List LoadKey) (ts : List α)
    (e : Nat) : (asg.getD e []).length ≤ ((leastLoop asg ks ts).getD e []).length := by
  fun_induction leastLoop asg ks ts with
  | case1 asg ks => exact Nat.le_refl _
  | case2 asg t ts => exact Nat.le_refl _
  | case3 asg n r e' ks t ts ih =>
    refine Nat.le_trans ?_ ih
    rw [appendAt_getD_length]; omega

-- --------------------------------------------------------------- enumeration
theorem enumFromN_length {α} (i : Nat) (l : List α) : (enumFromN i l).length = l.length := by
  induction l generalizing i with
  | nil => rfl
  | cons x xs ih => simp [enumFromN, ih]

theorem enumFromN_fst_lt {α} (i : Nat) (l : List α) : ∀ p ∈ enumFromN i l, p.1 < i + l.length := by
  induction l generalizing i with
  | nil => intro p hp; simp [enumFromN] at hp
  | cons x xs ih =>
    intro p hp
    simp only [enumFromN, List.mem_cons] at hp
    rcases hp with rfl | hp
    · simp
    · have := ih (i + 1) p hp; simp only [List.length_cons]; omega

theorem second_phase_perm {α} (emps : List Emp) (asg1 : List (List α)) (rs : List Nat)
    (rem : List α) (hlen1 : asg1.length = emps.length) (hemps : emps ≠ []) :
    (leastLoop asg1 (sortKeys (loadKeys emps asg1 rs)) rem).flatten.Perm (asg1.flatten ++ rem) := by
  have hsp := sortKeys_perm (loadKeys emps asg1 rs)
  have hl : (loadKeys emps asg1 rs).length = emps.length := by simp [loadKeys, enumFromN_length]
  have hkne : sortKeys (loadKeys emps asg1 rs) ≠ [] := by
    intro h0
    rw [h0] at hsp
    have h1 := List.Perm.eq_nil hsp.symm
    rw [h1] at hl
    exact hemps (List.length_eq_zero_iff.mp hl.symm)
  have hkb : ∀ k ∈ sortKeys (loadKeys emps asg1 rs), k.2.2 < asg1.length := by
    intro k hk
    have hk' := hsp.mem_iff.mp hk
    simp only [loadKeys, List.mem_map] at hk'
    obtain ⟨ie, hie, rfl⟩ := hk'
    have := enumFromN_fst_lt 0 emps ie hie
    rw [hlen1]; simpa using this
  exact leastLoop_flatten_perm asg1 _ rem hkne hkb

/-- **partition**: whatever the shuffle and the tie-breaks, the per-employee lists returned by
    `assign_tasks` together contain every task exactly once. -/
theorem assignTasks_perm {α} (emps : List Emp) (tasks : List α) (shuf rs : List Nat)
    (hshuf : ∀ i ∈ shuf, i < emps.length) (hne : tasks.length ≤ shuf.length ∨ emps ≠ []) :
    (assignTasks emps tasks shuf rs).flatten.Perm tasks := by
  unfold assignTasks
  have hlen0 : (emps.map (fun _ => ([] : List α))).length = emps.length := by simp
  have hfl0 : (emps.map (fun _ => ([] : List α))).flatten = [] := by
    induction emps with
    | nil => rfl
    | cons e es ih => simp
  have hz := zipAssign_flatten_perm (emps.map (fun _ => ([] : List α))) shuf tasks
    (by intro i hi; rw [hlen0]; exact hshuf i hi)
  rw [hfl0, List.nil_append] at hz
  simp only
  split
  · rename_i hle
    rwa [List.take_of_length_le hle] at hz
  · rename_i hgt
    have hemps : emps ≠ [] := by
      rcases hne with h | h
      · exact absurd h hgt
      · exact h
    have hlen1 : (zipAssign (emps.map (fun _ => ([] : List α))) shuf tasks).length = emps.length := by
      rw [zipAssign_length, hlen0]
    refine (second_phase_perm emps _ rs _ hlen1 hemps).trans ?_
    refine (List.Perm.append hz (List.reverse_perm _)).trans ?_
    rw [List.take_append_drop]


-- ---------------------------------------------------------------- idle first
theorem count_idle_aux (l : List Emp) (i e : Nat) :
    (((enumFromN i l).map (fun ie => List.replicate ie.2.idle.toNat ie.1)).flatten).count e
      = if i ≤ e ∧ e < i + l.length then ((l.getD (e - i) default).idle).toNat else 0 := by
  induction l generalizing i with
  | nil =>
    simp only [enumFromN, List.map_nil, List.flatten_nil, List.count_nil, List.length_nil,
      Nat.add_zero]
    rw [if_neg (by omega)]
  | cons x xs ih =>
    simp only [enumFromN, List.map_cons, List.flatten_cons, List.count_append, List.length_cons]
    rw [ih (i + 1), List.count_replicate]
    by_cases h1 : i = e
    · subst h1
      have h2 : ¬ (i + 1 ≤ i ∧ i < i + 1 + xs.length) := by omega
      have h3 : i ≤ i ∧ i < i + (xs.length + 1) := by omega
      rw [if_neg h2, if_pos h3]
      simp
    · have hb : (i == e) = false := by simpa using h1
      rw [hb]
      by_cases h2 : i + 1 ≤ e ∧ e < i + 1 + xs.length
      · have h3 : i ≤ e ∧ e < i + (xs.length + 1) := by omega
        rw [if_pos h2, if_pos h3]
        have : e - i = (e - (i + 1)) + 1 := by omega
        rw [this, List.getD_cons_succ]
        simp
      · have h3 : ¬ (i ≤ e ∧ e < i + (xs.length + 1)) := by omega
        rw [if_neg h2, if_neg h3]
        simp

theorem count_idleList (emps : List Emp) (e : Nat) (he : e < emps.length) :
    (idleList emps).count e = ((emps.getD e default).idle).toNat := by
  unfold idleList
  rw [count_idle_aux emps 0 e]
  simp [he]

theorem assignTasks_length {α} (emps : List Emp) (tasks : List α) (shuf rs : List Nat) :
    (assignTasks emps tasks shuf rs).length = emps.length := by
  unfold assignTasks
  simp only
  split
  · simp [zipAssign_length]
  · simp [leastLoop_length, zipAssign_length]

/-- **idle first**, few tasks: nobody receives more tasks than it has idle workers. -/
theorem assignTasks_le_idle {α} (emps : List Emp) (tasks : List α) (shuf rs : List Nat)
    (hperm : shuf.Perm (idleList emps)) (hfew : tasks.length ≤ shuf.length)
    (e : Nat) (he : e < emps.length) :
    ((assignTasks emps tasks shuf rs).getD e []).length ≤ ((emps.getD e default).idle).toNat := by
  unfold assignTasks
  simp only [if_pos hfew]
  rw [zipAssign_getD_length _ _ _ _ (by simpa using he)]
  have h0 : ((emps.map (fun _ => ([] : List α))).getD e []).length = 0 := by
    simp [List.getD_eq_getElem?_getD, List.getElem?_map]
    cases emps[e]? <;> simp
  rw [h0, Nat.zero_add, ← count_idleList emps e he, ← hperm.count_eq e]
  exact (List.take_sublist _ _).count_le e

/-- **idle first**, many tasks: every employee receives at least as many tasks as it has
    idle workers (the idle capacity is used up before anybody is loaded further). -/
theorem assignTasks_ge_idle {α} (emps : List Emp) (tasks : List α) (shuf rs : List Nat)
    (hperm : shuf.Perm (idleList emps)) (hmany : shuf.length ≤ tasks.length)
    (e : Nat) (he : e < emps.length) :
    ((emps.getD e default).idle).toNat ≤ ((assignTasks emps tasks shuf rs).getD e []).length := by
  have hz : ((zipAssign (emps.map (fun _ => ([] : List α))) shuf tasks).getD e []).length
      = ((emps.getD e default).idle).toNat := by
    rw [zipAssign_getD_length _ _ _ _ (by simpa using he)]
    have h0 : ((emps.map (fun _ => ([] : List α))).getD e []).length = 0 := by
      simp [List.getD_eq_getElem?_getD, List.getElem?_map]
      cases emps[e]? <;> simp
    rw [h0, Nat.zero_add, List.take_of_length_le hmany, hperm.count_eq e, count_idleList emps e he]
  unfold assignTasks
  simp only
  split
  · rw [hz]; exact Nat.le_refl _
  · rw [← hz]; exact leastLoop_getD_length_ge _ _ _ e


-- ------------------------------------------------------------------- routing
theorem empIndex_eq (lb step wid : Int) (hs : 0 < step) : empIndex lb step wid = (wid - lb) / step := by
  unfold empIndex; exact Int.fdiv_eq_ediv_of_nonneg _ (Int.le_of_lt hs)

theorem empIndex_spec (lb step wid : Int) (hs : 0 < step) :
    lb + empIndex lb step wid * step ≤ wid ∧ wid < lb + (empIndex lb step wid + 1) * step := by
  rw [empIndex_eq _ _ _ hs]
  have h1 := Int.ediv_mul_le (wid - lb) (Int.ne_of_gt hs)
  have h2 := Int.lt_ediv_add_one_mul_self (wid - lb) hs
  constructor <;> omega

theorem empIndex_unique (lb step wid i : Int) (hs : 0 < step)
    (h1 : lb + i * step ≤ wid) (h2 : wid < lb + (i + 1) * step) : empIndex lb step wid = i := by
  rw [empIndex_eq _ _ _ hs]
  have ha : i ≤ (wid - lb) / step := (Int.le_ediv_iff_mul_le hs).mpr (by omega)
  have hb : (wid - lb) / step < i + 1 := (Int.ediv_lt_iff_lt_mul hs).mpr (by omega)
  omega

theorem isMyWorker_iff (lb step wid : Int) (n : Nat) (hs : 0 < step) :
    isMyWorker lb step n wid = true ↔ (lb ≤ wid ∧ wid < lb + n * step) := by
  unfold isMyWorker
  rw [empIndex_eq _ _ _ hs]
  simp only [Bool.and_eq_true, decide_eq_true_eq]
  constructor
  · rintro ⟨h0, h1⟩
    have ha := (Int.le_ediv_iff_mul_le hs).mp h0
    have hb := (Int.ediv_lt_iff_lt_mul hs).mp h1
    constructor <;> omega
  · rintro ⟨h0, h1⟩
    exact ⟨(Int.le_ediv_iff_mul_le hs).mpr (by omega), (Int.ediv_lt_iff_lt_mul hs).mpr (by omega)⟩

theorem employeeFor_inRange (lb step wid : Int) (n : Nat) (hs : 0 < step)
    (h0 : lb ≤ wid) (h1 : wid < lb + n * step) :
    ∃ i : Nat, employeeFor lb step n wid = some i ∧ i < n
      ∧ lb + (i : Int) * step ≤ wid ∧ wid < lb + ((i : Int) + 1) * step := by
  have hm := (isMyWorker_iff lb step wid n hs).mpr ⟨h0, h1⟩
  unfold isMyWorker at hm
  simp only [Bool.and_eq_true, decide_eq_true_eq] at hm
  obtain ⟨ha, hb⟩ := hm
  have hsp := empIndex_spec lb step wid hs
  refine ⟨(empIndex lb step wid).toNat, ?_, ?_, ?_, ?_⟩
  · unfold employeeFor; simp [ha, hb]
  · omega
  · rw [Int.toNat_of_nonneg ha]; exact hsp.1
  · rw [Int.toNat_of_nonneg ha]; exact hsp.2


-- ------------------------------------------------------- counters of a boss
def sumTotal (emps : List Emp) : Int := (emps.map (·.total)).sum

/-- the bookkeeping invariant of `ServerBase` -/
structure BossInv (b : Boss) : Prop where
  bounds : ∀ e ∈ b.emps, 0 ≤ e.idle ∧ e.idle ≤ e.total
  sum : b.numIdle = sumIdle b.emps
  tot : sumTotal b.emps = b.total

theorem sumIdle_bounds (emps : List Emp) (h : ∀ e ∈ emps, 0 ≤ e.idle ∧ e.idle ≤ e.total) :
    0 ≤ sumIdle emps ∧ sumIdle emps ≤ sumTotal emps := by
  induction emps with
  | nil => simp [sumIdle, sumTotal]
  | cons x xs ih =>
    have hx := h x List.mem_cons_self
    have := ih (fun e he => h e (List.mem_cons_of_mem _ he))
    simp only [sumIdle, sumTotal, List.map_cons, List.sum_cons] at *
    omega

/-- the assertion of `handle_waiting` holds in every state satisfying the invariant -/
theorem BossInv.assertion {b : Boss} (h : BossInv b) : 0 ≤ b.numIdle ∧ b.numIdle ≤ b.total := by
  have := sumIdle_bounds b.emps h.bounds
  rw [h.sum, ← h.tot]; exact this

theorem mem_setAt {α} (l : List α) (i : Nat) (y x : α) (h : x ∈ setAt l i y) : x ∈ l ∨ x = y := by
  induction l generalizing i with
  | nil => simp [setAt] at h
  | cons a as ih =>
    cases i with
    | zero =>
      simp only [setAt, List.mem_cons] at h
      rcases h with rfl | h
      · exact Or.inr rfl
      · exact Or.inl (List.mem_cons_of_mem _ h)
    | succ i =>
      simp only [setAt, List.mem_cons] at h
      rcases h with rfl | h
      · exact Or.inl List.mem_cons_self
      · rcases ih i h with h | h
        · exact Or.inl (List.mem_cons_of_mem _ h)
        · exact Or.inr h

theorem sum_setAt (f : Emp → Int) (l : List Emp) (i : Nat) (e y : Emp) (h : l[i]? = some e) :
    ((setAt l i y).map f).sum = (l.map f).sum - f e + f y := by
  induction l generalizing i with
  | nil => simp at h
  | cons a as ih =>
    cases i with
    | zero =>
      simp only [List.getElem?_cons_zero, Option.some.injEq] at h
      subst h
      simp only [setAt, List.map_cons, List.sum_cons]; omega
    | succ i =>
      simp only [List.getElem?_cons_succ] at h
      simp only [setAt, List.map_cons, List.sum_cons, ih i h]; omega

theorem mem_chargeAll {α} (addrOf : α → Addr) (i : Nat) (emps : List Emp) (batch : Nat → List α)
    (x : Emp) (hx : x ∈ chargeAll addrOf i emps batch) :
    ∃ e ∈ emps, x = e ∨ ∃ a n, x = e.charge a n := by
  induction emps generalizing i with
  | nil => simp [chargeAll] at hx
  | cons e es ih =>
    simp only [chargeAll, List.mem_cons] at hx
    rcases hx with rfl | hx
    · refine ⟨e, List.mem_cons_self, ?_⟩
      cases batch i with
      | nil => exact Or.inl rfl
      | cons t ts => exact Or.inr ⟨_, _, rfl⟩
    · obtain ⟨e', he', h⟩ := ih (i + 1) hx
      exact ⟨e', List.mem_cons_of_mem _ he', h⟩

theorem chargeAll_total {α} (addrOf : α → Addr) (i : Nat) (emps : List Emp) (batch : Nat → List α) :
    sumTotal (chargeAll addrOf i emps batch) = sumTotal emps := by
  induction emps generalizing i with
  | nil => rfl
  | cons e es ih =>
    have := ih (i + 1)
    simp only [sumTotal, chargeAll, List.map_cons, List.sum_cons] at *
    rw [this]
    cases batch i <;> simp [Emp.charge]

theorem charge_bounds (e : Emp) (a : Addr) (n : Nat) (h : 0 ≤ e.idle ∧ e.idle ≤ e.total) :
    0 ≤ (e.charge a n).idle ∧ (e.charge a n).idle ≤ (e.charge a n).total := by
  simp only [Emp.charge]; omega

/-- `schedule_tasks` keeps the invariant - for every assignment, legal or not -/
theorem schedule_inv (b : Boss) (ts : List Task) (asg : List Nat) (h : BossInv b) :
    BossInv (b.schedule ts asg).1 := by
  unfold Boss.schedule
  split
  · exact h
  · refine ⟨?_, rfl, ?_⟩
    · intro x hx
      obtain ⟨e, he, hxe⟩ := mem_chargeAll _ _ _ _ x hx
      rcases hxe with rfl | ⟨a, n, rfl⟩
      · exact h.bounds _ he
      · exact charge_bounds e a n (h.bounds e he)
    · simp only; rw [chargeAll_total]; exact h.tot

/-- `handle_waiting`: under the invariant, and if the employee reports at most its own size,
    the consistency assertion does not fire and the invariant is kept -/
theorem waiting_inv (b : Boss) (ei : Nat) (n : Int) (r : Option Addr) (h : BossInv b)
    (henv : ∀ e, b.emps[ei]? = some e → n ≤ e.total) :
    match b.waiting ei n r with
    | .ok b' => BossInv b'
    | .error err => err ≠ WaitErr.assertion := by
  unfold Boss.waiting
  cases hget : b.emps[ei]? with
  | none => simp
  | some e =>
    simp only
    cases hs : sentSince e.cache r with
    | none => simp
    | some p =>
      obtain ⟨cache', unacc⟩ := p
      simp only
      have hmem : e ∈ b.emps := List.mem_of_getElem? hget
      have hb := h.bounds e hmem
      have hn := henv e hget
      have hinv : BossInv { b with
          emps := setAt b.emps ei { e with cache := cache', idle := max (n - (unacc : Int)) 0 },
          numIdle := b.numIdle + (max (n - (unacc : Int)) 0 - e.idle) } := by
        refine ⟨?_, ?_, ?_⟩
        · intro x hx
          rcases mem_setAt _ _ _ _ hx with hx | rfl
          · exact h.bounds x hx
          · simp only; omega
        · simp only [sumIdle]
          rw [sum_setAt (·.idle) b.emps ei e _ hget]
          have := h.sum; simp only [sumIdle] at this; simp only; omega
        · simp only [sumTotal]
          rw [sum_setAt (·.total) b.emps ei e _ hget]
          have := h.tot; simp only [sumTotal] at this; simp only; omega
      have ha := hinv.assertion
      simp only at ha
      rw [if_pos ha]
      exact hinv

theorem update_inv (b : Boss) (ei : Nat) (d : Int) (h : BossInv b) : BossInv (b.update ei d) := by
  unfold Boss.update
  cases hget : b.emps[ei]? with
  | none => exact h
  | some e =>
    have hmem : e ∈ b.emps := List.mem_of_getElem? hget
    refine ⟨?_, ?_, ?_⟩
    · intro x hx
      rcases mem_setAt _ _ _ _ hx with hx | rfl
      · exact h.bounds x hx
      · exact h.bounds e hmem
    · simp only [sumIdle]
      rw [sum_setAt (·.idle) b.emps ei e _ hget]
      have := h.sum; simp only [sumIdle] at this; simp only; omega
    · simp only [sumTotal]
      rw [sum_setAt (·.total) b.emps ei e _ hget]
      have := h.tot; simp only [sumTotal] at this; simp only; omega

theorem completed_inv (b b' : Boss) (by_ : Int) (h : BossInv b) (hc : b.completed by_ = some b') :
    BossInv b' := by
  unfold Boss.completed at hc
  split at hc
  · simp at hc
  · rename_i ei _
    cases hget : b.emps[ei]? with
    | none => simp [hget] at hc
    | some e =>
      simp only [hget, Option.some.injEq] at hc
      subst hc
      have := update_inv b ei (-1) h
      unfold Boss.update at this
      simpa [hget, Int.sub_eq_add_neg] using this

end BqVerif.Runtime
