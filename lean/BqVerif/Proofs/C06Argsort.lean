/-
`np.argsort` of a permutation is its inverse (used by `Props/C06.lean`).

* `isPerm_iff`: the executable check `isPerm perm n` is `perm ~ range n`;
* `argsort_eq_of_isPerm`: `argsort perm = [perm.idxOf a for a in range n]`;
* corollaries relating `getD`, `idxOf` of a permutation and of its `argsort`.
-/
import BqVerif.Model.Tensor
import Mathlib.Data.List.Perm.Subperm
import Mathlib.Data.List.Nodup

namespace BqVerif.Tensor

/-! ### `isPerm` -/

/-- `isPerm perm n` holds exactly when `perm` is a permutation of `range n`. -/
theorem isPerm_iff (perm : List Nat) (n : Nat) :
    isPerm perm n = true ↔ perm.Perm (List.range n) := by
  unfold isPerm
  constructor
  · intro h
    simp only [Bool.and_eq_true, beq_iff_eq, List.all_eq_true, List.contains_iff_mem] at h
    obtain ⟨hl, hm⟩ := h
    have hsub : List.range n ⊆ perm := fun a ha => hm a ha
    exact ((List.nodup_range.subperm hsub).perm_of_length_le (by simp [hl])).symm
  · intro h
    simp only [Bool.and_eq_true, beq_iff_eq, List.all_eq_true, List.contains_iff_mem]
    exact ⟨by simpa using h.length_eq, fun a ha => h.mem_iff.2 ha⟩

variable {perm : List Nat} {n : Nat}

theorem isPerm_length (h : isPerm perm n = true) : perm.length = n := by
  simpa using ((isPerm_iff perm n).1 h).length_eq

theorem isPerm_nodup (h : isPerm perm n = true) : perm.Nodup :=
  ((isPerm_iff perm n).1 h).nodup_iff.2 List.nodup_range

theorem isPerm_mem (h : isPerm perm n = true) (a : Nat) : a ∈ perm ↔ a < n := by
  rw [((isPerm_iff perm n).1 h).mem_iff, List.mem_range]

/-- The position of a value `a < n` in a permutation of `range n` is `< n`. -/
theorem idxOf_lt_of_isPerm (h : isPerm perm n = true) {a : Nat} (ha : a < n) :
    perm.idxOf a < n := by
  have := List.idxOf_lt_length_of_mem ((isPerm_mem h a).2 ha)
  rwa [isPerm_length h] at this

theorem getD_idxOf_of_isPerm (h : isPerm perm n = true) {a : Nat} (ha : a < n) :
    perm.getD (perm.idxOf a) 0 = a := by
  have hlt : perm.idxOf a < perm.length :=
    List.idxOf_lt_length_of_mem ((isPerm_mem h a).2 ha)
  rw [List.getD_eq_getElem?_getD, List.getElem?_eq_getElem hlt, Option.getD_some,
    List.getElem_idxOf hlt]

theorem idxOf_getD_of_isPerm (h : isPerm perm n = true) {k : Nat} (hk : k < n) :
    perm.idxOf (perm.getD k 0) = k := by
  have hlt : k < perm.length := by rwa [isPerm_length h]
  rw [List.getD_eq_getElem?_getD, List.getElem?_eq_getElem hlt, Option.getD_some,
    (isPerm_nodup h).idxOf_getElem k hlt]

/-! ### `argsort` -/

theorem insertByKey_perm (x : Nat × Nat) (l : List (Nat × Nat)) :
    (insertByKey x l).Perm (x :: l) := by
  induction l with
  | nil => simp [insertByKey]
  | cons y ys ih =>
    unfold insertByKey
    split
    · exact List.Perm.refl _
    · exact (List.Perm.cons y ih).trans (List.Perm.swap x y ys)

theorem sortByKey_perm (l : List (Nat × Nat)) : (sortByKey l).Perm l := by
  induction l with
  | nil => simp [sortByKey]
  | cons x xs ih => exact (insertByKey_perm x _).trans (List.Perm.cons x ih)

theorem insertByKey_pairwise (x : Nat × Nat) {l : List (Nat × Nat)}
    (h : l.Pairwise (fun a b => a.1 ≤ b.1)) :
    (insertByKey x l).Pairwise (fun a b => a.1 ≤ b.1) := by
  induction l with
  | nil => simp [insertByKey]
  | cons y ys ih =>
    rw [List.pairwise_cons] at h
    unfold insertByKey
    split
    · rename_i hxy
      rw [List.pairwise_cons]
      refine ⟨?_, List.pairwise_cons.2 h⟩
      intro z hz
      rcases List.mem_cons.1 hz with rfl | hz
      · exact hxy
      · exact Nat.le_trans hxy (h.1 z hz)
    · rename_i hxy
      rw [List.pairwise_cons]
      refine ⟨?_, ih h.2⟩
      intro z hz
      rcases List.mem_cons.1 ((insertByKey_perm x ys).mem_iff.1 hz) with rfl | hz
      · omega
      · exact h.1 z hz

theorem sortByKey_pairwise (l : List (Nat × Nat)) :
    (sortByKey l).Pairwise (fun a b => a.1 ≤ b.1) := by
  induction l with
  | nil => simp [sortByKey]
  | cons x xs ih => exact insertByKey_pairwise x ih

/-- `np.argsort` of a permutation of `range n` is its inverse permutation. -/
theorem argsort_eq_of_isPerm (h : isPerm perm n = true) :
    argsort perm = (List.range n).map (fun a => perm.idxOf a) := by
  unfold argsort
  generalize hs : sortByKey perm.zipIdx = s
  have hperm : s.Perm perm.zipIdx := hs ▸ sortByKey_perm _
  have hsorted : s.Pairwise (fun a b => a.1 ≤ b.1) := hs ▸ sortByKey_pairwise _
  -- the sorted keys are `range n`
  have hfst : s.map Prod.fst = List.range n := by
    have hp : (s.map Prod.fst).Perm (List.range n) := by
      have := hperm.map Prod.fst
      rw [List.zipIdx_map_fst] at this
      exact this.trans ((isPerm_iff perm n).1 h)
    have hpw : (s.map Prod.fst).Pairwise (fun a b => decide (a ≤ b) = true) := by
      rw [List.pairwise_map]
      simpa using hsorted
    have hr : (List.range n).Pairwise (fun a b => decide (a ≤ b) = true) := by
      simpa using List.pairwise_le_range (n := n)
    exact List.Perm.eq_of_pairwise (le := fun a b => decide (a ≤ b))
      (fun a b _ _ hab hba => by
        simp only [decide_eq_true_eq] at hab hba; exact Nat.le_antisymm hab hba)
      hpw hr hp
  -- every pair `(v, k)` of `perm.zipIdx` has `k = perm.idxOf v`
  have hsnd : ∀ p ∈ s, p.2 = perm.idxOf p.1 := by
    intro p hp
    have hmem : p ∈ perm.zipIdx := hperm.mem_iff.1 hp
    rw [List.mem_zipIdx_iff_getElem?] at hmem
    obtain ⟨hlt, hget⟩ := List.getElem?_eq_some_iff.1 hmem
    rw [← hget, (isPerm_nodup h).idxOf_getElem p.2 hlt]
  rw [← hfst, List.map_map]
  exact List.map_congr_left hsnd

theorem argsort_isPerm (h : isPerm perm n = true) : isPerm (argsort perm) n = true := by
  rw [isPerm_iff, argsort_eq_of_isPerm h]
  have hnd : ((List.range n).map (fun a => perm.idxOf a)).Nodup := by
    refine List.Nodup.map_on ?_ List.nodup_range
    intro a ha b hb hab
    rw [List.mem_range] at ha hb
    have := congrArg (fun k => perm.getD k 0) hab
    rwa [getD_idxOf_of_isPerm h ha, getD_idxOf_of_isPerm h hb] at this
  have hsub : (List.range n).map (fun a => perm.idxOf a) ⊆ List.range n := by
    intro k hk
    obtain ⟨a, ha, rfl⟩ := List.mem_map.1 hk
    exact List.mem_range.2 (idxOf_lt_of_isPerm h (List.mem_range.1 ha))
  exact (hnd.subperm hsub).perm_of_length_le (by simp)

theorem getD_argsort (h : isPerm perm n = true) {a : Nat} (ha : a < n) :
    (argsort perm).getD a 0 = perm.idxOf a := by
  rw [argsort_eq_of_isPerm h, List.getD_eq_getElem?_getD,
    List.getElem?_eq_getElem (by simpa using ha)]
  simp

/-- The inverse of the inverse is the permutation itself. -/
theorem idxOf_argsort (h : isPerm perm n = true) {a : Nat} (ha : a < n) :
    (argsort perm).idxOf a = perm.getD a 0 := by
  have h' := argsort_isPerm h
  have hlt : perm.getD a 0 < n := by
    have hl : a < perm.length := by rwa [isPerm_length h]
    rw [List.getD_eq_getElem?_getD, List.getElem?_eq_getElem hl, Option.getD_some]
    exact (isPerm_mem h _).1 (List.getElem_mem hl)
  have := idxOf_getD_of_isPerm h' hlt
  rwa [getD_argsort h hlt, idxOf_getD_of_isPerm h ha] at this

end BqVerif.Tensor
