import BqVerif.Model.Pickle
import BqVerif.Generated.Fields
/-!
Record-model lemmas for C16(b): sequential field assignment, `PassData.update`, model
equality/hash of operations.  Core Lean only.
-/
namespace BqVerif.Circ
open BqVerif.Generated.Fields

/-- the assignments of a `copy`/`become` table run in order on a record -/
def runAssigns {V : Type} (as : List Assign) (self other : Rec V) : Rec V :=
  as.foldl (fun s a => fun f => if f == a.target then other a.source else s f) self

/-- every assignment reads the field it writes -/
def wellSourced (as : List Assign) : Bool := as.all (fun a => a.target == a.source)
/-- every listed field is written -/
def coversAll (fields : List String) (as : List Assign) : Bool :=
  fields.all (fun f => as.any (fun a => a.target == f))
/-- every written field is copied deeply or holds an immutable value -/
def deepOrImmutable (imm : List String) (as : List Assign) : Bool :=
  as.all (fun a => a.mode == "deepcopy" || imm.contains a.target)

theorem runAssigns_spec {V : Type} (as : List Assign) (hs : wellSourced as = true)
    (self other : Rec V) (f : String) :
    runAssigns as self other f = if as.any (fun a => a.target == f) then other f else self f := by
  unfold runAssigns
  induction as generalizing self with
  | nil => simp
  | cons a as ih =>
    simp only [wellSourced, List.all_cons, Bool.and_eq_true, beq_iff_eq] at hs
    have hs' : wellSourced as = true := by simpa [wellSourced] using hs.2
    simp only [List.foldl_cons, List.any_cons]
    rw [ih hs']
    by_cases h1 : as.any (fun a => a.target == f) = true
    · simp [h1]
    · have h1' : as.any (fun a => a.target == f) = false := by simpa using h1
      by_cases h2 : f = a.target
      · subst h2; simp [hs.1]
      · have h3 : (a.target == f) = false := by
          simp only [beq_eq_false_iff_ne, ne_eq]; exact fun h => h2 h.symm
        have h4 : (f == a.target) = false := by simpa using h2
        simp [h1', h3, h4]

theorem runAssigns_eq_other {V : Type} (fields : List String) (as : List Assign)
    (hs : wellSourced as = true) (hc : coversAll fields as = true) (self other : Rec V) :
    ∀ f ∈ fields, runAssigns as self other f = other f := by
  intro f hf
  rw [runAssigns_spec as hs]
  have := List.all_eq_true.1 hc f hf
  simp [this]

/-! ## operations: model equality and hash -/
theorem eqOp_iff (a b : Op) : a.eqOp b = true ↔ a = b := by
  constructor
  · intro h
    simp only [Op.eqOp, Bool.and_eq_true, beq_iff_eq, Op.gate] at h
    obtain ⟨⟨hg, hp⟩, hl⟩ := h
    cases a; cases b
    simp only [GateId.mk.injEq] at hg
    simp_all
  · rintro rfl; simp [Op.eqOp]

/-! ## `PassData.update` -/
theorem setItem_user_fields {V : Type} (s : PData V) (k : String) (v : V)
    (hk : reservedKeys.contains k = false) :
    (s.setItem k v).target = s.target ∧ (s.setItem k v).error = s.error ∧
    (s.setItem k v).model = s.model ∧ (s.setItem k v).placement = s.placement ∧
    (s.setItem k v).initialMapping = s.initialMapping ∧
    (s.setItem k v).finalMapping = s.finalMapping ∧ (s.setItem k v).seed = s.seed := by
  simp only [reservedKeys, List.contains_eq_mem, List.mem_cons, List.not_mem_nil, or_false,
    decide_eq_false_iff_not, not_or] at hk
  obtain ⟨h1, h2, h3, h4, h5, h6, h7, h8⟩ := hk
  simp [PData.setItem, h1, h2, h3, h4, h5, h6, h7, h8]

theorem foldl_setItem_user {V : Type} (d : List (String × V)) (s : PData V)
    (hd : ∀ kv ∈ d, reservedKeys.contains kv.1 = false) :
    let r := d.foldl (fun s kv => s.setItem kv.1 kv.2) s
    r.target = s.target ∧ r.error = s.error ∧ r.model = s.model ∧ r.placement = s.placement ∧
    r.initialMapping = s.initialMapping ∧ r.finalMapping = s.finalMapping ∧ r.seed = s.seed := by
  induction d generalizing s with
  | nil => simp
  | cons kv d ih =>
    simp only [List.foldl_cons]
    have h1 := setItem_user_fields s kv.1 kv.2 (hd kv (by simp))
    have h2 := ih (s.setItem kv.1 kv.2) (fun x hx => hd x (by simp [hx]))
    simp only at h2 ⊢
    obtain ⟨a1, a2, a3, a4, a5, a6, a7⟩ := h1
    obtain ⟨b1, b2, b3, b4, b5, b6, b7⟩ := h2
    exact ⟨b1.trans a1, b2.trans a2, b3.trans a3, b4.trans a4, b5.trans a5, b6.trans a6, b7.trans a7⟩

theorem update_reserved {V : Type} (self other : PData V)
    (hd : ∀ kv ∈ other.data, reservedKeys.contains kv.1 = false) :
    let r := self.update other
    r.target = other.target ∧ r.error = other.error ∧ r.model = other.model ∧
    r.placement = other.placement ∧ r.initialMapping = other.initialMapping ∧
    r.finalMapping = other.finalMapping ∧ r.seed = other.seed := by
  have h := foldl_setItem_user other.data
    (reservedKeys.foldl (fun s k => match other.getItem k with
      | some v => s.setItem k v
      | none => s) self) hd
  simp only [PData.update]
  simp only at h
  obtain ⟨b1, b2, b3, b4, b5, b6, b7⟩ := h
  refine ⟨b1.trans ?_, b2.trans ?_, b3.trans ?_, b4.trans ?_, b5.trans ?_, b6.trans ?_, b7.trans ?_⟩ <;>
    simp [reservedKeys, PData.getItem, PData.setItem]

end BqVerif.Circ
