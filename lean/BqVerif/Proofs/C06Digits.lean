/-
Mixed-radix digit strings: `ravel` / `unravel` are mutually inverse bijections between
valid multi-indices of a shape and `[0, prod shape)`; concatenation of shapes; reading a
tensor built by `ofFn`.
-/
import BqVerif.Model.Tensor

namespace BqVerif.Tensor

theorem prod_append (a b : List Nat) : prod (a ++ b) = prod a * prod b := by
  induction a with
  | nil => simp [prod]
  | cons x xs ih => simp [prod, ih, Nat.mul_assoc]

theorem prod_pos {shape : List Nat} (h : ∀ s ∈ shape, 0 < s) : 0 < prod shape := by
  induction shape with
  | nil => simp [prod]
  | cons x xs ih =>
    simp only [prod]
    exact Nat.mul_pos (h x (by simp)) (ih (fun s hs => h s (by simp [hs])))

theorem pos_of_prod_pos {shape : List Nat} (h : 0 < prod shape) : ∀ s ∈ shape, 0 < s := by
  induction shape with
  | nil => simp
  | cons x xs ih =>
    simp only [prod] at h
    intro s hs
    rcases List.mem_cons.1 hs with rfl | hs
    · exact Nat.pos_of_mul_pos_right h
    · exact ih (Nat.pos_of_mul_pos_left h) s hs

theorem validIdx_length {shape idx : List Nat} (h : validIdx shape idx = true) :
    idx.length = shape.length := by
  induction shape generalizing idx with
  | nil => cases idx <;> simp_all [validIdx]
  | cons s ss ih =>
    cases idx with
    | nil => simp [validIdx] at h
    | cons d ds =>
      simp only [validIdx, Bool.and_eq_true, decide_eq_true_eq] at h
      simp [ih h.2]

theorem validIdx_iff {shape idx : List Nat} :
    validIdx shape idx = true ↔
      idx.length = shape.length ∧ ∀ a, a < shape.length → idx.getD a 0 < shape.getD a 0 := by
  induction shape generalizing idx with
  | nil => cases idx <;> simp [validIdx]
  | cons s ss ih =>
    cases idx with
    | nil => simp [validIdx]
    | cons d ds =>
      simp only [validIdx, Bool.and_eq_true, decide_eq_true_eq, ih, List.length_cons]
      constructor
      · rintro ⟨h0, hl, hr⟩
        refine ⟨by omega, ?_⟩
        intro a ha
        cases a with
        | zero => simpa using h0
        | succ a => simpa using hr a (by omega)
      · rintro ⟨hl, hr⟩
        refine ⟨by simpa using hr 0 (by omega), by omega, ?_⟩
        intro a ha
        simpa using hr (a + 1) (by omega)

theorem ravel_lt {shape idx : List Nat} (h : validIdx shape idx = true) :
    ravel shape idx < prod shape := by
  induction shape generalizing idx with
  | nil => cases idx <;> simp_all [validIdx, ravel, prod]
  | cons s ss ih =>
    cases idx with
    | nil => simp [validIdx] at h
    | cons d ds =>
      simp only [validIdx, Bool.and_eq_true, decide_eq_true_eq] at h
      simp only [ravel, prod]
      have := ih h.2
      calc d * prod ss + ravel ss ds < d * prod ss + prod ss := by omega
        _ = (d + 1) * prod ss := by rw [Nat.add_mul]; simp
        _ ≤ s * prod ss := Nat.mul_le_mul_right _ h.1

theorem length_unravel (shape : List Nat) (i : Nat) : (unravel shape i).length = shape.length := by
  induction shape generalizing i with
  | nil => simp [unravel]
  | cons s ss ih => simp [unravel, ih]

theorem unravel_ravel {shape idx : List Nat} (h : validIdx shape idx = true) :
    unravel shape (ravel shape idx) = idx := by
  induction shape generalizing idx with
  | nil => cases idx <;> simp_all [validIdx, unravel]
  | cons s ss ih =>
    cases idx with
    | nil => simp [validIdx] at h
    | cons d ds =>
      simp only [validIdx, Bool.and_eq_true, decide_eq_true_eq] at h
      have hlt := ravel_lt h.2
      have hpos : 0 < prod ss := by omega
      simp only [ravel, unravel]
      have h1 : (d * prod ss + ravel ss ds) / prod ss = d := by
        rw [Nat.mul_comm, Nat.mul_add_div hpos, Nat.div_eq_of_lt hlt]; simp
      have h2 : (d * prod ss + ravel ss ds) % prod ss = ravel ss ds := by
        rw [Nat.mul_comm, Nat.mul_add_mod, Nat.mod_eq_of_lt hlt]
      rw [h1, h2, ih h.2, Nat.mod_eq_of_lt h.1]

theorem validIdx_unravel {shape : List Nat} (hpos : ∀ s ∈ shape, 0 < s) (i : Nat) :
    validIdx shape (unravel shape i) = true := by
  induction shape generalizing i with
  | nil => simp [unravel, validIdx]
  | cons s ss ih =>
    simp only [unravel, validIdx, Bool.and_eq_true, decide_eq_true_eq]
    exact ⟨Nat.mod_lt _ (hpos s (by simp)), ih (fun x hx => hpos x (by simp [hx])) _⟩

theorem ravel_unravel {shape : List Nat} {i : Nat} (h : i < prod shape) :
    ravel shape (unravel shape i) = i := by
  induction shape generalizing i with
  | nil => simp [prod] at h; simp [ravel, h]
  | cons s ss ih =>
    simp only [prod] at h
    have hpos : 0 < prod ss := by
      rcases Nat.eq_zero_or_pos (prod ss) with h0 | h0
      · rw [h0] at h; simp at h
      · exact h0
    simp only [unravel, ravel]
    have hd : i / prod ss < s := by
      rw [Nat.div_lt_iff_lt_mul hpos]; exact h
    rw [Nat.mod_eq_of_lt hd, ih (Nat.mod_lt _ hpos)]
    exact Nat.div_add_mod' i (prod ss)

theorem ravel_append {s1 s2 i1 i2 : List Nat} (h : i1.length = s1.length) :
    ravel (s1 ++ s2) (i1 ++ i2) = ravel s1 i1 * prod s2 + ravel s2 i2 := by
  induction s1 generalizing i1 with
  | nil => cases i1 <;> simp_all [ravel]
  | cons s ss ih =>
    cases i1 with
    | nil => simp at h
    | cons d ds =>
      simp only [List.length_cons, Nat.add_right_cancel_iff] at h
      simp only [List.cons_append, ravel, ih h, prod_append, Nat.add_mul, Nat.mul_assoc,
        Nat.add_assoc]

theorem validIdx_append {s1 s2 i1 i2 : List Nat} (h1 : validIdx s1 i1 = true)
    (h2 : validIdx s2 i2 = true) : validIdx (s1 ++ s2) (i1 ++ i2) = true := by
  induction s1 generalizing i1 with
  | nil => cases i1 <;> simp_all [validIdx]
  | cons s ss ih =>
    cases i1 with
    | nil => simp [validIdx] at h1
    | cons d ds =>
      simp only [validIdx, Bool.and_eq_true, decide_eq_true_eq] at h1
      simp only [List.cons_append, validIdx, Bool.and_eq_true, decide_eq_true_eq]
      exact ⟨h1.1, ih h1.2⟩

theorem unravel_append {s1 s2 : List Nat} {i j : Nat} (hi : i < prod s1) (hj : j < prod s2) :
    unravel (s1 ++ s2) (i * prod s2 + j) = unravel s1 i ++ unravel s2 j := by
  have p1 := pos_of_prod_pos (Nat.lt_of_le_of_lt (Nat.zero_le _) hi)
  have p2 := pos_of_prod_pos (Nat.lt_of_le_of_lt (Nat.zero_le _) hj)
  have v := validIdx_append (validIdx_unravel p1 i) (validIdx_unravel p2 j)
  have := unravel_ravel v
  rw [ravel_append (length_unravel s1 i), ravel_unravel hi, ravel_unravel hj] at this
  exact this

/-! ### reading tensors -/

variable {α : Type}

theorem ofFn_shape [Zero α] (shape : List Nat) (g : List Nat → α) : (ofFn shape g).shape = shape := rfl

theorem ofFn_wf [Zero α] (shape : List Nat) (g : List Nat → α) : (ofFn shape g).WF := by
  simp [T.WF, ofFn]

variable [Zero α]

theorem ofFn_data_getD (shape : List Nat) (g : List Nat → α) {i : Nat} (h : i < prod shape) :
    (ofFn shape g).data.getD i 0 = g (unravel shape i) := by
  simp [ofFn, Array.getD, h]

theorem get_ofFn {shape idx : List Nat} (g : List Nat → α) (h : validIdx shape idx = true) :
    (ofFn shape g).get idx = g idx := by
  unfold T.get
  rw [ofFn_shape, ofFn_data_getD shape g (ravel_lt h), unravel_ravel h]

/-- Reading the flat data at `i` is reading the tensor at the digit string of `i`. -/
theorem data_getD_eq_get {t : T α} {i : Nat} (h : i < prod t.shape) :
    t.data.getD i 0 = t.get (unravel t.shape i) := by
  unfold T.get
  rw [ravel_unravel h]

end BqVerif.Tensor
