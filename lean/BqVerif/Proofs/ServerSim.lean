import BqVerif.Proofs.ServerStep
/-! C13: the simulation relation between the five tables and the per-task automaton. -/
namespace BqVerif.Server

/-- how an automaton state of task `t` shows in the tables -/
def TaskRel (s : Srv) (t : Tid) : TaskSt → Prop
  | .unknown => get? s.tasks t = none
  | .running c w => ∃ m ts, get? s.tasks t = some (m, c) ∧ get? s.clients c = some ts ∧ t ∈ ts ∧
      get? s.boxes m = some ⟨none, w⟩
  | .done c v => ∃ m ts, get? s.tasks t = some (m, c) ∧ get? s.clients c = some ts ∧ t ∈ ts ∧
      get? s.boxes m = some ⟨some v, false⟩
  | .delivered c => ∃ m ts, get? s.tasks t = some (m, c) ∧ get? s.clients c = some ts ∧ t ∉ ts
  | .cancelled c => ∃ m ts, get? s.tasks t = some (m, c) ∧ get? s.clients c = some ts ∧ t ∉ ts

/-- the abstraction relation (C13_refines_task_automaton) -/
structure R (s : Srv) (a : Abs) : Prop where
  conn : ∀ c, a.conn c = (get? s.clients c).isSome
  task : ∀ t, TaskRel s t (a.task t)

theorem R_init : R init absInit := by
  constructor <;> intros <;> simp [init, absInit, get?, TaskRel]

/-- `TaskRel` for a task whose own entries are untouched. -/
theorem TaskRel.frame {s s' : Srv} {t : Tid} {st : TaskSt} (h : TaskRel s t st)
    (htk : get? s'.tasks t = get? s.tasks t)
    (hcl : ∀ m c ts, get? s.tasks t = some (m, c) → get? s.clients c = some ts →
      ∃ ts', get? s'.clients c = some ts' ∧ (t ∈ ts' ↔ t ∈ ts))
    (hbx : ∀ m c, get? s.tasks t = some (m, c) → get? s'.boxes m = get? s.boxes m) :
    TaskRel s' t st := by
  cases st with
  | unknown => simp only [TaskRel] at h ⊢; rw [htk]; exact h
  | running c w =>
    obtain ⟨m, ts, h1, h2, h3, h4⟩ := h
    obtain ⟨ts', x, y⟩ := hcl m c ts h1 h2
    exact ⟨m, ts', by rw [htk]; exact h1, x, y.mpr h3, by rw [hbx m c h1]; exact h4⟩
  | done c v =>
    obtain ⟨m, ts, h1, h2, h3, h4⟩ := h
    obtain ⟨ts', x, y⟩ := hcl m c ts h1 h2
    exact ⟨m, ts', by rw [htk]; exact h1, x, y.mpr h3, by rw [hbx m c h1]; exact h4⟩
  | delivered c =>
    obtain ⟨m, ts, h1, h2, h3⟩ := h
    obtain ⟨ts', x, y⟩ := hcl m c ts h1 h2
    exact ⟨m, ts', by rw [htk]; exact h1, x, fun z => h3 (y.mp z)⟩
  | cancelled c =>
    obtain ⟨m, ts, h1, h2, h3⟩ := h
    obtain ⟨ts', x, y⟩ := hcl m c ts h1 h2
    exact ⟨m, ts', by rw [htk]; exact h1, x, fun z => h3 (y.mp z)⟩

theorem TaskRel.congr {s s' : Srv} {t : Tid} {st : TaskSt} (h : TaskRel s t st)
    (h1 : s'.clients = s.clients) (h2 : s'.tasks = s.tasks) (h4 : s'.boxes = s.boxes) :
    TaskRel s' t st :=
  h.frame (by rw [h2]) (fun _ c ts _ x => ⟨ts, by rw [h1]; exact x, Iff.rfl⟩) (fun _ _ _ => by rw [h4])

theorem R.congr {s s' : Srv} {a : Abs} (h : R s a)
    (h1 : s'.clients = s.clients) (h2 : s'.tasks = s.tasks) (h4 : s'.boxes = s.boxes) : R s' a :=
  ⟨fun c => by rw [h1]; exact h.conn c, fun t => (h.task t).congr h1 h2 h4⟩

/-- the owner recorded in the tables is the automaton's owner -/
theorem TaskRel.owner {s : Srv} {t : Tid} {st : TaskSt} (h : TaskRel s t st) :
    st.owner = (get? s.tasks t).map (·.2) := by
  cases st with
  | unknown => simp only [TaskRel] at h; simp [TaskSt.owner, h]
  | running c w => obtain ⟨m, ts, h1, _⟩ := h; simp [TaskSt.owner, h1]
  | done c v => obtain ⟨m, ts, h1, _⟩ := h; simp [TaskSt.owner, h1]
  | delivered c => obtain ⟨m, ts, h1, _⟩ := h; simp [TaskSt.owner, h1]
  | cancelled c => obtain ⟨m, ts, h1, _⟩ := h; simp [TaskSt.owner, h1]

/-- "open for c" in the automaton = member of `clients[c]` in the tables -/
theorem R.mine_iff {s : Srv} {a : Abs} (h : Inv s) (r : R s a) {c ts} (t : Tid)
    (hc : get? s.clients c = some ts) : (a.task t).openFor c = true ↔ t ∈ ts := by
  have key : t ∈ ts → (get? s.tasks t).map (·.2) = some c := by
    intro ht
    obtain ⟨m, b, x, _⟩ := h.clSub c ts t hc ht
    simp [x]
  have rt := r.task t
  have ow := rt.owner
  cases hst : a.task t with
  | unknown =>
    rw [hst] at rt ow
    simp only [TaskSt.openFor]
    constructor
    · intro x; cases x
    · intro ht; rw [← ow] at key; simp [TaskSt.owner] at key; exact absurd (key ht) (by simp)
  | running o w =>
    rw [hst] at rt ow
    obtain ⟨m, ts', h1, h2, h3, _⟩ := rt
    simp only [TaskSt.openFor, beq_iff_eq]
    constructor
    · intro e; subst e; rw [hc] at h2; cases h2; exact h3
    · intro ht; have := key ht; rw [h1] at this; simpa using this
  | done o v =>
    rw [hst] at rt ow
    obtain ⟨m, ts', h1, h2, h3, _⟩ := rt
    simp only [TaskSt.openFor, beq_iff_eq]
    constructor
    · intro e; subst e; rw [hc] at h2; cases h2; exact h3
    · intro ht; have := key ht; rw [h1] at this; simpa using this
  | delivered o =>
    rw [hst] at rt ow
    obtain ⟨m, ts', h1, h2, h3⟩ := rt
    simp only [TaskSt.openFor]
    constructor
    · intro x; cases x
    · intro ht
      have := key ht; rw [h1] at this
      simp at this; subst this
      rw [hc] at h2; cases h2; exact absurd ht h3
  | cancelled o =>
    rw [hst] at rt ow
    obtain ⟨m, ts', h1, h2, h3⟩ := rt
    simp only [TaskSt.openFor]
    constructor
    · intro x; cases x
    · intro ht
      have := key ht; rw [h1] at this
      simp at this; subst this
      rw [hc] at h2; cases h2; exact absurd ht h3

end BqVerif.Server
