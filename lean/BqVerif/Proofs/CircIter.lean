import BqVerif.Proofs.CircInv3
/-! Default iteration (row-major, each cycle by `location[0]`) yields every operation exactly
once and in an order compatible with every qudit's timeline. -/
namespace BqVerif.Circ

theorem insertBy_perm (key : Op → Nat) (x : Op) (l : List Op) : (insertBy key x l).Perm (x :: l) := by
  induction l with
  | nil => simp [insertBy]
  | cons a t ih =>
    simp only [insertBy]
    split
    · exact List.Perm.refl _
    · exact (List.Perm.cons a ih).trans (List.Perm.swap x a t)

theorem sortBy_perm (key : Op → Nat) (l : List Op) : (sortBy key l).Perm l := by
  induction l with
  | nil => simp [sortBy]
  | cons a t ih =>
    have : sortBy key (a :: t) = insertBy key a (sortBy key t) := rfl
    rw [this]
    exact (insertBy_perm key a _).trans (List.Perm.cons a ih)

theorem iter_perm_ops (c : Circ) : c.iter.Perm c.ops := by
  unfold Circ.iter Circ.ops
  induction c.cycles with
  | nil => simp
  | cons a t ih =>
    simp only [List.flatMap_cons, List.flatten_cons]
    exact List.Perm.append (sortBy_perm _ a) ih

/-- in a cycle of pairwise disjoint operations at most one touches `q` -/
theorem proj_cycle_length_le_one (cy : Cycle) (q : Nat) (hp : cy.Pairwise Indep) :
    (proj q cy).length ≤ 1 := by
  induction cy with
  | nil => simp [proj]
  | cons a t ih =>
    rw [List.pairwise_cons] at hp
    by_cases ha : a.on q = true
    · have hq : q ∈ a.loc := by simpa [Op.on] using ha
      have : proj q t = [] := by
        simp only [proj, List.filter_eq_nil_iff]
        intro x hx
        have := hp.1 x hx q hq
        simpa [Op.on] using this
      have e : proj q (a :: t) = a :: proj q t := by simp [proj, List.filter_cons, ha]
      rw [e, this]; simp
    · have : proj q (a :: t) = proj q t := by simp [proj, List.filter_cons, ha]
      rw [this]; exact ih hp.2

theorem perm_short_eq {l1 l2 : List Op} (h : l1.Perm l2) (hl : l1.length ≤ 1) : l1 = l2 := by
  match l1, hl with
  | [], _ => exact (List.Perm.nil_eq h)
  | [a], _ => exact (List.perm_singleton.mp h.symm).symm

theorem proj_sortBy (key : Op → Nat) (cy : Cycle) (q : Nat) (hp : cy.Pairwise Indep) :
    proj q (sortBy key cy) = proj q cy := by
  have hperm : (proj q (sortBy key cy)).Perm (proj q cy) := (sortBy_perm key cy).filter _
  have hlen : (proj q (sortBy key cy)).length ≤ 1 := by
    rw [hperm.length_eq]; exact proj_cycle_length_le_one cy q hp
  exact perm_short_eq hperm hlen

/-- every qudit's timeline read off the iteration order equals the grid's timeline -/
theorem proj_iter (c : Circ) (hinv : c.Inv) (q : Nat) : proj q c.iter = c.timeline q := by
  unfold Circ.iter Circ.timeline Circ.ops
  have h2 := hinv.2.1
  revert h2
  induction c.cycles with
  | nil => intro _; simp [proj]
  | cons a t ih =>
    intro h2
    simp only [List.flatMap_cons, List.flatten_cons]
    have e1 : ∀ (x y : List Op), proj q (x ++ y) = proj q x ++ proj q y := by
      intro x y; simp [proj]
    rw [e1, e1, proj_sortBy _ a q (h2 a (by simp)), ih (fun cy hcy => h2 cy (by simp [hcy]))]

end BqVerif.Circ
