import BqVerif.Proofs.GraphBasic
/-!
Edge-set and vertex-count characterisations of the topology constructors
(`CouplingGraph.all_to_all / linear / ring / star / grid`, graph.py lines 575-609): the raw
edge lists `allToAllRaw`, `linearRaw`, `ringRaw`, `starRaw`, `gridRaw` handed to `mk? · none`
(the constructor infers `num_qudits = 1 + max endpoint`, which is `1` for an empty list).
Each `*_spec` states: the constructor succeeds, the vertex count, well-formedness, and an
`iff` for `hasEdge a b` for all `a b`, including the degenerate sizes.
-/
namespace BqVerif.Graph

/-! ### generic helpers -/

/-- `rawMax` is `M` as soon as `M` bounds all endpoints and is `0` or attained. -/
theorem rawMax_eq_of_attained (raw : List (Nat × Nat)) (M : Nat)
    (hle : ∀ e ∈ raw, e.1 ≤ M ∧ e.2 ≤ M)
    (hat : M = 0 ∨ ∃ e ∈ raw, e.1 = M ∨ e.2 = M) : rawMax raw = M := by
  apply Nat.le_antisymm
  · rcases foldl_max_attained raw 0 with h | ⟨e, he, h⟩
    · show rawMax raw ≤ M
      unfold rawMax; omega
    · have := hle e he
      show rawMax raw ≤ M
      unfold rawMax; omega
  · rcases hat with h | ⟨e, he, h⟩
    · omega
    · have := rawMax_ge raw e he
      omega

/-- the constructor without an explicit vertex count, on a loop-free raw list. -/
theorem mk?_none_spec (raw : List (Nat × Nat)) (N : Nat)
    (h1 : ∀ e ∈ raw, e.1 ≠ e.2) (hN : rawMax raw + 1 = N) :
    ∃ g, mk? raw none = some g ∧ g.n = N ∧ g.WF ∧
      ∀ a b, g.hasEdge a b = true ↔ ∃ e ∈ raw, (e = (a, b) ∨ e = (b, a)) := by
  refine ⟨⟨rawMax raw + 1, (raw.map norm).eraseDups⟩, ?_, hN, ?_, ?_⟩
  · rw [mk?_none_some_iff]; exact ⟨h1, rfl⟩
  · apply wf_mk _ _ h1
    intro e he
    have := rawMax_ge raw e he
    omega
  · intro a b; exact hasEdge_mk _ _ a b

/-! ### membership in the raw edge lists -/

theorem mem_allToAllRaw (n : Nat) (e : Nat × Nat) :
    e ∈ allToAllRaw n ↔ e.1 < e.2 ∧ e.2 < n := by
  obtain ⟨x, y⟩ := e
  simp only [allToAllRaw, List.mem_flatMap, List.mem_range, List.mem_map, List.mem_filter,
    decide_eq_true_eq, Prod.mk.injEq]
  constructor
  · rintro ⟨a, ha, b, ⟨hb, hab⟩, rfl, rfl⟩; exact ⟨hab, hb⟩
  · rintro ⟨h1, h2⟩; exact ⟨x, by omega, y, ⟨h2, h1⟩, rfl, rfl⟩

theorem mem_linearRaw (n : Nat) (e : Nat × Nat) :
    e ∈ linearRaw n ↔ e.2 = e.1 + 1 ∧ e.2 < n := by
  obtain ⟨x, y⟩ := e
  simp only [linearRaw, List.mem_map, List.mem_range, Prod.mk.injEq]
  constructor
  · rintro ⟨a, ha, rfl, rfl⟩; exact ⟨rfl, by omega⟩
  · rintro ⟨h1, h2⟩; exact ⟨x, by omega, rfl, h1.symm⟩

theorem mem_starRaw (n : Nat) (e : Nat × Nat) :
    e ∈ starRaw n ↔ e.1 = 0 ∧ 1 ≤ e.2 ∧ e.2 < n := by
  obtain ⟨x, y⟩ := e
  simp only [starRaw, List.mem_map, List.mem_range'_1, Prod.mk.injEq]
  constructor
  · rintro ⟨a, ⟨h1, h2⟩, rfl, rfl⟩; exact ⟨rfl, h1, by omega⟩
  · rintro ⟨h0, h1, h2⟩; exact ⟨y, ⟨h1, by omega⟩, h0.symm, rfl⟩

theorem mem_gridRaw (rows cols : Nat) (e : Nat × Nat) :
    e ∈ gridRaw rows cols ↔ ∃ i, i < rows * cols ∧
      ((e = (i, i + 1) ∧ i % cols ≠ cols - 1) ∨ (e = (i, i + cols) ∧ i < (rows - 1) * cols)) := by
  simp only [gridRaw, List.mem_flatMap, List.mem_range, List.mem_append]
  constructor
  · rintro ⟨i, hi, h | h⟩
    · split at h
      · rename_i hc
        simp at h hc
        exact ⟨i, hi, Or.inl ⟨h, hc⟩⟩
      · simp at h
    · split at h
      · rename_i hc
        simp at h
        exact ⟨i, hi, Or.inr ⟨h, hc⟩⟩
      · simp at h
  · rintro ⟨i, hi, ⟨rfl, hc⟩ | ⟨rfl, hc⟩⟩
    · exact ⟨i, hi, Or.inl (by simp [hc])⟩
    · exact ⟨i, hi, Or.inr (by simp [hc])⟩


/-! ### all_to_all -/
theorem allToAll_spec (n : Nat) :
    ∃ g, mk? (allToAllRaw n) none = some g ∧ g.n = max n 1 ∧ g.WF ∧
      ∀ a b, g.hasEdge a b = true ↔ a ≠ b ∧ a < n ∧ b < n := by
  have hmax : rawMax (allToAllRaw n) = n - 1 := by
    apply rawMax_eq_of_attained
    · intro e he; rw [mem_allToAllRaw] at he; omega
    · by_cases h : n - 1 = 0
      · exact Or.inl h
      · exact Or.inr ⟨(0, n - 1), by rw [mem_allToAllRaw]; simp; omega, Or.inr rfl⟩
  obtain ⟨g, h1, h2, h3, h4⟩ := mk?_none_spec (allToAllRaw n) (max n 1)
    (by intro e he; rw [mem_allToAllRaw] at he; omega) (by rw [hmax]; omega)
  refine ⟨g, h1, h2, h3, fun a b => ?_⟩
  rw [h4]
  constructor
  · rintro ⟨e, he, rfl | rfl⟩ <;> · rw [mem_allToAllRaw] at he; simp at he; omega
  · rintro ⟨hab, ha, hb⟩
    by_cases h : a < b
    · exact ⟨(a, b), by rw [mem_allToAllRaw]; exact ⟨h, hb⟩, Or.inl rfl⟩
    · exact ⟨(b, a), by rw [mem_allToAllRaw]; exact ⟨by simp; omega, ha⟩, Or.inr rfl⟩

/-! ### linear -/
theorem linear_spec (n : Nat) :
    ∃ g, mk? (linearRaw n) none = some g ∧ g.n = max n 1 ∧ g.WF ∧
      ∀ a b, g.hasEdge a b = true ↔ (b = a + 1 ∧ b < n) ∨ (a = b + 1 ∧ a < n) := by
  have hmax : rawMax (linearRaw n) = n - 1 := by
    apply rawMax_eq_of_attained
    · intro e he; rw [mem_linearRaw] at he; omega
    · by_cases h : n - 1 = 0
      · exact Or.inl h
      · exact Or.inr ⟨(n - 2, n - 1), by rw [mem_linearRaw]; simp; omega, Or.inr rfl⟩
  obtain ⟨g, h1, h2, h3, h4⟩ := mk?_none_spec (linearRaw n) (max n 1)
    (by intro e he; rw [mem_linearRaw] at he; omega) (by rw [hmax]; omega)
  refine ⟨g, h1, h2, h3, fun a b => ?_⟩
  rw [h4]
  constructor
  · rintro ⟨e, he, rfl | rfl⟩
    · rw [mem_linearRaw] at he; exact Or.inl he
    · rw [mem_linearRaw] at he; exact Or.inr he
  · rintro (h | h)
    · exact ⟨(a, b), by rw [mem_linearRaw]; exact h, Or.inl rfl⟩
    · exact ⟨(b, a), by rw [mem_linearRaw]; exact h, Or.inr rfl⟩

/-! ### star -/
theorem star_spec (n : Nat) :
    ∃ g, mk? (starRaw n) none = some g ∧ g.n = max n 1 ∧ g.WF ∧
      ∀ a b, g.hasEdge a b = true ↔ (a = 0 ∧ 1 ≤ b ∧ b < n) ∨ (b = 0 ∧ 1 ≤ a ∧ a < n) := by
  have hmax : rawMax (starRaw n) = n - 1 := by
    apply rawMax_eq_of_attained
    · intro e he; rw [mem_starRaw] at he; omega
    · by_cases h : n - 1 = 0
      · exact Or.inl h
      · exact Or.inr ⟨(0, n - 1), by rw [mem_starRaw]; simp; omega, Or.inr rfl⟩
  obtain ⟨g, h1, h2, h3, h4⟩ := mk?_none_spec (starRaw n) (max n 1)
    (by intro e he; rw [mem_starRaw] at he; omega) (by rw [hmax]; omega)
  refine ⟨g, h1, h2, h3, fun a b => ?_⟩
  rw [h4]
  constructor
  · rintro ⟨e, he, rfl | rfl⟩
    · rw [mem_starRaw] at he; exact Or.inl he
    · rw [mem_starRaw] at he; exact Or.inr he
  · rintro (h | h)
    · exact ⟨(a, b), by rw [mem_starRaw]; exact h, Or.inl rfl⟩
    · exact ⟨(b, a), by rw [mem_starRaw]; exact h, Or.inr rfl⟩

/-! ### ring -/
theorem mem_ringList (n : Nat) (e : Nat × Nat) :
    e ∈ linearRaw n ++ [(0, n - 1)] ↔ (e.2 = e.1 + 1 ∧ e.2 < n) ∨ e = (0, n - 1) := by
  rw [List.mem_append, mem_linearRaw, List.mem_singleton]

theorem ringRaw_pos (n : Nat) (hn : n ≠ 0) : ringRaw n = some (linearRaw n ++ [(0, n - 1)]) := by
  simp [ringRaw, hn]

/-- `ring(n)` for `n ≥ 2`.  For `n = 2` the two raw pairs `(0,1)`, `(0,1)` collapse to a single
edge (see the concrete instance at the end).  The conjunct `a ≠ b` is implied by the others
(`a = (a + 1) % n` is impossible for `n ≥ 2`); it is kept for readability. -/
theorem ring_spec (n : Nat) (hn : 2 ≤ n) :
    ∃ g, (ringRaw n).bind (mk? · none) = some g ∧ g.n = n ∧ g.WF ∧
      ∀ a b, g.hasEdge a b = true ↔
        a < n ∧ b < n ∧ a ≠ b ∧ (b = (a + 1) % n ∨ a = (b + 1) % n) := by
  rw [ringRaw_pos n (by omega), Option.bind_some]
  have hmax : rawMax (linearRaw n ++ [(0, n - 1)]) = n - 1 := by
    apply rawMax_eq_of_attained
    · intro e he; rw [mem_ringList] at he
      rcases he with he | rfl
      · omega
      · simp
    · exact Or.inr ⟨(0, n - 1), by rw [mem_ringList]; exact Or.inr rfl, Or.inr rfl⟩
  obtain ⟨g, h1, h2, h3, h4⟩ := mk?_none_spec (linearRaw n ++ [(0, n - 1)]) n
    (by
      intro e he; rw [mem_ringList] at he
      rcases he with he | rfl
      · omega
      · simp; omega) (by rw [hmax]; omega)
  refine ⟨g, h1, h2, h3, fun a b => ?_⟩
  rw [h4]
  -- `(x + 1) % n` for `x < n`
  have hmod : ∀ x, x < n → (x + 1) % n = if x + 1 = n then 0 else x + 1 := by
    intro x hx
    split
    · rename_i h; rw [h]; exact Nat.mod_self n
    · exact Nat.mod_eq_of_lt (by omega)
  constructor
  · rintro ⟨e, he, rfl | rfl⟩
    · rw [mem_ringList] at he
      rcases he with ⟨h1, h2⟩ | h
      · simp at h1 h2
        refine ⟨by omega, h2, by omega, Or.inl ?_⟩
        rw [hmod a (by omega)]; split <;> omega
      · simp at h
        refine ⟨by omega, by omega, by omega, Or.inr ?_⟩
        rw [hmod b (by omega)]; split <;> omega
    · rw [mem_ringList] at he
      rcases he with ⟨h1, h2⟩ | h
      · simp at h1 h2
        refine ⟨h2, by omega, by omega, Or.inr ?_⟩
        rw [hmod b (by omega)]; split <;> omega
      · simp at h
        refine ⟨by omega, by omega, by omega, Or.inl ?_⟩
        rw [hmod a (by omega)]; split <;> omega
  · rintro ⟨ha, hb, hab, h | h⟩
    · rw [hmod a ha] at h
      split at h
      · exact ⟨(b, a), by rw [mem_ringList]; right; simp; omega, Or.inr rfl⟩
      · exact ⟨(a, b), by rw [mem_ringList]; left; simp; omega, Or.inl rfl⟩
    · rw [hmod b hb] at h
      split at h
      · exact ⟨(a, b), by rw [mem_ringList]; right; simp; omega, Or.inl rfl⟩
      · exact ⟨(b, a), by rw [mem_ringList]; left; simp; omega, Or.inr rfl⟩

/-- `ring(1)`: the extra pair is the self loop `(0,0)`, the constructor raises. -/
theorem ring_one : (ringRaw 1).bind (mk? · none) = none := by decide
/-- `ring(0)` is outside the model's domain (see the comment at `ringRaw`). -/
theorem ring_zero : (ringRaw 0).bind (mk? · none) = none := by decide


/-! ### grid -/

/-- a right neighbour stays inside the grid -/
theorem grid_right_lt {rows cols i : Nat} (hi : i < rows * cols) (hc : i % cols ≠ cols - 1) :
    i + 1 < rows * cols := by
  have hpos : 0 < cols := by
    rcases Nat.eq_zero_or_pos cols with h | h
    · subst h; simp at hi
    · exact h
  have hq : i / cols + 1 ≤ rows := (Nat.div_lt_iff_lt_mul hpos).2 hi
  have h1 := Nat.mul_le_mul_left cols hq
  rw [Nat.mul_succ] at h1
  have h2 := Nat.div_add_mod i cols
  have h3 := Nat.mod_lt i hpos
  rw [Nat.mul_comm rows cols]
  omega

/-- a lower neighbour stays inside the grid (and the guard is exactly that) -/
theorem grid_down_iff {rows cols i : Nat} :
    i < (rows - 1) * cols ↔ 0 < cols ∧ i + cols < rows * cols := by
  cases rows with
  | zero => simp
  | succ r =>
    rw [Nat.succ_mul]
    simp only [Nat.add_sub_cancel]
    constructor
    · intro h
      have hpos : 0 < cols := by
        rcases Nat.eq_zero_or_pos cols with h' | h'
        · subst h'; simp at h
        · exact h'
      omega
    · omega

theorem grid_succ_div_mod {c i : Nat} (hpos : 0 < c) (hc : i % c ≠ c - 1) :
    (i + 1) / c = i / c ∧ (i + 1) % c = i % c + 1 := by
  rw [Nat.div_mod_unique hpos]
  have h2 := Nat.div_add_mod i c
  have h3 := Nat.mod_lt i hpos
  omega

theorem rawMax_gridRaw (rows cols : Nat) : rawMax (gridRaw rows cols) = rows * cols - 1 := by
  apply rawMax_eq_of_attained
  · intro e he
    rw [mem_gridRaw] at he
    obtain ⟨i, hi, ⟨rfl, hc⟩ | ⟨rfl, hc⟩⟩ := he
    · have := grid_right_lt hi hc
      simp; omega
    · have := grid_down_iff.1 hc
      simp; omega
  · by_cases h : rows * cols - 1 = 0
    · exact Or.inl h
    · right
      by_cases hc1 : cols = 1
      · subst hc1
        simp only [Nat.mul_one] at h ⊢
        refine ⟨(rows - 2, rows - 2 + 1), ?_, Or.inr (by simp; omega)⟩
        rw [mem_gridRaw]
        exact ⟨rows - 2, by omega, Or.inr ⟨rfl, by omega⟩⟩
      · have hc2 : 2 ≤ cols := by
          rcases Nat.eq_zero_or_pos cols with h' | h'
          · subst h'; simp at h
          · omega
        refine ⟨(rows * cols - 2, rows * cols - 2 + 1), ?_, Or.inr (by simp; omega)⟩
        rw [mem_gridRaw]
        refine ⟨rows * cols - 2, by omega, Or.inl ⟨rfl, ?_⟩⟩
        cases rows with
        | zero => simp at h
        | succ r =>
          have : (r + 1) * cols - 2 = r * cols + (cols - 2) := by rw [Nat.succ_mul]; omega
          rw [this, Nat.mul_add_mod', Nat.mod_eq_of_lt (by omega)]
          omega

theorem grid_spec_arith (rows cols : Nat) :
    ∃ g, mk? (gridRaw rows cols) none = some g ∧ g.n = max (rows * cols) 1 ∧ g.WF ∧
      ∀ a b, g.hasEdge a b = true ↔
        ∃ i j, ((i = a ∧ j = b) ∨ (i = b ∧ j = a)) ∧
          ((j = i + 1 ∧ i % cols ≠ cols - 1 ∧ i < rows * cols) ∨
           (j = i + cols ∧ i < (rows - 1) * cols)) := by
  obtain ⟨g, h1, h2, h3, h4⟩ := mk?_none_spec (gridRaw rows cols) (max (rows * cols) 1)
    (by
      intro e he
      rw [mem_gridRaw] at he
      obtain ⟨i, hi, ⟨rfl, hc⟩ | ⟨rfl, hc⟩⟩ := he
      · simp
      · have := grid_down_iff.1 hc
        simp; omega)
    (by rw [rawMax_gridRaw]; omega)
  refine ⟨g, h1, h2, h3, fun a b => ?_⟩
  rw [h4]
  constructor
  · rintro ⟨e, he, hab⟩
    rw [mem_gridRaw] at he
    obtain ⟨i, hi, ⟨rfl, hc⟩ | ⟨rfl, hc⟩⟩ := he
    · refine ⟨i, i + 1, ?_, Or.inl ⟨rfl, hc, hi⟩⟩
      rcases hab with h | h <;> simp at h <;> omega
    · refine ⟨i, i + cols, ?_, Or.inr ⟨rfl, hc⟩⟩
      rcases hab with h | h <;> simp at h <;> omega
  · rintro ⟨i, j, hij, ⟨rfl, hc, hi⟩ | ⟨rfl, hc⟩⟩
    · refine ⟨(i, i + 1), ?_, ?_⟩
      · rw [mem_gridRaw]; exact ⟨i, hi, Or.inl ⟨rfl, hc⟩⟩
      · rcases hij with ⟨rfl, rfl⟩ | ⟨rfl, rfl⟩
        · exact Or.inl rfl
        · exact Or.inr rfl
    · refine ⟨(i, i + cols), ?_, ?_⟩
      · rw [mem_gridRaw]
        have := grid_down_iff.1 hc
        exact ⟨i, by omega, Or.inr ⟨rfl, hc⟩⟩
      · rcases hij with ⟨rfl, rfl⟩ | ⟨rfl, rfl⟩
        · exact Or.inl rfl
        · exact Or.inr rfl


theorem grid_right_iff {c i j : Nat} (hpos : 0 < c) :
    (j = i + 1 ∧ i % c ≠ c - 1) ↔ (i / c = j / c ∧ i % c + 1 = j % c) := by
  constructor
  · rintro ⟨rfl, hc⟩
    have := grid_succ_div_mod hpos hc
    omega
  · rintro ⟨h1, h2⟩
    have hi := Nat.div_add_mod i c
    have hj := Nat.div_add_mod j c
    have := Nat.mod_lt j hpos
    rw [h1] at hi
    omega

theorem grid_col_iff {c i j : Nat} (hpos : 0 < c) :
    j = i + c ↔ (i % c = j % c ∧ i / c + 1 = j / c) := by
  constructor
  · rintro rfl
    rw [Nat.add_mod_right, Nat.add_div_right i hpos]
    exact ⟨rfl, rfl⟩
  · rintro ⟨h1, h2⟩
    have hi := Nat.div_add_mod i c
    have hj := Nat.div_add_mod j c
    rw [← h2, Nat.mul_succ] at hj
    omega

theorem grid_spec (rows cols : Nat) :
    ∃ g, mk? (gridRaw rows cols) none = some g ∧ g.n = max (rows * cols) 1 ∧ g.WF ∧
      ∀ a b, g.hasEdge a b = true ↔
        a < rows * cols ∧ b < rows * cols ∧
        ((a / cols = b / cols ∧ (a % cols + 1 = b % cols ∨ b % cols + 1 = a % cols)) ∨
         (a % cols = b % cols ∧ (a / cols + 1 = b / cols ∨ b / cols + 1 = a / cols))) := by
  obtain ⟨g, h1, h2, h3, h4⟩ := grid_spec_arith rows cols
  refine ⟨g, h1, h2, h3, fun a b => ?_⟩
  rw [h4]
  have hpos_of : ∀ x, x < rows * cols → 0 < cols := by
    intro x hx
    rcases Nat.eq_zero_or_pos cols with h | h
    · subst h; simp at hx
    · exact h
  constructor
  · rintro ⟨i, j, hij, ⟨hj, hc, hi⟩ | ⟨hj, hc⟩⟩
    · have hpos := hpos_of i hi
      have hlt : j < rows * cols := hj ▸ grid_right_lt hi hc
      have := (grid_right_iff hpos).1 ⟨hj, hc⟩
      rcases hij with ⟨rfl, rfl⟩ | ⟨rfl, rfl⟩
      · exact ⟨hi, hlt, Or.inl ⟨this.1, Or.inl this.2⟩⟩
      · exact ⟨hlt, hi, Or.inl ⟨this.1.symm, Or.inr this.2⟩⟩
    · obtain ⟨hpos, hlt⟩ := grid_down_iff.1 hc
      have := (grid_col_iff hpos).1 hj
      rw [← hj] at hlt
      have hi : i < rows * cols := by omega
      rcases hij with ⟨rfl, rfl⟩ | ⟨rfl, rfl⟩
      · exact ⟨hi, hlt, Or.inr ⟨this.1, Or.inl this.2⟩⟩
      · exact ⟨hlt, hi, Or.inr ⟨this.1.symm, Or.inr this.2⟩⟩
  · rintro ⟨ha, hb, ⟨hq, hr | hr⟩ | ⟨hr, hq | hq⟩⟩
    · have hpos := hpos_of a ha
      have := (grid_right_iff hpos).2 ⟨hq, hr⟩
      exact ⟨a, b, Or.inl ⟨rfl, rfl⟩, Or.inl ⟨this.1, this.2, ha⟩⟩
    · have hpos := hpos_of a ha
      have := (grid_right_iff hpos).2 ⟨hq.symm, hr⟩
      exact ⟨b, a, Or.inr ⟨rfl, rfl⟩, Or.inl ⟨this.1, this.2, hb⟩⟩
    · have hpos := hpos_of a ha
      have := (grid_col_iff hpos).2 ⟨hr, hq⟩
      exact ⟨a, b, Or.inl ⟨rfl, rfl⟩, Or.inr ⟨this, grid_down_iff.2 ⟨hpos, this ▸ hb⟩⟩⟩
    · have hpos := hpos_of a ha
      have := (grid_col_iff hpos).2 ⟨hr.symm, hq⟩
      exact ⟨b, a, Or.inr ⟨rfl, rfl⟩, Or.inr ⟨this, grid_down_iff.2 ⟨hpos, this ▸ ha⟩⟩⟩

/-! ### concrete instances -/
example : mk? (gridRaw 2 3) none =
    some ⟨6, [(0, 1), (0, 3), (1, 2), (1, 4), (2, 5), (3, 4), (4, 5)]⟩ := by decide
example : mk? (gridRaw 1 1) none = some ⟨1, []⟩ := by decide
example : mk? (gridRaw 0 3) none = some ⟨1, []⟩ := by decide
example : mk? (gridRaw 3 0) none = some ⟨1, []⟩ := by decide
example : mk? (gridRaw 1 4) none = some ⟨4, [(0, 1), (1, 2), (2, 3)]⟩ := by decide
example : mk? (gridRaw 4 1) none = some ⟨4, [(0, 1), (1, 2), (2, 3)]⟩ := by decide
example : mk? (allToAllRaw 0) none = some ⟨1, []⟩ := by decide
example : mk? (allToAllRaw 3) none = some ⟨3, [(0, 1), (0, 2), (1, 2)]⟩ := by decide
example : mk? (linearRaw 0) none = some ⟨1, []⟩ := by decide
example : mk? (linearRaw 1) none = some ⟨1, []⟩ := by decide
example : mk? (linearRaw 3) none = some ⟨3, [(0, 1), (1, 2)]⟩ := by decide
example : mk? (starRaw 0) none = some ⟨1, []⟩ := by decide
example : mk? (starRaw 4) none = some ⟨4, [(0, 1), (0, 2), (0, 3)]⟩ := by decide
/-- non-vacuity of `ring_spec` (`2 ≤ n`); for `n = 2` the two pairs `(0,1)` collapse. -/
example : (2 : Nat) ≤ 2 ∧ (ringRaw 2).bind (mk? · none) = some ⟨2, [(0, 1)]⟩ := by decide
example : (ringRaw 4).bind (mk? · none) = some ⟨4, [(0, 1), (1, 2), (2, 3), (0, 3)]⟩ := by decide

end BqVerif.Graph
