import BqVerif.Proofs.CircSlice
import BqVerif.Proofs.CircSem
/-! # `batch_pop` on the grid, for any points; the timelines after `pop_qudit` (C04) -/
namespace BqVerif.Circ

/-- what is left of a list of cycles (the first one having index `i`) when the operations `o` of
cycle `k` with `pred k o` are removed: every cycle filtered, empty cycles dropped -/
def keepIdx (pred : Nat → Op → Bool) (i : Nat) (l : List Cycle) : List Cycle :=
  ((l.zipIdx i).map (fun x => x.1.filter (fun o => !pred x.2 o))).filter (fun cy => !cy.isEmpty)

theorem keepIdx_append (pred : Nat → Op → Bool) (i : Nat) (l1 l2 : List Cycle) :
    keepIdx pred i (l1 ++ l2) = keepIdx pred i l1 ++ keepIdx pred (i + l1.length) l2 := by
  simp [keepIdx, List.zipIdx_append, Nat.add_comm]

theorem keepIdx_single (pred : Nat → Op → Bool) (i : Nat) (cy : Cycle) :
    keepIdx pred i [cy] =
      if (cy.filter (fun o => !pred i o)).isEmpty then [] else [cy.filter (fun o => !pred i o)] := by
  simp only [keepIdx, List.zipIdx_cons, List.zipIdx_nil, List.map_cons, List.map_nil,
    List.filter_cons, List.filter_nil]
  split <;> simp_all

theorem keepIdx_congr (pred pred' : Nat → Op → Bool) (i : Nat) (l : List Cycle)
    (h : ∀ t (ht : t < l.length), ∀ o ∈ l[t], pred (i + t) o = pred' (i + t) o) :
    keepIdx pred i l = keepIdx pred' i l := by
  induction l generalizing i with
  | nil => rfl
  | cons cy t ih =>
    have e1 : keepIdx pred i (cy :: t) = keepIdx pred i [cy] ++ keepIdx pred (i + 1) t :=
      keepIdx_append pred i [cy] t
    have e2 : keepIdx pred' i (cy :: t) = keepIdx pred' i [cy] ++ keepIdx pred' (i + 1) t :=
      keepIdx_append pred' i [cy] t
    rw [e1, e2, keepIdx_single, keepIdx_single]
    have hc : cy.filter (fun o => !pred i o) = cy.filter (fun o => !pred' i o) := by
      apply List.filter_congr
      intro o ho
      have := h 0 (by simp) o (by simpa using ho)
      simp only [Nat.add_zero] at this
      rw [this]
    rw [hc, ih (i + 1) (fun s hs o ho => by
      have := h (s + 1) (by simpa using hs) o (by simpa using ho)
      have e : i + (s + 1) = i + 1 + s := by omega
      rw [e] at this; exact this)]

theorem keepIdx_const (p : Op → Bool) (i : Nat) (l : List Cycle) :
    keepIdx (fun _ => p) i l = keepCycles p l := by
  induction l generalizing i with
  | nil => rfl
  | cons cy t ih =>
    have e1 : keepIdx (fun _ => p) i (cy :: t) =
        keepIdx (fun _ => p) i [cy] ++ keepIdx (fun _ => p) (i + 1) t :=
      keepIdx_append _ i [cy] t
    have e2 : keepCycles p (cy :: t) = keepCycles p [cy] ++ keepCycles p t :=
      keepCycles_append p [cy] t
    rw [e1, e2, ih, keepIdx_single, keepCycles_single]

/-- the removal fold of `batch_pop` over a list grouped by cycle (index-dependent selection) -/
theorem remove_groups_idx (c : Circ) (hinv : c.Inv) (pred : Nat → Op → Bool) (F : Nat → List Op)
    (hF : ∀ k (h : k < c.cycles.length), (F k).Nodup ∧
      ∀ o, o ∈ F k ↔ o ∈ c.cycles[k] ∧ pred k o = true)
    (m : Nat) (hm : m ≤ c.cycles.length) (X : List Cycle) :
    ((List.range m).flatMap (fun k => (F k).map (fun o => (k, o)))).foldr
        (fun (x : Nat × Op) (acc : Circ) => acc.removeAt x.1 x.2.head)
          (Circ.mk c.radixes (c.cycles.take m ++ X)) =
      ⟨c.radixes, keepIdx pred 0 (c.cycles.take m) ++ X⟩ := by
  induction m generalizing X with
  | zero => simp [keepIdx]
  | succ m ih =>
    have hlt : m < c.cycles.length := by omega
    rw [List.range_succ, List.flatMap_append, List.foldr_append]
    simp only [List.flatMap_cons, List.flatMap_nil, List.append_nil, List.foldr_map]
    have htake : c.cycles.take (m + 1) = c.cycles.take m ++ [c.cycles[m]] :=
      List.take_succ_eq_append_getElem hlt
    have hlen : (c.cycles.take m).length = m := by rw [List.length_take]; omega
    have hcyk := List.getElem_mem hlt
    obtain ⟨hnd, hmemF⟩ := hF m hlt
    have hbucket := removeAt_bucket c.radixes (c.cycles.take m) X c.cycles[m] m hlen (F m)
      (hinv.2.1 _ hcyk) (fun x hx => (hinv.2.2 _ hcyk x hx).1) (hinv.1 _ hcyk) hnd
      (fun o ho => ((hmemF o).1 ho).1)
    rw [htake, List.append_assoc, List.singleton_append, hbucket, List.append_assoc,
      ih (by omega), keepIdx_append, hlen, Nat.zero_add, keepIdx_single, List.append_assoc]
    have : c.cycles[m].filter (fun x => !(F m).contains x) =
        c.cycles[m].filter (fun o => !pred m o) := by
      apply List.filter_congr
      intro x hx
      have := hmemF x
      cases hp : pred m x with
      | true =>
        have : x ∈ F m := this.2 ⟨hx, hp⟩
        simp [this]
      | false =>
        have : x ∉ F m := fun h => by simpa [hp] using (this.1 h).2
        simp [this]
    rw [this]

/-- **`batch_pop` on the grid, for ANY points** (in range, at least one holding an operation):
every cycle loses exactly the operations addressed by some point, in place, and the cycles that
became empty are dropped. -/
theorem batchPop_grid (c : Circ) (hinv : c.Inv) (pts : List (Int × Int))
    (hall : pts.all (fun p => c.cycleInRange p.1 && c.qubitInRange p.2) = true)
    (hne : ((pts.map (fun p => (normIdx c.numCycles p.1, normIdx c.numQudits p.2))).filterMap
      (fun x => (c.cell x.1 x.2).map (fun o => (x.1, o)))).isEmpty = false) :
    (c.batchPop pts).1 = ⟨c.radixes, keepIdx (fun k o => (c.selected
      (pts.map (fun p => (normIdx c.numCycles p.1, normIdx c.numQudits p.2)))).contains (k, o)) 0
        c.cycles⟩ := by
  have hbp := batchPop_selected c pts hall hne
  simp only at hbp
  rw [hbp]
  generalize hnp : pts.map (fun p => (normIdx c.numCycles p.1, normIdx c.numQudits p.2)) = npts
  show (c.selected npts).foldr _ c = _
  let F : Nat → List Op := fun k =>
    sortBy Op.head (((dedupOps (npts.filterMap
      (fun x => (c.cell x.1 x.2).map (fun o => (x.1, o))))).filter (·.1 == k)).map (·.2))
  have hsel : c.selected npts =
      (List.range c.cycles.length).flatMap (fun k => (F k).map (fun o => (k, o))) := rfl
  have hmemF : ∀ k o, o ∈ F k ↔ ∃ q', (k, q') ∈ npts ∧ c.cell k q' = some o := by
    intro k o
    simp only [F, mem_sortBy, List.mem_map, List.mem_filter, mem_dedupOps, List.mem_filterMap,
      Prod.exists, beq_iff_eq, Option.map_eq_some_iff, Prod.mk.injEq]
    constructor
    · rintro ⟨a, b, ⟨⟨a', q', hm, x, hx, rfl, rfl⟩, rfl⟩, rfl⟩
      exact ⟨q', hm, hx⟩
    · rintro ⟨q', hm, hx⟩
      exact ⟨k, o, ⟨⟨k, q', hm, o, hx, rfl, rfl⟩, rfl⟩, rfl⟩
  have hF : ∀ k (h : k < c.cycles.length), (F k).Nodup ∧
      ∀ o, o ∈ F k ↔ o ∈ c.cycles[k] ∧ (c.selected npts).contains (k, o) = true := by
    intro k hk
    constructor
    · apply (sortBy_perm _ _).nodup_iff.2
      apply List.Nodup.map_on _ ((nodup_dedupOps _).filter _)
      intro x hx y hy hxy
      have hx1 : x.1 = k := by simpa using (List.mem_filter.mp hx).2
      have hy1 : y.1 = k := by simpa using (List.mem_filter.mp hy).2
      exact Prod.ext (by rw [hx1, hy1]) hxy
    · intro o
      rw [List.contains_iff_mem, mem_selected, hmemF]
      constructor
      · rintro ⟨q', h1, h2⟩
        obtain ⟨_, hm, _⟩ := cell_mem c k q' o h2
        exact ⟨hm, hk, q', h1, h2⟩
      · rintro ⟨_, _, h⟩; exact h
  have := remove_groups_idx c hinv (fun k o => (c.selected npts).contains (k, o)) F hF
    c.cycles.length (Nat.le_refl _) []
  simp only [List.take_length, List.append_nil] at this
  conv => lhs; rw [hsel]
  exact this

theorem keepCycles_id (c : Circ) (hinv : c.Inv) (pred : Op → Bool)
    (hnone : ∀ cy ∈ c.cycles, ∀ o ∈ cy, pred o = false) : keepCycles pred c.cycles = c.cycles := by
  unfold keepCycles
  have h1 : c.cycles.map (fun cy => cy.filter (fun o => !pred o)) = c.cycles := by
    conv => rhs; rw [← List.map_id c.cycles]
    apply List.map_congr_left
    intro cy hcy
    show cy.filter _ = cy
    rw [List.filter_eq_self]
    intro o ho
    simp [hnone cy hcy o ho]
  rw [h1, List.filter_eq_self]
  intro cy hcy
  have := hinv.1 cy hcy
  cases cy with
  | nil => exact absurd rfl this
  | cons _ _ => rfl

/-- the batch pop inside `pop_qudit(k)`: every operation touching qudit `k` disappears, in place -/
theorem popQudit_batch (c : Circ) (hinv : c.Inv) (k : Nat) (hk : k < c.numQudits) :
    (if (ptsQ c k).isEmpty then c else (c.batchPop (ptsQ c k)).1) =
      ⟨c.radixes, keepCycles (fun o => o.on k) c.cycles⟩ := by
  split
  · rename_i he
    have he' : ptsQ c k = [] := by simpa using he
    rw [keepCycles_id c hinv]
    intro cy hcy o ho
    obtain ⟨t, ht, rfl⟩ := List.getElem_of_mem hcy
    cases hon : o.on k with
    | false => rfl
    | true =>
      exfalso
      have hocc : occ c.cycles[t] k = true := by
        rw [occ_eq_true_iff]; exact ⟨o, ho, by simpa [Op.on] using hon⟩
      have : ((t : Int), (k : Int)) ∈ ptsQ c k :=
        (mem_ptsQ c k _).2 ⟨t, ht, by rw [getD_of_lt _ _ ht]; exact hocc, rfl⟩
      rw [he'] at this; simp at this
  · rename_i he
    have hall : (ptsQ c k).all (fun p => c.cycleInRange p.1 && c.qubitInRange p.2) = true := by
      rw [List.all_eq_true]
      intro p hp
      obtain ⟨i, hi, _, rfl⟩ := (mem_ptsQ c k p).1 hp
      simp only [Circ.cycleInRange, Circ.qubitInRange, Bool.and_eq_true, decide_eq_true_eq]
      omega
    have hfound : (foundQ c k).isEmpty = false := by
      cases hp : ptsQ c k with
      | nil => rw [hp] at he; simp at he
      | cons p t =>
        obtain ⟨i, hi, hocc, _⟩ := (mem_ptsQ c k p).1 (by rw [hp]; simp)
        rw [occ_eq_true_iff] at hocc
        obtain ⟨o, ho, hq⟩ := hocc
        have hlt : i < c.cycles.length := hi
        rw [getD_of_lt _ _ hlt] at ho
        have := (mem_foundQ c k i o).2 ⟨hi, cell_of_mem c hinv i k o hlt ho hq⟩
        cases hf : foundQ c k with
        | nil => rw [hf] at this; simp at this
        | cons _ _ => rfl
    rw [batchPop_grid c hinv (ptsQ c k) hall hfound]
    congr 1
    rw [← keepIdx_const (fun o => o.on k) 0 c.cycles]
    apply keepIdx_congr
    intro t ht o ho
    simp only [Nat.zero_add]
    -- an operation of cycle `t` is selected iff it sits on qudit `k`
    have hiff : (t, o) ∈ c.selected ((ptsQ c k).map
        (fun p => (normIdx c.numCycles p.1, normIdx c.numQudits p.2))) ↔ o.on k = true := by
      rw [mem_selected]
      constructor
      · rintro ⟨_, q, hm, hc⟩
        rw [List.mem_map] at hm
        obtain ⟨p, hp, hpe⟩ := hm
        obtain ⟨i, _, _, rfl⟩ := (mem_ptsQ c k p).1 hp
        simp only [Prod.mk.injEq, mem_foundQ.normIdx_nat'] at hpe
        obtain ⟨rfl, rfl⟩ := hpe
        obtain ⟨_, _, hq⟩ := cell_mem c i k o hc
        simpa [Op.on] using hq
      · intro hon
        have hq : k ∈ o.loc := by simpa [Op.on] using hon
        have hocc : occ c.cycles[t] k = true := by
          rw [occ_eq_true_iff]; exact ⟨o, ho, hq⟩
        refine ⟨ht, k, ?_, cell_of_mem c hinv t k o ht ho hq⟩
        rw [List.mem_map]
        exact ⟨((t : Int), (k : Int)),
          (mem_ptsQ c k _).2 ⟨t, ht, by rw [getD_of_lt _ _ ht]; exact hocc, rfl⟩,
          by simp [mem_foundQ.normIdx_nat']⟩
    cases hon : o.on k with
    | true => simpa using hiff.2 hon
    | false =>
      have : (t, o) ∉ c.selected ((ptsQ c k).map
          (fun p => (normIdx c.numCycles p.1, normIdx c.numQudits p.2))) :=
        fun h => by simpa [hon] using hiff.1 h
      simpa using this

theorem popQudit_eq (c : Circ) (qi : Int) (hr : c.qubitInRange qi = true)
    (hn : (c.numQudits == 1) = false) :
    c.popQudit qi =
      (⟨(if (ptsQ c (normIdx c.numQudits qi)).isEmpty then c
          else (c.batchPop (ptsQ c (normIdx c.numQudits qi))).1).radixes.eraseIdx
            (normIdx c.numQudits qi),
        (if (ptsQ c (normIdx c.numQudits qi)).isEmpty then c
          else (c.batchPop (ptsQ c (normIdx c.numQudits qi))).1).mapLocs
            (fun q => if q < normIdx c.numQudits qi then q else q - 1)⟩, .ok ()) := by
  unfold Circ.popQudit
  rw [hr, hn]
  rfl

/-- **the timelines after `pop_qudit(k)`**: the call succeeds (index in range, more than one
qudit); qudit `q ≠ k`, renamed to `q` (below `k`) or `q - 1` (above), keeps its timeline except for
the operations that also touched `k`, which are gone; the radix of `k` is gone. -/
theorem popQudit_timeline (c : Circ) (hinv : c.Inv) (qi : Int) (hr : c.qubitInRange qi = true)
    (hn : (c.numQudits == 1) = false) (q : Nat) (hq : q ≠ normIdx c.numQudits qi) :
    (c.popQudit qi).2 = .ok () ∧
    (c.popQudit qi).1.radixes = c.radixes.eraseIdx (normIdx c.numQudits qi) ∧
    (c.popQudit qi).1.timeline
        ((fun q => if q < normIdx c.numQudits qi then q else q - 1) q) =
      ((c.timeline q).filter (fun o => !o.on (normIdx c.numQudits qi))).map
        (Op.relabel (fun q => if q < normIdx c.numQudits qi then q else q - 1)) := by
  have hr' : qi < (c.numQudits : Int) ∧ qi ≥ -(c.numQudits : Int) := by
    simpa [Circ.qubitInRange] using hr
  have hpos : 0 < c.numQudits := by omega
  have hk : normIdx c.numQudits qi < c.numQudits := normIdx_lt _ _ hr'.1 hr'.2 hpos
  rw [popQudit_eq c qi hr hn]
  generalize normIdx c.numQudits qi = k at hk hq ⊢
  rw [popQudit_batch c hinv k hk]
  refine ⟨rfl, rfl, ?_⟩
  unfold Circ.timeline
  rw [mapLocs_ops]
  have hops : (Circ.mk c.radixes (keepCycles (fun o => o.on k) c.cycles)).ops =
      c.ops.filter (fun o => !o.on k) := keepCycles_flatten _ c.cycles
  rw [hops]
  have := proj_relabel_on (fun q => if q < k then q else q - 1) (fun a => a ≠ k)
    (fun a b' ha hb h => by
      split at h <;> split at h <;> omega)
    (c.ops.filter (fun o => !o.on k))
    (fun o ho i hi e => by
      have := (List.mem_filter.mp ho).2
      have hik : k ∈ o.loc := e ▸ hi
      simp [Op.on, hik] at this) q hq
  rw [this]
  congr 1
  simp only [proj, List.filter_filter]
  apply List.filter_congr
  intro x _
  exact Bool.and_comm _ _

end BqVerif.Circ
