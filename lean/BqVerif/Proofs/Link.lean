import BqVerif.Model.Link
/-! Read receipts are always found; task counts never go negative (link machine). -/
namespace BqVerif.Runtime

/-- the receipts can be located left to right in the cache -/
def Chain : List (Addr × Nat) → List (Option Addr) → Prop
  | _, [] => True
  | c, none :: rest => Chain c rest
  | c, some a :: rest => ∃ pre n suf, c = pre ++ (a, n) :: suf ∧ Chain ((a, n) :: suf) rest

theorem Chain.suffix {c2 : List (Addr × Nat)} {l : List (Option Addr)} (c1 : List (Addr × Nat))
    (h : Chain c2 l) : Chain (c1 ++ c2) l := by
  induction l with
  | nil => trivial
  | cons x rest ih =>
    cases x with
    | none => exact ih h
    | some a =>
      obtain ⟨pre, n, suf, rfl, hc⟩ := h
      exact ⟨c1 ++ pre, n, suf, by simp, hc⟩

theorem Chain.extend {c : List (Addr × Nat)} {l : List (Option Addr)} (a : Addr) (n : Nat)
    (h : Chain c l) : Chain (c ++ [(a, n)]) (l ++ [some a]) := by
  induction l generalizing c with
  | nil => exact ⟨c, n, [], rfl, trivial⟩
  | cons x rest ih =>
    cases x with
    | none => exact ih h
    | some b =>
      obtain ⟨pre, m, suf, rfl, hc⟩ := h
      refine ⟨pre, m, suf ++ [(a, n)], by simp, ?_⟩
      have := ih hc
      simpa using this

theorem Chain.tail {c : List (Addr × Nat)} {x : Option Addr} {l : List (Option Addr)}
    (h : Chain c (x :: l)) : Chain c l := by
  cases x with
  | none => exact h
  | some a =>
    obtain ⟨pre, n, suf, rfl, hc⟩ := h
    exact hc.suffix pre

theorem Chain.dropMid {c : List (Addr × Nat)} (l1 : List (Option Addr)) {x : Option Addr}
    {l2 : List (Option Addr)} (h : Chain c (l1 ++ x :: l2)) : Chain c (l1 ++ l2) := by
  induction l1 generalizing c with
  | nil => exact h.tail
  | cons y ys ih =>
    cases y with
    | none => exact ih h
    | some b =>
      obtain ⟨pre, m, suf, rfl, hc⟩ := h
      exact ⟨pre, m, suf, rfl, ih hc⟩

theorem Chain.dup {c : List (Addr × Nat)} (l1 : List (Option Addr)) {x : Option Addr}
    {l2 : List (Option Addr)} (h : Chain c (l1 ++ x :: l2)) : Chain c (l1 ++ x :: x :: l2) := by
  induction l1 generalizing c with
  | nil =>
    cases x with
    | none => exact h
    | some a =>
      obtain ⟨pre, n, suf, rfl, hc⟩ := h
      exact ⟨pre, n, suf, rfl, ⟨[], n, suf, rfl, hc⟩⟩
  | cons y ys ih =>
    cases y with
    | none => exact ih h
    | some b =>
      obtain ⟨pre, m, suf, rfl, hc⟩ := h
      exact ⟨pre, m, suf, rfl, ih hc⟩

/-- a receipt at the head of the chain is found by `get_num_of_tasks_sent_since`, and the
    trimmed cache still contains every later receipt -/
theorem Chain.consume {c : List (Addr × Nat)} {r : Option Addr} {rest : List (Option Addr)}
    (h : Chain c (r :: rest)) : ∃ c' u, sentSince c r = some (c', u) ∧ Chain c' rest := by
  cases r with
  | none => exact ⟨c, (c.map (·.2)).sum, by simp [sentSince], h⟩
  | some a =>
    induction c with
    | nil =>
      obtain ⟨pre, n, suf, he, _⟩ := h
      cases pre <;> simp at he
    | cons xk t ih =>
      obtain ⟨x, k⟩ := xk
      by_cases hx : x = a
      · subst hx
        refine ⟨(x, k) :: t, (t.map (·.2)).sum, by simp [sentSince], ?_⟩
        exact Chain.tail h
      · obtain ⟨pre, n, suf, he, hc⟩ := h
        cases pre with
        | nil =>
          simp only [List.nil_append, List.cons.injEq, Prod.mk.injEq] at he
          exact absurd he.1.1 hx
        | cons p pre' =>
          simp only [List.cons_append, List.cons.injEq] at he
          obtain ⟨_, rfl⟩ := he
          obtain ⟨c', u, hs, hc'⟩ := ih ⟨pre', n, suf, rfl, hc⟩
          exact ⟨c', u, by simp [sentSince, hx, hs], hc'⟩

def receiptsOf : List UpMsg → List (Option Addr)
  | [] => []
  | .waiting _ r :: t => r :: receiptsOf t
  | .done :: t => receiptsOf t

def donesOf : List UpMsg → Nat
  | [] => 0
  | .waiting _ _ :: t => donesOf t
  | .done :: t => donesOf t + 1

theorem receiptsOf_append (a b : List UpMsg) : receiptsOf (a ++ b) = receiptsOf a ++ receiptsOf b := by
  induction a with
  | nil => rfl
  | cons x xs ih => cases x <;> simp [receiptsOf, ih]

theorem donesOf_append (a b : List UpMsg) : donesOf (a ++ b) = donesOf a + donesOf b := by
  induction a with
  | nil => simp [donesOf]
  | cons x xs ih => cases x <;> simp [donesOf, ih] <;> omega

/-- invariant of the link -/
structure LinkInv (l : Link) : Prop where
  chain : Chain l.emp.cache (receiptsOf l.up ++ l.receipt :: l.down.map (fun p => some p.1))
  count : l.emp.numTasks = ((l.down.map (·.2)).sum + l.held + donesOf l.up + l.dropped : Nat)

theorem LinkInv.init (e : Emp) : LinkInv (Link.init e) :=
  ⟨by simp [Link.init, receiptsOf, Chain], by simp [Link.init, donesOf]⟩

theorem LinkInv.step {l l' : Link} (op : LinkOp) (h : LinkInv l) (hs : l.step op = .ok l') :
    LinkInv l' := by
  cases op with
  | send a n =>
    simp only [Link.step] at hs
    split at hs
    · simp at hs
    · simp only [Except.ok.injEq] at hs; subst hs
      refine ⟨?_, ?_⟩
      · have := h.chain.extend a n
        simpa [Emp.charge] using this
      · have := h.count
        simp only [Emp.charge, List.map_append, List.sum_append, List.map_cons, List.map_nil,
          List.sum_cons, List.sum_nil] at *
        omega
  | recvDown =>
    simp only [Link.step] at hs
    split at hs
    · simp at hs
    · rename_i a n rest hd
      simp only [Except.ok.injEq] at hs; subst hs
      refine ⟨?_, ?_⟩
      · have := h.chain
        rw [hd] at this
        simpa using Chain.dropMid (receiptsOf l.up) this
      · have := h.count
        rw [hd] at this
        simp only [List.map_cons, List.sum_cons] at this ⊢
        omega
  | emitWaiting n =>
    simp only [Link.step, Except.ok.injEq] at hs; subst hs
    refine ⟨?_, ?_⟩
    · have := Chain.dup (receiptsOf l.up) h.chain
      simpa [receiptsOf_append, receiptsOf] using this
    · have := h.count
      simpa [donesOf_append, donesOf] using this
  | finish =>
    simp only [Link.step] at hs
    split at hs
    · simp at hs
    · simp only [Except.ok.injEq] at hs; subst hs
      refine ⟨?_, ?_⟩
      · simpa [receiptsOf_append, receiptsOf] using h.chain
      · have := h.count
        simp only [donesOf_append, donesOf] at *
        omega
  | discard =>
    simp only [Link.step] at hs
    split at hs
    · simp at hs
    · simp only [Except.ok.injEq] at hs; subst hs
      exact ⟨h.chain, by have := h.count; simp only at *; omega⟩
  | recvUp =>
    simp only [Link.step] at hs
    split at hs
    · simp at hs
    · rename_i rest hu
      simp only [Except.ok.injEq] at hs; subst hs
      refine ⟨?_, ?_⟩
      · have := h.chain; rw [hu] at this; simpa [receiptsOf] using this
      · have := h.count; rw [hu] at this
        simp only [donesOf] at this ⊢
        omega
    · rename_i n r rest hu
      have hc := h.chain
      rw [hu] at hc
      simp only [receiptsOf, List.cons_append] at hc
      obtain ⟨c', u, hss, hc'⟩ := hc.consume
      rw [hss] at hs
      simp only [Except.ok.injEq] at hs; subst hs
      refine ⟨hc', ?_⟩
      have := h.count; rw [hu] at this
      simpa [donesOf] using this

/-- the read receipt of every WAITING message that can arrive is in the submit cache -/
theorem LinkInv.no_receipt_error {l : Link} (op : LinkOp) (h : LinkInv l) :
    l.step op ≠ .error .receiptMissing := by
  cases op with
  | recvUp =>
    simp only [Link.step]
    split
    · simp
    · simp
    · rename_i n r rest hu
      have hc := h.chain
      rw [hu] at hc
      simp only [receiptsOf, List.cons_append] at hc
      obtain ⟨c', u, hss, _⟩ := hc.consume
      rw [hss]; simp
  | send a n => simp only [Link.step]; split <;> simp
  | recvDown => simp only [Link.step]; split <;> simp
  | emitWaiting n => simp [Link.step]
  | finish => simp only [Link.step]; split <;> simp
  | discard => simp only [Link.step]; split <;> simp

theorem LinkInv.run {l l' : Link} (ops : List LinkOp) (h : LinkInv l) (hr : l.run ops = .ok l') :
    LinkInv l' := by
  induction ops generalizing l with
  | nil => simp only [Link.run, Except.ok.injEq] at hr; subst hr; exact h
  | cons op ops ih =>
    simp only [Link.run] at hr
    cases hs : l.step op with
    | ok l1 => rw [hs] at hr; exact ih (h.step op hs) hr
    | error e => rw [hs] at hr; simp at hr

theorem Link.run_no_receipt_error {l : Link} (ops : List LinkOp) (h : LinkInv l) :
    l.run ops ≠ .error .receiptMissing := by
  induction ops generalizing l with
  | nil => simp [Link.run]
  | cons op ops ih =>
    simp only [Link.run]
    cases hs : l.step op with
    | ok l1 => exact ih (h.step op hs)
    | error e =>
      simp only
      intro he
      injection he with he
      subst he
      exact h.no_receipt_error op hs

def LinkOp.isDiscard : LinkOp → Bool
  | .discard => true
  | _ => false

/-- only `discard` (a CANCEL removing a held task) changes the ghost counter -/
theorem Link.step_dropped {l l' : Link} (op : LinkOp) (hs : l.step op = .ok l')
    (hd : op.isDiscard = false) : l'.dropped = l.dropped := by
  cases op with
  | discard => simp [LinkOp.isDiscard] at hd
  | send a n =>
    simp only [Link.step] at hs
    split at hs
    · simp at hs
    · simp only [Except.ok.injEq] at hs; subst hs; rfl
  | recvDown =>
    simp only [Link.step] at hs
    split at hs
    · simp at hs
    · simp only [Except.ok.injEq] at hs; subst hs; rfl
  | emitWaiting n => simp only [Link.step, Except.ok.injEq] at hs; subst hs; rfl
  | finish =>
    simp only [Link.step] at hs
    split at hs
    · simp at hs
    · simp only [Except.ok.injEq] at hs; subst hs; rfl
  | recvUp =>
    simp only [Link.step] at hs
    split at hs
    · simp at hs
    · simp only [Except.ok.injEq] at hs; subst hs; rfl
    · split at hs
      · simp at hs
      · simp only [Except.ok.injEq] at hs; subst hs; rfl

theorem Link.run_dropped {l l' : Link} (ops : List LinkOp) (hr : l.run ops = .ok l')
    (hd : ∀ op ∈ ops, op.isDiscard = false) : l'.dropped = l.dropped := by
  induction ops generalizing l with
  | nil => simp only [Link.run, Except.ok.injEq] at hr; subst hr; rfl
  | cons op ops ih =>
    simp only [Link.run] at hr
    cases hs : l.step op with
    | ok l1 =>
      rw [hs] at hr
      rw [ih hr (fun o ho => hd o (List.mem_cons_of_mem _ ho)), Link.step_dropped op hs (hd op List.mem_cons_self)]
    | error e => rw [hs] at hr; simp at hr

end BqVerif.Runtime
