import BqVerif.Proofs.CostModel2
/-!
The residual vector of the model and its squared length.
-/
namespace BqVerif.Cost
open BqVerif.NumC19 BqVerif.CostAlg Matrix

theorem sumL_eq_sum (l : List Rat) : sumL l = l.sum := by
  unfold sumL; induction l with
  | nil => rfl
  | cons x xs ih => simp only [List.foldr_cons, List.sum_cons, ih]

theorem sumSq_eq (l : List Rat) : sumSq l = (l.map (fun x => x * x)).sum := by
  unfold sumSq; rw [← sumL_eq_sum]; rfl

theorem sumSq_append (a b : List Rat) : sumSq (a ++ b) = sumSq a + sumSq b := by
  simp only [sumSq_eq, List.map_append, List.sum_append]

theorem sumSq_re_im (l : List GQ) :
    sumSq (l.map (·.re)) + sumSq (l.map (·.im)) = (l.map GQ.absSq).sum := by
  simp only [sumSq_eq]
  induction l with
  | nil => simp
  | cons x xs ih =>
    simp only [List.map_cons, List.sum_cons, GQ.absSq] at ih ⊢
    linarith

theorem sum_entries {n m : Nat} (A : Mat n m) (f : GQ → Rat) :
    (A.entries.map f).sum = ∑ i, ∑ j, f (A i j) := by
  unfold Mat.entries
  rw [Fin.sum_univ_def]
  induction List.finRange n with
  | nil => simp
  | cons x xs ih =>
    simp only [List.flatMap_cons, List.map_append, List.sum_append, List.map_cons, List.sum_cons, ih]
    congr 1
    rw [Fin.sum_univ_def, List.map_map]
    rfl

theorem hs_self_re {n m : Nat} (D : Matrix (Fin n) (Fin m) GQ) :
    (hs D D).re = ∑ i, ∑ j, (D i j).absSq := by
  unfold hs
  simp only [Matrix.trace, Matrix.diag, Matrix.mul_apply, Matrix.conjTranspose_apply, re_sum,
    GQ.star_mul_self_re]
  exact Finset.sum_comm

/-- the squared length of `Re(M) ++ Im(M)` is the squared Frobenius norm of `M` -/
theorem sumSq_reIm {n m : Nat} (M : Mat n m) :
    sumSq (reList M ++ imList M) = (hs M.toM M.toM).re := by
  rw [sumSq_append, reList, imList, sumSq_re_im, sum_entries, hs_self_re]
  rfl

/-- **Residuals and cost (as coded).**  `Σ r² = ‖T‖² − 2·Re t + N` for a circuit matrix with
`U†U = 1`; `t = tr(T†U)`. -/
theorem residuals_sumSq {n : Nat} (T U : Mat n n) (hU : IsoM U) :
    sumSq (residuals T U) = (hsInner T T).re - 2 * (hsInner T U).re + n := by
  unfold residuals
  rw [sumSq_reIm, Mat.sub_toM, Mat.mul_toM, Mat.dagger_toM, Mat.one_toM,
    resid_normsq T.toM U.toM hU.toM, hsInner_eq, hsInner_eq, Fintype.card_fin, natCast_GQ]
  simp
  ring

theorem residuals_sumSq_unitary {n : Nat} (T U : Mat n n) (hU : IsoM U) (hT : IsoM T) :
    sumSq (residuals T U) = 2 * n - 2 * (hsInner T U).re := by
  rw [residuals_sumSq T U hU, hsInner_eq T T, hs_self_of_iso hT, natCast_GQ]
  simp; ring

/-! ### the residual vector vanishes exactly for `U = T` (not up to a phase) -/

theorem hs_self_im {n m : Nat} (D : Matrix (Fin n) (Fin m) GQ) : (hs D D).im = 0 := by
  unfold hs
  have him : ∀ (s : Finset (Fin m)) (f : Fin m → GQ), (∀ i, (f i).im = 0) → (∑ i ∈ s, f i).im = 0 := by
    intro s f hf
    classical
    induction s using Finset.induction_on with
    | empty => rfl
    | insert a s ha ih => rw [Finset.sum_insert ha, GQ.add_im, ih, hf a, add_zero]
  simp only [Matrix.trace, Matrix.diag, Matrix.mul_apply, Matrix.conjTranspose_apply]
  apply him
  intro j
  have him' : ∀ (s : Finset (Fin n)) (f : Fin n → GQ), (∀ i, (f i).im = 0) → (∑ i ∈ s, f i).im = 0 := by
    intro s f hf
    classical
    induction s using Finset.induction_on with
    | empty => rfl
    | insert a s ha ih => rw [Finset.sum_insert ha, GQ.add_im, ih, hf a, add_zero]
  apply him'
  intro i
  simp only [GQ.star_def, GQ.mul_im, GQ.conj_re, GQ.conj_im]
  ring

theorem residuals_zero_iff {n : Nat} (T U : Mat n n) (hU : IsoM U) (hT : IsoM T) :
    sumSq (residuals T U) = 0 ↔ ∀ i j, U i j = T i j := by
  constructor
  · intro h
    unfold residuals at h
    rw [sumSq_reIm] at h
    set M := (Mat.sub (Mat.mul U (Mat.dagger T)) (Mat.one n)).toM with hM
    have h0 : hs M M = 0 := by
      ext
      · exact h
      · exact hs_self_im M
    have hM0 : M = 0 := definite_GQ M h0
    rw [hM, Mat.sub_toM, Mat.mul_toM, Mat.dagger_toM, Mat.one_toM, sub_eq_zero] at hM0
    -- U T† = 1 and T† T = 1 give U = T
    have hUT : U.toM = T.toM := by
      calc U.toM = U.toM * (T.toMᴴ * T.toM) := by rw [hT.toM, Matrix.mul_one]
        _ = (U.toM * T.toMᴴ) * T.toM := by rw [Matrix.mul_assoc]
        _ = T.toM := by rw [hM0, Matrix.one_mul]
    intro i j
    exact congrFun (congrFun hUT i) j
  · intro h
    have hUT : U = T := by funext i j; exact h i j
    rw [residuals_sumSq_unitary T U hU hT, hUT, hsInner_eq, hs_self_of_iso hT, natCast_GQ]
    simp

end BqVerif.Cost
