import BqVerif.Proofs.BatchReplace
/-!
# `Circuit.batch_replace`, general case

Replacements on other location sets make cycles vanish (the popped operation was alone) and
appear (the new operation does not fit).  Processing the items sorted by cycle and shifting each
point by `shrink = (cycles before the batch) − (cycles now)` still finds, at every step, the
operation that sat at the item's point in the ORIGINAL circuit.

Invariant (`GenInv`): every not yet processed target `(j, o)` is a member of the cycle with index
`j − shrink` of the current circuit, and cycles hold pairwise disjoint operations.
-/
namespace BqVerif.Circ

abbrev DisjCy (cy : Cycle) : Prop := cy.Pairwise (fun a b => disjointL a.loc b.loc = true)

theorem cell_of_mem (R : List Nat) (L : List Cycle) (i q : Nat) (cy : Cycle) (o : Op)
    (hcy : L[i]? = some cy) (hd : DisjCy cy) (ho : o ∈ cy) (hq : q ∈ o.loc) :
    (⟨R, L⟩ : Circ).cell i q = some o := by
  simp only [Circ.cell, List.getD_eq_getElem?_getD, hcy, Option.getD_some]
  exact find?_unique ho (by simp [Op.on, hq]) (unique_on hd ho hq)

/-- the cycles after `pop` of the operation on `(k, q)` -/
def afterPop (L : List Cycle) (k q : Nat) : List Cycle :=
  if ((L.getD k []).filter (fun o => !o.on q)).isEmpty then L.eraseIdx k
  else L.set k ((L.getD k []).filter (fun o => !o.on q))

/-- `insertAt` on cycles -/
def insertAtL (L : List Cycle) (k : Nat) (n : Op) : List Cycle :=
  if n.loc.all (fun q => !occ (L.getD k []) q) then L.modify k (· ++ [n]) else L.insertIdx k [n]

theorem insertAt_eq (R : List Nat) (L : List Cycle) (k : Nat) (n : Op) :
    (⟨R, L⟩ : Circ).insertAt k n = ⟨R, insertAtL L k n⟩ := by
  simp only [Circ.insertAt, Circ.unoccupied, insertAtL]
  exact (apply_ite (fun cyc => (⟨R, cyc⟩ : Circ)) _ _ _).symm

/-- `insert` never raises once `check_valid_operation` passed -/
theorem insert_ok (c : Circ) (ci : Int) (n : Op) (hv : c.checkValid n = .ok ()) :
    (c.insert ci n).2 = .ok () := by
  simp only [Circ.insert, hv]
  split
  · rfl
  · split
    · split <;> rfl
    · rfl

theorem insert_inRange (R : List Nat) (L : List Cycle) (k : Nat) (n : Op)
    (hv : (⟨R, L⟩ : Circ).checkValid n = .ok ()) (hk : k < L.length) :
    (⟨R, L⟩ : Circ).insert (k : Int) n = (⟨R, insertAtL L k n⟩, .ok ()) := by
  have hne : ((⟨R, L⟩ : Circ).numCycles == 0) = false := by
    have : L.length ≠ 0 := by omega
    simp [Circ.numCycles, this]
  simp only [Circ.insert, hv, hne, cycleInRange_nat ⟨R, L⟩ k (by simpa [Circ.numCycles] using hk),
    normIdx_nat, insertAt_eq]
  simp

theorem removeAt_eq (R : List Nat) (L : List Cycle) (k q : Nat) :
    (⟨R, L⟩ : Circ).removeAt k q = ⟨R, afterPop L k q⟩ := by
  simp only [Circ.removeAt, afterPop]
  exact (apply_ite (fun cyc => (⟨R, cyc⟩ : Circ)) _ _ _).symm

/-- one general `replace` at the point `(k, q)` where the cell holds `o` -/
theorem replace_general (R : List Nat) (L : List Cycle) (k q : Nat) (o n : Op)
    (hk : k < L.length) (hq : q < R.length)
    (hcell : (⟨R, L⟩ : Circ).cell k q = some o)
    (hnd : disjointL o.loc n.loc = false) (hns : sameSet o.loc n.loc = false) :
    (⟨R, L⟩ : Circ).replace ((k : Int), (q : Int)) n =
      (⟨R, afterPop L k q⟩ : Circ).insert (k : Int) n := by
  have h1 := cycleInRange_nat ⟨R, L⟩ k (by simpa [Circ.numCycles] using hk)
  have h2 := qubitInRange_nat ⟨R, L⟩ q (by simpa [Circ.numQudits] using hq)
  have hget : (⟨R, L⟩ : Circ).getOp ((k : Int), (q : Int)) = .ok (k, q, o) := by
    simp [Circ.getOp, h1, h2, normIdx_nat, hcell]
  simp only [Circ.replace, hget, hnd, hns, Bool.false_eq_true, if_false, Circ.pop, removeAt_eq]

/-! ## disjointness bookkeeping -/
theorem disjointL_iff {a b : List Nat} : disjointL a b = true ↔ ∀ q ∈ a, q ∉ b := by
  simp [disjointL]

theorem mem_of_sameSet {a b : List Nat} (h : sameSet a b = true) (q : Nat) : q ∈ b ↔ q ∈ a := by
  have := contains_of_sameSet h q
  simp only [List.contains_eq_mem, decide_eq_decide] at this
  exact this

theorem disjointL_congr {a a' b b' : List Nat} (ha : sameSet a a' = true) (hb : sameSet b b' = true)
    (h : disjointL a b = true) : disjointL a' b' = true := by
  rw [disjointL_iff] at h ⊢
  intro q hq hq'
  exact h q ((mem_of_sameSet ha q).mp hq) ((mem_of_sameSet hb q).mp hq')

theorem disjCy_map_subst {cy : Cycle} (hd : DisjCy cy) (o n : Op) (hss : sameSet o.loc n.loc = true) :
    DisjCy (cy.map (fun x => if x == o then n else x)) := by
  rw [DisjCy, List.pairwise_map]
  refine hd.imp ?_
  intro a b hab
  have hf : ∀ x : Op, sameSet x.loc (if x == o then n else x).loc = true := by
    intro x
    by_cases hx : x = o
    · subst hx; simpa using hss
    · simp [hx, sameSet_refl]
  exact disjointL_congr (hf a) (hf b) hab

theorem disjCy_append_of_unocc {cy : Cycle} (hd : DisjCy cy) (n : Op)
    (hun : n.loc.all (fun q => !occ cy q) = true) : DisjCy (cy ++ [n]) := by
  rw [DisjCy, List.pairwise_append]
  refine ⟨hd, by simp, ?_⟩
  intro a ha b hb
  simp only [List.mem_singleton] at hb
  subst hb
  rw [disjointL_iff]
  intro q hq hqn
  simp only [List.all_eq_true, Bool.not_eq_true', occ, List.any_eq_false] at hun
  have := hun q hqn a ha
  simp [Op.on, hq] at this

theorem disjCy_filter {cy : Cycle} (hd : DisjCy cy) (p : Op → Bool) : DisjCy (cy.filter p) :=
  hd.sublist List.filter_sublist

/-! ## the invariant -/
/-- every not yet processed target `(j, o)` is a member of the cycle with index `j − shrink`
(`shrink = n0 − current number of cycles`), and cycles hold pairwise disjoint operations -/
structure GenInv (n0 : Nat) (L : List Cycle) (rem : List (Nat × Op)) : Prop where
  disj : ∀ cy ∈ L, DisjCy cy
  mem : ∀ t ∈ rem, ∃ i : Nat, (i : Int) = (t.1 : Int) - ((n0 : Int) - (L.length : Int)) ∧
          ∃ cy, L[i]? = some cy ∧ t.2 ∈ cy

theorem getD_of_getElem? {L : List Cycle} {i : Nat} {cy : Cycle} (h : L[i]? = some cy) :
    L.getD i [] = cy := by
  simp [List.getD_eq_getElem?_getD, h]

theorem lt_length_of_getElem? {L : List Cycle} {i : Nat} {cy : Cycle} (h : L[i]? = some cy) :
    i < L.length := (List.getElem?_eq_some_iff.mp h).1

/-- same-location step -/
theorem step_same (n0 : Nat) (L : List Cycle) (k : Nat) (o n : Op) (rest : List (Nat × Op))
    (hinv : GenInv n0 L ((k, o) :: rest)) (hnodup : ((k, o) :: rest).Nodup)
    (hss : sameSet o.loc n.loc = true) (i0 : Nat)
    (hi0 : (i0 : Int) = (k : Int) - ((n0 : Int) - (L.length : Int))) :
    GenInv n0 (L.modify i0 (fun cy => cy.map (fun x => if x == o then n else x))) rest := by
  constructor
  · intro cy hcy
    obtain ⟨j, hj⟩ := List.getElem?_of_mem hcy
    rw [List.getElem?_modify] at hj
    cases hL : L[j]? with
    | none => simp [hL] at hj
    | some cyj =>
      simp only [hL, Option.map_some, Option.some.injEq, Option.map_eq_map] at hj
      have hdj := hinv.disj cyj (List.mem_of_getElem? hL)
      by_cases hij : i0 = j
      · simp only [hij, if_true] at hj
        rw [← hj]; exact disjCy_map_subst hdj o n hss
      · simp only [hij, if_false] at hj
        rw [← hj]; exact hdj
  · intro t ht
    obtain ⟨i, hi, cy, hcy, hmem⟩ := hinv.mem t (by simp [ht])
    refine ⟨i, by simpa using hi, ?_⟩
    rw [List.getElem?_modify, hcy]
    by_cases hij : i0 = i
    · refine ⟨cy.map (fun x => if x == o then n else x), by simp [hij], ?_⟩
      have hne : t.2 ≠ o := by
        intro h
        have hk : t.1 = k := by omega
        have : t = (k, o) := by cases t; simp_all
        rw [this] at ht
        exact (List.nodup_cons.mp hnodup).1 ht
      exact List.mem_map.mpr ⟨t.2, hmem, by simp [hne]⟩
    · exact ⟨cy, by simp [hij], hmem⟩

theorem mem_insertIdx_cycle {L : List Cycle} {i : Nat} {n : Op} {cy : Cycle}
    (h : cy ∈ L.insertIdx i [n]) : cy = [n] ∨ cy ∈ L := by
  obtain ⟨j, hj⟩ := List.getElem?_of_mem h
  rw [List.getElem?_insertIdx] at hj
  by_cases h1 : j < i
  · simp only [h1, if_true] at hj; exact Or.inr (List.mem_of_getElem? hj)
  · simp only [h1, if_false] at hj
    by_cases h2 : j = i
    · simp only [h2, if_true] at hj
      split at hj
      · exact Or.inl (Option.some.inj hj).symm
      · cases hj
    · simp only [h2, if_false] at hj; exact Or.inr (List.mem_of_getElem? hj)

/-- general step: after popping `o` at `(i0, q)` and inserting `n` at cycle `i0`, the remaining
targets are again where the shifted points look for them -/
theorem step_general (n0 : Nat) (L : List Cycle) (k q : Nat) (o n : Op) (rest : List (Nat × Op))
    (hinv : GenInv n0 L ((k, o) :: rest)) (hsorted : ∀ t ∈ rest, k ≤ t.1)
    (hnodup : ((k, o) :: rest).Nodup) (hq : q ∈ o.loc) (hrest : rest ≠ []) (i0 : Nat)
    (hi0 : (i0 : Int) = (k : Int) - ((n0 : Int) - (L.length : Int)))
    (cy : Cycle) (hcy : L[i0]? = some cy) (ho : o ∈ cy) :
    i0 < (afterPop L i0 q).length ∧ GenInv n0 (insertAtL (afterPop L i0 q) i0 n) rest := by
  have hdcy := hinv.disj cy (List.mem_of_getElem? hcy)
  have hi0L := lt_length_of_getElem? hcy
  -- a remaining target in the same cycle is not on q
  have hother : ∀ t ∈ rest, ∀ i : Nat, (i : Int) = (t.1 : Int) - ((n0 : Int) - (L.length : Int)) →
      i = i0 → ∀ cyt, L[i]? = some cyt → t.2 ∈ cyt → t.2.on q = false := by
    intro t ht i hi hii cyt hcyt hmem
    subst hii
    rw [hcy] at hcyt
    cases hcyt
    cases hon : t.2.on q with
    | false => rfl
    | true =>
      exfalso
      have heq := unique_on hdcy ho hq t.2 hmem hon
      have hk : t.1 = k := by omega
      have : t = (k, o) := by cases t; simp_all
      rw [this] at ht
      exact (List.nodup_cons.mp hnodup).1 ht
  have hge : ∀ t ∈ rest, ∀ i : Nat, (i : Int) = (t.1 : Int) - ((n0 : Int) - (L.length : Int)) → i0 ≤ i := by
    intro t ht i hi
    have := hsorted t ht
    omega
  have hgetD : L.getD i0 [] = cy := getD_of_getElem? hcy
  by_cases hemp : (cy.filter (fun o => !o.on q)).isEmpty = true
  · -- the popped operation was alone: the cycle vanishes
    have hL1 : afterPop L i0 q = L.eraseIdx i0 := by
      unfold afterPop; rw [hgetD, if_pos hemp]
    have hall : ∀ x ∈ cy, x.on q = true := by
      intro x hx
      have : x ∉ cy.filter (fun o => !o.on q) := by
        rw [List.isEmpty_iff.mp hemp]; simp
      simp only [List.mem_filter, hx, true_and, Bool.not_eq_true', Bool.not_eq_false] at this
      exact this
    have hgt : ∀ t ∈ rest, ∀ i : Nat, (i : Int) = (t.1 : Int) - ((n0 : Int) - (L.length : Int)) →
        ∀ cyt, L[i]? = some cyt → t.2 ∈ cyt → i0 < i := by
      intro t ht i hi cyt hcyt hmem
      have h1 := hge t ht i hi
      by_cases heq : i = i0
      · have := hother t ht i hi heq cyt hcyt hmem
        subst heq
        rw [hcy] at hcyt; cases hcyt
        rw [hall t.2 hmem] at this; cases this
      · omega
    have hlen1 : (L.eraseIdx i0).length = L.length - 1 := by
      rw [List.length_eraseIdx]; simp [hi0L]
    -- some remaining target exists, beyond i0
    obtain ⟨t0, ht0⟩ := List.exists_mem_of_ne_nil rest hrest
    obtain ⟨j0, hj0, cy0, hcy0, hm0⟩ := hinv.mem t0 (by simp [ht0])
    have hj0gt := hgt t0 ht0 j0 hj0 cy0 hcy0 hm0
    have hj0L := lt_length_of_getElem? hcy0
    refine ⟨by rw [hL1, hlen1]; omega, ?_⟩
    rw [hL1]
    unfold insertAtL
    by_cases hun : n.loc.all (fun q => !occ ((L.eraseIdx i0).getD i0 []) q) = true
    · -- fits into the next cycle: one cycle fewer
      rw [if_pos hun]
      constructor
      · intro c hc
        obtain ⟨j, hj⟩ := List.getElem?_of_mem hc
        rw [List.getElem?_modify] at hj
        cases hE : (L.eraseIdx i0)[j]? with
        | none => simp [hE] at hj
        | some cj =>
          have hcjL : cj ∈ L := by
            rw [List.getElem?_eraseIdx] at hE
            split at hE <;> exact List.mem_of_getElem? hE
          simp only [hE, Option.map_some, Option.some.injEq, Option.map_eq_map] at hj
          by_cases hij : i0 = j
          · subst hij
            simp only [if_true] at hj
            rw [← hj]
            apply disjCy_append_of_unocc (hinv.disj cj hcjL)
            have : (L.eraseIdx i0).getD i0 [] = cj := by
              rw [List.getD_eq_getElem?_getD, hE]; rfl
            rw [← this]; exact hun
          · simp only [hij, if_false] at hj
            rw [← hj]; exact hinv.disj cj hcjL
      · intro t ht
        obtain ⟨i, hi, cyt, hcyt, hmem⟩ := hinv.mem t (by simp [ht])
        have higt := hgt t ht i hi cyt hcyt hmem
        have hiL := lt_length_of_getElem? hcyt
        refine ⟨i - 1, ?_, ?_⟩
        · simp only [List.length_modify, hlen1]; omega
        · rw [List.getElem?_modify, List.getElem?_eraseIdx_of_ge (by omega)]
          have : i - 1 + 1 = i := by omega
          rw [this, hcyt]
          by_cases hij : i0 = i - 1
          · exact ⟨cyt ++ [n], by simp [hij], by simp [hmem]⟩
          · exact ⟨cyt, by simp [hij], hmem⟩
    · -- does not fit: a new cycle takes the place of the vanished one
      rw [if_neg hun]
      constructor
      · intro c hc
        rcases mem_insertIdx_cycle hc with h | h
        · rw [h]; simp [DisjCy]
        · exact hinv.disj c ((List.mem_of_mem_eraseIdx) h)
      · intro t ht
        obtain ⟨i, hi, cyt, hcyt, hmem⟩ := hinv.mem t (by simp [ht])
        have higt := hgt t ht i hi cyt hcyt hmem
        have hiL := lt_length_of_getElem? hcyt
        refine ⟨i, ?_, cyt, ?_, hmem⟩
        · rw [List.length_insertIdx, hlen1]
          have : i0 ≤ L.length - 1 := by omega
          simp only [this, if_true]; omega
        · rw [List.getElem?_insertIdx_of_gt higt, List.getElem?_eraseIdx_of_ge (by omega)]
          have : i - 1 + 1 = i := by omega
          rw [this, hcyt]
  · -- other operations stay in the cycle
    have hL1 : afterPop L i0 q = L.set i0 (cy.filter (fun o => !o.on q)) := by
      unfold afterPop; rw [hgetD, if_neg hemp]
    refine ⟨by rw [hL1, List.length_set]; exact hi0L, ?_⟩
    rw [hL1]
    have hsetget : (L.set i0 (cy.filter (fun o => !o.on q)))[i0]? = some (cy.filter (fun o => !o.on q)) := by
      rw [List.getElem?_set]; simp [hi0L]
    unfold insertAtL
    by_cases hun : n.loc.all (fun q' => !occ ((L.set i0 (cy.filter (fun o => !o.on q))).getD i0 []) q') = true
    · -- fits into the same cycle
      rw [if_pos hun]
      have hgetD1 : (L.set i0 (cy.filter (fun o => !o.on q))).getD i0 [] = cy.filter (fun o => !o.on q) :=
        getD_of_getElem? hsetget
      rw [hgetD1] at hun
      constructor
      · intro c hc
        obtain ⟨j, hj⟩ := List.getElem?_of_mem hc
        rw [List.getElem?_modify, List.getElem?_set] at hj
        by_cases hij : i0 = j
        · simp only [hij, if_true] at hj
          subst hij
          simp only [hi0L, if_true, Option.map_some, Option.some.injEq, Option.map_eq_map] at hj
          rw [← hj]
          exact disjCy_append_of_unocc (disjCy_filter hdcy _) n hun
        · simp only [hij, if_false] at hj
          cases hLj : L[j]? with
          | none => simp [hLj] at hj
          | some cj =>
            simp only [hLj, Option.map_some, Option.some.injEq, Option.map_eq_map] at hj
            rw [← hj]; exact hinv.disj cj (List.mem_of_getElem? hLj)
      · intro t ht
        obtain ⟨i, hi, cyt, hcyt, hmem⟩ := hinv.mem t (by simp [ht])
        refine ⟨i, by simpa [List.length_modify, List.length_set] using hi, ?_⟩
        rw [List.getElem?_modify, List.getElem?_set]
        by_cases hij : i0 = i
        · have hoff := hother t ht i hi hij.symm cyt hcyt hmem
          subst hij
          rw [hcy] at hcyt; cases hcyt
          refine ⟨cy.filter (fun o => !o.on q) ++ [n], by simp [hi0L], ?_⟩
          simp [List.mem_filter, hmem, hoff]
        · exact ⟨cyt, by simp [hij, hcyt], hmem⟩
    · -- does not fit: a new cycle opens at i0, everything from i0 on moves down by one
      rw [if_neg hun]
      constructor
      · intro c hc
        rcases mem_insertIdx_cycle hc with h | h
        · rw [h]; simp [DisjCy]
        · obtain ⟨j, hj⟩ := List.getElem?_of_mem h
          rw [List.getElem?_set] at hj
          by_cases hij : i0 = j
          · simp only [hij, if_true] at hj
            split at hj
            · rw [← Option.some.inj hj]; exact disjCy_filter hdcy _
            · cases hj
          · simp only [hij, if_false] at hj
            exact hinv.disj c (List.mem_of_getElem? hj)
      · intro t ht
        obtain ⟨i, hi, cyt, hcyt, hmem⟩ := hinv.mem t (by simp [ht])
        have hige := hge t ht i hi
        have hiL := lt_length_of_getElem? hcyt
        refine ⟨i + 1, ?_, ?_⟩
        · rw [List.length_insertIdx, List.length_set]
          have : i0 ≤ L.length := by omega
          simp only [this, if_true]; push_cast; omega
        · rw [List.getElem?_insertIdx_of_gt (by omega)]
          simp only [Nat.add_sub_cancel, List.getElem?_set]
          by_cases hij : i0 = i
          · have hoff := hother t ht i hi hij.symm cyt hcyt hmem
            subst hij
            rw [hcy] at hcyt; cases hcyt
            refine ⟨cy.filter (fun o => !o.on q), by simp [hi0L], ?_⟩
            simp [List.mem_filter, hmem, hoff]
          · exact ⟨cyt, by simp [hij, hcyt], hmem⟩

/-! ## the fold -/
/-- a target of a general batch: cycle and qudit of the point, the operation there, its replacement -/
structure GT where
  k : Nat
  q : Nat
  o : Op
  n : Op

def GT.item (t : GT) : (Int × Int) × Op := (((t.k : Int), (t.q : Int)), t.n)
def GT.key (t : GT) : Nat × Op := (t.k, t.o)

/-- the fold of `batch_replace`, instrumented: the operations found at the shifted points -/
def brFound (n0 : Int) : Circ × Except Err Unit → List ((Int × Int) × Op) → List (Option Op)
  | _, [] => []
  | acc, it :: rest =>
    match acc.2 with
    | .error _ => []
    | .ok () =>
      (match acc.1.getOp (it.1.1 - (n0 - (acc.1.numCycles : Int)), it.1.2) with
        | .ok x => some x.2.2
        | .error _ => none) ::
        brFound n0 (acc.1.replace (it.1.1 - (n0 - (acc.1.numCycles : Int)), it.1.2) it.2) rest

/-- same-location `replace` at any qudit of `o` -/
theorem replace_sameLoc_q (cur : Circ) (k q : Nat) (o n : Op)
    (hk : k < cur.numCycles) (hq : q < cur.numQudits)
    (hcell : cur.cell k q = some o) (hne : o.loc ≠ [])
    (hss : sameSet o.loc n.loc = true) :
    cur.replace ((k : Int), (q : Int)) n =
      ({ cur with cycles := cur.cycles.modify k (fun cy => cy.map (fun x => if x == o then n else x)) },
        .ok ()) := by
  simp only [Circ.replace, Circ.getOp, cycleInRange_nat cur k hk, qubitInRange_nat cur _ hq,
    normIdx_nat, hcell, Bool.and_self, Bool.not_true]
  simp [not_disjoint_of_sameSet hne hss, hss]

theorem checkValid_indep (R : List Nat) (L : List Cycle) (n : Op) :
    (⟨R, L⟩ : Circ).checkValid n = (⟨R, []⟩ : Circ).checkValid n := rfl

/-- **General batch.**  Targets sorted by cycle, distinct, each at a point of its operation, each
replacement valid for the circuit and overlapping the old location: the fold never raises and at
every step the shifted point finds the operation that was at the item's point originally. -/
theorem fold_general (n0 : Nat) (R : List Nat) :
    ∀ (T : List GT) (L : List Cycle),
      GenInv n0 L (T.map GT.key) →
      T.Pairwise (fun a b => a.k ≤ b.k) →
      (T.map GT.key).Nodup →
      (∀ t ∈ T, t.q ∈ t.o.loc ∧ t.q < R.length ∧ (⟨R, []⟩ : Circ).checkValid t.n = .ok () ∧
        disjointL t.o.loc t.n.loc = false) →
      ((T.map GT.item).foldl (fun (acc : Circ × Except Err Unit) item =>
          match acc.2 with
          | .error _ => acc
          | .ok () =>
            let shrink : Int := (n0 : Int) - (acc.1.numCycles : Int)
            acc.1.replace (item.1.1 - shrink, item.1.2) item.2)
        ((⟨R, L⟩ : Circ), .ok ())).2 = .ok () ∧
      brFound n0 ((⟨R, L⟩ : Circ), .ok ()) (T.map GT.item) = T.map (fun t => some t.o) := by
  intro T
  induction T with
  | nil => intro L _ _ _ _; exact ⟨rfl, rfl⟩
  | cons t T ih =>
    intro L hinv hsorted hnodup hside
    obtain ⟨i0, hi0, cy, hcy, ho⟩ := hinv.mem (t.k, t.o) (by simp [GT.key])
    obtain ⟨hq, hqR, hvalid, hnd⟩ := hside t (by simp)
    have hdcy := hinv.disj cy (List.mem_of_getElem? hcy)
    have hi0L := lt_length_of_getElem? hcy
    have hcell := cell_of_mem R L i0 t.q cy t.o hcy hdcy ho hq
    have hne : t.o.loc ≠ [] := by intro h; rw [h] at hq; simp at hq
    have hpt : ((t.k : Int) - ((n0 : Int) - ((⟨R, L⟩ : Circ).numCycles : Int)), (t.q : Int)) =
        ((i0 : Int), (t.q : Int)) := by
      simp only [Circ.numCycles]; rw [hi0]
    have hget : (⟨R, L⟩ : Circ).getOp ((i0 : Int), (t.q : Int)) = .ok (i0, t.q, t.o) := by
      simp [Circ.getOp, cycleInRange_nat ⟨R, L⟩ i0 (by simpa [Circ.numCycles] using hi0L),
        qubitInRange_nat ⟨R, L⟩ t.q (by simpa [Circ.numQudits] using hqR), normIdx_nat, hcell]
    have hsorted' : ∀ x ∈ T.map GT.key, t.k ≤ x.1 := by
      intro x hx
      obtain ⟨y, hy, rfl⟩ := List.mem_map.mp hx
      exact (List.pairwise_cons.mp hsorted).1 y hy
    simp only [List.map_cons, List.foldl_cons, brFound, GT.item]
    rw [hpt, hget]
    by_cases hss : sameSet t.o.loc t.n.loc = true
    · -- same location set: in place
      rw [replace_sameLoc_q ⟨R, L⟩ i0 t.q t.o t.n (by simpa [Circ.numCycles] using hi0L)
        (by simpa [Circ.numQudits] using hqR) hcell hne hss]
      have hinv' := step_same n0 L t.k t.o t.n (T.map GT.key) hinv hnodup hss i0 hi0
      obtain ⟨h1, h2⟩ := ih _ hinv' (List.pairwise_cons.mp hsorted).2
        (List.nodup_cons.mp hnodup).2 (fun x hx => hside x (by simp [hx]))
      exact ⟨h1, by rw [h2]⟩
    · have hss' : sameSet t.o.loc t.n.loc = false := by simpa using hss
      rw [replace_general R L i0 t.q t.o t.n hi0L hqR hcell hnd hss']
      by_cases hT : T = []
      · subst hT
        simp only [List.map_nil, List.foldl_nil, brFound]
        exact ⟨insert_ok _ _ _ (by rw [checkValid_indep]; exact hvalid), trivial⟩
      · have hrest : T.map GT.key ≠ [] := by simpa using hT
        obtain ⟨hlt, hinv'⟩ := step_general n0 L t.k t.q t.o t.n (T.map GT.key) hinv hsorted'
          hnodup hq hrest i0 hi0 cy hcy ho
        rw [insert_inRange R (afterPop L i0 t.q) i0 t.n (by rw [checkValid_indep]; exact hvalid) hlt]
        obtain ⟨h1, h2⟩ := ih _ hinv' (List.pairwise_cons.mp hsorted).2
          (List.nodup_cons.mp hnodup).2 (fun x hx => hside x (by simp [hx]))
        exact ⟨h1, by rw [h2]⟩

/-! ## the sort by cycle -/
def insG (t : GT) : List GT → List GT
  | [] => [t]
  | y :: ys => if (t.k : Int) ≤ (y.k : Int) then t :: y :: ys else y :: insG t ys
def sortG (l : List GT) : List GT := l.foldr insG []

theorem ins_itemG (t : GT) (l : List GT) :
    Circ.batchReplace.ins (GT.item t) (l.map GT.item) = (insG t l).map GT.item := by
  induction l with
  | nil => simp [Circ.batchReplace.ins, insG]
  | cons y ys ih =>
    simp only [List.map_cons, Circ.batchReplace.ins, insG]
    by_cases h : (t.k : Int) ≤ (y.k : Int)
    · simp [GT.item, h]
    · have h' : ¬ ((GT.item t).1.1 ≤ (GT.item y).1.1) := by simpa [GT.item] using h
      rw [if_neg h', if_neg h, List.map_cons, ih]

theorem sort_itemG (l : List GT) :
    (l.map GT.item).foldr (fun x acc => Circ.batchReplace.ins x acc) [] = (sortG l).map GT.item := by
  induction l with
  | nil => simp [sortG]
  | cons t l ih =>
    simp only [List.map_cons, List.foldr_cons, ih, sortG]
    exact ins_itemG t _

theorem insG_perm (t : GT) (l : List GT) : (insG t l).Perm (t :: l) := by
  induction l with
  | nil => simp [insG]
  | cons y ys ih =>
    simp only [insG]
    by_cases h : (t.k : Int) ≤ (y.k : Int)
    · simp [h]
    · simp only [h, if_false]
      exact ((List.perm_cons y).mpr ih).trans (List.Perm.swap t y ys)

theorem sortG_perm (l : List GT) : (sortG l).Perm l := by
  induction l with
  | nil => simp [sortG]
  | cons t l ih =>
    simp only [sortG, List.foldr_cons]
    exact (insG_perm t _).trans ((List.perm_cons t).mpr ih)

theorem insG_sorted (t : GT) (l : List GT) (h : l.Pairwise (fun a b => a.k ≤ b.k)) :
    (insG t l).Pairwise (fun a b => a.k ≤ b.k) := by
  induction l with
  | nil => simp [insG]
  | cons y ys ih =>
    simp only [insG]
    have hy := List.pairwise_cons.mp h
    by_cases hle : (t.k : Int) ≤ (y.k : Int)
    · simp only [hle, if_true]
      refine List.pairwise_cons.mpr ⟨?_, h⟩
      intro b hb
      simp only [List.mem_cons] at hb
      rcases hb with hb | hb
      · subst hb; omega
      · have := hy.1 b hb; omega
    · simp only [hle, if_false]
      refine List.pairwise_cons.mpr ⟨?_, ih hy.2⟩
      intro b hb
      have := (insG_perm t ys).mem_iff.mp hb
      simp only [List.mem_cons] at this
      rcases this with hb' | hb'
      · subst hb'; omega
      · exact hy.1 b hb'

theorem sortG_sorted (l : List GT) : (sortG l).Pairwise (fun a b => a.k ≤ b.k) := by
  induction l with
  | nil => simp [sortG]
  | cons t l ih => simp only [sortG, List.foldr_cons]; exact insG_sorted t _ ih

/-- **`batch_replace`, general case.**  `T`: the items in the order given (any order), each naming by
`(k, q)` a point of an operation `o` of the circuit (`q ∈ o.loc`, `o` in cycle `k`), distinct
operations, each replacement `n` passing `check_valid_operation` and overlapping `o`'s location.
Then `batch_replace` does not raise, it processes the items in the order `Ts` (sorted by cycle, a
permutation of `T`), and at every step the point shifted by the current shrink amount holds exactly
the operation the item named in the original circuit — although earlier steps may have removed
cycles (popped operation alone in its cycle) or opened new ones (replacement does not fit). -/
theorem batchReplace_general (c : Circ) (T : List GT)
    (hdisj : ∀ cy ∈ c.cycles, DisjCy cy)
    (hmem : ∀ t ∈ T, ∃ cy, c.cycles[t.k]? = some cy ∧ t.o ∈ cy)
    (hnodup : (T.map GT.key).Nodup)
    (hside : ∀ t ∈ T, t.q ∈ t.o.loc ∧ t.q < c.numQudits ∧ c.checkValid t.n = .ok () ∧
      disjointL t.o.loc t.n.loc = false) :
    ∃ Ts : List GT, Ts.Perm T ∧ Ts.Pairwise (fun a b => a.k ≤ b.k) ∧
      (c.batchReplace (T.map GT.item)).2 = .ok () ∧
      brFound c.numCycles (c, .ok ()) (Ts.map GT.item) = Ts.map (fun t => some t.o) := by
  obtain ⟨R, L⟩ := c
  have hperm := sortG_perm T
  refine ⟨sortG T, hperm, sortG_sorted T, ?_⟩
  have hinv : GenInv L.length L ((sortG T).map GT.key) := by
    refine ⟨hdisj, ?_⟩
    intro x hx
    obtain ⟨t, ht, rfl⟩ := List.mem_map.mp hx
    obtain ⟨cy, hcy, ho⟩ := hmem t (hperm.mem_iff.mp ht)
    exact ⟨t.k, by simp [GT.key], cy, hcy, ho⟩
  have hside' : ∀ t ∈ sortG T, t.q ∈ t.o.loc ∧ t.q < R.length ∧
      (⟨R, []⟩ : Circ).checkValid t.n = .ok () ∧ disjointL t.o.loc t.n.loc = false := by
    intro t ht
    obtain ⟨h1, h2, h3, h4⟩ := hside t (hperm.mem_iff.mp ht)
    exact ⟨h1, h2, h3, h4⟩
  obtain ⟨h1, h2⟩ := fold_general L.length R (sortG T) L hinv (sortG_sorted T)
    ((hperm.map GT.key).nodup_iff.mpr hnodup) hside'
  refine ⟨?_, h2⟩
  have hrange : (T.map GT.item).all
      (fun it => (⟨R, L⟩ : Circ).cycleInRange it.1.1 && (⟨R, L⟩ : Circ).qubitInRange it.1.2) = true := by
    simp only [List.all_map, List.all_eq_true]
    intro t ht
    obtain ⟨cy, hcy, _⟩ := hmem t ht
    have hk : t.k < (⟨R, L⟩ : Circ).numCycles := lt_length_of_getElem? hcy
    have hq := (hside t ht).2.1
    simp [GT.item, cycleInRange_nat ⟨R, L⟩ _ hk, qubitInRange_nat ⟨R, L⟩ _ hq]
  have hnorm : (T.map GT.item).map (fun it =>
      ((((normIdx (⟨R, L⟩ : Circ).numCycles it.1.1 : Nat) : Int),
        ((normIdx (⟨R, L⟩ : Circ).numQudits it.1.2 : Nat) : Int)), it.2)) = T.map GT.item := by
    rw [List.map_map]
    apply List.map_congr_left
    intro t _
    simp [GT.item, normIdx_nat]
  simp only [Circ.batchReplace, hrange, Bool.not_true, Bool.false_eq_true, if_false, hnorm,
    sort_itemG]
  simp only [Circ.numCycles] at h1 ⊢
  exact h1

end BqVerif.Circ
