import BqVerif.Proofs.CrashDownPot
/-
C14 - both directions together: the total potential (up the path of the gone node to the
server, and down to every node whose boss is gone), progress, the run-level bound.
-/
namespace BqVerif.Crash

theorem sumMap_ge_mem {f : Nat → Nat} : ∀ (l : List Nat) (x : Nat), x ∈ l → f x ≤ sumMap f l := by
  intro l
  induction l with
  | nil => intro x h; cases h
  | cons y ys ih =>
    intro x h
    simp only [sumMap]
    rcases List.mem_cons.mp h with rfl | h'
    · omega
    · have := ih x h'; omega

/-- one step of the downward accounting -/
theorem dpotential_step {t : Topo} (wf : t.WF) {s s' : State} {l : Label} (hi : Inv t s)
    (h : step t s l = some s') :
    dpotential t s' + b2n (isDownCrit t s l) ≤ dpotential t s + downGrowth t s l := by
  have hd := step_dle (t := t) h
  have quiet : gAtD s l = (fun _ => 0) → isDownCrit t s l = false → downGrowth t s l = 0 →
      dpotential t s' + b2n (isDownCrit t s l) ≤ dpotential t s + downGrowth t s l := by
    intro hg hc hgr
    rw [hg] at hd
    have := sumMap_le0 (f := dweight t s) (f' := dweight t s') (List.range t.n)
      (fun i => by simpa using hd.dweight i)
    unfold dpotential
    rw [hc, hgr]; simp [b2n]; exact this
  have reader : ∀ n, ((∃ em f, l = .recvUp n em f) ∨ l = .wrecv n) → gAtD s l = (fun _ => 0) →
      downGrowth t s l = 0 →
      dpotential t s' + b2n (isDownCrit t s l) ≤ dpotential t s + downGrowth t s l := by
    intro n hl hg hgr
    obtain ⟨hlt, hst⟩ := reader_strict wf hi hl h
    rw [hg] at hd
    have := sumMap_lt (f := dweight t s) (f' := dweight t s') (List.range t.n) (List.mem_range.mpr hlt)
      (fun i => by simpa using hd.dweight i) hst
    unfold dpotential
    have hb : b2n (isDownCrit t s l) ≤ 1 := by unfold b2n; split <;> omega
    rw [hgr]; omega
  cases l with
  | recvUp n em f => exact reader n (Or.inl ⟨em, f, rfl⟩) rfl rfl
  | wrecv w => exact reader w (Or.inr rfl) rfl rfl
  | flush n =>
    have hc : isDownCrit t s (.flush n) = false := rfl
    rw [hc]
    simp only [b2n, Bool.false_eq_true, if_false, Nat.add_zero]
    unfold dpotential
    cases hq : s.outq n with
    | nil =>
      have hg : gAtD s (.flush n) = fun _ => 0 := by funext i; simp [gAtD, hq]
      rw [hg] at hd
      simp only [downGrowth, hq, Nat.add_zero]
      exact sumMap_le0 (f := dweight t s) (f' := dweight t s') _ (fun i => by simpa using hd.dweight i)
    | cons x xs =>
      obtain ⟨dst, m⟩ := x
      cases dst with
      | emp e =>
        have hg : gAtD s (.flush n) = fun i => if i = e then 1 else 0 := by funext i; simp [gAtD, hq]
        rw [hg] at hd
        simp only [downGrowth, hq]
        exact sumMap_le (f := dweight t s) (f' := dweight t s') _ (fun i => hd.dweight i)
      | up =>
        have hg : gAtD s (.flush n) = fun _ => 0 := by funext i; simp [gAtD, hq]
        rw [hg] at hd
        simp only [downGrowth, hq, Nat.add_zero]
        exact sumMap_le0 (f := dweight t s) (f' := dweight t s') _ (fun i => by simpa using hd.dweight i)
      | client c =>
        have hg : gAtD s (.flush n) = fun _ => 0 := by funext i; simp [gAtD, hq]
        rw [hg] at hd
        simp only [downGrowth, hq, Nat.add_zero]
        exact sumMap_le0 (f := dweight t s) (f' := dweight t s') _ (fun i => by simpa using hd.dweight i)
  | crash n tr => exact quiet rfl rfl rfl
  | recvEmp p e em f => exact quiet rfl rfl rfl
  | recvClient c em f => exact quiet rfl rfl rfl
  | flushDrop n => exact quiet rfl rfl rfl
  | wsend w m => exact quiet rfl rfl rfl
  | ccall c r => exact quiet rfl rfl rfl
  | cwake c => exact quiet rfl rfl rfl

/-- the accounting in both directions over a run; the invariant and goneness travel along -/
theorem runCountAll_bound {t : Topo} (wf : t.WF) (d : Nat) :
    ∀ (ls : List Label) (s sf : State) (c g : Nat), Inv t s →
      runCountAll t d s ls = some (sf, c, g) →
      potential t sf d + dpotential t sf + c ≤ potential t s d + dpotential t s + g ∧ Inv t sf ∧
        (∀ i, s.gone i = true → sf.gone i = true) ∧ run t s ls = some sf := by
  intro ls
  induction ls with
  | nil =>
    intro s sf c g hi h
    simp only [runCountAll, Option.some.injEq, Prod.mk.injEq] at h
    obtain ⟨rfl, rfl, rfl⟩ := h
    exact ⟨by omega, hi, fun _ x => x, rfl⟩
  | cons l ls ih =>
    intro s sf c g hi h
    simp only [runCountAll] at h
    cases hs : step t s l with
    | none => simp [hs] at h
    | some s1 =>
      simp only [hs] at h
      cases hr : runCountAll t d s1 ls with
      | none => simp [hr] at h
      | some r =>
        obtain ⟨sf', c', g'⟩ := r
        simp only [hr, Option.some.injEq, Prod.mk.injEq] at h
        obtain ⟨rfl, rfl, rfl⟩ := h
        have hi1 := step_inv wf hi hs
        have h1 := potential_step d hs
        have h2 := dpotential_step wf hi hs
        obtain ⟨h3, hi2, hg2, hrun⟩ := ih s1 sf' c' g' hi1 hr
        refine ⟨by omega, hi2, fun i x => hg2 i ((step_wle hs).gone i x), ?_⟩
        simp only [run, hs]; exact hrun

/-! ### progress downwards -/

/-- below a gone server: from any live node, the first live node under a gone boss -/
theorem find_down {t : Topo} (wf : t.WF) {s : State} (h0 : s.gone 0 = true) :
    ∀ (f n : Nat), n < f → n ≠ 0 → s.gone n = false →
      ∃ m, m ≠ 0 ∧ m ≤ n ∧ s.gone m = false ∧ s.gone (t.parent m) = true := by
  intro f
  induction f with
  | zero => intro n h; omega
  | succ f ih =>
    intro n hn hn0 hg
    cases hp : s.gone (t.parent n) with
    | true => exact ⟨n, hn0, Nat.le_refl n, hg, hp⟩
    | false =>
      have hlt := wf.lt n (Nat.pos_of_ne_zero hn0)
      have hp0 : t.parent n ≠ 0 := by
        intro x; rw [x] at hp; rw [h0] at hp; cases hp
      obtain ⟨m, a, b, c, e⟩ := ih (t.parent n) (by omega) hp0 hp
      exact ⟨m, a, by omega, c, e⟩

/-- a live node under a gone boss can always read its upstream connection: a pending
message, or the EOF -/
theorem reader_enabled_eof {t : Topo} {s : State} (hi : Inv t s) {m : Nat} (hmn : m < t.n) (hm0 : m ≠ 0)
    (hg : s.gone m = false) (hp : s.gone (t.parent m) = true) :
    ∃ l s', step t s l = some s' ∧ isDownCrit t s l = true := by
  have hg' := hg
  unfold State.gone at hg'
  simp only [Bool.or_eq_false_iff, Bool.not_eq_false'] at hg'
  have hch : t.isChild (t.parent m) m = true := isChild_iff.mpr ⟨hm0, hmn, rfl⟩
  have heof : (s.alive (t.parent m) && s.downOpen m) = false := by
    unfold State.gone at hp
    simp only [Bool.or_eq_true, Bool.not_eq_true'] at hp
    rcases hp with x | x
    · simp [x]
    · have := hi.dclosed (t.parent m) m hch x
      simp only [State.view] at this
      simp [this]
  by_cases hw : t.kind m = .worker
  · refine ⟨.wrecv m, ?_⟩
    have hcrit : isDownCrit t s (.wrecv m) = true := by simp [isDownCrit, hp, hg]
    have hiw : isWorker t s m = true := by simp [isWorker, hmn, hw, hg'.1]
    simp only [step]
    unfold wrecv
    simp only [hiw, Bool.not_true, Bool.false_eq_true, if_false]
    cases hin : s.inbox m with
    | nil =>
      simp only
      rw [if_neg (by simp [heof])]
      exact ⟨_, rfl, hcrit⟩
    | cons x rest =>
      simp only
      split <;> exact ⟨_, rfl, hcrit⟩
  · refine ⟨.recvUp m [] false, ?_⟩
    have hcrit : isDownCrit t s (.recvUp m [] false) = true := by simp [isDownCrit, hp, hg]
    have hup : s.upOpen m = true := hi.upo m hg'.2
    have hl : s.loopOk t m = true := by simp [State.loopOk, hmn, hw, hg'.1, hg'.2]
    simp only [step]
    unfold recvUp
    have hguard : (!(s.loopOk t m && m != 0 && s.upOpen m && okEmits [])) = false := by
      simp [hl, hm0, hup, okEmits]
    rw [if_neg (by simp [hguard])]
    cases hin : s.inbox m with
    | nil =>
      simp only
      rw [if_neg (by simp [heof])]
      exact ⟨_, rfl, hcrit⟩
    | cons x rest =>
      simp only
      split
      · exact ⟨_, rfl, hcrit⟩
      · exact ⟨_, rfl, hcrit⟩
      · split <;> exact ⟨_, rfl, hcrit⟩

/-- the server is gone and some node still lives: a downward critical delivery is enabled -/
theorem progress_down {t : Topo} (wf : t.WF) {s : State} (hi : Inv t s) (h0 : s.gone 0 = true)
    {n : Nat} (hn : n < t.n) (hn0 : n ≠ 0) (hg : s.gone n = false) :
    ∃ l s', step t s l = some s' ∧ isDownCrit t s l = true := by
  obtain ⟨m, hm0, hmn, hgm, hpm⟩ := find_down wf h0 (n + 1) n (by omega) hn0 hg
  exact reader_enabled_eof hi (by omega) hm0 hgm hpm

theorem dweight_le (t : Topo) (s : State) (i : Nat) : dweight t s i ≤ (s.inbox i).length + 2 := by
  unfold dweight b2n
  split
  · omega
  · split <;> omega

theorem dweight_pos {t : Topo} {s : State} {n : Nat} (hn0 : n ≠ 0) (hg : s.gone n = false) :
    1 ≤ dweight t s n := by
  unfold dweight
  simp [hn0, hg]
  omega

end BqVerif.Crash
