import BqVerif.Proofs.CircInv3
/-! Every history of editing calls keeps `Inv` (C05_inv_history). -/
namespace BqVerif.Circ

/-- what the arguments of a call must satisfy (guaranteed by constructing
`Operation`s / `Circuit`s through the public constructors) -/
def Call.Ok (radixes : List Nat) : Call → Prop
  | .append o => o.Shape
  | .insert _ o => o.Shape
  | .pop _ => True
  | .replace _ o => o.Shape ∧ o.RadOk radixes
  | .batchReplace items => ∀ it ∈ items, it.2.Shape ∧ it.2.RadOk radixes
  | .popCycle _ => True
  | .batchPop _ => True
  | .appendCircuit sub loc => ∀ o ∈ sub.ops, (o.mapLoc loc).Shape
  | .insertCircuit _ sub loc => ∀ o ∈ sub.ops, (o.mapLoc loc).Shape
  | .replaceWithCircuit _ sub =>
      ∀ loc : List Nat, loc.Nodup → loc.length = sub.numQudits →
        ∀ o ∈ sub.ops, (o.mapLoc loc).Shape
  | .compress => True
  | .clear => True

theorem pop_ok_mem (c : Circ) (p : Int × Int) (c1 : Circ) (o : Op)
    (h : c.pop (some p) = (c1, .ok o)) : o ∈ c.ops := by
  unfold Circ.pop at h
  dsimp only at h
  cases hg : c.getOp p with
  | error e => rw [hg] at h; simp at h
  | ok r =>
    obtain ⟨k, q, old⟩ := r
    rw [hg] at h
    simp only [Prod.mk.injEq, Except.ok.injEq] at h
    obtain ⟨hlt, hmem, _, _⟩ := getOp_ok c p k q old hg
    rw [← h.2]
    simp only [Circ.ops, List.mem_flatten]
    exact ⟨_, List.getElem_mem hlt, hmem⟩

theorem replaceWithCircuit_inv (c sub : Circ) (p : Int × Int) (hinv : c.Inv)
    (hs : ∀ loc : List Nat, loc.Nodup → loc.length = sub.numQudits →
      ∀ o ∈ sub.ops, (o.mapLoc loc).Shape) : (c.replaceWithCircuit p sub).1.Inv := by
  unfold Circ.replaceWithCircuit
  split
  · exact hinv
  · dsimp only
    generalize hp' : ((↑(normIdx c.numCycles p.1) : Int), (↑(normIdx c.numQudits p.2) : Int)) = p'
    have h1 := pop_inv c (some p') hinv
    cases hp : c.pop (some p') with
    | mk c1 r =>
      rw [hp] at h1
      dsimp only
      cases r with
      | error e => exact h1
      | ok o =>
        dsimp only
        split
        · exact h1
        · rename_i hlen
          split
          · exact h1
          · have hmem := pop_ok_mem c p' c1 o hp
            simp only [Circ.ops, List.mem_flatten] at hmem
            obtain ⟨cy, hcy, ho⟩ := hmem
            have hwf := hinv.2.2 cy hcy o ho
            have hlen' : o.loc.length = sub.numQudits := by
              have : ¬ (sub.numQudits != o.loc.length) = true := hlen
              simp at this; omega
            exact insertCircuit_inv c1 sub _ o.loc h1 (hs o.loc hwf.2.1 hlen')

theorem step_inv (c : Circ) (call : Call) (hinv : c.Inv) (hok : call.Ok c.radixes) :
    (c.step call).Inv := by
  cases call with
  | append o => exact append_inv c o hinv hok
  | insert ci o => exact insert_inv c ci o hinv hok
  | pop p => exact pop_inv c p hinv
  | replace p o => exact replace_inv c p o hinv hok.1 hok.2
  | batchReplace items => exact batchReplace_inv c items hinv hok
  | popCycle ci => exact popCycle_inv c ci hinv
  | batchPop pts => exact batchPop_inv c pts hinv
  | appendCircuit sub loc => exact appendCircuit_inv c sub loc hinv hok
  | insertCircuit ci sub loc => exact insertCircuit_inv c sub ci loc hinv hok
  | replaceWithCircuit p sub => exact replaceWithCircuit_inv c sub p hinv hok
  | compress => exact compress_inv c hinv
  | clear =>
    show Circ.Inv ⟨c.radixes, []⟩
    exact ⟨by simp, by simp, by simp⟩

theorem removeAt_fold_radixes (l : List (Nat × Op)) (c : Circ) :
    (l.foldl (fun (c : Circ) (x : Nat × Op) => c.removeAt x.1 x.2.head) c).radixes = c.radixes := by
  induction l generalizing c with
  | nil => rfl
  | cons a t ih => simp only [List.foldl_cons]; rw [ih, removeAt_radixes]

theorem appendCircuit_radixes (c sub : Circ) (loc : List Nat) :
    (c.appendCircuit sub loc).1.radixes = c.radixes := by
  simp only [Circ.appendCircuit]
  split
  · rfl
  · have key : ∀ (l : List Op) (acc : Circ × Except Err Unit),
        (l.foldl (fun (acc : Circ × Except Err Unit) o =>
          match acc.2 with
          | .error _ => acc
          | .ok () =>
            let (c', r) := acc.1.append (o.mapLoc loc)
            (c', r.map (fun _ => ()))) acc).1.radixes = acc.1.radixes := by
      intro l
      induction l with
      | nil => intro acc; rfl
      | cons a t ih =>
        intro acc
        simp only [List.foldl_cons]
        obtain ⟨ac, ar⟩ := acc
        cases ar with
        | error e => exact ih _
        | ok u => cases u; rw [ih]; exact append_radixes _ _
    exact key _ _

theorem insertCircuit_radixes (c sub : Circ) (ci : Int) (loc : List Nat) :
    (c.insertCircuit ci sub loc).1.radixes = c.radixes := by
  simp only [Circ.insertCircuit]
  generalize c.resolveCycle ci = ci
  have keyI : ∀ (l : List Op) (acc : Circ × Except Err Unit),
      (l.foldl (fun (acc : Circ × Except Err Unit) o =>
        match acc.2 with
        | .error _ => acc
        | .ok () => acc.1.insert ci (o.mapLoc loc)) acc).1.radixes = acc.1.radixes := by
    intro l
    induction l with
    | nil => intro acc; rfl
    | cons a t ih =>
      intro acc
      simp only [List.foldl_cons]
      obtain ⟨ac, ar⟩ := acc
      cases ar with
      | error e => exact ih _
      | ok u => cases u; rw [ih]; exact insert_radixes _ _ _
  split
  · rfl
  · split
    · exact appendCircuit_radixes _ _ _
    · exact keyI _ _

theorem step_radixes (c : Circ) (call : Call) : (c.step call).radixes = c.radixes := by
  cases call with
  | append o => exact append_radixes c o
  | insert ci o => exact insert_radixes c ci o
  | pop p => exact pop_radixes c p
  | replace p o => exact replace_radixes c p o
  | batchReplace items =>
    simp only [Circ.step, Circ.batchReplace]
    split
    · rfl
    · skip
      have key : ∀ (l : List ((Int × Int) × Op)) (n0 : Int) (acc : Circ × Except Err Unit),
          (l.foldl (fun (acc : Circ × Except Err Unit) item =>
            match acc.2 with
            | .error _ => acc
            | .ok () =>
              let shrink : Int := n0 - (acc.1.numCycles : Int)
              acc.1.replace (item.1.1 - shrink, item.1.2) item.2) acc).1.radixes = acc.1.radixes := by
        intro l n0
        induction l with
        | nil => intro acc; rfl
        | cons a t ih =>
          intro acc
          simp only [List.foldl_cons]
          obtain ⟨ac, ar⟩ := acc
          cases ar with
          | error e => exact ih _
          | ok u => cases u; rw [ih]; exact replace_radixes _ _ _
      exact key _ _ _
  | popCycle ci => simp only [Circ.step, Circ.popCycle]; split <;> rfl
  | batchPop pts =>
    simp only [Circ.step, Circ.batchPop]
    split
    · rfl
    · skip
      split
      · rfl
      · exact removeAt_fold_radixes _ _
  | appendCircuit sub loc => exact appendCircuit_radixes c sub loc
  | insertCircuit ci sub loc => exact insertCircuit_radixes c sub ci loc
  | replaceWithCircuit p sub =>
    have hic : ∀ (c1 : Circ) (ci : Int) (loc : List Nat),
        (c1.insertCircuit ci sub loc).1.radixes = c1.radixes :=
      fun c1 ci loc => insertCircuit_radixes c1 sub ci loc
    simp only [Circ.step, Circ.replaceWithCircuit]
    split
    · rfl
    · skip
      generalize ((↑(normIdx c.numCycles p.1) : Int), (↑(normIdx c.numQudits p.2) : Int)) = p'
      have h1 := pop_radixes c (some p')
      cases hp : c.pop (some p') with
      | mk c1 r =>
        rw [hp] at h1
        dsimp only
        cases r with
        | error e => exact h1
        | ok o =>
          dsimp only
          split
          · exact h1
          · split
            · exact h1
            · rw [hic]; exact h1
  | compress =>
    simp only [Circ.step, Circ.compress]
    have key : ∀ (l : List Op) (acc : Circ),
        (l.foldl (fun acc o => (acc.appendCore o).1) acc).radixes = acc.radixes := by
      intro l
      induction l with
      | nil => intro acc; rfl
      | cons a t ih => intro acc; simp only [List.foldl_cons]; rw [ih, appendCore_radixes]
    exact key _ _
  | clear => rfl

theorem run_inv (c : Circ) (h : List Call) (hinv : c.Inv) (hok : ∀ call ∈ h, call.Ok c.radixes) :
    (c.run h).Inv ∧ (c.run h).radixes = c.radixes := by
  induction h generalizing c with
  | nil => exact ⟨hinv, rfl⟩
  | cons a t ih =>
    simp only [Circ.run, List.foldl_cons]
    have h1 := step_inv c a hinv (hok a (by simp))
    have h2 := step_radixes c a
    have := ih (c.step a) h1 (by
      intro call hc
      rw [h2]; exact hok call (by simp [hc]))
    exact ⟨this.1, by rw [← h2]; exact this.2⟩

end BqVerif.Circ
