import BqVerif.Model.AcceptGrid
/-! C10 — `get_tree_circs` on the cycle grid (code after fix 513afaa): in BOTH scan directions the
cycle index the code computes addresses the operation the iteration is looking at, so the pop never
raises and removes exactly that operation. -/
namespace BqVerif.AcceptGrid

def keep (D : List Nat) (cy : List GOp) : List GOp := cy.filter fun x => !D.contains x.tag

theorem del_def (D : List Nat) (g : Grid) :
    del D g = (g.map (keep D)).filter fun cy => !cy.isEmpty := rfl

theorem del_append (D : List Nat) (a b : Grid) : del D (a ++ b) = del D a ++ del D b := by
  simp [del_def, List.map_append, List.filter_append]

theorem del_single_of_ne (D : List Nat) (cy : List GOp) (h : keep D cy ≠ []) :
    del D [cy] = [keep D cy] := by
  have : (keep D cy).isEmpty = false := by
    cases hk : keep D cy with
    | nil => exact absurd hk h
    | cons a t => rfl
  simp [del_def, this]

theorem del_single_of_nil (D : List Nat) (cy : List GOp) (h : keep D cy = []) :
    del D [cy] = [] := by
  simp [del_def, h]

theorem keep_cons (t : Nat) (D : List Nat) (cy : List GOp) :
    (keep D cy).filter (fun x => x.tag != t) = keep (t :: D) cy := by
  simp only [keep, List.filter_filter]
  apply List.filter_congr
  intro x _
  simp only [List.contains_cons]
  cases h1 : (x.tag == t) <;> cases h2 : D.contains x.tag <;> simp [bne, h1, h2]

theorem keep_cons_of_absent (t : Nat) (D : List Nat) (cy : List GOp)
    (h : ∀ x ∈ cy, x.tag ≠ t) : keep (t :: D) cy = keep D cy := by
  simp only [keep]
  apply List.filter_congr
  intro x hx
  have : (x.tag == t) = false := by simpa using h x hx
  show (!(t :: D).contains x.tag) = (!D.contains x.tag)
  rw [List.contains_cons, this, Bool.false_or]

theorem del_cons_of_absent (t : Nat) (D : List Nat) (g : Grid)
    (h : ∀ cy ∈ g, ∀ x ∈ cy, x.tag ≠ t) : del (t :: D) g = del D g := by
  simp only [del_def]
  congr 1
  apply List.map_congr_left
  intro cy hcy
  exact keep_cons_of_absent t D cy (h cy hcy)

theorem find_unique (l : List GOp) (p : GOp → Bool) (o : GOp) (ho : o ∈ l) (hp : p o = true)
    (hu : ∀ x ∈ l, p x = true → x = o) : l.find? p = some o := by
  induction l with
  | nil => cases ho
  | cons a t ih =>
    by_cases ha : p a = true
    · have e : a = o := hu a List.mem_cons_self ha
      subst e
      simp [List.find?_cons, ha]
    · have hne : a ≠ o := fun e => ha (e ▸ hp)
      have ho' : o ∈ t := by
        rcases List.mem_cons.mp ho with e | m
        · exact absurd e.symm hne
        · exact m
      have := ih ho' (fun x hx => hu x (List.mem_cons_of_mem _ hx))
      simp [List.find?_cons, ha, this]

theorem eraseIdx_mid (A B : Grid) (x : List GOp) : (A ++ x :: B).eraseIdx A.length = A ++ B := by
  induction A with
  | nil => rfl
  | cons a t ih => simp [List.eraseIdx_cons_succ, ih]

theorem set_mid (A B : Grid) (x y : List GOp) : (A ++ x :: B).set A.length y = A ++ y :: B := by
  induction A with
  | nil => rfl
  | cons a t ih => simp [ih]

theorem getElem?_mid (A B : Grid) (x : List GOp) : (A ++ x :: B)[A.length]? = some x := by
  induction A with
  | nil => rfl
  | cons a t ih => simpa using ih

/-- `pop` at a natural in-range cycle index. -/
theorem pop_mid (A B : Grid) (cy : List GOp) (o : GOp) (q : Nat)
    (hf : cy.find? (fun o => o.loc.contains q) = some o) :
    pop (A ++ cy :: B) (A.length : Int) q =
      if (cy.filter fun x => x.tag != o.tag).isEmpty then some (A ++ B)
      else some (A ++ (cy.filter fun x => x.tag != o.tag) :: B) := by
  unfold pop
  have h1 : ¬ ((A.length : Int) < -((A ++ cy :: B).length : Int) ∨
      (A.length : Int) ≥ ((A ++ cy :: B).length : Int)) := by
    simp only [List.length_append, List.length_cons]
    omega
  have h2 : ¬ ((A.length : Int) < 0) := by omega
  simp only [h1, if_false, h2, Int.toNat_natCast, getElem?_mid, hf, eraseIdx_mid, set_mid]

/-- Well-formed circuit grid: no empty cycle, pairwise distinct tags, disjoint locations inside a
cycle (the three `Circuit` invariants). -/
structure WF (g : Grid) : Prop where
  nonempty : ∀ cy ∈ g, cy ≠ []
  nodup : (tags g).Nodup
  disjoint : ∀ cy ∈ g, ∀ x ∈ cy, ∀ x' ∈ cy, ∀ q, q ∈ x.loc → q ∈ x'.loc → x = x'

/-- The heart: in the circuit `pre ++ cy :: post` with the tags `D` deleted, cycle `cy` sits at index
`(del D pre).length`; popping `(that index, q)` for a qudit `q` of a surviving operation `o` of `cy`
removes exactly `o`. -/
theorem pop_del_split (pre post : Grid) (cy : List GOp) (o : GOp) (D : List Nat) (q : Nat)
    (ho : o ∈ cy) (hoD : o.tag ∉ D) (hq : q ∈ o.loc)
    (hdis : ∀ x ∈ cy, ∀ x' ∈ cy, ∀ q, q ∈ x.loc → q ∈ x'.loc → x = x')
    (hpre : ∀ cy' ∈ pre, ∀ x ∈ cy', x.tag ≠ o.tag)
    (hpost : ∀ cy' ∈ post, ∀ x ∈ cy', x.tag ≠ o.tag) :
    pop (del D (pre ++ cy :: post)) ((del D pre).length : Int) q =
      some (del (o.tag :: D) (pre ++ cy :: post)) := by
  have hok : o ∈ keep D cy := by
    simp only [keep, List.mem_filter]
    exact ⟨ho, by simpa using hoD⟩
  have hne : keep D cy ≠ [] := List.ne_nil_of_mem hok
  have hsplit : ∀ D', del D' (pre ++ cy :: post) = del D' pre ++ (del D' [cy] ++ del D' post) := by
    intro D'
    have : pre ++ cy :: post = pre ++ ([cy] ++ post) := by simp
    rw [this, del_append, del_append]
  have hfind : (keep D cy).find? (fun o => o.loc.contains q) = some o := by
    apply find_unique _ _ o hok (by simpa using hq)
    intro x hx hpx
    have hx' : x ∈ cy := (List.mem_filter.mp hx).1
    exact hdis x hx' o ho q (by simpa using hpx) hq
  rw [hsplit D, del_single_of_ne D cy hne]
  simp only [List.singleton_append]
  rw [pop_mid _ _ _ o q hfind, keep_cons]
  rw [hsplit (o.tag :: D), del_cons_of_absent _ _ pre hpre, del_cons_of_absent _ _ post hpost]
  by_cases hemp : (keep (o.tag :: D) cy).isEmpty = true
  · have : keep (o.tag :: D) cy = [] := List.isEmpty_iff.mp hemp
    simp [hemp, del_single_of_nil _ _ this]
  · have hne' : keep (o.tag :: D) cy ≠ [] := fun e => hemp (by simp [e])
    simp [hemp, del_single_of_ne _ _ hne']

theorem del_length_of_survive (D : List Nat) (g : Grid) (h : ∀ cy ∈ g, keep D cy ≠ []) :
    (del D g).length = g.length := by
  induction g with
  | nil => rfl
  | cons a t ih =>
    have : del D (a :: t) = del D [a] ++ del D t := by
      have : a :: t = [a] ++ t := rfl
      rw [this, del_append]
    rw [this, del_single_of_ne D a (h a List.mem_cons_self)]
    simp [ih (fun cy hcy => h cy (List.mem_cons_of_mem _ hcy))]

/-- Scanning RIGHT TO LEFT (no shift): if every cycle before `cy` still has an operation, the
original cycle index addresses `cy`. -/
theorem popShift_right (pre post : Grid) (cy : List GOp) (o : GOp) (D : List Nat) (q orig : Nat)
    (ho : o ∈ cy) (hoD : o.tag ∉ D) (hq : q ∈ o.loc)
    (hdis : ∀ x ∈ cy, ∀ x' ∈ cy, ∀ q, q ∈ x.loc → q ∈ x'.loc → x = x')
    (hpre : ∀ cy' ∈ pre, ∀ x ∈ cy', x.tag ≠ o.tag)
    (hpost : ∀ cy' ∈ post, ∀ x ∈ cy', x.tag ≠ o.tag)
    (hsurv : ∀ cy' ∈ pre, keep D cy' ≠ []) :
    popShift false orig (del D (pre ++ cy :: post)) ⟨pre.length, q⟩ =
      some (del (o.tag :: D) (pre ++ cy :: post)) := by
  unfold popShift
  have := pop_del_split pre post cy o D q ho hoD hq hdis hpre hpost
  rw [del_length_of_survive D pre hsurv] at this
  simpa using this

/-- Scanning LEFT TO RIGHT (shift = number of emptied cycles): if every cycle after `cy` still has
an operation, the shifted index addresses `cy`. -/
theorem popShift_left (pre post : Grid) (cy : List GOp) (o : GOp) (D : List Nat) (q : Nat)
    (ho : o ∈ cy) (hoD : o.tag ∉ D) (hq : q ∈ o.loc)
    (hdis : ∀ x ∈ cy, ∀ x' ∈ cy, ∀ q, q ∈ x.loc → q ∈ x'.loc → x = x')
    (hpre : ∀ cy' ∈ pre, ∀ x ∈ cy', x.tag ≠ o.tag)
    (hpost : ∀ cy' ∈ post, ∀ x ∈ cy', x.tag ≠ o.tag)
    (hsurv : ∀ cy' ∈ post, keep D cy' ≠ []) :
    popShift true (pre ++ cy :: post).length (del D (pre ++ cy :: post)) ⟨pre.length, q⟩ =
      some (del (o.tag :: D) (pre ++ cy :: post)) := by
  unfold popShift
  have hmain := pop_del_split pre post cy o D q ho hoD hq hdis hpre hpost
  have hok : o ∈ keep D cy := by
    simp only [keep, List.mem_filter]
    exact ⟨ho, by simpa using hoD⟩
  have hlen : (del D (pre ++ cy :: post)).length = (del D pre).length + 1 + post.length := by
    have : pre ++ cy :: post = pre ++ ([cy] ++ post) := by simp
    rw [this, del_append, del_append, del_single_of_ne D cy (List.ne_nil_of_mem hok)]
    simp only [List.length_append, List.length_cons, List.length_nil]
    rw [del_length_of_survive D post hsurv]
    omega
  have hidx : ((pre.length : Nat) : Int) - (if true = true then
      (((pre ++ cy :: post).length : Nat) : Int) -
        (((del D (pre ++ cy :: post)).length : Nat) : Int) else 0) =
      (((del D pre).length : Nat) : Int) := by
    rw [hlen]
    simp only [List.length_append, List.length_cons, if_true]
    omega
  simp only at hidx ⊢
  rw [hidx]
  exact hmain

/-! ### from one pop to the whole of `get_tree_circs` -/

theorem tags_append (a b : Grid) : tags (a ++ b) = tags a ++ tags b := by simp [tags]

theorem mem_tags_of (g : Grid) (cy : List GOp) (x : GOp) (hcy : cy ∈ g) (hx : x ∈ cy) :
    x.tag ∈ tags g := by
  simp only [tags, List.mem_map, List.mem_flatMap, id]
  exact ⟨x, ⟨cy, hcy, hx⟩, rfl⟩

theorem tags_split_ne (g : Grid) (hnd : (tags g).Nodup) (n : Nat) :
    ∀ a ∈ tags (g.take n), ∀ b ∈ tags (g.drop n), a ≠ b := by
  have : tags g = tags (g.take n) ++ tags (g.drop n) := by
    rw [← tags_append, List.take_append_drop]
  rw [this] at hnd
  exact (List.nodup_append.mp hnd).2.2

theorem tags_take_le (g : Grid) (c c' : Nat) (h : c ≤ c') (t : Nat)
    (ht : t ∈ tags (g.take c)) : t ∈ tags (g.take c') := by
  have : g.take c' = (g.take c').take c ++ (g.take c').drop c := (List.take_append_drop _ _).symm
  rw [this, tags_append, List.take_take, Nat.min_eq_left h]
  exact List.mem_append_left _ ht

theorem tags_drop_le (g : Grid) (c c' : Nat) (h : c ≤ c') (t : Nat)
    (ht : t ∈ tags (g.drop c')) : t ∈ tags (g.drop c) := by
  have e : g.drop c' = (g.drop c).drop (c' - c) := by
    rw [List.drop_drop]; congr 1; omega
  have : g.drop c = (g.drop c).take (c' - c) ++ (g.drop c).drop (c' - c) :=
    (List.take_append_drop _ _).symm
  rw [this, tags_append]
  exact List.mem_append_right _ (e ▸ ht)

theorem tag_in_take (g : Grid) (c c' : Nat) (cy : List GOp) (o : GOp) (hc : g[c]? = some cy)
    (ho : o ∈ cy) (h : c < c') : o.tag ∈ tags (g.take c') := by
  have : (g.take c')[c]? = some cy := by rw [List.getElem?_take_of_lt h]; exact hc
  exact mem_tags_of _ cy o (List.mem_of_getElem? this) ho

theorem tag_in_drop (g : Grid) (c c' : Nat) (cy : List GOp) (o : GOp) (hc : g[c]? = some cy)
    (ho : o ∈ cy) (h : c' ≤ c) : o.tag ∈ tags (g.drop c') := by
  have : (g.drop c')[c - c']? = some cy := by
    rw [List.getElem?_drop]
    have : c' + (c - c') = c := by omega
    rw [this]; exact hc
  exact mem_tags_of _ cy o (List.mem_of_getElem? this) ho

/-- The part of the circuit the scan has not reached yet when it looks at cycle `c`. -/
def region (left : Bool) (g : Grid) (c : Nat) : Grid := if left then g.drop (c + 1) else g.take c

theorem split_at (g : Grid) (c : Nat) (cy : List GOp) (h : g[c]? = some cy) :
    g = g.take c ++ cy :: g.drop (c + 1) ∧ (g.take c).length = c := by
  obtain ⟨hc, hcy⟩ := List.getElem?_eq_some_iff.mp h
  refine ⟨?_, ?_⟩
  · rw [← hcy, ← List.drop_eq_getElem_cons hc, List.take_append_drop]
  · rw [List.length_take]; omega

theorem keep_eq_self (D : List Nat) (cy : List GOp) (h : ∀ x ∈ cy, x.tag ∉ D) : keep D cy = cy := by
  simp only [keep]
  apply List.filter_eq_self.mpr
  intro x hx
  simpa using h x hx

/-- One pop of `get_tree_circs`, either direction, in a well-formed circuit: if the deleted tags all
belong to cycles the scan has already passed (or is in), the pop removes the intended operation. -/
theorem popShift_wf (left : Bool) (g : Grid) (wf : WF g) (c : Nat) (cy : List GOp) (o : GOp)
    (q : Nat) (D : List Nat) (hc : g[c]? = some cy) (ho : o ∈ cy) (hq : q ∈ o.loc)
    (hoD : o.tag ∉ D) (hD : ∀ t ∈ D, t ∉ tags (region left g c)) :
    popShift left g.length (del D g) ⟨c, q⟩ = some (del (o.tag :: D) g) := by
  obtain ⟨hg, hlen⟩ := split_at g c cy hc
  have hcyg : cy ∈ g := List.mem_of_getElem? hc
  have hdis := wf.disjoint cy hcyg
  have hpre : ∀ cy' ∈ g.take c, ∀ x ∈ cy', x.tag ≠ o.tag := by
    intro cy' hcy' x hx
    exact tags_split_ne g wf.nodup c _ (mem_tags_of _ cy' x hcy' hx) _
      (tag_in_drop g c c cy o hc ho (Nat.le_refl _))
  have hpost : ∀ cy' ∈ g.drop (c + 1), ∀ x ∈ cy', x.tag ≠ o.tag := by
    intro cy' hcy' x hx e
    exact tags_split_ne g wf.nodup (c + 1) _ (tag_in_take g c (c + 1) cy o hc ho (Nat.lt_succ_self _))
      _ (mem_tags_of _ cy' x hcy' hx) e.symm
  have hsurv : ∀ (r : Grid), (∀ cy' ∈ r, cy' ∈ g) → (∀ t ∈ D, t ∉ tags r) →
      ∀ cy' ∈ r, keep D cy' ≠ [] := by
    intro r hr hDr cy' hcy'
    rw [keep_eq_self D cy' (fun x hx hxD => hDr _ hxD (mem_tags_of r cy' x hcy' hx))]
    exact wf.nonempty cy' (hr cy' hcy')
  cases left with
  | false =>
    have hs := hsurv (g.take c) (fun cy' h => List.mem_of_mem_take h) (by simpa [region] using hD)
    have := popShift_right (g.take c) (g.drop (c + 1)) cy o D q g.length ho hoD hq hdis hpre hpost hs
    rw [hlen, ← hg] at this
    exact this
  | true =>
    have hs := hsurv (g.drop (c + 1)) (fun cy' h => List.mem_of_mem_drop h)
      (by simpa [region] using hD)
    have := popShift_left (g.take c) (g.drop (c + 1)) cy o D q ho hoD hq hdis hpre hpost hs
    rw [hlen, ← hg] at this
    exact this

theorem stepAll_spec (left : Bool) (g : Grid) (co : ChunkOp) (t : Nat) (ds : List (List Nat))
    (h : ∀ D ∈ ds, popShift left g.length (del D g) co = some (del (t :: D) g)) :
    stepAll left g.length co (ds.map fun D => del D g) =
      some ((ds.flatMap fun D => [t :: D, D]).map fun D => del D g) := by
  unfold stepAll
  suffices H : ∀ (acc : List Grid),
      (ds.map fun D => del D g).foldl (stepOne left g.length co) (some acc) =
      some (acc ++ (ds.flatMap fun D => [t :: D, D]).map fun D => del D g) by
    simpa using H []
  induction ds with
  | nil => intro acc; simp
  | cons D rest ih =>
    intro acc
    simp only [List.map_cons, List.foldl_cons, stepOne, h D List.mem_cons_self]
    rw [ih (fun D' hD' => h D' (List.mem_cons_of_mem _ hD'))]
    simp

/-- A chunk element: (cycle in the original circuit, the operation, the qudit the code passes). -/
abbrev Elem := Nat × GOp × Nat

structure ChunkOk (left : Bool) (g : Grid) (ch : List Elem) : Prop where
  located : ∀ x ∈ ch, ∃ cy, g[x.1]? = some cy ∧ x.2.1 ∈ cy ∧ x.2.2 ∈ x.2.1.loc
  distinct : (ch.map fun x => x.2.1.tag).Nodup
  ordered : ch.Pairwise fun a b => if left then a.1 ≤ b.1 else b.1 ≤ a.1

/-- The deletion sets so far only contain operations the scan has passed, none of the chunk. -/
def DsOk (left : Bool) (g : Grid) (ch : List Elem) (ds : List (List Nat)) : Prop :=
  ∀ D ∈ ds, (∀ x ∈ ch, x.2.1.tag ∉ D) ∧ (∀ x ∈ ch, ∀ t ∈ D, t ∉ tags (region left g x.1))

theorem tag_not_in_later_region (left : Bool) (g : Grid) (wf : WF g) (c c' : Nat) (cy : List GOp)
    (o : GOp) (hc : g[c]? = some cy) (ho : o ∈ cy) (h : if left then c ≤ c' else c' ≤ c) :
    o.tag ∉ tags (region left g c') := by
  cases left with
  | true =>
    simp only [region, if_true] at h ⊢
    intro hm
    have hm' := tags_drop_le g (c + 1) (c' + 1) (by omega) _ hm
    exact tags_split_ne g wf.nodup (c + 1) _ (tag_in_take g c (c + 1) cy o hc ho (Nat.lt_succ_self _))
      _ hm' rfl
  | false =>
    simp only [region] at h ⊢
    intro hm
    have hm' := tags_take_le g c' c (by simpa using h) _ hm
    exact tags_split_ne g wf.nodup c _ hm' _ (tag_in_drop g c c cy o hc ho (Nat.le_refl _)) rfl

theorem treeCircs_aux (left : Bool) (g : Grid) (wf : WF g) (ch : List Elem)
    (ds : List (List Nat)) (hch : ChunkOk left g ch) (hds : DsOk left g ch ds) :
    (ch.map fun x => (⟨x.1, x.2.2⟩ : ChunkOp)).foldl
        (fun all co => all.bind (stepAll left g.length co)) (some (ds.map fun D => del D g)) =
      some (((ch.map fun x => x.2.1.tag).foldl (fun ds t => ds.flatMap fun D => [t :: D, D]) ds).map
        fun D => del D g) := by
  induction ch generalizing ds with
  | nil => rfl
  | cons x rest ih =>
    obtain ⟨cy, hc, ho, hq⟩ := hch.located x List.mem_cons_self
    have hstep : stepAll left g.length ⟨x.1, x.2.2⟩ (ds.map fun D => del D g) =
        some ((ds.flatMap fun D => [x.2.1.tag :: D, D]).map fun D => del D g) := by
      apply stepAll_spec
      intro D hD
      exact popShift_wf left g wf x.1 cy x.2.1 x.2.2 D hc ho hq
        ((hds D hD).1 x List.mem_cons_self) ((hds D hD).2 x List.mem_cons_self)
    have hdist : (x.2.1.tag :: rest.map fun y => y.2.1.tag).Nodup := hch.distinct
    have hrest : ChunkOk left g rest :=
      ⟨fun y hy => hch.located y (List.mem_cons_of_mem _ hy),
       (List.nodup_cons.mp hdist).2,
       (List.pairwise_cons.mp hch.ordered).2⟩
    have hds' : DsOk left g rest (ds.flatMap fun D => [x.2.1.tag :: D, D]) := by
      intro D' hD'
      simp only [List.mem_flatMap, List.mem_cons, List.not_mem_nil, or_false] at hD'
      obtain ⟨D, hD, e | e⟩ := hD'
      · rw [e]
        constructor
        · intro y hy hm
          rcases List.mem_cons.mp hm with e | m
          · exact (List.nodup_cons.mp hdist).1 (List.mem_map.mpr ⟨y, hy, e⟩)
          · exact (hds D hD).1 y (List.mem_cons_of_mem _ hy) m
        · intro y hy t ht
          rcases List.mem_cons.mp ht with e | m
          · rw [e]
            exact tag_not_in_later_region left g wf x.1 y.1 cy x.2.1 hc ho
              ((List.pairwise_cons.mp hch.ordered).1 y hy)
          · exact (hds D hD).2 y (List.mem_cons_of_mem _ hy) t m
      · rw [e]
        exact ⟨fun y hy => (hds D hD).1 y (List.mem_cons_of_mem _ hy),
               fun y hy => (hds D hD).2 y (List.mem_cons_of_mem _ hy)⟩
    simp only [List.map_cons, List.foldl_cons, Option.bind_some, hstep]
    exact ih _ hrest hds'

/-- `get_tree_circs` before sorting, started on the circuit with the tags `D0` already deleted:
it never raises and returns, in the code's order, exactly the circuits with `D0` and each subset
of the chunk deleted. -/
theorem treeCircs_spec (left : Bool) (g : Grid) (wf : WF g) (ch : List Elem) (D0 : List Nat)
    (hch : ChunkOk left g ch) (hds : DsOk left g ch [D0]) :
    treeCircs left g.length (del D0 g) (ch.map fun x => ⟨x.1, x.2.2⟩) =
      some ((subsetsCode D0 (ch.map fun x => x.2.1.tag)).map fun D => del D g) := by
  have := treeCircs_aux left g wf ch [D0] hch hds
  simpa [treeCircs, subsetsCode] using this

end BqVerif.AcceptGrid
