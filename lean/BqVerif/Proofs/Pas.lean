import BqVerif.Model.Pas
/- Helper lemmas for the PAS bookkeeping model.  Core Lean only. -/
namespace BqVerif.Pas

theorem product_singleton_right {α β : Type} (a : List α) (y : β) :
    product a [y] = a.map (fun x => (x, y)) := by
  induction a with
  | nil => rfl
  | cons x t ih =>
    simp only [product, List.flatMap_cons, List.map_cons, List.map_nil, List.singleton_append] at ih ⊢
    rw [ih]

theorem product_singleton_left {α β : Type} (x : α) (b : List β) :
    product [x] b = b.map (fun y => (x, y)) := by
  simp [product]

/-- the targets are enumerated in the order of their labels -/
theorem aligned {π : Type} (ip op : Bool) (ps : List π) (idp : π) :
    targetPairs ip op ps idp = labels ip op ps idp := by
  cases ip <;> cases op <;> simp only [targetPairs, labels, if_true, if_false, Bool.false_eq_true]
  · rfl
  · rw [product_singleton_left]
  · rw [product_singleton_right]
  · exact List.map_id' _

theorem selectLoop_mem {α : Type} (score : α → Nat) : ∀ (l : List α) (b : α),
    selectLoop score b l ∈ b :: l
  | [], b => by simp [selectLoop]
  | c :: rest, b => by
    simp only [selectLoop]
    split
    · exact List.mem_cons_of_mem _ (selectLoop_mem score rest c)
    · have := selectLoop_mem score rest b
      rcases List.mem_cons.1 this with h | h
      · rw [h]; simp
      · exact List.mem_cons_of_mem _ (List.mem_cons_of_mem _ h)

theorem selectLoop_le {α : Type} (score : α → Nat) : ∀ (l : List α) (b : α),
    ∀ x ∈ b :: l, score (selectLoop score b l) ≤ score x
  | [], b, x, hx => by
    simp only [List.mem_singleton] at hx
    subst hx; simp [selectLoop]
  | c :: rest, b, x, hx => by
    simp only [selectLoop]
    split
    · rename_i hlt
      have ih := selectLoop_le score rest c
      rcases List.mem_cons.1 hx with h | h
      · subst h
        have := ih c (by simp)
        omega
      · exact ih x h
    · rename_i hge
      have ih := selectLoop_le score rest b
      rcases List.mem_cons.1 hx with h | h
      · subst h; exact ih _ (by simp)
      · rcases List.mem_cons.1 h with h | h
        · subst h
          have := ih b (by simp)
          omega
        · exact ih x (List.mem_cons_of_mem _ h)

theorem select_spec {α : Type} (score : α → Nat) (l : List α) (r : α) (h : select score l = some r) :
    r ∈ l ∧ ∀ x ∈ l, score r ≤ score x := by
  cases l with
  | nil => simp [select] at h
  | cons c rest =>
    simp only [select, Option.some.injEq] at h
    subst h
    exact ⟨selectLoop_mem score rest c, selectLoop_le score rest c⟩

theorem zip_map_mem {α β : Type} (f : α → β) : ∀ (l : List α) (p : α × β),
    p ∈ l.zip (l.map f) → p.2 = f p.1
  | [], p, h => by simp at h
  | a :: t, p, h => by
    simp only [List.map_cons, List.zip_cons_cons, List.mem_cons] at h
    rcases h with h | h
    · subst h; rfl
    · exact zip_map_mem f t p h

theorem mem_zip_map {α β : Type} (f : α → β) : ∀ (l : List α) (a : α), a ∈ l →
    (a, f a) ∈ l.zip (l.map f)
  | [], a, h => by cases h
  | b :: t, a, h => by
    simp only [List.map_cons, List.zip_cons_cons, List.mem_cons]
    rcases List.mem_cons.1 h with h | h
    · subst h; exact Or.inl rfl
    · exact Or.inr (mem_zip_map f t a h)

/-- what `synthesize` returns is the circuit the inner synthesis produced for the target built
    from the REPORTED pair of permutations, and no candidate scores better -/
theorem synthesize_spec {π τ γ : Type} (ip op : Bool) (ps : List π) (idp : π)
    (mkTarget : π → π → τ) (inner : τ → γ) (score : γ → Nat) (l : π × π) (c : γ)
    (h : synthesize ip op ps idp mkTarget inner score = some (l, c)) :
    c = inner (mkTarget l.1 l.2) ∧ l ∈ labels ip op ps idp
    ∧ ∀ l' ∈ labels ip op ps idp, score c ≤ score (inner (mkTarget l'.1 l'.2)) := by
  let g : π × π → γ := fun p => inner (mkTarget p.1 p.2)
  have hz : synthesize ip op ps idp mkTarget inner score
      = select (fun lc => score lc.2) ((labels ip op ps idp).zip ((labels ip op ps idp).map g)) := by
    unfold synthesize
    simp only [aligned, List.map_map]
    rfl
  rw [hz] at h
  obtain ⟨hm, hle⟩ := select_spec _ _ _ h
  have hc := zip_map_mem g _ _ hm
  refine ⟨hc, (List.of_mem_zip hm).1, ?_⟩
  intro l' hl'
  exact hle _ (mem_zip_map g _ l' hl')

/-- ties go to the earliest candidate: everything before the selected one scores strictly worse -/
theorem selectLoop_first {α : Type} (score : α → Nat) : ∀ (l : List α) (b : α),
    ∃ pre post, b :: l = pre ++ selectLoop score b l :: post
      ∧ ∀ x ∈ pre, score (selectLoop score b l) < score x
  | [], b => ⟨[], [], by simp [selectLoop], by simp⟩
  | c :: rest, b => by
    simp only [selectLoop]
    split
    · rename_i hlt
      obtain ⟨pre, post, he, hp⟩ := selectLoop_first score rest c
      refine ⟨b :: pre, post, by rw [List.cons_append, ← he], ?_⟩
      intro x hx
      rcases List.mem_cons.1 hx with h | h
      · subst h
        have := selectLoop_le score rest c c (by simp)
        omega
      · exact hp x h
    · rename_i hge
      obtain ⟨pre, post, he, hp⟩ := selectLoop_first score rest b
      generalize selectLoop score b rest = r at he hp ⊢
      cases pre with
      | nil =>
        simp only [List.nil_append, List.cons.injEq] at he
        refine ⟨[], c :: rest, ?_, by simp⟩
        simp only [List.nil_append]
        rw [← he.1]
      | cons p pre' =>
        simp only [List.cons_append, List.cons.injEq] at he
        obtain ⟨hb, hr⟩ := he
        subst hb
        refine ⟨b :: c :: pre', post, by rw [hr]; rfl, ?_⟩
        intro x hx
        have hbr := hp b (by simp)
        rcases List.mem_cons.1 hx with h | h
        · subst h; exact hbr
        · rcases List.mem_cons.1 h with h | h
          · subst h; omega
          · exact hp x (List.mem_cons_of_mem _ h)

end BqVerif.Pas
