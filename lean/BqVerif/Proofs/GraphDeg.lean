import BqVerif.Proofs.GraphBasic
/-!
Neighbourhoods and degrees (`get_neighbors_of`, `get_qudit_degrees`, `is_linear`):
`adj v` is the sorted duplicate-free list of the vertices joined to `v`, the degree list has one
entry per vertex, and the degree is the number of edges incident with the vertex.
-/
namespace BqVerif.Graph

theorem nodup_subset_length_le {α} [BEq α] [LawfulBEq α] :
    ∀ (l1 l2 : List α), l1.Nodup → (∀ x ∈ l1, x ∈ l2) → l1.length ≤ l2.length
  | [], _, _, _ => by simp
  | a :: t, l2, hnd, hsub => by
    rw [List.nodup_cons] at hnd
    have ha : a ∈ l2 := hsub a (by simp)
    have ht : ∀ x ∈ t, x ∈ l2.erase a := by
      intro x hx
      have hne : x ≠ a := fun e => hnd.1 (e ▸ hx)
      exact (List.mem_erase_of_ne hne).2 (hsub x (by simp [hx]))
    have ih := nodup_subset_length_le t (l2.erase a) hnd.2 ht
    rw [List.length_erase_of_mem ha] at ih
    have : 0 < l2.length := List.length_pos_of_mem ha
    simp only [List.length_cons]
    omega

theorem G.adj_sorted (g : G) (v : Nat) : (g.adj v).Pairwise (· < ·) := by
  unfold G.adj
  exact List.Pairwise.filter _ List.pairwise_lt_range

theorem G.degrees_length (g : G) : g.degrees.length = g.n := by simp [G.degrees]

theorem G.degrees_get (g : G) (v : Nat) (hv : v < g.n) :
    g.degrees.getD v 0 = (g.adj v).length := by
  simp [G.degrees, List.getD_eq_getElem?_getD, hv]

/-- incident edges of `v` -/
def G.incident (g : G) (v : Nat) : List (Nat × Nat) := g.edges.filter (fun e => e.1 == v || e.2 == v)

/-- degree = number of incident edges (edge list duplicate free, as the constructor leaves it) -/
theorem G.degree_eq_incident (g : G) (hwf : g.WF) (hnd : g.edges.Nodup) (v : Nat) :
    (g.adj v).length = (g.incident v).length := by
  apply Nat.le_antisymm
  · -- neighbours inject into incident edges by u ↦ norm (v,u)
    have h1 : ((g.adj v).map (fun u => norm (v, u))).Nodup := by
      rw [List.Nodup, List.pairwise_map]
      refine (g.nodup_adj v).imp ?_
      intro a b hab heq
      rw [norm_eq_iff] at heq
      rcases heq with ⟨_, h⟩ | ⟨h1, h2⟩
      · exact hab h
      · exact hab (by omega)
    have := nodup_subset_length_le _ (g.incident v) h1 (by
      intro e he
      rw [List.mem_map] at he
      obtain ⟨u, hu, rfl⟩ := he
      rw [g.mem_adj] at hu
      unfold G.incident
      rw [List.mem_filter]
      refine ⟨(g.hasEdge_iff v u).1 hu.2, ?_⟩
      unfold norm
      split <;> simp)
    simpa using this
  · -- incident edges inject into neighbours by e ↦ other endpoint
    have hinc : ∀ e ∈ g.incident v, e.1 < e.2 ∧ e.2 < g.n ∧ (e.1 = v ∨ e.2 = v) ∧ e ∈ g.edges := by
      intro e he
      unfold G.incident at he
      rw [List.mem_filter] at he
      have := hwf e he.1
      simp at he
      exact ⟨this.1, this.2, he.2, he.1⟩
    have h1 : ((g.incident v).map (fun e => if e.1 = v then e.2 else e.1)).Nodup := by
      rw [List.Nodup, List.pairwise_map]
      have hnd' : (g.incident v).Nodup := List.Pairwise.filter _ hnd
      refine List.Pairwise.imp_of_mem ?_ hnd'
      intro a b ha hb hab heq
      have hA := hinc a ha
      have hB := hinc b hb
      apply hab
      obtain ⟨a1, a2⟩ := a
      obtain ⟨b1, b2⟩ := b
      simp only at hA hB heq ⊢
      split at heq <;> split at heq <;> (simp only [Prod.mk.injEq]; omega)
    have := nodup_subset_length_le _ (g.adj v) h1 (by
      intro u hu
      rw [List.mem_map] at hu
      obtain ⟨e, he, rfl⟩ := hu
      have hE := hinc e he
      have hedge := g.hasEdge_of_mem hwf hE.2.2.2
      rw [g.mem_adj]
      split
      · rename_i h; rw [← h]; exact ⟨hE.2.1, hedge⟩
      · rename_i h
        have h2 : e.2 = v := by rcases hE.2.2.1 with h' | h'; exact absurd h' h; exact h'
        rw [← h2, G.hasEdge_comm]; exact ⟨by omega, hedge⟩)
    simpa using this

theorem nodup_edges_mk (k : Nat) (raw : List (Nat × Nat)) :
    (G.mk k (raw.map norm).eraseDups).edges.Nodup := nodup_eraseDups _

/-- `is_linear` is exactly the degree condition the code tests (NB: this is weaker than "is a path":
a path plus a disjoint cycle passes). -/
theorem G.isLinear_iff (g : G) :
    g.isLinear = true ↔ 2 ≤ g.n ∧ (∀ v, v < g.n → (g.adj v).length = 1 ∨ (g.adj v).length = 2) ∧
      ((List.range g.n).filter (fun v => (g.adj v).length == 1)).length = 2 := by
  unfold G.isLinear
  by_cases hn : g.n < 2
  · simp [hn]; omega
  · simp only [hn, if_false, G.degrees, Bool.and_eq_true, List.all_eq_true, List.mem_map,
      List.mem_range, Bool.or_eq_true, beq_iff_eq, forall_exists_index, and_imp,
      forall_apply_eq_imp_iff₂, List.filter_map, List.length_map]
    constructor
    · rintro ⟨h1, h2⟩
      exact ⟨by omega, h1, by simpa [Function.comp_def] using h2⟩
    · rintro ⟨_, h1, h2⟩
      exact ⟨h1, by simpa [Function.comp_def] using h2⟩

example : (⟨4, [(0,1),(1,2),(2,3)]⟩ : G).isLinear = true := by decide
/-- the degree test accepts a path plus a disjoint triangle: "linear" here is not "is a path". -/
example : (⟨5, [(0,1),(2,3),(3,4),(2,4)]⟩ : G).isLinear = true := by decide

end BqVerif.Graph
